// In-process line-protocol server over the real dfs code (built from /repo's
// working tree with ASan+UBSan).  One request per line, one response per line;
// the same request file is fed to the Lean driver and the outputs are diffed.
//
// .cc files included directly (to reach internal-linkage functions) are left
// out of the link by tools/vlib.py (it greps the #include "x.cc" lines).
#include <cstdio>
#include <cstdlib>
#include <cstring>
#include <functional>
#include <iostream>
#include <map>
#include <optional>
#include <sstream>
#include <string>
#include <vector>

#include "abstractio.h"
#include "crc.h"
#include "dfs.h"
#include "dfs_catalog.h"
#include "dfs_volume.h"
#include "exceptions.h"
#include "stringutil.h"

using DFS::byte;
typedef std::vector<byte> Bytes;

static std::string hex(const Bytes& b)
{
  if (b.empty()) return "-";
  static const char* d = "0123456789abcdef";
  std::string s;
  for (byte x : b) { s.push_back(d[x >> 4]); s.push_back(d[x & 15]); }
  return s;
}
static std::string hex(const std::string& b)
{
  return hex(Bytes(b.begin(), b.end()));
}
static bool unhex(const std::string& s, Bytes* out)
{
  out->clear();
  if (s == "-") return true;
  if (s.size() % 2) return false;
  auto v = [](char c) -> int {
    if (c >= '0' && c <= '9') return c - '0';
    if (c >= 'a' && c <= 'f') return c - 'a' + 10;
    if (c >= 'A' && c <= 'F') return c - 'A' + 10;
    return -1; };
  for (size_t i = 0; i < s.size(); i += 2)
    {
      int a = v(s[i]), b = v(s[i+1]);
      if (a < 0 || b < 0) return false;
      out->push_back(static_cast<byte>(a * 16 + b));
    }
  return true;
}

static std::vector<std::string> split(const std::string& s)
{
  std::vector<std::string> r;
  std::istringstream is(s);
  std::string w;
  while (is >> w) r.push_back(w);
  return r;
}

typedef std::vector<std::string> Args;

static std::string op_infoline(const Args& a)
{
  Bytes b;
  if (a.size() != 2 || !unhex(a[1], &b) || b.size() != 16) return "bad-op";
  DFS::CatalogEntry e(b.data(), b.data() + 8);
  std::ostringstream os;
  os << e;
  return hex(os.str());
}

static std::string op_fields(const Args& a)
{
  Bytes b;
  if (a.size() != 2 || !unhex(a[1], &b) || b.size() != 16) return "bad-op";
  DFS::CatalogEntry e(b.data(), b.data() + 8);
  std::ostringstream os;
  os << e.load_address() << " " << e.exec_address() << " " << e.file_length() << " "
     << e.start_sector() << " " << e.last_sector() << " " << (e.is_locked() ? 1 : 0) << " "
     << static_cast<unsigned>(static_cast<unsigned char>(e.directory())) << " " << hex(e.name());
  return os.str();
}

// The real main() (option parsing, exception boundary) under another name.
#define main dfs_real_main
#include "main.cc"
#undef main

#include "harness_ops.inc"

int main()
{
  std::map<std::string, std::function<std::string(const Args&)>> ops;
  ops["infoline"] = op_infoline;
  ops["fields"] = op_fields;
  register_more_ops(ops);
  std::string line;
  while (std::getline(std::cin, line))
    {
      Args a = split(line);
      std::string r;
      if (a.empty() || !ops.count(a[0])) r = "bad-op";
      else
	{
	  try { r = ops[a[0]](a); }
	  catch (const DFS::BaseException& e) { r = std::string("exc dfs ") + hex(std::string(e.what())); }
	  catch (const std::exception& e) { r = std::string("exc std ") + hex(std::string(e.what())); }
	  catch (...) { r = "exc other"; }
	}
      std::cout << r << "\n" << std::flush;
    }
  return 0;
}
