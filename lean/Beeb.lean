import Beeb.Props.C02
