import Beeb.Props.C01
import Beeb.Props.C02
import Beeb.Props.C04
import Beeb.Props.C14
import Beeb.Props.C16
import Beeb.Props.C17
