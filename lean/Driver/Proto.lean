/- Line-protocol helpers for the model driver. -/
import Beeb.Model.Base

namespace Driver
open Beeb

def hexVal (c : Char) : Option Nat :=
  if '0' ≤ c && c ≤ '9' then some (c.toNat - 48)
  else if 'a' ≤ c && c ≤ 'f' then some (c.toNat - 87)
  else if 'A' ≤ c && c ≤ 'F' then some (c.toNat - 55)
  else none

partial def unhexAux : List Char → Array Nat → Option (Array Nat)
  | [], acc => some acc
  | [_], _ => none
  | a :: b :: rest, acc =>
    match hexVal a, hexVal b with
    | some x, some y => unhexAux rest (acc.push (x * 16 + y))
    | _, _ => none

/-- "-" is the empty string -/
def unhex (s : String) : Option Bytes :=
  if s == "-" then some [] else (unhexAux s.toList #[]).map Array.toList

def hexChar (d : Nat) : Char := Char.ofNat (if d < 10 then 48 + d else 87 + d)

def hex (b : Bytes) : String :=
  if b.isEmpty then "-" else
  String.ofList (b.foldr (fun x acc => hexChar (x / 16 % 16) :: hexChar (x % 16) :: acc) [])

def natOf (s : String) : Option Nat := s.toNat?

def showBool (b : Bool) : String := if b then "1" else "0"

end Driver
