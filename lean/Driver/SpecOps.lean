/-
`spec …` requests: the driver evaluates the *specification* functions of Beeb/Spec — the functions the
property theorems are stated against — so that on every run the Python oracles that search for failing
inputs are compared, case by case, with the Lean specs (the oracle–spec tie; tools/vlib.py `spec_tie`).
-/
import Driver.Proto
import Beeb.Spec.Afsp
import Beeb.Spec.Body
import Beeb.Spec.Cat
import Beeb.Spec.Container
import Beeb.Spec.Info
import Beeb.Spec.Layout
import Beeb.Spec.BasicProg
import Beeb.Spec.FluxEnc
import Beeb.Generated.TokensDoc

namespace Driver
open Beeb

def nats (l : List String) : Option (List Nat) := l.mapM (·.toNat?)

def parseExtents (s : String) : Option (List Spec.Extent) :=
  if s == "-" then some [] else
  (s.splitOn ",").mapM fun it =>
    match it.splitOn ":" with
    | [a, b] => match a.toNat?, b.toNat? with
      | some a, some b => some { start := a, size := b }
      | _, _ => none
    | _ => none

def showNats (l : List Nat) : String := if l.isEmpty then "-" else String.intercalate "," (l.map toString)

/-- items: `l<c>` `t<k>` `e<a>.<b>` `q` `o` `r<n>` `s<hex>.<0|1>` -/
def parseItem (s : String) : Option Spec.Item :=
  match s.toList with
  | 'l' :: r => (String.ofList r).toNat?.map .lit
  | 't' :: r => (String.ofList r).toNat?.map .tok
  | 'e' :: r => match (String.ofList r).splitOn "." with
    | [a, b] => match a.toNat?, b.toNat? with
      | some a, some b => some (.ext a b)
      | _, _ => none
    | _ => none
  | ['q'] => some .pdpQuit
  | ['o'] => some .pdpLoad
  | 'r' :: r => (String.ofList r).toNat?.map .lineRef
  | 's' :: r => match (String.ofList r).splitOn "." with
    | [h, c] => (unhex h).map fun b => .str b (c == "1")
    | _ => none
  | _ => none

/-- program: lines separated by `;`, each `<num>:<item>,<item>…` (`<num>:` for an empty line); `-` is the empty program -/
def parseProgram (s : String) : Option Spec.Program :=
  if s == "-" then some [] else
  (s.splitOn ";").mapM fun ln =>
    match ln.splitOn ":" with
    | [n, its] => match n.toNat? with
      | some n => (if its == "" then some [] else (its.splitOn ",").mapM parseItem).map fun l => { num := n, items := l }
      | none => none
    | _ => none

/-- the *documented* token tables (doc/ golden map shipped in /repo), dialect index 0..5 -/
def docTables (d : Nat) : Spec.Tables :=
  let m : Array (Array Tok) := Beeb.Spec.docTable.getD d #[]
  { base := m.getD 0 #[], c6 := m.getD 1 #[], c7 := m.getD 2 #[], c8 := m.getD 3 #[] }

def opSpec (args : List String) : String :=
  match args with
  | ["wild", hp, hs] =>
    match unhex hp, unhex hs with
    | some p, some s => showBool (Spec.wildMatch p s)
    | _, _ => "bad-op"
  | ["type", h] => match unhex h with | some b => hex (Spec.typeText b) | none => "bad-op"
  | ["list", h] => match unhex h with | some b => hex (Spec.listSpec b) | none => "bad-op"
  | ["dump", h] => match unhex h with | some b => hex (Spec.dumpSpec b) | none => "bad-op"
  | ["sectorsfor", n] => match n.toNat? with | some n => toString (Spec.sectorsFor n) | none => "bad-op"
  | ["title", h0, h1] =>
    match unhex h0, unhex h1 with
    | some a, some b => hex (Spec.title a b)
    | _, _ => "bad-op"
  | ["catbefore", cur, d1, n1, d2, n2] =>
    match cur.toNat?, d1.toNat?, unhex n1, d2.toNat?, unhex n2 with
    | some c, some d1, some n1, some d2, some n2 => showBool (Spec.catBefore c d1 n1 d2 n2)
    | _, _, _, _, _ => "bad-op"
  | ["xmodem", h] => match unhex h with | some b => toString (Spec.xmodem b) | none => "bad-op"
  | ["ccitt", h] => match unhex h with | some b => hex (Spec.Flux.crcBytes b) | none => "bad-op"
  | ["signext", n] => match n.toNat? with | some n => toString (Spec.signExt18to24 n) | none => "bad-op"
  | ["shownname", h] => match unhex h with | some b => hex (Spec.shownName b) | none => "bad-op"
  | "offni" :: r => match nats r with
    | some [cyls, spt, side, t, s] => toString (Spec.offsetNonInterleaved cyls spt side t s)
    | _ => "bad-op"
  | "offil" :: r => match nats r with
    | some [spt, side, t, s] => toString (Spec.offsetInterleaved spt side t s)
    | _ => "bad-op"
  | "offmmb" :: r => match nats r with
    | some [slot, t, s] => toString (Spec.offsetMmb slot t s)
    | _ => "bad-op"
  | ["slotpresent", st] => match st.toNat? with | some st => showBool (decide (Spec.slotPresent st)) | none => "bad-op"
  | ["layout", cat, total, xs] =>
    match cat.toNat?, total.toNat?, parseExtents xs with
    | some c, some t, some l =>
      s!"runs={showNats (Spec.runsFrom c t l)} owned={Spec.ownedSectors l} used={Spec.usedSectors c l}"
    | _, _, _ => "bad-op"
  | ["basic", d, listo, prog] =>
    match d.toNat?, listo.toNat?, parseProgram prog with
    | some d, some lo, some p =>
      s!"{hex (Spec.encodeBE p)} {hex (Spec.encodeLE p)} {hex (Spec.render (docTables d) lo p)}"
    | _, _, _ => "bad-op"
  | ["lineref", n] => match n.toNat? with | some n => hex (Spec.encodeRef n) | none => "bad-op"
  | _ => "bad-op"

end Driver
