/-
beebdrv: line-protocol driver over the executable model and the specs.
One request per line `<op> <args…>`; one response line per request.
-/
import Driver.Proto
import Beeb.Model.Catalog
import Beeb.Spec.Info
import Beeb.Model.Main
import Beeb.Model.Basic
import Std.Data.HashMap

open Beeb Driver

def opInfoLine (args : List String) : String :=
  match args with
  | [h] =>
    match unhex h with
    | some b =>
      if b.length != 16 then "bad-op" else
      let nm := arr (b.take 8); let mt := arr (b.drop 8)
      s!"{hex (infoLineOf nm mt)} {hex (Spec.infoLine (Spec.decodeFields nm mt))}"
    | none => "bad-op"
  | _ => "bad-op"

def opFields (args : List String) : String :=
  match args with
  | [h] =>
    match unhex h with
    | some b =>
      if b.length != 16 then "bad-op" else
      let e : Entry := { name := b.take 8, md := b.drop 8 }
      let f := Spec.decodeFields e.n e.m
      s!"{e.loadAddress} {e.execAddress} {e.fileLength} {e.startSector} {e.lastSector} {showBool e.isLocked} {e.directory} {hex e.nameStr}" ++
      s!" | {f.load} {f.exec} {f.len} {f.start} {showBool f.locked} {f.dir} {hex (Spec.shownName f.name)}"
    | none => "bad-op"
  | _ => "bad-op"

def sectorsOfByteArray (b : ByteArray) : Array Sector := Id.run do
  let n := b.size / 256
  let mut out : Array Sector := Array.mkEmpty n
  for i in [0:n] do
    let mut s : List Nat := []
    for j in [0:256] do
      s := (b.get! (i * 256 + 255 - j)).toNat :: s
    out := out.push s
  return out

structure DState where
  files : List (Bytes × HostFile) := []
  bfiles : List (Bytes × Bytes) := []
  bstdin : Bytes := []

def hostFs (st : DState) : HostFs := fun p =>
  match st.files.find? (fun e => e.1 == p) with
  | some e => e.2
  | none => .missing

def showFiles (fs : List (Bytes × Bytes)) : String :=
  if fs.isEmpty then "-" else String.intercalate "," (fs.map (fun p => hex p.1 ++ ":" ++ hex p.2))

def showRun (r : RunRes) : String :=
  match r.unmodelled with
  | some w => s!"unmodelled {w}"
  | none =>
    let crash := match r.crash with | some s => hex (strBytes s) | none => "-"
    s!"exit={r.exit} err={showBool r.err} out={hex r.out} files={showFiles r.files} crash={crash}"

/-- `main <ndebug 0/1> <cols or -> <argv as hex words…>` -/
def opMain (st : DState) (args : List String) : String :=
  match args with
  | nd :: cols :: argv =>
    match (argv.map unhex).foldr (fun a acc => match a, acc with | some x, some l => some (x :: l) | _, _ => none) (some []) with
    | none => "bad-op"
    | some av => showRun (dfsMain (hostFs st) (nd == "1") (if cols == "-" then none else cols.toNat?) av)
  | _ => "bad-op"

def bytesOfByteArray (b : ByteArray) : Bytes := Id.run do
  let mut out : List Nat := []
  for i in [0:b.size] do
    out := (b.get! (b.size - 1 - i)).toNat :: out
  return out

def showBRun (r : Beeb.Basic.Run) : String :=
  match r.unmodelled with
  | some w => s!"unmodelled {w}"
  | none =>
    let crash := match r.crash with | some s => hex (strBytes s) | none => "-"
    s!"exit={r.exit} err={showBool r.err} out={hex r.out} files=- crash={crash}"

/-- `bmain <argv as hex words…>` : bbcbasic_to_text on the registered files / stdin -/
def opBMain (st : DState) (args : List String) : String :=
  match (args.map unhex).foldr (fun a acc => match a, acc with | some x, some l => some (x :: l) | _, _ => none) (some []) with
  | none => "bad-op"
  | some av =>
    showBRun (Beeb.Basic.basicMain Beeb.Gen.tokTable Beeb.Gen.dialectOfName
      (fun p => (st.bfiles.find? (fun e => e.1 == p)).map (·.2)) st.bstdin av)

def fmtName : Format → String
  | .HDFS => "HDFS" | .DFS => "DFS" | .WDFS => "WDFS" | .OpusDDOS => "Opus"

/-- `probe <hexpath> <hexname>` -/
def opProbe (st : DState) (args : List String) : String :=
  match args with
  | [hp, hn] =>
    match unhex hp, unhex hn with
    | some p, some n =>
      let m : Media := match hostFs st p with
        | .raw secs _ => mediaOfArray secs
        | .sparse k tbl => fun lba => if lba < k then some (tbl.getD lba (List.replicate 256 0)) else none
        | _ => fun _ => none
      match identifyImage m (bytesToString n) true with
      | .ok (some ff) =>
        let fs := match identifyFileSystem m ff.geom ff.interleaved true with
          | .ok (some f) => fmtName f
          | _ => "none"
        let enc := match ff.geom.encoding with | some .MFM => "MFM" | some .FM => "FM" | none => "?"
        s!"fmt={fs} c={ff.geom.cylinders} h={ff.geom.heads} s={ff.geom.sectors} enc={enc} il={showBool ff.interleaved}"
      | .ok none => "none"
      | .err _ => "exc"
      | .abort s => s!"abort {s}"
    | _, _ => "bad-op"
  | _ => "bad-op"

def opEre (args : List String) : String :=
  match args with
  | [hp, hs] =>
    match unhex hp, unhex hs with
    | some p, some s =>
      match parseEre p with
      | none => "unsupported"
      | some items => showBool (matchItems items (s.takeWhile (· != 0)))
    | _, _ => "bad-op"
  | _ => "bad-op"

def opAfsp (args : List String) : String :=
  match args with
  | [d, sv, dh, hw, d2, sv2, dh2, hn] =>
    match d.toNat?, d2.toNat?, unhex dh, unhex hw, unhex dh2, unhex hn with
    | some dn, some dn2, some [dir], some w, some [dir2], some n =>
      let mk (k : Nat) (s : String) : VolSel := { surface := k, subvol := if s == "-" then none else (s.toList.head?.map Char.toNat) }
      match Matcher.make (mk dn sv) dir w with
      | none => "invalid"
      | some mt => s!"{showBool (mt.accepts (mk dn2 sv2) dir2 n)} vol={bytesToString mt.vol.toStr}"
    | _, _, _, _, _, _ => "bad-op"
  | _ => "bad-op"

def dispatch (st : DState) (line : String) : String :=
  match line.trimAscii.toString.splitOn " " with
  | "infoline" :: args => opInfoLine args
  | "fields" :: args => opFields args
  | "main" :: args => opMain st args
  | "bmain" :: args => opBMain st args
  | "probe" :: args => opProbe st args
  | "ere" :: args => opEre args
  | "afsp" :: args => opAfsp args
  | _ => "bad-op"

/-- stateful ops: `file <hexpath> raw|gzbad|missing <host path of (inflated) content>`, `clearfiles` -/
partial def loop (h : IO.FS.Stream) (out : IO.FS.Stream) (st : DState) : IO Unit := do
  let line ← h.getLine
  if line.isEmpty then return ()
  match line.trimAscii.toString.splitOn " " with
  | ["file", hp, kind, path] =>
    match unhex hp with
    | none => out.putStrLn "bad-op"; loop h out st
    | some p =>
      let hf ← (match kind with
        | "raw" => do
          let b ← IO.FS.readBinFile path
          pure (HostFile.raw (sectorsOfByteArray b) b.size)
        | "gzbad" => pure HostFile.gzBad
        | _ => pure HostFile.missing)
      out.putStrLn "ok"
      loop h out { st with files := (p, hf) :: st.files.filter (fun e => e.1 != p) }
  | ["filesparse", hp, nsec, path] =>
    -- records of 4-byte LE sector index + 256 bytes; every other sector below nsec is zero
    match unhex hp, nsec.toNat? with
    | some p, some n =>
      let b ← IO.FS.readBinFile path
      let nrec := b.size / 260
      let mut tbl : Std.HashMap Nat Sector := {}
      for i in [0:nrec] do
        let o := i * 260
        let idx := (b.get! o).toNat + 256 * (b.get! (o+1)).toNat + 65536 * (b.get! (o+2)).toNat + 16777216 * (b.get! (o+3)).toNat
        let mut sec : List Nat := []
        for j in [0:256] do
          sec := (b.get! (o + 4 + 255 - j)).toNat :: sec
        tbl := tbl.insert idx sec
      out.putStrLn "ok"
      loop h out { st with files := (p, HostFile.sparse n tbl) :: st.files.filter (fun e => e.1 != p) }
    | _, _ => out.putStrLn "bad-op"; loop h out st
  | ["bfile", hp, path] =>
    match unhex hp with
    | none => out.putStrLn "bad-op"; loop h out st
    | some p =>
      let b ← IO.FS.readBinFile path
      out.putStrLn "ok"
      loop h out { st with bfiles := (p, bytesOfByteArray b) :: st.bfiles.filter (fun e => e.1 != p) }
  | ["bstdin", path] =>
    let b ← (if path == "-" then pure ByteArray.empty else IO.FS.readBinFile path)
    out.putStrLn "ok"
    loop h out { st with bstdin := bytesOfByteArray b }
  | ["clearfiles"] => out.putStrLn "ok"; loop h out { st with files := [], bfiles := [], bstdin := [] }
  | _ =>
    out.putStrLn (dispatch st line)
    loop h out st

def main : IO Unit := do
  let stdin ← IO.getStdin
  let stdout ← IO.getStdout
  loop stdin stdout {}
