/-
beebdrv: line-protocol driver over the executable model and the specs.
One request per line `<op> <args…>`; one response line per request.
-/
import Driver.Proto
import Beeb.Model.Catalog
import Beeb.Spec.Info
import Beeb.Model.Main
import Beeb.Model.Basic
import Beeb.Spec.FluxEnc
import Driver.SpecOps
import Std.Data.HashMap

open Beeb Driver

def opInfoLine (args : List String) : String :=
  match args with
  | [h] =>
    match unhex h with
    | some b =>
      if b.length != 16 then "bad-op" else
      let nm := arr (b.take 8); let mt := arr (b.drop 8)
      s!"{hex (infoLineOf nm mt)} {hex (Spec.infoLine (Spec.decodeFields nm mt))}"
    | none => "bad-op"
  | _ => "bad-op"

def opFields (args : List String) : String :=
  match args with
  | [h] =>
    match unhex h with
    | some b =>
      if b.length != 16 then "bad-op" else
      let e : Entry := { name := b.take 8, md := b.drop 8 }
      let f := Spec.decodeFields e.n e.m
      s!"{e.loadAddress} {e.execAddress} {e.fileLength} {e.startSector} {e.lastSector} {showBool e.isLocked} {e.directory} {hex e.nameStr}" ++
      s!" | {f.load} {f.exec} {f.len} {f.start} {showBool f.locked} {f.dir} {hex (Spec.shownName f.name)}"
    | none => "bad-op"
  | _ => "bad-op"

def sectorsOfByteArray (b : ByteArray) : Array Sector := Id.run do
  let n := b.size / 256
  let mut out : Array Sector := Array.mkEmpty n
  for i in [0:n] do
    let mut s : List Nat := []
    for j in [0:256] do
      s := (b.get! (i * 256 + 255 - j)).toNat :: s
    out := out.push s
  return out

structure DState where
  files : List (Bytes × HostFile) := []
  bfiles : List (Bytes × Bytes) := []
  bstdin : Bytes := []

def hostFs (st : DState) : HostFs := fun p =>
  match st.files.find? (fun e => e.1 == p) with
  | some e => e.2
  | none => .missing

def showFiles (fs : List (Bytes × Bytes)) : String :=
  if fs.isEmpty then "-" else String.intercalate "," (fs.map (fun p => hex p.1 ++ ":" ++ hex p.2))

def showRun (r : RunRes) : String :=
  match r.unmodelled with
  | some w => s!"unmodelled {w}"
  | none =>
    let crash := match r.crash with | some s => hex (strBytes s) | none => "-"
    s!"exit={r.exit} err={showBool r.err} out={hex r.out} files={showFiles r.files} crash={crash}"

/-- `main <ndebug 0/1> <cols or -> <argv as hex words…>` -/
def opMain (st : DState) (args : List String) : String :=
  match args with
  | nd :: cols :: argv =>
    match (argv.map unhex).foldr (fun a acc => match a, acc with | some x, some l => some (x :: l) | _, _ => none) (some []) with
    | none => "bad-op"
    | some av => showRun (dfsMain (hostFs st) (nd == "1") (if cols == "-" then none else cols.toNat?) av)
  | _ => "bad-op"

def bytesOfByteArray (b : ByteArray) : Bytes := Id.run do
  let mut out : List Nat := []
  for i in [0:b.size] do
    out := (b.get! (b.size - 1 - i)).toNat :: out
  return out

def showBRun (r : Beeb.Basic.Run) : String :=
  match r.unmodelled with
  | some w => s!"unmodelled {w}"
  | none =>
    let crash := match r.crash with | some s => hex (strBytes s) | none => "-"
    s!"exit={r.exit} err={showBool r.err} out={hex r.out} files=- crash={crash}"

/-- `bmain <argv as hex words…>` : bbcbasic_to_text on the registered files / stdin -/
def opBMain (st : DState) (args : List String) : String :=
  match (args.map unhex).foldr (fun a acc => match a, acc with | some x, some l => some (x :: l) | _, _ => none) (some []) with
  | none => "bad-op"
  | some av =>
    showBRun (Beeb.Basic.basicMain Beeb.Gen.tokTable Beeb.Gen.dialectOfName
      (fun p => (st.bfiles.find? (fun e => e.1 == p)).map (·.2)) st.bstdin av)

def fmtName : Format → String
  | .HDFS => "HDFS" | .DFS => "DFS" | .WDFS => "WDFS" | .OpusDDOS => "Opus"

/-- `probe <hexpath> <hexname>` -/
def opProbe (st : DState) (args : List String) : String :=
  match args with
  | [hp, hn] =>
    match unhex hp, unhex hn with
    | some p, some n =>
      let m : Media := match hostFs st p with
        | .raw secs _ _ => mediaOfArray secs
        | .sparse k tbl => fun lba => if lba < k then some (tbl.getD lba (List.replicate 256 0)) else none
        | _ => fun _ => none
      match identifyImage m (bytesToString n) true with
      | .ok (some ff) =>
        let fs := match identifyFileSystem m ff.geom ff.interleaved true with
          | .ok (some f) => fmtName f
          | _ => "none"
        let enc := match ff.geom.encoding with | some .MFM => "MFM" | some .FM => "FM" | none => "?"
        s!"fmt={fs} c={ff.geom.cylinders} h={ff.geom.heads} s={ff.geom.sectors} enc={enc} il={showBool ff.interleaved}"
      | .ok none => "none"
      | .err _ => "exc"
      | .abort s => s!"abort {s}"
    | _, _ => "bad-op"
  | _ => "bad-op"

def opEre (args : List String) : String :=
  match args with
  | [hp, hs] =>
    match unhex hp, unhex hs with
    | some p, some s =>
      match parseEre p with
      | none => "unsupported"
      | some items => showBool (matchItems items (s.takeWhile (· != 0)))
    | _, _ => "bad-op"
  | _ => "bad-op"

def opAfsp (args : List String) : String :=
  match args with
  | [d, sv, dh, hw, d2, sv2, dh2, hn] =>
    match d.toNat?, d2.toNat?, unhex dh, unhex hw, unhex dh2, unhex hn with
    | some dn, some dn2, some [dir], some w, some [dir2], some n =>
      let mk (k : Nat) (s : String) : VolSel := { surface := k, subvol := if s == "-" then none else (s.toList.head?.map Char.toNat) }
      match Matcher.make (mk dn sv) dir w with
      | none => "invalid"
      | some mt => s!"{showBool (mt.accepts (mk dn2 sv2) dir2 n)} vol={bytesToString mt.vol.toStr}"
    | _, _, _, _, _, _ => "bad-op"
  | _ => "bad-op"


def showSectors (l : List Flux.FSector) : String :=
  s!"{l.length}:" ++ String.join (l.map fun s => s!"{s.cyl}.{s.head}.{s.record}.{s.crc1}.{s.crc2}.{hex s.data};")

/-- `trackdec fm|mfm <first> <stride> <hex>` -/
def opTrackDec (args : List String) : String :=
  match args with
  | [k, f, st, h] =>
    match f.toNat?, st.toNat?, unhex h with
    | some first, some stride, some b =>
      if stride == 0 then "bad-op" else
      let bits := Flux.BitStream.ofBytes b first stride
      if k == "fm" then showSectors (Flux.decodeFm bits).1 else showSectors (Flux.decodeMfm bits)
    | _, _, _ => "bad-op"
  | _ => "bad-op"

def parseSecs (s : String) : Option (List (Nat × Bytes)) :=
  if s == "-" then some [] else
  (s.splitOn ",").mapM fun it =>
    match it.splitOn ":" with
    | [r, h] => match r.toNat?, unhex h with
      | some rn, some d => some (rn, d)
      | _, _ => none
    | _ => none

/-- `trackenc fm|mfm cyl head gap1 sync gap2 gap3 gap4 fill <rec:hex,…>` : the spec encoders; hex of the cells packed LSB first -/
def opTrackEnc (args : List String) : String :=
  match args with
  | [k, c, hd, g1, sy, g2, g3, g4, fl, secs] =>
    match c.toNat?, hd.toNat?, g1.toNat?, sy.toNat?, g2.toNat?, g3.toNat?, g4.toNat?, fl.toNat?, parseSecs secs with
    | some c, some hd, some g1, some sy, some g2, some g3, some g4, some fl, some ss =>
      let lay : Spec.Flux.Layout := { gap1 := g1, sync := sy, gap2 := g2, gap3 := g3, gap4 := g4, fill := fl }
      let cells := if k == "fm" then Spec.Flux.fmTrack lay c hd ss else Spec.Flux.mfmTrack lay c hd ss
      s!"{cells.length} {hex (Spec.Flux.packLsb cells)}"
    | _, _, _, _, _, _, _, _, _ => "bad-op"
  | _ => "bad-op"

def parseItems (s : String) : Option (List Spec.Flux.V3Item) :=
  if s == "-" then some [] else
  (s.splitOn ",").mapM fun it =>
    match it.splitOn ":" with
    | ["c", b] => b.toNat?.map .cells
    | ["n"] => some .nop
    | ["i"] => some .setIndex
    | ["r", v] => v.toNat?.map .setBitrate
    | ["s", k, b] => match k.toNat?, b.toNat? with
      | some k, some b => some (.skipBits k b)
      | _, _ => none
    | _ => none

/-- `v3items <items>` : stored bytes and denoted cells of an HFEv3 item stream, and what copy_hfe makes of the bytes -/
def opV3Items (args : List String) : String :=
  match args with
  | [its] =>
    match parseItems its with
    | some items =>
      let stored := Spec.Flux.v3Bytes items
      let cells := Spec.Flux.v3Cells items
      let dec := match Flux.copyHfe true (stored.map Flux.revBits) {} [] false with
        | none => "throw"
        | some (st, acc, noise) => s!"{hex acc.reverse} {st.gotBits} {showBool noise}"
      s!"{hex stored} {cells.length} {hex (Spec.Flux.packLsb cells)} {dec}"
    | none => "bad-op"
  | _ => "bad-op"

def u32At (b : Bytes) (o : Nat) : Nat := b.getD o 0 + 256 * b.getD (o+1) 0 + 65536 * b.getD (o+2) 0 + 16777216 * b.getD (o+3) 0

/-- length-prefixed (u32 LE) byte strings -/
def readBlobs : Nat → Bytes → List Bytes → List Bytes
  | 0, _, acc => acc.reverse
  | fuel + 1, b, acc =>
    if b.length < 4 then acc.reverse
    else
      let n := u32At b 0
      readBlobs fuel (b.drop (4 + n)) (((b.drop 4).take n) :: acc)

def unpackLsb (nbits : Nat) (b : Bytes) : List Bool :=
  (List.range nbits).map fun i => (b.getD (i / 8) 0 >>> (i % 8)) % 2 == 1

/-- `hfeenc <v3> <fm> <sides> <file of blobs: side0, side1 per track>` / `hxcenc <sides> <file of blobs: u32 nbits ++ packed cells, per track per side>` -/
def opImgEnc (args : List String) (content : Bytes) : String :=
  let blobs := readBlobs (content.length + 1) content []
  match args with
  | ["hfeenc", v3, fm, sides] =>
    match sides.toNat? with
    | some sd =>
      let rec pairs : List Bytes → List (Bytes × Bytes)
        | a :: b :: r => (a, b) :: pairs r
        | _ => []
      hex (Spec.Flux.hfeImage (v3 == "1") (fm == "1") sd (pairs blobs))
    | none => "bad-op"
  | ["hxcenc", sides] =>
    match sides.toNat? with
    | some sd =>
      if sd == 0 then "bad-op" else
      let cells := blobs.map fun b => unpackLsb (u32At b 0) (b.drop 4)
      let rec group (fuel : Nat) (l : List (List Bool)) : List (List (List Bool)) :=
        match fuel with
        | 0 => []
        | fuel + 1 => if l.isEmpty then [] else l.take sd :: group fuel (l.drop sd)
      hex (Spec.Flux.hxcImage sd (group (cells.length + 1) cells))
    | none => "bad-op"
  | _ => "bad-op"

def dispatch (st : DState) (line : String) : String :=
  match line.trimAscii.toString.splitOn " " with
  | "infoline" :: args => opInfoLine args
  | "fields" :: args => opFields args
  | "main" :: args => opMain st args
  | "bmain" :: args => opBMain st args
  | "probe" :: args => opProbe st args
  | "ere" :: args => opEre args
  | "afsp" :: args => opAfsp args
  | "trackdec" :: args => opTrackDec args
  | "trackenc" :: args => opTrackEnc args
  | "v3items" :: args => opV3Items args
  | "spec" :: args => opSpec args
  | _ => "bad-op"

/-- stateful ops: `file <hexpath> raw|gzbad|missing <host path of (inflated) content>`, `clearfiles` -/
partial def loop (h : IO.FS.Stream) (out : IO.FS.Stream) (st : DState) : IO Unit := do
  let line ← h.getLine
  if line.isEmpty then return ()
  match line.trimAscii.toString.splitOn " " with
  | ["file", hp, kind, path] =>
    match unhex hp with
    | none => out.putStrLn "bad-op"; loop h out st
    | some p =>
      let hf ← (match kind with
        | "raw" => do
          let b ← IO.FS.readBinFile path
          pure (HostFile.raw (sectorsOfByteArray b) b.size (((List.range (b.size % 256)).map fun j => (b.get! (b.size / 256 * 256 + j)).toNat)))
        | "gzbad" => pure HostFile.gzBad
        | _ => pure HostFile.missing)
      out.putStrLn "ok"
      loop h out { st with files := (p, hf) :: st.files.filter (fun e => e.1 != p) }
  | ["filesparse", hp, nsec, path] =>
    -- records of 4-byte LE sector index + 256 bytes; every other sector below nsec is zero
    match unhex hp, nsec.toNat? with
    | some p, some n =>
      let b ← IO.FS.readBinFile path
      let nrec := b.size / 260
      let mut tbl : Std.HashMap Nat Sector := {}
      for i in [0:nrec] do
        let o := i * 260
        let idx := (b.get! o).toNat + 256 * (b.get! (o+1)).toNat + 65536 * (b.get! (o+2)).toNat + 16777216 * (b.get! (o+3)).toNat
        let mut sec : List Nat := []
        for j in [0:256] do
          sec := (b.get! (o + 4 + 255 - j)).toNat :: sec
        tbl := tbl.insert idx sec
      out.putStrLn "ok"
      loop h out { st with files := (p, HostFile.sparse n tbl) :: st.files.filter (fun e => e.1 != p) }
    | _, _ => out.putStrLn "bad-op"; loop h out st
  | ["bfile", hp, path] =>
    match unhex hp with
    | none => out.putStrLn "bad-op"; loop h out st
    | some p =>
      let b ← IO.FS.readBinFile path
      out.putStrLn "ok"
      loop h out { st with bfiles := (p, bytesOfByteArray b) :: st.bfiles.filter (fun e => e.1 != p) }
  | ["bstdin", path] =>
    let b ← (if path == "-" then pure ByteArray.empty else IO.FS.readBinFile path)
    out.putStrLn "ok"
    loop h out { st with bstdin := bytesOfByteArray b }
  | ["clearfiles"] => out.putStrLn "ok"; loop h out { st with files := [], bfiles := [], bstdin := [] }
  | "imgenc" :: path :: args =>
    let b ← IO.FS.readBinFile path
    out.putStrLn (opImgEnc args (bytesOfByteArray b))
    loop h out st
  | _ =>
    out.putStrLn (dispatch st line)
    loop h out st

def main : IO Unit := do
  let stdin ← IO.getStdin
  let stdout ← IO.getStdout
  loop stdin stdout {}
