/-
beebdrv: line-protocol driver over the executable model and the specs.
One request per line `<op> <args…>`; one response line per request.
-/
import Driver.Proto
import Beeb.Model.Catalog
import Beeb.Spec.Info

open Beeb Driver

def opInfoLine (args : List String) : String :=
  match args with
  | [h] =>
    match unhex h with
    | some b =>
      if b.length != 16 then "bad-op" else
      let nm := arr (b.take 8); let mt := arr (b.drop 8)
      s!"{hex (infoLineOf nm mt)} {hex (Spec.infoLine (Spec.decodeFields nm mt))}"
    | none => "bad-op"
  | _ => "bad-op"

def opFields (args : List String) : String :=
  match args with
  | [h] =>
    match unhex h with
    | some b =>
      if b.length != 16 then "bad-op" else
      let e : Entry := { name := b.take 8, md := b.drop 8 }
      let f := Spec.decodeFields e.n e.m
      s!"{e.loadAddress} {e.execAddress} {e.fileLength} {e.startSector} {e.lastSector} {showBool e.isLocked} {e.directory} {hex e.nameStr}" ++
      s!" | {f.load} {f.exec} {f.len} {f.start} {showBool f.locked} {f.dir} {hex (Spec.shownName f.name)}"
    | none => "bad-op"
  | _ => "bad-op"

def dispatch (line : String) : String :=
  match line.trimAscii.toString.splitOn " " with
  | "infoline" :: args => opInfoLine args
  | "fields" :: args => opFields args
  | _ => "bad-op"

partial def loop (h : IO.FS.Stream) (out : IO.FS.Stream) : IO Unit := do
  let line ← h.getLine
  if line.isEmpty then return ()
  out.putStrLn (dispatch line)
  loop h out

def main : IO Unit := do
  let stdin ← IO.getStdin
  let stdout ← IO.getStdout
  loop stdin stdout
