import Beeb.Props.C03
#print axioms Beeb.Props.C03.C03_tables
#print axioms Beeb.Props.C03.C03_dialect_names
#print axioms Beeb.Props.C03.C03_lineref
#print axioms Beeb.Props.C03.C03_lineref_doc
#print axioms Beeb.Props.C03.C03_listing_BE
#print axioms Beeb.Props.C03.C03_listing_LE
#print axioms Beeb.Props.C03.C03_strings
#print axioms Beeb.Props.C03.C03_stdin
