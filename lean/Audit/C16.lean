import Beeb.Props.C16
#print axioms Beeb.Props.C16.C16_connect_succeeds
#print axioms Beeb.Props.C16.C16_distinct
#print axioms Beeb.Props.C16.C16_monotone
#print axioms Beeb.Props.C16.C16_physical_sides
#print axioms Beeb.Props.C16.C16_physical_no_opposite
#print axioms Beeb.Props.C16.C16_first_lowest
#print axioms Beeb.Props.C16.C16_lookup_attached
