import Beeb.Props.C05
#print axioms Beeb.Props.C05.C05_fm_track
#print axioms Beeb.Props.C05.C05_mfm_track
#print axioms Beeb.Props.C05.C05_hxc_bits
#print axioms Beeb.Props.C05.C05_v3_transparent
#print axioms Beeb.Props.C05.C05_copy_append
#print axioms Beeb.Props.C05.C05_hfe_v1
#print axioms Beeb.Props.C05.C05_hfe_v3
#print axioms Beeb.Props.C05.C05_hxc
