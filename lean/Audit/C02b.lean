import Beeb.Props.C02b
#print axioms Beeb.Props.C02.C02_title
#print axioms Beeb.Props.C02.C02_cycle_boot
#print axioms Beeb.Props.C02.C02_cat_perm
#print axioms Beeb.Props.C02.C02_cat_sorted
#print axioms Beeb.Props.C02.C02_cat_order
#print axioms Beeb.Props.C02.C02_cat_cells
#print axioms Beeb.Props.C02.C02_cat_cell
#print axioms Beeb.Props.C02.C02_inf_crc
#print axioms Beeb.Props.C02.C02_inf_line
