import Beeb.Props.C02
#print axioms Beeb.Props.C02.sign_extend_spec
#print axioms Beeb.Props.C02.C02_info_line
#print axioms Beeb.Props.C02.C02_fields_roundtrip
