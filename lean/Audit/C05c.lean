import Beeb.Props.C05c
#print axioms Beeb.Props.C05c.C05_leaf_reverse_bit_order
#print axioms Beeb.Props.C05c.C05_leaf_is_hfe3_opcode
#print axioms Beeb.Props.C05c.C05_leaf_track_len
#print axioms Beeb.Props.C05c.C05_leaf_le_word
#print axioms Beeb.Props.C05c.C05_leaf_le_quad
#print axioms Beeb.Props.C05c.C05_leaf_raw_pos
