import Beeb.Props.C06
#print axioms Beeb.Props.C06.C06_fm_sound
#print axioms Beeb.Props.C06.C06_mfm_sound
#print axioms Beeb.Props.C06.C06_fm_marks
#print axioms Beeb.Props.C06.C06_mfm_marks
#print axioms Beeb.Props.C06.C06_crc_detects_burst
#print axioms Beeb.Props.C06.C06_checkTrack
#print axioms Beeb.Props.C06.C06_hfe_read
#print axioms Beeb.Props.C06.C06_hfe_unique
#print axioms Beeb.Props.C06.C06_hxc_read
#print axioms Beeb.Props.C06.C06_hxc_unique
