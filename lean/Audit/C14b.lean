import Beeb.Props.C14b
#print axioms Beeb.Props.C14b.C14_format_codes_distinct
#print axioms Beeb.Props.C14b.C14_catalog_sectors_leaf
#print axioms Beeb.Props.C14b.C14_reserved_sectors_leaf
#print axioms Beeb.Props.C14b.C14_max_file_count_leaf
#print axioms Beeb.Props.C14b.C14_constants
