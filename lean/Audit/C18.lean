import Beeb.Props.C18
#print axioms Beeb.Props.C18.C18_sites
#print axioms Beeb.Props.C18.C18_verbose
#print axioms Beeb.Props.C18.C18_show_config
#print axioms Beeb.Props.C18.C18_ui_entries
#print axioms Beeb.Props.C18.C18_ui_other_commands
