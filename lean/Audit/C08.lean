import Beeb.Props.C08
#print axioms Beeb.Props.C08.C08_no_crash
#print axioms Beeb.Props.C08.C08_exit
#print axioms Beeb.Props.C08.C08_diag
#print axioms Beeb.Props.C08.C08_decode_diag
