import Beeb.Props.C19
#print axioms Beeb.Props.C19.C19_asserts_pure
#print axioms Beeb.Props.C19.C19_ndebug_regions_pure
#print axioms Beeb.Props.C19.C19_dfs
#print axioms Beeb.Props.C19.C19_basic_default_dialect
