import Beeb.Props.C13
#print axioms Beeb.Props.C13.C13_watford_guard
#print axioms Beeb.Props.C13.C13_watford_iff
#print axioms Beeb.Props.C13.C13_file_at_2
#print axioms Beeb.Props.C13.C13_hdfs
#print axioms Beeb.Props.C13.C13_probe_locality
#print axioms Beeb.Props.C13.C13_probe_locality_no_opus
#print axioms Beeb.Props.C13.C13_geometry_large_enough
#print axioms Beeb.Props.C13.C13_hints
#print axioms Beeb.Props.C13.C13_sector_count
#print axioms Beeb.Props.C13.C13_geometry_found
#print axioms Beeb.Props.C13.C13_hdfs_flag_leaf
