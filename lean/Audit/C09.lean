import Beeb.Props.C09
#print axioms Beeb.Props.C09.C09_truncation_BE
#print axioms Beeb.Props.C09.C09_truncation_LE
#print axioms Beeb.Props.C09.C09_independent
#print axioms Beeb.Props.C09.C09_bad_start
#print axioms Beeb.Props.C09.C09_short_length_BE
#print axioms Beeb.Props.C09.C09_short_length_LE
#print axioms Beeb.Props.C09.C09_missing_terminator
#print axioms Beeb.Props.C09.C09_token_errors
#print axioms Beeb.Props.C09.C09_line_fails
