import Beeb.Props.C01
#print axioms Beeb.Props.C01.sectorsFor_eq
#print axioms Beeb.Props.C01.C01_body
#print axioms Beeb.Props.C01.C01_body_empty
#print axioms Beeb.Props.C01.C01_type
#print axioms Beeb.Props.C01.C01_fields
#print axioms Beeb.Props.C01.C01_list
#print axioms Beeb.Props.C01.C01_dump
#print axioms Beeb.Props.C01.C01_opus_default_volume
#print axioms Beeb.Props.C01.C01_other_formats_no_default
