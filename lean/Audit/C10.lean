import Beeb.Props.C10
#print axioms Beeb.Props.C10.C10_attach
#print axioms Beeb.Props.C10.C10_transparent
#print axioms Beeb.Props.C10.C10_transparent_readonly
#print axioms Beeb.Props.C10.C10_bad_gz_rejected
#print axioms Beeb.Props.C10.C10_hints
