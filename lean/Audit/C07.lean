import Beeb.Props.C07
#print axioms Beeb.Props.C07.C07_no_crash
#print axioms Beeb.Props.C07.C07_exit_status
#print axioms Beeb.Props.C07.C07_exit_status'
#print axioms Beeb.Props.C07.C07_diagnostic
#print axioms Beeb.Props.C07.C07_builds_agree
#print axioms Beeb.Props.C07.C07_fm_decode_bounded
#print axioms Beeb.Props.C07.C07_mfm_decode_bounded
