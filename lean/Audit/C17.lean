import Beeb.Props.C17
#print axioms Beeb.Props.C17.access_beyond_eq
#print axioms Beeb.Props.C17.C17_volume_bound
#print axioms Beeb.Props.C17.C17_volume_confined
#print axioms Beeb.Props.C17.C17_volume_noninterference
#print axioms Beeb.Props.C17.C17_overlong_entry_fails
#print axioms Beeb.Props.C17.C17_surface_confined
#print axioms Beeb.Props.C17.C17_mmb_slots_disjoint
#print axioms Beeb.Props.C17.C17_interleaved_sides_disjoint
#print axioms Beeb.Props.C17.C17_noninterleaved_sides_disjoint
