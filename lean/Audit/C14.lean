import Beeb.Props.C14
#print axioms Beeb.Props.C14.C14_free_used
#print axioms Beeb.Props.C14.C14_free_sums
#print axioms Beeb.Props.C14.C14_space_single
#print axioms Beeb.Props.C14.C14_space_watford
#print axioms Beeb.Props.C14.C14_map_owned
#print axioms Beeb.Props.C14.C14_map_owned_volume
#print axioms Beeb.Props.C14.C14_map_owned_disc
#print axioms Beeb.Props.C14.C14_unused_spans
