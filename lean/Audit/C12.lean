import Beeb.Props.C12
#print axioms Beeb.Props.C12.C12_extract_files_confined
#print axioms Beeb.Props.C12.C12_extract_unused_confined
#print axioms Beeb.Props.C12.C12_dest
#print axioms Beeb.Props.C12.C12_no_create
#print axioms Beeb.Props.C12.C12_extract_files_spares_images
#print axioms Beeb.Props.C12.C12_extract_unused_spares_images
#print axioms Beeb.Props.C12.C12_run_spares_images
#print axioms Beeb.Props.C12.C12_run_confined
