import Beeb.Props.C05b
#print axioms Beeb.Props.C05b.C05_commands_same
#print axioms Beeb.Props.C05b.C05_config_same
