import Beeb.Props.C15
#print axioms Beeb.Props.C15.C15_fragments
#print axioms Beeb.Props.C15.C15_pattern_parses
#print axioms Beeb.Props.C15.C15_info
#print axioms Beeb.Props.C15.C15_defaults
#print axioms Beeb.Props.C15.C15_lookup
#print axioms Beeb.Props.C15.C15_ciEqual
