import Beeb.Props.C04
#print axioms Beeb.Props.C04.totalSectors_eq
#print axioms Beeb.Props.C04.single_total
#print axioms Beeb.Props.C04.C04_noninterleaved
#print axioms Beeb.Props.C04.C04_interleaved
#print axioms Beeb.Props.C04.mmb_total
#print axioms Beeb.Props.C04.C04_mmb
#print axioms Beeb.Props.C04.C04_mmb_unformatted
#print axioms Beeb.Props.C04.C04_beyond_end
