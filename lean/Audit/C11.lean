import Beeb.Props.C11
#print axioms Beeb.Props.C11.C11_failure_reported
#print axioms Beeb.Props.C11.C11_zero_means_complete
#print axioms Beeb.Props.C11.C11_no_false_alarm
