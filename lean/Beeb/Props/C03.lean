/-
C03 — bbcbasic_to_text lists every well-formed program as doc/bbcbasic.5 defines.
-/
import Beeb.Model.Basic
import Beeb.Spec.BasicProg
import Beeb.Generated.TokensDoc
import Beeb.Lemmas.BasicL

namespace Beeb.Props.C03
open Beeb Beeb.Gen Beeb.Spec Beeb.Basic Beeb.BasicL

/-- the keyword tables of dialect `d` as the model uses them -/
def tablesOf (d : Nat) : Tables :=
  let m := xmapOf tokTable d
  { base := m.base, c6 := m.c6, c7 := m.c7, c8 := m.c8 }

/-- **Token tables.**  The maps `build_mapping()` constructs from the current
    basic/tokens.c (all 6 dialects × 4 maps × 256 bytes) are the published ones.
    (Proof script only: compared as nested lists, `tables_eq_of_toL`, because the
    kernel takes minutes to evaluate `DecidableEq (Array _)` on these literals.) -/
theorem C03_tables : tokTable = docTable := tables_eq_of_toL _ _ (by decide +kernel)

/-- **Dialect names.**  The ten documented names select the documented dialect. -/
theorem C03_dialect_names :
    dialectByName dialectOfName (strBytes "6502") = some 0 ∧ dialectByName dialectOfName (strBytes "32000") = some 0 ∧
    dialectByName dialectOfName (strBytes "PDP11") = some 5 ∧ dialectByName dialectOfName (strBytes "Z80") = some 1 ∧
    dialectByName dialectOfName (strBytes "8086") = some 1 ∧ dialectByName dialectOfName (strBytes "ARM") = some 2 ∧
    dialectByName dialectOfName (strBytes "Windows") = some 3 ∧ dialectByName dialectOfName (strBytes "SDL") = some 3 ∧
    dialectByName dialectOfName (strBytes "MacOSX") = some 3 ∧ dialectByName dialectOfName (strBytes "Mac") = some 4 := by
  decide

/-- **Line-number references**: all 65536 encodable targets decode to themselves
    through the C expression of `print_target_line_number` (regenerated leaf). -/
theorem C03_lineref (n : Nat) (h : n < 65536) :
    match encodeRef n with
    | [b1, b2, b3] => target_line_number b1 b2 b3 = n
    | _ => False :=
  lineref_roundtrip n h

/-- the inverse encoding used by the spec agrees with the documented formula -/
theorem C03_lineref_doc (n : Nat) (h : n < 65536) :
    match encodeRef n with
    | [b1, b2, b3] => decodeRef b1 b2 b3 = n
    | _ => False :=
  lineref_doc_roundtrip n h

/-- **Listing, big-endian dialects** (6502/32000, ARM, Mac, PDP11): for every
    well-formed program and LISTO value the output is exactly the documented
    listing, status OK, nothing on stderr. -/
theorem C03_listing_BE (d listo : Nat) (p : Program) (hd : d = 0 ∨ d = 2 ∨ d = 4 ∨ d = 5) (hl : listo < 8)
    (hp : ProgramWF (tablesOf d) (d == 5) 65280 p) :
    decodeFile tokTable d listo (encodeBE p) = { ok := true, out := render (tablesOf d) listo p, err := false } :=
  listing_BE d listo p hd hl hp

/-- **Listing, little-endian dialects** (Z80/8086, Windows/SDL/MacOSX). -/
theorem C03_listing_LE (d listo : Nat) (p : Program) (hd : d = 1 ∨ d = 3) (hl : listo < 8)
    (hp : ProgramWF (tablesOf d) false 65536 p) :
    decodeFile tokTable d listo (encodeLE p) = { ok := true, out := render (tablesOf d) listo p, err := false } :=
  listing_LE d listo p hd hl hp

/-- **Strings are copied unchanged** (every byte inside quotes). -/
theorem C03_strings (t : Tables) (s : Bytes) (closed : Bool) :
    renderItem t (.str s closed) = encodeItem (.str s closed) := rfl

/-- **File or standard input give the same listing.** -/
theorem C03_stdin (files : Bytes → Option Bytes) (name content : Bytes) (opts : List Bytes)
    (hn : name ≠ [45]) (hf : files name = some content)
    (hopts : (bgetopt (opts.length + 2) (opts ++ [name]) []).2 = [name] ∧ (bgetopt (opts.length + 2) (opts ++ [[45]]) []).2 = [[45]] ∧
             (bgetopt (opts.length + 2) (opts ++ [name]) []).1 = (bgetopt (opts.length + 2) (opts ++ [[45]]) []).1) :
    basicMain tokTable dialectOfName files [] (opts ++ [name]) =
      basicMain tokTable dialectOfName files content (opts ++ [[45]]) :=
  stdin_same files name content opts hn hf hopts

/-- non-vacuity: `10 PRINT "A<E3>":GOTO 261` is well-formed for the 6502 dialect -/
example : ProgramWF (tablesOf 0) false 65280
    [{ num := 10, items := [.tok 0xF1, .str [65, 0xE3] true, .lit 58, .tok 0xE5, .lineRef 261] }] := by
  intro l hl
  simp only [List.mem_singleton] at hl
  subst hl
  refine ⟨by decide, by decide, ?_⟩
  simp only [ItemsWF, ItemWF]
  refine ⟨⟨by decide, by decide, by decide, [80, 82, 73, 78, 84], by decide +kernel⟩, by simp, by simp, ?_⟩
  refine ⟨by decide, by simp, by simp, ?_⟩
  refine ⟨⟨by decide, by decide, by decide, by decide +kernel⟩, by simp, by simp, ?_⟩
  refine ⟨⟨by decide, by decide, by decide, [71, 79, 84, 79], by decide +kernel⟩, by simp, by simp, ?_⟩
  exact ⟨⟨by decide, by decide +kernel⟩, by simp⟩

end Beeb.Props.C03
