/-
C18 — Diagnostic and presentation options never change the data shown.
-/
import Beeb.Model.Main
import Beeb.Generated.VerboseSites
import Beeb.Lemmas.MainL

namespace Beeb.Props.C18
open Beeb Beeb.Gen Beeb.MainL

/-- **Every use of the verbose flag in the C++ is harmless** (regenerated on every
    run from /repo/dfs): a declaration, an argument, the option handler, or a plain
    `if (verbose)` whose body writes to cerr only — no cout, no early return / break /
    continue / throw, no assignment, no else branch. -/
theorem C18_sites : ∀ s ∈ verboseSites, s.ok = true := by decide +kernel

/-- results agree on everything but the stderr flag -/
def SameData (a b : RunRes) : Prop :=
  a.out = b.out ∧ a.exit = b.exit ∧ a.files = b.files ∧ a.crash = b.crash ∧ a.unmodelled = b.unmodelled

/-- **--verbose changes nothing but stderr**, wherever it appears among the options,
    for every image, command and argument vector. -/
theorem C18_verbose (fs : HostFs) (nd : Bool) (cols : Option Nat) (a b : List Opt) (rest : List Bytes) :
    SameData (dfsRun fs nd cols (a ++ [Opt.opt .verbose []] ++ b) rest) (dfsRun fs nd cols (a ++ b) rest) :=
  verbose_same fs nd cols a b rest

/-- **--show-config changes nothing but stderr.** -/
theorem C18_show_config (fs : HostFs) (nd : Bool) (cols : Option Nat) (a b : List Opt) (rest : List Bytes) :
    SameData (dfsRun fs nd cols (a ++ [Opt.opt .showConfig []] ++ b) rest) (dfsRun fs nd cols (a ++ b) rest) :=
  showConfig_same fs nd cols a b rest

/-- **--ui and COLUMNS change only cat's layout**: the entries listed, their order,
    lock marks and the title/cycle/option values come from the catalogue alone. -/
theorem C18_ui_entries (curDir : Nat) (c : Catalog) (ui ui' cols cols' : Nat) (first gap : Bool) (c0 c0' : Col)
    (h0 : c0.pfx = []) (h0' : c0'.pfx = []) :
    ∃ seps seps' : List Bytes,
      (catEntries ui curDir cols (catSorted curDir c) first gap c0).out =
        c0.out ++ ((seps.zip (catSorted curDir c)).map (fun p => p.1 ++ catCell ui curDir p.2)).flatten ∧
      (catEntries ui' curDir cols' (catSorted curDir c) first gap c0').out =
        c0'.out ++ ((seps'.zip (catSorted curDir c)).map (fun p => p.1 ++ catCell ui' curDir p.2)).flatten ∧
      seps.length = (catSorted curDir c).length ∧ seps'.length = (catSorted curDir c).length :=
  ui_entries curDir c ui ui' cols cols' first gap c0 c0' h0 h0'

/-- every command other than cat ignores --ui and COLUMNS altogether -/
theorem C18_ui_other_commands (env : Env) (ui : Nat) (cols : Option Nat) (args : List Bytes)
    (hc : args.head? ≠ some (strBytes "cat")) :
    runCommand { env with ctx := { env.ctx with ui := ui }, screenCols := cols } args = runCommand env args :=
  ui_irrelevant env ui cols args hc

end Beeb.Props.C18
