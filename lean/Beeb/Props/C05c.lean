/-
C05/C06 — the flux leaves.  The small integer functions of dfs/img_hfe.cc,
dfs/img_hxcmfm.cc and dfs/track.h are regenerated from the C++ AST on every
run (`Beeb.Gen.*` in Beeb/Generated/Leaf.lean).  The hand-written model of the
containers uses its own definitions (`revBits`, `picTrackLen`, `leWord`,
`leQuad`, the opcode test, the cell position); these theorems say that, on the
values that can occur, they are the functions the code computes *now* — so a
change to one of those C++ functions breaks a proof here.
-/
import Beeb.Model.FluxImg
import Beeb.Lemmas.FluxLeaf

namespace Beeb.Props.C05c
open Beeb Beeb.Flux Beeb.FluxLeafL

/-- `reverse_bit_order` is the model's bit reversal on every byte -/
theorem C05_leaf_reverse_bit_order : ∀ b, b < 256 → Gen.reverse_bit_order b = revBits b :=
  leaf_reverse_bit_order

/-- `is_hfe3_opcode` is the model's opcode test on every byte -/
theorem C05_leaf_is_hfe3_opcode : ∀ b, b < 256 → Gen.is_hfe3_opcode b = ((b &&& 0xF0) == 0xF0) :=
  leaf_is_hfe3_opcode

/-- `PicTrack::track_len` rounds the 16-bit length field up to a multiple of 512 as the model does -/
theorem C05_leaf_track_len (tl : Nat) (h : tl < 65536) : Gen.pictrack_len tl = picTrackLen tl :=
  leaf_track_len tl h

/-- `le_word` (img_hfe.cc and img_hxcmfm.cc) on bytes -/
theorem C05_leaf_le_word (bs : Bytes) (i : Nat) (hb : ∀ x ∈ bs, x < 256) :
    Gen.hfe_le_word (fun k => bs.getD (i + k) 0) = leWord bs i ∧
    Gen.hxc_le_word (fun k => bs.getD (i + k) 0) = leWord bs i :=
  leaf_le_word bs i hb

/-- `le_quad` (img_hxcmfm.cc) on bytes -/
theorem C05_leaf_le_quad (bs : Bytes) (i : Nat) (hb : ∀ x ∈ bs, x < 256) :
    Gen.hxc_le_quad (fun k => bs.getD (i + k) 0) = leQuad bs i :=
  leaf_le_quad bs i hb

/-- `BitStream::raw_pos`: cooked cell `k` is raw bit `k * stride + first` (no wrap-around for any stream that fits in memory) -/
theorem C05_leaf_raw_pos (stride first k : Nat) (hs : stride ≤ 2) (hf : first ≤ 1) (hk : k < 2 ^ 40) :
    Gen.bitstream_raw_pos stride first k = k * stride + first :=
  leaf_raw_pos stride first k hs hf hk

end Beeb.Props.C05c
