/-
C05 — HFE and HxC-MFM flux images yield the same sectors as the equivalent sector dump.

Specification side: Beeb/Spec/FluxEnc.lean says how a disc is *recorded* (IBM
3740 FM / System 34 MFM tracks with any legal gaps and physical sector order;
HFE v1, HFE v3 with opcodes, HxC MFM containers).  The theorems say that the
model of the loaders (Beeb/Model/Flux.lean, FluxImg.lean — tied to the C++ by
the correspondence check) reads back exactly the recorded sectors, so that
block `t * spt + r` of a side is sector `r` of track `t`: the same block device
as the sector dump of that side.
-/
import Beeb.Spec.FluxEnc
import Beeb.Lemmas.TrackRT
import Beeb.Lemmas.ContainerL

namespace Beeb.Props.C05
open Beeb Beeb.Flux Beeb.Spec.Flux Beeb.TrackRT Beeb.ContainerL

/-! ### what is recorded -/

/-- a sector: 256 bytes -/
def IsSector (s : Bytes) : Prop := s.length = 256 ∧ ∀ b ∈ s, b < 256

/-- the sectors of a track in physical order: record numbers below 256, 256 bytes each -/
def TrackOK (secs : List (Nat × Bytes)) : Prop :=
  ∀ p ∈ secs, p.1 < 256 ∧ IsSector p.2

/-- FM gaps the decoder (like a real controller) copes with: at least two sync
    bytes before a mark, the data mark within 64 bytes of the ID field, at least
    one byte after the last sector -/
def LegalFm (lay : Layout) : Prop :=
  2 ≤ lay.sync ∧ lay.gap2 + lay.sync + 1 ≤ 64 ∧ 1 ≤ lay.gap4 ∧ lay.fill < 256

/-- MFM: the data record's sync within 80 bytes of the header (the encoder itself
    uses at least 2 sync bytes and 1 gap byte) -/
def LegalMfm (lay : Layout) : Prop :=
  max lay.gap2 1 + max lay.sync 2 + 3 ≤ 80 ∧ 1 ≤ lay.gap4 ∧ lay.fill < 256

/-- what the decoder reports for a sector, without the ghost positions -/
def seen (s : FSector) : Nat × Nat × Nat × Bytes := (s.cyl, s.head, s.record, s.data)

/-! ### tracks -/

/-- **FM track round trip.**  An FM track recorded with any legal gaps, any fill
    byte and any physical order of its sectors, stored the HFE way (two stored
    bits per cell, least significant bit first) and followed by any amount of
    zero padding, decodes to exactly its sectors, in physical order. -/
theorem C05_fm_track (lay : Layout) (cyl head : Nat) (secs : List (Nat × Bytes)) (padding : Nat)
    (hl : LegalFm lay) (hc : cyl < 256) (hh : head < 256) (hs : TrackOK secs) :
    let stored := packLsb (hfeSideBits true (fmTrack lay cyl head secs)) ++ List.replicate padding 0
    (decodeFm (hfeBitStream true stored)).1.map seen = secs.map (fun p => (cyl, head, p.1, p.2)) ∧
    (decodeFm (hfeBitStream true stored)).2 = false :=
  fm_track_roundtrip lay cyl head secs padding hl hc hh hs

/-- **MFM track round trip** (HFE storage: one stored bit per cell, LSB first). -/
theorem C05_mfm_track (lay : Layout) (cyl head : Nat) (secs : List (Nat × Bytes)) (padding : Nat)
    (hl : LegalMfm lay) (hc : cyl < 256) (hh : head < 256) (hs : TrackOK secs) :
    let stored := packLsb (mfmTrack lay cyl head secs) ++ List.replicate padding 0
    (decodeMfm (hfeBitStream false stored)).map seen = secs.map (fun p => (cyl, head, p.1, p.2)) :=
  mfm_track_roundtrip lay cyl head secs padding hl hc hh hs

/-- HxC MFM stores the same cells most significant bit first: the decoder sees the same stream -/
theorem C05_hxc_bits (cells : List Bool) :
    hxcBitStream (packMsb cells) = hfeBitStream false (packLsb cells) :=
  hxc_bits cells

/-! ### HFE v3 opcodes -/

/-- a legal v3 item: byte-sized operands; a cell byte must not look like an opcode
    (in FM and MFM no four consecutive cells are all 1, so real cell bytes never do) -/
def ItemOK : V3Item → Prop
  | .cells b => b < 256 ∧ (revBits b) &&& 0xF0 ≠ 0xF0
  | .nop => True
  | .setIndex => True
  | .setBitrate v => v < 256
  | .skipBits k b => k < 8 ∧ b < 256 ∧ (revBits b) &&& 0xF0 ≠ 0xF0

/-- **Opcodes are transparent.**  Whatever NOP / SETINDEX / SETBITRATE / SKIPBITS
    opcodes are placed between the cell bytes of a v3 stream, `copy_hfe` delivers
    exactly the cells the stream denotes: every complete group of eight cells as
    a byte, the remaining `n % 8` cells held in its state; nothing is reported. -/
theorem C05_v3_transparent (items : List V3Item) (h : ∀ it ∈ items, ItemOK it) :
    ∃ st, copyHfe true ((v3Bytes items).map revBits) {} [] false =
            some (st, (packLsb ((v3Cells items).take (8 * ((v3Cells items).length / 8)))).reverse, false) ∧
          st.gotBits = (v3Cells items).length % 8 ∧ st.thisOp = 0 ∧ st.skip = 0 :=
  v3_transparent items h

/-- **Block boundaries are harmless**: `copy_hfe` run block by block with its
    state carried over equals one run over the concatenation — so an opcode and
    its operand, or SKIPBITS and the byte it applies to, may straddle two blocks. -/
theorem C05_copy_append (hfe3 : Bool) (a b : Bytes) (st : CopyState) (acc : Bytes) (noise : Bool) :
    copyHfe hfe3 (a ++ b) st acc noise =
      (match copyHfe hfe3 a st acc noise with
       | none => none
       | some (st', acc', noise') => copyHfe hfe3 b st' acc' noise') :=
  copy_append hfe3 a b st acc noise

/-! ### images -/

/-- one side of a disc: `d[t][r]` = content of sector `r` of track `t` -/
abbrev SideData := List (List Bytes)

def SideOK (spt : Nat) (d : SideData) : Prop := ∀ tr ∈ d, tr.length = spt ∧ ∀ s ∈ tr, IsSector s

def RecordingOK (fm : Bool) (spt : Nat) (rc : Recording) : Prop :=
  (if fm then LegalFm rc.lay else LegalMfm rc.lay) ∧ rc.order.Perm (List.range spt)

/-- the cells of every track of a side -/
def sideCells (fm : Bool) (head : Nat) (d : SideData) (rs : List Recording) : List (List Bool) :=
  ((d.zip rs).zipIdx).map fun (p, t) =>
    let secs := p.2.order.map fun r => (r, p.1.getD r [])
    if fm then fmTrack p.2.lay t head secs else mfmTrack p.2.lay t head secs

/-- the sector dump of a side as a block device -/
def dumpRead (spt : Nat) (d : SideData) (lba : Nat) : Option Sector :=
  if spt = 0 then none else (d[lba / spt]?).bind fun tr => tr[lba % spt]?

/-- **HFE v1 image = sector dump** (one- or two-sided, FM or MFM).  Loading the
    image succeeds silently, presents one block device per side with the recorded
    geometry, and every block reads exactly as in the sector dump of that side
    (blocks beyond the last track fail to read in both). -/
theorem C05_hfe_v1 (fm : Bool) (spt : Nat) (ds : List SideData) (rss : List (List Recording))
    (hsides : ds.length = 1 ∨ ds.length = 2) (hr : rss.length = ds.length)
    (ntr : Nat) (hn : 0 < ntr ∧ ntr ≤ 255) (hspt : 0 < spt ∧ spt ≤ 256)
    (hd : ∀ d ∈ ds, d.length = ntr ∧ SideOK spt d)
    (hrs : ∀ rs ∈ rss, rs.length = ntr ∧ ∀ rc ∈ rs, RecordingOK fm spt rc)
    (hsmall : ∀ k t, (packLsb (hfeSideBits fm ((((ds.zip rss).zipIdx.map fun (p, k) => sideCells fm k p.1 p.2).getD k []).getD t []))).length ≤ 32512) :
    let cells := (ds.zip rss).zipIdx.map fun (p, k) => sideCells fm k p.1 p.2
    let stored (k t : Nat) : Bytes := packLsb (hfeSideBits fm ((cells.getD k []).getD t []))
    let img := hfeImage false fm ds.length ((List.range ntr).map fun t => (stored 0 t, if ds.length = 2 then stored 1 t else []))
    ∃ sides, loadHfe img.toArray = .ok sides false ∧ sides.length = ds.length ∧
      ∀ k (hk : k < ds.length), ∃ s, sides[k]? = some s ∧ s.side = k ∧
        s.geom = { cylinders := ntr, heads := 1, sectors := spt, encoding := some (if fm then Encoding.FM else Encoding.MFM) } ∧
        ∀ lba, hfeReadBlock s lba = dumpRead spt (ds.getD k []) lba :=
  hfe_v1_image fm spt ds rss hsides hr ntr hn hspt hd hrs hsmall fm_track_roundtrip mfm_track_roundtrip


/-- **HFE v3 image = sector dump**: the same with every side stream stored as any
    legal v3 item stream denoting that side's cells (plus zero padding). -/
theorem C05_hfe_v3 (fm : Bool) (spt : Nat) (ds : List SideData) (rss : List (List Recording))
    (hsides : ds.length = 1 ∨ ds.length = 2) (hr : rss.length = ds.length)
    (ntr : Nat) (hn : 0 < ntr ∧ ntr ≤ 255) (hspt : 0 < spt ∧ spt ≤ 256)
    (hd : ∀ d ∈ ds, d.length = ntr ∧ SideOK spt d)
    (hrs : ∀ rs ∈ rss, rs.length = ntr ∧ ∀ rc ∈ rs, RecordingOK fm spt rc)
    (items : Nat → Nat → List V3Item)
    (hitems : ∀ k t, (∀ it ∈ items k t, ItemOK it) ∧ (v3Cells (items k t)).length % 8 = 0 ∧ (v3Bytes (items k t)).length ≤ 32512 ∧
       ∃ pad, v3Cells (items k t) =
         hfeSideBits fm ((((ds.zip rss).zipIdx.map fun (p, k) => sideCells fm k p.1 p.2).getD k []).getD t []) ++ List.replicate pad false) :
    let img := hfeImage true fm ds.length ((List.range ntr).map fun t => (v3Bytes (items 0 t), if ds.length = 2 then v3Bytes (items 1 t) else []))
    ∃ sides, loadHfe img.toArray = .ok sides false ∧ sides.length = ds.length ∧
      ∀ k (hk : k < ds.length), ∃ s, sides[k]? = some s ∧ s.side = k ∧
        s.geom = { cylinders := ntr, heads := 1, sectors := spt, encoding := some (if fm then Encoding.FM else Encoding.MFM) } ∧
        ∀ lba, hfeReadBlock s lba = dumpRead spt (ds.getD k []) lba :=
  hfe_v3_image fm spt ds rss hsides hr ntr hn hspt hd hrs items hitems fm_track_roundtrip mfm_track_roundtrip

/-- **HxC MFM image = sector dump.** -/
theorem C05_hxc (spt : Nat) (ds : List SideData) (rss : List (List Recording))
    (hsides : ds.length = 1 ∨ ds.length = 2) (hr : rss.length = ds.length)
    (ntr : Nat) (hn : 0 < ntr ∧ ntr ≤ 255) (hspt : 0 < spt ∧ spt ≤ 256)
    (hd : ∀ d ∈ ds, d.length = ntr ∧ SideOK spt d)
    (hrs : ∀ rs ∈ rss, rs.length = ntr ∧ ∀ rc ∈ rs, RecordingOK false spt rc)
    (hsmall : ∀ k t, ((((ds.zip rss).zipIdx.map fun (p, k) => sideCells false k p.1 p.2).getD k []).getD t []).length ≤ 8 * 1000000) :
    let cells := (ds.zip rss).zipIdx.map fun (p, k) => sideCells false k p.1 p.2
    let img := hxcImage ds.length ((List.range ntr).map fun t => (List.range ds.length).map fun k => (cells.getD k []).getD t [])
    ∃ sides, loadHxc img.toArray = .ok sides false ∧ sides.length = ds.length ∧
      ∀ k (hk : k < ds.length), ∃ s, sides[k]? = some s ∧ s.side = k ∧
        s.geom = { cylinders := ntr, heads := 1, sectors := spt, encoding := some Encoding.MFM } ∧
        ∀ lba, hxcReadBlock s lba = dumpRead spt (ds.getD k []) lba :=
  hxc_image spt ds rss hsides hr ntr hn hspt hd hrs hsmall mfm_track_roundtrip

/-! ### the hypotheses are satisfiable -/

/-- the standard IBM 3740 / System 34 gaps are legal -/
example : LegalFm {} ∧ LegalMfm { gap2 := 22, sync := 12, gap3 := 54, fill := 0x4E } := by
  unfold LegalFm LegalMfm; decide

/-- a 2:1 interleaved ten-sector track is a legal recording -/
example : RecordingOK true 10 { lay := {}, order := [0, 5, 1, 6, 2, 7, 3, 8, 4, 9] } := by
  refine ⟨?_, ?_⟩
  · show LegalFm {}
    unfold LegalFm; decide
  · decide

end Beeb.Props.C05
