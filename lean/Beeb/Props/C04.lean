/-
C04 — Sector-dump containers map (drive, track, sector) to the documented offset.
-/
import Beeb.Model.Disc
import Beeb.Spec.Container
import Beeb.Lemmas.View

namespace Beeb.Props.C04
open Beeb Beeb.Gen Beeb.Spec Beeb.ViewL

/-- `Geometry::total_sectors` for any plausible geometry is the plain product -/
theorem totalSectors_eq (g : Geometry) (hc : g.cylinders ≤ 1000) (hh : g.heads ≤ 2) (hs : g.sectors ≤ 1000) :
    g.totalSectors = g.cylinders * g.heads * g.sectors := by
  unfold Geometry.totalSectors geometry_total_sectors sector_count
  have h1 : g.cylinders * g.heads ≤ 1000 * 2 := Nat.mul_le_mul hc hh
  have h2 : g.cylinders * g.heads * g.sectors ≤ 1000 * 2 * 1000 := Nat.mul_le_mul h1 hs
  rw [Nat.mod_eq_of_lt (a := g.cylinders * g.heads) (by omega)]
  rw [Nat.mod_eq_of_lt (a := g.cylinders * g.heads * g.sectors) (by omega)]
  exact Nat.mod_eq_of_lt (by omega)

theorem single_total (g : Geometry) (hc : g.cylinders ≤ 1000) (hs : g.sectors ≤ 1000) :
    (singleSide g).totalSectors = g.cylinders * g.sectors := by
  have := totalSectors_eq (singleSide g) hc (by simp [singleSide]) hs
  simpa [singleSide] using this

/-- **Non-interleaved .ssd/.sdd.**  Logical sector `s` of track `t` of side `k`
    is the sector at the documented offset: sides contiguous, side 0 first. -/
theorem C04_noninterleaved (g : Geometry) (file : Media) (k t s : Nat)
    (hc : g.cylinders ≤ 1000) (hs : g.sectors ≤ 1000) (hk : k < 2)
    (ht : t < g.cylinders) (hsec : s < g.sectors) :
    (viewNI g k).readBlock file (t * g.sectors + s) =
      file (offsetNonInterleaved g.cylinders g.sectors k t s) := by
  have hT := single_total g hc hs
  have hlt : t * g.sectors + s < g.cylinders * g.sectors := by
    have : t * g.sectors + g.sectors ≤ g.cylinders * g.sectors := by
      rw [← Nat.succ_mul]; exact Nat.mul_le_mul_right _ ht
    omega
  have hprod : g.cylinders * g.sectors ≤ 1000 * 1000 := Nat.mul_le_mul hc hs
  have hpos : 0 < g.cylinders * g.sectors := by omega
  have hkk : k * (g.cylinders * g.sectors) ≤ 1 * (g.cylinders * g.sectors) := Nat.mul_le_mul_right _ (by omega)
  rw [readBlock_eq _ _ _ (by simp [viewNI, hT]; omega) (by simp [viewNI, hT]; omega) (by omega)]
  simp only [viewNI, hT]
  rw [if_neg (by omega), if_neg (by omega)]
  rw [Nat.div_eq_of_lt hlt, Nat.mod_eq_of_lt hlt]
  unfold offsetNonInterleaved
  congr 1
  omega

/-- **Track-interleaved .dsd/.ddd.**  Tracks alternate by side. -/
theorem C04_interleaved (g : Geometry) (file : Media) (k t s : Nat)
    (hc : g.cylinders ≤ 1000) (hs : g.sectors ≤ 1000) (hk : k < 2)
    (ht : t < g.cylinders) (hsec : s < g.sectors) :
    (viewIL g k).readBlock file (t * g.sectors + s) =
      file (offsetInterleaved g.sectors k t s) := by
  have hT := single_total g hc hs
  have hlt : t * g.sectors + s < g.cylinders * g.sectors := by
    have : t * g.sectors + g.sectors ≤ g.cylinders * g.sectors := by
      rw [← Nat.succ_mul]; exact Nat.mul_le_mul_right _ ht
    omega
  have hprod : g.cylinders * g.sectors ≤ 1000 * 1000 := Nat.mul_le_mul hc hs
  have hpos : 0 < g.sectors := by omega
  have hkk : k * g.sectors ≤ 1 * g.sectors := Nat.mul_le_mul_right _ (by omega)
  have e : viewIL g k = View.mk (k * g.sectors) g.sectors g.sectors (g.cylinders * g.sectors) (singleSide g) "" := by
    unfold viewIL
    simp only [hT]
    rfl
  rw [e, readBlock_eq _ _ _ (by dsimp only; omega) (by dsimp only; omega) (by omega)]
  dsimp only
  rw [if_neg (by omega), if_neg (by omega)]
  have hdiv : (t * g.sectors + s) / g.sectors = t := by
    rw [Nat.mul_comm, Nat.mul_add_div hpos, Nat.div_eq_of_lt hsec]; omega
  have hmod : (t * g.sectors + s) % g.sectors = s := by
    rw [Nat.mul_comm, Nat.mul_add_mod, Nat.mod_eq_of_lt hsec]
  rw [hdiv, hmod]
  unfold offsetInterleaved
  congr 1
  rw [Nat.add_mul, Nat.mul_add, Nat.mul_assoc, Nat.two_mul]
  omega

theorem mmb_total : mmbGeom.totalSectors = 800 := by
  have h := totalSectors_eq mmbGeom (by show 80 ≤ 1000; omega) (by show 1 ≤ 2; omega) (by show 10 ≤ 1000; omega)
  rw [h]; rfl

/-- **MMB.**  A present slot maps (t, s) to 8192 + slot·204800 bytes + (10 t + s)·256. -/
theorem C04_mmb (file : Media) (slot st t s : Nat) (hp : slotPresent st)
    (hslot : slot ≤ 510) (ht : t < 80) (hs : s < 10) :
    (mmbView slot st).readBlock file (t * 10 + s) = file (offsetMmb slot t s) := by
  have hst : (st == 0x00 || st == 0x0F) = true := by
    rcases hp with h | h <;> simp [h]
  unfold mmbView
  rw [if_pos hst]
  rw [readBlock_eq _ _ _ (by simp [mmb_total]; omega) (by simp [mmb_total]) (by omega)]
  simp only [mmb_total]
  rw [if_neg (by omega), if_neg (by omega)]
  have hlt : t * 10 + s < 800 := by omega
  rw [Nat.div_eq_of_lt hlt, Nat.mod_eq_of_lt hlt]
  unfold offsetMmb
  apply congrArg
  omega

/-- **Unformatted / invalid MMB slots** are reported as unformatted: no read succeeds. -/
theorem C04_mmb_unformatted (file : Media) (slot st lba : Nat) (hp : ¬ slotPresent st) :
    (mmbView slot st).readBlock file lba = none ∧ (mmbView slot st).isFormatted = false := by
  have hst : ¬ ((st == 0x00 || st == 0x0F) = true) := by
    intro h
    apply hp
    simp only [Bool.or_eq_true, beq_iff_eq] at h
    exact h
  unfold mmbView
  rw [if_neg hst]
  constructor
  · simp [View.unformatted, View.readBlock, unformatted_eq]
  · simp [View.unformatted, View.isFormatted]

/-- **A read beyond the end of the surface fails** instead of returning other data
    (every view, every container, every underlying file). -/
theorem C04_beyond_end (v : View) (file : Media) (lba : Nat) (h : v.total ≤ lba) :
    v.readBlock file lba = none := by
  unfold View.readBlock
  rw [beyond_eq]
  by_cases hu : fileview_unformatted v.take = true
  · simp [hu]
  · simp [hu, h]

/-- non-vacuity: 80-track two-sided interleaved image, side 1, track 3, sector 7 -/
example : offsetInterleaved 10 1 3 7 = 77 := by decide
example : offsetMmb 2 79 9 = 2431 := by decide

end Beeb.Props.C04
