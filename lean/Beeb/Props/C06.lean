/-
C06 — Track decoding never returns damaged or misaddressed sector data.

The theorems are about the Lean decoders `decodeFm` / `decodeMfm` and the HFE /
HxC MFM block devices of Beeb/Model/Flux.lean and FluxImg.lean, for **every**
bit stream / file content.  `FSector.idPos` and `FSector.dataPos` are ghost
fields: the cell positions just after the ID mark and the data mark that the
decoder used for the sector; they let the theorems say *where in the track*
the returned bytes were read.

What CRC-16 can promise is stated exactly: both fields of a returned sector
pass the check, and (C06_crc_detects_*) a field that differs from a field that
passes the check in a single burst of at most 16 bits does not pass it.
-/
import Beeb.Model.FluxImg
import Beeb.Lemmas.FluxSound
import Beeb.Lemmas.CrcL

namespace Beeb.Props.C06
open Beeb Beeb.Flux Beeb.FluxSoundL Beeb.CrcL

/-- the cells from `pos` hold exactly `bytes`, each with the normal FM clock -/
def FmHolds (s : BitStream) (pos : Nat) (bytes : Bytes) : Prop :=
  ∃ p', fmCopyBytes s bytes.length pos [] = (true, bytes, p')

/-- the cells from `pos` hold exactly `bytes` as legal MFM -/
def MfmHolds (s : BitStream) (pos : Nat) (bytes : Bytes) : Prop :=
  ∃ p', mfmCopyBytes s bytes.length pos [] = (true, bytes, p')

/-- **FM soundness.**  Every sector the FM decoder yields, from any bit stream:
    its address was read, with normal clocks, from the six bytes after an ID mark
    and together with the mark passes the CRC; the size code gives the length of
    the data; the data and its two CRC bytes were read, with normal clocks, from
    the bytes after a data mark that follows the end of that ID field by at most
    64 bytes, and together with the data mark they pass the CRC. -/
theorem C06_fm_sound (s : BitStream) (sec : FSector) (h : sec ∈ (decodeFm s).1) :
    ∃ code c1 c2,
      FmHolds s sec.idPos [sec.cyl, sec.head, sec.record, code, c1, c2] ∧
      ccitt [0xFE, sec.cyl, sec.head, sec.record, code, c1, c2] = 0 ∧
      sizeOfCode code = some sec.data.length ∧
      FmHolds s sec.dataPos (sec.data ++ [sec.crc1, sec.crc2]) ∧
      ccitt (0xFB :: (sec.data ++ [sec.crc1, sec.crc2])) = 0 ∧
      sec.idPos + 96 ≤ sec.dataPos ∧ sec.dataPos ≤ sec.idPos + 96 + 1024 :=
  fm_sound s sec h

/-- **MFM soundness.**  The same for the MFM decoder: header and record are each
    introduced by the A1 A1 A1 sync, are legal MFM, and pass the CRC seeded with
    the three A1 bytes; the record follows the header by at most 80 bytes. -/
theorem C06_mfm_sound (s : BitStream) (sec : FSector) (h : sec ∈ decodeMfm s) :
    ∃ code c1 c2,
      MfmHolds s sec.idPos [0xFE, sec.cyl, sec.head, sec.record, code, c1, c2] ∧
      ccitt [0xA1, 0xA1, 0xA1, 0xFE, sec.cyl, sec.head, sec.record, code, c1, c2] = 0 ∧
      sizeOfCode code = some sec.data.length ∧
      MfmHolds s sec.dataPos (0xFB :: (sec.data ++ [sec.crc1, sec.crc2])) ∧
      ccitt ([0xA1, 0xA1, 0xA1, 0xFB] ++ (sec.data ++ [sec.crc1, sec.crc2])) = 0 ∧
      sec.idPos + 112 ≤ sec.dataPos ∧ sec.dataPos ≤ sec.idPos + 112 + 1280 :=
  mfm_sound s sec h

/-- value of the `n` cells before `pos`, first cell most significant -/
def cellsBefore (s : BitStream) (pos n : Nat) : Nat :=
  (List.range n).foldl (fun acc i => 2 * acc + (if s.get (pos - n + i) then 1 else 0)) 0

/-- **Marks.**  The ID field of a returned FM sector is introduced by an ID
    address mark (two FM zero bytes, then data FE with clock C7) and its data
    field by a data mark (data FB with clock C7), never a deleted-data mark. -/
theorem C06_fm_marks (s : BitStream) (sec : FSector) (h : sec ∈ (decodeFm s).1) :
    48 ≤ sec.idPos ∧ cellsBefore s sec.idPos 48 = 0xAAAAAAAAF57E ∧
    48 ≤ sec.dataPos ∧ cellsBefore s sec.dataPos 48 = 0xAAAAAAAAF56F :=
  fm_marks s sec h

theorem C06_mfm_marks (s : BitStream) (sec : FSector) (h : sec ∈ decodeMfm s) :
    64 ≤ sec.idPos ∧ cellsBefore s sec.idPos 64 = 0xAAAA448944894489 ∧
    64 ≤ sec.dataPos ∧ cellsBefore s sec.dataPos 64 = 0xAAAA448944894489 :=
  mfm_marks s sec h

/-! ### what the CRC check detects -/

/-- xor of two byte strings of the same length -/
def xorBytes (a b : Bytes) : Bytes := List.zipWith (· ^^^ ·) a b

/-- `e` is a single burst of at most 16 bits: all its non-zero bits lie within
    16 consecutive bit positions (`w` shifted left by `sh` within three adjacent bytes), and it is not zero -/
def IsBurst16 (e : Bytes) : Prop :=
  ∃ (pre : Nat) (w : Nat) (post : Nat), 0 < w ∧ w < 65536 ∧ ∃ sh, sh < 9 ∧
    e = List.replicate pre 0 ++ [(w <<< sh) / 65536 % 256, (w <<< sh) / 256 % 256, (w <<< sh) % 256] ++ List.replicate post 0

/-- **A burst of up to 16 damaged bits is always detected**: if a field passes the
    check then no field that differs from it by such a burst does.  (All bytes < 256.) -/
theorem C06_crc_detects_burst (good bad : Bytes) (hg : ∀ x ∈ good, x < 256) (hb : ∀ x ∈ bad, x < 256)
    (hlen : good.length = bad.length) (hcrc : ccitt good = 0) (hburst : IsBurst16 (xorBytes good bad)) :
    ccitt bad ≠ 0 :=
  crc_detects_burst good bad hg hb hlen hcrc hburst

/-! ### image level -/

/-- `checkTrack` accepts only sectors of this track and side, 256 bytes each -/
theorem C06_checkTrack (secs : List FSector) (track side : Nat) (h : checkTrack secs track side = true) :
    ∀ x ∈ secs, x.cyl = track ∧ x.head = side ∧ x.data.length = 256 :=
  checkTrack_sound secs track side h

/-- **HFE: a read returns the data recorded under exactly that address, or fails.**
    If block `lba` of a side of a loaded HFE image reads as `d`, then `d` is the
    data of a sector that the decoder found *in the cells of track `lba / spt` of
    that side*, whose ID field carries cylinder `lba / spt`, that side's head
    number and record `lba % spt`. -/
theorem C06_hfe_read (f : FileData) (sides : List FluxSide) (noise : Bool) (h : loadHfe f = .ok sides noise)
    (s : FluxSide) (hs : s ∈ sides) (lba : Nat) (d : Sector) (hr : hfeReadBlock s lba = some d) :
    ∃ hdr isFm stream nz sec,
      hfeParseHeader f = some hdr ∧
      hfeTrackStream f hdr (hfeLut f hdr) s.side (lba / s.geom.sectors) = some (isFm, stream, nz) ∧
      sec ∈ (decodeTrack isFm (hfeBitStream isFm stream)).1 ∧
      sec.data = d ∧ d.length = 256 ∧
      sec.cyl = lba / s.geom.sectors ∧ sec.head = s.side ∧ sec.record = lba % s.geom.sectors :=
  hfe_read f sides noise h s hs lba d hr

/-- **HFE: addresses are unique within a side**, so the lookup cannot pick a
    different sector with the same address. -/
theorem C06_hfe_unique (f : FileData) (sides : List FluxSide) (noise : Bool) (h : loadHfe f = .ok sides noise)
    (s : FluxSide) (hs : s ∈ sides) :
    s.sectors.Pairwise (fun a b => ¬(a.cyl = b.cyl ∧ a.head = b.head ∧ a.record = b.record)) :=
  hfe_unique f sides noise h s hs

/-- **HxC MFM: a read returns the data recorded under exactly that address, or fails.** -/
theorem C06_hxc_read (f : FileData) (sides : List FluxSide) (noise : Bool) (h : loadHxc f = .ok sides noise)
    (s : FluxSide) (hs : s ∈ sides) (lba : Nat) (d : Sector) (hr : hxcReadBlock s lba = some d) :
    ∃ m e sec,
      hxcTrackList f = some m ∧ e ∈ m ∧ e.side = s.side ∧ e.track = lba / s.geom.sectors ∧
      (fread f e.offset e.size).length = e.size ∧
      sec ∈ decodeMfm (hxcBitStream (fread f e.offset e.size)) ∧
      sec.data = d ∧ d.length = 256 ∧
      sec.cyl = lba / s.geom.sectors ∧ sec.head = s.side ∧ sec.record = lba % s.geom.sectors :=
  hxc_read f sides noise h s hs lba d hr

theorem C06_hxc_unique (f : FileData) (sides : List FluxSide) (noise : Bool) (h : loadHxc f = .ok sides noise)
    (s : FluxSide) (hs : s ∈ sides) :
    s.sectors.Pairwise (fun a b => ¬(a.cyl = b.cyl ∧ a.head = b.head ∧ a.record = b.record)) :=
  hxc_unique f sides noise h s hs

/-- non-vacuity: the decoders do return sectors — see `Beeb.Props.C05` for the
    round-trip theorems; here: an empty stream yields nothing. -/
example : (decodeFm (BitStream.ofBytes [] 1 2)).1 = [] := by decide

end Beeb.Props.C06
