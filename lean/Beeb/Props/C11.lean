/-
C11 — Exit status 0 implies the output was completely written.
The theorem is about the sticky-stream model of Beeb/Model/Stream.lean; the
kernel's write semantics and the stdio/iostream buffering it abstracts are
validated by fault-injection runs (RLIMIT_FSIZE at every offset, /dev/full,
closed pipes), not proved.
-/
import Beeb.Model.Stream
import Beeb.Lemmas.StreamL

namespace Beeb.Props.C11
open Beeb Beeb.Stream Beeb.StreamL

/-- **If the device refuses any byte of the output, the program exits non-zero
    with a diagnostic** — for every sequence of writes and flushes, every buffer
    size and every offset at which the device starts refusing. -/
theorem C11_failure_reported (cap bufSize : Nat) (acts : List Act) (st : Nat) (dg : Bool)
    (h : cap < totalBytes acts) :
    (mainWith cap bufSize acts st dg).1.status ≠ 0 ∧ (mainWith cap bufSize acts st dg).1.diagnostic = true :=
  failure_reported cap bufSize acts st dg h

/-- **Exit status 0 implies the complete output was accepted by the device.** -/
theorem C11_zero_means_complete (cap bufSize : Nat) (acts : List Act) (st : Nat) (dg : Bool)
    (h : (mainWith cap bufSize acts st dg).1.status = 0) :
    (mainWith cap bufSize acts st dg).2 = totalBytes acts :=
  zero_means_complete cap bufSize acts st dg h

/-- when the device accepts everything the command's own status stands -/
theorem C11_no_false_alarm (cap bufSize : Nat) (acts : List Act) (st : Nat) (dg : Bool)
    (h : totalBytes acts ≤ cap) :
    (mainWith cap bufSize acts st dg).1 = { status := st, diagnostic := dg } :=
  no_false_alarm cap bufSize acts st dg h

/-- non-vacuity: 10 bytes in two writes with a flush in between, device full after 7 -/
example : (mainWith 7 4 [.write [1,2,3,4,5,6], .flush, .write [7,8,9,10]] 0 false).1 = { status := 1, diagnostic := true } := by
  decide

end Beeb.Props.C11
