/-
C02 (continued) — cat, show-titles, .inf: title, cycle, boot option, file list, CRC.
-/
import Beeb.Model.Cmd
import Beeb.Spec.Cat
import Beeb.Spec.Info
import Beeb.Lemmas.CatL

namespace Beeb.Props.C02
open Beeb Beeb.Gen Beeb.Spec Beeb.CatL

/-- **Title**: the catalogue title shown by cat and show-titles is the documented
    12-character, NUL-terminated, 7-bit, right-trimmed field. -/
theorem C02_title (fmt : Format) (s0 s1 : Sector) (h0 : 8 ≤ s0.length) (h1 : 4 ≤ s1.length) :
    (Fragment.ofSectors fmt s0 s1).title = Spec.title s0 s1 :=
  title_eq fmt s0 s1 h0 h1

/-- **Cycle number and boot option** are bytes 4 and bits 4–5 of byte 6 of sector 1. -/
theorem C02_cycle_boot (fmt : Format) (s0 s1 : Sector) :
    (Fragment.ofSectors fmt s0 s1).seq = sget s1 4 ∧
    (Fragment.ofSectors fmt s0 s1).boot = sget s1 6 / 16 % 4 :=
  cycle_boot_eq fmt s0 s1

/-- **cat lists every file exactly once**: the entries it prints are a permutation
    of the catalogue's entries (both Watford halves, any --dir). -/
theorem C02_cat_perm (curDir : Nat) (c : Catalog) : (catSorted curDir c).Perm c.entries :=
  catSorted_perm curDir c

/-- **…in the documented order**: current directory first, then by directory and
    name, case-insensitively (adjacent entries are never out of order). -/
theorem C02_cat_sorted (curDir : Nat) (c : Catalog) :
    (catSorted curDir c).Pairwise (fun a b => ¬ catBefore curDir b.directory b.nameStr a.directory a.nameStr = true) :=
  catSorted_sorted curDir c

/-- the model's comparator is the documented order -/
theorem C02_cat_order (curDir : Nat) (a b : Entry) :
    catLess curDir a b = catBefore curDir a.directory a.nameStr b.directory b.nameStr :=
  catLess_eq curDir a b

/-- **Every sorted entry is printed, in order, with its lock mark, in every --ui
    style**: the listing part of cat's output is the cells of the sorted entries
    separated only by blanks and newlines.

    CHANGED: added the hypothesis `hp : c0.pfx = []` (the line prefix of the
    column tracker is empty, which is the state `cmdCatRender` establishes with
    `{ c with pfx := [] }` immediately before it prints the entries).  Without it
    the statement is false, because `Col.put 10` re-emits the prefix after every
    newline: with `e0 := { name := [65,32,32,32,32,32,32,36], md := [0,0,0,0,0,0,0,0] }`,
    `(catEntries 1 36 0 [e0] false false { pfx := [88] }).out
       = [10, 88] ++ catCell 1 36 e0 = [10, 88, 32,32,32,32,32,32,32, 65]`,
    so the only possible separator is `[10, 88]`, which contains `88`. -/
theorem C02_cat_cells (ui curDir rmargin : Nat) (es : List Entry) (first gap : Bool) (c0 : Col)
    (hp : c0.pfx = []) :
    ∃ seps : List Bytes, seps.length = es.length ∧ (∀ s ∈ seps, ∀ ch ∈ s, ch = 32 ∨ ch = 10) ∧
      (catEntries ui curDir rmargin es first gap c0).out =
        c0.out ++ ((seps.zip es).map (fun p => p.1 ++ catCell ui curDir p.2)).flatten :=
  catEntries_cells ui curDir rmargin es first gap c0 hp

/-- a cell shows the directory (unless current), the name and the lock mark -/
theorem C02_cat_cell (ui curDir : Nat) (e : Entry) :
    ∃ pad : Bytes, (∀ ch ∈ pad, ch = 32) ∧
      catCell ui curDir e = pad ++ (if e.directory != curDir then [e.directory, 46] else []) ++ e.nameStr ++
        (if e.isLocked then [32, 32, 32, 32, 76] else []) :=
  catCell_shape ui curDir e

/-- **CRC in the .inf file is the XMODEM CRC-16 of the body** (regenerated
    `crc_cycle` leaf), for every byte string. -/
theorem C02_inf_crc (data : Bytes) (hb : ∀ b ∈ data, b < 256) : crc16 0 data = xmodem data :=
  crc16_eq_xmodem data hb

/-- the CRC catalogue's check value for CRC-16/XMODEM -/
example : xmodem [49, 50, 51, 52, 53, 54, 55, 56, 57] = 0x31C3 := by
  simp [xmodem, xmodemByte, xmodemStep]

/-- **The .inf line** carries directory, name, sign-extended load and execution
    addresses, length, lock word and CRC in the documented format. -/
theorem C02_inf_line (e : Entry) (crc : Nat) (he : ∀ i, e.m i < 256) (hc : crc < 65536) :
    infContent e crc =
      [e.directory, 46] ++ e.nameStr ++ [32] ++
      hexFixed 6 (signExt18to24 (decodeFields e.n e.m).load) ++ [32] ++
      hexFixed 6 (signExt18to24 (decodeFields e.n e.m).exec) ++ [32] ++
      hexFixed 6 (decodeFields e.n e.m).len ++ [32] ++
      (if e.isLocked then strBytes "Locked " else []) ++ strBytes "CRC=" ++ hexFixed 4 crc ++ [10] :=
  infContent_eq e crc he hc

end Beeb.Props.C02
