/-
C15 — Wildcards and file names select exactly the files DFS semantics say.
-/
import Beeb.Model.Cmd
import Beeb.Spec.Afsp
import Beeb.Lemmas.AfspL

namespace Beeb.Props.C15
open Beeb Beeb.Spec Beeb.AfspL

/-- **Every character's regex fragment means what DFS says**: the ERE generated
    from a qualified wildcard (by the character → fragment switch of afsp.cc, as
    modelled, run through the POSIX bracket/escape parsing rules) accepts exactly
    the strings the documented semantics accept — for every wildcard over all
    byte values 1–255 (including ^ $ [ ] ( ) \ + ? | { } -) and every string. -/
theorem C15_fragments (full s : Bytes) (hf : ∀ c ∈ full, 0 < c ∧ c < 256) (hs : ∀ c ∈ s, 0 < c ∧ c < 256) :
    (match parseEre ([94] ++ full.flatMap ereFragment ++ [36]) with
     | some items => matchItems items s
     | none => false) = wildMatch full s :=
  fragments_correct full s hf hs

/-- the generated pattern always parses (it is never "Not a valid pattern" because of a metacharacter) -/
theorem C15_pattern_parses (full : Bytes) (hf : ∀ c ∈ full, 0 < c ∧ c < 256) :
    (parseEre ([94] ++ full.flatMap ereFragment ++ [36])).isSome :=
  fragments_parse full hf

/-- **info WILDCARD selects exactly the documented entries**: when the wildcard
    qualifies to `full` (drive and directory defaulted from --drive and --dir), an entry
    is selected iff its qualified name matches `full` by the documented semantics. -/
theorem C15_info (ctxVol : VolSel) (ctxDir : Nat) (wild : Bytes) (mt : Matcher) (full : Bytes)
    (hw : ∀ c ∈ wild, 0 < c ∧ c < 256) (hd : 0 < ctxDir ∧ ctxDir < 256)
    (hfull : extendWildcard ctxVol ctxDir wild = some full)
    (hm : Matcher.make ctxVol ctxDir wild = some mt)
    (vol : VolSel) (dir : Nat) (name : Bytes) (hn : ∀ c ∈ name, 0 < c ∧ c < 256) (hdir : dir < 256) :
    mt.accepts vol dir name =
      (match qualify vol dir name with
       | none => false
       | some qn => wildMatch full (qn.takeWhile (· != 0))) :=
  info_selects ctxVol ctxDir wild mt full hw hd hfull hm vol dir name hn hdir

/-- **Defaults**: a wildcard without drive or directory is qualified with --drive and --dir. -/
theorem C15_defaults (vol : VolSel) (dir : Nat) (nm : Bytes) (hne : nm ≠ []) (hok : ∀ c ∈ nm, c ≠ 46) (hc : nm.head? ≠ some 58) :
    extendWildcard vol dir nm = some (drivePrefix vol ++ [dir, 46] ++ nm) :=
  extend_defaults vol dir nm hne hok hc

/-- **type/list/dump lookup**: found iff directory and name are equal ignoring case. -/
theorem C15_lookup (e : Entry) (p : ParsedName) :
    e.hasName p = (lowerC p.dir == lowerC e.directory && ciEqual p.name (rtrimB e.nameStr)) :=
  hasName_eq e p

/-- names compare equal ignoring case exactly when they are equal after lower-casing -/
theorem C15_ciEqual (a b : Bytes) : ciEqual a b = (a.map lowerC == b.map lowerC) :=
  ciEqual_eq a b

/-- non-vacuity: the wildcard `^#*` against `:0.$.^AB` -/
example : wildMatch [58, 48, 46, 36, 46, 94, 35, 42] [58, 48, 46, 36, 46, 94, 65, 66] = true := by decide

end Beeb.Props.C15
