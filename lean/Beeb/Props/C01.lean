/-
C01 — dfs delivers each catalogued file's bytes exactly.
-/
import Beeb.Lemmas.Body
import Beeb.Lemmas.Render
import Beeb.Spec.Info

namespace Beeb.Props.C01
open Beeb Beeb.Gen Beeb.Spec Beeb.Leaf Beeb.BodyL

/-- the raw bytes of an entry are bytes -/
def Entry.IsBytes (e : Entry) : Prop := (∀ b ∈ e.name, b < 256) ∧ (∀ b ∈ e.md, b < 256)

theorem sectorsFor_eq (n : Nat) : Beeb.Leaf.sectorsFor n = Beeb.Spec.sectorsFor n := rfl

/-- **C01, file body.**  For every catalogue entry (every value of the 10-bit start
    and 18-bit length fields, i.e. all 2^64 metadata records) with a non-zero
    length, and every medium whose readable sectors are 256 bytes long, the bytes
    `type --binary` / `extract-files` obtain from `visit_file_body_piecewise` are
    exactly the first `len` bytes of the ⌈len/256⌉ sectors from the start sector —
    and the read fails (an error is reported) iff one of those sectors is unreadable. -/
theorem C01_body (e : Entry) (m : Media) (he : ∀ i, e.m i < 256) (hm : SectorLen m)
    (hlen : 0 < e.fileLength) :
    readBody e m = fileContent m e.startSector e.fileLength := by
  unfold readBody bodyPieces fileContent
  have hne0 : (e.fileLength == 0) = false := by simp; omega
  rw [hne0]
  simp only [Bool.false_eq_true, if_false]
  have hl := last_sector_eq e.m he
  have hne : ¬ file_length e.m = 0 := by
    unfold Entry.fileLength at hlen; omega
  rw [if_neg hne] at hl
  have hk : e.lastSector + 1 - e.startSector = Spec.sectorsFor e.fileLength := by
    unfold Entry.lastSector Entry.startSector Entry.fileLength
    rw [hl, sectorsFor_eq]
    have : 0 < Spec.sectorsFor (file_length e.m) := by
      unfold Spec.sectorsFor; omega
    omega
  rw [hk]
  have hle : e.fileLength ≤ 256 * Spec.sectorsFor e.fileLength := by
    unfold Spec.sectorsFor; omega
  have := bodyLoop_spec m hm (Spec.sectorsFor e.fileLength) e.startSector e.fileLength [] hle
  simp only [List.reverse_nil, List.flatten_nil, List.nil_append] at this
  rw [← this]
  simp [Option.map_map, Function.comp_def]

/-- zero-length files deliver zero bytes, whatever the medium and start sector -/
theorem C01_body_empty (e : Entry) (m : Media) (hlen : e.fileLength = 0) :
    readBody e m = some [] := by
  unfold readBody bodyPieces
  simp [hlen]

/-- **type** is the documented rendering of the same bytes (CR → newline) and
    `type --binary` is the identity — for every byte string. -/
theorem C01_type (b : Bytes) : crToLf b = typeText b := by
  unfold crToLf typeText
  apply List.map_congr_left
  intro c _
  by_cases h : c = 13 <;> simp [h]

/-- the catalogue fields of the entry are exactly the documented decoding -/
theorem C01_fields (e : Entry) (he : ∀ i, e.m i < 256) :
    e.startSector = (decodeFields e.n e.m).start ∧ e.fileLength = (decodeFields e.n e.m).len := by
  unfold Entry.startSector Entry.fileLength decodeFields
  exact ⟨start_sector_eq e.m he, file_length_eq e.m he⟩

/-- non-vacuity: an entry needing the high start bits and a length > 64 KiB -/
example : (⟨[65,32,32,32,32,32,32,36], [0,0,0,0,0x34,0x12,0x13,0x45]⟩ : Entry).startSector = 0x345 ∧
          (⟨[65,32,32,32,32,32,32,36], [0,0,0,0,0x34,0x12,0x13,0x45]⟩ : Entry).fileLength = 0x11234 := by
  constructor <;> decide

/-- **list** prints exactly the documented rendering — for every byte string (no
    restriction to values below 256 is needed): the CR-separated lines, each as its
    1-based number right-aligned in 4 columns, a space, the line's bytes and a
    newline; a final unterminated line gets no newline; an empty file prints
    nothing.  `listRender` is the byte-at-a-time state machine of cmd_list.cc,
    `listSpec` the split-and-number description. -/
theorem C01_list (b : Bytes) : listRender b = listSpec b := Beeb.RenderL.listRender_eq b

/-- **dump** prints exactly the documented rendering — for every byte string (a
    value ≥ 256 would be printed with more hex digits by both sides, so no
    hypothesis is needed): ⌈len/8⌉ rows, each the row's offset as 6 decimal digits,
    8 cells of two upper-case hex digits (`**` past the end), and the 8 bytes as
    characters with `.` for anything outside 32..126; an empty file prints nothing. -/
theorem C01_dump (b : Bytes) : hexdump b = dumpSpec b := Beeb.RenderL.hexdump_eq b

/-- non-vacuity: "AB␍C␍D" is `   1 AB⏎   2 C⏎   3 D` without a final newline, and
    with a final CR the last line is terminated too -/
example : listSpec [65,66,13,67,13,68] =
            [32,32,32,49,32,65,66,10, 32,32,32,50,32,67,10, 32,32,32,51,32,68] ∧
          listSpec [65,66,13,67,13,68,13] =
            [32,32,32,49,32,65,66,10, 32,32,32,50,32,67,10, 32,32,32,51,32,68,10] ∧
          listRender [65,66,13,67,13,68,13] = listSpec [65,66,13,67,13,68,13] := by
  decide +kernel

/-- non-vacuity: the 10 bytes "Hello ", 00, FF, 0D, "~" dump as
    `000000 48 65 6C 6C 6F 20 00 FF Hello ..⏎000008 0D 7E ** ** ** ** ** ** .~......⏎` -/
example : dumpSpec [72,101,108,108,111,32,0,255,13,126] =
    [48,48,48,48,48,48, 32,52,56, 32,54,53, 32,54,67, 32,54,67, 32,54,70, 32,50,48, 32,48,48, 32,70,70,
     32, 72,101,108,108,111,32,46,46, 10,
     48,48,48,48,48,56, 32,48,68, 32,55,69, 32,42,42, 32,42,42, 32,42,42, 32,42,42, 32,42,42, 32,42,42,
     32, 46,126,46,46,46,46,46,46, 10] := by
  decide +kernel

/-- **Opus DDOS default volume.**  On an Opus DDOS disc drive N means volume NA,
    however many volumes the disc has (one, or up to eight): mounting without a
    volume letter is mounting volume `A` (65) — and fails the same way when the
    disc has no volume A. -/
theorem C01_opus_default_volume (fs : FileSystem) (h : fs.fmt = Format.OpusDDOS) :
    fs.mount none = fs.mount (some 65) := by
  simp [FileSystem.mount, h]

/-- for contrast: on every other format there is no default — the volume mounted
    is the one catalogued under exactly the key given (for a plain drive number,
    the volume without a letter). -/
theorem C01_other_formats_no_default (fs : FileSystem) (h : fs.fmt ≠ Format.OpusDDOS) (key : Option Nat) :
    fs.mount key = (fs.vols.find? (fun p => p.1 == key)).map (·.2) := by
  have hf : (fs.fmt == Format.OpusDDOS) = false := by
    cases hfmt : fs.fmt <;> first | rfl | exact absurd hfmt h
  simp [FileSystem.mount, hf]

end Beeb.Props.C01
