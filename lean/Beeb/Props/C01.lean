/-
C01 — dfs delivers each catalogued file's bytes exactly.
-/
import Beeb.Lemmas.Body
import Beeb.Spec.Info

namespace Beeb.Props.C01
open Beeb Beeb.Gen Beeb.Spec Beeb.Leaf Beeb.BodyL

/-- the raw bytes of an entry are bytes -/
def Entry.IsBytes (e : Entry) : Prop := (∀ b ∈ e.name, b < 256) ∧ (∀ b ∈ e.md, b < 256)

theorem sectorsFor_eq (n : Nat) : Beeb.Leaf.sectorsFor n = Beeb.Spec.sectorsFor n := rfl

/-- **C01, file body.**  For every catalogue entry (every value of the 10-bit start
    and 18-bit length fields, i.e. all 2^64 metadata records) with a non-zero
    length, and every medium whose readable sectors are 256 bytes long, the bytes
    `type --binary` / `extract-files` obtain from `visit_file_body_piecewise` are
    exactly the first `len` bytes of the ⌈len/256⌉ sectors from the start sector —
    and the read fails (an error is reported) iff one of those sectors is unreadable. -/
theorem C01_body (e : Entry) (m : Media) (he : ∀ i, e.m i < 256) (hm : SectorLen m)
    (hlen : 0 < e.fileLength) :
    readBody e m = fileContent m e.startSector e.fileLength := by
  unfold readBody bodyPieces fileContent
  have hne0 : (e.fileLength == 0) = false := by simp; omega
  rw [hne0]
  simp only [Bool.false_eq_true, if_false]
  have hl := last_sector_eq e.m he
  have hne : ¬ file_length e.m = 0 := by
    unfold Entry.fileLength at hlen; omega
  rw [if_neg hne] at hl
  have hk : e.lastSector + 1 - e.startSector = Spec.sectorsFor e.fileLength := by
    unfold Entry.lastSector Entry.startSector Entry.fileLength
    rw [hl, sectorsFor_eq]
    have : 0 < Spec.sectorsFor (file_length e.m) := by
      unfold Spec.sectorsFor; omega
    omega
  rw [hk]
  have hle : e.fileLength ≤ 256 * Spec.sectorsFor e.fileLength := by
    unfold Spec.sectorsFor; omega
  have := bodyLoop_spec m hm (Spec.sectorsFor e.fileLength) e.startSector e.fileLength [] hle
  simp only [List.reverse_nil, List.flatten_nil, List.nil_append] at this
  rw [← this]
  simp [Option.map_map, Function.comp_def]

/-- zero-length files deliver zero bytes, whatever the medium and start sector -/
theorem C01_body_empty (e : Entry) (m : Media) (hlen : e.fileLength = 0) :
    readBody e m = some [] := by
  unfold readBody bodyPieces
  simp [hlen]

/-- **type** is the documented rendering of the same bytes (CR → newline) and
    `type --binary` is the identity — for every byte string. -/
theorem C01_type (b : Bytes) : crToLf b = typeText b := by
  unfold crToLf typeText
  apply List.map_congr_left
  intro c _
  by_cases h : c = 13 <;> simp [h]

/-- the catalogue fields of the entry are exactly the documented decoding -/
theorem C01_fields (e : Entry) (he : ∀ i, e.m i < 256) :
    e.startSector = (decodeFields e.n e.m).start ∧ e.fileLength = (decodeFields e.n e.m).len := by
  unfold Entry.startSector Entry.fileLength decodeFields
  exact ⟨start_sector_eq e.m he, file_length_eq e.m he⟩

/-- non-vacuity: an entry needing the high start bits and a length > 64 KiB -/
example : (⟨[65,32,32,32,32,32,32,36], [0,0,0,0,0x34,0x12,0x13,0x45]⟩ : Entry).startSector = 0x345 ∧
          (⟨[65,32,32,32,32,32,32,36], [0,0,0,0,0x34,0x12,0x13,0x45]⟩ : Entry).fileLength = 0x11234 := by
  constructor <;> decide

end Beeb.Props.C01
