/-
C14 (leaf ties) — the catalogue-size constants the model uses are what the current source says.

`catalog_sectors_for_format`, `data_sectors_reserved_for_catalog`, `Catalog::max_file_count` and the values of the
`Format` enumerators are regenerated from /repo's working tree on every run (Beeb/Generated/Leaf.lean); the model's
own definitions (`catalogSectorsFor`, `dataSectorsReservedForCatalog`, `Catalog.maxFileCount`, used by every C14
theorem: "used sectors … the catalogue's own sectors when there is none", "used+free files = 31 (62 on Watford)")
are proved equal to them here, for every format.  A change of one of these constants in the source breaks these
theorems (and the correspondence runs then look for the disc on which `free`/`space` go wrong).
-/
import Beeb.Model.Disc
import Beeb.Generated.Leaf

namespace Beeb.Props.C14b
open Beeb Beeb.Gen

/-- the value the source gives each `Format` enumerator -/
def fmtCode : Format → Nat
  | .HDFS => enum_Format_HDFS
  | .DFS => enum_Format_DFS
  | .WDFS => enum_Format_WDFS
  | .OpusDDOS => enum_Format_OpusDDOS

/-- the four enumerators are distinct values, so `fmtCode` loses nothing -/
theorem C14_format_codes_distinct (f g : Format) (h : fmtCode f = fmtCode g) : f = g := by
  cases f <;> cases g <;> first | rfl | (exfalso; revert h; decide)

/-- **Catalogue sectors**: 4 on Watford DFS, 2 otherwise — the source's function is the model's. -/
theorem C14_catalog_sectors_leaf (f : Format) : catalog_sectors_for_format (fmtCode f) = catalogSectorsFor f := by
  cases f <;> decide

/-- **Data sectors reserved for the catalogue**: none on Opus DDOS (the catalogues live in track 0, outside the
    volumes), the catalogue sectors otherwise. -/
theorem C14_reserved_sectors_leaf (f : Format) :
    data_sectors_reserved_for_catalog (fmtCode f) = dataSectorsReservedForCatalog f := by
  cases f <;> decide

/-- **File slots**: 62 on Watford DFS, 31 otherwise. -/
theorem C14_max_file_count_leaf (c : Catalog) : max_file_count (fmtCode c.fmt) = c.maxFileCount := by
  unfold Catalog.maxFileCount
  cases c.fmt <;> decide

/-- what the property statement says about them, outright -/
theorem C14_constants :
    catalog_sectors_for_format (fmtCode .WDFS) = 4 ∧ catalog_sectors_for_format (fmtCode .DFS) = 2 ∧
    catalog_sectors_for_format (fmtCode .HDFS) = 2 ∧ catalog_sectors_for_format (fmtCode .OpusDDOS) = 2 ∧
    data_sectors_reserved_for_catalog (fmtCode .OpusDDOS) = 0 ∧
    max_file_count (fmtCode .WDFS) = 62 ∧ max_file_count (fmtCode .DFS) = 31 ∧
    max_file_count (fmtCode .HDFS) = 31 ∧ max_file_count (fmtCode .OpusDDOS) = 31 := by decide

end Beeb.Props.C14b
