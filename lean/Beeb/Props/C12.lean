/-
C12 — dfs writes only where it was told to and never alters an image.
The theorems are about the path strings the model hands to the host file
system (what the OS then does with a path is observed by the sandbox
snapshots of the check, not proved).
-/
import Beeb.Model.Main
import Beeb.Lemmas.FsL

namespace Beeb.Props.C12
open Beeb Beeb.FsL

/-- the files a command run creates -/
def created : CmdRes → List (Bytes × Bytes)
  | .done _ o => o.files
  | .threw o => o.files
  | .abort o _ => o.files

/-- a path directly inside the destination directory: the destination (with its
    trailing slash) followed by a leaf that contains no '/' -/
def Inside (dest : Bytes) (path : Bytes) : Prop :=
  ∃ leaf, path = dest ++ leaf ∧ (47 : Nat) ∉ leaf

/-- **extract-files creates files only directly inside the destination**, whatever
    bytes the catalogue's names and directory characters contain. -/
theorem C12_extract_files_confined (env : Env) (a0 a : Bytes) (ha : a ≠ []) :
    ∀ p ∈ created (cmdExtractFiles env [a0, a]), Inside (destDir a) p.1 :=
  extract_files_confined env a0 a ha

/-- **extract-unused creates files only directly inside the destination.** -/
theorem C12_extract_unused_confined (env : Env) (a0 a : Bytes) (ha : a ≠ []) :
    ∀ p ∈ created (cmdExtractUnused env [a0, a]), Inside (destDir a) p.1 :=
  extract_unused_confined env a0 a ha

/-- the destination is the argument itself, with a '/' appended when it has none -/
theorem C12_dest (a : Bytes) : destDir a = a ∨ destDir a = a ++ [47] := dest_shape a

/-- **All other commands create no files at all.** -/
theorem C12_no_create (env : Env) (args : List Bytes) (r : CmdRes)
    (hc : args.head? ≠ some (strBytes "extract-files") ∧ args.head? ≠ some (strBytes "extract-unused"))
    (hr : runCommand env args = some r) : created r = [] :=
  other_commands_create_nothing env args r hc hr

/-- **No command writes over an image file**: whatever the catalogue says, no file
    the extract commands create bears the name of an image given with `--file`
    (after the repair: a DFS file named like the image, extracted into the image's
    own directory, used to truncate the image).  The model compares the names as
    given; the code asks the file system whether they are the same file. -/
theorem C12_extract_files_spares_images (env : Env) (args : List Bytes) :
    ∀ p ∈ created (cmdExtractFiles env args), p.1 ∉ env.images :=
  extract_files_spares_images env args

theorem C12_extract_unused_spares_images (env : Env) (args : List Bytes) :
    ∀ p ∈ created (cmdExtractUnused env args), p.1 ∉ env.images :=
  extract_unused_spares_images env args

/-- the images a run has attached: the arguments of its successful `--file` options -/
theorem C12_run_spares_images (fs : HostFs) (nd : Bool) (cols : Option Nat) (opts : List Opt) (rest : List Bytes)
    (st : MainState) (hst : optLoop fs nd opts default = .ok st) :
    (∀ name, Opt.opt .file name ∈ opts → name ∈ st.images) ∧
    ∀ p ∈ (dfsRun fs nd cols opts rest).files, p.1 ∉ st.images :=
  run_spares_images fs nd cols opts rest st hst

/-- **Images are only ever read**: the model of a whole run takes the host file
    system as a function and returns, besides stdout/status, only the list of
    *created* files — there is no operation by which it could change an existing
    file; every created path is inside the destination given on the command
    line, and (above) none is an image file. -/
theorem C12_run_confined (fs : HostFs) (nd : Bool) (cols : Option Nat) (opts : List Opt) (rest : List Bytes) :
    (dfsRun fs nd cols opts rest).files = [] ∨
    (∃ a0 a, rest = [a0, a] ∧ a ≠ [] ∧ (a0 = strBytes "extract-files" ∨ a0 = strBytes "extract-unused") ∧
      ∀ p ∈ (dfsRun fs nd cols opts rest).files, Inside (destDir a) p.1) :=
  run_confined fs nd cols opts rest

end Beeb.Props.C12
