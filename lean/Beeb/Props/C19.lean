/-
C19 — Behaviour does not depend on whether assertions are compiled in.
-/
import Beeb.Model.Main
import Beeb.Model.Basic
import Beeb.Generated.Asserts
import Beeb.Lemmas.MainL

namespace Beeb.Props.C19
open Beeb Beeb.Gen Beeb.MainL

/-- **No assert has a side effect** (regenerated on every run from /repo): the
    argument of every `assert(...)` in dfs/ and basic/ contains no assignment, no
    `++`/`--`, no `new`/`delete`, and calls only known side-effect-free accessors. -/
theorem C19_asserts_pure : ∀ a ∈ assertSites, a.pure = true := by decide +kernel

/-- **No code is compiled into one build only** (regenerated on every run): every preprocessor conditional that tests
    `NDEBUG` guards nothing but `assert(...)` statements and `#include` lines.  (The pinned tree has no such conditional at
    all; a check or a computation moved under `#ifndef NDEBUG` makes this fail.) -/
theorem C19_ndebug_regions_pure : ∀ r ∈ ndebugRegions, r.pure = true := by decide +kernel

/-- **dfs: the NDEBUG build behaves like the assertion build whenever the latter
    does not stop on a failed assertion** — same stdout, exit status, created files. -/
theorem C19_dfs (fs : HostFs) (cols : Option Nat) (opts : List Opt) (rest : List Bytes)
    (h : (dfsRun fs false cols opts rest).crash = none) :
    dfsRun fs true cols opts rest = dfsRun fs false cols opts rest :=
  ndebug_same fs cols opts rest h

/-- bbcbasic_to_text: after the repair of the default dialect, the model of `main`
    has no dependence on NDEBUG at all (it takes no such parameter); the remaining
    asserts in basic/ are covered by `C19_asserts_pure`. -/
theorem C19_basic_default_dialect (names : List (String × Nat)) (tbl : Array (Array (Array Tok)))
    (files : Bytes → Option Bytes) (stdin : Bytes) (name : Bytes) (h6502 : Beeb.Basic.dialectByName names (strBytes "6502") = some 0) :
    Beeb.Basic.basicMain tbl names files stdin [name] =
      Beeb.Basic.basicMain tbl names files stdin [strBytes "--dialect", strBytes "6502", name] ∨
    (name.length ≥ 1 ∧ name.getD 0 0 = 45) :=
  basic_default tbl names files stdin name h6502

end Beeb.Props.C19
