/-
C05 (second half) — "Consequently every command gives the same catalogue and
file contents on the flux image as on the .ssd/.sdd image of the same disc."

Commands see a drive only through three things: the block device it presents
(`Env.driveMedia`), its geometry and the file-system format recorded when it
was attached.  Two environments whose drive tables agree on those — however
differently the drives are *implemented* (a window into a sector-dump file, the
sector list decoded from an HFE or HxC MFM file) — give identical results for
every command.  Together with `C05_hfe_v1` / `C05_hfe_v3` / `C05_hxc` (a flux
side presents exactly the block device of the sector dump of that side, with
the recorded geometry) this is the consequence the property states.

What remains outside this theorem is the *geometry* a sector dump is given:
it is guessed by `identify_image` (heuristics, see the open C04 findings),
whereas a flux image records it.  The hypothesis `SameDrives` asks for equal
geometries; the end-to-end check compares real runs on both kinds of image.
-/
import Beeb.Model.Main
import Beeb.Lemmas.SameCmd

namespace Beeb.Props.C05b
open Beeb Beeb.SameCmdL

/-- two drive configurations present the same device to the commands -/
def SameDrive (e1 e2 : Env) (c1 c2 : DriveCfg) : Prop :=
  e1.driveMedia c1 = e2.driveMedia c2 ∧ c1.view.geom = c2.view.geom ∧ c1.fmt = c2.fmt

/-- the two environments have the same drive numbers attached, in the same
    order, each presenting the same device; everything else (including the names
    of the image files, which the extract commands refuse to write over) is equal -/
def SameDrives (e1 e2 : Env) : Prop :=
  e1.storage.drives.map (·.1) = e2.storage.drives.map (·.1) ∧
  (∀ n c1 c2, e1.storage.lookup n = some c1 → e2.storage.lookup n = some c2 → SameDrive e1 e2 c1 c2) ∧
  e1.ctx = e2.ctx ∧ e1.ndebug = e2.ndebug ∧ e1.screenCols = e2.screenCols ∧ e1.images = e2.images

/-- **Every command gives the same result** (standard output, success, files
    written, diagnostics flag, or the same failure) in two environments whose
    drives present the same block devices. -/
theorem C05_commands_same (e1 e2 : Env) (h : SameDrives e1 e2) (args : List Bytes) :
    runCommand e1 args = runCommand e2 args :=
  commands_same e1 e2 h args

/-- the `--show-config` listing is the same too -/
theorem C05_config_same (e1 e2 : Env) (h : SameDrives e1 e2) :
    showConfigLines e1.storage = showConfigLines e2.storage :=
  config_same e1 e2 h

/-- non-vacuity: a drive reading through an interleaved view of one file and a
    drive reading another file directly are the same drive when the blocks agree -/
example (m1 m2 : Media) (g : Geometry) (f : Option Format)
    (hm : (viewIL g 0).readBlock m1 = (Flux.sideView (singleSide g) (singleSide g).totalSectors).readBlock m2) :
    SameDrive { storage := Storage.empty, media := fun _ => m1, ctx := default, ndebug := true, screenCols := none }
              { storage := Storage.empty, media := fun _ => m2, ctx := default, ndebug := true, screenCols := none }
              { file := 0, view := viewIL g 0, fmt := f }
              { file := 0, view := Flux.sideView (singleSide g) (singleSide g).totalSectors, fmt := f } :=
  ⟨hm, rfl, rfl⟩

end Beeb.Props.C05b
