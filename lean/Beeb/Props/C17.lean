/-
C17 — No command returns bytes from outside the volume or surface being read.
-/
import Beeb.Props.C01
import Beeb.Props.C04

namespace Beeb.Props.C17
open Beeb Beeb.Gen Beeb.Spec Beeb.Leaf Beeb.BodyL Beeb.ViewL

theorem access_beyond_eq (len lba : Nat) : volume_access_beyond len lba = decide (len ≤ lba) := by
  unfold volume_access_beyond; simp

/-- **Volume bound.**  A read at or beyond the end of an Opus DDOS volume fails. -/
theorem C17_volume_bound (origin len : Nat) (under : Media) (lba : Nat) (h : len ≤ lba) :
    volumeAccess origin len under lba = none := by
  unfold volumeAccess
  rw [access_beyond_eq]; simp [h]

/-- every sector a volume delivers is a sector of that volume's own extent -/
theorem C17_volume_confined (origin len : Nat) (under : Media) (lba : Nat) (x : Sector)
    (h : volumeAccess origin len under lba = some x) :
    lba < len ∧ under (origin + lba) = some x := by
  unfold volumeAccess at h
  rw [access_beyond_eq] at h
  by_cases hl : len ≤ lba
  · simp [hl] at h
  · simp [hl] at h; exact ⟨by omega, h⟩

/-- **Non-interference (volume).**  Whatever lies outside `[origin, origin+len)` —
    the next Opus volume, the catalogue track — cannot influence any read
    through the volume, hence no command output. -/
theorem C17_volume_noninterference (origin len : Nat) (m m' : Media)
    (h : ∀ i, i < len → m (origin + i) = m' (origin + i)) :
    volumeAccess origin len m = volumeAccess origin len m' := by
  funext lba
  unfold volumeAccess
  rw [access_beyond_eq]
  by_cases hl : len ≤ lba
  · simp [hl]
  · simp [hl]; exact h lba (by omega)

/-- **An entry reaching beyond the end of its volume is an error**: the body read
    fails (BadFileSystem is reported, exit status 1), for every entry and volume. -/
theorem C17_overlong_entry_fails (e : Entry) (origin vlen : Nat) (m : Media)
    (he : ∀ i, e.m i < 256) (hlen : 0 < e.fileLength)
    (hover : vlen < e.startSector + Spec.sectorsFor e.fileLength) :
    readBody e (volumeAccess origin vlen m) = none := by
  -- locate an unreadable sector inside the file's extent
  have hidx : ∃ i, i < Spec.sectorsFor e.fileLength ∧ vlen ≤ e.startSector + i := by
    by_cases h : vlen ≤ e.startSector
    · exact ⟨0, by unfold Spec.sectorsFor; omega, by omega⟩
    · exact ⟨vlen - e.startSector, by omega, by omega⟩
  obtain ⟨i, hi, hge⟩ := hidx
  have hnone : volumeAccess origin vlen m (e.startSector + i) = none :=
    C17_volume_bound origin vlen m _ hge
  have hcat := sectorsConcat_none (volumeAccess origin vlen m) _ e.startSector i hi hnone
  -- the loop reads exactly those sectors
  unfold readBody bodyPieces
  have hne0 : (e.fileLength == 0) = false := by simp; omega
  rw [hne0]
  simp only [Bool.false_eq_true, if_false]
  have hl := last_sector_eq e.m he
  have hne : ¬ file_length e.m = 0 := by unfold Entry.fileLength at hlen; omega
  rw [if_neg hne] at hl
  have hk : e.lastSector + 1 - e.startSector = Spec.sectorsFor e.fileLength := by
    unfold Entry.lastSector Entry.startSector Entry.fileLength
    rw [hl, Beeb.Props.C01.sectorsFor_eq]
    have : 0 < Spec.sectorsFor (file_length e.m) := by unfold Spec.sectorsFor; omega
    omega
  rw [hk]
  -- without the sector-length hypothesis: argue directly on the loop
  have key : ∀ (k sec len : Nat) (acc : List Bytes),
      sectorsConcat (volumeAccess origin vlen m) sec k = none →
      bodyLoop (volumeAccess origin vlen m) k sec len acc = none := by
    intro k
    induction k with
    | zero => intro sec len acc h; simp [sectorsConcat] at h
    | succ k ih =>
      intro sec len acc h
      unfold bodyLoop
      unfold sectorsConcat at h
      cases hs : volumeAccess origin vlen m sec with
      | none => rfl
      | some buf =>
        rw [hs] at h
        simp only
        apply ih
        cases hc : sectorsConcat (volumeAccess origin vlen m) (sec + 1) k with
        | none => rfl
        | some r => rw [hc] at h; simp at h
  rw [key _ _ _ _ hcat]
  rfl

/-- **Surface bound and confinement (every container view).** -/
theorem C17_surface_confined (v : View) (file : Media) (lba : Nat) (x : Sector)
    (hs : v.skip < 2 ^ 40) (htl : v.take + v.leave < 2 ^ 31) (hx : lba < 2 ^ 32)
    (h : v.readBlock file lba = some x) :
    lba < v.total ∧ file (v.skip + lba / v.take * (v.take + v.leave) + lba % v.take) = some x := by
  rw [readBlock_eq v file lba hs htl hx] at h
  by_cases h0 : v.take = 0
  · simp [h0] at h
  · by_cases h1 : v.total ≤ lba
    · simp [h0, h1] at h
    · simp [h0, h1] at h; exact ⟨by omega, h⟩

/-- **Neighbouring MMB slots never share a file sector.** -/
theorem C17_mmb_slots_disjoint (a b t s t' s' : Nat) (hab : a ≠ b)
    (ht : t < 80) (hs : s < 10) (ht' : t' < 80) (hs' : s' < 10) :
    offsetMmb a t s ≠ offsetMmb b t' s' := by
  unfold offsetMmb
  omega

/-- **The two sides of a track-interleaved image never share a file sector.** -/
theorem C17_interleaved_sides_disjoint (spt t s t' s' : Nat) (hs : s < spt) (hs' : s' < spt) :
    offsetInterleaved spt 0 t s ≠ offsetInterleaved spt 1 t' s' := by
  unfold offsetInterleaved
  intro h
  have h1 : ((2 * t + 0) * spt + s) / spt = 2 * t := by
    rw [Nat.mul_comm, Nat.mul_add_div (by omega), Nat.div_eq_of_lt hs]; omega
  have h2 : ((2 * t' + 1) * spt + s') / spt = 2 * t' + 1 := by
    rw [Nat.mul_comm, Nat.mul_add_div (by omega), Nat.div_eq_of_lt hs']
  rw [h] at h1
  omega

/-- **The two sides of a non-interleaved image never share a file sector.** -/
theorem C17_noninterleaved_sides_disjoint (cyls spt t s t' s' : Nat)
    (ht : t < cyls) (hs : s < spt) :
    offsetNonInterleaved cyls spt 0 t s ≠ offsetNonInterleaved cyls spt 1 t' s' := by
  unfold offsetNonInterleaved
  have : t * spt + spt ≤ cyls * spt := by
    rw [← Nat.succ_mul]; exact Nat.mul_le_mul_right _ ht
  omega

/-- non-vacuity: a file at the last sector of a 306-sector volume whose length
    needs two sectors reaches beyond it -/
example : (306 : Nat) < 305 + Spec.sectorsFor 257 := by decide

end Beeb.Props.C17
