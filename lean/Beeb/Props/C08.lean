/-
C08 — bbcbasic_to_text fails cleanly on arbitrary input files and options.
Statements about the model `basicMain` for ALL byte strings, file systems,
standard inputs and argument vectors.  (Memory safety of the C outside the
modelled control flow is exercised by the sanitizer builds, not proved.)
-/
import Beeb.Model.Basic
import Beeb.Lemmas.BasicFail

namespace Beeb.Props.C08
open Beeb Beeb.Basic Beeb.BasicFailL

/-- **The model has no crash state**: after the repairs (default dialect outside
    assert, --dump-token-maps takes an argument) no path of the modelled control
    flow reaches undefined behaviour or an abort. -/
theorem C08_no_crash (tbl : Array (Array (Array Tok))) (names : List (String × Nat))
    (files : Bytes → Option Bytes) (stdin : Bytes) (argv : List Bytes) :
    (basicMain tbl names files stdin argv).crash = none :=
  main_no_crash tbl names files stdin argv

/-- **Exit status 0 or 1.** -/
theorem C08_exit (tbl : Array (Array (Array Tok))) (names : List (String × Nat))
    (files : Bytes → Option Bytes) (stdin : Bytes) (argv : List Bytes) :
    (basicMain tbl names files stdin argv).exit = 0 ∨ (basicMain tbl names files stdin argv).exit = 1 :=
  main_exit tbl names files stdin argv

/-- **A non-zero status is always accompanied by a diagnostic.** -/
theorem C08_diag (tbl : Array (Array (Array Tok))) (names : List (String × Nat))
    (files : Bytes → Option Bytes) (stdin : Bytes) (argv : List Bytes)
    (h : (basicMain tbl names files stdin argv).exit ≠ 0) :
    (basicMain tbl names files stdin argv).err = true :=
  main_diag tbl names files stdin argv h

/-- every failed file decode is reported (both line formats, every byte string) -/
theorem C08_decode_diag (tbl : Array (Array (Array Tok))) (d listo : Nat) (content : Bytes)
    (h : (decodeFile tbl d listo content).ok = false) : (decodeFile tbl d listo content).err = true :=
  decode_diag tbl d listo content h

end Beeb.Props.C08
