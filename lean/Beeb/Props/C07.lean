/-
C07 — dfs fails cleanly on arbitrary image files and command lines.

`dfsMain fs nd cols argv` is the model of `main`: `fs` maps every path to what
the host file system holds there (any bytes, or nothing, or a `.gz` zlib
rejects), `nd` says whether assertions are compiled out, `argv` is any argument
vector.  Every loader (sector dumps, MMB, HFE v1/v3, HxC MFM, each optionally
gzip-compressed), the format probes, the three catalogue formats and every
command are part of the model.  The model has a `crash` outcome for every site
where the C++ could abort or run into undefined behaviour (assertions over
file-derived data, `buf1[pos+7]`); the theorems say those sites are unreachable,
that the exit status is 0 or 1 and that a non-zero status comes with a
diagnostic.  All model functions are total (Lean checks termination), with
recursion bounded by the size of the input — the "no unbounded loop" part.
Memory safety of the C++ itself, the allocator, zlib and promptness in seconds
are exercised by the sanitizer runs of the correspondence check, not proved.
-/
import Beeb.Model.Main
import Beeb.Lemmas.Hostile

namespace Beeb.Props.C07
open Beeb Beeb.HostileL

/-- **No crash site is reachable**: whatever the files contain and whatever the
    command line is, in the build with assertions and in the NDEBUG build.
    `HostFs.IsBytes fs` says that files consist of bytes (the model's sectors are
    lists of unbounded naturals; a "byte" ≥ 256 in sector 1 would reach the
    `buf1[pos+7]` site, which no real file can). -/
theorem C07_no_crash (fs : HostFs) (nd : Bool) (cols : Option Nat) (argv : List Bytes)
    (hfs : HostFs.IsBytes fs) :
    (dfsMain fs nd cols argv).crash = none :=
  dfsMain_no_crash fs nd cols argv hfs

/-- **The exit status is 0 or 1.** (The model does not produce status 2; getopt
    usage errors exit with 1 in main.cc.) -/
theorem C07_exit_status (fs : HostFs) (nd : Bool) (cols : Option Nat) (argv : List Bytes)
    (hfs : HostFs.IsBytes fs) :
    (dfsMain fs nd cols argv).exit = 0 ∨ (dfsMain fs nd cols argv).exit = 1 :=
  dfsMain_exit fs nd cols argv hfs

/-- without the byte hypothesis: the only other outcome is a recorded crash -/
theorem C07_exit_status' (fs : HostFs) (nd : Bool) (cols : Option Nat) (argv : List Bytes) :
    (dfsMain fs nd cols argv).exit = 0 ∨ (dfsMain fs nd cols argv).exit = 1 ∨
    ((dfsMain fs nd cols argv).exit = 134 ∧ (dfsMain fs nd cols argv).crash ≠ none) :=
  dfsMain_exit' fs nd cols argv

/-- **A non-zero status is always accompanied by a diagnostic on standard error.** -/
theorem C07_diagnostic (fs : HostFs) (nd : Bool) (cols : Option Nat) (argv : List Bytes)
    (h : (dfsMain fs nd cols argv).exit ≠ 0) :
    (dfsMain fs nd cols argv).err = true :=
  dfsMain_diagnostic fs nd cols argv h

/-- **Assertions never change the outcome**: since no assertion can fail, the two
    builds agree on everything observable. -/
theorem C07_builds_agree (fs : HostFs) (cols : Option Nat) (argv : List Bytes) :
    dfsMain fs true cols argv = dfsMain fs false cols argv :=
  dfsMain_nd fs cols argv

/-- the image-level decoders work on bounded fuel derived from the input size:
    a flux track of `n` cells is decoded in at most `2 n + 4` iterations -/
theorem C07_fm_decode_bounded (s : Flux.BitStream) :
    (Flux.decodeFm s).1.length ≤ 2 * s.bits.size + 4 :=
  decodeFm_length s

theorem C07_mfm_decode_bounded (s : Flux.BitStream) :
    (Flux.decodeMfm s).length ≤ s.bits.size + 2 :=
  decodeMfm_length s

/-- the hypothesis is satisfiable -/
example : HostFs.IsBytes (fun _ => .missing) := isBytes_example

/-- non-vacuity: a run that fails (no image at the given path) -/
example : (dfsMain (fun _ => .missing) false none [strBytes "--file", strBytes "x.ssd", strBytes "cat"]).exit = 1 ∧
          (dfsMain (fun _ => .missing) false none [strBytes "--file", strBytes "x.ssd", strBytes "cat"]).err = true :=
  missing_example

end Beeb.Props.C07
