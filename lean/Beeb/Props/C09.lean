/-
C09 — bbcbasic_to_text rejects truncated or ill-formed programs and never invents text.
-/
import Beeb.Model.Basic
import Beeb.Spec.BasicProg
import Beeb.Lemmas.BasicL
import Beeb.Lemmas.BasicFail

namespace Beeb.Props.C09
open Beeb Beeb.Gen Beeb.Spec Beeb.Basic Beeb.BasicL Beeb.BasicFailL

/-- the keyword tables of dialect `d` as the model uses them -/
def tablesOf (d : Nat) : Tables :=
  let m := xmapOf tokTable d
  { base := m.base, c6 := m.c6, c7 := m.c7, c8 := m.c8 }

/-- **Truncation, big-endian dialects.**  Every proper non-empty prefix of the
    encoding of a well-formed program is rejected with a diagnostic, and what was
    printed before failing is a prefix of the intact listing. -/
theorem C09_truncation_BE (d listo : Nat) (p : Program) (b : Bytes)
    (hd : d = 0 ∨ d = 2 ∨ d = 4 ∨ d = 5) (hp : ProgramWF (tablesOf d) (d == 5) 65280 p)
    (hpre : b <+: encodeBE p) (hne : b ≠ []) (hlt : b.length < (encodeBE p).length) :
    (decodeFile tokTable d listo b).ok = false ∧ (decodeFile tokTable d listo b).err = true ∧
    (decodeFile tokTable d listo b).out <+: render (tablesOf d) listo p :=
  truncation_BE d listo p b hd hp hpre hne hlt

/-- **Truncation, little-endian dialects.** -/
theorem C09_truncation_LE (d listo : Nat) (p : Program) (b : Bytes)
    (hd : d = 1 ∨ d = 3) (hp : ProgramWF (tablesOf d) false 65536 p)
    (hpre : b <+: encodeLE p) (hne : b ≠ []) (hlt : b.length < (encodeLE p).length) :
    (decodeFile tokTable d listo b).ok = false ∧ (decodeFile tokTable d listo b).err = true ∧
    (decodeFile tokTable d listo b).out <+: render (tablesOf d) listo p :=
  truncation_LE d listo p b hd hp hpre hne hlt

/-- **Independence of input files.**  With several input files the output is the
    concatenation of each file's own listing and the status is the worst of the
    individual ones — whatever the files contain, in whatever order. -/
theorem C09_independent (tbl : Array (Array (Array Tok))) (names : List (String × Nat))
    (files : Bytes → Option Bytes) (stdin : Bytes) (d l : Nat) (inputs : List Bytes)
    (hnostdin : ∀ n ∈ inputs, n ≠ [45]) (hopen : ∀ n ∈ inputs, (files n).isSome) :
    let r := basicMain.fileLoop tbl files stdin d l inputs false [] false 0
    r.out = (inputs.map (fun n => (decodeFile tbl d l ((files n).getD [])).out)).flatten ∧
    r.exit = (if inputs.all (fun n => (decodeFile tbl d l ((files n).getD [])).ok) then 0 else 1) :=
  files_independent tbl files stdin d l inputs hnostdin hopen

/-- **Bad start byte (big-endian).** -/
theorem C09_bad_start (m : XMap) (listo c : Nat) (rest : Bytes) (hc : c ≠ 0x0D) :
    (decodeBE m listo ((c :: rest).length + 2) (c :: rest) true false 0 []).ok = false ∧
    (decodeBE m listo ((c :: rest).length + 2) (c :: rest) true false 0 []).out = [] :=
  bad_start m listo c rest hc

/-- **Impossible length (big-endian): a length byte below 4.** -/
theorem C09_short_length_BE (m : XMap) (listo hi lo len : Nat) (rest : Bytes) (hh : hi ≠ 0xFF) (hl : len < 4) :
    (decodeBE m listo (rest.length + 6) (0x0D :: hi :: lo :: len :: rest) true false 0 []).ok = false :=
  short_length_BE m listo hi lo len rest hh hl

/-- **Impossible length (little-endian): 1 or 2.** -/
theorem C09_short_length_LE (m : XMap) (listo len : Nat) (rest : Bytes) (h0 : len ≠ 0) (hl : len < 3) :
    (decodeLE m listo (rest.length + 3) (len :: rest) true 0 []).ok = false :=
  short_length_LE m listo len rest h0 hl

/-- **Missing terminator (little-endian).** -/
theorem C09_missing_terminator (m : XMap) (listo len lo hi : Nat) (rest : Bytes)
    (hlen : 4 ≤ len) (hfit : len - 3 ≤ rest.length) (hterm : rest.getD (len - 4) 0 ≠ 0x0D) :
    (decodeLE m listo (rest.length + 5) (len :: lo :: hi :: rest) true 0 []).ok = false :=
  missing_terminator m listo len lo hi rest hlen hfit hterm

/-- **Unassigned token / crunched variable / cut line reference / cut or unassigned
    extension code**: `handle_token` fails, so the line and the file are rejected. -/
theorem C09_token_errors (m : XMap) (uch : Nat) (rest : Bytes) :
    (look m.base uch = .invalid → handleToken m uch rest = none) ∧
    (look m.base uch = .fastvar → handleToken m uch rest = none) ∧
    (look m.base uch = .lineNum → rest.length < 3 → handleToken m uch rest = none) ∧
    (look m.base uch = .ext → rest = [] → handleToken m uch rest = none) ∧
    (look m.base uch = .pdp → rest = [] → handleToken m uch rest = none) ∧
    (look m.base uch = .ext → ∀ x r, rest = x :: r →
        (look (if uch == 0xC6 then m.c6 else if uch == 0xC7 then m.c7 else m.c8) x = .invalid) → handleToken m uch rest = none) :=
  token_errors m uch rest

/-- a failing token makes the whole line fail and nothing after it is printed -/
theorem C09_line_fails (m : XMap) (uch : Nat) (rest acc : Bytes) (fuel : Nat)
    (h0 : uch ≠ 0) (h : handleToken m uch rest = none) :
    lineLoop m (fuel + 1) (uch :: rest) false acc = (false, acc) :=
  line_fails m uch rest acc fuel h0 h

end Beeb.Props.C09
