/-
C13 — File-system variant and geometry are identified from the on-disc markers only.
-/
import Beeb.Model.Disc
import Beeb.Lemmas.Identify
import Beeb.Lemmas.Bits

namespace Beeb.Props.C13
open Beeb Beeb.Gen Beeb.IdentifyL

/-- "some file of the first catalogue starts at sector 2", by the documented
    10-bit start sector (low byte at offset 7, bits 8–9 in bits 0–1 of offset 6) -/
def specFileAt2 (s1 : Sector) : Bool :=
  (List.range (sget s1 5 / 8)).any (fun k => sget s1 (8 * (k + 1) + 7) + 256 * (sget s1 (8 * (k + 1) + 6) % 4) == 2)

/-- the Watford recognition bytes -/
def hasWatfordMarker (m : Media) : Bool :=
  match m 2 with
  | some s2 => (s2.take 8).all (· == 0xAA) && decide (s2.length ≥ 8)
  | none => false

/-- **Watford guard** (regenerated leaves): the loop finds a file at sector 2 exactly
    when the documented 10-bit start sector of some first-catalogue entry is 2. -/
theorem C13_watford_guard (s1 : Sector) (hl : s1.length = 256) (hb : ∀ b ∈ s1, b < 256) :
    watfordFileAt2 s1 = some (specFileAt2 s1) :=
  watfordFileAt2_eq s1 hl hb

/-- **Watford ⇔ AA×8 in sector 2 ∧ no catalogued file starts there.** -/
theorem C13_watford_iff (m : Media) (s1 : Sector) (hl : s1.length = 256) (hb : ∀ b ∈ s1, b < 256) :
    smellsLikeWatford m s1 = .ok (!specFileAt2 s1 && hasWatfordMarker m) :=
  smellsLikeWatford_eq m s1 hl hb

/-- **A file that starts in sector 2 with the recognition bytes does not turn an
    Acorn disc into a Watford one**: whatever sector 2 contains. -/
theorem C13_file_at_2 (m : Media) (s1 : Sector) (hl : s1.length = 256) (hb : ∀ b ∈ s1, b < 256)
    (h : specFileAt2 s1 = true) : smellsLikeWatford m s1 = .ok false := by
  rw [C13_watford_iff m s1 hl hb, h]; rfl

/-- **HDFS by its flag bit.** -/
theorem C13_hdfs (m : Media) (s1 : Sector) (nd : Bool) (h1 : m 1 = some s1) (hf : (sget s1 6 &&& 8) != 0) :
    ∃ n, probeFormat m nd = .ok (some (Format.HDFS, n)) :=
  probeFormat_hdfs m s1 nd h1 hf

/-- **Identification reads markers only.**  Two media that agree on sectors 0–16
    and on which sectors are readable at all are identified identically: file bodies
    beyond the catalogue/disc-catalogue track cannot change the variant. -/
theorem C13_probe_locality (m m' : Media) (nd : Bool)
    (h17 : ∀ s, s < 17 → m s = m' s) (hr : ∀ s, (m s).isSome = (m' s).isSome) :
    probeFormat m nd = probeFormat m' nd :=
  probeFormat_local m m' nd h17 hr

/-- **Without the Opus marker (18 at byte 3 of sector 16) only sectors 0, 1, 2
    matter**: bodies covering sectors 3–16 cannot change the variant either. -/
theorem C13_probe_locality_no_opus (m m' : Media) (nd : Bool)
    (h012 : ∀ s, s < 3 → m s = m' s) (hr : ∀ s, (m s).isSome = (m' s).isSome)
    (hno : ∀ s16, m 16 = some s16 → sget s16 3 ≠ 18) (hno' : ∀ s16, m' 16 = some s16 → sget s16 3 ≠ 18) :
    probeFormat m nd = probeFormat m' nd :=
  probeFormat_local_no_opus m m' nd h012 hr hno hno'

/-- **The geometry chosen is a candidate and is large enough for the catalogue's sector count.** -/
theorem C13_geometry_large_enough (m : Media) (fmt : Format) (total : Nat) (cands : List ImgFmt) (ff : ImgFmt)
    (h : probeGeometry m fmt total cands = some ff) :
    ff ∈ cands ∧
    total ≤ (if singleSidedFilesystem fmt m then ff.geom.cylinders * ff.geom.sectors else ff.geom.totalSectors) :=
  probeGeometry_sound m fmt total cands ff h

/-- **Extension hints**: `.ssd` is FM non-interleaved, `.sdd` MFM non-interleaved,
    `.dsd` FM interleaved two-sided, `.ddd` MFM interleaved two-sided. -/
theorem C13_hints :
    (candidateList "a.ssd").all (fun f => f.geom.encoding == some Encoding.FM && !f.interleaved) ∧
    (candidateList "a.sdd").all (fun f => f.geom.encoding == some Encoding.MFM && !f.interleaved) ∧
    (candidateList "a.dsd").all (fun f => f.geom.encoding == some Encoding.FM && f.interleaved && f.geom.heads == 2) ∧
    (candidateList "a.ddd").all (fun f => f.geom.encoding == some Encoding.MFM && f.interleaved && f.geom.heads == 2) :=
  hints_ok

/-- **The catalogue's sector count** used to choose the geometry is the documented
    11-bit value (bits 8–10 in bits 0–2 of sector 1 byte 6: Watford large discs use bit 10). -/
theorem C13_sector_count (s1 : Sector) (hb : ∀ b ∈ s1, b < 256) :
    get_dfs_sector_count (arr s1) = sget s1 7 + 256 * (sget s1 6 % 8) := by
  unfold get_dfs_sector_count arr sget
  have h7 : s1.getD 7 0 < 256 := arr_lt s1 hb 7
  have h6 : s1.getD 6 0 < 256 := arr_lt s1 hb 6
  have hm : s1.getD 6 0 &&& 7 = s1.getD 6 0 % 8 := Beeb.Bits.and_mask (s1.getD 6 0) 3
  rw [hm, Beeb.Bits.shl_eq]
  have h8 : s1.getD 6 0 % 8 < 8 := Nat.mod_lt _ (by omega)
  rw [Nat.mod_eq_of_lt (by omega), Beeb.Bits.or_mul_pow 8 _ _ (by omega)]
  omega

/-- **Geometry probing is total**: it fails only when no candidate is large enough
    for the catalogue's sector count.  (The "other side has a catalogue too" test is
    a tie-breaker among the large-enough candidates; it never eliminates them all.) -/
theorem C13_geometry_found (m : Media) (fmt : Format) (total : Nat) (cands : List ImgFmt)
    (h : ∃ ff ∈ cands, (if singleSidedFilesystem fmt m then ff.geom.cylinders * ff.geom.sectors
      else ff.geom.totalSectors) ≥ total) :
    (probeGeometry m fmt total cands).isSome :=
  probeGeometry_total m fmt total cands h

/-- **The HDFS flag, as the source tests it.**  `smells_like_hdfs` is regenerated from the current
    identify.cc (Beeb/Generated/Leaf.lean); it is the model's test and it is bit 3 of sector 1 byte 6. -/
theorem C13_hdfs_flag_leaf (s1 : Sector) :
    smells_like_hdfs (arr s1) = smellsLikeHdfs s1 ∧
    smellsLikeHdfs s1 = decide (sget s1 6 / 8 % 2 = 1) := by
  refine ⟨rfl, ?_⟩
  unfold smellsLikeHdfs
  rw [show (8 : Nat) = 2 ^ 3 from rfl, Beeb.Bits.and_pow_ne_zero, Beeb.Bits.testBit_eq]

end Beeb.Props.C13
