/-
C16 — Every attached image gets its own drive number and commands read the right one.
Statements over ALL sequences of attach operations (any number of images, any
number of surfaces per image incl. 511-slot MMB files, policy switched anywhere).
-/
import Beeb.Model.Storage
import Beeb.Lemmas.Storage

namespace Beeb.Props.C16
open Beeb Beeb.Gen Beeb.StorageL

/-- one `--file` option: the drive configurations of the image's surfaces and the
    policy in force when it is processed -/
structure AttachOp where
  surfaces : List DriveCfg
  policy : Policy

/-- the storage configuration after a sequence of `--file` options (main.cc stops
    at the first failure; `none` = a connect failed) -/
def runOps : List AttachOp → Storage → Option Storage
  | [], s => some s
  | op :: rest, s =>
    match s.connect op.surfaces op.policy with
    | none => none
    | some s' => runOps rest s'

def numbers (s : Storage) : List Nat := s.drives.map (·.1)

/-- **Attaching never fails** (the search for a fitting slot always succeeds with
    the fuel the model gives it), for every state whose highest drive number stays
    clear of the `unsigned` limit.

    CHANGED from the unconditional statement, which is false in this model: drive
    numbers are unbounded `Nat` but `opposite_surface` wraps modulo 2^32, so for the
    physical policy a candidate `n ≥ 2^32 - 2` has its "opposite" among the low
    numbers.  E.g. with 0 … 2^32-1 all occupied and a 1-surface image, every
    candidate 0 … maxDrive+5 is occupied or has an occupied (wrapped) opposite and
    `findFit` returns `none`; the 10-drive state {0..7, 2^32, 2^32+1} (which satisfies
    `Inv`) with a (2^31+1)-surface image fails the same way.  The bound is needed only for the
    physical policy and only so that the first multiple of 4 above `maxDrive` has an
    unwrapped opposite. -/
theorem C16_connect_succeeds (s : Storage) (ds : List DriveCfg) (p : Policy)
    (hb : p = .physical → s.maxDrive + 6 < 4294967296) :
    (s.connect ds p).isSome := connect_isSome s ds p hb

/-- **Distinct numbers.**  After any sequence of attaches from the empty
    configuration, no drive number is bound twice. -/
theorem C16_distinct (ops : List AttachOp) (s : Storage) (h : runOps ops Storage.empty = some s) :
    (numbers s).Nodup := by
  have : ∀ (ops : List AttachOp) (s0 s : Storage), Inv s0 → runOps ops s0 = some s → Inv s := by
    intro ops
    induction ops with
    | nil => intro s0 s h0 h; simp [runOps] at h; subst h; exact h0
    | cons op rest ih =>
      intro s0 s h0 h
      unfold runOps at h
      cases hc : s0.connect op.surfaces op.policy with
      | none => rw [hc] at h; simp at h
      | some s1 =>
        rw [hc] at h
        exact ih s1 s (connect_inv s0 s1 op.surfaces op.policy h0 hc) h
  exact (this ops Storage.empty s inv_empty h).1

/-- **Monotone.**  Attaching a later image never moves or hides an earlier one:
    the earlier bindings are a prefix of the new list and every earlier lookup is
    unchanged. -/
theorem C16_monotone (s s' : Storage) (ds : List DriveCfg) (p : Policy) (hi : Inv s)
    (h : s.connect ds p = some s') :
    (∃ added, s'.drives = s.drives ++ added) ∧ ∀ n, s.occupied n = true → s'.lookup n = s.lookup n :=
  connect_monotone s s' ds p hi h

/-- **Physical policy: a k-surface image occupies n, n+2, …, n+2(k-1)**, and `n` is
    the lowest number at which the sequence fits. -/
theorem C16_physical_sides (s s' : Storage) (ds : List DriveCfg) (h : s.connect ds .physical = some s') :
    ∃ n, s'.drives = s.drives ++ (ds.zipIdx.map (fun (d, j) => (n + 2 * j, d))) ∧
      checkSequenceFits s.occupied n ds.length = true ∧
      ∀ m, m < n → checkSequenceFits s.occupied m ds.length = false :=
  connect_physical_shape s s' ds h

/-- **Physical policy: never opposite another image.**  No surface of the new image
    lands on the opposite side of a drive number that some other (earlier) image
    occupies — in every reachable state in which all numbers involved stay below
    the `unsigned` limit.

    CHANGED: hypothesis `hb` added.  Without it the statement is false in this model
    (unbounded `Nat` drive numbers, but `opposite_surface` wraps modulo 2^32): from
    the reachable state 0 … 7 (first policy), a 2^31-surface image is placed at
    8, 10, …, and its surface 2^32 has wrapped opposite 2, which is occupied. -/
theorem C16_physical_no_opposite (ops : List AttachOp) (s s' : Storage) (ds : List DriveCfg)
    (hs : runOps ops Storage.empty = some s)
    (hb : s.maxDrive + 2 * ds.length + 8 < 4294967296)
    (h : s.connect ds .physical = some s') :
    ∀ d, s'.occupied d = true → s.occupied d = false → s.occupied (opposite_surface d) = false := by
  have hinv : Inv s := by
    have : ∀ (ops : List AttachOp) (s0 s : Storage), Inv s0 → runOps ops s0 = some s → Inv s := by
      intro ops
      induction ops with
      | nil => intro s0 s h0 h; simp [runOps] at h; subst h; exact h0
      | cons op rest ih =>
        intro s0 s h0 h
        unfold runOps at h
        cases hc : s0.connect op.surfaces op.policy with
        | none => rw [hc] at h; simp at h
        | some s1 =>
          rw [hc] at h
          exact ih s1 s (connect_inv s0 s1 op.surfaces op.policy h0 hc) h
    exact this ops Storage.empty s inv_empty hs
  exact physical_no_opposite s s' ds hinv hb h

/-- **First policy: surfaces take the lowest free numbers in order.** -/
theorem C16_first_lowest (s s' : Storage) (ds : List DriveCfg) (hi : Inv s) (h : s.connect ds .first = some s') :
    ∃ ns : List Nat, ns.length = ds.length ∧ s'.drives = s.drives ++ ns.zip ds ∧
      ns.Pairwise (· < ·) ∧
      (∀ n ∈ ns, s.occupied n = false) ∧
      (∀ n ∈ ns, ∀ m, m < n → s.occupied m = true ∨ m ∈ ns) :=
  connect_first_shape s s' ds hi h

/-- **A command addressed to drive k reads what was attached to k.** -/
theorem C16_lookup_attached (s s' : Storage) (ds : List DriveCfg) (p : Policy) (hi : Inv s)
    (h : s.connect ds p = some s') :
    ∀ n d, (n, d) ∈ s'.drives → s'.lookup n = some d :=
  connect_lookup s s' ds p hi h

end Beeb.Props.C16
