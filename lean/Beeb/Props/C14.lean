/-
C14 — free, space, sector-map, extract-unused agree with the catalogue and each other.
-/
import Beeb.Model.Cmd
import Beeb.Spec.Layout
import Beeb.Spec.Body
import Beeb.Lemmas.Leaf
import Beeb.Lemmas.Space

namespace Beeb.Props.C14
open Beeb Beeb.Gen Beeb.Spec Beeb.SpaceL

/-- the extent the catalogue gives an entry: ⌈len/256⌉ sectors from its start sector -/
def extentOf (e : Entry) : Extent := { start := e.startSector, size := Spec.sectorsFor e.fileLength }

/-- **free: used sectors** are one past the highest sector any (non-empty) file
    occupies, or the catalogue's own sectors — for every catalogue. -/
theorem C14_free_used (c : Catalog) :
    sectorsUsed c = usedSectors (dataSectorsReservedForCatalog c.fmt) (c.entries.map extentOf) :=
  sectorsUsed_eq c

/-- **free: the two lines add up**: used + free files = 31/62 and used + free
    sectors = the catalogue's total, whenever the counts fit. -/
theorem C14_free_sums (c : Catalog) (hn : c.entries.length ≤ c.maxFileCount) (hu : sectorsUsed c ≤ c.totalSectors) :
    ((c.maxFileCount : Int) - c.entries.length) + c.entries.length = c.maxFileCount ∧
    ((c.totalSectors : Int) - sectorsUsed c) + sectorsUsed c = c.totalSectors := by
  constructor <;> omega

/-- **space, one catalogue (Acorn DFS, each Opus DDOS volume).**  If the non-empty
    entries, read from the last catalogue slot to the first, form a well-formed
    layout, `space` lists exactly the non-empty runs of unallocated sectors in
    ascending disc order, and their total is total − catalogue − file sectors. -/
theorem C14_space_single (es : List Entry) (total cat : Nat)
    (hb : ∀ e ∈ es, ∀ i, e.m i < 256)
    (hwf : LayoutWF cat total ((es.filter (fun e => e.fileLength != 0)).reverse.map extentOf)) :
    spaceGaps [es] total cat =
      .ok ((runsFrom cat total ((es.filter (fun e => e.fileLength != 0)).reverse.map extentOf)).filter (· != 0)) ∧
    ((runsFrom cat total ((es.filter (fun e => e.fileLength != 0)).reverse.map extentOf)).foldl (· + ·) 0)
      + cat + ownedSectors ((es.filter (fun e => e.fileLength != 0)).reverse.map extentOf) = total :=
  space_single es total cat hb hwf

/-- **space, Watford DFS (two catalogues).**  `es0` is the catalogue of sectors 0–1
    (files lower on the disc), `es1` that of sectors 2–3.  The gaps listed are a
    permutation of the non-empty unallocated runs and the total is right. -/
theorem C14_space_watford (es0 es1 : List Entry) (total cat : Nat)
    (hb : ∀ e ∈ es0 ++ es1, ∀ i, e.m i < 256)
    (hwf : LayoutWF cat total (((es0.filter (fun e => e.fileLength != 0)).reverse ++
              (es1.filter (fun e => e.fileLength != 0)).reverse).map extentOf)) :
    ∃ gaps, spaceGaps [es0, es1] total cat = .ok gaps ∧
      gaps.Perm ((runsFrom cat total (((es0.filter (fun e => e.fileLength != 0)).reverse ++
              (es1.filter (fun e => e.fileLength != 0)).reverse).map extentOf)).filter (· != 0)) ∧
      gaps.foldl (· + ·) 0 + cat + ownedSectors (((es0.filter (fun e => e.fileLength != 0)).reverse ++
              (es1.filter (fun e => e.fileLength != 0)).reverse).map extentOf) = total :=
  space_watford es0 es1 total cat hb hwf

/-- **sector-map / extract-unused: ownership.**  In the map built for a single
    volume at origin 0, a sector is labelled iff it is a catalogue sector or lies in
    the extent of a non-empty file. -/
theorem C14_map_owned (v : Volume) (surface : Nat) (s : Nat)
    (hb : ∀ e ∈ v.cat.entries, ∀ i, e.m i < 256) (ho : v.origin = 0) (hc : v.catLoc = 0) :
    ((volumeMapSectors surface false none v []).at s).isSome =
      (decide (s < v.cat.catalogSectors) ||
       v.cat.entries.any (fun e => e.fileLength != 0 && decide (e.startSector ≤ s) && decide (s < e.startSector + Spec.sectorsFor e.fileLength))) :=
  map_owned v surface s hb ho hc

/-- **extract-unused writes exactly the maximal unowned runs below the end of the disc.** -/
theorem C14_unused_spans (sm : SecMap) (last : Nat) :
    (∀ p ∈ unusedSpans sm last, p.1 < p.2 ∧ p.2 ≤ last ∧
        (∀ s, p.1 ≤ s → s < p.2 → sm.at s = none) ∧
        (p.1 = 0 ∨ (sm.at (p.1 - 1)).isSome) ∧ (p.2 = last ∨ (sm.at p.2).isSome)) ∧
    (∀ s, s < last → sm.at s = none → ∃ p ∈ unusedSpans sm last, p.1 ≤ s ∧ s < p.2) :=
  unusedSpans_spec sm last

end Beeb.Props.C14
