/-
C14 — free, space, sector-map, extract-unused agree with the catalogue and each other.
-/
import Beeb.Model.Cmd
import Beeb.Spec.Layout
import Beeb.Spec.Body
import Beeb.Lemmas.Leaf
import Beeb.Lemmas.Space

namespace Beeb.Props.C14
open Beeb Beeb.Gen Beeb.Spec Beeb.SpaceL

/-- the extent the catalogue gives an entry: ⌈len/256⌉ sectors from its start sector -/
def extentOf (e : Entry) : Extent := { start := e.startSector, size := Spec.sectorsFor e.fileLength }

/-- **free: used sectors** are one past the highest sector any (non-empty) file
    occupies, or the catalogue's own sectors — for every catalogue. -/
theorem C14_free_used (c : Catalog) :
    sectorsUsed c = usedSectors (dataSectorsReservedForCatalog c.fmt) (c.entries.map extentOf) :=
  sectorsUsed_eq c

/-- **free: the two lines add up**: used + free files = 31/62 and used + free
    sectors = the catalogue's total, whenever the counts fit. -/
theorem C14_free_sums (c : Catalog) (hn : c.entries.length ≤ c.maxFileCount) (hu : sectorsUsed c ≤ c.totalSectors) :
    ((c.maxFileCount : Int) - c.entries.length) + c.entries.length = c.maxFileCount ∧
    ((c.totalSectors : Int) - sectorsUsed c) + sectorsUsed c = c.totalSectors := by
  constructor <;> omega

/-- **space, one catalogue (Acorn DFS, each Opus DDOS volume).**  If the non-empty
    entries, read from the last catalogue slot to the first, form a well-formed
    layout, `space` lists exactly the non-empty runs of unallocated sectors in
    ascending disc order, and their total is total − catalogue − file sectors. -/
theorem C14_space_single (es : List Entry) (total cat : Nat)
    (hb : ∀ e ∈ es, ∀ i, e.m i < 256)
    (hwf : LayoutWF cat total ((es.filter (fun e => e.fileLength != 0)).reverse.map extentOf)) :
    spaceGaps [es] total cat =
      .ok ((runsFrom cat total ((es.filter (fun e => e.fileLength != 0)).reverse.map extentOf)).filter (· != 0)) ∧
    ((runsFrom cat total ((es.filter (fun e => e.fileLength != 0)).reverse.map extentOf)).foldl (· + ·) 0)
      + cat + ownedSectors ((es.filter (fun e => e.fileLength != 0)).reverse.map extentOf) = total :=
  space_single es total cat hb hwf

/-- **space, Watford DFS (two catalogues).**  `es0` is the catalogue of sectors 0–1
    (files lower on the disc), `es1` that of sectors 2–3.  The gaps listed are a
    permutation of the non-empty unallocated runs and the total is right. -/
theorem C14_space_watford (es0 es1 : List Entry) (total cat : Nat)
    (hb : ∀ e ∈ es0 ++ es1, ∀ i, e.m i < 256)
    (hwf : LayoutWF cat total (((es0.filter (fun e => e.fileLength != 0)).reverse ++
              (es1.filter (fun e => e.fileLength != 0)).reverse).map extentOf)) :
    ∃ gaps, spaceGaps [es0, es1] total cat = .ok gaps ∧
      gaps.Perm ((runsFrom cat total (((es0.filter (fun e => e.fileLength != 0)).reverse ++
              (es1.filter (fun e => e.fileLength != 0)).reverse).map extentOf)).filter (· != 0)) ∧
      gaps.foldl (· + ·) 0 + cat + ownedSectors (((es0.filter (fun e => e.fileLength != 0)).reverse ++
              (es1.filter (fun e => e.fileLength != 0)).reverse).map extentOf) = total :=
  space_watford es0 es1 total cat hb hwf

/-- **sector-map / extract-unused: ownership.**  In the map built for a single
    volume at origin 0, a sector is labelled iff it is a catalogue sector or lies in
    the extent of a non-empty file. -/
theorem C14_map_owned (v : Volume) (surface : Nat) (s : Nat)
    (hb : ∀ e ∈ v.cat.entries, ∀ i, e.m i < 256) (ho : v.origin = 0) (hc : v.catLoc = 0) :
    ((volumeMapSectors surface false none v []).at s).isSome =
      (decide (s < v.cat.catalogSectors) ||
       v.cat.entries.any (fun e => e.fileLength != 0 && decide (e.startSector ≤ s) && decide (s < e.startSector + Spec.sectorsFor e.fileLength))) :=
  map_owned v surface s hb ho hc

/-- **sector-map / extract-unused: ownership, any volume.**  For every volume
    (any catalogue location, any origin — the volumes of an Opus DDOS disc start
    on later tracks), every surface number, label and starting map: after the
    volume has added its sectors, a sector is labelled iff it was labelled before,
    or is one of the volume's catalogue sectors (`catLoc` is absolute), or lies in
    the extent of a non-empty file (start sectors are relative to `origin`).  The
    two bounds say that no sector number wraps modulo 2^32: a start sector is below
    1024 and a file spans at most 1024 sectors. -/
theorem C14_map_owned_volume (surface : Nat) (multi : Bool) (label : Option Nat) (v : Volume) (m : SecMap) (s : Nat)
    (hb : ∀ e ∈ v.cat.entries, ∀ i, e.m i < 256)
    (hc : v.catLoc + v.cat.catalogSectors ≤ 4294967296) (ho : v.origin + 2048 ≤ 4294967296) :
    ((volumeMapSectors surface multi label v m).at s).isSome =
      ((m.at s).isSome ||
       decide (v.catLoc ≤ s ∧ s < v.catLoc + v.cat.catalogSectors) ||
       v.cat.entries.any (fun e => e.fileLength != 0 && decide (v.origin + e.startSector ≤ s) &&
         decide (s < v.origin + e.startSector + Spec.sectorsFor e.fileLength))) :=
  map_owned_general surface multi label v m s hb hc ho

/-- **sector-map / extract-unused: ownership, whole disc side.**  In the map
    `sector-map` prints for a file system (any number of volumes), a sector is
    labelled iff it is the Opus DDOS disc catalogue (sector 16) or its reserved
    sector (17), or some volume's catalogue sector, or lies in the extent of a
    non-empty file of some volume. -/
theorem C14_map_owned_disc (fs : FileSystem) (surface : Nat) (s : Nat)
    (hv : ∀ p ∈ fs.vols, (∀ e ∈ p.2.cat.entries, ∀ i, e.m i < 256) ∧
        p.2.catLoc + p.2.cat.catalogSectors ≤ 4294967296 ∧ p.2.origin + 2048 ≤ 4294967296) :
    ((sectorMapOf fs surface).at s).isSome =
      ((fs.fmt == Format.OpusDDOS && (s == 16 || s == 17)) ||
       fs.vols.any (fun p =>
         decide (p.2.catLoc ≤ s ∧ s < p.2.catLoc + p.2.cat.catalogSectors) ||
         p.2.cat.entries.any (fun e => e.fileLength != 0 && decide (p.2.origin + e.startSector ≤ s) &&
           decide (s < p.2.origin + e.startSector + Spec.sectorsFor e.fileLength)))) :=
  map_owned_fs fs surface s hv

/-- a two-volume Opus DDOS side: volume A (catalogue at sectors 0–1, data from
    sector 18) holds `$.ALPHA`, 0x300 bytes at relative sector 0; volume B
    (catalogue at sectors 2–3, data from sector 360) holds `$.BETA`, 0x101 bytes
    at relative sector 5 -/
def twoVolumeSide : FileSystem :=
  let frag (total : Nat) (e : Entry) : Fragment :=
    { fmt := Format.OpusDDOS, title := [], seq := 0, lastPos := 8, boot := 0, total := total, entries := [e] }
  { fmt := Format.OpusDDOS
    geom := { cylinders := 80, heads := 1, sectors := 18, encoding := none }
    vols :=
      [ (some 65, { catLoc := 0, origin := 18, len := 342,
                    cat := { fmt := Format.OpusDDOS,
                             frags := [frag 342 { name := [65, 76, 80, 72, 65, 32, 32, 36],
                                                  md := [0, 25, 35, 128, 0, 3, 0, 0] }] } }),
        (some 66, { catLoc := 2, origin := 360, len := 1080,
                    cat := { fmt := Format.OpusDDOS,
                             frags := [frag 1080 { name := [66, 69, 84, 65, 32, 32, 32, 36],
                                                   md := [0, 25, 35, 128, 1, 1, 0, 5] }] } }) ] }

/-- non-vacuity: the two-volume side satisfies the hypotheses of `C14_map_owned_disc`
    (and each volume those of `C14_map_owned_volume`) -/
example : ∀ p ∈ twoVolumeSide.vols, (∀ e ∈ p.2.cat.entries, ∀ i, e.m i < 256) ∧
    p.2.catLoc + p.2.cat.catalogSectors ≤ 4294967296 ∧ p.2.origin + 2048 ≤ 4294967296 := by
  intro p hp
  simp only [twoVolumeSide, List.mem_cons, List.not_mem_nil, or_false] at hp
  rcases hp with rfl | rfl
  all_goals
    refine ⟨?_, by decide, by decide⟩
    intro e he i
    simp only [Catalog.entries, List.flatMap_cons, List.flatMap_nil, List.append_nil,
      List.mem_cons, List.not_mem_nil, or_false] at he
    subst he
    exact arr_lt _ (by decide) i

/-- and the theorem's verdicts on it: sectors 20 (`A.$.ALPHA`), 366 (`B.$.BETA`), 3
    (volume B's catalogue) and 16 (disc catalogue) are owned, 21 and 367 are not -/
example : [20, 366, 3, 16, 21, 367].map (fun s => ((sectorMapOf twoVolumeSide 0).at s).isSome) =
    [true, true, true, true, false, false] := by decide

/-- **extract-unused writes exactly the maximal unowned runs below the end of the disc.** -/
theorem C14_unused_spans (sm : SecMap) (last : Nat) :
    (∀ p ∈ unusedSpans sm last, p.1 < p.2 ∧ p.2 ≤ last ∧
        (∀ s, p.1 ≤ s → s < p.2 → sm.at s = none) ∧
        (p.1 = 0 ∨ (sm.at (p.1 - 1)).isSome) ∧ (p.2 = last ∨ (sm.at p.2).isSome)) ∧
    (∀ s, s < last → sm.at s = none → ∃ p ∈ unusedSpans sm last, p.1 ≤ s ∧ s < p.2) :=
  unusedSpans_spec sm last

end Beeb.Props.C14
