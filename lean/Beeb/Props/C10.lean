/-
C10 — gzip compression of an image file is transparent.

zlib is a parameter of the model: the host file system `fs : HostFs` maps the
path of a `.gz` file to the bytes its first gzip member inflates to
(`HostFile.raw`/`sparse`), or to `HostFile.gzBad` when zlib rejects it
(truncated, corrupt, not gzip).  That `dfs` obtains exactly those bytes for a
good file and rejects exactly the bad ones is what the correspondence check
establishes on the real binary (compression levels, sizes around the inflate
buffer boundaries, every truncation point, single-bit corruptions); the
theorems cover everything after decompression: the loader chosen from the
name, the geometry hints taken from the name, identification, attachment and
every command.
-/
import Beeb.Model.Main
import Beeb.Lemmas.GzL

namespace Beeb.Props.C10
open Beeb Beeb.GzL

def gz : Bytes := strBytes ".gz"

/-- everything about the state except the recorded names of the image files (which necessarily
    differ: `name.gz` versus `name`; they matter only to the refusal to extract *over* an image) -/
def forget (st : MainState) : MainState := { st with images := [] }

/-- **Attaching `name.gz` is attaching `name`** whenever the compressed file
    inflates to the content of the uncompressed one — for every supported image
    type (`loaderOf name` recognises the extension; `name` itself is not `.gz`):
    same drives, same media, same diagnostics; only the recorded image name differs. -/
theorem C10_attach (fs : HostFs) (nd : Bool) (name : Bytes) (ld : Loader) (st : MainState)
    (hname : loaderOf name = some (false, ld))
    (hsame : fs (name ++ gz) = fs name) :
    (attachFile fs nd (name ++ gz) st).map forget = (attachFile fs nd name st).map forget ∧
    ∀ st1 st2, attachFile fs nd (name ++ gz) st = .ok st1 → attachFile fs nd name st = .ok st2 →
      st1.images = st.images ++ [name ++ gz] ∧ st2.images = st.images ++ [name] :=
  attach_gz fs nd name ld st hname hsame

/-- the commands that write host files, and where: every file `extract-files DEST` /
    `extract-unused DEST` creates is named `DEST/…`; a name that does not begin with
    that prefix cannot be the target of any write -/
def OutsideDest (rest : List Bytes) (path : Bytes) : Prop :=
  ∀ a0 a, rest = [a0, a] → ¬ (destDir a).isPrefixOf path

/-- **Transparency of a whole run**: replacing `--file name` by `--file name.gz`
    anywhere among the options changes nothing — standard output, exit status,
    extracted files, diagnostics flag — provided the command is not asked to
    extract into the very directory that holds the image (where the refusal to
    overwrite an image file, which goes by name, could tell the two runs apart). -/
theorem C10_transparent (fs : HostFs) (nd : Bool) (cols : Option Nat) (name : Bytes) (ld : Loader)
    (before after : List Opt) (rest : List Bytes)
    (hname : loaderOf name = some (false, ld))
    (hsame : fs (name ++ gz) = fs name)
    (hout : OutsideDest rest name ∧ OutsideDest rest (name ++ gz)) :
    dfsRun fs nd cols (before ++ [Opt.opt .file (name ++ gz)] ++ after) rest =
    dfsRun fs nd cols (before ++ [Opt.opt .file name] ++ after) rest :=
  run_gz fs nd cols name ld before after rest hname hsame hout

/-- for every command other than the two extract commands no proviso is needed -/
theorem C10_transparent_readonly (fs : HostFs) (nd : Bool) (cols : Option Nat) (name : Bytes) (ld : Loader)
    (before after : List Opt) (rest : List Bytes)
    (hname : loaderOf name = some (false, ld))
    (hsame : fs (name ++ gz) = fs name)
    (hcmd : rest.head? ≠ some (strBytes "extract-files") ∧ rest.head? ≠ some (strBytes "extract-unused")) :
    dfsRun fs nd cols (before ++ [Opt.opt .file (name ++ gz)] ++ after) rest =
    dfsRun fs nd cols (before ++ [Opt.opt .file name] ++ after) rest :=
  run_gz_readonly fs nd cols name ld before after rest hname hsame hcmd

/-- **A `.gz` file zlib rejects is rejected by dfs**: exit status 1, a diagnostic,
    nothing on standard output, no file written — it is never read as raw data,
    whatever else is on the command line. -/
theorem C10_bad_gz_rejected (fs : HostFs) (nd : Bool) (cols : Option Nat) (arg : Bytes)
    (before after : List Opt) (rest : List Bytes)
    (hbad : fs arg = HostFile.gzBad)
    (hbefore : ∃ st, optLoop fs nd before default = .ok st) :
    let r := dfsRun fs nd cols (before ++ [Opt.opt .file arg] ++ after) rest
    r.exit = 1 ∧ r.err = true ∧ r.out = [] ∧ r.files = [] ∧ r.crash = none :=
  bad_gz fs nd cols arg before after rest hbad hbefore

/-- the name hints survive compression: the candidate geometries for `x.ssd.gz` are those for `x.ssd` -/
theorem C10_hints (name : String) (h : name.endsWith ".gz" = false) :
    candidateList (name ++ ".gz") = candidateList name :=
  hints_gz name h

/-- non-vacuity: `.ssd`, `.dsd`, `.mmb`, `.hfe` names satisfy the hypothesis of C10_attach -/
example : loaderOf (strBytes "disc.ssd") = some (false, .nonInterleaved) ∧
          loaderOf (strBytes "disc.hfe") = some (false, .hfe) ∧
          loaderOf (strBytes "disc.ssd" ++ gz) = some (true, .nonInterleaved) := by decide

end Beeb.Props.C10
