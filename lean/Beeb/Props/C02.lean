/-
C02 — dfs reports catalogue metadata exactly as encoded on the disc.
Property theorems only (helper lemmas live in Beeb/Lemmas).
-/
import Beeb.Model.Catalog
import Beeb.Spec.Info
import Beeb.Lemmas.Leaf

namespace Beeb.Props.C02
open Beeb Beeb.Gen Beeb.Spec Beeb.Leaf Beeb.Bits

/-- `sign_extend` as compiled from the C++ is the documented 18→24 bit sign extension -/
theorem sign_extend_spec (a : Nat) (ha : a < 262144) : sign_extend a = signExt18to24 a := by
  unfold sign_extend signExt18to24
  have h17 : (131072 : Nat) = 2 ^ 17 := by decide
  rw [h17, and_pow_ne_zero, testBit_eq]
  have hor : (16515072 ||| a) = a + 0xFC0000 := by
    have := mul_pow_or 18 63 a (by omega)
    simp at this
    omega
  by_cases h : a / 2 ^ 17 % 2 = 1
  · have h' : a / 131072 % 2 = 1 := by simpa using h
    simp [h, h', hor]
  · have h' : ¬ a / 131072 % 2 = 1 := by simpa using h
    simp [h']

/-- **C02, info line.**  For every pair of raw 8-byte catalogue records, the
    line printed by `operator<<(CatalogEntry)` — built from the leaves generated
    from the current C++ — is exactly the documented rendering of the fields
    decoded by the published catalogue layout.  All 2^128 entries. -/
theorem C02_info_line (nm mt : Nat → Nat) (hn : ∀ i, nm i < 256) (hm : ∀ i, mt i < 256) :
    infoLineOf nm mt = Spec.infoLine (decodeFields nm mt) := by
  unfold infoLineOf Spec.infoLine decodeFields
  have b0 := hm 0; have b1 := hm 1; have b2 := hm 2; have b3 := hm 3
  have b4 := hm 4; have b5 := hm 5; have b6 := hm 6; have b7 := hm 7
  have q1 : mt 6 / 4 % 4 < 4 := Nat.mod_lt _ (by omega)
  have q2 : mt 6 / 64 % 4 < 4 := Nat.mod_lt _ (by omega)
  have q3 : mt 6 / 16 % 4 < 4 := Nat.mod_lt _ (by omega)
  have q4 : mt 6 % 4 < 4 := Nat.mod_lt _ (by omega)
  rw [load_address_eq mt hm, exec_address_eq mt hm, file_length_eq mt hm, start_sector_eq mt hm,
    directory_eq, is_locked_eq nm hn]
  rw [sign_extend_spec _ (by omega), sign_extend_spec _ (by omega)]
  have s1 : signExt18to24 (mt 0 + 256 * mt 1 + 65536 * (mt 6 / 4 % 4)) < 16 ^ 6 := by
    unfold signExt18to24; split <;> omega
  have s2 : signExt18to24 (mt 2 + 256 * mt 3 + 65536 * (mt 6 / 64 % 4)) < 16 ^ 6 := by
    unfold signExt18to24; split <;> omega
  rw [padLeft_hexU 6 _ (by omega) s1, padLeft_hexU 6 _ (by omega) s2,
    padLeft_hexU 6 _ (by omega) (by omega), padLeft_hexU 3 _ (by omega) (by omega)]
  have hname : Entry.nameOf nm = shownName ((List.range 7).map (fun i => nm i % 128)) := by
    unfold Entry.nameOf shownName
    simp only [byte_to_ascii7_eq]
  rw [hname]
  by_cases hl : 128 ≤ nm 7 <;> simp [hl, padRight]

/-- the documented layout is a bijection on well-formed field values: decoding the
    encoding gives the fields back (every value of the mixed byte, every low word) -/
theorem C02_fields_roundtrip (f : Fields) (hf : f.WF) :
    decodeFields (arr (encodeName f)) (arr (encodeMeta f)) = f := by
  obtain ⟨hd, hlen, hc, hl, he, hn, hs⟩ := hf
  rcases f with ⟨dir, name, locked, load, exec, len, start⟩
  simp only at hd hlen hc hl he hn hs
  match name, hlen with
  | [c0, c1, c2, c3, c4, c5, c6], _ =>
    have h0 := hc c0 (by simp); have h1 := hc c1 (by simp); have h2 := hc c2 (by simp)
    have h3 := hc c3 (by simp); have h4 := hc c4 (by simp); have h5 := hc c5 (by simp)
    have h6 := hc c6 (by simp)
    unfold decodeFields encodeName encodeMeta arr
    simp only [List.cons_append, List.nil_append, List.getD_cons_zero, List.getD_cons_succ,
      List.range, List.range.loop, List.map]
    congr 1
    · cases locked <;> simp <;> omega
    · simp [Nat.mod_eq_of_lt, *]
    · cases locked <;> simp <;> omega
    · omega
    · omega
    · omega
    · omega

/-- non-vacuity: a concrete entry with bit 17 set and bit 16 clear (the case no test
    image contains) is printed with `FE`, not `FF`:  "$.FOO      L   FE1900 FF8023 000476 0AB" -/
example :
    infoLineOf (arr [70, 79, 79, 32, 32, 32, 32, 36 + 128]) (arr [0, 0x19, 0x23, 0x80, 0x76, 0x04, 0xC8, 0xAB])
      = [36, 46, 70, 79, 79, 32, 32, 32, 32, 32, 32, 76, 32, 32, 70, 69, 49, 57, 48, 48, 32,
         70, 70, 56, 48, 50, 51, 32, 48, 48, 48, 52, 55, 54, 32, 48, 65, 66] := by
  rw [C02_info_line _ _ (arr_lt _ (by decide)) (arr_lt _ (by decide))]
  decide

end Beeb.Props.C02
