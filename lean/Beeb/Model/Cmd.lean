/-
Executable model of the dfs commands (cmd_*.cc, commands.cc, hexdump.cc,
dfs_unused.cc).  stdout is modelled byte for byte; stderr only as "something
was written"; host files created are returned as (path, content) pairs.
-/
import Beeb.Model.Storage
import Beeb.Model.Afsp

namespace Beeb
open Beeb.Gen

structure Ctx where
  dir : Nat
  vol : VolSel
  ui : Nat          -- 0 Default, 1 Acorn, 2 Watford, 3 Opus
deriving Repr, Inhabited

structure Env where
  storage : Storage
  media : Nat → Media        -- block access to image file number i
  ctx : Ctx
  ndebug : Bool
  screenCols : Option Nat    -- `get_screen_cols` (none unless stdout is a tty with COLUMNS)
  images : List Bytes := []  -- the names given with --file (`DFSContext::image_file_names`)

structure Out where
  out : Bytes := []
  err : Bool := false
  files : List (Bytes × Bytes) := []
deriving Repr, Inhabited

inductive CmdRes where
  | done (ok : Bool) (o : Out)
  | threw (o : Out)                    -- a std::exception reached main
  | abort (o : Out) (site : String)    -- crash / undefined behaviour
deriving Repr, Inhabited

def failErr : CmdRes := .done false { err := true }

def Env.driveMedia (env : Env) (cfg : DriveCfg) : Media := cfg.view.readBlock (env.media cfg.file)

inductive MountFs where
  | fail
  | threw
  | abort (site : String)
  | ok (fs : FileSystem) (m : Media) (cfg : DriveCfg)

/-- `StorageConfiguration::mount_fs` -/
def Env.mountFs (env : Env) (surface : Nat) : MountFs :=
  match env.storage.select surface with
  | none => .fail
  | some cfg =>
    match cfg.fmt with
    | none => .fail
    | some fmt =>
      let m := env.driveMedia cfg
      match FileSystem.make m fmt cfg.view.geom env.ndebug with
      | .ok fs => .ok fs m cfg
      | .err _ => .threw
      | .abort s => .abort s

inductive Mount where
  | fail
  | threw
  | abort (site : String)
  | ok (fs : FileSystem) (v : Volume) (m : Media)

/-- `StorageConfiguration::mount` -/
def Env.mount (env : Env) (vol : VolSel) : Mount :=
  match env.mountFs vol.surface with
  | .fail => .fail
  | .threw => .threw
  | .abort s => .abort s
  | .ok fs m _ =>
    match fs.mount vol.subvol with
    | none => .fail
    | some v => .ok fs v m

/-! ### file bodies -/

/-- the sector loop of `visit_file_body_piecewise`; `none` = BadFileSystem thrown.
    Chunks are accumulated in reverse. -/
def bodyLoop (m : Media) : Nat → Nat → Nat → List Bytes → Option (List Bytes)
  | 0, _, _, acc => some acc
  | k + 1, sec, len, acc =>
    match m sec with
    | none => none
    | some buf =>
      let v := if len > 256 then 256 else len
      bodyLoop m k (sec + 1) (len - v) (buf.take v :: acc)

/-- the pieces handed to the visitor, in order -/
def bodyPieces (e : Entry) (m : Media) : Option (List Bytes) :=
  if e.fileLength == 0 then some []      -- an empty file occupies no sectors: nothing is read
  else (bodyLoop m (e.lastSector + 1 - e.startSector) e.startSector e.fileLength []).map List.reverse

def readBody (e : Entry) (m : Media) : Option Bytes := (bodyPieces e m).map List.flatten

/-- the pieces delivered before the first unreadable sector (what a streaming
    visitor has already consumed when BadFileSystem is thrown) -/
def bodyPrefix (m : Media) : Nat → Nat → Nat → List Bytes → List Bytes
  | 0, _, _, acc => acc.reverse
  | k + 1, sec, len, acc =>
    match m sec with
    | none => acc.reverse
    | some buf =>
      let v := if len > 256 then 256 else len
      bodyPrefix m k (sec + 1) (len - v) (buf.take v :: acc)

/-- `CatalogEntry::has_name` -/
def Entry.hasName (e : Entry) (p : ParsedName) : Bool :=
  toLowerC p.dir == toLowerC e.directory && ciEqual p.name (rtrimB e.nameStr)

def Catalog.find (c : Catalog) (p : ParsedName) : Option Entry := c.entries.find? (·.hasName p)

/-- `body_command` up to the body: (warned, body) -/
def bodyCommand (env : Env) (args : List Bytes) (logic : Bytes → Bytes) : CmdRes :=
  match args with
  | [] | [_] => failErr
  | _ :: a1 :: more =>
    let warned := !more.isEmpty
    match parseFilename env.ctx.vol env.ctx.dir a1 with
    | none => failErr
    | some p =>
      match env.mount p.vol with
      | .fail => failErr
      | .threw => .threw { err := true }
      | .abort s => .abort { err := warned } s
      | .ok _ v m =>
        match v.cat.find p with
        | none => failErr
        | some e =>
          match readBody e (v.data m) with
          | none => .threw { err := true }
          | some body => .done true { out := logic body, err := warned }

/-! ### type / list / dump -/

def typeParseArgs : List Bytes → Bool → (List Bytes × List Bytes) → (List Bytes × List Bytes)
  | [], _, acc => (acc.1.reverse, acc.2.reverse)
  | a :: rest, could, (opts, non) =>
    if !could || a.isEmpty then typeParseArgs rest false (opts, a :: non)
    else if a == [45, 45] then typeParseArgs rest false (opts, non)
    else if a.getD 0 0 == 45 then typeParseArgs rest true (a :: opts, non)
    else typeParseArgs rest false (opts, a :: non)

def crToLf (b : Bytes) : Bytes := b.map (fun c => if c == 13 then 10 else c)

def cmdType (env : Env) (args : List Bytes) : CmdRes :=
  match args with
  | [] => failErr
  | a0 :: rest =>
    let (opts, non) := typeParseArgs rest true ([], [a0])
    let bad := opts.any (fun o => o != strBytes "--binary")
    -- options are examined in order; the first unknown one fails
    if bad then failErr
    else
      let binary := !opts.isEmpty
      bodyCommand env non (fun b => if binary then b else crToLf b)

/-- `list`'s byte-at-a-time state machine (output accumulated in reverse) -/
def listLoop : Bytes → Nat → Bool → Bytes → Bytes
  | [], _, _, acc => acc.reverse
  | c :: rest, ln, sol, acc =>
    let (acc, ln) := if sol then ([32] ++ (padLeft 4 32 (decU ln)).reverse ++ acc, ln + 1) else (acc, ln)
    if c == 13 then listLoop rest ln true (10 :: acc) else listLoop rest ln false (c :: acc)

def listRender (b : Bytes) : Bytes := listLoop b 1 true []

def cmdList (env : Env) (args : List Bytes) : CmdRes := bodyCommand env args listRender

def isGraphC (c : Nat) : Bool := 33 ≤ c && c ≤ 126

/-- one row of `hexdump_bytes` (stride 8) for the remaining bytes `b` at offset `pos` -/
def hexdumpRow (pos : Nat) (b : Bytes) : Bytes :=
  let cells := (List.range 8).flatMap fun i =>
    if i < b.length then [32] ++ padLeft 2 48 (hexU (b.getD i 0)) else [32, 42, 42]
  let chars := (List.range 8).map fun i =>
    let ch := if i < b.length then b.getD i 0 else 46
    if ch == 32 || isGraphC ch then ch else 46
  padLeft 6 48 (decU pos) ++ cells ++ [32] ++ chars ++ [10]

def hexdumpLoop : Nat → Nat → Bytes → List Bytes → List Bytes
  | 0, _, _, acc => acc.reverse
  | fuel + 1, pos, b, acc =>
    if b.isEmpty then acc.reverse
    else
      let row := b.take 8
      let acc := hexdumpRow pos row :: acc
      if row.length ≥ 8 then hexdumpLoop fuel (pos + 8) (b.drop 8) acc else acc.reverse

def hexdump (b : Bytes) : Bytes := (hexdumpLoop (b.length / 8 + 1) 0 b []).flatten

def cmdDump (env : Env) (args : List Bytes) : CmdRes := bodyCommand env args hexdump

/-- `get_arg`: none = error reported; `threw` for invalid_argument (not caught there) -/
inductive GetArg | ok (n : Int) | bad | threw

def getArg (a : Bytes) (upper : Int) : GetArg :=
  match stol a with
  | .error .invalid => .threw
  | .error .range => .bad
  | .ok (n, e) => if e < a.length then .bad else if n ≤ upper then .ok n else .bad

def cmdDumpSector (env : Env) (args : List Bytes) : CmdRes :=
  match args with
  | [_, a1, a2, a3] =>
    match parseSurface a1 with
    | none => failErr
    | some (surface, _) =>
      match env.storage.select surface with
      | none => failErr
      | some cfg =>
        let g := cfg.view.geom
        match getArg a2 ((g.cylinders : Int) - 1) with
        | .threw => .threw { err := true }
        | .bad => failErr
        | .ok track =>
          -- `geom.sectors-1` is unsigned arithmetic converted to long
          let upper : Int := if g.sectors == 0 then 4294967295 else (g.sectors : Int) - 1
          match getArg a3 upper with
          | .threw => .threw { err := true }
          | .bad => failErr
          | .ok sector =>
            let addr := ((track * (g.sectors : Int) + sector) % 4294967296).toNat
            match env.driveMedia cfg addr with
            | none => failErr
            | some s => .done true { out := hexdump s }
  | _ => failErr

/-! ### info -/

def cmdInfo (env : Env) (args : List Bytes) : CmdRes :=
  match args with
  | [_, w] =>
    match Matcher.make env.ctx.vol env.ctx.dir w with
    | none => failErr
    | some mt =>
      match env.mount mt.vol with
      | .fail => failErr
      | .threw => .threw { err := true }
      | .abort s => .abort {} s
      | .ok _ v _ =>
        let sel := v.cat.entries.filter (fun e => mt.accepts mt.vol e.directory e.nameStr)
        .done true { out := sel.flatMap (fun e => e.infoLine ++ [10]) }
  | _ => failErr

/-! ### cat -/

structure Col where
  out : Bytes := []
  col : Nat := 0
  cur : Nat := 0
  pfx : Bytes := []
deriving Repr, Inhabited

def Col.upd (c : Col) (ch : Nat) : Col :=
  if ch == 10 || ch == 13 then { c with col := 0 }
  else if ch == 9 then { c with col := c.col + (8 - c.col % 8) }
  else { c with col := c.col + 1 }

def Col.put (c : Col) (ch : Nat) : Col :=
  let c := ({ c with out := c.out ++ [ch] }).upd ch
  if ch == 10 then { c with out := c.out ++ c.pfx } else c

def Col.str (c : Col) (s : Bytes) : Col := s.foldl Col.upd { c with out := c.out ++ s }

def Col.spacesTo (c : Col) (n : Nat) : Col :=
  (List.range (n - c.col)).foldl (fun c _ => c.put 32) c

def Col.advanceTo (c : Col) (n : Nat) : Col :=
  let c := if c.col > n then c.put 10 else c
  c.spacesTo n

def Col.nextLine (c : Col) : Col := { c.put 10 with cur := 0 }

def Col.nextColumn (c : Col) (rmargin : Nat) : Col :=
  let cur := c.cur + 1
  let nextpos := cur * 20
  let nextpos := if c.col == nextpos then nextpos + 20 else nextpos
  if nextpos ≥ rmargin then { c.put 10 with cur := 0 }
  else { c.advanceTo nextpos with cur := cur }

def hexL (v : Nat) : Bytes :=
  (hexU v).map (fun c => if 65 ≤ c && c ≤ 70 then c + 32 else c)

def titleAndCycle (ui : Nat) (title : Bytes) (cycle : Option Nat) : Bytes :=
  let t := padRight (if ui == 3 then 0 else 12) 32 title
  match cycle with
  | none => t
  | some cy =>
    t ++ (if ui != 3 || !title.isEmpty then [32] else []) ++ [40] ++ padLeft 2 48 (hexL cy) ++ [41]

def bootDesc (b : Nat) : Bytes :=
  decU b ++ strBytes " (" ++ strBytes (match b with | 0 => "off" | 1 => "LOAD" | 2 => "RUN" | _ => "EXEC") ++ [41]

def resolveUi (ctxUi : Nat) (fmt : Format) : Nat :=
  if ctxUi != 0 then ctxUi
  else match fmt with
    | .HDFS => 1 | .DFS => 1 | .WDFS => 2 | .OpusDDOS => 3

def outputColumns (ui : Nat) (width : Nat) : Nat :=
  if ui == 2 then (if width < 40 then 1 else if width < 80 then 2 else 4)
  else (if width < 40 then 1 else 2)

/-- the comparator of cat's `std::sort` -/
def catLess (curDir : Nat) (l r : Entry) : Bool :=
  let mapdir (d : Nat) : Nat := if d == curDir then 0 else toLowerC d
  if mapdir l.directory < mapdir r.directory then true
  else if mapdir r.directory < mapdir l.directory then false
  else ciLess l.nameStr r.nameStr

def insertBy (less : α → α → Bool) (x : α) : List α → List α
  | [] => [x]
  | y :: ys => if less x y then x :: y :: ys else y :: insertBy less x ys

/-- a stable sort standing in for `std::sort` (ties are not exercised) -/
def sortBy (less : α → α → Bool) (l : List α) : List α := l.foldr (insertBy less) []

def catCell (ui curDir : Nat) (e : Entry) : Bytes :=
  let s := List.replicate (if ui == 2 then 3 else 2) 32 ++
    (if e.directory != curDir then [e.directory, 46] else [32, 32]) ++ e.nameStr
  padLeft 8 32 s ++ (if e.isLocked then [32, 32, 32, 32, 76] else [])

def catEntries (ui curDir rmargin : Nat) : List Entry → Bool → Bool → Col → Col
  | [], _, _, c => c
  | e :: rest, first, gap, c =>
    let (c, first, gap) :=
      if e.directory != curDir && !gap then
        let c := if c.col > 0 then c.nextLine else c
        (c.nextLine, true, true)
      else (c, first, gap)
    let c := if first then c else c.nextColumn rmargin
    catEntries ui curDir rmargin rest false gap (c.str (catCell ui curDir e))

/-- the sorted list of entries `cat` shows -/
def catSorted (curDir : Nat) (c : Catalog) : List Entry := sortBy (catLess curDir) c.entries

def cmdCatRender (ctx : Ctx) (screenCols : Option Nat) (d : VolSel) (fs : FileSystem) (v : Volume) : Bytes :=
  let cat := v.cat
  let ui := resolveUi ctx.ui fs.fmt
  let rmargin := outputColumns ui (screenCols.getD 40) * 20
  let pfx : Bytes := if ui == 3 then [32] else []
  let c : Col := { out := pfx, pfx := pfx }
  let c := c.str (titleAndCycle ui cat.title cat.seqNo)
  let c := if ui == 2 then c.nextColumn rmargin else if ui == 3 then c.nextLine else c.str [32]
  let dd := fs.geom.encoding == some Encoding.MFM
  let c := c.str (strBytes (if ui == 2 || ui == 3 then (if dd then "Double density" else "Single density") else (if dd then "MFM" else "FM")))
  let c :=
    if ui == 3 then
      let labels := (List.range 8).map (· + 65)
      let present := fs.vols.filterMap (·.1)
      let summary := labels.map (fun l => if present.contains l then l else 46)
      if summary.any (· != 46) then (c.nextColumn rmargin).str summary else c
    else c
  let c := c.nextLine
  let c := c.str (strBytes "Drive " ++ d.toStr)
  let c := c.nextColumn rmargin
  let c := c.str (strBytes "Option " ++ bootDesc cat.boot)
  let c := c.nextLine
  let dirL := strBytes (if ui == 1 then "Dir." else "Directory")
  let libL := strBytes (if ui == 1 then "Lib." else "Library")
  let c := c.str (dirL ++ strBytes " :" ++ ctx.vol.toStr ++ [46, ctx.dir])
  let c := c.nextColumn rmargin
  let c := c.str (libL ++ strBytes " :0.$")
  let c := if ui == 2 then (c.nextColumn rmargin).str (strBytes "Work file $.") else c
  let c := { c with pfx := [] }
  let c := c.nextLine
  let c := c.nextLine
  let entries := catSorted ctx.dir cat
  let c := catEntries ui ctx.dir rmargin entries true false c
  let c := c.nextLine
  if ui == 3 then
    if entries.isEmpty then (c.str (strBytes "No file\n")).out else c.out
  else if ui == 2 then
    let c := c.nextLine
    (c.str (padLeft 2 48 (decU entries.length) ++ strBytes " files of " ++ decU cat.maxFileCount ++
      strBytes " on " ++ decU fs.geom.cylinders ++ strBytes " tracks\n")).out
  else c.out

def cmdCat (env : Env) (args : List Bytes) : CmdRes :=
  let go (d : VolSel) : CmdRes :=
    match env.mount d with
    | .fail => failErr
    | .threw => .threw { err := true }
    | .abort s => .abort {} s
    | .ok fs v _ => .done true { out := cmdCatRender env.ctx env.screenCols d fs v }
  match args with
  | [] | [_] => go env.ctx.vol
  | [_, a] =>
    match parseVolume a with
    | none => failErr
    | some (d, e) => if e != a.length then failErr else go d
  | _ => failErr

/-! ### free -/

def groupThousands (ds : Bytes) : Bytes :=
  let r := ds.reverse
  let rec go (fuel : Nat) (l : Bytes) (acc : Bytes) : Bytes :=
    match fuel with
    | 0 => acc
    | fuel + 1 =>
      if l.length ≤ 3 then l.reverse ++ acc
      else go fuel (l.drop 3) ([44] ++ (l.take 3).reverse ++ acc)
  go (ds.length + 1) r []

/-- an `int` printed in hex is its 32-bit two's complement -/
def intHex32 (i : Int) : Bytes := hexU ((i % 4294967296).toNat)

def intDecGrouped (i : Int) : Bytes :=
  if i < 0 then [45] ++ groupThousands (decU (-i).toNat) else groupThousands (decU i.toNat)

/- `sectors * SECTOR_BYTES` is int × unsigned int: the product is unsigned -/
def freeLine (files : Int) (sectors : Int) (desc : String) : Bytes :=
  padLeft 2 48 (intDecGrouped files) ++ strBytes " Files " ++
  padLeft 3 48 (groupThousands (intHex32 sectors)) ++ strBytes " Sectors " ++
  padLeft 7 32 (intDecGrouped ((sectors * 256) % 4294967296)) ++ strBytes " Bytes " ++ strBytes desc ++ [10]

/-- `sectors_used` of cmd_free.cc -/
def sectorsUsed (c : Catalog) : Nat :=
  c.entries.foldl (fun used e =>
    if e.fileLength == 0 then used
    else
      let last := e.startSector + (e.fileLength / 256 + (if e.fileLength % 256 != 0 then 1 else 0))
      if last > used then last else used) (dataSectorsReservedForCatalog c.fmt)

def cmdFreeRender (c : Catalog) : Bytes :=
  let used := sectorsUsed c
  let n := c.entries.length
  freeLine ((c.maxFileCount : Int) - n) ((c.totalSectors : Int) - used) "Free" ++
  freeLine n used "Used"

def cmdFree (env : Env) (args : List Bytes) : CmdRes :=
  let go (d : VolSel) : CmdRes :=
    match env.mount d with
    | .fail => failErr
    | .threw => .threw { err := true }
    | .abort s => .abort {} s
    | .ok _ v _ => .done true { out := cmdFreeRender v.cat }
  match args with
  | [] | [_] => go env.ctx.vol
  | [_, a] =>
    match parseVolume a with
    | none => failErr
    | some (d, e) => if e < a.length then failErr else go d
  | _ => failErr

/-! ### space -/

inductive SpaceRes | ok (gaps : List Nat) | outOfOrder

/-- `maybe_gap` -/
def maybeGap (gaps : List Nat) (last next : Nat) : Option (List Nat) :=
  if last > next then none else if next - last != 0 then some (gaps ++ [next - last]) else some gaps

/-- entries of every catalogue with their position (catalogue, index), in
    catalogue order; empty files play no part -/
def spaceIndexed (cats0 : List (List Entry)) : List (Nat × Nat × Entry) :=
  let cats := cats0.map (fun l => l.filter (fun e => e.fileLength != 0))
  (cats.zipIdx).flatMap (fun (l, c) => (l.zipIdx).map (fun (e, i) => (c, i, e)))

/-- the file with the lowest start sector (the first such in catalogue order) -/
def spaceFirstFile (indexed : List (Nat × Nat × Entry)) : Option (Nat × Nat × Entry) :=
  indexed.foldl (fun best x => match best with
    | none => some x
    | some b => if x.2.2.startSector < b.2.2.startSector then some x else some b) none

/-- `start_sec_of_next` (after the repair: the next non-empty catalogue) -/
def spaceNext (cats : List (List Entry)) (total c i : Nat) : Nat :=
  if i > 0 then ((cats.getD c []).getD (i - 1) default).startSector
  else
    match ((cats.drop (c + 1)).filter (fun l => !l.isEmpty)).head? with
    | some l => (l.getLast?.map (·.startSector)).getD total
    | none => total

/-- the `(last, next)` arguments of the successive `maybe_gap` calls, in the order
    cmd_space.cc makes them: catalogues from last to first, entries from last to
    first, the gap after the catalogue sectors inserted just before the lowest
    file when that file is in the first catalogue, else at the very end -/
def spacePairs (cats0 : List (List Entry)) (total catSectors : Nat) : List (Nat × Nat) :=
  let cats := cats0.map (fun l => l.filter (fun e => e.fileLength != 0))
  let indexed := spaceIndexed cats0
  let firstFile := spaceFirstFile indexed
  let initial : Nat × Nat := (catSectors, match firstFile with | some f => f.2.2.startSector | none => total)
  let inFirst : Bool := match firstFile with | some f => f.1 == 0 | none => false
  let body := indexed.reverse.flatMap fun (c, i, e) =>
    (if (match firstFile with | some f => f.1 == c && f.2.1 == i && f.1 == 0 | none => false) then [initial] else []) ++
    [(e.lastSector + 1, spaceNext cats total c i)]
  body ++ (if inFirst then [] else [initial])

def gapsOfPairs : List (Nat × Nat) → List Nat → Option (List Nat)
  | [], acc => some acc
  | (l, n) :: rest, acc =>
    match maybeGap acc l n with
    | none => none
    | some acc' => gapsOfPairs rest acc'

/-- the gap computation of cmd_space.cc on the catalogue in disc order -/
def spaceGaps (cats : List (List Entry)) (total catSectors : Nat) : SpaceRes :=
  match gapsOfPairs (spacePairs cats total catSectors) [] with
  | some g => .ok g
  | none => .outOfOrder

def spaceBlock (sel : VolSel) (gaps : List Nat) : Bytes :=
  strBytes "Gap sizes on disc " ++ sel.toStr ++ strBytes ":\n" ++
  ((gaps.map (fun g => padLeft 3 48 (hexU g))).intersperse [32]).flatten ++
  strBytes "\n\nTotal space free = " ++ hexU (gaps.foldl (· + ·) 0 % 4294967296) ++ strBytes " sectors\n"

def volKey (v : VolSel) : Nat × Nat := (v.surface, v.subvol.getD 65)

def lexLess (a b : Nat × Nat) : Bool := a.1 < b.1 || (a.1 == b.1 && a.2 < b.2)

def spaceSummary (free : List (VolSel × Nat)) : Bytes :=
  let sorted := sortBy (fun a b => lexLess (volKey a.1) (volKey b.1)) free
  sorted.flatMap (fun p => strBytes "Total space free in volume " ++ padLeft 4 32 p.1.toStr ++ strBytes " = " ++
      padLeft 4 48 (hexU p.2) ++ strBytes " sectors\n") ++
  strBytes "Total space free in all volumes = " ++ padLeft 4 48 (hexU (sorted.foldl (fun a p => (a + p.2) % 4294967296) 0)) ++ strBytes " sectors\n"

def spaceRun (env : Env) (sels : List VolSel) : CmdRes :=
  let rec go : List VolSel → Bytes → List (VolSel × Nat) → CmdRes
    | [], out, free => .done true { out := out ++ (if sels.length > 1 then spaceSummary free else []) }
    | sel :: rest, out, free =>
      match env.mount sel with
      | .fail => .done false { out := out, err := true }
      | .threw => .threw { out := out, err := true }
      | .abort s => .abort { out := out } s
      | .ok _ v _ =>
        match spaceGaps (v.cat.frags.map (·.entries)) v.cat.totalSectors (dataSectorsReservedForCatalog v.cat.fmt) with
        | .outOfOrder => .threw { out := out, err := true }
        | .ok gaps =>
          let total := gaps.foldl (· + ·) 0 % 4294967296
          let free' :=
            if free.any (fun p => volKey p.1 == volKey sel) then free.map (fun p => if volKey p.1 == volKey sel then (p.1, total) else p)
            else free ++ [(sel, total)]
          go rest (out ++ spaceBlock sel gaps) free'
  go sels [] []

def cmdSpace (env : Env) (args : List Bytes) : CmdRes :=
  match args with
  | [] | [_] => spaceRun env [env.ctx.vol]
  | _ :: rest =>
    let parsed := rest.map (fun a => match parseVolume a with
      | some (v, e) => if e < a.length then none else some v
      | none => none)
    if parsed.any Option.isNone then failErr
    else spaceRun env (parsed.filterMap id)

/-! ### sector map, extract-unused -/

/-- the owner label of each sector: association list, first insertion wins for
    `insert`, overwrite for `[]=` -/
abbrev SecMap := List (Nat × Bytes)

def SecMap.at (m : SecMap) (s : Nat) : Option Bytes := (m.find? (fun p => p.1 == s)).map (·.2)
def SecMap.set (m : SecMap) (s : Nat) (l : Bytes) : SecMap := (s, l) :: m.filter (fun p => p.1 != s)
def SecMap.insert (m : SecMap) (s : Nat) (l : Bytes) : SecMap := if m.any (fun p => p.1 == s) then m else (s, l) :: m

def fileLabel (multi : Bool) (sub : Option Nat) (dir : Nat) (name : Bytes) : Bytes :=
  (if multi then [58, sub.getD 65, 46] else []) ++ (if dir != 0 then [dir, 46] else []) ++ name

/-- `Volume::map_sectors` -/
def volumeMapSectors (surface : Nat) (multi : Bool) (label : Option Nat) (v : Volume) (m : SecMap) : SecMap :=
  let catLabel : Bytes := match label with
    | some l => strBytes "*CAT:" ++ decU surface ++ [l]
    | none => strBytes "catalog"
  let m := (List.range v.cat.catalogSectors).foldl (fun m s => m.set ((s + v.catLoc) % 4294967296) catLabel) m
  (v.cat.entries.filter (fun e => e.fileLength != 0)).foldl (fun m e =>
    let b := (v.origin + e.startSector) % 4294967296
    let en := (v.origin + e.lastSector + 1) % 4294967296
    (List.range (en - b)).foldl (fun m k => m.insert (b + k) (fileLabel multi label e.directory e.nameStr)) m) m

/-- `FileSystem::get_sector_map` -/
def sectorMapOf (fs : FileSystem) (surface : Nat) : SecMap :=
  let multi := fs.vols.length > 1
  let m := fs.vols.foldl (fun m (p : Option Nat × Volume) => volumeMapSectors surface multi p.1 p.2 m) []
  if fs.fmt == Format.OpusDDOS then (m.set 16 (strBytes "disc-cat")).set 17 (strBytes "reserved") else m

def sectorMapRender (fs : FileSystem) (sm : SecMap) (sectors : Nat) : Bytes :=
  let maxCol := if fs.geom.sectors == 18 then 6 else if fs.geom.sectors == 16 then 4 else 5
  let hdr := strBytes "Sector:\n (dec): Name of file occupying each sector\n"
  let body := (List.range sectors).flatMap fun sec =>
    (if sec % maxCol == 0 then (if sec > 0 then [10] else []) ++ padLeft 6 48 (decU sec) ++ [58, 32] else []) ++
    padRight 12 32 ((sm.at sec).getD [45]) ++ [32]
  hdr ++ body ++ [10]

def cmdSectorMap (env : Env) (args : List Bytes) : CmdRes :=
  let go (surface : Nat) : CmdRes :=
    match env.mountFs surface with
    | .fail => failErr
    | .threw => .threw { err := true }
    | .abort s => .abort {} s
    | .ok fs _ _ =>
      match fs.discSectorCount with
      | .ok n => .done true { out := sectorMapRender fs (sectorMapOf fs surface) n }
      | _ => .threw { out := strBytes "Sector:\n (dec): Name of file occupying each sector\n", err := true }
  match args with
  | [] | [_] => if env.ctx.vol.subvol.isSome then failErr else go env.ctx.vol.surface
  | [_, a] =>
    match parseSurface a with
    | none => failErr
    | some (n, e) => if e != a.length then failErr else go n
  | _ => failErr

/-- `is_image_file`: the model compares path strings; the code asks the file system whether the two
    names are the same file (`std::filesystem::equivalent`), which also covers links and other spellings -/
def Env.isImageFile (env : Env) (path : Bytes) : Bool := env.images.contains path

def destDir (a : Bytes) : Bytes := if a.getLast? == some 47 then a else a ++ [47]

/-- maximal runs of unowned sectors below `last` : (first, end-exclusive) -/
def unusedSpans (sm : SecMap) (last : Nat) : List (Nat × Nat) :=
  let sm := sm.set last (strBytes ":::end")
  let (spans, _) := (List.range (last + 1)).foldl (fun (st : List (Nat × Nat) × Option Nat) sec =>
    match sm.at sec, st.2 with
    | some _, some b => (st.1 ++ [(b, sec)], none)
    | some _, none => (st.1, none)
    | none, none => (st.1, some sec)
    | none, some b => (st.1, some b)) ([], none)
  spans

def spanContent (m : Media) : Nat → Nat → List Bytes → Bytes × Bool
  | 0, _, acc => (acc.reverse.flatten, false)
  | k + 1, sec, acc =>
    match m sec with
    | none => (acc.reverse.flatten, true)
    | some s => spanContent m k (sec + 1) (s :: acc)

/-- the span loop of extract-unused: files written (in order), whether a short span was warned about,
    and whether the loop ran to completion (false: a file name is that of an image file) -/
def unusedLoop (env : Env) (dest : Bytes) (m : Media) : List (Nat × Nat) → List (Bytes × Bytes) → Bool → List (Bytes × Bytes) × Bool × Bool
  | [], files, warned => (files, warned, true)
  | (b, e) :: rest, files, warned =>
    let path := dest ++ strBytes "unused_" ++ padLeft 3 48 (hexU b) ++ strBytes ".bin"
    if env.isImageFile path then (files, warned, false)
    else
      let (content, w) := spanContent m (e - b) b []
      unusedLoop env dest m rest (files ++ [(path, content)]) (warned || w)

def cmdExtractUnused (env : Env) (args : List Bytes) : CmdRes :=
  if env.ctx.vol.subvol.isSome then failErr
  else match args with
  | [_, a] =>
    if a.isEmpty then failErr
    else
    let dest := destDir a
    let surface := env.ctx.vol.surface
    match env.mountFs surface with
    | .fail => failErr
    | .threw => .threw { err := true }
    | .abort s => .abort {} s
    | .ok fs m _ =>
      match fs.discSectorCount with
      | .ok last =>
        let spans := unusedSpans (sectorMapOf fs surface) last
        match unusedLoop env dest m spans [] false with
        | (files, warned, true) =>
          .done true { out := decU (spans.length % 65536) ++ strBytes " files were written to " ++ dest ++ [10],
                       err := warned, files := files }
        | (files, _, false) => .done false { err := true, files := files }     -- would overwrite an image file
      | _ => .threw { err := true }
  | _ => failErr

/-! ### extract-files -/

/-- `CRC16Base::update` for one byte -/
def crcByte (crc b : Nat) : Nat :=
  (List.range 8).foldl (fun c _ => crc_cycle c) (crc ^^^ (b <<< 8))

def crc16 (init : Nat) (data : Bytes) : Nat := data.foldl crcByte init

def infContent (e : Entry) (crc : Nat) : Bytes :=
  [e.directory, 46] ++ e.nameStr ++ [32] ++
  padLeft 6 48 (hexU (sign_extend e.loadAddress)) ++ [32] ++
  padLeft 6 48 (hexU (sign_extend e.execAddress)) ++ [32] ++
  padLeft 6 48 (hexU e.fileLength) ++ [32] ++
  (if e.isLocked then strBytes "Locked " else []) ++ strBytes "CRC=" ++ padLeft 4 48 (hexU crc) ++ [10]

/-- host file name of an extracted file (after the repair: '/' becomes '_') -/
def extractName (ctxDir : Nat) (e : Entry) : Bytes :=
  (if e.directory == ctxDir then rtrimB e.nameStr else [e.directory, 46] ++ rtrimB e.nameStr).map
    (fun c => if c == 47 then 95 else c)

def extractLoop (env : Env) (dest : Bytes) (ctxDir : Nat) (data : Media) : List Entry → List (Bytes × Bytes) → CmdRes
  | [], files => .done true { files := files }
  | e :: rest, files =>
    let path := dest ++ extractName ctxDir e
    if env.isImageFile path || env.isImageFile (path ++ strBytes ".inf") then
      .done false { err := true, files := files }      -- would overwrite an image file: refused
    else
    match bodyPieces e data with
    | none =>
      -- the body file has been created; the pieces read before the failure were written
      .threw { err := true, files := files ++
        [(path, (bodyPrefix data (e.lastSector + 1 - e.startSector) e.startSector e.fileLength []).flatten)] }
    | some pieces =>
      let body := pieces.flatten
      extractLoop env dest ctxDir data rest
        (files ++ [(path, body), (path ++ strBytes ".inf", infContent e (crc16 0 body))])

def cmdExtractFiles (env : Env) (args : List Bytes) : CmdRes :=
  match args with
  | [_, a] =>
    if a.isEmpty then failErr
    else
    match env.mount env.ctx.vol with
    | .fail => failErr
    | .threw => .threw { err := true }
    | .abort s => .abort {} s
    | .ok _ v m => extractLoop env (destDir a) env.ctx.dir (v.data m) v.cat.entries []
  | _ => failErr

/-! ### show-titles -/

def showTitle (env : Env) (surface : Nat) : Option Bool × Bytes × Option String :=
  match env.mountFs surface with
  | .fail => (some false, [], none)
  | .threw => (none, [], none)
  | .abort s => (none, [], some s)
  | .ok fs _ _ =>
    (some true, fs.vols.flatMap (fun (p : Option Nat × Volume) =>
      decU surface ++ (match p.1 with | some l => [l] | none => []) ++ strBytes ": " ++ p.2.cat.title ++ [10]), none)

def cmdShowTitles (env : Env) (args : List Bytes) : CmdRes :=
  let todo : Option (List Nat) :=
    match args with
    | [] | [_] => some ((sortBy (· < ·) (env.storage.drives.map (·.1))))
    | _ :: rest =>
      let ps := rest.map parseSurface
      if ps.any Option.isNone then none else some (ps.filterMap (fun p => p.map (·.1)))
  match todo with
  | none => failErr
  | some ds =>
    let rec go : List Nat → Bool → Bytes → CmdRes
      | [], ok, out => .done ok { out := out, err := !ok }     -- each failure is reported on stderr
      | d :: rest, ok, out =>
        match showTitle env d with
        | (some r, o, _) => go rest (ok && r) (out ++ o)
        | (none, _, some s) => .abort { out := out } s
        | (none, _, none) => .threw { out := out, err := true }
    go ds true []

end Beeb
