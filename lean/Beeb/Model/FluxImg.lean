/-
Executable model of dfs/img_hfe.cc and dfs/img_hxcmfm.cc: the HFE (v1, v3) and
HxC MFM containers, their per-side sector collections and the block devices
they present.
-/
import Beeb.Model.Flux

namespace Beeb.Flux
open Beeb Beeb.Gen

abbrev FileData := Array Nat

/-- `FileAccess::read(pos, len)`: short at end of file -/
def fread (f : FileData) (off len : Nat) : Bytes := (f.extract off (off + len)).toList

def leWord (b : Bytes) (i : Nat) : Nat := b.getD i 0 + 256 * b.getD (i + 1) 0
def leQuad (b : Bytes) (i : Nat) : Nat :=
  b.getD i 0 + 256 * b.getD (i + 1) 0 + 65536 * b.getD (i + 2) 0 + 16777216 * b.getD (i + 3) 0

/-- `reverse_bit_order` -/
def revBits (b : Nat) : Nat :=
  (if b &&& 0x80 != 0 then 0x01 else 0) + (if b &&& 0x40 != 0 then 0x02 else 0) +
  (if b &&& 0x20 != 0 then 0x04 else 0) + (if b &&& 0x10 != 0 then 0x08 else 0) +
  (if b &&& 0x08 != 0 then 0x10 else 0) + (if b &&& 0x04 != 0 then 0x20 else 0) +
  (if b &&& 0x02 != 0 then 0x40 else 0) + (if b &&& 0x01 != 0 then 0x80 else 0)

/-- one side of a flux image after decoding -/
structure FluxSide where
  geom : Geometry
  side : Nat
  sectors : List FSector
deriving Inhabited

/-- result of loading a flux container: `noise` = something was written to stderr
    regardless of --verbose -/
inductive FluxRes where
  | fail
  | ok (sides : List FluxSide) (noise : Bool)
deriving Inhabited

def findSector (secs : List FSector) (cyl head rec : Nat) : Option Sector :=
  (secs.find? fun s => s.cyl == cyl && s.head == head && s.record == rec).map (·.data)

/-! ### HFE -/

structure CopyState where
  gotBits : Nat := 0
  out : Nat := 0
  thisOp : Nat := 0
  skip : Nat := 0
deriving Inhabited, Repr

/-- the bit loop at the end of `copy_hfe` for one input byte -/
def emitBits (inb : Nat) : Nat → CopyState → Bytes → CopyState × Bytes
  | 0, st, acc => (st, acc)
  | k + 1, st, acc =>
    let bitnum := 7 - k
    if st.skip > 0 then emitBits inb k { st with skip := st.skip - 1 } acc
    else
      let bit := if inb &&& (1 <<< (7 - bitnum)) != 0 then 0x80 else 0
      let out := (st.out >>> 1) ||| bit
      if st.gotBits + 1 == 8 then emitBits inb k { st with out := 0, gotBits := 0 } (out :: acc)
      else emitBits inb k { st with out := out, gotBits := st.gotBits + 1 } acc

/-- `copy_hfe`: `acc` is the output so far, reversed; none = InvalidHfeFile thrown -/
def copyHfe (hfe3 : Bool) : Bytes → CopyState → Bytes → Bool → Option (CopyState × Bytes × Bool)
  | [], st, acc, noise => some (st, acc, noise)
  | inb :: rest, st, acc, noise =>
    if st.thisOp != 0 then
      if st.thisOp == 0xF0 || st.thisOp == 0xF1 then copyHfe hfe3 rest { st with thisOp := 0 } acc true
      else if st.thisOp == 0xF2 then copyHfe hfe3 rest { st with thisOp := 0 } acc noise
      else if st.thisOp == 0xF3 then
        if inb ≥ 8 then copyHfe hfe3 rest { st with thisOp := 0, skip := 0 } acc true
        else copyHfe hfe3 rest { st with thisOp := 0, skip := inb } acc noise
      else if st.thisOp == 0xF4 then
        let (st', acc') := emitBits 0 8 { st with thisOp := 0 } acc
        copyHfe hfe3 rest st' acc' noise
      else none
    else if hfe3 && (inb &&& 0xF0) == 0xF0 then
      if inb == 0xF0 || inb == 0xF1 then copyHfe hfe3 rest st acc noise
      else copyHfe hfe3 rest { st with thisOp := inb } acc noise
    else
      let (st', acc') := emitBits inb 8 st acc
      copyHfe hfe3 rest st' acc' noise

/-- the `while (begin_offset < track_bytes_read)` loop: this side's 256-byte blocks -/
def sideBlocks (hfe3 : Bool) (raw : Array Nat) : Nat → Nat → CopyState → Bytes → Bool → Option (CopyState × Bytes × Bool)
  | 0, _, st, acc, noise => some (st, acc, noise)
  | fuel + 1, off, st, acc, noise =>
    if off ≥ raw.size then some (st, acc, noise)
    else
      match copyHfe hfe3 (raw.extract off (min (off + 256) raw.size)).toList st acc noise with
      | none => none
      | some (st', acc', noise') => sideBlocks hfe3 raw fuel (off + 512) st' acc' noise'

structure HfeHeader where
  version : Nat
  tracks : Nat
  sides : Nat
  encoding : Nat
  t0s0alt : Nat
  t0s0enc : Nat
  t0s1alt : Nat
  t0s1enc : Nat
deriving Repr, Inhabited

def hfeEncodingOfTrack (h : HfeHeader) (side track : Nat) : Nat :=
  if track == 0 then
    if side == 0 then (if h.t0s0alt == 0 then h.t0s0enc else h.encoding)
    else (if h.t0s1alt == 0 then h.t0s1enc else h.encoding)
  else h.encoding

def picTrackLen (tl : Nat) : Nat := if tl &&& 0x1FF != 0 then (tl - (tl &&& 0x1FF)) + 0x200 else tl

/-- the first half of one iteration of `read_all_sectors`: the track's cell bytes for
    this side (is it FM?, the bytes `copy_hfe` produced, stderr noise), or none on throw -/
def hfeTrackStream (f : FileData) (h : HfeHeader) (lut : Bytes) (side track : Nat) : Option (Bool × Bytes × Bool) :=
  let enc := hfeEncodingOfTrack h side track
  if enc != 2 && enc != 0 then none
  else
    let off := leWord lut (4 * track)
    let len := picTrackLen (leWord lut (4 * track + 2))
    let raw := (f.extract (off * 512) (off * 512 + len)).map revBits
    match sideBlocks (h.version == 3) raw (raw.size / 512 + 2) (256 * side) {} [] false with
    | none => none
    | some (st, acc, noise) => some (enc == 2, acc.reverse, noise || st.thisOp != 0)

/-- the cells the decoder is given: FM is stored at twice the cell rate -/
def hfeBitStream (isFm : Bool) (stream : Bytes) : BitStream :=
  BitStream.ofBytes stream (if isFm then 1 else 0) (if isFm then 2 else 1)

/-- the sectors a decoder finds in a track's cells (unsorted) and stderr noise -/
def decodeTrack (isFm : Bool) (bits : BitStream) : List FSector × Bool :=
  if isFm then decodeFm bits else (decodeMfm bits, false)

/-- one track of `read_all_sectors`: sorted sectors and stderr noise, or none on throw -/
def hfeTrack (f : FileData) (h : HfeHeader) (lut : Bytes) (side track : Nat) : Option (List FSector × Bool) :=
  match hfeTrackStream f h lut side track with
  | none => none
  | some (isFm, stream, noise) =>
    let (secs, dropped) := decodeTrack isFm (hfeBitStream isFm stream)
    some (sortSectors secs, noise || dropped)

/-- the track loop of `read_all_sectors` -/
def hfeTracks (f : FileData) (h : HfeHeader) (lut : Bytes) (side : Nat) :
    Nat → Nat → Option Nat → List FSector → Bool → Option (List FSector × Nat × Bool)
  | 0, _, spt, acc, noise => some (acc, spt.getD 0, noise)
  | n + 1, track, spt, acc, noise =>
    match hfeTrack f h lut side track with
    | none => none
    | some (secs, nz) =>
      let sptOk := match spt with
        | none => true
        | some k => secs.length == k
      if !sptOk then none
      else if !checkTrack secs track side then none
      else hfeTracks f h lut side n (track + 1) (some (spt.getD secs.length)) (acc ++ secs) (noise || nz)

def hfeSides (f : FileData) (h : HfeHeader) (lut : Bytes) : Nat → Nat → List FluxSide → Bool → FluxRes
  | 0, _, acc, noise => .ok acc.reverse noise
  | n + 1, side, acc, noise =>
    match hfeTracks f h lut side h.tracks 0 none [] false with
    | none => .fail
    | some (secs, spt, nz) =>
      let enc : Option Encoding :=
        if h.encoding == 0 || h.encoding == 1 then some Encoding.MFM
        else if h.encoding == 2 || h.encoding == 3 then some Encoding.FM else none
      match enc with
      | none => .fail
      | some e =>
        let g : Geometry := { cylinders := h.tracks, heads := 1, sectors := spt, encoding := some e }
        hfeSides f h lut n (side + 1) ({ geom := g, side := side, sectors := secs } :: acc) (noise || nz)

/-- header validation of the `HfeFile` constructor -/
def hfeParseHeader (f : FileData) : Option HfeHeader :=
  let hd := fread f 0 512
  if hd.length < 512 then none
  else
    let sig := hd.take 8
    let version := if sig == strBytes "HXCPICFE" then 1 else if sig == strBytes "HXCHFEV3" then 3 else 0
    if version == 0 then none
    else
      let h : HfeHeader := { version := version, tracks := hd.getD 9 0, sides := hd.getD 10 0, encoding := hd.getD 11 0,
                             t0s0alt := hd.getD 22 0, t0s0enc := hd.getD 23 0, t0s1alt := hd.getD 24 0, t0s1enc := hd.getD 25 0 }
      if h.tracks == 0 then none
      else if h.sides > 2 then none
      else some h

def hfeLut (f : FileData) (h : HfeHeader) : Bytes := fread f 512 (h.tracks * 4)

/-- the `HfeFile` constructor -/
def loadHfe (f : FileData) : FluxRes :=
  match hfeParseHeader f with
  | none => .fail
  | some h =>
    let lut := hfeLut f h
    if lut.length != h.tracks * 4 then .fail
    else hfeSides f h lut h.sides 0 [] false

/-- `HfeFile::DataAccessAdapter::read_block` -/
def hfeReadBlock (s : FluxSide) (lba : Nat) : Option Sector :=
  if lba ≥ s.sectors.length then none
  else findSector s.sectors ((lba / s.geom.sectors) % 256) (s.side % 256) (lba % s.geom.sectors)

/-! ### HxC MFM -/

structure HxcEntry where
  track : Nat
  side : Nat
  size : Nat
  offset : Nat
deriving Repr, Inhabited

/-- `get_track_metadata`: entries in file order up to and including the one for the
    last track and side; none = the list runs off the end of the file -/
def hxcEntries (f : FileData) (tracks sides : Nat) : Nat → Nat → List HxcEntry → Option (List HxcEntry)
  | 0, _, _ => none
  | fuel + 1, pos, acc =>
    let raw := fread f pos 11
    if raw.length < 11 then none
    else
      let e : HxcEntry := { track := leWord raw 0, side := raw.getD 2 0, size := leQuad raw 3, offset := leQuad raw 7 }
      -- `header_.tracks-1` and `header_.sides-1` are computed in unsigned int
      let lastT := (tracks + 4294967295) % 4294967296
      let lastS := (sides + 4294967295) % 4294967296
      if e.track == lastT && e.side == lastS then some (e :: acc).reverse
      else hxcEntries f tracks sides fuel (pos + 11) (e :: acc)

def hxcKeyLess (a b : HxcEntry) : Bool := a.track < b.track || (a.track == b.track && a.side < b.side)

/-- `std::map` semantics: the first entry for a key wins; iteration in key order -/
def hxcMap (es : List HxcEntry) : List HxcEntry :=
  let dedup := es.foldl (fun acc e => if acc.any (fun x => x.track == e.track && x.side == e.side) then acc else acc ++ [e]) []
  sortBy hxcKeyLess dedup

/-- the cells of a stored HxC MFM track: most significant bit first -/
def hxcBitStream (tr : Bytes) : BitStream := BitStream.ofBytes (tr.map revBits) 0 1

def hxcSide (f : FileData) (side : Nat) : List HxcEntry → List FSector → Option (List FSector)
  | [], acc => some acc
  | e :: rest, acc =>
    if e.side != side then hxcSide f side rest acc
    else if e.size > 1024 * 1024 then none
    else
      let tr := fread f e.offset e.size
      if tr.length != e.size then none
      else
        let secs := sortSectors (decodeMfm (hxcBitStream tr))
        if !checkTrack secs e.track e.side then none
        else hxcSide f side rest (acc ++ secs)

/-- `compute_geometry` -/
def hxcGeometry (secs : List FSector) : Geometry :=
  { cylinders := (secs.map (·.cyl)).eraseDups.length, heads := 1,
    sectors := (secs.map (·.record)).eraseDups.length, encoding := some Encoding.MFM }

def hxcSides (f : FileData) (m : List HxcEntry) : Nat → Nat → List FluxSide → FluxRes
  | 0, _, acc => .ok acc.reverse false
  | n + 1, side, acc =>
    match hxcSide f side m [] with
    | none => .fail
    | some secs => hxcSides f m n (side + 1) ({ geom := hxcGeometry secs, side := side, sectors := secs } :: acc)

/-- `read_and_verify_header` and the support checks: (tracks, sides, track list offset) -/
def hxcParseHeader (f : FileData) : Option (Nat × Nat × Nat) :=
  let hd := fread f 0 19
  if hd.length < 19 then none
  else if hd.take 7 != strBytes "HXCMFM" ++ [0] then none
  else
    let tracks := leWord hd 7
    let sides := hd.getD 9 0
    let iface := hd.getD 14 0
    let tlo := leQuad hd 15
    if tlo < 0x13 then none
    else if sides > 2 then none
    else if iface != 4 then none
    else some (tracks, sides, tlo)

/-- the track list as `read_all_sectors` walks it -/
def hxcTrackList (f : FileData) : Option (List HxcEntry) :=
  match hxcParseHeader f with
  | none => none
  | some (tracks, sides, tlo) => (hxcEntries f tracks sides (f.size / 11 + 2) tlo []).map hxcMap

/-- the `HxcMfmFile` constructor -/
def loadHxc (f : FileData) : FluxRes :=
  match hxcParseHeader f, hxcTrackList f with
  | some (_, sides, _), some m => hxcSides f m sides 0 []
  | _, _ => .fail

/-- `HxcMfmFile::DataAccessAdapter::read_block` -/
def hxcReadBlock (s : FluxSide) (lba : Nat) : Option Sector :=
  if s.geom.sectors == 0 then none
  else if lba / s.geom.sectors > 255 then none
  else findSector s.sectors (lba / s.geom.sectors) (s.side % 256) (lba % s.geom.sectors)

/-- the block device of one side, as a whole-device view over a synthetic medium -/
def sideView (g : Geometry) (total : Nat) : View :=
  { skip := 0, take := total, leave := 0, total := total, geom := g, desc := "" }

end Beeb.Flux
