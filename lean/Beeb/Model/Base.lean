/-
Base definitions shared by the executable model: byte strings as `List Nat`,
iostream-style number formatting, padding.
-/
namespace Beeb

abbrev Bytes := List Nat

/-- view a byte list as a total index function (out of range reads give 0; every
    use in the model is guarded by an explicit length check) -/
def arr (l : Bytes) : Nat → Nat := fun i => l.getD i 0

def IsBytes (l : Bytes) : Prop := ∀ b ∈ l, b < 256

def strBytes (s : String) : Bytes := s.toList.map Char.toNat

/-- upper-case hex digit character code -/
def hexDigit (d : Nat) : Nat := if d < 10 then 48 + d else 55 + d

/-- `os << std::hex << std::uppercase << v` : minimal-length upper-case hex -/
def hexU (v : Nat) : Bytes :=
  if _h : v < 16 then [hexDigit v] else hexU (v / 16) ++ [hexDigit (v % 16)]
termination_by v
decreasing_by omega

/-- lower-case variant -/
def hexDigitL (d : Nat) : Nat := if d < 10 then 48 + d else 87 + d

/-- `os << std::dec << v` -/
def decU (v : Nat) : Bytes :=
  if _h : v < 10 then [48 + v] else decU (v / 10) ++ [48 + v % 10]
termination_by v
decreasing_by omega

/-- right-justify in a field of width `w` (std::right / setw) ; never truncates -/
def padLeft (w fill : Nat) (s : Bytes) : Bytes := List.replicate (w - s.length) fill ++ s

/-- left-justify (std::left / setw) -/
def padRight (w fill : Nat) (s : Bytes) : Bytes := s ++ List.replicate (w - s.length) fill

/-- exactly `k` hex digits of `v`, most significant first (`v mod 16^k`) -/
def hexFixed : Nat → Nat → Bytes
  | 0, _ => []
  | k + 1, v => hexFixed k (v / 16) ++ [hexDigit (v % 16)]

theorem hexFixed_length (k v : Nat) : (hexFixed k v).length = k := by
  induction k generalizing v with
  | zero => simp [hexFixed]
  | succ k ih => simp [hexFixed, ih]

theorem hexFixed_zero (k : Nat) : hexFixed k 0 = List.replicate k 48 := by
  induction k with
  | zero => simp [hexFixed]
  | succ k ih =>
    simp only [hexFixed, Nat.zero_div, Nat.zero_mod, ih]
    simp [hexDigit, List.replicate_succ']

theorem hexU_length_pos (v : Nat) : 0 < (hexU v).length := by
  rw [hexU]; split <;> simp

theorem hexU_length_le (k v : Nat) (hk : 0 < k) (hv : v < 16 ^ k) : (hexU v).length ≤ k := by
  induction k generalizing v with
  | zero => omega
  | succ k ih =>
    rw [hexU]
    split
    · simp
    · rename_i h
      have hk' : 0 < k := by
        rcases k with _ | k
        · simp at hv; omega
        · omega
      have : v / 16 < 16 ^ k := by
        rw [Nat.pow_succ] at hv
        exact Nat.div_lt_of_lt_mul (by rw [Nat.mul_comm]; exact hv)
      have := ih (v / 16) hk' this
      simp; omega

/-- `setw(k) << setfill('0') << hex << v` prints exactly the `k`-digit form when `v < 16^k` -/
theorem padLeft_hexU (k v : Nat) (hk : 0 < k) (hv : v < 16 ^ k) :
    padLeft k 48 (hexU v) = hexFixed k v := by
  induction k generalizing v with
  | zero => omega
  | succ k ih =>
    by_cases h : v < 16
    · rw [hexU, dif_pos h]
      have h1 : v / 16 = 0 := Nat.div_eq_of_lt h
      have h2 : v % 16 = v := Nat.mod_eq_of_lt h
      simp [padLeft, hexFixed, h1, h2, hexFixed_zero]
    · rw [hexU, dif_neg h]
      have hk' : 0 < k := by
        rcases k with _ | k
        · simp at hv; omega
        · omega
      have hlt : v / 16 < 16 ^ k := by
        rw [Nat.pow_succ] at hv
        exact Nat.div_lt_of_lt_mul (by rw [Nat.mul_comm]; exact hv)
      have := ih (v / 16) hk' hlt
      simp only [hexFixed, ← this, padLeft, List.length_append, List.length_singleton]
      have : k + 1 - ((hexU (v / 16)).length + 1) = k - (hexU (v / 16)).length := by omega
      rw [this, List.append_assoc]

end Beeb

namespace Beeb

theorem arr_lt (l : Bytes) (h : ∀ b ∈ l, b < 256) (i : Nat) : arr l i < 256 := by
  unfold arr
  rw [List.getD_eq_getElem?_getD]
  cases hi : l[i]? with
  | none => simp
  | some b =>
    simp only [Option.getD_some]
    exact h b (List.mem_of_getElem? hi)

end Beeb
