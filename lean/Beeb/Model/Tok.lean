/- Entries of the BBC BASIC token maps (basic/tokens.c). -/
import Beeb.Model.Base

namespace Beeb

inductive Tok where
  | null                    -- NULL pointer (a bug in the table)
  | invalid                 -- "__invalid__": not assigned in this dialect
  | lineNum                 -- 0x8D
  | fastvar                 -- Windows/SDL crunched variables
  | ext                     -- 0xC6/0xC7/0xC8 introduce a two-byte token
  | pdp                     -- PDP11's 0xC8
  | str (s : Bytes)         -- the keyword / character printed
deriving Repr, DecidableEq, Inhabited

end Beeb
