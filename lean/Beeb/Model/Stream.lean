/-
Model of output streams for C11: a device that accepts only the first `cap`
bytes, a buffered stream with a sticky failure flag (std::ostream badbit /
C stdio error indicator), and the flush-and-test that both `main`s perform
before returning (dfs after the repair; bbcbasic_to_text as written).
-/
import Beeb.Model.Base

namespace Beeb.Stream

/-- the operating-system side: how many bytes have been accepted so far -/
structure Device where
  cap : Nat
  accepted : Nat := 0
deriving Repr

/-- a buffered output stream -/
structure OStream where
  dev : Device
  buf : Bytes := []          -- bytes not yet handed to the device
  bad : Bool := false        -- sticky failure flag
  bufSize : Nat := 4096
deriving Repr

/-- hand the buffer to the device; a short or refused write sets the flag -/
def OStream.flush (s : OStream) : OStream :=
  if s.bad then s
  else
    let room := s.dev.cap - s.dev.accepted
    if s.buf.length ≤ room then
      { s with dev := { s.dev with accepted := s.dev.accepted + s.buf.length }, buf := [] }
    else
      { s with dev := { s.dev with accepted := s.dev.cap }, buf := [], bad := true }

/-- insert bytes; once the flag is set inserts are no-ops; a full buffer is flushed -/
def OStream.write (s : OStream) (b : Bytes) : OStream :=
  if s.bad then s
  else
    let s' := { s with buf := s.buf ++ b }
    if s'.buf.length ≥ s'.bufSize then s'.flush else s'

/-- a command may itself flush (std::endl, explicit flush) between writes -/
inductive Act | write (b : Bytes) | flush

def act (s : OStream) : Act → OStream
  | .write b => s.write b
  | .flush => s.flush

structure Exit where
  status : Nat
  diagnostic : Bool
deriving Repr, DecidableEq

/-- `main`: run the command's output actions, then flush, test the stream and
    turn a failure into a diagnostic and a non-zero status -/
def mainWith (cap bufSize : Nat) (acts : List Act) (cmdStatus : Nat) (cmdDiag : Bool) : Exit × Nat :=
  let s0 : OStream := { dev := { cap := cap }, bufSize := bufSize }
  let s := (acts.foldl act s0).flush
  if s.bad then ({ status := if cmdStatus = 0 then 1 else cmdStatus, diagnostic := true }, s.dev.accepted)
  else ({ status := cmdStatus, diagnostic := cmdDiag }, s.dev.accepted)

def totalBytes (acts : List Act) : Nat :=
  acts.foldl (fun n a => match a with | .write b => n + b.length | .flush => n) 0

end Beeb.Stream
