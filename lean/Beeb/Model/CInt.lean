/-
C integer semantics helpers used by the generated leaf definitions
(`Beeb/Generated/Leaf.lean`).  A C integer of width `w` is represented by the
natural number in `[0, 2^w)` holding its two's-complement bit pattern.
-/
namespace C

/-- signed value of a `w`-bit pattern -/
def toInt (w : Nat) (x : Nat) : Int :=
  if x < 2 ^ (w - 1) then (x : Int) else (x : Int) - (2 ^ w : Nat)

/-- `w`-bit pattern of an integer -/
def ofInt (w : Nat) (i : Int) : Nat := (i % ((2 ^ w : Nat) : Int)).toNat

/-- sign extension of a `w1`-bit pattern to `w2 ≥ w1` bits -/
def sext (w1 w2 : Nat) (x : Nat) : Nat :=
  if x < 2 ^ (w1 - 1) then x else x + 2 ^ w2 - 2 ^ w1

/-- arithmetic shift right of a signed `w`-bit value -/
def asr (w : Nat) (x s : Nat) : Nat :=
  if x < 2 ^ (w - 1) then x >>> s else ofInt w (toInt w x / ((2 ^ s : Nat) : Int))

/-- signed division truncating toward zero -/
def sdiv (w : Nat) (a b : Nat) : Nat := ofInt w (Int.tdiv (toInt w a) (toInt w b))

def srem (w : Nat) (a b : Nat) : Nat := ofInt w (Int.tmod (toInt w a) (toInt w b))

def slt (w : Nat) (a b : Nat) : Bool := decide (toInt w a < toInt w b)

def sle (w : Nat) (a b : Nat) : Bool := decide (toInt w a ≤ toInt w b)

/-- `ldiv` on 64-bit longs: (quot, rem) -/
def ldiv (a b : Nat) : Nat × Nat := (sdiv 64 a b, srem 64 a b)

theorem sext_of_lt {w1 w2 x : Nat} (h : x < 2 ^ (w1 - 1)) : sext w1 w2 x = x := by
  simp [sext, h]

theorem asr_of_lt {w x s : Nat} (h : x < 2 ^ (w - 1)) : asr w x s = x >>> s := by
  simp [asr, h]

theorem toInt_of_lt {w x : Nat} (h : x < 2 ^ (w - 1)) : toInt w x = (x : Int) := by
  simp [toInt, h]

theorem slt_of_lt {w a b : Nat} (ha : a < 2 ^ (w - 1)) (hb : b < 2 ^ (w - 1)) :
    slt w a b = decide (a < b) := by
  simp [slt, toInt_of_lt ha, toInt_of_lt hb]

theorem sle_of_lt {w a b : Nat} (ha : a < 2 ^ (w - 1)) (hb : b < 2 ^ (w - 1)) :
    sle w a b = decide (a ≤ b) := by
  simp [sle, toInt_of_lt ha, toInt_of_lt hb]

end C

namespace C
/-- `safe_unsigned_multiply`: the product; the C++ throws std::range_error when it
    does not fit in `w` bits (never the case for the sector arithmetic it is used for,
    whose operands are below 2^32). -/
def umul (w : Nat) (a b : Nat) : Nat := (a * b) % 2 ^ w

theorem umul_of_lt {w a b : Nat} (h : a * b < 2 ^ w) : umul w a b = a * b := Nat.mod_eq_of_lt h
end C
