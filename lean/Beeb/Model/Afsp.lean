/-
Executable model of dfs/afsp.cc (wildcards), dfs/fsp.cc (file names) and of the
POSIX ERE subset that afsp.cc can generate (regularexpression.h / glibc).
Strings are `Bytes` (character codes).
-/
import Beeb.Model.Base

namespace Beeb

/-! ### numbers and volume selectors (driveselector.cc) -/

def isDigit (c : Nat) : Bool := 48 ≤ c && c ≤ 57
def isSpaceC (c : Nat) : Bool := c == 32 || (9 ≤ c && c ≤ 13)
def isUpperAH (c : Nat) : Bool := 65 ≤ c && c ≤ 72

inductive StolErr | invalid | range
deriving Repr, DecidableEq

/-- `std::stol(s, &end, 10)`: value and index of the first unconsumed character -/
def stol (s : Bytes) : Except StolErr (Int × Nat) :=
  let ws := (s.takeWhile isSpaceC).length
  let r := s.drop ws
  let (neg, sl) := match r with
    | 45 :: _ => (true, 1)
    | 43 :: _ => (false, 1)
    | _ => (false, 0)
  let ds := (r.drop sl).takeWhile isDigit
  if ds.isEmpty then .error .invalid
  else
    let v : Nat := ds.foldl (fun a d => a * 10 + (d - 48)) 0
    let lim : Nat := if neg then 9223372036854775808 else 9223372036854775807
    if v > lim then .error .range
    else .ok ((if neg then -(v : Int) else (v : Int)), ws + sl + ds.length)

structure VolSel where
  surface : Nat
  subvol : Option Nat
deriving Repr, DecidableEq, Inhabited

/-- `SurfaceSelector::parse` -/
def parseSurface (s : Bytes) : Option (Nat × Nat) :=
  match stol s with
  | .error _ => none
  | .ok (v, e) => if v < 0 then none else if v > 4294967295 then none else some (v.toNat, e)

/-- `VolumeSelector::parse`; `s[*end]` at `end == size` reads the terminating NUL -/
def parseVolume (s : Bytes) : Option (VolSel × Nat) :=
  match parseSurface s with
  | none => none
  | some (n, e) =>
    let c := s.getD e 0
    if isUpperAH c then some ({ surface := n, subvol := some c }, e + 1)
    else some ({ surface := n, subvol := none }, e)

def VolSel.toStr (v : VolSel) : Bytes := decU v.surface ++ (match v.subvol with | some c => [c] | none => [])

/-! ### ERE subset -/

inductive Atom where
  | lit (c : Nat)
  | set (neg : Bool) (cs : Bytes)
deriving Repr, DecidableEq

structure Item where
  atom : Atom
  star : Bool
deriving Repr, DecidableEq

def Atom.accepts (a : Atom) (c : Nat) : Bool :=
  match a with
  | .lit x => c == x
  | .set neg cs => if neg then !(cs.contains c) else cs.contains c

/-- parse the body of a bracket expression after `[` by the POSIX rules the
    generated patterns can exercise: optional leading `^`, a `]` directly after
    the opening (or after `^`) is literal, the expression ends at the next `]`;
    `a-b` ranges are expanded.  Returns (atom, rest) or none if unterminated. -/
def parseBracket (s : Bytes) : Option (Atom × Bytes) :=
  let (neg, s1) := match s with
    | 94 :: r => (true, r)
    | _ => (false, s)
  let (first, s2) := match s1 with
    | 93 :: r => ([93], r)
    | _ => ([], s1)
  let body := s2.takeWhile (· != 93)
  let rest := s2.drop body.length
  match rest with
  | 93 :: r =>
    let rec expand (fuel : Nat) (b : Bytes) (acc : Bytes) : Bytes :=
      match fuel with
      | 0 => acc
      | fuel + 1 =>
        match b with
        | a :: 45 :: z :: t => expand fuel t (acc ++ (List.range (z + 1 - a)).map (· + a))
        | a :: t => expand fuel t (acc ++ [a])
        | [] => acc
    some (.set neg (first ++ expand (body.length + 1) body []), r)
  | _ => none

/-- parse `^ item* $` -/
def parseEre (p : Bytes) : Option (List Item) :=
  match p with
  | 94 :: body =>
    let rec go (fuel : Nat) (s : Bytes) (acc : List Item) : Option (List Item) :=
      match fuel with
      | 0 => none
      | fuel + 1 =>
        match s with
        | [36] => some acc.reverse
        | 91 :: r =>
          match parseBracket r with
          | none => none
          | some (a, 42 :: r') => go fuel r' ({ atom := a, star := true } :: acc)
          | some (a, r') => go fuel r' ({ atom := a, star := false } :: acc)
        | 92 :: c :: 42 :: r => go fuel r ({ atom := .lit c, star := true } :: acc)
        | 92 :: c :: r => go fuel r ({ atom := .lit c, star := false } :: acc)
        | c :: 42 :: r => go fuel r ({ atom := .lit c, star := true } :: acc)
        | c :: r => if c == 36 || c == 42 then none else go fuel r ({ atom := .lit c, star := false } :: acc)
        | [] => none
    go (body.length + 1) body []
  | _ => none

/-- anchored match of an item list against a whole string (backtracking) -/
def matchItems : List Item → Bytes → Bool
  | [], s => s.isEmpty
  | it :: rest, s =>
    if it.star then
      -- try every prefix length of accepted characters
      let n := (s.takeWhile it.atom.accepts).length
      (List.range (n + 1)).any (fun k => matchItems rest (s.drop k))
    else
      match s with
      | c :: t => it.atom.accepts c && matchItems rest t
      | [] => false

/-! ### the two canonicalisation patterns of afsp.cc -/

/-- split off an optional `:[0-9]+[A-H]?[.]` prefix -/
def splitDrive (s : Bytes) : Option (Bytes × Bytes) :=
  match s with
  | 58 :: r =>
    let ds := r.takeWhile isDigit
    if ds.isEmpty then none
    else
      let r2 := r.drop ds.length
      match r2 with
      | 46 :: r3 => some (58 :: ds ++ [46], r3)
      | c :: 46 :: r3 => if isUpperAH c then some (58 :: ds ++ [c, 46], r3) else none
      | _ => none
  | _ => none

/-- `^(drive)?(D[.])?(NAME)$` where D and the characters of NAME satisfy `okc`.
    Returns the three groups (empty list = group did not participate). -/
def splitSpec (okc : Nat → Bool) (s : Bytes) : Option (Bytes × Bytes × Bytes) :=
  let tryRest (drive rest : Bytes) : Option (Bytes × Bytes × Bytes) :=
    let plain := !rest.isEmpty && rest.all okc
    match rest with
    | d :: 46 :: nm =>
      if okc d && !nm.isEmpty && nm.all okc then some (drive, [d, 46], nm)
      else if plain then some (drive, [], rest) else none
    | _ => if plain then some (drive, [], rest) else none
  match splitDrive s with
  | some (dr, rest) =>
    match tryRest dr rest with
    | some r => some r
    | none => tryRest [] s
  | none => tryRest [] s

def rtrimB (s : Bytes) : Bytes := (s.reverse.dropWhile (· == 32)).reverse

def drivePrefix (v : VolSel) : Bytes := [58] ++ v.toStr ++ [46]

/-- `transform_string_with_regex` for the two fixed patterns -/
def canonicalise (okc : Nat → Bool) (vol : VolSel) (dir : Nat) (input : Bytes) : Option Bytes :=
  match splitSpec okc input with
  | none => none
  | some (dr, d, nm) =>
    let drive := if dr.isEmpty then drivePrefix vol else dr
    let directory := if d.isEmpty then [dir, 46] else d
    some (drive ++ directory ++ nm)

def okQualify (c : Nat) : Bool := c != 46 && c != 58 && c != 35 && c != 42
def okWild (c : Nat) : Bool := c != 46

/-- `DFS::internal::qualify` -/
def qualify (vol : VolSel) (dir : Nat) (name : Bytes) : Option Bytes :=
  canonicalise okQualify vol dir (rtrimB name)

/-- `DFS::internal::extend_wildcard` -/
def extendWildcard (vol : VolSel) (dir : Nat) (wild : Bytes) : Option Bytes :=
  canonicalise okWild vol dir wild

def toUpperC (c : Nat) : Nat := if 97 ≤ c && c ≤ 122 then c - 32 else c
def toLowerC (c : Nat) : Nat := if 65 ≤ c && c ≤ 90 then c + 32 else c

/-- the character → ERE fragment switch of `convert_wildcard_into_extended_regex` -/
def ereFragment (w : Nat) : Bytes :=
  if w == 58 then [58]
  else if w == 94 then [92, 94]                 -- `\^` (after the repair)
  else if w == 35 then [91, 94, 46, 93]
  else if w == 42 then [91, 94, 46, 93, 42]
  else if toUpperC w != toLowerC w then [91, toUpperC w, toLowerC w, 93]
  else [91, w, 93]

/-- `convert_wildcard_into_extended_regex`: (volume, ERE text) -/
def wildcardToEre (vol : VolSel) (dir : Nat) (wild : Bytes) : Option (VolSel × Bytes) :=
  match extendWildcard vol dir wild with
  | none => none
  | some full =>
    if !(isDigit (full.getD 1 0)) then none
    else
      match parseVolume (full.drop 1) with
      | none => none
      | some (v, e) =>
        if full.getD (e + 1) 0 != 46 then none
        else some (v, [94] ++ full.flatMap ereFragment ++ [36])

structure Matcher where
  vol : VolSel
  items : List Item
deriving Repr

/-- `AFSPMatcher::make_unique` (none = "Not a valid pattern") -/
def Matcher.make (ctxVol : VolSel) (ctxDir : Nat) (wild : Bytes) : Option Matcher :=
  match wildcardToEre ctxVol ctxDir wild with
  | none => none
  | some (v, ere) =>
    match parseEre ere with
    | none => none
    | some items => some { vol := v, items := items }

/-- `AFSPMatcher::matches` -/
def Matcher.accepts (m : Matcher) (vol : VolSel) (dir : Nat) (name : Bytes) : Bool :=
  match qualify vol dir name with
  | none => false
  | some full => matchItems m.items (full.takeWhile (· != 0))   -- regexec sees a C string

/-! ### fsp.cc -/

structure ParsedName where
  vol : VolSel
  dir : Nat
  name : Bytes
deriving Repr, DecidableEq

/-- `parse_filename` -/
def parseFilename (ctxVol : VolSel) (ctxDir : Nat) (fsp : Bytes) : Option ParsedName :=
  let withName (vol : VolSel) (name : Bytes) : ParsedName :=
    if name.length > 2 && name.getD 1 0 == 46 then { vol := vol, dir := name.getD 0 0, name := name.drop 2 }
    else { vol := vol, dir := ctxDir, name := name }
  if fsp.getD 0 0 == 58 then
    match parseVolume (fsp.drop 1) with
    | none => none
    | some (v, e) =>
      if fsp.getD (e + 1) 0 != 46 then none
      else some (withName v (fsp.drop (e + 2)))
  else some (withName ctxVol fsp)

/-- `case_insensitive_less` -/
def ciLess : Bytes → Bytes → Bool
  | _, [] => false
  | [], _ :: _ => true
  | a :: as, b :: bs =>
    if toLowerC a == toLowerC b then ciLess as bs else toLowerC a < toLowerC b

def ciEqual (a b : Bytes) : Bool := !ciLess a b && !ciLess b a

end Beeb
