/-
Executable model of dfs/track.h (BitStream), dfs/track_fm.cc, dfs/track_mfm.cc
and dfs/track.cc (address decoding, check_track_is_supported): decoding a
track's bit cells into sectors.  Mirrors the C++ control flow after the
repairs (bounded distance between an ID field and its data record).
-/
import Beeb.Model.Cmd

namespace Beeb.Flux
open Beeb Beeb.Gen

/-- a decoded sector; `idPos`/`dataPos` are ghost fields (cell positions just after
    the ID mark / data mark were found) used only to state provenance theorems -/
structure FSector where
  cyl : Nat
  head : Nat
  record : Nat
  data : Bytes
  crc1 : Nat
  crc2 : Nat
  idPos : Nat := 0
  dataPos : Nat := 0
deriving Repr, Inhabited

/-- `BitStream`: `bits` are the cooked cells `scan_for` can reach, `size` is `BitStream::size()`
    (for stride 2 / first bit 1 the scan reaches one cell more than `size`) -/
structure BitStream where
  bits : Array Bool
  size : Nat
deriving Inhabited

def rawBit (data : Array Nat) (j : Nat) : Bool := (data.getD (j / 8) 0 >>> (j % 8)) % 2 == 1

/-- `BitStream(data, first_bit, stride)` -/
def BitStream.ofBytes (data : Bytes) (first stride : Nat) : BitStream :=
  let arr := data.toArray
  let raw := 8 * arr.size
  let scanLen := if stride == 0 then 0 else if raw ≤ first then 0 else (raw - first + stride - 1) / stride
  { bits := (Array.range scanLen).map (fun k => rawBit arr (k * stride + first)),
    size := if stride == 0 then 0 else (raw - first) / stride }

def BitStream.get (s : BitStream) (i : Nat) : Bool := s.bits.getD i false

/-- `scan_for(start, val, mask)` for a `width`-bit mask: the first cell index `i ≥ start`
    such that at least `width` cells have been shifted in since `start` and the last
    64 cells (as a number, oldest first) agree with `val` under `mask`; returns the
    index and the shift register -/
def scanLoop (s : BitStream) (val mask : Nat) (width : Nat) : Nat → Nat → Nat → Nat → Option (Nat × Nat)
  | 0, _, _, _ => none
  | fuel + 1, i, shifter, got =>
    if i ≥ s.bits.size then none
    else
      let shifter := ((shifter * 2) % 18446744073709551616) + (if s.get i then 1 else 0)
      let got := got + 1
      if got ≥ width && (shifter &&& mask) == (val &&& mask) then some (i, shifter)
      else scanLoop s val mask width fuel (i + 1) shifter got

def scanFor (s : BitStream) (start val mask width : Nat) : Option (Nat × Nat) :=
  scanLoop s val mask width (s.bits.size + 1 - start) start 0 0

/-- CRC-16/CCITT as crc16.cc computes it (initial value 0xFFFF) -/
def ccitt (data : Bytes) : Nat := crc16 0xFFFF data

/-- `decode_sector_address_and_size`: size in bytes from the size code, or none -/
def sizeOfCode (c : Nat) : Option Nat :=
  if c == 0 then some 128 else if c == 1 then some 256 else if c == 2 then some 512 else if c == 3 then some 1024 else none

/-! ### FM -/

/-- `read_byte` (track_fm.cc): (clock, data, new position) -/
def fmReadByte (s : BitStream) (start : Nat) : Option (Nat × Nat × Nat) :=
  let rec go (k : Nat) (pos clock data : Nat) : Option (Nat × Nat × Nat) :=
    match k with
    | 0 => some (clock, data, pos)
    | k + 1 =>
      if pos + 2 ≥ s.size then none
      else go k (pos + 2) (clock * 2 + (if s.get pos then 1 else 0)) (data * 2 + (if s.get (pos + 1) then 1 else 0))
  go 8 start 0 0

/-- position after a failed `read_byte`: the C++ advances `start` two cells per pair read -/
def fmReadByteFailPos (s : BitStream) (start : Nat) : Nat :=
  let rec go (k : Nat) (pos : Nat) : Nat :=
    match k with
    | 0 => pos
    | k + 1 => if pos + 2 ≥ s.size then pos else go k (pos + 2)
  go 8 start

/-- `copy_fm_bytes`: n bytes with normal clock; returns (ok, bytes, position) -/
def fmCopyBytes (s : BitStream) : Nat → Nat → Bytes → Bool × Bytes × Nat
  | 0, pos, acc => (true, acc.reverse, pos)
  | n + 1, pos, acc =>
    match fmReadByte s pos with
    | none => (false, acc.reverse, fmReadByteFailPos s pos)
    | some (clock, data, pos') =>
      if clock == 0xFF then fmCopyBytes s n pos' (data :: acc) else (false, acc.reverse, pos')

/-- `find_record_address_mark`: (mark value, position after it) -/
def fmFindRecordMark (s : BitStream) : Nat → Nat → Option (Nat × Nat)
  | 0, _ => none
  | fuel + 1, thisbit =>
    if thisbit ≥ s.size then none
    else
      match scanFor s thisbit 0xAAAAAAAAF56A 0xFFFFFFFFFFFA 48 with
      | none => none
      | some (i, sh) =>
        let low := sh % 65536
        if low == 0xF56A || low == 0xF56F then some (low, i + 1)
        else fmFindRecordMark s fuel (i + 1)

inductive FmState | address | record (cyl head rec size idPos : Nat)

/-- `decode_fm_track` -/
def fmLoop (s : BitStream) : Nat → Nat → FmState → List FSector → Bool → List FSector × Bool
  | 0, _, _, acc, dr => (acc.reverse, dr)
  | fuel + 1, thisbit, st, acc, dr =>
    if thisbit ≥ s.size then (acc.reverse, dr)
    else
      match st with
      | .address =>
        match scanFor s thisbit 0xAAAAAAAAF57E 0xFFFFFFFFFFFF 48 with
        | none => (acc.reverse, dr)
        | some (i, _) =>
          let pos := i + 1
          let (ok, bytes, pos') := fmCopyBytes s 6 pos []
          if !ok then fmLoop s fuel pos' .address acc dr
          else
            let id := 0xFE :: bytes
            if ccitt id != 0 then fmLoop s fuel pos' .address acc dr
            else
              match sizeOfCode (id.getD 4 0) with
              | none => fmLoop s fuel pos' .address acc dr
              | some sz => fmLoop s fuel pos' (.record (id.getD 1 0) (id.getD 2 0) (id.getD 3 0) sz pos) acc dr
      | .record cyl head rec sz idPos =>
        match fmFindRecordMark s (s.bits.size + 1) thisbit with
        | none => (acc.reverse, dr)
        | some (mark, pos) =>
          if pos - thisbit > 64 * 16 then fmLoop s fuel thisbit .address acc dr
          else
            let discard := mark == 0xF56A
            let (ok, bytes, pos') := fmCopyBytes s (sz + 2) pos []
            if !ok then fmLoop s fuel pos' .address acc dr
            else
              let dm := if discard then 0xF8 else 0xFB
              if ccitt (dm :: bytes) != 0 && !discard then fmLoop s fuel pos' .address acc dr
              else if discard then fmLoop s fuel pos' .address acc true
              else
                let sec : FSector := { cyl := cyl, head := head, record := rec, data := bytes.take sz,
                                       crc1 := bytes.getD sz 0, crc2 := bytes.getD (sz + 1) 0, idPos := idPos, dataPos := pos }
                fmLoop s fuel pos' .address (sec :: acc) dr

/-- sectors, and whether a control record was dropped (reported on stderr) -/
def decodeFm (s : BitStream) : List FSector × Bool := fmLoop s (2 * s.bits.size + 4) 0 .address [] false

/-! ### MFM -/

/-- `read_byte` (track_mfm.cc): data byte and new position, or none on end of track
    / clock violation (with the position reached) -/
def mfmReadByte (s : BitStream) (start : Nat) : Option Nat × Nat :=
  let rec go (k : Nat) (pos : Nat) (prev : Bool) (data : Nat) : Option Nat × Nat :=
    match k with
    | 0 => (some data, pos)
    | k + 1 =>
      if pos + 2 ≥ s.size then (none, pos)
      else
        let c := s.get pos
        let d := s.get (pos + 1)
        let expected := !(prev || d)
        if c != expected then (none, pos + 2)
        else go k (pos + 2) d (data * 2 + (if d then 1 else 0))
  go 8 start (s.get (start - 1)) 0

def mfmCopyBytes (s : BitStream) : Nat → Nat → Bytes → Bool × Bytes × Nat
  | 0, pos, acc => (true, acc.reverse, pos)
  | n + 1, pos, acc =>
    match mfmReadByte s pos with
    | (none, pos') => (false, acc.reverse, pos')
    | (some d, pos') => mfmCopyBytes s n pos' (d :: acc)

inductive MfmState | header | record (cyl head rec size idPos headerEnd : Nat)

/-- `decode_mfm_track` -/
def mfmLoop (s : BitStream) : Nat → Nat → MfmState → List FSector → List FSector
  | 0, _, _, acc => acc.reverse
  | fuel + 1, thisbit, st, acc =>
    if s.size == 0 then acc.reverse
    else
      match scanFor s thisbit 0xAAAA448944894489 0xFFFFFFFFFFFFFFFF 64 with
      | none => acc.reverse
      | some (i, _) =>
        let pos := i + 1
        let st := match st with
          | .record _ _ _ _ _ hend => if pos - hend > 80 * 16 then MfmState.header else st
          | .header => st
        match st with
        | .header =>
          let (ok, hdr, pos') := mfmCopyBytes s 7 pos []
          if ok && ccitt ([0xA1, 0xA1, 0xA1] ++ hdr) == 0 && hdr.getD 0 0 == 0xFE then
            match sizeOfCode (hdr.getD 4 0) with
            | some sz => mfmLoop s fuel pos' (.record (hdr.getD 1 0) (hdr.getD 2 0) (hdr.getD 3 0) sz pos pos') acc
            | none => mfmLoop s fuel pos' .header acc
          else mfmLoop s fuel pos' .header acc
        | .record cyl head rec sz idPos _ =>
          let (ok, md, pos') := mfmCopyBytes s (sz + 3) pos []
          if ok && ccitt ([0xA1, 0xA1, 0xA1] ++ md) == 0 then
            if md.getD 0 0 == 0xFB then
              let sec : FSector := { cyl := cyl, head := head, record := rec, data := (md.drop 1).take sz,
                                     crc1 := md.getD (sz + 1) 0, crc2 := md.getD (sz + 2) 0, idPos := idPos, dataPos := pos }
              mfmLoop s fuel pos' .header (sec :: acc)
            else mfmLoop s fuel pos' .header acc
          else mfmLoop s fuel pos' .header acc

def decodeMfm (s : BitStream) : List FSector := mfmLoop s (s.bits.size + 2) 0 .header []

/-! ### track checks -/

def addrLess (a b : FSector) : Bool :=
  a.cyl < b.cyl || (a.cyl == b.cyl && (a.head < b.head || (a.head == b.head && a.record < b.record)))

def sortSectors (l : List FSector) : List FSector := sortBy addrLess l

/-- `check_track_is_supported` on sectors sorted by address (true = supported) -/
def checkTrack (secs : List FSector) (track side : Nat) : Bool :=
  let rec go : List FSector → Option Nat → Bool
    | [], _ => true
    | x :: rest, prev =>
      if x.head != side then false
      else if x.cyl != track then false
      else
        let okOrder := match prev with
          | some p => !(p == x.record) && !(p + 1 < x.record)
          | none => true
        if !okOrder then false
        else if x.data.length != 256 then false
        else go rest (some x.record)
  go secs none

end Beeb.Flux
