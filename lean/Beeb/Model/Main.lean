/-
Executable model of dfs/main.cc and dfs/img_load.cc: option parsing
(getopt_long with optstring "+"), image loading and attachment, command
dispatch, exit status.
-/
import Beeb.Model.Cmd
import Beeb.Model.FluxImg
import Std.Data.HashMap

namespace Beeb

/-- what the host file system holds under a path, as far as dfs can tell:
    `gunzip` (zlib) is a parameter of the model — for a `.gz` name the entry
    carries the inflated bytes of the first member, or `bad` -/
inductive HostFile where
  | missing
  | raw (content : Array Sector) (size : Nat) (tail : Bytes := [])   -- whole sectors, byte size, trailing partial sector
  | sparse (sectors : Nat) (tbl : Std.HashMap Nat Sector)   -- mostly-zero file (large MMB images)
  | gzBad
deriving Inhabited

abbrev HostFs := Bytes → HostFile

structure RunRes where
  out : Bytes := []
  err : Bool := false
  cfg : Bytes := []               -- text of --show-config (stderr)
  exit : Nat := 0
  files : List (Bytes × Bytes) := []
  crash : Option String := none    -- abort / undefined behaviour site
  unmodelled : Option String := none
deriving Repr, Inhabited

inductive LongOpt | file | dir | drive | driveFirst | drivePhysical | showConfig | help | ui | verbose
deriving Repr, DecidableEq

def longOpts : List (String × LongOpt × Bool) :=
  [("file", .file, true), ("dir", .dir, true), ("drive", .drive, true),
   ("drive-first", .driveFirst, false), ("drive-physical", .drivePhysical, false),
   ("show-config", .showConfig, false), ("help", .help, false), ("ui", .ui, true),
   ("verbose", .verbose, false)]

inductive Opt where
  | opt (o : LongOpt) (arg : Bytes)
  | bad                      -- '?'
deriving Repr

def isPrefixB (p s : Bytes) : Bool := p.length ≤ s.length && s.take p.length == p

/-- resolve a long option name: exact match first, else unique prefix -/
def resolveLong (name : Bytes) : Option (LongOpt × Bool) :=
  match longOpts.find? (fun o => strBytes o.1 == name) with
  | some o => some o.2
  | none =>
    match longOpts.filter (fun o => isPrefixB name (strBytes o.1)) with
    | [o] => some o.2
    | _ => none

/-- getopt_long(argc, argv, "+", …): the options seen, in order, and the
    remaining arguments -/
def getopt : Nat → List Bytes → List Opt → (List Opt × List Bytes)
  | 0, rest, acc => (acc.reverse, rest)
  | fuel + 1, args, acc =>
    match args with
    | [] => (acc.reverse, [])
    | a :: rest =>
      if a == [45, 45] then (acc.reverse, rest)
      else if a.length > 2 && a.take 2 == [45, 45] then
        let body := a.drop 2
        let name := body.takeWhile (· != 61)
        let hasEq := name.length < body.length
        let val := body.drop (name.length + 1)
        match resolveLong name with
        | none => ((Opt.bad :: acc).reverse, rest)
        | some (o, needsArg) =>
          if needsArg then
            if hasEq then getopt fuel rest (.opt o val :: acc)
            else match rest with
              | v :: rest' => getopt fuel rest' (.opt o v :: acc)
              | [] => ((Opt.bad :: acc).reverse, [])
          else if hasEq then ((Opt.bad :: acc).reverse, rest)
          else getopt fuel rest (.opt o [] :: acc)
      else if a.length ≥ 2 && a.getD 0 0 == 45 then ((Opt.bad :: acc).reverse, rest)
      else (acc.reverse, args)

def splitOn (c : Nat) (s : Bytes) : List Bytes :=
  let rec go (fuel : Nat) (s : Bytes) (cur : Bytes) (acc : List Bytes) : List Bytes :=
    match fuel with
    | 0 => (cur.reverse :: acc).reverse
    | fuel + 1 =>
      match s with
      | [] => (cur.reverse :: acc).reverse
      | x :: t => if x == c then go fuel t [] (cur.reverse :: acc) else go fuel t (x :: cur) acc
  go (s.length + 1) s [] []

inductive Loader | nonInterleaved | interleaved | mmb | hfe | hxcmfm
deriving Repr, DecidableEq

/-- the extension logic of `make_image_file`: (compressed, loader) or none = error -/
def loaderOf (name : Bytes) : Option (Bool × Loader) :=
  let exts := (splitOn 46 name).drop 1
  match exts.getLast? with
  | none => none
  | some last =>
    let (compressed, exts) := if last == strBytes "gz" then (true, exts.dropLast) else (false, exts)
    match exts.getLast? with
    | none => none
    | some ext =>
      if ext == strBytes "hfe" then some (compressed, .hfe)
      else if ext == strBytes "mfm" then some (compressed, .hxcmfm)
      else if ext == strBytes "ssd" || ext == strBytes "sdd" then some (compressed, .nonInterleaved)
      else if ext == strBytes "dsd" || ext == strBytes "ddd" then some (compressed, .interleaved)
      else if ext == strBytes "mmb" then some (compressed, .mmb)
      else none

def bytesToString (b : Bytes) : String := String.ofList (b.map Char.ofNat)

inductive Attach where
  | fail                       -- diagnostic + exit 1
  | abort (site : String)
  | unmodelled (what : String)
  | ok (views : List View) (warned : Bool := false)
  | flux (sides : List (View × Media)) (noise : Bool)   -- each side is its own block device

/-- the views an image file presents (NonInterleavedFile / InterleavedFile / MmbFile ctors) -/
def fluxAttach (r : Flux.FluxRes) (rb : Flux.FluxSide → Nat → Option Sector) (total : Flux.FluxSide → Nat) : Attach :=
  match r with
  | .fail => .fail
  | .ok sides noise => .flux (sides.map fun s => (Flux.sideView s.geom (total s), rb s)) noise

/-- all bytes of a host file -/
def HostFile.flat : HostFile → Flux.FileData
  | .raw secs _ tail => (secs.foldl (fun acc s => acc ++ s.toArray) #[]) ++ tail.toArray
  | .sparse n tbl => (List.range n).foldl (fun acc i => acc ++ (tbl.getD i (List.replicate 256 0)).toArray) #[]
  | _ => #[]

def imageViews (name : Bytes) (hf : HostFile) (m : Media) (ld : Loader) (ndebug : Bool) : Attach :=
  match ld with
  | .nonInterleaved =>
    match identifyImage m (bytesToString name) ndebug with
    | .abort s => .abort s
    | .err _ => .fail
    | .ok none => .fail
    | .ok (some ff) => .ok (viewsNonInterleaved ff.geom) false
  | .interleaved =>
    match identifyImage m (bytesToString name) ndebug with
    | .abort s => .abort s
    | .err _ => .fail
    | .ok none => .fail
    | .ok (some ff) => .ok (viewsInterleaved ff.geom) false
  | .mmb =>
    -- 32 index sectors, 16 entries each, entry 0 of sector 0 is the header
    let rec secs (k : Nat) (sec : Nat) (acc : List View) (warn : Bool) : Option (List View × Bool) :=
      match k with
      | 0 => some (acc, warn)
      | k + 1 =>
        match m sec with
        | none => none
        | some s =>
          let sts := (List.range 16).filterMap fun i =>
            if sec == 0 && i == 0 then none else some (sec * 16 + i - 1, sget s (i * 16 + 15))
          let vs := sts.map fun (slot, st) => mmbView slot st
          -- an unknown status byte is reported on stderr ("MMB entry … has unexpected type")
          let w := sts.any fun (_, st) => !(st == 0x00 || st == 0x0F || st == 0xF0 || st == 0xFF)
          secs k (sec + 1) (acc ++ vs) (warn || w)
    match secs 32 0 [] false with
    | none => .fail        -- BadFileSystem("MMB file is too short") reaches main's handler
    | some (vs, w) => .ok vs w
  | .hfe => fluxAttach (Flux.loadHfe hf.flat) Flux.hfeReadBlock (fun s => s.sectors.length)
  | .hxcmfm => fluxAttach (Flux.loadHxc hf.flat) Flux.hxcReadBlock (fun s => 256 * s.geom.sectors)

structure MainState where
  storage : Storage := Storage.empty
  medias : List Media := []
  ctx : Ctx := { dir := 36, vol := { surface := 0, subvol := none }, ui := 0 }
  policy : Policy := .physical
  showConfig : Bool := false
  verbose : Bool := false
  images : List Bytes := []       -- names given with --file, in order
deriving Inhabited

def geometryDescription (g : Geometry) : Bytes :=
  (match g.encoding with
   | some .MFM => strBytes "double density, "
   | some .FM => strBytes "single density, "
   | none => []) ++
  decU g.heads ++ strBytes (if g.heads == 1 then " side, " else " sides, ") ++
  decU g.cylinders ++ strBytes (if g.cylinders == 1 then " track, " else " tracks, ") ++
  decU g.sectors ++ strBytes (if g.sectors == 1 then " sector" else " sectors") ++ strBytes " per track"

/-- `show_drive_configuration`, without the per-file description text -/
def showConfigLines (s : Storage) : List (Nat × Option Geometry × Bool) :=
  let last := max s.maxDrive 3
  (List.range (last + 1)).map fun d =>
    match s.lookup d with
    | none => (d, none, false)
    | some cfg => (d, some cfg.view.geom, true)

def uiOfName (n : Bytes) : Option Nat :=
  if n == strBytes "Acorn" || n == strBytes "acorn" then some 1
  else if n == strBytes "watford" || n == strBytes "Watford" then some 2
  else if n == strBytes "Opus" || n == strBytes "opus" then some 3
  else none

def runCommand (env : Env) (args : List Bytes) : Option CmdRes :=
  match args with
  | [] => none
  | c :: _ =>
    if c == strBytes "info" then some (cmdInfo env args)
    else if c == strBytes "cat" then some (cmdCat env args)
    else if c == strBytes "type" then some (cmdType env args)
    else if c == strBytes "list" then some (cmdList env args)
    else if c == strBytes "dump" then some (cmdDump env args)
    else if c == strBytes "dump-sector" then some (cmdDumpSector env args)
    else if c == strBytes "free" then some (cmdFree env args)
    else if c == strBytes "space" then some (cmdSpace env args)
    else if c == strBytes "sector-map" then some (cmdSectorMap env args)
    else if c == strBytes "extract-files" then some (cmdExtractFiles env args)
    else if c == strBytes "extract-unused" then some (cmdExtractUnused env args)
    else if c == strBytes "show-titles" then some (cmdShowTitles env args)
    else none

def knownUnmodelledCommand (c : Bytes) : Bool := c == strBytes "help"

/-- one `--file` option: load, identify and attach the image -/
def attachFile (fs : HostFs) (ndebug : Bool) (arg : Bytes) (st : MainState) : Except RunRes MainState :=
  match loaderOf arg with
  | none => .error { err := true, exit := 1 }
  | some (_, ld) =>
    match fs arg with
    | .missing => .error { err := true, exit := 1 }
    | .gzBad => .error { err := true, exit := 1 }
    | hf =>
      let m : Media := match hf with
        | .raw secs _ _ => mediaOfArray secs
        | .sparse n tbl => fun lba => if lba < n then some (tbl.getD lba (List.replicate 256 0)) else none
        | _ => fun _ => none
      match imageViews arg hf m ld ndebug with
      | .fail => .error { err := true, exit := 1 }
      | .abort s => .error { err := true, exit := 134, crash := some s }
      | .unmodelled w => .error { unmodelled := some w }
      | .ok views warned =>
        let idx := st.medias.length
        -- ViewFile::connect_drives: identify the file system of each formatted view
        let rec cfgs : List View → Except RunRes (List DriveCfg)
          | [] => .ok []
          | v :: vs =>
            let fmtR : Res (Option Format) :=
              if v.isFormatted then identifyFileSystem (v.readBlock m) v.geom false ndebug else .ok none
            match fmtR with
            | .abort s => .error { err := true, exit := 134, crash := some s }
            | .err _ => .error { err := true, exit := 1 }
            | .ok f =>
              match cfgs vs with
              | .ok r => .ok ({ file := idx, view := v, fmt := f } :: r)
              | .error e => .error e
        match cfgs views with
        | .error e => .error e
        | .ok ds =>
          match st.storage.connect ds st.policy with
          | none => .error { err := true, exit := 1 }
          | some s' => .ok { st with storage := s', medias := st.medias ++ [m], verbose := st.verbose || warned, images := st.images ++ [arg] }
      | .flux sides noise =>
        -- HfeFile/HxcMfmFile::connect_drives: every side is probed
        let idx := st.medias.length
        let rec fcfgs : Nat → List (View × Media) → Except RunRes (List DriveCfg)
          | _, [] => .ok []
          | k, (v, sm) :: vs =>
            match identifyFileSystem (v.readBlock sm) v.geom false ndebug with
            | .abort s => .error { err := true, exit := 134, crash := some s }
            | .err _ => .error { err := true, exit := 1 }
            | .ok f =>
              match fcfgs (k + 1) vs with
              | .ok r => .ok ({ file := idx + k, view := v, fmt := f } :: r)
              | .error e => .error e
        match fcfgs 0 sides with
        | .error e => .error e
        | .ok ds =>
          match st.storage.connect ds st.policy with
          | none => .error { err := true, exit := 1 }
          | some s' => .ok { st with storage := s', medias := st.medias ++ sides.map (·.2), verbose := st.verbose || noise, images := st.images ++ [arg] }

/-- the option loop of `main` -/
def optLoop (fs : HostFs) (ndebug : Bool) : List Opt → MainState → Except RunRes MainState
  | [], st => .ok st
  | .bad :: _, _ => .error { err := true, exit := 1 }
  | .opt o arg :: more, st =>
    match o with
    | .file =>
      match attachFile fs ndebug arg st with
      | .error r => .error r
      | .ok st' => optLoop fs ndebug more st'
    | .dir =>
      if arg.length != 1 then .error { err := true, exit := 1 }
      else optLoop fs ndebug more { st with ctx := { st.ctx with dir := arg.getD 0 0 } }
    | .drive =>
      match parseVolume arg with
      | none => .error { err := true, exit := 1 }
      | some (v, e) =>
        if e < arg.length then .error { err := true, exit := 1 }
        else optLoop fs ndebug more { st with ctx := { st.ctx with vol := v } }
    | .driveFirst => optLoop fs ndebug more { st with policy := .first }
    | .drivePhysical => optLoop fs ndebug more { st with policy := .physical }
    | .showConfig => optLoop fs ndebug more { st with showConfig := true }
    | .ui =>
      match uiOfName arg with
      | none => .error { err := true, exit := 1 }
      | some u => optLoop fs ndebug more { st with ctx := { st.ctx with ui := u } }
    | .verbose => optLoop fs ndebug more { st with verbose := true }
    | .help => .error { unmodelled := some "help" }

/-- everything after option parsing: options already split by getopt -/
def dfsRun (fs : HostFs) (ndebug : Bool) (screenCols : Option Nat) (opts : List Opt) (rest : List Bytes) : RunRes :=
  match optLoop fs ndebug opts default with
  | .error r => r
  | .ok st =>
    match rest with
    | [] => { err := true, exit := 1 }
    | cmd :: _ =>
      if knownUnmodelledCommand cmd then { unmodelled := some "help" }
      else
        let env : Env := { storage := st.storage, media := fun i => st.medias.getD i (fun _ => none),
                           ctx := st.ctx, ndebug := ndebug, screenCols := screenCols, images := st.images }
        match runCommand env rest with
        | none => { err := true, exit := 1 }
        | some r =>
          let cfgSeen := st.showConfig
          match r with
          | .done ok o => { out := o.out, err := o.err || st.verbose || cfgSeen, exit := if ok then 0 else 1, files := o.files }
          | .threw o => { out := o.out, err := true, exit := 1, files := o.files }
          | .abort o s => { out := o.out, err := true, exit := 134, files := o.files, crash := some s }

/-- `main` -/
def dfsMain (fs : HostFs) (ndebug : Bool) (screenCols : Option Nat) (argv : List Bytes) : RunRes :=
  let (opts, rest) := getopt (argv.length + 1) argv []
  dfsRun fs ndebug screenCols opts rest

end Beeb
