/-
Executable model of dfs/dfs_catalog.{h,cc}: catalogue entries, their printed
form (`operator<<(ostream&, CatalogEntry)`), catalogue fragments, validity,
lookup, and the sector walk of `visit_file_body_piecewise`.
The integer leaves come from `Beeb.Gen` (regenerated from the C++ each run).
-/
import Beeb.Model.Base
import Beeb.Generated.Leaf

namespace Beeb
open Beeb.Gen

/-- `CatalogEntry`: 8 raw name bytes and 8 raw metadata bytes -/
structure Entry where
  name : Bytes
  md : Bytes
deriving Repr, DecidableEq, Inhabited

namespace Entry

def n (e : Entry) : Nat → Nat := arr e.name
def m (e : Entry) : Nat → Nat := arr e.md

/-- `CatalogEntry::name()` : up to 7 characters, 7-bit, stops at space or NUL -/
def nameOf (nm : Nat → Nat) : Bytes :=
  ((List.range 7).map (fun i => byte_to_ascii7 (nm i))).takeWhile (fun c => c != 32 && c != 0)

def nameStr (e : Entry) : Bytes := nameOf e.n
def directory (e : Entry) : Nat := Gen.directory e.n
def isLocked (e : Entry) : Bool := Gen.is_locked e.n
def loadAddress (e : Entry) : Nat := Gen.load_address e.m
def execAddress (e : Entry) : Nat := Gen.exec_address e.m
def fileLength (e : Entry) : Nat := Gen.file_length e.m
def startSector (e : Entry) : Nat := Gen.start_sector e.m
def lastSector (e : Entry) : Nat := Gen.last_sector e.m

/-- `CatalogEntry::full_name()` -/
def fullName (e : Entry) : Bytes := [e.directory, 46] ++ e.nameStr

end Entry

/-- `operator<<(ostream&, const CatalogEntry&)` as a function of the raw arrays -/
def infoLineOf (nm mt : Nat → Nat) : Bytes :=
  [Gen.directory nm, 46] ++ padRight 8 32 (Entry.nameOf nm) ++ [32]
    ++ padRight 3 32 (if Gen.is_locked nm then [76] else [])
    ++ padLeft 6 48 (hexU (sign_extend (load_address mt))) ++ [32]
    ++ padLeft 6 48 (hexU (sign_extend (exec_address mt))) ++ [32]
    ++ padLeft 6 48 (hexU (file_length mt)) ++ [32]
    ++ padLeft 3 48 (hexU (start_sector mt))

def Entry.infoLine (e : Entry) : Bytes := infoLineOf e.n e.m

end Beeb
