/-
Executable model of dfs/storage.cc and dfs/driveselector.cc: drive numbers,
the two allocation policies, selection and mounting.
-/
import Beeb.Model.Disc

namespace Beeb
open Beeb.Gen

inductive Policy | physical | first
deriving Repr, DecidableEq, Inhabited

/-- what is attached to a drive number: the image file it came from (index in
    the order of `--file` options), the view within it, the identified format -/
structure DriveCfg where
  file : Nat
  view : View
  fmt : Option Format
deriving Repr, Inhabited

/-- `StorageConfiguration`: association list drive number ↦ configuration, in
    order of attachment -/
structure Storage where
  drives : List (Nat × DriveCfg)
deriving Repr, Inhabited

def Storage.empty : Storage := { drives := [] }

def Storage.occupied (s : Storage) (n : Nat) : Bool := s.drives.any (fun p => p.1 == n)

def Storage.lookup (s : Storage) (n : Nat) : Option DriveCfg := (s.drives.find? (fun p => p.1 == n)).map (·.2)

def Storage.maxDrive (s : Storage) : Nat := s.drives.foldl (fun m p => max m p.1) 0

/-- the `while` loop of `check_sequence_fits` -/
def seqFree (occ : Nat → Bool) : Nat → Nat → Bool
  | 0, _ => true
  | k + 1, i => if occ i then false else seqFree occ k (i + 2)

/-- `check_sequence_fits` (the 2^32 limit of `unsigned` drive numbers is not modelled) -/
def checkSequenceFits (occ : Nat → Bool) (i toDo : Nat) : Bool :=
  if occ i then false
  else if occ (opposite_surface i) then false
  else seqFree occ toDo i

/-- search for the lowest `n ≥ from` at which the sequence fits -/
def findFit (occ : Nat → Bool) (toDo : Nat) : Nat → Nat → Option Nat
  | 0, _ => none
  | fuel + 1, n => if checkSequenceFits occ n toDo then some n else findFit occ toDo fuel (n + 1)

def connectAt (s : Storage) (n : Nat) : List DriveCfg → Storage
  | [] => s
  | d :: ds => connectAt { drives := s.drives ++ [(n, d)] } (n + 2) ds

/-- lowest free number ≥ n -/
def nextFree (occ : Nat → Bool) : Nat → Nat → Nat
  | 0, n => n
  | fuel + 1, n => if occ n then nextFree occ fuel (n + 1) else n

def connectFirst (s : Storage) (n : Nat) : List DriveCfg → Storage
  | [] => s
  | d :: ds =>
    let k := nextFree s.occupied (s.maxDrive + 2) n
    connectFirst { drives := s.drives ++ [(k, d)] } k ds

/-- `StorageConfiguration::connect_drives` -/
def Storage.connect (s : Storage) (ds : List DriveCfg) (how : Policy) : Option Storage :=
  match how with
  | .physical =>
    match findFit s.occupied ds.length (s.maxDrive + 6) 0 with
    | some n => some (connectAt s n ds)
    | none => none
  | .first => some (connectFirst s 0 ds)

/-- `select_drive` result -/
inductive Sel | noDisc | unformatted | ok (d : DriveCfg)

/-- Every `ViewFile`-attached drive has a cache object even when the view is an
    unformatted device, so `select_drive` itself succeeds for those -/
def Storage.select (s : Storage) (n : Nat) : Option DriveCfg := s.lookup n

end Beeb
