/-
Executable model of the sector-level code of dfs:
  img_fileio.cc (FileView), img_sdf.cc (FilePresentedBlockwise, the two view
  constructors), img_mmb.cc, dfs_catalog.cc (CatalogFragment, Catalog),
  dfs_volume.{h,cc}, opus_cat.cc, identify.cc, geometry.cc, dfs_filesystem.cc.
Control flow mirrors the C++ (including its quirks); integer leaves come from
`Beeb.Gen`.
-/
import Beeb.Model.Catalog

namespace Beeb
open Beeb.Gen

abbrev Sector := Bytes

/-- `DataAccess::read_block` -/
abbrev Media := Nat → Option Sector

inductive Encoding | FM | MFM
deriving Repr, DecidableEq, Inhabited

inductive Format | HDFS | DFS | WDFS | OpusDDOS
deriving Repr, DecidableEq, Inhabited

structure Geometry where
  cylinders : Nat
  heads : Nat
  sectors : Nat
  encoding : Option Encoding
deriving Repr, DecidableEq, Inhabited

def Geometry.totalSectors (g : Geometry) : Nat :=
  geometry_total_sectors g.cylinders g.heads g.sectors

/-- result of a step that may throw: `err` is a C++ exception derived from
    std::exception (reported by main, exit 1); `abort` is a crash (failed
    assert, exception thrown by pointer, undefined behaviour) -/
inductive Res (α : Type) where
  | ok (a : α)
  | err (msg : String)
  | abort (site : String)
deriving Repr, Inhabited

namespace Res
def bind {α β} (r : Res α) (f : α → Res β) : Res β :=
  match r with
  | ok a => f a
  | err m => err m
  | abort s => abort s
instance : Monad Res where
  pure := ok
  bind := bind
end Res

/-! ### FilePresentedBlockwise -/

/-- the sector file: sector `i` is bytes `[256 i, 256 i + 256)` when the file
    has them all (a short read gives `none`) -/
def sectorsOfBytes (file : Bytes) : Media := fun lba =>
  if (lba + 1) * 256 ≤ file.length then some ((file.drop (lba * 256)).take 256) else none

/-- same, from a pre-chunked array (used by the driver for speed) -/
def mediaOfArray (secs : Array Sector) : Media := fun lba => secs[lba]?

def chunk256Aux : Nat → Bytes → Array Sector → Array Sector
  | 0, _, acc => acc
  | fuel + 1, b, acc =>
    if b.length < 256 then acc else chunk256Aux fuel (b.drop 256) (acc.push (b.take 256))

def chunk256 (b : Bytes) : Array Sector := chunk256Aux (b.length / 256 + 1) b #[]

/-! ### FileView -/

structure View where
  skip : Nat
  take : Nat
  leave : Nat
  total : Nat
  geom : Geometry
  desc : String
deriving Repr, Inhabited

/-- `FileView::read_block` -/
def View.readBlock (v : View) (under : Media) (sector : Nat) : Option Sector :=
  if fileview_unformatted v.take then none
  else if fileview_beyond v.total sector then none
  else under (fileview_pos v.skip v.take v.leave sector)

def View.isFormatted (v : View) : Bool := v.take != 0

def View.unformatted (g : Geometry) (desc : String) : View :=
  { skip := 0, take := 0, leave := 1, total := 1, geom := g, desc := desc }

/-! ### Catalogue fragments -/

def sget (s : Sector) (i : Nat) : Nat := s.getD i 0

/-- `convert_title` -/
def convertTitle (s0 s1 : Sector) : Bytes :=
  let a := (s0.take 8).takeWhile (· != 0)
  let t :=
    if a.length < 8 then a
    else a ++ (s1.take 4).takeWhile (· != 0)
  let t7 := t.map byte_to_ascii7
  -- rtrim: drop trailing spaces
  (t7.reverse.dropWhile (· == 32)).reverse

structure Fragment where
  fmt : Format
  title : Bytes
  seq : Nat
  lastPos : Nat
  boot : Nat
  total : Nat
  entries : List Entry
deriving Repr, Inhabited

def entryAt (s0 s1 : Sector) (pos : Nat) : Entry :=
  { name := (s0.drop pos).take 8, md := (s1.drop pos).take 8 }

/-- `CatalogFragment::CatalogFragment` -/
def Fragment.ofSectors (fmt : Format) (s0 s1 : Sector) : Fragment :=
  let lastPos := sget s1 5
  let total0 := sget s1 7 ||| ((sget s1 6 &&& 3) <<< 8)
  let total := if fmt == Format.HDFS && (sget s0 0 &&& 128) != 0 then total0 ||| 512 else total0
  { fmt := fmt
    title := convertTitle s0 s1
    seq := sget s1 4
    lastPos := lastPos
    boot := (sget s1 6 >>> 4) &&& 3
    total := total
    entries := (List.range (lastPos / 8)).map (fun k => entryAt s0 s1 (8 * (k + 1))) }

def catalogSectorsFor (f : Format) : Nat := if f == Format.WDFS then 4 else 2
def dataSectorsReservedForCatalog (f : Format) : Nat := if f == Format.OpusDDOS then 0 else catalogSectorsFor f

/-- the overlap/extent loop of `CatalogFragment::valid`; `lastStart` is the
    optional start sector of the previous non-empty entry -/
def validLoop (total : Nat) : List Entry → Option Nat → Bool
  | [], _ => true
  | e :: rest, lastStart =>
    if e.fileLength == 0 then validLoop total rest lastStart
    else
      match lastStart with
      | some ls =>
        if e.lastSector ≥ total then false
        else if e.lastSector ≥ ls then false
        else validLoop total rest (some e.startSector)
      | none => validLoop total rest (some e.startSector)

/-- `CatalogFragment::valid` (true = valid) -/
def Fragment.valid (f : Fragment) : Bool :=
  if f.lastPos % 8 != 0 then false
  else if f.lastPos > 31 * 8 then false
  else if dataSectorsReservedForCatalog f.fmt == catalogSectorsFor f.fmt then
    if f.total ≤ catalogSectorsFor f.fmt then false else validLoop f.total f.entries none
  else if f.fmt == Format.OpusDDOS then
    if f.total < 18 then false else validLoop f.total f.entries none
  else false

structure Catalog where
  fmt : Format
  frags : List Fragment
deriving Repr, Inhabited

/-- `Catalog::Catalog`: an unreadable catalogue sector throws BadFileSystem
    (by value, after the repair; it used to be thrown by pointer, which no handler catches) -/
def Catalog.read (fmt : Format) (loc : Nat) (m : Media) : Res Catalog :=
  let nfrag := if fmt == Format.WDFS then 2 else 1
  let rec go (k : Nat) (i : Nat) (acc : List Fragment) : Res (List Fragment) :=
    match k with
    | 0 => .ok acc.reverse
    | k + 1 =>
      match m (loc + 2 * i), m (loc + 2 * i + 1) with
      | some s0, some s1 => go k (i + 1) (Fragment.ofSectors fmt s0 s1 :: acc)
      | _, _ => .err "BadFileSystem: the catalogue sectors cannot be read"
  match go nfrag 0 [] with
  | .ok fr => .ok { fmt := fmt, frags := fr }
  | .err e => .err e
  | .abort s => .abort s

def Catalog.valid (c : Catalog) : Bool := c.frags.all Fragment.valid
def Catalog.primary (c : Catalog) : Fragment := c.frags.headD default
def Catalog.title (c : Catalog) : Bytes := c.primary.title
def Catalog.totalSectors (c : Catalog) : Nat := c.primary.total
def Catalog.boot (c : Catalog) : Nat := c.primary.boot
def Catalog.seqNo (c : Catalog) : Option Nat := if c.fmt == Format.HDFS then none else some c.primary.seq
def Catalog.maxFileCount (c : Catalog) : Nat := if c.fmt == Format.WDFS then 62 else 31
def Catalog.entries (c : Catalog) : List Entry := c.frags.flatMap (·.entries)
def Catalog.catalogSectors (c : Catalog) : Nat := catalogSectorsFor c.fmt

/-! ### Volumes -/

structure Volume where
  catLoc : Nat
  origin : Nat
  len : Nat
  cat : Catalog
deriving Repr, Inhabited

/-- `Volume::Access::read_block` -/
def volumeAccess (origin len : Nat) (under : Media) : Media := fun lba =>
  if volume_access_beyond len lba then none else under (origin + lba)

def Volume.data (v : Volume) (under : Media) : Media := volumeAccess v.origin v.len under

def Volume.make (fmt : Format) (catLoc origin len : Nat) (m : Media) : Res Volume := do
  let c ← Catalog.read fmt catLoc m
  pure { catLoc := catLoc, origin := origin, len := len, cat := c }

structure VolLoc where
  catLoc : Nat
  start : Nat
  len : Nat
  label : Nat      -- character code 'A'..'H'
deriving Repr, Inhabited

/-- insertion sort by start sector (`std::sort` with `operator<`; ties only arise
    for equal start tracks, which give equal keys — order among them is then
    unspecified in the C++ too) -/
def insertLoc (x : VolLoc) : List VolLoc → List VolLoc
  | [] => [x]
  | y :: ys => if x.start < y.start then x :: y :: ys else y :: insertLoc x ys

def sortLocs (l : List VolLoc) : List VolLoc := l.foldl (fun acc x => insertLoc x acc) []

/-- the loop over the volume table of sector 16 in `OpusDiscCatalogue` -/
def opusTableLoop (s16 : Sector) (spt : Nat) (geomCyl : Option Nat) :
    Nat → Nat → Nat → List VolLoc → Res (List VolLoc)
  | 0, _, _, acc => .ok acc.reverse
  | fuel + 1, i, offset, acc =>
    let track := sget s16 offset
    if track == 0 then opusTableLoop s16 spt geomCyl fuel (i + 1) (offset + 2) acc
    else
      match geomCyl with
      | some c =>
        if track ≥ c then .err "Opus DDOS volume has starting track beyond the disc"
        else
          let start := track * spt
          opusTableLoop s16 spt geomCyl fuel (i + 1) (offset + 2) ({ catLoc := i * 2, start := start, len := 0, label := 65 + i } :: acc)
      | none =>
        let start := track * spt
        opusTableLoop s16 spt geomCyl fuel (i + 1) (offset + 2) ({ catLoc := i * 2, start := start, len := 0, label := 65 + i } :: acc)

/-- assign lengths from the end of the disc backwards -/
def opusAssignLens : List VolLoc → Nat → Res (List VolLoc)
  | [], _ => .ok []
  | v :: rest, next =>
    if next < v.start then .err "Opus DDOS volume has starting sector beyond the disc"
    else
      match opusAssignLens rest v.start with
      | .ok r => .ok ({ v with len := next - v.start } :: r)
      | .err e => .err e
      | .abort s => .abort s

/-- `OpusDiscCatalogue::OpusDiscCatalogue`; result sorted by start sector -/
def opusLocations (s16 : Sector) (geom : Option Geometry) : Res (List VolLoc) :=
  let totalDisc := (sget s16 1 <<< 8) ||| sget s16 2
  let spt := sget s16 3
  let chk : Res Unit :=
    match geom with
    | some g =>
      if totalDisc != g.totalSectors then .err "inconsistent total sector count in Opus DDOS disc catalogue"
      else if spt != g.sectors then .err "inconsistent sectors-per-track in Opus DDOS disc catalogue"
      else .ok ()
    | none => .ok ()
  match chk with
  | .err e => .err e
  | .abort s => .abort s
  | .ok () =>
    match opusTableLoop s16 spt (geom.map (·.cylinders)) 8 0 8 [] with
    | .err e => .err e
    | .abort s => .abort s
    | .ok locs =>
      let sorted := sortLocs locs
      match opusAssignLens sorted.reverse totalDisc with
      | .ok r => .ok r.reverse
      | .err e => .err e
      | .abort s => .abort s

/-- `init_volumes` : list of (label?, volume) in map order (nullopt first, then A..H) -/
def initVolumes (m : Media) (fmt : Format) (geom : Geometry) : Res (List (Option Nat × Volume)) :=
  if fmt == Format.OpusDDOS then
    match m 16 with
    | none => .err "file system detected as Opus DDOS but the disc catalogue is unreadable"
    | some s16 =>
      match opusLocations s16 (some geom) with
      | .err e => .err e
      | .abort s => .abort s
      | .ok locs =>
        let rec mk : List VolLoc → Res (List (Option Nat × Volume))
          | [] => .ok []
          | l :: rest =>
            match Volume.make fmt l.catLoc l.start l.len m with
            | .ok v =>
              match mk rest with
              | .ok r => .ok ((some l.label, v) :: r)
              | .err e => .err e
              | .abort s => .abort s
            | .err e => .err e
            | .abort s => .abort s
        match mk locs with
        | .ok vs =>
          -- std::map keyed by label: sorted by label, first insertion wins
          let sorted := vs.foldl (fun acc (x : Option Nat × Volume) =>
            if acc.any (fun y => y.1 == x.1) then acc
            else
              let (lo, hi) := acc.partition (fun y => (y.1.getD 0) < (x.1.getD 0))
              lo ++ [x] ++ hi) []
          .ok sorted
        | .err e => .err e
        | .abort s => .abort s
  else
    match Volume.make fmt 0 0 geom.totalSectors m with
    | .ok v => .ok [(none, v)]
    | .err e => .err e
    | .abort s => .abort s

structure FileSystem where
  fmt : Format
  geom : Geometry
  vols : List (Option Nat × Volume)
deriving Repr, Inhabited

/-- `FileSystem::FileSystem` incl. its asserts on sector 1 byte 6 (which abort
    only in the assertion-enabled build) -/
def FileSystem.make (m : Media) (fmt : Format) (geom : Geometry) (ndebug : Bool) : Res FileSystem :=
  match initVolumes m fmt geom with
  | .err e => .err e
  | .abort s => .abort s
  | .ok vols =>
    match m 1 with
    | none => .err "eof in catalog"
    | some s1 =>
      let b := sget s1 6
      let assertOk :=
        if (b &&& 8) != 0 then fmt == Format.HDFS
        else if fmt == Format.HDFS then false
        else true
      if !ndebug && !assertOk then .abort "assert in FileSystem::FileSystem (format vs sector 1 byte 6)"
      else .ok { fmt := fmt, geom := geom, vols := vols }

/-- `FileSystem::mount` -/
def FileSystem.mount (fs : FileSystem) (key : Option Nat) : Option Volume :=
  -- on an Opus DDOS disc (however many volumes it has) drive N means volume NA
  let key' := if fs.fmt == Format.OpusDDOS && key.isNone then some 65 else key
  (fs.vols.find? (fun p => p.1 == key')).map (·.2)

/-- `FileSystem::disc_sector_count` -/
def FileSystem.discSectorCount (fs : FileSystem) : Res Nat :=
  if fs.fmt == Format.OpusDDOS then .ok fs.geom.totalSectors
  else
    match fs.vols with
    | (_, v) :: _ => .ok v.cat.totalSectors
    | [] => .err "no volumes in file system"

/-! ### Identification (identify.cc) -/

structure ImgFmt where
  geom : Geometry
  interleaved : Bool
deriving Repr, DecidableEq, Inhabited

def smellsLikeHdfs (s1 : Sector) : Bool := (sget s1 6 &&& 8) != 0

/-- the loop of `smells_like_watford` over the first catalogue: is some file's
    start-sector byte equal to 2? (`pos` is an `unsigned`, `buf1[pos+7]` with
    `pos ≤ 255` reads at most index 262 — beyond a 256-byte `std::array`: the
    model flags that as `none`) -/
def watfordFileAt2 (s1 : Sector) : Option Bool :=
  let last := sget s1 5
  let rec go (fuel pos : Nat) : Option Bool :=
    match fuel with
    | 0 => some false
    | fuel + 1 =>
      if pos > last then some false
      else if pos + 7 ≥ 256 then none
      else if watford_sector2_in_use (watford_start_sector (arr s1) pos) then some true
      else go fuel (pos + 8)
  go 33 8

def smellsLikeWatford (m : Media) (s1 : Sector) : Res Bool :=
  match watfordFileAt2 s1 with
  | none => .abort "smells_like_watford: buf1[pos+7] beyond the sector buffer"
  | some true => .ok false
  | some false =>
    match m 2 with
    | none => .ok false
    | some s2 => .ok ((s2.take 8).all (· == 0xAA) && s2.length ≥ 8)

def hasValidDfsCatalog (m : Media) (loc : Nat) : Bool :=
  match m loc, m (loc + 1) with
  | some s0, some s1 => (Fragment.ofSectors Format.DFS s0 s1).valid
  | _, _ => false

/-- `smells_like_opus_ddos` -/
def smellsLikeOpus (m : Media) (ndebug : Bool) : Res (Option Nat) :=
  match m 16 with
  | none => .ok none
  | some s16 =>
    let total := (sget s16 1 <<< 8) ||| sget s16 2
    if sget s16 3 != 18 then .ok none
    else
      match opusLocations s16 none with
      | .err _ => .ok none
      | .abort s => .abort s
      | .ok locs =>
        if locs.isEmpty then .ok none
        else
          let rec chk : List VolLoc → Res Bool
            | [] => .ok true
            | l :: rest =>
              if !ndebug && !(l.start > 17) then .abort "assert(loc.start_sector() > 17)"
              else
                match Volume.make Format.OpusDDOS l.catLoc l.start l.len m with
                | .abort s => .abort s
                | .err e => .err e
                | .ok v => if v.cat.valid then chk rest else .ok false
          match chk locs with
          | .abort s => .abort s
          | .err e => .err e
          | .ok false => .ok none
          | .ok true =>
            if total == 0 then .ok none
            else
              match m (total - 1) with
              | none => .ok none
              | some _ =>
                if total == 630 || total == 720 || total == 1440 then .ok (some total) else .ok none

def smellsLikeAcorn (m : Media) (s1 : Sector) (ndebug : Bool) : Res Bool :=
  if (sget s1 6 &&& 8) != 0 then .ok false
  else
    match smellsLikeWatford m s1 with
    | .abort s => .abort s
    | .err e => .err e
    | .ok true => .ok false
    | .ok false =>
      match smellsLikeOpus m ndebug with
      | .abort s => .abort s
      | .err e => .err e
      | .ok (some _) => .ok false
      | .ok none => .ok (hasValidDfsCatalog m 0)

/-- `probe_format` : `ok none` = "unable to find a file system match" -/
def probeFormat (m : Media) (ndebug : Bool) : Res (Option (Format × Nat)) :=
  match m 1 with
  | none => .ok none
  | some s1 =>
    if smellsLikeHdfs s1 then .ok (some (Format.HDFS, get_hdfs_sector_count (arr s1)))
    else
      match smellsLikeWatford m s1 with
      | .abort s => .abort s
      | .err e => .err e
      | .ok true => .ok (some (Format.WDFS, get_dfs_sector_count (arr s1)))
      | .ok false =>
        match smellsLikeOpus m ndebug with
        | .abort s => .abort s
        | .err e => .err e
        | .ok (some n) => .ok (some (Format.OpusDDOS, n))
        | .ok none =>
          match smellsLikeAcorn m s1 ndebug with
          | .abort s => .abort s
          | .err e => .err e
          | .ok true => .ok (some (Format.DFS, get_dfs_sector_count (arr s1)))
          | .ok false => .ok none

def singleSidedFilesystem (fmt : Format) (m : Media) : Bool :=
  if fmt != Format.HDFS then true
  else
    match m 1 with
    | none => true
    | some s1 => !((sget s1 6 &&& 4) != 0)

/-- strict "less" used by `min_element` -/
def fmtLess (l r : ImgFmt) : Bool :=
  if l.geom.sectors == 16 && r.geom.sectors != 16 then false
  else if r.geom.sectors == 16 && l.geom.sectors != 16 then true
  else l.geom.totalSectors < r.geom.totalSectors

/-- `std::min_element`: first minimal element -/
def minElement (less : α → α → Bool) : List α → Option α
  | [] => none
  | x :: xs => some (xs.foldl (fun best y => if less y best then y else best) x)

/-- `probe_geometry` ; `none` = all candidates eliminated -/
def probeGeometry (m : Media) (fmt : Format) (total : Nat) (cands : List ImgFmt) : Option ImgFmt :=
  let single := singleSidedFilesystem fmt m
  let possible := cands.filter (fun ff =>
    let avail := if single then ff.geom.cylinders * ff.geom.sectors else ff.geom.totalSectors
    avail ≥ total)
  let possible :=
    if possible.length > 1 then
      -- a tie-breaker only: it must not eliminate every remaining geometry (after the repair)
      let withOther := possible.filter (fun ff =>
        if ff.geom.heads == 1 then true
        else hasValidDfsCatalog m (ff.geom.sectors * (if ff.interleaved then 1 else ff.geom.cylinders)))
      if withOther.isEmpty then possible else withOther
    else possible
  minElement fmtLess possible

/-- `ends_with` — on the characters of the name -/
def endsWith (s suffix : String) : Bool := suffix.toList.isSuffixOf s.toList

/-- `remove_suffix(&name, ".gz")` -/
def stripGz (name : String) : String :=
  if endsWith name ".gz" then String.ofList (name.toList.take (name.toList.length - 3)) else name

/-- `make_candidate_list` (after the repair: hints come from the name without `.gz`) -/
def candidateList (fileName : String) : List ImgFmt :=
  let name := stripGz fileName
  let ssd := endsWith name ".ssd"; let sdd := endsWith name ".sdd"
  let dsd := endsWith name ".dsd"; let ddd := endsWith name ".ddd"
  let ilHint : Option Bool := if dsd || ddd then some true else if ssd || sdd then some false else none
  let sidesHint : Option Nat := if dsd || ddd then some 2 else none
  let encHint : Option Encoding := if sdd || ddd then some Encoding.MFM else if ssd || dsd then some Encoding.FM else none
  let encs := match encHint with | some e => [e] | none => [Encoding.FM, Encoding.MFM]
  let sides := match sidesHint with | some s => [s] | none => [2, 1]
  let ils := match ilHint with | some b => [b] | none => [false, true]
  encs.flatMap fun enc =>
    sides.flatMap fun sd =>
      [40, 80, 35].flatMap fun tr =>
        (if enc == Encoding.FM then [10] else [18, 16]).flatMap fun spt =>
          ils.map fun il => { geom := { cylinders := tr, heads := sd, sectors := spt, encoding := some enc }, interleaved := il }

/-- `probe` -/
def probe (m : Media) (cands : List ImgFmt) (ndebug : Bool) : Res (Option (Format × ImgFmt)) :=
  match probeFormat m ndebug with
  | .abort s => .abort s
  | .err e => .err e
  | .ok none => .ok none
  | .ok (some (fmt, total)) =>
    match probeGeometry m fmt total cands with
    | none => .ok none
    | some ff => .ok (some (fmt, ff))

def identifyImage (m : Media) (name : String) (ndebug : Bool) : Res (Option ImgFmt) :=
  match probe m (candidateList name) ndebug with
  | .ok (some (_, ff)) => .ok (some ff)
  | .ok none => .ok none
  | .err e => .err e
  | .abort s => .abort s

def identifyFileSystem (m : Media) (g : Geometry) (il : Bool) (ndebug : Bool) : Res (Option Format) :=
  match probe m [{ geom := g, interleaved := il }] ndebug with
  | .ok (some (f, _)) => .ok (some f)
  | .ok none => .ok none
  | .err e => .err e
  | .abort s => .abort s

/-! ### Sector-dump containers -/

def singleSide (g : Geometry) : Geometry := { g with heads := 1 }

/-- view of side `k` of a non-interleaved .ssd/.sdd with identified geometry `g` -/
def viewNI (g : Geometry) (k : Nat) : View :=
  let ss := singleSide g
  let sideLen := ss.totalSectors
  { skip := k * sideLen, take := sideLen, leave := 0, total := sideLen, geom := ss, desc := "" }

def viewsNonInterleaved (g : Geometry) : List View := (List.range g.heads).map (viewNI g)

/-- view of side `k` (0 or 1) of a track-interleaved .dsd/.ddd -/
def viewIL (g : Geometry) (k : Nat) : View :=
  let ss := singleSide g
  let t := ss.sectors
  { skip := k * t, take := t, leave := t, total := ss.totalSectors, geom := ss, desc := "" }

def viewsInterleaved (g : Geometry) : List View := [viewIL g 0, viewIL g 1]

def mmbGeom : Geometry := { cylinders := 80, heads := 1, sectors := 10, encoding := some Encoding.FM }

/-- `MmbFile`: slot `slot` (0-based) with status byte `st` -/
def mmbView (slot st : Nat) : View :=
  if st == 0x00 || st == 0x0F then
    { skip := 32 + slot * mmbGeom.totalSectors, take := mmbGeom.totalSectors, leave := 0,
      total := mmbGeom.totalSectors, geom := mmbGeom, desc := "" }
  else View.unformatted mmbGeom ""

end Beeb
