/-
Executable model of bbcbasic_to_text: basic/lines.c (line framing, token
expansion, LISTO indentation), basic/decoder.c (dialect → line format),
basic/bbcbasic_to_text.c (options, per-file loop, exit status).
Token maps and the line-number formula come from `Beeb.Gen` (regenerated from
the C on every run).
-/
import Beeb.Model.Afsp
import Beeb.Generated.Leaf
import Beeb.Generated.Tokens

namespace Beeb.Basic
open Beeb Beeb.Gen

structure XMap where
  base : Array Tok
  c6 : Array Tok
  c7 : Array Tok
  c8 : Array Tok
deriving Inhabited

def xmapOf (tbl : Array (Array (Array Tok))) (dialect : Nat) : XMap :=
  let d := tbl.getD dialect #[]
  { base := d.getD 0 #[], c6 := d.getD 1 #[], c7 := d.getD 2 #[], c8 := d.getD 3 #[] }

def look (a : Array Tok) (i : Nat) : Tok := a.getD i .null

/-- `handle_token`: what is printed for the byte `uch` (not inside a string) and
    the unread rest of the line; `none` = a diagnostic is issued and decoding fails -/
def handleToken (m : XMap) (uch : Nat) (rest : Bytes) : Option (Bytes × Bytes) :=
  match look m.base uch with
  | .null => none
  | .str s => some (s, rest)
  | .invalid => none
  | .fastvar => none
  | .lineNum =>
    match rest with
    | b1 :: b2 :: b3 :: r => some (decU (target_line_number b1 b2 b3), r)
    | _ => none
  | .ext =>
    let emap := if uch == 0xC6 then some m.c6 else if uch == 0xC7 then some m.c7 else if uch == 0xC8 then some m.c8 else none
    match emap, rest with
    | none, _ => none
    | some _, [] => none
    | some e, x :: r =>
      match look e x with
      | .str s => some (s, r)
      | _ => none
  | .pdp =>
    if uch != 0xC8 then none
    else match rest with
      | [] => none
      | 0x98 :: r => some (strBytes "QUIT", r)
      | _ => some (strBytes "LOAD", rest)

/-- `count` (after the repair): occurrences of a token byte outside string literals -/
def countTok (needle : Nat) : Bytes → Bool → Nat
  | [], _ => 0
  | c :: rest, inStr =>
    if c == 34 then countTok needle rest (!inStr)
    else if !inStr && c == needle then 1 + countTok needle rest inStr
    else countTok needle rest inStr

/-- the token loop of `decode_line`; output accumulated in reverse -/
def lineLoop (m : XMap) : Nat → Bytes → Bool → Bytes → Bool × Bytes
  | 0, _, _, acc => (true, acc)
  | _ + 1, [], _, acc => (true, acc)
  | fuel + 1, uch :: rest, inStr, acc =>
    if uch == 0 then (false, acc)
    else if inStr then
      lineLoop m fuel rest (if uch == 34 then !inStr else inStr) (uch :: acc)
    else
      match handleToken m uch rest with
      | none => (false, acc)
      | some (s, rest') =>
        -- `handleToken` never returns more than it was given
        lineLoop m fuel rest' (if uch == 34 then !inStr else inStr) (s.reverse ++ acc)

def bit (n k : Nat) : Bool := (n / 2 ^ k) % 2 == 1

/-- `decode_line`: (ok, bytes printed, new indent) -/
def decodeLine (m : XMap) (listo : Nat) (hi lo : Nat) (data : Bytes) (indent : Int) : Bool × Bytes × Int :=
  let ln := 256 * hi + lo
  let pre := (if ln != 0 then padLeft 5 32 (decU ln) else List.replicate 5 32) ++ (if bit listo 0 then [32] else [])
  let outdent : Nat := (if bit listo 1 then 2 * countTok 0xED data false else 0) + (if bit listo 2 then 2 * countTok 0xFD data false else 0)
  let indent1 : Int := indent - outdent
  let pre := pre ++ List.replicate indent1.toNat 32
  let (ok, acc) := lineLoop m (data.length + 1) data false []
  if !ok then (false, pre ++ acc.reverse, indent1)
  else
    let ind : Nat := (if bit listo 1 then 2 * countTok 0xE3 data false else 0) + (if bit listo 2 then 2 * countTok 0xF5 data false else 0)
    (true, pre ++ acc.reverse ++ [10], indent1 + ind)

structure FileRes where
  ok : Bool
  out : Bytes
  err : Bool       -- something was written to stderr
deriving Repr, Inhabited

/-- `decode_big_endian_program` on the whole file content -/
def decodeBE (m : XMap) (listo : Nat) : Nat → Bytes → Bool → Bool → Int → List Bytes → FileRes
  | 0, _, _, warned, _, out => { ok := false, out := out.reverse.flatten, err := warned || true }
  | fuel + 1, f, empty, warned, indent, out =>
    let fin (ok err : Bool) : FileRes := { ok := ok, out := out.reverse.flatten, err := err || warned }
    match f with
    | [] => if empty then fin true false else fin false true
    | c :: f1 =>
      if c != 0x0D then fin false true
      else
        match f1 with
        | [] => fin false true
        | hi :: f2 =>
          -- (lo, rest after lo, warned)
          let step : Option (Nat × Bytes × Bool) :=
            if hi == 0xFF then
              match f2 with
              | [] => none                     -- normal end of program
              | x :: r => some (x, r, true)
            else
              match f2 with
              | [] => some (0, [], warned)     -- placeholder: premature EOF detected below
              | x :: r => some (x, r, warned)
          match step with
          | none => fin true false
          | some (lo, f3, warned') =>
            if hi != 0xFF && f2.isEmpty then fin false true
            else
              match f3 with
              | [] => { ok := false, out := out.reverse.flatten, err := true }
              | len :: f4 =>
                if len < 4 then { ok := false, out := out.reverse.flatten, err := true }
                else
                  let n := len - 4
                  if f4.length < n then { ok := false, out := out.reverse.flatten, err := true }
                  else
                    let (ok, printed, indent') := decodeLine m listo hi lo (f4.take n) indent
                    if !ok then { ok := false, out := (printed :: out).reverse.flatten, err := true }
                    else decodeBE m listo fuel (f4.drop n) false warned' indent' (printed :: out)

/-- `decode_little_endian_program` (after the repair of the short read) -/
def decodeLE (m : XMap) (listo : Nat) : Nat → Bytes → Bool → Int → List Bytes → FileRes
  | 0, _, _, _, out => { ok := false, out := out.reverse.flatten, err := true }
  | fuel + 1, f, empty, indent, out =>
    let fin (ok err : Bool) : FileRes := { ok := ok, out := out.reverse.flatten, err := err }
    match f with
    | [] => if empty then fin true false else fin false true
    | len :: f1 =>
      if len == 0 then
        match f1 with
        | 0xFF :: 0xFF :: r => if r.isEmpty then fin true false else fin true true   -- trailing bytes: warning only
        | _ => fin false true
      else if len < 3 then fin false true
      else
        match f1 with
        | lo :: hi :: f3 =>
          let n := len - 3
          if f3.length < n then fin false true
          else if n > 0 && (f3.getD (n - 1) 0) != 0x0D then fin false true
          else if n == 0 then decodeLE m listo fuel f3 false indent out
          else
            let (ok, printed, indent') := decodeLine m listo hi lo (f3.take (n - 1)) indent
            if !ok then { ok := false, out := (printed :: out).reverse.flatten, err := true }
            else decodeLE m listo fuel (f3.drop n) false indent' (printed :: out)
        | _ => fin false true

/-- `dialect_has_leading_cr` : 0 6502, 1 Z80, 2 ARM, 3 Windows, 4 Mac, 5 PDP11 -/
def bigEndian (d : Nat) : Bool := d == 0 || d == 2 || d == 4 || d == 5

def decodeFile (tbl : Array (Array (Array Tok))) (dialect listo : Nat) (content : Bytes) : FileRes :=
  let m := xmapOf tbl dialect
  if bigEndian dialect then decodeBE m listo (content.length + 2) content true false 0 []
  else decodeLE m listo (content.length + 2) content true 0 []

/-! ### main -/

structure Run where
  out : Bytes := []
  err : Bool := false
  exit : Nat := 0
  crash : Option String := none
  unmodelled : Option String := none
deriving Repr, Inhabited

/-- `set_listo` (strtol base 10, whole string, 0..7) -/
def parseListo (s : Bytes) : Option Nat :=
  match stol s with
  | .error .invalid => none
  | .error .range => none
  | .ok (v, e) => if e < s.length then none else if 0 ≤ v && v ≤ 7 then some v.toNat else none

inductive BOpt where
  | dialect (a : Bytes) | listo (a : Bytes) | dump (a : Bytes) | help | bad
deriving Repr

/-- getopt_long(argc, argv, "+d:D:l:", {dialect:1, help:0, listo:1, dump-token-maps:1}) -/
def bgetopt : Nat → List Bytes → List BOpt → (List BOpt × List Bytes)
  | 0, rest, acc => (acc.reverse, rest)
  | fuel + 1, args, acc =>
    match args with
    | [] => (acc.reverse, [])
    | a :: rest =>
      if a == [45, 45] then (acc.reverse, rest)
      else if a.length > 2 && a.take 2 == [45, 45] then
        let body := a.drop 2
        let name := body.takeWhile (· != 61)
        let hasEq := name.length < body.length
        let val := body.drop (name.length + 1)
        let longs : List (String × Nat × Bool) := [("dialect", 0, true), ("help", 1, false), ("listo", 2, true), ("dump-token-maps", 3, true)]
        let exact := longs.filter (fun o => strBytes o.1 == name)
        let cands := if exact.isEmpty then longs.filter (fun o => isPrefix name (strBytes o.1)) else exact
        match cands with
        | [(_, k, needs)] =>
          let mk (v : Bytes) : BOpt := if k == 0 then .dialect v else if k == 2 then .listo v else if k == 3 then .dump v else .help
          if needs then
            if hasEq then bgetopt fuel rest (mk val :: acc)
            else match rest with
              | v :: rest' => bgetopt fuel rest' (mk v :: acc)
              | [] => ((BOpt.bad :: acc).reverse, [])
          else if hasEq then ((BOpt.bad :: acc).reverse, rest)
          else bgetopt fuel rest (mk [] :: acc)
        | _ => ((BOpt.bad :: acc).reverse, rest)
      else if a.length ≥ 2 && a.getD 0 0 == 45 then
        -- a cluster of short options; only d, D, l exist and all take an argument,
        -- so the first character decides
        let c := a.getD 1 0
        if c == 100 || c == 68 || c == 108 then
          let mk (v : Bytes) : BOpt := if c == 100 then .dialect v else if c == 108 then .listo v else .dump v
          if a.length > 2 then bgetopt fuel rest (mk (a.drop 2) :: acc)
          else match rest with
            | v :: rest' => bgetopt fuel rest' (mk v :: acc)
            | [] => ((BOpt.bad :: acc).reverse, [])
        else ((BOpt.bad :: acc).reverse, rest)
      else (acc.reverse, args)
where
  isPrefix (p s : Bytes) : Bool := p.length ≤ s.length && s.take p.length == p

def dialectByName (names : List (String × Nat)) (n : Bytes) : Option Nat :=
  (names.find? (fun p => strBytes p.1 == n)).map (·.2)

/-- `wrapped_main` + `main`.  `files` gives the content of each named input
    (none = cannot be opened); `stdin` the content of standard input. -/
def basicMain (tbl : Array (Array (Array Tok))) (names : List (String × Nat))
    (files : Bytes → Option Bytes) (stdin : Bytes) (argv : List Bytes) : Run :=
  let (opts, rest) := bgetopt (argv.length + 1) argv []
  let rec optLoop : List BOpt → Nat → Nat → Bytes → Except Run (Nat × Nat × Bytes)
    | [], d, l, out => .ok (d, l, out)
    | .bad :: _, _, _, out => .error { out := out, err := true, exit := 1 }
    | .help :: _, _, _, _ => .error { unmodelled := some "help" }
    | .dump _ :: _, _, _, _ => .error { unmodelled := some "dump-token-maps" }
    | .listo a :: more, d, _, out =>
      match parseListo a with
      | none => .error { out := out, err := true, exit := 1 }
      | some l => optLoop more d l out
    | .dialect a :: more, d, l, out =>
      if a == strBytes "help" then .error { unmodelled := some "dialect=help" }
      else match dialectByName names a with
        | none => .error { out := out, err := true, exit := 1 }
        | some d' => optLoop more d' l out
  match dialectByName names (strBytes "6502") with
  | none => { err := true, exit := 1 }
  | some d0 =>
    match optLoop opts d0 7 [] with
    | .error r => r
    | .ok (d, l, _) =>
      if rest.isEmpty then { err := true, exit := 1 }
      else
        -- each "-" consumes standard input (the first one gets the content)
        let rec fileLoop : List Bytes → Bool → List Bytes → Bool → Nat → Run
          | [], _, out, err, ex => { out := out.reverse.flatten, err := err, exit := ex }
          | name :: more, stdinUsed, out, err, ex =>
            if name == [45] then
              if stdinUsed then { out := out.reverse.flatten, err := err, exit := ex, unmodelled := some "second use of closed stdin" }
              else
                let r := decodeFile tbl d l stdin
                fileLoop more true (r.out :: out) (err || r.err) (if r.ok then ex else 1)
            else
              match files name with
              | none => fileLoop more stdinUsed out true 1
              | some c =>
                let r := decodeFile tbl d l c
                fileLoop more stdinUsed (r.out :: out) (err || r.err) (if r.ok then ex else 1)
        fileLoop rest false [] false 0

end Beeb.Basic
