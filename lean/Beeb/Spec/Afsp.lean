/-
Specification of DFS ambiguous file specifications (C15), from doc/dfs.1:
`#` matches any one character except '.', `*` any run of characters except '.',
letters match case-insensitively, every other character matches only itself.
Patterns and names are compared in their fully qualified form `:drive.D.NAME`.
-/
import Beeb.Model.Base

namespace Beeb.Spec

def lowerC (c : Nat) : Nat := if 65 ≤ c && c ≤ 90 then c + 32 else c

/-- does the (qualified) wildcard `p` match the whole (qualified) name `s`? -/
def wildMatchAux : Nat → Bytes → Bytes → Bool
  | 0, _, _ => false
  | _ + 1, [], s => s.isEmpty
  | fuel + 1, 35 :: p, s =>
    match s with
    | c :: s' => c != 46 && wildMatchAux fuel p s'
    | [] => false
  | fuel + 1, 42 :: p, s =>
    wildMatchAux fuel p s ||
      (match s with
       | c :: s' => c != 46 && wildMatchAux fuel (42 :: p) s'
       | [] => false)
  | fuel + 1, w :: p, s =>
    match s with
    | c :: s' => lowerC w == lowerC c && wildMatchAux fuel p s'
    | [] => false

def wildMatch (p s : Bytes) : Bool := wildMatchAux (p.length + s.length + 1) p s

end Beeb.Spec
