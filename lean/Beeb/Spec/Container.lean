/-
Specification of the sector-dump containers (C04), from doc/dfs.1 and doc/mmb.5:
where, in the container file, logical sector `s` of track `t` of a surface lives.
Offsets are in 256-byte sectors from the start of the file.
-/
namespace Beeb.Spec

/-- non-interleaved .ssd/.sdd: each side is contiguous, side 0 first -/
def offsetNonInterleaved (cyls spt side t s : Nat) : Nat := side * (cyls * spt) + t * spt + s

/-- track-interleaved .dsd/.ddd: tracks alternate by side -/
def offsetInterleaved (spt side t s : Nat) : Nat := (2 * t + side) * spt + s

/-- MMB: 8192-byte index (32 sectors), then 204800 bytes (800 sectors) per slot -/
def offsetMmb (slot t s : Nat) : Nat := 32 + slot * 800 + t * 10 + s

theorem offsetMmb_bytes (slot t s : Nat) : offsetMmb slot t s * 256 = 8192 + slot * 204800 + (t * 10 + s) * 256 := by
  unfold offsetMmb; omega

/-- slot status bytes meaning "a formatted disc is present" (doc/mmb.5) -/
def slotPresent (st : Nat) : Prop := st = 0x00 ∨ st = 0x0F

instance (st : Nat) : Decidable (slotPresent st) := by unfold slotPresent; infer_instance

end Beeb.Spec
