/-
Specification of "the bytes recorded in a file's sectors" (C01, C17): a file
catalogued with start sector `start` and length `len` occupies the
⌈len/256⌉ consecutive sectors from `start`; its content is the first `len`
bytes of those sectors.  (Published DFS layout; doc/dfs.1 "DFS FILE METADATA".)
-/
import Beeb.Model.Base

namespace Beeb.Spec

/-- sectors `start … start+n-1` of a medium, concatenated; `none` if one is unreadable -/
def sectorsConcat (m : Nat → Option Bytes) : Nat → Nat → Option Bytes
  | _, 0 => some []
  | start, n + 1 =>
    match m start with
    | none => none
    | some s =>
      match sectorsConcat m (start + 1) n with
      | none => none
      | some rest => some (s ++ rest)

def sectorsFor (len : Nat) : Nat := (len + 255) / 256

/-- the recorded content of a file -/
def fileContent (m : Nat → Option Bytes) (start len : Nat) : Option Bytes :=
  (sectorsConcat m start (sectorsFor len)).map (·.take len)

/-- every readable sector is exactly 256 bytes -/
def SectorLen (m : Nat → Option Bytes) : Prop := ∀ i s, m i = some s → s.length = 256

/-- `type` : carriage returns become newlines, everything else unchanged -/
def typeText (b : Bytes) : Bytes := b.map (fun c => if c = 13 then 10 else c)

end Beeb.Spec
