/-
Specification of "the bytes recorded in a file's sectors" (C01, C17): a file
catalogued with start sector `start` and length `len` occupies the
⌈len/256⌉ consecutive sectors from `start`; its content is the first `len`
bytes of those sectors.  (Published DFS layout; doc/dfs.1 "DFS FILE METADATA".)
-/
import Beeb.Model.Base

namespace Beeb.Spec

/-- sectors `start … start+n-1` of a medium, concatenated; `none` if one is unreadable -/
def sectorsConcat (m : Nat → Option Bytes) : Nat → Nat → Option Bytes
  | _, 0 => some []
  | start, n + 1 =>
    match m start with
    | none => none
    | some s =>
      match sectorsConcat m (start + 1) n with
      | none => none
      | some rest => some (s ++ rest)

def sectorsFor (len : Nat) : Nat := (len + 255) / 256

/-- the recorded content of a file -/
def fileContent (m : Nat → Option Bytes) (start len : Nat) : Option Bytes :=
  (sectorsConcat m start (sectorsFor len)).map (·.take len)

/-- every readable sector is exactly 256 bytes -/
def SectorLen (m : Nat → Option Bytes) : Prop := ∀ i s, m i = some s → s.length = 256

/-- `type` : carriage returns become newlines, everything else unchanged -/
def typeText (b : Bytes) : Bytes := b.map (fun c => if c = 13 then 10 else c)

/-! ### `list` and `dump` (doc/dfs.1 "list filename", "dump filename") -/

/-- the pieces between carriage returns (byte 13), like Python's `body.split(b'\r')`:
    one more piece than there are CRs, none containing a CR -/
def splitCR : Bytes → List Bytes
  | [] => [[]]
  | c :: rest =>
    if c = 13 then [] :: splitCR rest
    else match splitCR rest with
      | [] => [[c]]                 -- not reached: `splitCR` never returns `[]`
      | p :: ps => (c :: p) :: ps

/-- `list` : every CR-separated line is printed as its 1-based number right-aligned
    in 4 columns, a space, the line's bytes, and a newline; a final line without a
    terminating CR gets no newline; an empty file prints nothing. -/
def listSpec (b : Bytes) : Bytes :=
  if b = [] then []
  else
    let terminated : Bool := b.getLast? = some 13
    let lines := if terminated then (splitCR b).dropLast else splitCR b
    (lines.zipIdx 1).flatMap fun (l, n) =>
      padLeft 4 32 (decU n) ++ [32] ++ l ++ (if n < lines.length ∨ terminated then [10] else [])

/-- a hex cell of `dump`: a space and the byte as two upper-case hex digits, or
    ` **` for a position past the end of the file -/
def dumpCell : Option Nat → Bytes
  | some x => 32 :: padLeft 2 48 (hexU x)
  | none => [32, 42, 42]

/-- a character cell of `dump`: the byte itself if it is a space or a printable
    ASCII character (32..126), otherwise `.` (also past the end of the file) -/
def dumpChar : Option Nat → Nat
  | some x => if 32 ≤ x ∧ x ≤ 126 then x else 46
  | none => 46

/-- one row of `dump` for the (at most 8) bytes `row` at file offset `pos`: the
    offset as 6 decimal digits; the 8 hex cells; a space; the 8 character cells;
    newline -/
def dumpRowSpec (pos : Nat) (row : Bytes) : Bytes :=
  padLeft 6 48 (decU pos)
  ++ ((List.range 8).flatMap fun i => dumpCell row[i]?)
  ++ [32]
  ++ ((List.range 8).map fun i => dumpChar row[i]?)
  ++ [10]

/-- `dump` : ⌈len/8⌉ rows of 8 bytes; an empty file prints nothing -/
def dumpSpec (b : Bytes) : Bytes :=
  ((List.range ((b.length + 7) / 8)).map fun r =>
    dumpRowSpec (8 * r) ((b.drop (8 * r)).take 8)).flatten

end Beeb.Spec
