/-
Specification side of C02 beyond the info line: title, boot option, catalogue
order of `cat`, the `.inf` line and the XMODEM CRC-16.
-/
import Beeb.Model.Base

namespace Beeb.Spec

/-- the 12-character title: sector 0 bytes 0–7 then sector 1 bytes 0–3, NUL
    terminated, 7-bit, trailing spaces removed -/
def title (s0 s1 : Bytes) : Bytes :=
  let raw := ((s0.take 8 ++ s1.take 4).takeWhile (· != 0)).map (· % 128)
  (raw.reverse.dropWhile (· == 32)).reverse

def lower (c : Nat) : Nat := if 65 ≤ c && c ≤ 90 then c + 32 else c

/-- name order: case-insensitive lexicographic, shorter first on a tie -/
def nameLess : Bytes → Bytes → Bool
  | _, [] => false
  | [], _ :: _ => true
  | a :: as, b :: bs => if lower a == lower b then nameLess as bs else lower a < lower b

/-- `cat` order: files of the current directory first, then by directory letter
    (case-insensitively), then by name (case-insensitively) -/
def catBefore (curDir : Nat) (d1 : Nat) (n1 : Bytes) (d2 : Nat) (n2 : Bytes) : Bool :=
  let k (d : Nat) : Nat := if d == curDir then 0 else lower d
  k d1 < k d2 || (k d1 == k d2 && nameLess n1 n2)

/-- CRC-16/XMODEM as the CRC catalogue defines it: polynomial 0x1021, initial value
    0, no reflection, no final xor; byte-at-a-time, MSB first -/
def xmodemStep (crc : Nat) : Nat :=
  if crc / 32768 % 2 = 1 then ((crc * 2) % 65536) ^^^ 0x1021 else (crc * 2) % 65536

def xmodemByte (crc b : Nat) : Nat :=
  xmodemStep (xmodemStep (xmodemStep (xmodemStep (xmodemStep (xmodemStep (xmodemStep (xmodemStep (crc ^^^ (b * 256)))))))))

def xmodem (data : Bytes) : Nat := data.foldl xmodemByte 0

end Beeb.Spec
