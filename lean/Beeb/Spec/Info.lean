/-
Specification of the `info` line (C02), written from doc/dfs.1 ("DFS FILE
METADATA", "SIGN EXTENSION OF ADDRESSES") and the published DFS catalogue
layout, independently of the C++.
-/
import Beeb.Model.Base

namespace Beeb.Spec

/-- the catalogued facts about one file -/
structure Fields where
  dir : Nat            -- 7-bit directory character
  name : Bytes         -- the 7 name bytes with bit 7 cleared
  locked : Bool
  load : Nat           -- 18 bits
  exec : Nat           -- 18 bits
  len : Nat            -- 18 bits
  start : Nat          -- 10 bits
deriving Repr, DecidableEq

/-- decode the two 8-byte catalogue records (sector 0 name record, sector 1
    metadata record) by the documented layout:
    name[7] = lock<<7 | dir; meta = load lo,hi; exec lo,hi; len lo,hi;
    mixed = exec<<6 | len<<4 | load<<2 | start>>8 ; start lo -/
def decodeFields (nm mt : Nat → Nat) : Fields :=
  { dir := nm 7 % 128
    name := (List.range 7).map (fun i => nm i % 128)
    locked := decide (128 ≤ nm 7)
    load := mt 0 + 256 * mt 1 + 65536 * (mt 6 / 4 % 4)
    exec := mt 2 + 256 * mt 3 + 65536 * (mt 6 / 64 % 4)
    len := mt 4 + 256 * mt 5 + 65536 * (mt 6 / 16 % 4)
    start := mt 7 + 256 * (mt 6 % 4) }

/-- doc/dfs.1: "sign-extended to 24 bits, with bits 23 to 18 being copies of
    bit 17 (which has the value 20000 hex), and bits 16 to 0 holding their
    original values" -/
def signExt18to24 (a : Nat) : Nat := if a / 131072 % 2 = 1 then a + 0xFC0000 else a

/-- the printable part of a name: characters up to the first space or NUL -/
def shownName (name : Bytes) : Bytes := name.takeWhile (fun c => c != 32 && c != 0)

/-- one `info` line: `D.NAME____ L__ LLLLLL EEEEEE NNNNNN SSS` -/
def infoLine (f : Fields) : Bytes :=
  [f.dir, 46] ++ padRight 8 32 (shownName f.name) ++ [32]
    ++ (if f.locked then [76, 32, 32] else [32, 32, 32])
    ++ hexFixed 6 (signExt18to24 f.load) ++ [32]
    ++ hexFixed 6 (signExt18to24 f.exec) ++ [32]
    ++ hexFixed 6 f.len ++ [32]
    ++ hexFixed 3 f.start

/-- well-formed field values -/
def Fields.WF (f : Fields) : Prop :=
  f.dir < 128 ∧ f.name.length = 7 ∧ (∀ c ∈ f.name, c < 128) ∧
  f.load < 262144 ∧ f.exec < 262144 ∧ f.len < 262144 ∧ f.start < 1024

/-- encode fields into the two 8-byte records -/
def encodeName (f : Fields) : Bytes :=
  f.name ++ [f.dir + (if f.locked then 128 else 0)]

def encodeMeta (f : Fields) : Bytes :=
  [f.load % 256, f.load / 256 % 256, f.exec % 256, f.exec / 256 % 256,
   f.len % 256, f.len / 256 % 256,
   (f.exec / 65536) * 64 + (f.len / 65536) * 16 + (f.load / 65536) * 4 + f.start / 256,
   f.start % 256]

end Beeb.Spec
