/-
Specification side of C05/C06: how a disc's tracks are *recorded* — IBM 3740 FM
and System 34 MFM track formats, and the HFE v1/v3 and HxC MFM containers —
written from the format descriptions, independently of the decoders.  The same
encoders exist in Python (tools/gen/flux.py, the oracle used against the real
binary); the driver op `fluxenc` lets the check compare the two byte for byte.
-/
import Beeb.Model.FluxImg

namespace Beeb.Spec.Flux
open Beeb Beeb.Flux

/-- bits of a byte, most significant first -/
def bitsMsb (b : Nat) : List Bool := (List.range 8).map fun i => (b >>> (7 - i)) % 2 == 1

/-- an FM byte cell: clock and data bits interleaved, c7 d7 … c0 d0 -/
def fmByte (clock data : Nat) : List Bool :=
  (List.range 8).flatMap fun i => [(clock >>> (7 - i)) % 2 == 1, (data >>> (7 - i)) % 2 == 1]

def fmBytes (bs : Bytes) : List Bool := bs.flatMap (fmByte 0xFF)

/-- the physical layout of a track: gap and sync lengths in bytes, the gap fill
    byte, the size code recorded in ID fields -/
structure Layout where
  gap1 : Nat := 16
  sync : Nat := 6
  gap2 : Nat := 11
  gap3 : Nat := 21
  gap4 : Nat := 40
  fill : Nat := 0xFF
deriving Repr, Inhabited

def crcBytes (data : Bytes) : Bytes := let c := ccitt data; [c / 256, c % 256]

/-- one FM sector: sync, ID mark (clock C7) + ID field + CRC, gap 2, sync, data
    mark (clock C7) + data + CRC, gap 3.  `deleted` records a deleted-data mark. -/
def fmSector (lay : Layout) (cyl head : Nat) (rec : Nat) (data : Bytes) (deleted : Bool := false) : List Bool :=
  let idf := [0xFE, cyl, head, rec, 1]
  let mark := if deleted then 0xF8 else 0xFB
  fmBytes (List.replicate lay.sync 0) ++ fmByte 0xC7 0xFE ++ fmBytes (idf.drop 1 ++ crcBytes idf) ++
  fmBytes (List.replicate lay.gap2 lay.fill) ++
  fmBytes (List.replicate lay.sync 0) ++ fmByte 0xC7 mark ++ fmBytes (data ++ crcBytes (mark :: data)) ++
  fmBytes (List.replicate lay.gap3 lay.fill)

/-- an FM track: the sectors `(record number, data)` in physical order -/
def fmTrack (lay : Layout) (cyl head : Nat) (secs : List (Nat × Bytes)) : List Bool :=
  fmBytes (List.replicate lay.gap1 lay.fill) ++
  secs.flatMap (fun s => fmSector lay cyl head s.1 s.2) ++
  fmBytes (List.replicate lay.gap4 lay.fill)

/-! ### MFM -/

/-- MFM cells of data bytes given the previous data bit; returns cells and last data bit -/
def mfmBits : List Bool → Bool → List Bool
  | [], _ => []
  | d :: rest, prev => (!(prev || d)) :: d :: mfmBits rest d

def lastBit (bits : List Bool) (prev : Bool) : Bool := bits.getLast?.getD prev

def mfmBytes (bs : Bytes) (prev : Bool) : List Bool := mfmBits (bs.flatMap bitsMsb) prev
def mfmLast (bs : Bytes) (prev : Bool) : Bool := lastBit (bs.flatMap bitsMsb) prev

/-- the A1 sync byte with its missing clock bit: 0x4489 -/
def a1Sync : List Bool := (List.range 16).map fun i => (0x4489 >>> (15 - i)) % 2 == 1

def mfmFill (lay : Layout) : Nat := if lay.fill == 0xFF then 0x4E else lay.fill

/-- one MFM sector -/
def mfmSector (lay : Layout) (cyl head : Nat) (rec : Nat) (data : Bytes) (prev : Bool) (deleted : Bool := false) : List Bool × Bool :=
  let fill := mfmFill lay
  let sync := List.replicate (max lay.sync 2) 0
  let idf := [0xA1, 0xA1, 0xA1, 0xFE, cyl, head, rec, 1]
  let idBody := idf.drop 3 ++ crcBytes idf
  let gap2 := List.replicate (max lay.gap2 1) fill
  let mark := if deleted then 0xF8 else 0xFB
  let df := [0xA1, 0xA1, 0xA1, mark] ++ data
  let dBody := df.drop 3 ++ crcBytes df
  let gap3 := List.replicate (max lay.gap3 1) fill
  let c1 := mfmBytes sync prev
  let c2 := a1Sync ++ a1Sync ++ a1Sync ++ mfmBytes idBody true
  let p2 := mfmLast idBody true
  let c3 := mfmBytes gap2 p2
  let p3 := mfmLast gap2 p2
  let c4 := mfmBytes sync p3
  let c5 := a1Sync ++ a1Sync ++ a1Sync ++ mfmBytes dBody true
  let p5 := mfmLast dBody true
  let c6 := mfmBytes gap3 p5
  (c1 ++ c2 ++ c3 ++ c4 ++ c5 ++ c6, mfmLast gap3 p5)

def mfmSectors (lay : Layout) (cyl head : Nat) : List (Nat × Bytes) → Bool → List Bool × Bool
  | [], prev => ([], prev)
  | s :: rest, prev =>
    let (c, p) := mfmSector lay cyl head s.1 s.2 prev
    let (c', p') := mfmSectors lay cyl head rest p
    (c ++ c', p')

def mfmTrack (lay : Layout) (cyl head : Nat) (secs : List (Nat × Bytes)) : List Bool :=
  let g1 := List.replicate lay.gap1 (mfmFill lay)
  let (c, p) := mfmSectors lay cyl head secs (mfmLast g1 false)
  mfmBytes g1 false ++ c ++ mfmBytes (List.replicate lay.gap4 (mfmFill lay)) p

/-! ### containers -/

/-- value of up to eight cells, first cell least significant -/
def byteLsb : List Bool → Nat
  | [] => 0
  | b :: r => (if b then 1 else 0) + 2 * byteLsb r

/-- value of exactly eight cells (missing ones read as 0), first cell most significant -/
def byteMsb (l : List Bool) : Nat := byteLsb ((l ++ List.replicate (8 - l.length) false).reverse)

/-- pack cells into bytes, first cell in the least significant bit (HFE) -/
def packLsb : List Bool → Bytes
  | b0 :: b1 :: b2 :: b3 :: b4 :: b5 :: b6 :: b7 :: rest => byteLsb [b0, b1, b2, b3, b4, b5, b6, b7] :: packLsb rest
  | [] => []
  | l => [byteLsb l]

/-- pack cells into bytes, first cell in the most significant bit (HxC MFM) -/
def packMsb : List Bool → Bytes
  | b0 :: b1 :: b2 :: b3 :: b4 :: b5 :: b6 :: b7 :: rest => byteMsb [b0, b1, b2, b3, b4, b5, b6, b7] :: packMsb rest
  | [] => []
  | l => [byteMsb l]

/-- HFE stores FM at twice the cell rate: every FM cell `b` becomes `0 b` -/
def hfeSideBits (fm : Bool) (cells : List Bool) : List Bool :=
  if fm then cells.flatMap (fun b => [false, b]) else cells

/-- an item of an HFEv3 side stream -/
inductive V3Item where
  | cells (b : Nat)                 -- a byte of eight cells (LSB first in time)
  | nop
  | setIndex
  | setBitrate (v : Nat)
  | skipBits (k : Nat) (b : Nat)    -- the first k cells (in time) of byte b are to be ignored
deriving Repr, Inhabited

/-- the bytes of a v3 stream as stored (opcodes are defined on the bit-reversed byte) -/
def v3Bytes : List V3Item → Bytes
  | [] => []
  | .cells b :: r => b :: v3Bytes r
  | .nop :: r => revBits 0xF0 :: v3Bytes r
  | .setIndex :: r => revBits 0xF1 :: v3Bytes r
  | .setBitrate v :: r => revBits 0xF2 :: revBits v :: v3Bytes r
  | .skipBits k b :: r => revBits 0xF3 :: revBits k :: b :: v3Bytes r

/-- the cells a v3 stream denotes, in time order -/
def v3Cells : List V3Item → List Bool
  | [] => []
  | .cells b :: r => (List.range 8).map (fun i => (b >>> i) % 2 == 1) ++ v3Cells r
  | .skipBits k b :: r => ((List.range 8).map (fun i => (b >>> i) % 2 == 1)).drop k ++ v3Cells r
  | _ :: r => v3Cells r

def pad (n : Nat) (b : Bytes) (fill : Nat := 0) : Bytes := b ++ List.replicate (n - b.length) fill

/-- interleave the two sides' byte streams in 256-byte blocks (side 1 blank for a
    one-sided image), the whole padded to a multiple of 512 bytes -/
def hfeTrackData (s0 s1 : Bytes) : Bytes :=
  let n := max s0.length s1.length
  let nblk := (n + 255) / 256
  (List.range nblk).flatMap fun b => pad 256 ((s0.drop (256 * b)).take 256) ++ pad 256 ((s1.drop (256 * b)).take 256)

def leBytes2 (n : Nat) : Bytes := [n % 256, n / 256 % 256]
def leBytes4 (n : Nat) : Bytes := [n % 256, n / 256 % 256, n / 65536 % 256, n / 16777216 % 256]

/-- an HFE image: `tracks` = per track, the stored byte stream of side 0 and side 1.
    Track data follow the header block and the LUT block(s), 512-byte aligned. -/
def hfeImage (v3 fm : Bool) (sides : Nat) (tracks : List (Bytes × Bytes)) : Bytes :=
  let sig := strBytes (if v3 then "HXCHFEV3" else "HXCPICFE")
  let hdr := pad 512 (sig ++ [0, tracks.length, sides, if fm then 2 else 0] ++ leBytes2 250 ++ leBytes2 300 ++ [7, 1] ++ leBytes2 1 ++
                      [0xFF, 0xFF, 0xFF, 0xFF, 0xFF, 0xFF]) 0xFF
  let lutBlocks := max 1 ((tracks.length * 4 + 511) / 512)
  let datas := tracks.map fun t => hfeTrackData t.1 t.2
  let offs := datas.foldl (fun (acc : List Nat × Nat) d => (acc.1 ++ [acc.2], acc.2 + d.length / 512)) ([], 1 + lutBlocks)
  let lut := pad (512 * lutBlocks) ((offs.1.zip datas).flatMap fun (o, d) => leBytes2 o ++ leBytes2 d.length) 0xFF
  hdr ++ lut ++ datas.flatten

/-- an HxC MFM image: `tracks` = per track, per side, the MFM cells -/
def hxcImage (sides : Nat) (tracks : List (List (List Bool))) : Bytes :=
  let ntr := tracks.length
  let hdr := strBytes "HXCMFM" ++ [0] ++ leBytes2 ntr ++ [sides] ++ leBytes2 300 ++ leBytes2 250 ++ [4] ++ leBytes4 0x13
  let blobs : List (Nat × Nat × Bytes) :=
    (tracks.zipIdx).flatMap fun (per, t) => (per.zipIdx).map fun (cells, sd) => (t, sd, packMsb cells)
  let ents := blobs.foldl (fun (acc : Bytes × Nat) (e : Nat × Nat × Bytes) =>
      (acc.1 ++ leBytes2 e.1 ++ [e.2.1] ++ leBytes4 e.2.2.length ++ leBytes4 acc.2, acc.2 + e.2.2.length))
    ([], 0x13 + 11 * blobs.length)
  hdr ++ ents.1 ++ (blobs.map (·.2.2)).flatten

/-- how one track of a side was laid down: the gaps and the physical order of the records -/
structure Recording where
  lay : Layout
  order : List Nat

end Beeb.Spec.Flux
