/-
Specification side of C14: an abstract non-overlapping layout of files on a
volume, and what "used", "unallocated runs" and "owner of a sector" mean.
-/
import Beeb.Model.Base

namespace Beeb.Spec

/-- a file's extent: start sector and number of sectors it owns (0 for an empty file) -/
structure Extent where
  start : Nat
  size : Nat
deriving Repr, DecidableEq

def Extent.stop (x : Extent) : Nat := x.start + x.size

/-- files in ascending disc order, pairwise disjoint, after the catalogue's own
    sectors and inside the volume -/
def LayoutWF (catSectors total : Nat) : List Extent → Prop
  | [] => catSectors ≤ total
  | x :: rest => catSectors ≤ x.start ∧ 0 < x.size ∧ LayoutWF x.stop total rest

/-- lengths of the runs of unallocated sectors, in ascending disc order, zero-length runs included -/
def runsFrom (pos total : Nat) : List Extent → List Nat
  | [] => [total - pos]
  | x :: rest => (x.start - pos) :: runsFrom x.stop total rest

/-- total number of sectors owned by the files -/
def ownedSectors (xs : List Extent) : Nat := (xs.map (·.size)).foldl (· + ·) 0

/-- used sectors as `free` must report them: one past the highest sector any file
    occupies, the catalogue's own sectors when there is none -/
def usedSectors (catSectors : Nat) (xs : List Extent) : Nat :=
  xs.foldl (fun u x => if x.size = 0 then u else max u x.stop) catSectors

end Beeb.Spec
