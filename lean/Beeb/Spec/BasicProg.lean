/-
Specification side of C03/C09: abstract BBC BASIC programs, their encoding in
the two file formats of doc/bbcbasic.5, and the listing the manual defines.
-/
import Beeb.Model.Tok

namespace Beeb.Spec
open Beeb

inductive Item where
  | lit (c : Nat)                    -- a character outside strings that represents itself
  | tok (t : Nat)                    -- single-byte keyword token
  | ext (intro second : Nat)         -- two-byte extension token (0xC6/0xC7/0xC8 + code)
  | pdpQuit                          -- PDP11: 0xC8 0x98
  | pdpLoad                          -- PDP11: 0xC8 followed by anything else
  | lineRef (n : Nat)                -- 0x8D + three bytes (GOTO/GOSUB/RESTORE target)
  | str (s : Bytes) (closed : Bool)  -- string literal: opening quote, content, closing quote unless the line ends first
deriving Repr, DecidableEq

structure Line where
  num : Nat
  items : List Item
deriving Repr, DecidableEq

abbrev Program := List Line

/-- three bytes following 0x8D: the inverse of the decoding formula of doc/bbcbasic.5
    "LINE NUMBERS": `(((b3 ^ (b1<<4)) & 0xFF) << 8) | (b2 ^ ((b1<<2) & 0xC0))` -/
def encodeRef (n : Nat) : Bytes :=
  let hi := n / 256 % 256
  let lo := n % 256
  [ (((lo &&& 0xC0) >>> 2) ||| ((hi &&& 0xC0) >>> 4)) ^^^ 0x54,
    (lo &&& 0x3F) ||| 0x40,
    (hi &&& 0x3F) ||| 0x40 ]

/-- the documented decoding formula -/
def decodeRef (b1 b2 b3 : Nat) : Nat :=
  ((((b3 ^^^ (b1 <<< 4)) &&& 0xFF) <<< 8) ||| (b2 ^^^ ((b1 <<< 2) &&& 0xC0)))

def encodeItem : Item → Bytes
  | .lit c => [c]
  | .tok t => [t]
  | .ext a b => [a, b]
  | .pdpQuit => [0xC8, 0x98]
  | .pdpLoad => [0xC8]
  | .lineRef n => 0x8D :: encodeRef n
  | .str s closed => 34 :: s ++ (if closed then [34] else [])

def encodeItems (l : List Item) : Bytes := l.flatMap encodeItem

/-- big-endian file: lines `0D hi lo len data`, end marker `0D FF` -/
def encodeBE (p : Program) : Bytes :=
  p.flatMap (fun l => [0x0D, l.num / 256, l.num % 256, (encodeItems l.items).length + 4] ++ encodeItems l.items) ++ [0x0D, 0xFF]

/-- little-endian file: lines `len lo hi data 0D`, end marker `00 FF FF` -/
def encodeLE (p : Program) : Bytes :=
  p.flatMap (fun l => [(encodeItems l.items).length + 4, l.num % 256, l.num / 256] ++ encodeItems l.items ++ [0x0D]) ++ [0x00, 0xFF, 0xFF]

/-- one dialect's keyword tables: base, c6, c7, c8 -/
structure Tables where
  base : Array Tok
  c6 : Array Tok
  c7 : Array Tok
  c8 : Array Tok

def Tables.look (a : Array Tok) (i : Nat) : Tok := a.getD i .null

def Tables.extMap (t : Tables) (intro : Nat) : Array Tok :=
  if intro == 0xC6 then t.c6 else if intro == 0xC7 then t.c7 else t.c8

/-- the text of an item in the listing -/
def renderItem (t : Tables) : Item → Bytes
  | .lit c => [c]
  | .tok k => (match Tables.look t.base k with | .str s => s | _ => [])
  | .ext a b => (match Tables.look (t.extMap a) b with | .str s => s | _ => [])
  | .pdpQuit => strBytes "QUIT"
  | .pdpLoad => strBytes "LOAD"
  | .lineRef n => decU n
  | .str s closed => 34 :: s ++ (if closed then [34] else [])

def countItem (k : Nat) (l : List Item) : Nat := (l.filter (· == Item.tok k)).length

def lbit (n k : Nat) : Bool := (n / 2 ^ k) % 2 == 1

/-- one line of the listing and the indentation carried to the next line:
    5-column right-aligned number (blank when 0), a space if LISTO bit 0, then the
    FOR/NEXT (bit 1) and REPEAT/UNTIL (bit 2) indentation: NEXT/UNTIL un-indent the
    line they are on, FOR/REPEAT indent the lines that follow. -/
def renderLine (t : Tables) (listo : Nat) (indent : Int) (l : Line) : Bytes × Int :=
  let outdent : Nat := (if lbit listo 1 then 2 * countItem 0xED l.items else 0) + (if lbit listo 2 then 2 * countItem 0xFD l.items else 0)
  let ind1 : Int := indent - outdent
  let text := (if l.num != 0 then padLeft 5 32 (decU l.num) else List.replicate 5 32) ++
    (if lbit listo 0 then [32] else []) ++ List.replicate ind1.toNat 32 ++ l.items.flatMap (renderItem t) ++ [10]
  let more : Nat := (if lbit listo 1 then 2 * countItem 0xE3 l.items else 0) + (if lbit listo 2 then 2 * countItem 0xF5 l.items else 0)
  (text, ind1 + more)

def renderFrom (t : Tables) (listo : Nat) : Int → Program → Bytes
  | _, [] => []
  | indent, l :: rest =>
    let (text, ind') := renderLine t listo indent l
    text ++ renderFrom t listo ind' rest

def render (t : Tables) (listo : Nat) (p : Program) : Bytes := renderFrom t listo 0 p

/-- well-formed item for a dialect's tables -/
def ItemWF (t : Tables) (pdp : Bool) : Item → Prop
  | .lit c => c ≠ 0 ∧ c ≠ 34 ∧ c < 256 ∧ Tables.look t.base c = .str [c]
  | .tok k => k < 256 ∧ k ≠ 34 ∧ k ≠ 0 ∧ ∃ s, Tables.look t.base k = .str s
  | .ext a b => (a = 0xC6 ∨ a = 0xC7 ∨ a = 0xC8) ∧ b < 256 ∧ Tables.look t.base a = .ext ∧ ∃ s, Tables.look (t.extMap a) b = .str s
  | .pdpQuit => pdp = true ∧ Tables.look t.base 0xC8 = .pdp
  | .pdpLoad => pdp = true ∧ Tables.look t.base 0xC8 = .pdp
  | .lineRef n => n < 65536 ∧ Tables.look t.base 0x8D = .lineNum
  | .str s _ => ∀ c ∈ s, c ≠ 0 ∧ c ≠ 34 ∧ c < 256

/-- items of a line: an unclosed string can only be last; PDP11 LOAD must be
    followed by an item whose first byte is not 0x98 -/
def ItemsWF (t : Tables) (pdp : Bool) : List Item → Prop
  | [] => True
  | [i] => ItemWF t pdp i ∧ i ≠ .pdpLoad
  | i :: j :: rest =>
    ItemWF t pdp i ∧ (∀ s, i ≠ .str s false) ∧
    (i = .pdpLoad → (encodeItem j).head? ≠ some 0x98) ∧ ItemsWF t pdp (j :: rest)

def LineWF (t : Tables) (pdp : Bool) (maxNum : Nat) (l : Line) : Prop :=
  l.num < maxNum ∧ (encodeItems l.items).length + 4 ≤ 255 ∧ ItemsWF t pdp l.items

/-- `maxNum` = 65280 for big-endian files (0xFF as high byte is the end marker), 65536 for little-endian -/
def ProgramWF (t : Tables) (pdp : Bool) (maxNum : Nat) (p : Program) : Prop := ∀ l ∈ p, LineWF t pdp maxNum l

end Beeb.Spec
