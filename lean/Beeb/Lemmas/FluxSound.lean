/-
Lemmas behind C06: soundness of the FM / MFM track decoders (every sector they
return was read, with passing CRCs, from the cells after an ID mark and a data
mark), the mark patterns, `checkTrack`, and the HFE / HxC MFM block devices.
-/
import Beeb.Model.FluxImg

namespace Beeb.FluxSoundL
open Beeb Beeb.Gen Beeb.Flux

/-! ### cells before a position -/

/-- value of the `n` cells before `pos`, first cell most significant
    (same body as `Beeb.Props.C06.cellsBefore`) -/
def cells (s : BitStream) (pos n : Nat) : Nat :=
  (List.range n).foldl (fun acc i => 2 * acc + (if s.get (pos - n + i) then 1 else 0)) 0

theorem cells_zero (s : BitStream) (pos : Nat) : cells s pos 0 = 0 := rfl

theorem cells_succ (s : BitStream) (pos n : Nat) (h : n ≤ pos) :
    cells s (pos + 1) (n + 1) = 2 * cells s pos n + (if s.get pos then 1 else 0) := by
  unfold cells
  rw [List.range_succ, List.foldl_append]
  simp only [List.foldl_cons, List.foldl_nil, Nat.add_sub_add_right, Nat.sub_add_cancel h]

/-! ### `scanFor` -/

theorem shift_mod (sh n : Nat) (b : Nat) (hb : b ≤ 1) (hn : n + 1 ≤ 64) :
    ((sh * 2) % 18446744073709551616 + b) % 2 ^ (n + 1) = 2 * (sh % 2 ^ n) + b := by
  have h64 : (18446744073709551616 : Nat) = 2 ^ (n + 1) * 2 ^ (64 - (n + 1)) := by
    rw [← Nat.pow_add]
    have : n + 1 + (64 - (n + 1)) = 64 := by omega
    rw [this]
  have hA : (sh * 2) % 18446744073709551616 % 2 ^ (n + 1) = 2 * (sh % 2 ^ n) := by
    rw [h64, Nat.mod_mul_right_mod, Nat.pow_succ, Nat.mul_comm sh 2, Nat.mul_comm (2 ^ n) 2,
      Nat.mul_mod_mul_left]
  have hr : sh % 2 ^ n < 2 ^ n := Nat.mod_lt _ (Nat.pow_pos (by decide))
  have hM : 2 ^ (n + 1) = 2 * 2 ^ n := by rw [Nat.pow_succ, Nat.mul_comm]
  rw [Nat.add_mod, hA]
  have hbm : b % 2 ^ (n + 1) = b := Nat.mod_eq_of_lt (by rw [hM]; omega)
  rw [hbm]
  exact Nat.mod_eq_of_lt (by rw [hM]; omega)

theorem scanLoop_spec (s : BitStream) (val mask width : Nat) :
    ∀ (fuel i sh got : Nat) (r : Nat × Nat),
      got ≤ i → (∀ n, n ≤ got → n ≤ 64 → sh % 2 ^ n = cells s i n) →
      scanLoop s val mask width fuel i sh got = some r →
      i ≤ r.1 ∧ width ≤ r.1 + 1 ∧ (r.2 &&& mask) = (val &&& mask) ∧
        ∀ n, n ≤ width → n ≤ 64 → r.2 % 2 ^ n = cells s (r.1 + 1) n := by
  intro fuel
  induction fuel with
  | zero => intro i sh got r _ _ h; simp [scanLoop] at h
  | succ fuel ih =>
    intro i sh got r hgi hinv h
    unfold scanLoop at h
    split at h
    · simp at h
    · have hnew : ∀ n, n ≤ got + 1 → n ≤ 64 →
          ((sh * 2) % 18446744073709551616 + (if s.get i then 1 else 0)) % 2 ^ n = cells s (i + 1) n := by
        intro n hn h64
        cases n with
        | zero => simp [cells_zero, Nat.mod_one]
        | succ n =>
          rw [cells_succ s i n (by omega), shift_mod sh n _ (by split <;> omega) h64,
            hinv n (by omega) (by omega)]
      generalize hb : (if s.get i then 1 else 0 : Nat) = b at h hnew
      by_cases hc : (decide (got + 1 ≥ width) &&
          ((sh * 2 % 18446744073709551616 + b) &&& mask) == (val &&& mask)) = true
      · rw [if_pos hc] at h
        simp only [Bool.and_eq_true, decide_eq_true_eq, beq_iff_eq] at hc
        simp only [Option.some.injEq] at h
        subst h
        refine ⟨Nat.le_refl _, by simp only []; omega, hc.2, ?_⟩
        intro n hn h64
        exact hnew n (by omega) h64
      · rw [if_neg hc] at h
        have := ih (i + 1) _ (got + 1) r (by omega) hnew h
        exact ⟨by omega, this.2⟩

theorem scanFor_spec (s : BitStream) (start val mask width : Nat) (i sh : Nat)
    (h : scanFor s start val mask width = some (i, sh)) :
    start ≤ i ∧ width ≤ i + 1 ∧ (sh &&& mask) = (val &&& mask) ∧
      ∀ n, n ≤ width → n ≤ 64 → sh % 2 ^ n = cells s (i + 1) n := by
  unfold scanFor at h
  exact scanLoop_spec s val mask width _ start 0 0 (i, sh) (Nat.zero_le _)
    (by intro n hn _; have : n = 0 := by omega
        subst this; simp [cells_zero]) h

/-! ### byte readers -/

theorem fmGo_spec (s : BitStream) : ∀ (k pos clock data c d p : Nat),
    fmReadByte.go s k pos clock data = some (c, d, p) →
    p = pos + 2 * k ∧ d + 1 ≤ (data + 1) * 2 ^ k := by
  intro k
  induction k with
  | zero =>
    intro pos clock data c d p h
    simp only [fmReadByte.go, Option.some.injEq, Prod.mk.injEq] at h
    obtain ⟨_, rfl, rfl⟩ := h
    simp
  | succ k ih =>
    intro pos clock data c d p h
    unfold fmReadByte.go at h
    split at h
    · simp at h
    · have := ih _ _ _ c d p h
      refine ⟨by omega, ?_⟩
      have h2 : (data * 2 + (if s.get (pos + 1) then 1 else 0) + 1) * 2 ^ k ≤ (data + 1) * 2 ^ (k + 1) := by
        rw [Nat.pow_succ, Nat.mul_comm (2 ^ k) 2, ← Nat.mul_assoc]
        apply Nat.mul_le_mul_right
        split <;> omega
      exact Nat.le_trans this.2 h2

theorem fmReadByte_spec (s : BitStream) (pos c d p : Nat) (h : fmReadByte s pos = some (c, d, p)) :
    p = pos + 16 ∧ d < 256 := by
  have := fmGo_spec s 8 pos 0 0 c d p h
  omega

theorem fmCopy_spec (s : BitStream) : ∀ (n pos : Nat) (acc bytes : Bytes) (p : Nat),
    fmCopyBytes s n pos acc = (true, bytes, p) →
    bytes.length = acc.length + n ∧ p = pos + 16 * n ∧
      ((∀ b ∈ acc, b < 256) → ∀ b ∈ bytes, b < 256) := by
  intro n
  induction n with
  | zero =>
    intro pos acc bytes p h
    simp only [fmCopyBytes, Prod.mk.injEq, true_and] at h
    obtain ⟨rfl, rfl⟩ := h
    simp
  | succ n ih =>
    intro pos acc bytes p h
    unfold fmCopyBytes at h
    split at h
    · simp at h
    · rename_i c d p' hrd
      have hb := fmReadByte_spec s pos c d p' hrd
      split at h
      · have := ih p' (d :: acc) bytes p h
        refine ⟨by simp only [List.length_cons] at this; omega, by omega, ?_⟩
        intro hacc
        apply this.2.2
        intro b hb'
        rcases List.mem_cons.mp hb' with rfl | hb'
        · exact hb.2
        · exact hacc b hb'
      · simp at h

theorem mfmGo_spec (s : BitStream) : ∀ (k pos : Nat) (prev : Bool) (data d p : Nat),
    mfmReadByte.go s k pos prev data = (some d, p) →
    p = pos + 2 * k ∧ d + 1 ≤ (data + 1) * 2 ^ k := by
  intro k
  induction k with
  | zero =>
    intro pos prev data d p h
    simp only [mfmReadByte.go, Prod.mk.injEq, Option.some.injEq] at h
    obtain ⟨rfl, rfl⟩ := h
    simp
  | succ k ih =>
    intro pos prev data d p h
    unfold mfmReadByte.go at h
    split at h
    · simp at h
    · simp only [] at h
      split at h
      · simp at h
      · have := ih _ _ _ d p h
        refine ⟨by omega, ?_⟩
        have h2 : (data * 2 + (if s.get (pos + 1) then 1 else 0) + 1) * 2 ^ k ≤ (data + 1) * 2 ^ (k + 1) := by
          rw [Nat.pow_succ, Nat.mul_comm (2 ^ k) 2, ← Nat.mul_assoc]
          apply Nat.mul_le_mul_right
          split <;> omega
        exact Nat.le_trans this.2 h2

theorem mfmReadByte_spec (s : BitStream) (pos d p : Nat) (h : mfmReadByte s pos = (some d, p)) :
    p = pos + 16 ∧ d < 256 := by
  have := mfmGo_spec s 8 pos _ 0 d p h
  omega

theorem mfmCopy_spec (s : BitStream) : ∀ (n pos : Nat) (acc bytes : Bytes) (p : Nat),
    mfmCopyBytes s n pos acc = (true, bytes, p) →
    bytes.length = acc.length + n ∧ p = pos + 16 * n ∧
      ((∀ b ∈ acc, b < 256) → ∀ b ∈ bytes, b < 256) := by
  intro n
  induction n with
  | zero =>
    intro pos acc bytes p h
    simp only [mfmCopyBytes, Prod.mk.injEq, true_and] at h
    obtain ⟨rfl, rfl⟩ := h
    simp
  | succ n ih =>
    intro pos acc bytes p h
    unfold mfmCopyBytes at h
    split at h
    · simp at h
    · rename_i d p' hrd
      have hb := mfmReadByte_spec s pos d p' hrd
      have := ih p' (d :: acc) bytes p h
      refine ⟨by simp only [List.length_cons] at this; omega, by omega, ?_⟩
      intro hacc
      apply this.2.2
      intro b hb'
      rcases List.mem_cons.mp hb' with rfl | hb'
      · exact hb.2
      · exact hacc b hb'

theorem take_append_two (l : Bytes) : ∀ (n : Nat), l.length = n + 2 →
    l.take n ++ [l.getD n 0, l.getD (n + 1) 0] = l := by
  induction l with
  | nil => intro n h; simp at h
  | cons x t ih =>
    intro n h
    cases n with
    | zero =>
      cases t with
      | nil => simp at h
      | cons a t' =>
        cases t' with
        | nil => rfl
        | cons _ _ => simp at h
    | succ n =>
      have := ih n (by simp only [List.length_cons] at h; omega)
      simp only [List.take_succ_cons, List.cons_append, List.getD_cons_succ]
      rw [this]

/-! ### `checkTrack` -/

theorem checkGo_cons (track side : Nat) (x : FSector) (rest : List FSector) (prev : Option Nat) :
    checkTrack.go track side (x :: rest) prev = true ↔
      (x.head = side ∧ x.cyl = track ∧ (∀ p, prev = some p → p ≠ x.record ∧ x.record ≤ p + 1) ∧
        x.data.length = 256 ∧ checkTrack.go track side rest (some x.record) = true) := by
  cases prev <;> simp [checkTrack.go]

theorem checkGo_sound (track side : Nat) : ∀ (secs : List FSector) (prev : Option Nat),
    checkTrack.go track side secs prev = true →
    ∀ x ∈ secs, x.cyl = track ∧ x.head = side ∧ x.data.length = 256 := by
  intro secs
  induction secs with
  | nil => intro _ _ x hx; simp at hx
  | cons y rest ih =>
    intro prev h x hx
    rw [checkGo_cons] at h
    rcases List.mem_cons.mp hx with rfl | hx
    · exact ⟨h.2.1, h.1, h.2.2.2.1⟩
    · exact ih _ h.2.2.2.2 x hx

theorem checkTrack_sound (secs : List FSector) (track side : Nat) (h : checkTrack secs track side = true) :
    ∀ x ∈ secs, x.cyl = track ∧ x.head = side ∧ x.data.length = 256 :=
  checkGo_sound track side secs none h

/-! ### marks from the shift register -/

theorem mark_full48 (sh v : Nat) (hv : v < 2 ^ 48)
    (h : (sh &&& 0xFFFFFFFFFFFF) = (v &&& 0xFFFFFFFFFFFF)) : sh % 2 ^ 48 = v := by
  have hm : (0xFFFFFFFFFFFF : Nat) = 2 ^ 48 - 1 := by decide
  rw [hm, Nat.and_two_pow_sub_one_eq_mod, Nat.and_two_pow_sub_one_eq_mod, Nat.mod_eq_of_lt hv] at h
  exact h

theorem mark_full64 (sh v : Nat) (hv : v < 2 ^ 64)
    (h : (sh &&& 0xFFFFFFFFFFFFFFFF) = (v &&& 0xFFFFFFFFFFFFFFFF)) : sh % 2 ^ 64 = v := by
  have hm : (0xFFFFFFFFFFFFFFFF : Nat) = 2 ^ 64 - 1 := by decide
  rw [hm, Nat.and_two_pow_sub_one_eq_mod, Nat.and_two_pow_sub_one_eq_mod, Nat.mod_eq_of_lt hv] at h
  exact h

theorem mark_data (sh : Nat)
    (h1 : (sh &&& 0xFFFFFFFFFFFA) = (0xAAAAAAAAF56A &&& 0xFFFFFFFFFFFA))
    (h2 : sh % 65536 = 0xF56F) : sh % 2 ^ 48 = 0xAAAAAAAAF56F := by
  have h3 := congrArg (· >>> 16) h1
  simp only [Nat.shiftRight_and_distrib] at h3
  have hm : (0xFFFFFFFFFFFA : Nat) >>> 16 = 2 ^ 32 - 1 := by decide
  have hv : ((0xAAAAAAAAF56A : Nat) >>> 16 &&& (2 ^ 32 - 1)) = 0xAAAAAAAA := by decide
  rw [hm, hv, Nat.and_two_pow_sub_one_eq_mod, Nat.shiftRight_eq_div_pow] at h3
  omega

/-! ### FM decoder -/

/-- what C06 claims about a sector returned by the FM decoder (soundness and marks) -/
def FmOK (s : BitStream) (sec : FSector) : Prop :=
  (∃ code c1 c2,
      (∃ p', fmCopyBytes s [sec.cyl, sec.head, sec.record, code, c1, c2].length sec.idPos [] =
        (true, [sec.cyl, sec.head, sec.record, code, c1, c2], p')) ∧
      ccitt [0xFE, sec.cyl, sec.head, sec.record, code, c1, c2] = 0 ∧
      sizeOfCode code = some sec.data.length ∧
      (∃ p', fmCopyBytes s (sec.data ++ [sec.crc1, sec.crc2]).length sec.dataPos [] =
        (true, sec.data ++ [sec.crc1, sec.crc2], p')) ∧
      ccitt (0xFB :: (sec.data ++ [sec.crc1, sec.crc2])) = 0 ∧
      sec.idPos + 96 ≤ sec.dataPos ∧ sec.dataPos ≤ sec.idPos + 96 + 1024) ∧
  (48 ≤ sec.idPos ∧ cells s sec.idPos 48 = 0xAAAAAAAAF57E ∧
    48 ≤ sec.dataPos ∧ cells s sec.dataPos 48 = 0xAAAAAAAAF56F)

/-- the pending ID field of the `.record` state -/
def FmPend (s : BitStream) (cyl head rec sz idPos : Nat) : Prop :=
  ∃ code c1 c2 p', fmCopyBytes s 6 idPos [] = (true, [cyl, head, rec, code, c1, c2], p') ∧
    ccitt [0xFE, cyl, head, rec, code, c1, c2] = 0 ∧ sizeOfCode code = some sz ∧
    48 ≤ idPos ∧ cells s idPos 48 = 0xAAAAAAAAF57E

def FmStOK (s : BitStream) (thisbit : Nat) : FmState → Prop
  | .address => True
  | .record cyl head rec sz idPos => FmPend s cyl head rec sz idPos ∧ thisbit = idPos + 96

theorem fmFind_spec (s : BitStream) : ∀ (fuel thisbit mark pos : Nat),
    fmFindRecordMark s fuel thisbit = some (mark, pos) →
    thisbit < pos ∧ 48 ≤ pos ∧ (mark = 0xF56A ∨ mark = 0xF56F) ∧
      (mark = 0xF56F → cells s pos 48 = 0xAAAAAAAAF56F) := by
  intro fuel
  induction fuel with
  | zero => intro thisbit mark pos h; simp [fmFindRecordMark] at h
  | succ fuel ih =>
    intro thisbit mark pos h
    unfold fmFindRecordMark at h
    split at h
    · simp at h
    · split at h
      · simp at h
      · rename_i i sh hscan
        have hs := scanFor_spec s _ _ _ _ i sh hscan
        simp only [] at h
        split at h
        · rename_i hlow
          simp only [Option.some.injEq, Prod.mk.injEq] at h
          obtain ⟨rfl, rfl⟩ := h
          simp only [Bool.or_eq_true, beq_iff_eq] at hlow
          refine ⟨by omega, hs.2.1, hlow, ?_⟩
          intro hm
          rw [← hs.2.2.2 48 (Nat.le_refl _) (by decide)]
          exact mark_data sh hs.2.2.1 hm
        · have := ih (i + 1) mark pos h
          exact ⟨by omega, this.2⟩

theorem fm_address_step (s : BitStream) (thisbit i sh : Nat) (bytes : Bytes) (pos' sz : Nat)
    (hscan : scanFor s thisbit 0xAAAAAAAAF57E 0xFFFFFFFFFFFF 48 = some (i, sh))
    (hc : fmCopyBytes s 6 (i + 1) [] = (true, bytes, pos'))
    (hcrc : ccitt (0xFE :: bytes) = 0)
    (hsz : sizeOfCode ((0xFE :: bytes).getD 4 0) = some sz) :
    FmStOK s pos' (.record ((0xFE :: bytes).getD 1 0) ((0xFE :: bytes).getD 2 0)
      ((0xFE :: bytes).getD 3 0) sz (i + 1)) := by
  have hs := scanFor_spec s _ _ _ _ i sh hscan
  have hl := fmCopy_spec s 6 (i + 1) [] bytes pos' hc
  have hlen : bytes.length = 6 := by simpa using hl.1
  match bytes, hlen with
  | [b0, b1, b2, b3, b4, b5], _ =>
    refine ⟨⟨b3, b4, b5, pos', hc, hcrc, hsz, hs.2.1, ?_⟩, by omega⟩
    rw [← hs.2.2.2 48 (Nat.le_refl _) (by decide)]
    exact mark_full48 sh _ (by decide) hs.2.2.1

theorem fm_record_step (s : BitStream) (thisbit cyl head rec sz idPos pos : Nat) (bytes : Bytes) (pos' : Nat)
    (hst : FmStOK s thisbit (.record cyl head rec sz idPos))
    (hfind : fmFindRecordMark s (s.bits.size + 1) thisbit = some (0xF56F, pos))
    (hdist : ¬ pos - thisbit > 64 * 16)
    (hc : fmCopyBytes s (sz + 2) pos [] = (true, bytes, pos'))
    (hcrc : ccitt (0xFB :: bytes) = 0) :
    FmOK s { cyl := cyl, head := head, record := rec, data := bytes.take sz,
             crc1 := bytes.getD sz 0, crc2 := bytes.getD (sz + 1) 0, idPos := idPos, dataPos := pos } := by
  obtain ⟨⟨code, c1, c2, p', hid, hidcrc, hcode, h48, hcells⟩, hthis⟩ := hst
  have hf := fmFind_spec s _ _ _ _ hfind
  have hl := fmCopy_spec s (sz + 2) pos [] bytes pos' hc
  have hlen : bytes.length = sz + 2 := by simpa using hl.1
  have hb := take_append_two bytes sz hlen
  have hdl : (bytes.take sz).length = sz := by rw [List.length_take]; omega
  refine ⟨⟨code, c1, c2, ⟨p', hid⟩, hidcrc, ?_, ⟨pos', ?_⟩, ?_, ?_, ?_⟩, h48, hcells, hf.2.1, hf.2.2.2 rfl⟩
  · simp only [hdl]; exact hcode
  · simp only [hb, hlen]; exact hc
  · simp only [hb]; exact hcrc
  · simp only []; omega
  · simp only []; omega

theorem fmLoop_inv (s : BitStream) : ∀ (fuel thisbit : Nat) (st : FmState) (acc : List FSector) (dr : Bool),
    FmStOK s thisbit st → (∀ x ∈ acc, FmOK s x) →
    ∀ x ∈ (fmLoop s fuel thisbit st acc dr).1, FmOK s x := by
  intro fuel
  induction fuel with
  | zero =>
    intro thisbit st acc dr _ hacc x hx
    simp only [fmLoop, List.mem_reverse] at hx
    exact hacc x hx
  | succ fuel ih =>
    intro thisbit st acc dr hst hacc
    have base : ∀ x ∈ ((acc.reverse, dr) : List FSector × Bool).1, FmOK s x := by
      intro x hx
      simp only [List.mem_reverse] at hx
      exact hacc x hx
    unfold fmLoop
    split
    · exact base
    · cases st with
      | address =>
        simp only []
        split
        · exact base
        · rename_i i sh hscan
          rcases hc : fmCopyBytes s 6 (i + 1) [] with ⟨ok, bytes, pos'⟩
          simp only []
          cases ok with
          | false => exact ih _ _ _ _ trivial hacc
          | true =>
            simp only [Bool.not_true, Bool.false_eq_true, if_false]
            split
            · exact ih _ _ _ _ trivial hacc
            · rename_i hcrc
              simp only [bne_iff_ne, ne_eq, Decidable.not_not] at hcrc
              split
              · exact ih _ _ _ _ trivial hacc
              · rename_i sz hsz
                exact ih _ _ _ _ (fm_address_step s thisbit i sh bytes pos' sz hscan hc hcrc hsz) hacc
      | record cyl head rec sz idPos =>
        simp only []
        split
        · exact base
        · rename_i mark pos hfind
          split
          · exact ih _ _ _ _ trivial hacc
          · rename_i hdist
            rcases hc : fmCopyBytes s (sz + 2) pos [] with ⟨ok, bytes, pos'⟩
            simp only []
            cases ok with
            | false => exact ih _ _ _ _ trivial hacc
            | true =>
              simp only [Bool.not_true, Bool.false_eq_true, if_false]
              have hf := fmFind_spec s _ _ _ _ hfind
              rcases hf.2.2.1 with hm | hm
              · subst hm
                simp only [beq_self_eq_true, if_true, Bool.not_true, Bool.and_false,
                  Bool.false_eq_true, if_false]
                exact ih _ _ _ _ trivial hacc
              · subst hm
                have hne : ((0xF56F : Nat) == 0xF56A) = false := by decide
                simp only [hne, Bool.false_eq_true, if_false, Bool.not_false, Bool.and_true]
                split
                · exact ih _ _ _ _ trivial hacc
                · rename_i hcrc
                  have hcrc' : ccitt (0xFB :: bytes) = 0 := by
                    simpa using hcrc
                  refine ih _ .address _ _ trivial ?_
                  intro x hx
                  rcases List.mem_cons.mp hx with rfl | hx
                  · exact fm_record_step s thisbit cyl head rec sz idPos pos bytes pos' hst hfind hdist hc hcrc'
                  · exact hacc x hx

theorem fmDecode_ok (s : BitStream) (sec : FSector) (h : sec ∈ (decodeFm s).1) : FmOK s sec :=
  fmLoop_inv s _ 0 .address [] false trivial (by intro x hx; simp at hx) sec h

theorem fm_sound (s : BitStream) (sec : FSector) (h : sec ∈ (decodeFm s).1) :
    ∃ code c1 c2,
      (∃ p', fmCopyBytes s [sec.cyl, sec.head, sec.record, code, c1, c2].length sec.idPos [] =
        (true, [sec.cyl, sec.head, sec.record, code, c1, c2], p')) ∧
      ccitt [0xFE, sec.cyl, sec.head, sec.record, code, c1, c2] = 0 ∧
      sizeOfCode code = some sec.data.length ∧
      (∃ p', fmCopyBytes s (sec.data ++ [sec.crc1, sec.crc2]).length sec.dataPos [] =
        (true, sec.data ++ [sec.crc1, sec.crc2], p')) ∧
      ccitt (0xFB :: (sec.data ++ [sec.crc1, sec.crc2])) = 0 ∧
      sec.idPos + 96 ≤ sec.dataPos ∧ sec.dataPos ≤ sec.idPos + 96 + 1024 :=
  (fmDecode_ok s sec h).1

theorem fm_marks (s : BitStream) (sec : FSector) (h : sec ∈ (decodeFm s).1) :
    48 ≤ sec.idPos ∧ cells s sec.idPos 48 = 0xAAAAAAAAF57E ∧
    48 ≤ sec.dataPos ∧ cells s sec.dataPos 48 = 0xAAAAAAAAF56F :=
  (fmDecode_ok s sec h).2

/-! ### MFM decoder -/

def MfmOK (s : BitStream) (sec : FSector) : Prop :=
  (∃ code c1 c2,
      (∃ p', mfmCopyBytes s [0xFE, sec.cyl, sec.head, sec.record, code, c1, c2].length sec.idPos [] =
        (true, [0xFE, sec.cyl, sec.head, sec.record, code, c1, c2], p')) ∧
      ccitt [0xA1, 0xA1, 0xA1, 0xFE, sec.cyl, sec.head, sec.record, code, c1, c2] = 0 ∧
      sizeOfCode code = some sec.data.length ∧
      (∃ p', mfmCopyBytes s (0xFB :: (sec.data ++ [sec.crc1, sec.crc2])).length sec.dataPos [] =
        (true, 0xFB :: (sec.data ++ [sec.crc1, sec.crc2]), p')) ∧
      ccitt ([0xA1, 0xA1, 0xA1, 0xFB] ++ (sec.data ++ [sec.crc1, sec.crc2])) = 0 ∧
      sec.idPos + 112 ≤ sec.dataPos ∧ sec.dataPos ≤ sec.idPos + 112 + 1280) ∧
  (64 ≤ sec.idPos ∧ cells s sec.idPos 64 = 0xAAAA448944894489 ∧
    64 ≤ sec.dataPos ∧ cells s sec.dataPos 64 = 0xAAAA448944894489)

def MfmPend (s : BitStream) (cyl head rec sz idPos : Nat) : Prop :=
  ∃ code c1 c2 p', mfmCopyBytes s 7 idPos [] = (true, [0xFE, cyl, head, rec, code, c1, c2], p') ∧
    ccitt [0xA1, 0xA1, 0xA1, 0xFE, cyl, head, rec, code, c1, c2] = 0 ∧ sizeOfCode code = some sz ∧
    64 ≤ idPos ∧ cells s idPos 64 = 0xAAAA448944894489

def MfmStOK (s : BitStream) (thisbit : Nat) : MfmState → Prop
  | .header => True
  | .record cyl head rec sz idPos hend => MfmPend s cyl head rec sz idPos ∧ hend = idPos + 112 ∧ thisbit = hend

theorem mfm_sync (s : BitStream) (thisbit i sh : Nat)
    (hscan : scanFor s thisbit 0xAAAA448944894489 0xFFFFFFFFFFFFFFFF 64 = some (i, sh)) :
    thisbit ≤ i ∧ 64 ≤ i + 1 ∧ cells s (i + 1) 64 = 0xAAAA448944894489 := by
  have hs := scanFor_spec s _ _ _ _ i sh hscan
  refine ⟨hs.1, hs.2.1, ?_⟩
  rw [← hs.2.2.2 64 (Nat.le_refl _) (Nat.le_refl _)]
  exact mark_full64 sh _ (by decide) hs.2.2.1

theorem mfm_header_step (s : BitStream) (thisbit i sh : Nat) (hdr : Bytes) (pos' sz : Nat)
    (hscan : scanFor s thisbit 0xAAAA448944894489 0xFFFFFFFFFFFFFFFF 64 = some (i, sh))
    (hc : mfmCopyBytes s 7 (i + 1) [] = (true, hdr, pos'))
    (hcrc : ccitt ([0xA1, 0xA1, 0xA1] ++ hdr) = 0)
    (hfe : hdr.getD 0 0 = 0xFE)
    (hsz : sizeOfCode (hdr.getD 4 0) = some sz) :
    MfmStOK s pos' (.record (hdr.getD 1 0) (hdr.getD 2 0) (hdr.getD 3 0) sz (i + 1) pos') := by
  have hs := mfm_sync s thisbit i sh hscan
  have hl := mfmCopy_spec s 7 (i + 1) [] hdr pos' hc
  have hlen : hdr.length = 7 := by simpa using hl.1
  match hdr, hlen with
  | [b0, b1, b2, b3, b4, b5, b6], _ =>
    have : b0 = 0xFE := hfe
    subst this
    exact ⟨⟨b4, b5, b6, pos', hc, hcrc, hsz, hs.2.1, hs.2.2⟩, by omega, rfl⟩

theorem mfm_record_step (s : BitStream) (thisbit cyl head rec sz idPos hend i sh : Nat) (md : Bytes) (pos' : Nat)
    (hst : MfmStOK s thisbit (.record cyl head rec sz idPos hend))
    (hscan : scanFor s thisbit 0xAAAA448944894489 0xFFFFFFFFFFFFFFFF 64 = some (i, sh))
    (hdist : ¬ (i + 1) - hend > 80 * 16)
    (hc : mfmCopyBytes s (sz + 3) (i + 1) [] = (true, md, pos'))
    (hcrc : ccitt ([0xA1, 0xA1, 0xA1] ++ md) = 0)
    (hfb : md.getD 0 0 = 0xFB) :
    MfmOK s { cyl := cyl, head := head, record := rec, data := (md.drop 1).take sz,
              crc1 := md.getD (sz + 1) 0, crc2 := md.getD (sz + 2) 0, idPos := idPos, dataPos := i + 1 } := by
  obtain ⟨⟨code, c1, c2, p', hid, hidcrc, hcode, h64, hcells⟩, hhend, hthis⟩ := hst
  have hs := mfm_sync s thisbit i sh hscan
  have hl := mfmCopy_spec s (sz + 3) (i + 1) [] md pos' hc
  have hlen : md.length = sz + 3 := by simpa using hl.1
  match md, hlen with
  | m0 :: rest, hlen =>
    have : m0 = 0xFB := hfb
    subst this
    have hrl : rest.length = sz + 2 := by simp only [List.length_cons] at hlen; omega
    have hb := take_append_two rest sz hrl
    have hdl : (rest.take sz).length = sz := by rw [List.length_take]; omega
    refine ⟨⟨code, c1, c2, ⟨p', hid⟩, hidcrc, ?_, ⟨pos', ?_⟩, ?_, ?_, ?_⟩, h64, hcells, hs.2.1, hs.2.2⟩
    · simp only [List.drop_succ_cons, List.drop_zero, hdl]; exact hcode
    · simp only [List.drop_succ_cons, List.drop_zero, List.getD_cons_succ, hb, List.length_cons, hrl]
      exact hc
    · simp only [List.drop_succ_cons, List.drop_zero, List.getD_cons_succ, hb]
      exact hcrc
    · simp only []; omega
    · simp only []; omega

theorem mfmLoop_inv (s : BitStream) : ∀ (fuel thisbit : Nat) (st : MfmState) (acc : List FSector),
    MfmStOK s thisbit st → (∀ x ∈ acc, MfmOK s x) →
    ∀ x ∈ mfmLoop s fuel thisbit st acc, MfmOK s x := by
  intro fuel
  induction fuel with
  | zero =>
    intro thisbit st acc _ hacc x hx
    simp only [mfmLoop, List.mem_reverse] at hx
    exact hacc x hx
  | succ fuel ih =>
    intro thisbit st acc hst hacc
    have base : ∀ x ∈ acc.reverse, MfmOK s x := by
      intro x hx
      simp only [List.mem_reverse] at hx
      exact hacc x hx
    have hdr : ∀ i sh, scanFor s thisbit 0xAAAA448944894489 0xFFFFFFFFFFFFFFFF 64 = some (i, sh) →
        ∀ x ∈ (match MfmState.header with
          | .header =>
            let (ok, hdr, pos') := mfmCopyBytes s 7 (i + 1) []
            if ok && ccitt ([0xA1, 0xA1, 0xA1] ++ hdr) == 0 && hdr.getD 0 0 == 0xFE then
              match sizeOfCode (hdr.getD 4 0) with
              | some sz => mfmLoop s fuel pos' (.record (hdr.getD 1 0) (hdr.getD 2 0) (hdr.getD 3 0) sz (i + 1) pos') acc
              | none => mfmLoop s fuel pos' .header acc
            else mfmLoop s fuel pos' .header acc
          | .record cyl head rec sz idPos _ => []), MfmOK s x := by
      intro i sh hscan
      simp only []
      rcases hc : mfmCopyBytes s 7 (i + 1) [] with ⟨ok, hdr, pos'⟩
      simp only []
      split
      · rename_i hcond
        simp only [Bool.and_eq_true, beq_iff_eq] at hcond
        obtain ⟨⟨hok, hcrc⟩, hfe⟩ := hcond
        subst hok
        split
        · rename_i sz hsz
          exact ih _ _ _ (mfm_header_step s thisbit i sh hdr pos' sz hscan hc hcrc hfe hsz) hacc
        · exact ih _ _ _ trivial hacc
      · exact ih _ _ _ trivial hacc
    unfold mfmLoop
    split
    · exact base
    · split
      · exact base
      · rename_i i sh hscan
        cases st with
        | header =>
          exact hdr i sh hscan
        | record cyl head rec sz idPos hend =>
          simp only []
          by_cases hdist : (i + 1) - hend > 80 * 16
          · simp only [if_pos hdist]
            exact hdr i sh hscan
          · simp only [if_neg hdist]
            rcases hc : mfmCopyBytes s (sz + 3) (i + 1) [] with ⟨ok, md, pos'⟩
            simp only []
            split
            · rename_i hcond
              simp only [Bool.and_eq_true, beq_iff_eq] at hcond
              obtain ⟨hok, hcrc⟩ := hcond
              subst hok
              split
              · rename_i hfb
                simp only [beq_iff_eq] at hfb
                refine ih _ .header _ trivial ?_
                intro x hx
                rcases List.mem_cons.mp hx with rfl | hx
                · exact mfm_record_step s thisbit cyl head rec sz idPos hend i sh md pos' hst hscan hdist hc hcrc hfb
                · exact hacc x hx
              · exact ih _ _ _ trivial hacc
            · exact ih _ _ _ trivial hacc

theorem mfmDecode_ok (s : BitStream) (sec : FSector) (h : sec ∈ decodeMfm s) : MfmOK s sec :=
  mfmLoop_inv s _ 0 .header [] trivial (by intro x hx; simp at hx) sec h

theorem mfm_sound (s : BitStream) (sec : FSector) (h : sec ∈ decodeMfm s) :
    ∃ code c1 c2,
      (∃ p', mfmCopyBytes s [0xFE, sec.cyl, sec.head, sec.record, code, c1, c2].length sec.idPos [] =
        (true, [0xFE, sec.cyl, sec.head, sec.record, code, c1, c2], p')) ∧
      ccitt [0xA1, 0xA1, 0xA1, 0xFE, sec.cyl, sec.head, sec.record, code, c1, c2] = 0 ∧
      sizeOfCode code = some sec.data.length ∧
      (∃ p', mfmCopyBytes s (0xFB :: (sec.data ++ [sec.crc1, sec.crc2])).length sec.dataPos [] =
        (true, 0xFB :: (sec.data ++ [sec.crc1, sec.crc2]), p')) ∧
      ccitt ([0xA1, 0xA1, 0xA1, 0xFB] ++ (sec.data ++ [sec.crc1, sec.crc2])) = 0 ∧
      sec.idPos + 112 ≤ sec.dataPos ∧ sec.dataPos ≤ sec.idPos + 112 + 1280 :=
  (mfmDecode_ok s sec h).1

theorem mfm_marks (s : BitStream) (sec : FSector) (h : sec ∈ decodeMfm s) :
    64 ≤ sec.idPos ∧ cells s sec.idPos 64 = 0xAAAA448944894489 ∧
    64 ≤ sec.dataPos ∧ cells s sec.dataPos 64 = 0xAAAA448944894489 :=
  (mfmDecode_ok s sec h).2

/-! ### sorting and address uniqueness within a track -/

theorem insertBy_perm {α} (less : α → α → Bool) (x : α) (l : List α) :
    (insertBy less x l).Perm (x :: l) := by
  induction l with
  | nil => exact List.Perm.refl _
  | cons y ys ih =>
    unfold insertBy
    split
    · exact List.Perm.refl _
    · exact (List.Perm.cons y ih).trans (List.Perm.swap x y ys)

theorem sortBy_perm {α} (less : α → α → Bool) (l : List α) : (sortBy less l).Perm l := by
  induction l with
  | nil => exact List.Perm.refl _
  | cons x xs ih =>
    show (insertBy less x (sortBy less xs)).Perm (x :: xs)
    exact (insertBy_perm less x _).trans (List.Perm.cons x ih)

theorem insertBy_sorted {α} (less : α → α → Bool)
    (asymm : ∀ a b, less a b = true → ¬ less b a = true)
    (trans : ∀ a b c, less a b = true → less b c = true → less a c = true)
    (x : α) (l : List α) (hl : l.Pairwise (fun a b => ¬ less b a = true)) :
    (insertBy less x l).Pairwise (fun a b => ¬ less b a = true) := by
  induction l with
  | nil => simp [insertBy]
  | cons y ys ih =>
    rw [List.pairwise_cons] at hl
    unfold insertBy
    split
    · rename_i hxy
      rw [List.pairwise_cons]
      refine ⟨?_, List.pairwise_cons.mpr hl⟩
      intro z hz
      rcases List.mem_cons.mp hz with rfl | hz
      · exact asymm _ _ hxy
      · intro hzx
        exact hl.1 z hz (trans _ _ _ hzx hxy)
    · rename_i hxy
      rw [List.pairwise_cons]
      refine ⟨?_, ih hl.2⟩
      intro z hz
      have := (insertBy_perm less x ys).mem_iff.mp hz
      rcases List.mem_cons.mp this with rfl | hz
      · exact hxy
      · exact hl.1 z hz

theorem sortBy_sorted {α} (less : α → α → Bool)
    (asymm : ∀ a b, less a b = true → ¬ less b a = true)
    (trans : ∀ a b c, less a b = true → less b c = true → less a c = true)
    (l : List α) : (sortBy less l).Pairwise (fun a b => ¬ less b a = true) := by
  induction l with
  | nil => simp [sortBy]
  | cons x xs ih => exact insertBy_sorted less asymm trans x _ ih

theorem addrLess_iff (a b : FSector) : addrLess a b = true ↔
    (a.cyl < b.cyl ∨ (a.cyl = b.cyl ∧ (a.head < b.head ∨ (a.head = b.head ∧ a.record < b.record)))) := by
  simp [addrLess]

theorem sortSectors_sorted (l : List FSector) :
    (sortSectors l).Pairwise (fun a b => ¬ addrLess b a = true) := by
  apply sortBy_sorted
  · intro a b; rw [addrLess_iff, addrLess_iff]; omega
  · intro a b c; rw [addrLess_iff, addrLess_iff, addrLess_iff]; omega

theorem mem_sortSectors (l : List FSector) (x : FSector) : x ∈ sortSectors l ↔ x ∈ l :=
  (sortBy_perm addrLess l).mem_iff

/-- two sectors do not carry the same address -/
def AddrNe (a b : FSector) : Prop := ¬(a.cyl = b.cyl ∧ a.head = b.head ∧ a.record = b.record)

theorem checkGo_increasing (track side : Nat) : ∀ (l : List FSector) (prev : Option Nat),
    checkTrack.go track side l prev = true →
    l.Pairwise (fun a b => ¬ addrLess b a = true) →
    l.Pairwise (fun a b => a.record < b.record) ∧
      (∀ p, prev = some p → (∀ x ∈ l, p ≤ x.record) → ∀ x ∈ l, p < x.record) := by
  intro l
  induction l with
  | nil => intro prev _ _; exact ⟨List.Pairwise.nil, by intro p _ _ x hx; simp at hx⟩
  | cons x rest ih =>
    intro prev h hs
    rw [checkGo_cons] at h
    obtain ⟨hh, hc, hprev, _, hrest⟩ := h
    rw [List.pairwise_cons] at hs
    have hmem := checkGo_sound track side rest _ hrest
    have ih' := ih (some x.record) hrest hs.2
    have hle : ∀ y ∈ rest, x.record ≤ y.record := by
      intro y hy
      have h1 := hs.1 y hy
      have h2 := hmem y hy
      rw [addrLess_iff] at h1
      omega
    have hlt := ih'.2 x.record rfl hle
    refine ⟨List.pairwise_cons.mpr ⟨hlt, ih'.1⟩, ?_⟩
    intro p hp hall y hy
    have hpx := hprev p hp
    have hpx' := hall x (List.mem_cons_self ..)
    rcases List.mem_cons.mp hy with rfl | hy
    · omega
    · have := hlt y hy
      omega

theorem checkTrack_distinct (l : List FSector) (track side : Nat)
    (h : checkTrack (sortSectors l) track side = true) :
    (sortSectors l).Pairwise AddrNe := by
  have := (checkGo_increasing track side _ none h (sortSectors_sorted l)).1
  refine this.imp ?_
  intro a b hab hne
  have := hne.2.2
  omega

/-! ### HFE -/

theorem decodeTrack_cyl (isFm : Bool) (bits : BitStream) (x : FSector)
    (h : x ∈ (decodeTrack isFm bits).1) : x.cyl < 256 := by
  unfold decodeTrack at h
  cases isFm with
  | true =>
    simp only [if_true] at h
    obtain ⟨⟨code, c1, c2, ⟨p', hid⟩, _⟩, _⟩ := fmDecode_ok bits x h
    exact (fmCopy_spec bits _ _ [] _ p' hid).2.2 (by intro b hb; simp at hb) x.cyl (by simp)
  | false =>
    simp only [Bool.false_eq_true, if_false] at h
    obtain ⟨⟨code, c1, c2, ⟨p', hid⟩, _⟩, _⟩ := mfmDecode_ok bits x h
    exact (mfmCopy_spec bits _ _ [] _ p' hid).2.2 (by intro b hb; simp at hb) x.cyl (by simp)

theorem hfeTrack_spec (f : FileData) (h : HfeHeader) (lut : Bytes) (side t : Nat)
    (secs : List FSector) (nz : Bool) (ht : hfeTrack f h lut side t = some (secs, nz)) :
    ∃ isFm stream noise, hfeTrackStream f h lut side t = some (isFm, stream, noise) ∧
      secs = sortSectors (decodeTrack isFm (hfeBitStream isFm stream)).1 := by
  unfold hfeTrack at ht
  split at ht
  · simp at ht
  · rename_i isFm stream noise hst
    simp only [Option.some.injEq, Prod.mk.injEq] at ht
    exact ⟨isFm, stream, noise, hst, ht.1.symm⟩

theorem hfeTracks_spec (f : FileData) (h : HfeHeader) (lut : Bytes) (side : Nat) :
    ∀ (n track : Nat) (spt : Option Nat) (acc : List FSector) (noise : Bool)
      (res : List FSector) (sptR : Nat) (nz : Bool),
    hfeTracks f h lut side n track spt acc noise = some (res, sptR, nz) →
    (∀ k, spt = some k → sptR = k) ∧
    ∃ rest, res = acc ++ rest ∧ rest.length = n * sptR ∧
      (∀ x ∈ rest, ∃ t secs nz', track ≤ t ∧ t < track + n ∧
        hfeTrack f h lut side t = some (secs, nz') ∧ checkTrack secs t side = true ∧ x ∈ secs) ∧
      (∀ t, track ≤ t → t < track + n → ∃ secs nz',
        hfeTrack f h lut side t = some (secs, nz') ∧ checkTrack secs t side = true ∧ secs.length = sptR) ∧
      rest.Pairwise AddrNe := by
  intro n
  induction n with
  | zero =>
    intro track spt acc noise res sptR nz hh
    simp only [hfeTracks, Option.some.injEq, Prod.mk.injEq] at hh
    obtain ⟨rfl, rfl, _⟩ := hh
    refine ⟨by intro k hk; subst hk; rfl, [], by simp, by simp, by intro x hx; simp at hx,
      by intro t h1 h2; omega, List.Pairwise.nil⟩
  | succ n ih =>
    intro track spt acc noise res sptR nz hh
    unfold hfeTracks at hh
    split at hh
    · simp at hh
    · rename_i secs nz1 htr
      have common : ∀ (k' : Nat) (noise' : Bool), secs.length = k' → checkTrack secs track side = true →
          hfeTracks f h lut side n (track + 1) (some k') (acc ++ secs) noise' = some (res, sptR, nz) →
          sptR = k' ∧
          ∃ rest, res = acc ++ rest ∧ rest.length = (n + 1) * sptR ∧
            (∀ x ∈ rest, ∃ t secs nz', track ≤ t ∧ t < track + (n + 1) ∧
              hfeTrack f h lut side t = some (secs, nz') ∧ checkTrack secs t side = true ∧ x ∈ secs) ∧
            (∀ t, track ≤ t → t < track + (n + 1) → ∃ secs nz',
              hfeTrack f h lut side t = some (secs, nz') ∧ checkTrack secs t side = true ∧ secs.length = sptR) ∧
            rest.Pairwise AddrNe := by
        intro k' noise' hsl' hchk hrec
        obtain ⟨hk, rest, hres, hlen, hmem, hall, hpw⟩ := ih _ _ _ _ _ _ _ hrec
        have hkk := hk _ rfl
        have hsl : secs.length = sptR := by omega
        obtain ⟨isFm, stream, noise', _, hsecs⟩ := hfeTrack_spec f h lut side track secs nz1 htr
        refine ⟨hkk, secs ++ rest, by rw [hres, List.append_assoc], ?_, ?_, ?_, ?_⟩
        · rw [List.length_append, hlen, hsl, Nat.succ_mul]; omega
        · intro x hx
          rcases List.mem_append.mp hx with hx | hx
          · exact ⟨track, secs, nz1, Nat.le_refl _, by omega, htr, hchk, hx⟩
          · obtain ⟨t, secs', nz', h1, h2, h3⟩ := hmem x hx
            exact ⟨t, secs', nz', by omega, by omega, h3⟩
        · intro t h1 h2
          by_cases ht : t = track
          · subst ht
            exact ⟨secs, nz1, htr, hchk, hsl⟩
          · exact hall t (by omega) (by omega)
        · rw [List.pairwise_append]
          refine ⟨?_, hpw, ?_⟩
          · rw [hsecs]
            apply checkTrack_distinct _ track side
            rw [← hsecs]; exact hchk
          · intro a ha b hb hab
            obtain ⟨t, secs', nz', h1, _, _, hc', hb'⟩ := hmem b hb
            have := (checkTrack_sound secs track side hchk a ha).1
            have := (checkTrack_sound secs' t side hc' b hb').1
            have := hab.1
            omega
      cases spt with
      | none =>
        simp only [Bool.not_true, Bool.false_eq_true, if_false, Option.getD_none] at hh
        split at hh
        · simp at hh
        · rename_i hchk
          have hchk' : checkTrack secs track side = true := by simpa using hchk
          have := common _ _ rfl hchk' hh
          exact ⟨by intro k hk; simp at hk, this.2⟩
      | some k =>
        simp only [Option.getD_some] at hh
        split at hh
        · simp at hh
        · rename_i hspt
          have hspt' : secs.length = k := by simpa using hspt
          split at hh
          · simp at hh
          · rename_i hchk
            have hchk' : checkTrack secs track side = true := by simpa using hchk
            have := common _ _ hspt' hchk' hh
            refine ⟨?_, this.2⟩
            intro k1 hk1
            simp only [Option.some.injEq] at hk1
            omega

theorem hfeSides_spec (f : FileData) (h : HfeHeader) (lut : Bytes) :
    ∀ (n side : Nat) (acc : List FluxSide) (noise : Bool) (sides : List FluxSide) (nz : Bool),
    hfeSides f h lut n side acc noise = .ok sides nz →
    ∀ s ∈ sides, s ∈ acc ∨ ∃ nz', hfeTracks f h lut s.side h.tracks 0 none [] false =
      some (s.sectors, s.geom.sectors, nz') := by
  intro n
  induction n with
  | zero =>
    intro side acc noise sides nz hh s hs
    simp only [hfeSides, FluxRes.ok.injEq] at hh
    left
    rw [← hh.1] at hs
    exact List.mem_reverse.mp hs
  | succ n ih =>
    intro side acc noise sides nz hh s hs
    unfold hfeSides at hh
    split at hh
    · simp at hh
    · rename_i secs spt nz1 htr
      simp only [] at hh
      split at hh
      · simp at hh
      · rcases ih _ _ _ _ _ hh s hs with hm | hm
        · rcases List.mem_cons.mp hm with rfl | hm
          · right; exact ⟨nz1, htr⟩
          · left; exact hm
        · right; exact hm

theorem loadHfe_spec (f : FileData) (sides : List FluxSide) (noise : Bool) (h : loadHfe f = .ok sides noise) :
    ∃ hdr, hfeParseHeader f = some hdr ∧
      hfeSides f hdr (hfeLut f hdr) hdr.sides 0 [] false = .ok sides noise := by
  unfold loadHfe at h
  split at h
  · simp at h
  · rename_i hdr hp
    simp only [] at h
    split at h
    · simp at h
    · exact ⟨hdr, hp, h⟩

theorem hfe_side_spec (f : FileData) (sides : List FluxSide) (noise : Bool) (h : loadHfe f = .ok sides noise)
    (s : FluxSide) (hs : s ∈ sides) :
    ∃ hdr nz', hfeParseHeader f = some hdr ∧
      hfeTracks f hdr (hfeLut f hdr) s.side hdr.tracks 0 none [] false =
        some (s.sectors, s.geom.sectors, nz') := by
  obtain ⟨hdr, hp, hsd⟩ := loadHfe_spec f sides noise h
  rcases hfeSides_spec f hdr _ _ _ _ _ _ _ hsd s hs with hm | ⟨nz', hm⟩
  · simp at hm
  · exact ⟨hdr, nz', hp, hm⟩

theorem hfe_unique (f : FileData) (sides : List FluxSide) (noise : Bool) (h : loadHfe f = .ok sides noise)
    (s : FluxSide) (hs : s ∈ sides) :
    s.sectors.Pairwise (fun a b => ¬(a.cyl = b.cyl ∧ a.head = b.head ∧ a.record = b.record)) := by
  obtain ⟨hdr, nz', _, htr⟩ := hfe_side_spec f sides noise h s hs
  obtain ⟨_, rest, hres, _, _, _, hpw⟩ := hfeTracks_spec f hdr _ _ _ _ _ _ _ _ _ _ htr
  rw [hres, List.nil_append]
  exact hpw

theorem findSector_spec (secs : List FSector) (cyl head rec : Nat) (d : Sector)
    (h : findSector secs cyl head rec = some d) :
    ∃ sec ∈ secs, sec.cyl = cyl ∧ sec.head = head ∧ sec.record = rec ∧ sec.data = d := by
  unfold findSector at h
  rcases hf : secs.find? (fun s => s.cyl == cyl && s.head == head && s.record == rec) with _ | sec
  · rw [hf] at h; simp at h
  · rw [hf] at h
    simp only [Option.map_some, Option.some.injEq] at h
    have hp := List.find?_some hf
    simp only [Bool.and_eq_true, beq_iff_eq] at hp
    exact ⟨sec, List.mem_of_find?_eq_some hf, hp.1.1, hp.1.2, hp.2, h⟩

theorem hfe_read (f : FileData) (sides : List FluxSide) (noise : Bool) (h : loadHfe f = .ok sides noise)
    (s : FluxSide) (hs : s ∈ sides) (lba : Nat) (d : Sector) (hr : hfeReadBlock s lba = some d) :
    ∃ hdr isFm stream nz sec,
      hfeParseHeader f = some hdr ∧
      hfeTrackStream f hdr (hfeLut f hdr) s.side (lba / s.geom.sectors) = some (isFm, stream, nz) ∧
      sec ∈ (decodeTrack isFm (hfeBitStream isFm stream)).1 ∧
      sec.data = d ∧ d.length = 256 ∧
      sec.cyl = lba / s.geom.sectors ∧ sec.head = s.side ∧ sec.record = lba % s.geom.sectors := by
  obtain ⟨hdr, nz', hp, htr⟩ := hfe_side_spec f sides noise h s hs
  obtain ⟨_, rest, hres, hlen, hmem, hall, _⟩ := hfeTracks_spec f hdr _ _ _ _ _ _ _ _ _ _ htr
  rw [List.nil_append] at hres
  unfold hfeReadBlock at hr
  split at hr
  · simp at hr
  · rename_i hlba
    obtain ⟨sec, hsec, hcyl, hhead, hrec, hdata⟩ := findSector_spec _ _ _ _ _ hr
    rw [hres] at hsec hlba
    obtain ⟨t, secs, nzt, _, ht, htrk, hchk, hsm⟩ := hmem sec hsec
    have hsnd := checkTrack_sound secs t s.side hchk sec hsm
    -- the track number computed from the block number
    have hlt : lba < s.geom.sectors * hdr.tracks := by rw [Nat.mul_comm]; omega
    have hq : lba / s.geom.sectors < hdr.tracks := Nat.div_lt_of_lt_mul hlt
    have hpos : 0 < s.geom.sectors := by
      rcases Nat.eq_zero_or_pos s.geom.sectors with h0 | h0
      · rw [h0, Nat.zero_mul] at hlt; omega
      · exact h0
    obtain ⟨secsq, nzq, htrq, hchkq, hlenq⟩ := hall (lba / s.geom.sectors) (Nat.zero_le _) (by omega)
    have hq256 : lba / s.geom.sectors < 256 := by
      match secsq, hlenq with
      | y :: _, _ =>
        obtain ⟨isFm, stream, nzs, _, hsq⟩ := hfeTrack_spec f hdr _ _ _ _ _ htrq
        have hy : y ∈ sortSectors (decodeTrack isFm (hfeBitStream isFm stream)).1 := by
          rw [← hsq]; exact List.mem_cons_self ..
        have := decodeTrack_cyl _ _ y ((mem_sortSectors _ y).mp hy)
        have := (checkTrack_sound _ _ _ hchkq y (List.mem_cons_self ..)).1
        omega
      | [], hl => simp only [List.length_nil] at hl; omega
    have htq : t = lba / s.geom.sectors := by
      rw [Nat.mod_eq_of_lt hq256] at hcyl
      omega
    subst htq
    obtain ⟨isFm, stream, nzs, hstream, hsq⟩ := hfeTrack_spec f hdr _ _ _ _ _ htrk
    refine ⟨hdr, isFm, stream, nzs, sec, hp, hstream, ?_, hdata, ?_, hsnd.1, hsnd.2.1, hrec⟩
    · rw [hsq] at hsm
      exact (mem_sortSectors _ sec).mp hsm
    · rw [← hdata]; exact hsnd.2.2

/-! ### HxC MFM -/

/-- two track-list entries do not have the same (track, side) key -/
def KeyNe (a b : HxcEntry) : Prop := ¬(a.track = b.track ∧ a.side = b.side)

theorem dedup_pairwise : ∀ (es acc : List HxcEntry), acc.Pairwise KeyNe →
    (es.foldl (fun acc e => if acc.any (fun x => x.track == e.track && x.side == e.side) then acc
      else acc ++ [e]) acc).Pairwise KeyNe := by
  intro es
  induction es with
  | nil => intro acc h; exact h
  | cons e rest ih =>
    intro acc h
    rw [List.foldl_cons]
    apply ih
    split
    · exact h
    · rename_i hany
      rw [List.pairwise_append]
      refine ⟨h, List.pairwise_singleton _ _, ?_⟩
      intro a ha b hb hab
      rw [List.mem_singleton] at hb
      subst hb
      apply hany
      rw [List.any_eq_true]
      exact ⟨a, ha, by simp [hab.1, hab.2]⟩

theorem hxcMap_pairwise (es : List HxcEntry) : (hxcMap es).Pairwise KeyNe := by
  unfold hxcMap
  simp only []
  refine ((sortBy_perm hxcKeyLess _).pairwise_iff ?_).mpr (dedup_pairwise es [] List.Pairwise.nil)
  intro a b hab hba
  exact hab ⟨hba.1.symm, hba.2.symm⟩

theorem hxcTrackList_pairwise (f : FileData) (m : List HxcEntry) (h : hxcTrackList f = some m) :
    m.Pairwise KeyNe := by
  unfold hxcTrackList at h
  split at h
  · simp at h
  · rw [Option.map_eq_some_iff] at h
    obtain ⟨es, _, rfl⟩ := h
    exact hxcMap_pairwise es

theorem hxcSide_spec (f : FileData) (side : Nat) : ∀ (m : List HxcEntry) (acc res : List FSector),
    hxcSide f side m acc = some res →
    ∃ rest, res = acc ++ rest ∧
      (∀ x ∈ rest, ∃ e ∈ m, e.side = side ∧ (fread f e.offset e.size).length = e.size ∧
        x ∈ sortSectors (decodeMfm (hxcBitStream (fread f e.offset e.size))) ∧
        checkTrack (sortSectors (decodeMfm (hxcBitStream (fread f e.offset e.size)))) e.track e.side = true) ∧
      (m.Pairwise KeyNe → rest.Pairwise AddrNe) := by
  intro m
  induction m with
  | nil =>
    intro acc res h
    simp only [hxcSide, Option.some.injEq] at h
    subst h
    exact ⟨[], by simp, by intro x hx; simp at hx, fun _ => List.Pairwise.nil⟩
  | cons e m ih =>
    intro acc res h
    unfold hxcSide at h
    split at h
    · obtain ⟨rest, hres, hmem, hpw⟩ := ih _ _ h
      refine ⟨rest, hres, ?_, fun hp => hpw (List.pairwise_cons.mp hp).2⟩
      intro x hx
      obtain ⟨e', he', h'⟩ := hmem x hx
      exact ⟨e', List.mem_cons_of_mem _ he', h'⟩
    · rename_i hside
      have hside' : e.side = side := by simpa using hside
      split at h
      · simp at h
      · simp only [] at h
        split at h
        · simp at h
        · rename_i hlen
          have hlen' : (fread f e.offset e.size).length = e.size := by simpa using hlen
          split at h
          · simp at h
          · rename_i hchk
            have hchk' : checkTrack (sortSectors (decodeMfm (hxcBitStream (fread f e.offset e.size))))
                e.track e.side = true := by simpa using hchk
            obtain ⟨rest, hres, hmem, hpw⟩ := ih _ _ h
            refine ⟨sortSectors (decodeMfm (hxcBitStream (fread f e.offset e.size))) ++ rest,
              by rw [hres, List.append_assoc], ?_, ?_⟩
            · intro x hx
              rcases List.mem_append.mp hx with hx | hx
              · exact ⟨e, List.mem_cons_self .., hside', hlen', hx, hchk'⟩
              · obtain ⟨e', he', h'⟩ := hmem x hx
                exact ⟨e', List.mem_cons_of_mem _ he', h'⟩
            · intro hp
              rw [List.pairwise_cons] at hp
              rw [List.pairwise_append]
              refine ⟨checkTrack_distinct _ _ _ hchk', hpw hp.2, ?_⟩
              intro a ha b hb hab
              obtain ⟨e', he', hs', _, hb', hc'⟩ := hmem b hb
              have h1 := (checkTrack_sound _ _ _ hchk' a ha).1
              have h2 := (checkTrack_sound _ _ _ hc' b hb').1
              have h3 := hab.1
              exact hp.1 e' he' ⟨by omega, by omega⟩

theorem hxcSides_spec (f : FileData) (m : List HxcEntry) :
    ∀ (n side : Nat) (acc : List FluxSide) (sides : List FluxSide) (nz : Bool),
    hxcSides f m n side acc = .ok sides nz →
    ∀ s ∈ sides, s ∈ acc ∨ hxcSide f s.side m [] = some s.sectors := by
  intro n
  induction n with
  | zero =>
    intro side acc sides nz hh s hs
    simp only [hxcSides, FluxRes.ok.injEq] at hh
    left
    rw [← hh.1] at hs
    exact List.mem_reverse.mp hs
  | succ n ih =>
    intro side acc sides nz hh s hs
    unfold hxcSides at hh
    split at hh
    · simp at hh
    · rename_i secs hsd
      rcases ih _ _ _ _ hh s hs with hm | hm
      · rcases List.mem_cons.mp hm with rfl | hm
        · right; exact hsd
        · left; exact hm
      · right; exact hm

theorem hxc_side_spec (f : FileData) (sides : List FluxSide) (noise : Bool) (h : loadHxc f = .ok sides noise)
    (s : FluxSide) (hs : s ∈ sides) :
    ∃ m, hxcTrackList f = some m ∧ hxcSide f s.side m [] = some s.sectors := by
  unfold loadHxc at h
  split at h
  · rename_i tr sd tlo m hp hm
    rcases hxcSides_spec f m _ _ _ _ _ h s hs with hmem | hmem
    · simp at hmem
    · exact ⟨m, hm, hmem⟩
  · simp at h

theorem hxc_unique (f : FileData) (sides : List FluxSide) (noise : Bool) (h : loadHxc f = .ok sides noise)
    (s : FluxSide) (hs : s ∈ sides) :
    s.sectors.Pairwise (fun a b => ¬(a.cyl = b.cyl ∧ a.head = b.head ∧ a.record = b.record)) := by
  obtain ⟨m, hm, hsd⟩ := hxc_side_spec f sides noise h s hs
  obtain ⟨rest, hres, _, hpw⟩ := hxcSide_spec f s.side m [] _ hsd
  rw [hres, List.nil_append]
  exact hpw (hxcTrackList_pairwise f m hm)

theorem hxc_read (f : FileData) (sides : List FluxSide) (noise : Bool) (h : loadHxc f = .ok sides noise)
    (s : FluxSide) (hs : s ∈ sides) (lba : Nat) (d : Sector) (hr : hxcReadBlock s lba = some d) :
    ∃ m e sec,
      hxcTrackList f = some m ∧ e ∈ m ∧ e.side = s.side ∧ e.track = lba / s.geom.sectors ∧
      (fread f e.offset e.size).length = e.size ∧
      sec ∈ decodeMfm (hxcBitStream (fread f e.offset e.size)) ∧
      sec.data = d ∧ d.length = 256 ∧
      sec.cyl = lba / s.geom.sectors ∧ sec.head = s.side ∧ sec.record = lba % s.geom.sectors := by
  obtain ⟨m, hm, hsd⟩ := hxc_side_spec f sides noise h s hs
  obtain ⟨rest, hres, hmem, _⟩ := hxcSide_spec f s.side m [] _ hsd
  rw [List.nil_append] at hres
  unfold hxcReadBlock at hr
  split at hr
  · simp at hr
  · split at hr
    · simp at hr
    · obtain ⟨sec, hsec, hcyl, hhead, hrec, hdata⟩ := findSector_spec _ _ _ _ _ hr
      rw [hres] at hsec
      obtain ⟨e, he, hes, hlen, hx, hchk⟩ := hmem sec hsec
      have hsnd := checkTrack_sound _ _ _ hchk sec hx
      refine ⟨m, e, sec, hm, he, hes, by omega, hlen, (mem_sortSectors _ sec).mp hx, hdata, ?_, hcyl,
        by omega, hrec⟩
      rw [← hdata]; exact hsnd.2.2

end Beeb.FluxSoundL
