/-
Lemmas about the drive allocator model (Beeb/Model/Storage.lean), used by Props/C16.
-/
import Beeb.Model.Storage

namespace Beeb.StorageL
open Beeb Beeb.Gen

/-! ### keys / occupied / maxDrive -/

def keys (s : Storage) : List Nat := s.drives.map (·.1)

theorem occ_iff (s : Storage) (n : Nat) : s.occupied n = true ↔ n ∈ keys s := by
  unfold Storage.occupied keys
  simp only [List.any_eq_true, List.mem_map, beq_iff_eq]

theorem occ_false_iff (s : Storage) (n : Nat) : s.occupied n = false ↔ n ∉ keys s := by
  rw [← occ_iff]; cases s.occupied n <;> simp

theorem keys_snoc (s : Storage) (n : Nat) (d : DriveCfg) :
    keys { drives := s.drives ++ [(n, d)] } = keys s ++ [n] := by
  simp [keys]

theorem foldl_max_ge (l : List (Nat × DriveCfg)) (init : Nat) :
    init ≤ l.foldl (fun m p => max m p.1) init ∧
      ∀ p ∈ l, p.1 ≤ l.foldl (fun m p => max m p.1) init := by
  induction l generalizing init with
  | nil => simp
  | cons a l ih =>
    simp only [List.foldl_cons, List.mem_cons, forall_eq_or_imp]
    have h := ih (max init a.1)
    refine ⟨by omega, by omega, h.2⟩

theorem le_maxDrive (s : Storage) (n : Nat) (h : n ∈ keys s) : n ≤ s.maxDrive := by
  unfold keys at h
  simp only [List.mem_map] at h
  obtain ⟨p, hp, rfl⟩ := h
  exact (foldl_max_ge s.drives 0).2 p hp

theorem free_above (s : Storage) (n : Nat) (h : s.maxDrive < n) : s.occupied n = false := by
  rw [occ_false_iff]
  intro hn
  have := le_maxDrive s n hn
  omega

/-! ### opposite_surface -/

theorem opp_eq (d : Nat) :
    opposite_surface d =
      if d % 4 < 2 then (d + 2) % 4294967296 else (d - 2) % 4294967296 := by
  unfold opposite_surface
  simp only [Bool.or_eq_true, beq_iff_eq]
  split <;> split <;> first | omega | (split <;> omega)

/-! ### seqFree / checkSequenceFits / findFit -/

theorem seqFree_iff (occ : Nat → Bool) (k i : Nat) :
    seqFree occ k i = true ↔ ∀ j, j < k → occ (i + 2 * j) = false := by
  induction k generalizing i with
  | zero => simp [seqFree]
  | succ k ih =>
    unfold seqFree
    split
    · rename_i h
      simp only [Bool.false_eq_true, false_iff]
      intro hh
      have := hh 0 (by omega)
      simp [h] at this
    · rename_i h
      rw [ih]
      constructor
      · intro hh j hj
        cases j with
        | zero => simpa using h
        | succ j =>
          have := hh j (by omega)
          rwa [show i + 2 + 2 * j = i + 2 * (j + 1) by omega] at this
      · intro hh j hj
        have := hh (j + 1) (by omega)
        rwa [show i + 2 * (j + 1) = i + 2 + 2 * j by omega] at this

theorem fits_iff (occ : Nat → Bool) (n k : Nat) :
    checkSequenceFits occ n k = true ↔
      occ n = false ∧ occ (opposite_surface n) = false ∧ ∀ j, j < k → occ (n + 2 * j) = false := by
  unfold checkSequenceFits
  rw [← seqFree_iff]
  cases occ n <;> cases occ (opposite_surface n) <;> simp

theorem findFit_some (occ : Nat → Bool) (k f a n : Nat) (h : findFit occ k f a = some n) :
    checkSequenceFits occ n k = true ∧ a ≤ n ∧ n < a + f ∧
      ∀ m, a ≤ m → m < n → checkSequenceFits occ m k = false := by
  induction f generalizing a with
  | zero => simp [findFit] at h
  | succ f ih =>
    unfold findFit at h
    split at h
    · rename_i hc
      simp only [Option.some.injEq] at h
      subst h
      exact ⟨hc, by omega, by omega, fun m h1 h2 => by omega⟩
    · rename_i hc
      obtain ⟨h1, h2, h3, h4⟩ := ih (a + 1) h
      refine ⟨h1, by omega, by omega, ?_⟩
      intro m hm1 hm2
      by_cases hma : m = a
      · subst hma; simpa using hc
      · exact h4 m (by omega) hm2

theorem findFit_none (occ : Nat → Bool) (k f a : Nat) (h : findFit occ k f a = none) :
    ∀ m, a ≤ m → m < a + f → checkSequenceFits occ m k = false := by
  induction f generalizing a with
  | zero => intro m h1 h2; omega
  | succ f ih =>
    unfold findFit at h
    split at h
    · simp at h
    · rename_i hc
      intro m hm1 hm2
      by_cases hma : m = a
      · subst hma; simpa using hc
      · exact ih (a + 1) h m (by omega) (by omega)

/-! ### connectAt -/

theorem occ_snoc (s : Storage) (k : Nat) (d : DriveCfg) (m : Nat) :
    ({ drives := s.drives ++ [(k, d)] } : Storage).occupied m = (s.occupied m || k == m) := by
  simp [Storage.occupied, List.any_append]

theorem connectAt_drives_aux (s : Storage) (b i : Nat) (ds : List DriveCfg) :
    (connectAt s (b + 2 * i) ds).drives =
      s.drives ++ (ds.zipIdx i).map (fun (d, j) => (b + 2 * j, d)) := by
  induction ds generalizing s i with
  | nil => simp [connectAt]
  | cons d ds ih =>
    unfold connectAt
    rw [show b + 2 * i + 2 = b + 2 * (i + 1) by omega, ih]
    simp [List.zipIdx_cons]

theorem connectAt_drives (s : Storage) (n : Nat) (ds : List DriveCfg) :
    (connectAt s n ds).drives =
      s.drives ++ ds.zipIdx.map (fun (d, j) => (n + 2 * j, d)) := by
  have := connectAt_drives_aux s n 0 ds
  simpa using this

theorem mem_keys_connectAt (s : Storage) (n : Nat) (ds : List DriveCfg) (x : Nat) :
    x ∈ keys (connectAt s n ds) ↔ x ∈ keys s ∨ ∃ j, j < ds.length ∧ x = n + 2 * j := by
  induction ds generalizing s n with
  | nil => simp [connectAt]
  | cons d ds ih =>
    unfold connectAt
    rw [ih, keys_snoc]
    simp only [List.mem_append, List.mem_singleton, List.length_cons]
    constructor
    · rintro ((h | h) | ⟨j, hj, h⟩)
      · exact Or.inl h
      · exact Or.inr ⟨0, by omega, by omega⟩
      · exact Or.inr ⟨j + 1, by omega, by omega⟩
    · rintro (h | ⟨j, hj, h⟩)
      · exact Or.inl (Or.inl h)
      · cases j with
        | zero => exact Or.inl (Or.inr (by omega))
        | succ j => exact Or.inr ⟨j, by omega, by omega⟩

theorem nodup_connectAt (s : Storage) (n : Nat) (ds : List DriveCfg)
    (hnd : (keys s).Nodup) (hfree : ∀ j, j < ds.length → n + 2 * j ∉ keys s) :
    (keys (connectAt s n ds)).Nodup := by
  induction ds generalizing s n with
  | nil => simpa [connectAt] using hnd
  | cons d ds ih =>
    unfold connectAt
    apply ih
    · rw [keys_snoc]
      rw [List.nodup_append]
      refine ⟨hnd, by simp, ?_⟩
      intro a ha b hb
      simp only [List.mem_singleton] at hb
      subst hb
      intro hab
      subst hab
      exact hfree 0 (by simp) (by simpa using ha)
    · intro j hj
      rw [keys_snoc]
      simp only [List.mem_append, List.mem_singleton, not_or]
      refine ⟨?_, by omega⟩
      have := hfree (j + 1) (by simp; omega)
      rwa [show n + 2 * (j + 1) = n + 2 + 2 * j by omega] at this

/-! ### nextFree / connectFirst -/

theorem nextFree_spec (occ : Nat → Bool) (f n : Nat) :
    n ≤ nextFree occ f n ∧ nextFree occ f n ≤ n + f ∧
      (∀ m, n ≤ m → m < nextFree occ f n → occ m = true) ∧
      (nextFree occ f n < n + f → occ (nextFree occ f n) = false) := by
  induction f generalizing n with
  | zero => simp [nextFree]; intro m h1 h2; omega
  | succ f ih =>
    unfold nextFree
    split
    · rename_i h
      obtain ⟨h1, h2, h3, h4⟩ := ih (n + 1)
      refine ⟨by omega, by omega, ?_, fun hh => h4 (by omega)⟩
      intro m hm1 hm2
      by_cases hmn : m = n
      · subst hmn; exact h
      · exact h3 m (by omega) hm2
    · rename_i h
      refine ⟨by omega, by omega, fun m h1 h2 => by omega, fun _ => by simpa using h⟩

theorem nextFree_free (s : Storage) (n : Nat) :
    n ≤ nextFree s.occupied (s.maxDrive + 2) n ∧
      s.occupied (nextFree s.occupied (s.maxDrive + 2) n) = false ∧
      ∀ m, n ≤ m → m < nextFree s.occupied (s.maxDrive + 2) n → s.occupied m = true := by
  obtain ⟨h1, h2, h3, h4⟩ := nextFree_spec s.occupied (s.maxDrive + 2) n
  refine ⟨h1, ?_, h3⟩
  by_cases hlt : nextFree s.occupied (s.maxDrive + 2) n < n + (s.maxDrive + 2)
  · exact h4 hlt
  · have ht := h3 (n + s.maxDrive + 1) (by omega) (by omega)
    have hf := free_above s (n + s.maxDrive + 1) (by omega)
    rw [ht] at hf
    exact absurd hf (by simp)

theorem connectFirst_shape (s : Storage) (n : Nat) (ds : List DriveCfg) :
    ∃ ns : List Nat, ns.length = ds.length ∧
      (connectFirst s n ds).drives = s.drives ++ ns.zip ds ∧
      ns.Pairwise (· < ·) ∧
      (∀ x ∈ ns, n ≤ x) ∧
      (∀ x ∈ ns, s.occupied x = false) ∧
      (∀ x ∈ ns, ∀ m, n ≤ m → m < x → s.occupied m = true ∨ m ∈ ns) := by
  induction ds generalizing s n with
  | nil => exact ⟨[], by simp [connectFirst]⟩
  | cons d ds ih =>
    unfold connectFirst
    obtain ⟨hk1, hk2, hk3⟩ := nextFree_free s n
    generalize nextFree s.occupied (s.maxDrive + 2) n = k at hk1 hk2 hk3
    simp only
    obtain ⟨ns, hlen, hdr, hpw, hge, hfree, hlow⟩ :=
      ih { drives := s.drives ++ [(k, d)] } k
    have hgt : ∀ x ∈ ns, k < x := by
      intro x hx
      have h1 := hge x hx
      have h2 := hfree x hx
      rw [occ_snoc] at h2
      simp only [Bool.or_eq_false_iff, beq_eq_false_iff_ne, ne_eq] at h2
      omega
    refine ⟨k :: ns, by simp [hlen], ?_, ?_, ?_, ?_, ?_⟩
    · rw [hdr]; simp
    · exact List.pairwise_cons.2 ⟨hgt, hpw⟩
    · intro x hx
      rcases List.mem_cons.1 hx with rfl | hx
      · exact hk1
      · have := hgt x hx; omega
    · intro x hx
      rcases List.mem_cons.1 hx with rfl | hx
      · exact hk2
      · have h2 := hfree x hx
        rw [occ_snoc] at h2
        simp only [Bool.or_eq_false_iff] at h2
        exact h2.1
    · intro x hx m hm1 hm2
      rcases List.mem_cons.1 hx with rfl | hx
      · exact Or.inl (hk3 m hm1 hm2)
      · by_cases hmk : m < k
        · exact Or.inl (hk3 m hm1 hmk)
        · rcases hlow x hx m (by omega) hm2 with h | h
          · rw [occ_snoc] at h
            simp only [Bool.or_eq_true, beq_iff_eq] at h
            rcases h with h | h
            · exact Or.inl h
            · exact Or.inr (by simp [h])
          · exact Or.inr (List.mem_cons_of_mem _ h)

/-! ### the invariant -/

/-- Reachable-state invariant: no drive number bound twice, and every occupied
    "upper" surface (residue 2 or 3 mod 4) has its lower partner occupied. -/
def Inv (s : Storage) : Prop :=
  (s.drives.map (·.1)).Nodup ∧
    ∀ d, s.occupied d = true → d % 4 ≥ 2 → s.occupied (d - 2) = true

theorem inv_empty : Inv Storage.empty := by
  refine ⟨by simp [Storage.empty], ?_⟩
  intro d h
  simp [Storage.empty, Storage.occupied] at h

/-- the least fitting start of a sequence, if it is an upper surface,
    has its lower partner occupied (no 2^32 bound needed) -/
theorem fit_low (s : Storage) (hJ : ∀ d, s.occupied d = true → d % 4 ≥ 2 → s.occupied (d - 2) = true)
    (n k : Nat) (hf : checkSequenceFits s.occupied n k = true)
    (hl : ∀ m, m < n → checkSequenceFits s.occupied m k = false) (hn : n % 4 ≥ 2) :
    s.occupied (n - 2) = true := by
  rw [fits_iff] at hf
  obtain ⟨hf1, hf2, hf3⟩ := hf
  cases hocc : s.occupied (n - 2) with
  | true => rfl
  | false =>
    exfalso
    have hfit : checkSequenceFits s.occupied (n - 2) k = true := by
      rw [fits_iff]
      refine ⟨hocc, ?_, ?_⟩
      · have ho : opposite_surface (n - 2) = n % 4294967296 := by
          rw [opp_eq, if_pos (by omega)]; congr 1; omega
        rw [ho]
        cases hw : s.occupied (n % 4294967296) with
        | false => rfl
        | true =>
          exfalso
          have h2 := hJ _ hw (by omega)
          have ho2 : opposite_surface n = n % 4294967296 - 2 := by
            rw [opp_eq, if_neg (by omega)]; omega
          rw [ho2, h2] at hf2
          exact absurd hf2 (by simp)
      · intro j hj
        cases j with
        | zero => simpa using hocc
        | succ j =>
          have := hf3 j (by omega)
          rwa [show n + 2 * j = n - 2 + 2 * (j + 1) by omega] at this
    have := hl (n - 2) (by omega)
    rw [hfit] at this
    exact absurd this (by simp)

/-! ### physical connect -/

theorem connect_physical_eq (s s' : Storage) (ds : List DriveCfg)
    (h : s.connect ds .physical = some s') :
    ∃ n, s' = connectAt s n ds ∧ findFit s.occupied ds.length (s.maxDrive + 6) 0 = some n := by
  unfold Storage.connect at h
  simp only at h
  split at h
  · rename_i n hn
    simp only [Option.some.injEq] at h
    exact ⟨n, h.symm, hn⟩
  · simp at h

theorem connect_physical_shape (s s' : Storage) (ds : List DriveCfg)
    (h : s.connect ds .physical = some s') :
    ∃ n, s'.drives = s.drives ++ (ds.zipIdx.map (fun (d, j) => (n + 2 * j, d))) ∧
      checkSequenceFits s.occupied n ds.length = true ∧
      ∀ m, m < n → checkSequenceFits s.occupied m ds.length = false := by
  obtain ⟨n, rfl, hn⟩ := connect_physical_eq s s' ds h
  obtain ⟨h1, _, _, h4⟩ := findFit_some _ _ _ _ _ hn
  exact ⟨n, connectAt_drives s n ds, h1, fun m hm => h4 m (by omega) hm⟩

theorem connectAt_inv (s : Storage) (n : Nat) (ds : List DriveCfg) (hi : Inv s)
    (hf : checkSequenceFits s.occupied n ds.length = true)
    (hl : ∀ m, m < n → checkSequenceFits s.occupied m ds.length = false) :
    Inv (connectAt s n ds) := by
  have hf' := (fits_iff _ _ _).1 hf
  obtain ⟨hf1, hf2, hf3⟩ := hf'
  refine ⟨?_, ?_⟩
  · apply nodup_connectAt s n ds hi.1
    intro j hj
    rw [← occ_false_iff]
    exact hf3 j hj
  · intro d hd hd4
    rw [occ_iff, mem_keys_connectAt] at hd ⊢
    rcases hd with hd | ⟨j, hj, rfl⟩
    · left
      rw [← occ_iff] at hd ⊢
      exact hi.2 d hd hd4
    · cases j with
      | zero =>
        left
        rw [← occ_iff]
        exact fit_low s hi.2 n ds.length hf hl (by simpa using hd4)
      | succ j =>
        right
        exact ⟨j, by omega, by omega⟩

/-! ### first connect -/

theorem connect_first_eq (s s' : Storage) (ds : List DriveCfg)
    (h : s.connect ds .first = some s') : s' = connectFirst s 0 ds := by
  unfold Storage.connect at h
  simp only [Option.some.injEq] at h
  exact h.symm

theorem connect_first_shape (s s' : Storage) (ds : List DriveCfg) (_hi : Inv s)
    (h : s.connect ds .first = some s') :
    ∃ ns : List Nat, ns.length = ds.length ∧ s'.drives = s.drives ++ ns.zip ds ∧
      ns.Pairwise (· < ·) ∧
      (∀ n ∈ ns, s.occupied n = false) ∧
      (∀ n ∈ ns, ∀ m, m < n → s.occupied m = true ∨ m ∈ ns) := by
  rw [connect_first_eq s s' ds h]
  obtain ⟨ns, h1, h2, h3, _, h5, h6⟩ := connectFirst_shape s 0 ds
  exact ⟨ns, h1, h2, h3, h5, fun n hn m hm => h6 n hn m (by omega) hm⟩

theorem connectFirst_inv (s : Storage) (ds : List DriveCfg) (hi : Inv s) :
    Inv (connectFirst s 0 ds) := by
  obtain ⟨ns, h1, h2, h3, _, h5, h6⟩ := connectFirst_shape s 0 ds
  have hkeys : keys (connectFirst s 0 ds) = keys s ++ ns := by
    unfold keys
    rw [h2, List.map_append]
    congr 1
    exact List.map_fst_zip (by omega)
  refine ⟨?_, ?_⟩
  · show (keys (connectFirst s 0 ds)).Nodup
    rw [hkeys, List.nodup_append]
    refine ⟨hi.1, ?_, ?_⟩
    · exact h3.imp (fun h => by omega)
    · intro a ha b hb hab
      subst hab
      have := h5 a hb
      rw [occ_false_iff] at this
      exact this ha
  · intro d hd hd4
    rw [occ_iff, hkeys, List.mem_append] at hd ⊢
    rcases hd with hd | hd
    · left
      rw [← occ_iff] at hd ⊢
      exact hi.2 d hd hd4
    · rcases h6 d hd (d - 2) (by omega) (by omega) with h | h
      · left; rwa [← occ_iff]
      · right; exact h

/-! ### the lemmas used by Props/C16 -/

theorem connect_inv (s s' : Storage) (ds : List DriveCfg) (p : Policy) (hi : Inv s)
    (h : s.connect ds p = some s') : Inv s' := by
  cases p with
  | physical =>
    obtain ⟨n, rfl, hn⟩ := connect_physical_eq s s' ds h
    obtain ⟨h1, _, _, h4⟩ := findFit_some _ _ _ _ _ hn
    exact connectAt_inv s n ds hi h1 (fun m hm => h4 m (by omega) hm)
  | first =>
    rw [connect_first_eq s s' ds h]
    exact connectFirst_inv s ds hi

/-- Attaching always succeeds.  For the physical policy the search relies on
    `opposite_surface` not wrapping round 2^32 at the first multiple of 4 above
    the highest occupied number, hence the bound (without it the statement is
    false: with 0..2^32-1 all occupied every candidate's wrapped opposite is taken). -/
theorem connect_isSome (s : Storage) (ds : List DriveCfg) (p : Policy)
    (hb : p = .physical → s.maxDrive + 6 < 4294967296) : (s.connect ds p).isSome := by
  cases p with
  | first => simp [Storage.connect]
  | physical =>
    have hb := hb rfl
    unfold Storage.connect
    simp only
    cases hff : findFit s.occupied ds.length (s.maxDrive + 6) 0 with
    | some n => simp
    | none =>
      exfalso
      have hnone := findFit_none _ _ _ _ hff ((s.maxDrive / 4 + 1) * 4) (by omega) (by omega)
      have hfit : checkSequenceFits s.occupied ((s.maxDrive / 4 + 1) * 4) ds.length = true := by
        rw [fits_iff]
        refine ⟨free_above s _ (by omega), ?_, fun j _ => free_above s _ (by omega)⟩
        rw [opp_eq, if_pos (by omega)]
        exact free_above s _ (by omega)
      rw [hfit] at hnone
      exact absurd hnone (by simp)

theorem lookup_append (s s' : Storage) (added : List (Nat × DriveCfg))
    (h : s'.drives = s.drives ++ added) (n : Nat) (hn : s.occupied n = true) :
    s'.lookup n = s.lookup n := by
  unfold Storage.lookup
  rw [h, List.find?_append]
  unfold Storage.occupied at hn
  rw [List.any_eq_true] at hn
  obtain ⟨x, hx, hxn⟩ := hn
  cases hfind : List.find? (fun p => p.1 == n) s.drives with
  | some y => simp
  | none =>
    rw [List.find?_eq_none] at hfind
    exact absurd hxn (hfind x hx)

theorem connect_monotone (s s' : Storage) (ds : List DriveCfg) (p : Policy) (_hi : Inv s)
    (h : s.connect ds p = some s') :
    (∃ added, s'.drives = s.drives ++ added) ∧
      ∀ n, s.occupied n = true → s'.lookup n = s.lookup n := by
  have hpre : ∃ added, s'.drives = s.drives ++ added := by
    cases p with
    | physical =>
      obtain ⟨n, h1, _⟩ := connect_physical_shape s s' ds h
      exact ⟨_, h1⟩
    | first =>
      obtain ⟨ns, _, h2, _⟩ := connect_first_shape s s' ds _hi h
      exact ⟨_, h2⟩
  obtain ⟨added, hadd⟩ := hpre
  exact ⟨⟨added, hadd⟩, fun n hn => lookup_append s s' added hadd n hn⟩

/-- Physical policy: no new surface lands opposite an earlier image's surface.
    The bound keeps `opposite_surface` of every new number below 2^32 (without it
    the statement is false: e.g. 0..7 occupied and a 2^31-surface image, whose
    surface 2^32 has wrapped opposite 2). -/
theorem physical_no_opposite (s s' : Storage) (ds : List DriveCfg) (hi : Inv s)
    (hb : s.maxDrive + 2 * ds.length + 8 < 4294967296)
    (h : s.connect ds .physical = some s') :
    ∀ d, s'.occupied d = true → s.occupied d = false →
      s.occupied (opposite_surface d) = false := by
  obtain ⟨n, rfl, hn⟩ := connect_physical_eq s s' ds h
  obtain ⟨hf, _, hlt, h4⟩ := findFit_some _ _ _ _ _ hn
  have hl : ∀ m, m < n → checkSequenceFits s.occupied m ds.length = false :=
    fun m hm => h4 m (by omega) hm
  obtain ⟨hf1, hf2, hf3⟩ := (fits_iff _ _ _).1 hf
  intro d hd hdf
  rw [occ_iff, mem_keys_connectAt] at hd
  rcases hd with hd | ⟨j, hj, rfl⟩
  · rw [← occ_iff, hdf] at hd
    exact absurd hd (by simp)
  · -- the start is a lower surface
    have hn4 : n % 4 < 2 := by
      apply Decidable.byContradiction
      intro hc
      have h2 := fit_low s hi.2 n ds.length hf hl (by omega)
      have ho : opposite_surface n = n - 2 := by
        rw [opp_eq, if_neg (by omega)]; omega
      rw [ho, h2] at hf2
      exact absurd hf2 (by simp)
    by_cases hd4 : (n + 2 * j) % 4 < 2
    · have ho : opposite_surface (n + 2 * j) = n + 2 * j + 2 := by
        rw [opp_eq, if_pos hd4]; omega
      rw [ho]
      cases hocc : s.occupied (n + 2 * j + 2) with
      | false => rfl
      | true =>
        exfalso
        have := hi.2 _ hocc (by omega)
        rw [show n + 2 * j + 2 - 2 = n + 2 * j by omega, hdf] at this
        exact absurd this (by simp)
    · have ho : opposite_surface (n + 2 * j) = n + 2 * j - 2 := by
        rw [opp_eq, if_neg hd4]; omega
      rw [ho]
      cases j with
      | zero => omega
      | succ j =>
        have := hf3 j (by omega)
        rwa [show n + 2 * j = n + 2 * (j + 1) - 2 by omega] at this

theorem find_of_nodup (l : List (Nat × DriveCfg)) (h : (l.map (·.1)).Nodup) (n : Nat)
    (d : DriveCfg) (hm : (n, d) ∈ l) : l.find? (fun p => p.1 == n) = some (n, d) := by
  induction l with
  | nil => simp at hm
  | cons a l ih =>
    simp only [List.map_cons, List.nodup_cons] at h
    rcases List.mem_cons.1 hm with rfl | hm
    · simp
    · have hne : a.1 ≠ n := by
        intro ha
        apply h.1
        rw [ha]
        exact List.mem_map.2 ⟨(n, d), hm, rfl⟩
      rw [List.find?_cons_of_neg (by simpa using hne)]
      exact ih h.2 hm

theorem connect_lookup (s s' : Storage) (ds : List DriveCfg) (p : Policy) (hi : Inv s)
    (h : s.connect ds p = some s') :
    ∀ n d, (n, d) ∈ s'.drives → s'.lookup n = some d := by
  intro n d hm
  have hi' := connect_inv s s' ds p hi h
  unfold Storage.lookup
  rw [find_of_nodup s'.drives hi'.1 n d hm]
  rfl

end Beeb.StorageL
