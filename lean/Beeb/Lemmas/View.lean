/- Arithmetic characterisation of the generated FileView / Volume::Access leaves. -/
import Beeb.Model.Disc

namespace Beeb.ViewL
open Beeb Beeb.Gen

theorem two64 : (18446744073709551616 : Nat) = 2 ^ 64 := by decide

/-- `FileView::read_block`'s position formula, for arguments in the range the
    containers use -/
theorem fileview_pos_eq (skip take leave sector : Nat)
    (hs : skip < 2 ^ 40) (htl : take + leave < 2 ^ 31) (hx : sector < 2 ^ 32) :
    fileview_pos skip take leave sector = skip + sector / take * (take + leave) + sector % take := by
  unfold fileview_pos
  have e31 : (2 : Nat) ^ 31 = 2147483648 := by decide
  have e32 : (2 : Nat) ^ 32 = 4294967296 := by decide
  have e40 : (2 : Nat) ^ 40 = 1099511627776 := by decide
  rw [e31] at htl; rw [e32] at hx; rw [e40] at hs
  have h1 : (take + leave) % 18446744073709551616 = take + leave := Nat.mod_eq_of_lt (by omega)
  rw [h1]
  have hq : sector / take ≤ sector := Nat.div_le_self _ _
  have hmul : sector / take * (take + leave) < 4294967296 * 2147483648 :=
    Nat.mul_lt_mul'' (by omega) htl
  have e : (4294967296 : Nat) * 2147483648 = 9223372036854775808 := by decide
  rw [e] at hmul
  have hm : C.umul 64 (sector / take) (take + leave) = sector / take * (take + leave) :=
    C.umul_of_lt (by rw [← two64]; omega)
  rw [hm]
  have hr : sector % take ≤ sector := Nat.mod_le _ _
  rw [Nat.mod_eq_of_lt (a := skip + sector / take * (take + leave)) (by omega)]
  exact Nat.mod_eq_of_lt (by omega)

theorem unformatted_eq (take : Nat) : fileview_unformatted take = (take == 0) := by
  unfold fileview_unformatted
  by_cases h : take = 0
  · subst h; rfl
  · have : (0 == take) = false := by
      simp only [beq_eq_false_iff_ne]; exact fun h' => h h'.symm
    rw [this]; simp [h]

theorem beyond_eq (total sector : Nat) : fileview_beyond total sector = decide (total ≤ sector) := by
  unfold fileview_beyond; simp

/-- the view's read, in closed form -/
theorem readBlock_eq (v : View) (f : Media) (sector : Nat)
    (hs : v.skip < 2 ^ 40) (htl : v.take + v.leave < 2 ^ 31) (hx : sector < 2 ^ 32) :
    v.readBlock f sector =
      if v.take = 0 then none
      else if v.total ≤ sector then none
      else f (v.skip + sector / v.take * (v.take + v.leave) + sector % v.take) := by
  unfold View.readBlock
  rw [unformatted_eq, beyond_eq, fileview_pos_eq _ _ _ _ hs htl hx]
  by_cases h0 : v.take = 0
  · simp [h0]
  · by_cases h1 : v.total ≤ sector <;> simp [h0, h1]

end Beeb.ViewL
