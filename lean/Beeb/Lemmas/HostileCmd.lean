/-
Lemmas for C07, part 3: the commands.  Under the invariant that every drive's
recorded format is consistent with its medium (`EnvInv`), no command reaches the
assertion in `FileSystem::FileSystem`, and a command that reports failure has
written a diagnostic.
-/
import Beeb.Model.Main
import Beeb.Lemmas.HostileProbe

namespace Beeb.HostileL
open Beeb Beeb.Gen Beeb.MainL

/-- the formats recorded for the drives agree with what is on their media -/
def EnvInv (env : Env) : Prop :=
  ∀ p ∈ env.storage.drives, ∀ f, p.2.fmt = some f → FmtOk (env.driveMedia p.2) f

/-- no crash, and failure comes with a diagnostic -/
def Good : CmdRes → Prop
  | .done ok o => ok = false → o.err = true
  | .threw _ => True
  | .abort _ _ => False

theorem Good_failErr : Good failErr := fun _ => rfl
theorem Good_true (o : Out) : Good (.done true o) := fun h => by cases h
theorem Good_false (o : Out) (h : o.err = true) : Good (.done false o) := fun _ => h
theorem Good_threw (o : Out) : Good (.threw o) := trivial

theorem Good_NAc {r : CmdRes} (h : Good r) : NAc r := by
  cases r with
  | abort o s => exact h
  | done ok o => trivial
  | threw o => trivial

theorem lookup_mem (s : Storage) (n : Nat) (cfg : DriveCfg) (h : s.lookup n = some cfg) :
    ∃ p ∈ s.drives, p.2 = cfg := by
  unfold Storage.lookup at h
  cases hf : s.drives.find? (fun p => p.1 == n) with
  | none => rw [hf] at h; cases h
  | some p =>
    rw [hf] at h
    simp only [Option.map_some, Option.some.injEq] at h
    exact ⟨p, List.mem_of_find?_eq_some hf, h⟩

theorem mountFs_na (env : Env) (hi : EnvInv env) (s : Nat) (a : String) : env.mountFs s ≠ .abort a := by
  unfold Env.mountFs
  split
  · intro h; cases h
  · rename_i cfg hsel
    split
    · intro h; cases h
    · rename_i fmt hfmt
      obtain ⟨p, hp, hpc⟩ := lookup_mem _ _ _ hsel
      have hok : FmtOk (env.driveMedia cfg) fmt := by
        subst hpc
        exact hi p hp fmt hfmt
      have := make_NA (env.driveMedia cfg) fmt cfg.view.geom env.ndebug hok
      revert this
      simp only []
      cases FileSystem.make (env.driveMedia cfg) fmt cfg.view.geom env.ndebug with
      | abort s => simp
      | err e => intro _ h; cases h
      | ok b => intro _ h; cases h

/-- mounting never aborts -/
def NoAb (env : Env) : Prop := ∀ s a, env.mountFs s ≠ .abort a

theorem mount_na (env : Env) (hm : NoAb env) (v : VolSel) (a : String) : env.mount v ≠ .abort a := by
  unfold Env.mount
  split
  · intro h; cases h
  · intro h; cases h
  · rename_i s hs; exact (hm _ _ hs).elim
  · split <;> intro h <;> cases h

theorem bodyCommand_good (env : Env) (hm : NoAb env) (args : List Bytes) (logic : Bytes → Bytes) :
    Good (bodyCommand env args logic) := by
  have hm' := mount_na env hm
  unfold bodyCommand
  repeat' (first
    | exact Good_failErr | exact Good_true _ | exact Good_threw _
    | exact (hm' _ _ (by assumption)).elim
    | split | dsimp only)

theorem cmdType_good (env : Env) (hm : NoAb env) (args : List Bytes) : Good (cmdType env args) := by
  unfold cmdType
  repeat' (first | exact Good_failErr | exact bodyCommand_good env hm _ _ | split | dsimp only)

theorem cmdList_good (env : Env) (hm : NoAb env) (args : List Bytes) : Good (cmdList env args) :=
  bodyCommand_good env hm _ _

theorem cmdDump_good (env : Env) (hm : NoAb env) (args : List Bytes) : Good (cmdDump env args) :=
  bodyCommand_good env hm _ _

theorem cmdDumpSector_good (env : Env) (args : List Bytes) : Good (cmdDumpSector env args) := by
  unfold cmdDumpSector
  repeat' (first | exact Good_failErr | exact Good_true _ | exact Good_threw _ | split | dsimp only)

theorem cmdInfo_good (env : Env) (hm : NoAb env) (args : List Bytes) : Good (cmdInfo env args) := by
  have hm' := mount_na env hm
  unfold cmdInfo
  repeat' (first
    | exact Good_failErr | exact Good_true _ | exact Good_threw _
    | exact (hm' _ _ (by assumption)).elim
    | split | dsimp only)

theorem cmdCat_good (env : Env) (hm : NoAb env) (args : List Bytes) : Good (cmdCat env args) := by
  have hm' := mount_na env hm
  unfold cmdCat
  repeat' (first
    | exact Good_failErr | exact Good_true _ | exact Good_threw _
    | exact (hm' _ _ (by assumption)).elim
    | split | dsimp only)

theorem cmdFree_good (env : Env) (hm : NoAb env) (args : List Bytes) : Good (cmdFree env args) := by
  have hm' := mount_na env hm
  unfold cmdFree
  repeat' (first
    | exact Good_failErr | exact Good_true _ | exact Good_threw _
    | exact (hm' _ _ (by assumption)).elim
    | split | dsimp only)

theorem spaceGo_good (env : Env) (hm : NoAb env) (sels l : List VolSel) (out : Bytes) (free : List (VolSel × Nat)) :
    Good (spaceRun.go env sels l out free) := by
  have hm' := mount_na env hm
  induction l generalizing out free with
  | nil => simp only [spaceRun.go]; exact Good_true _
  | cons sel rest ih =>
    simp only [spaceRun.go]
    repeat' (first
      | exact Good_false _ rfl | exact Good_threw _ | exact ih _ _
      | exact (hm' _ _ (by assumption)).elim
      | split)

theorem cmdSpace_good (env : Env) (hm : NoAb env) (args : List Bytes) : Good (cmdSpace env args) := by
  unfold cmdSpace spaceRun
  repeat' (first | exact Good_failErr | exact spaceGo_good env hm _ _ _ _ | split | dsimp only)

theorem cmdSectorMap_good (env : Env) (hm : NoAb env) (args : List Bytes) : Good (cmdSectorMap env args) := by
  unfold cmdSectorMap
  repeat' (first
    | exact Good_failErr | exact Good_true _ | exact Good_threw _
    | exact (hm _ _ (by assumption)).elim
    | split | dsimp only)

theorem cmdExtractUnused_good (env : Env) (hm : NoAb env) (args : List Bytes) :
    Good (cmdExtractUnused env args) := by
  unfold cmdExtractUnused
  repeat' (first
    | exact Good_failErr | exact Good_true _ | exact Good_threw _
    | exact (hm _ _ (by assumption)).elim
    | split | dsimp only)

theorem extractLoop_good (env : Env) (dest : Bytes) (ctxDir : Nat) (data : Media) (l : List Entry)
    (files : List (Bytes × Bytes)) : Good (extractLoop env dest ctxDir data l files) := by
  induction l generalizing files with
  | nil => simp only [extractLoop]; exact Good_true _
  | cons e rest ih =>
    simp only [extractLoop]
    split
    · exact Good_false _ rfl
    split
    · exact Good_threw _
    · exact ih _

theorem cmdExtractFiles_good (env : Env) (hm : NoAb env) (args : List Bytes) :
    Good (cmdExtractFiles env args) := by
  have hm' := mount_na env hm
  unfold cmdExtractFiles
  repeat' (first
    | exact Good_failErr | exact Good_threw _ | exact extractLoop_good _ _ _ _ _ _
    | exact (hm' _ _ (by assumption)).elim
    | split | dsimp only)

theorem showTitle_na (env : Env) (hm : NoAb env) (d : Nat) (o : Bytes) (a : String) :
    showTitle env d ≠ (none, o, some a) := by
  unfold showTitle
  split
  · intro h; cases h
  · intro h; cases h
  · rename_i s hs; exact (hm _ _ hs).elim
  · intro h; cases h

theorem showTitlesGo_good (env : Env) (hm : NoAb env) (l : List Nat) (ok : Bool) (out : Bytes) :
    Good (cmdShowTitles.go env l ok out) := by
  induction l generalizing ok out with
  | nil =>
    simp only [cmdShowTitles.go]
    intro h
    subst h
    rfl
  | cons d rest ih =>
    simp only [cmdShowTitles.go]
    split
    · exact ih _ _
    · rename_i hs; exact (showTitle_na env hm _ _ _ hs).elim
    · exact Good_threw _

theorem cmdShowTitles_good (env : Env) (hm : NoAb env) (args : List Bytes) :
    Good (cmdShowTitles env args) := by
  unfold cmdShowTitles
  repeat' (first | exact Good_failErr | exact showTitlesGo_good env hm _ _ _ | split | dsimp only)

theorem ite_some_good {c : Prop} [Decidable c] {a : CmdRes} {x : Option CmdRes} {r : CmdRes}
    (ha : Good a) (hx : x = some r → Good r) : (if c then some a else x) = some r → Good r := by
  by_cases hc : c
  · simp only [hc, if_true, Option.some.injEq]; intro h; exact h ▸ ha
  · simp only [hc, if_false]; exact hx

theorem runCommand_good (env : Env) (hi : EnvInv env) (args : List Bytes) (r : CmdRes)
    (hr : runCommand env args = some r) : Good r := by
  have hm : NoAb env := mountFs_na env hi
  cases args with
  | nil => cases hr
  | cons c t =>
    revert hr
    unfold runCommand
    exact ite_some_good (cmdInfo_good env hm _) <| ite_some_good (cmdCat_good env hm _) <|
      ite_some_good (cmdType_good env hm _) <| ite_some_good (cmdList_good env hm _) <|
      ite_some_good (cmdDump_good env hm _) <| ite_some_good (cmdDumpSector_good env _) <|
      ite_some_good (cmdFree_good env hm _) <| ite_some_good (cmdSpace_good env hm _) <|
      ite_some_good (cmdSectorMap_good env hm _) <| ite_some_good (cmdExtractFiles_good env hm _) <|
      ite_some_good (cmdExtractUnused_good env hm _) <| ite_some_good (cmdShowTitles_good env hm _) <|
      fun h => by cases h

end Beeb.HostileL
