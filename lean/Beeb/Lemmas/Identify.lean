/-
Lemmas about the identification code (`identify.cc` model in `Beeb.Model.Disc`):
the Watford guard loop, locality of `probeFormat`, soundness of `probeGeometry`
and the extension hints.
-/
import Beeb.Model.Disc
import Beeb.Lemmas.Bits

namespace Beeb.IdentifyL
open Beeb Beeb.Gen Beeb.Bits

/-! ### The Watford guard -/

/-- "some file of the first catalogue starts at sector 2" (documented 10-bit start sector) -/
def fileAt2Spec (s1 : Sector) : Bool :=
  (List.range (sget s1 5 / 8)).any (fun k => sget s1 (8 * (k + 1) + 7) + 256 * (sget s1 (8 * (k + 1) + 6) % 4) == 2)

/-- the Watford recognition bytes -/
def watfordMarker (m : Media) : Bool :=
  match m 2 with
  | some s2 => (s2.take 8).all (· == 0xAA) && decide (s2.length ≥ 8)
  | none => false

theorem sget_lt (s : Sector) (hb : ∀ b ∈ s, b < 256) (i : Nat) : sget s i < 256 := by
  unfold sget
  rw [List.getD_eq_getElem?_getD]
  cases h : s[i]? with
  | none => simp
  | some b => simpa using hb b (List.mem_of_getElem? h)

theorem watford_start_sector_eq (s1 : Sector) (hb : ∀ b ∈ s1, b < 256) (pos : Nat) (hp : pos < 1000) :
    watford_start_sector (arr s1) pos = sget s1 (pos + 7) + 256 * (sget s1 (pos + 6) % 4) := by
  unfold watford_start_sector
  rw [Nat.mod_eq_of_lt (by omega : pos + 7 < 4294967296),
      Nat.mod_eq_of_lt (by omega : pos + 6 < 4294967296)]
  show (sget s1 (pos + 7) ||| ((sget s1 (pos + 6) &&& 3) <<< 8) % 4294967296) = _
  have h7 := sget_lt s1 hb (pos + 7)
  have h4 : sget s1 (pos + 6) % 4 < 4 := Nat.mod_lt _ (by omega)
  rw [and_3, shl_eq, Nat.mod_eq_of_lt (by omega), or_mul_pow 8 _ _ (by omega)]
  omega

theorem watford_go_eq (s1 : Sector) (hb : ∀ b ∈ s1, b < 256) (last : Nat) (hlast : last < 256) :
    ∀ (fuel j : Nat), last / 8 - j < fuel →
      watfordFileAt2.go s1 last fuel (8 * (j + 1)) =
        some ((List.range' j (last / 8 - j)).any
          (fun k => sget s1 (8 * (k + 1) + 7) + 256 * (sget s1 (8 * (k + 1) + 6) % 4) == 2)) := by
  intro fuel
  induction fuel with
  | zero => intro j h; omega
  | succ fuel ih =>
    intro j hf
    unfold watfordFileAt2.go
    by_cases h1 : 8 * (j + 1) > last
    · have : last / 8 - j = 0 := by omega
      simp [h1, this]
    · have h2 : ¬ (8 * (j + 1) + 7 ≥ 256) := by omega
      have hn : last / 8 - j = (last / 8 - (j + 1)) + 1 := by omega
      rw [if_neg h1, if_neg h2, hn, List.range'_succ, List.any_cons,
        watford_start_sector_eq s1 hb _ (by omega)]
      unfold watford_sector2_in_use
      cases hc : (sget s1 (8 * (j + 1) + 7) + 256 * (sget s1 (8 * (j + 1) + 6) % 4) == 2)
      · have := ih (j + 1) (by omega)
        simpa [Nat.mul_add] using this
      · simp

theorem watfordFileAt2_eq (s1 : Sector) (_hl : s1.length = 256) (hb : ∀ b ∈ s1, b < 256) :
    watfordFileAt2 s1 = some (fileAt2Spec s1) := by
  unfold watfordFileAt2 fileAt2Spec
  have h := watford_go_eq s1 hb (sget s1 5) (sget_lt s1 hb 5) 33 0 (by have := sget_lt s1 hb 5; omega)
  simpa [List.range_eq_range'] using h

theorem smellsLikeWatford_eq (m : Media) (s1 : Sector) (hl : s1.length = 256) (hb : ∀ b ∈ s1, b < 256) :
    smellsLikeWatford m s1 = .ok (!fileAt2Spec s1 && watfordMarker m) := by
  unfold smellsLikeWatford watfordMarker
  rw [watfordFileAt2_eq s1 hl hb]
  cases fileAt2Spec s1
  · cases m 2 <;> simp
  · simp

/-! ### HDFS -/

theorem probeFormat_hdfs (m : Media) (s1 : Sector) (nd : Bool) (h1 : m 1 = some s1)
    (hf : (sget s1 6 &&& 8) != 0) :
    ∃ n, probeFormat m nd = .ok (some (Format.HDFS, n)) := by
  refine ⟨get_hdfs_sector_count (arr s1), ?_⟩
  unfold probeFormat
  simp [h1, smellsLikeHdfs, hf]

/-! ### Locality of `probeFormat` -/

theorem catalogRead_opus_congr (m m' : Media) (loc : Nat)
    (h0 : m loc = m' loc) (h1 : m (loc + 1) = m' (loc + 1)) :
    Catalog.read Format.OpusDDOS loc m = Catalog.read Format.OpusDDOS loc m' := by
  simp [Catalog.read, Catalog.read.go, h0, h1]

theorem volumeMake_opus_congr (m m' : Media) (loc origin len : Nat)
    (h0 : m loc = m' loc) (h1 : m (loc + 1) = m' (loc + 1)) :
    Volume.make Format.OpusDDOS loc origin len m = Volume.make Format.OpusDDOS loc origin len m' := by
  unfold Volume.make
  rw [catalogRead_opus_congr m m' loc h0 h1]

/-- every catalogue location produced by the table loop is `2 * i` with `i < 8` -/
theorem opusTableLoop_catLoc (s16 : Sector) (spt : Nat) (gc : Option Nat) :
    ∀ (fuel i off : Nat) (acc r : List VolLoc), fuel + i ≤ 8 →
      (∀ l ∈ acc, l.catLoc ≤ 14) →
      opusTableLoop s16 spt gc fuel i off acc = .ok r → ∀ l ∈ r, l.catLoc ≤ 14 := by
  intro fuel
  induction fuel with
  | zero =>
    intro i off acc r _ hacc h l hl
    simp only [opusTableLoop, Res.ok.injEq] at h
    subst h
    exact hacc l (List.mem_reverse.mp hl)
  | succ fuel ih =>
    intro i off acc r hfi hacc h
    have hacc' : ∀ l ∈ ({ catLoc := i * 2, start := sget s16 off * spt, len := 0, label := 65 + i } : VolLoc) :: acc,
        l.catLoc ≤ 14 := by
      intro l hl
      rcases List.mem_cons.mp hl with rfl | hl
      · show i * 2 ≤ 14; omega
      · exact hacc l hl
    unfold opusTableLoop at h
    simp only [] at h
    split at h
    · exact ih _ _ _ _ (by omega) hacc h
    · split at h
      · split at h
        · cases h
        · exact ih _ _ _ _ (by omega) hacc' h
      · exact ih _ _ _ _ (by omega) hacc' h

theorem mem_insertLoc (x : VolLoc) : ∀ (l : List VolLoc) (y : VolLoc), y ∈ insertLoc x l → y = x ∨ y ∈ l := by
  intro l
  induction l with
  | nil => intro y h; simpa [insertLoc] using h
  | cons z zs ih =>
    intro y h
    unfold insertLoc at h
    split at h
    · rcases List.mem_cons.mp h with h | h
      · exact Or.inl h
      · exact Or.inr h
    · rcases List.mem_cons.mp h with h | h
      · exact Or.inr (h ▸ List.mem_cons_self)
      · rcases ih y h with h | h
        · exact Or.inl h
        · exact Or.inr (List.mem_cons_of_mem _ h)

theorem mem_sortLocs_aux : ∀ (l acc : List VolLoc) (y : VolLoc),
    y ∈ l.foldl (fun acc x => insertLoc x acc) acc → y ∈ l ∨ y ∈ acc := by
  intro l
  induction l with
  | nil => intro acc y h; exact Or.inr h
  | cons x xs ih =>
    intro acc y h
    rw [List.foldl_cons] at h
    rcases ih _ y h with h | h
    · exact Or.inl (List.mem_cons_of_mem _ h)
    · rcases mem_insertLoc x acc y h with h | h
      · exact Or.inl (h ▸ List.mem_cons_self)
      · exact Or.inr h

theorem mem_sortLocs (l : List VolLoc) (y : VolLoc) (h : y ∈ sortLocs l) : y ∈ l := by
  rcases mem_sortLocs_aux l [] y h with h | h
  · exact h
  · cases h

theorem opusAssignLens_catLoc : ∀ (l : List VolLoc) (next : Nat) (r : List VolLoc),
    opusAssignLens l next = .ok r → ∀ y ∈ r, ∃ v ∈ l, y.catLoc = v.catLoc := by
  intro l
  induction l with
  | nil =>
    intro next r h y hy
    simp only [opusAssignLens, Res.ok.injEq] at h
    subst h; cases hy
  | cons v rest ih =>
    intro next r h y hy
    unfold opusAssignLens at h
    split at h
    · cases h
    · split at h
      · rename_i r' hr'
        simp only [Res.ok.injEq] at h
        subst h
        rcases List.mem_cons.mp hy with rfl | hy
        · exact ⟨v, List.mem_cons_self, rfl⟩
        · obtain ⟨w, hw, he⟩ := ih _ _ hr' y hy
          exact ⟨w, List.mem_cons_of_mem _ hw, he⟩
      · cases h
      · cases h

theorem opusLocations_catLoc (s16 : Sector) (geom : Option Geometry) (locs : List VolLoc)
    (h : opusLocations s16 geom = .ok locs) : ∀ l ∈ locs, l.catLoc ≤ 14 := by
  unfold opusLocations at h
  simp only [] at h
  split at h
  · cases h
  · cases h
  · split at h
    · cases h
    · cases h
    · rename_i tl htl
      split at h
      · rename_i r hr
        simp only [Res.ok.injEq] at h
        subst h
        intro l hl
        obtain ⟨v, hv, he⟩ := opusAssignLens_catLoc _ _ _ hr l (List.mem_reverse.mp hl)
        have hv' := mem_sortLocs _ _ (List.mem_reverse.mp hv)
        have := opusTableLoop_catLoc _ _ _ 8 0 8 [] tl (by omega) (by intro l hl; cases hl) htl v hv'
        omega
      · cases h
      · cases h

theorem chk_congr (m m' : Media) (nd : Bool) (h17 : ∀ s, s < 17 → m s = m' s) :
    ∀ (locs : List VolLoc), (∀ l ∈ locs, l.catLoc ≤ 14) →
      smellsLikeOpus.chk m nd locs = smellsLikeOpus.chk m' nd locs := by
  intro locs
  induction locs with
  | nil => intro _; simp [smellsLikeOpus.chk]
  | cons l rest ih =>
    intro h
    have hl : l.catLoc ≤ 14 := h l List.mem_cons_self
    have hr := ih (fun x hx => h x (List.mem_cons_of_mem _ hx))
    unfold smellsLikeOpus.chk
    rw [volumeMake_opus_congr m m' l.catLoc l.start l.len (h17 _ (by omega)) (h17 _ (by omega)), hr]

theorem smellsLikeOpus_local (m m' : Media) (nd : Bool)
    (h17 : ∀ s, s < 17 → m s = m' s) (hr : ∀ s, (m s).isSome = (m' s).isSome) :
    smellsLikeOpus m nd = smellsLikeOpus m' nd := by
  unfold smellsLikeOpus
  rw [← h17 16 (by omega)]
  cases h16 : m 16 with
  | none => rfl
  | some s16 =>
    simp only []
    split
    · rfl
    · cases hloc : opusLocations s16 none with
      | err e => rfl
      | abort s => rfl
      | ok locs =>
        simp only []
        split
        · rfl
        · rw [chk_congr m m' nd h17 locs (opusLocations_catLoc s16 none locs hloc)]
          have := hr ((sget s16 1 <<< 8 ||| sget s16 2) - 1)
          cases hm : m ((sget s16 1 <<< 8 ||| sget s16 2) - 1) <;>
            cases hm' : m' ((sget s16 1 <<< 8 ||| sget s16 2) - 1) <;>
            simp_all

theorem hasValidDfsCatalog_congr (m m' : Media) (loc : Nat)
    (h0 : m loc = m' loc) (h1 : m (loc + 1) = m' (loc + 1)) :
    hasValidDfsCatalog m loc = hasValidDfsCatalog m' loc := by
  unfold hasValidDfsCatalog
  rw [h0, h1]

theorem smellsLikeWatford_congr (m m' : Media) (s1 : Sector) (h2 : m 2 = m' 2) :
    smellsLikeWatford m s1 = smellsLikeWatford m' s1 := by
  unfold smellsLikeWatford
  rw [h2]

theorem smellsLikeAcorn_congr (m m' : Media) (s1 : Sector) (nd : Bool)
    (h0 : m 0 = m' 0) (h1 : m 1 = m' 1) (h2 : m 2 = m' 2)
    (ho : smellsLikeOpus m nd = smellsLikeOpus m' nd) :
    smellsLikeAcorn m s1 nd = smellsLikeAcorn m' s1 nd := by
  unfold smellsLikeAcorn
  rw [smellsLikeWatford_congr m m' s1 h2, ho, hasValidDfsCatalog_congr m m' 0 h0 h1]

theorem probeFormat_congr (m m' : Media) (nd : Bool)
    (h0 : m 0 = m' 0) (h1 : m 1 = m' 1) (h2 : m 2 = m' 2)
    (ho : smellsLikeOpus m nd = smellsLikeOpus m' nd) :
    probeFormat m nd = probeFormat m' nd := by
  unfold probeFormat
  rw [← h1]
  cases m 1 with
  | none => rfl
  | some s1 =>
    simp only []
    rw [smellsLikeWatford_congr m m' s1 h2, ho, smellsLikeAcorn_congr m m' s1 nd h0 h1 h2 ho]

theorem probeFormat_local (m m' : Media) (nd : Bool)
    (h17 : ∀ s, s < 17 → m s = m' s) (hr : ∀ s, (m s).isSome = (m' s).isSome) :
    probeFormat m nd = probeFormat m' nd :=
  probeFormat_congr m m' nd (h17 0 (by omega)) (h17 1 (by omega)) (h17 2 (by omega))
    (smellsLikeOpus_local m m' nd h17 hr)

theorem smellsLikeOpus_no_marker (m : Media) (nd : Bool)
    (hno : ∀ s16, m 16 = some s16 → sget s16 3 ≠ 18) : smellsLikeOpus m nd = .ok none := by
  unfold smellsLikeOpus
  cases h16 : m 16 with
  | none => rfl
  | some s16 =>
    have := hno s16 h16
    simp [this]

theorem probeFormat_local_no_opus (m m' : Media) (nd : Bool)
    (h012 : ∀ s, s < 3 → m s = m' s) (_hr : ∀ s, (m s).isSome = (m' s).isSome)
    (hno : ∀ s16, m 16 = some s16 → sget s16 3 ≠ 18) (hno' : ∀ s16, m' 16 = some s16 → sget s16 3 ≠ 18) :
    probeFormat m nd = probeFormat m' nd :=
  probeFormat_congr m m' nd (h012 0 (by omega)) (h012 1 (by omega)) (h012 2 (by omega))
    (by rw [smellsLikeOpus_no_marker m nd hno, smellsLikeOpus_no_marker m' nd hno'])

/-! ### Geometry -/

theorem foldl_min_mem {α} (less : α → α → Bool) : ∀ (xs : List α) (x : α),
    xs.foldl (fun best y => if less y best then y else best) x ∈ x :: xs := by
  intro xs
  induction xs with
  | nil => intro x; simp
  | cons y ys ih =>
    intro x
    rw [List.foldl_cons]
    have := ih (if less y x = true then y else x)
    rcases List.mem_cons.mp this with h | h
    · rw [h]
      split
      · exact List.mem_cons_of_mem _ List.mem_cons_self
      · exact List.mem_cons_self
    · exact List.mem_cons_of_mem _ (List.mem_cons_of_mem _ h)

theorem minElement_mem {α} (less : α → α → Bool) (l : List α) (x : α)
    (h : minElement less l = some x) : x ∈ l := by
  cases l with
  | nil => cases h
  | cons y ys =>
    simp only [minElement, Option.some.injEq] at h
    subst h
    exact foldl_min_mem less ys y

theorem probeGeometry_sound (m : Media) (fmt : Format) (total : Nat) (cands : List ImgFmt) (ff : ImgFmt)
    (h : probeGeometry m fmt total cands = some ff) :
    ff ∈ cands ∧
    total ≤ (if singleSidedFilesystem fmt m then ff.geom.cylinders * ff.geom.sectors else ff.geom.totalSectors) := by
  unfold probeGeometry at h
  have hm := minElement_mem _ _ _ h
  simp only [] at hm
  have key : ∀ P : List ImgFmt, ff ∈ (if P.length > 1 then
        (if (P.filter (fun ff =>
            if ff.geom.heads == 1 then true
            else hasValidDfsCatalog m (ff.geom.sectors * (if ff.interleaved then 1 else ff.geom.cylinders)))).isEmpty
          then P
          else P.filter (fun ff =>
            if ff.geom.heads == 1 then true
            else hasValidDfsCatalog m (ff.geom.sectors * (if ff.interleaved then 1 else ff.geom.cylinders))))
        else P) → ff ∈ P := by
    intro P hP
    by_cases hc : P.length > 1
    · rw [if_pos hc] at hP
      by_cases hw : (P.filter (fun ff =>
            if ff.geom.heads == 1 then true
            else hasValidDfsCatalog m (ff.geom.sectors * (if ff.interleaved then 1 else ff.geom.cylinders)))).isEmpty = true
      · rw [if_pos hw] at hP; exact hP
      · rw [if_neg hw] at hP; exact (List.mem_filter.mp hP).1
    · rw [if_neg hc] at hP; exact hP
  have := List.mem_filter.mp (key _ hm)
  exact ⟨this.1, by simpa using this.2⟩

theorem minElement_isSome {α} (less : α → α → Bool) (l : List α) (h : l ≠ []) :
    (minElement less l).isSome := by
  cases l with
  | nil => exact absurd rfl h
  | cons y ys => simp [minElement]

/-- Totality of geometry probing (after the repair: the "other side" filter is only a tie-breaker):
it fails only when no candidate is large enough. -/
theorem probeGeometry_total (m : Media) (fmt : Format) (total : Nat) (cands : List ImgFmt)
    (h : ∃ ff ∈ cands, (if singleSidedFilesystem fmt m then ff.geom.cylinders * ff.geom.sectors
      else ff.geom.totalSectors) ≥ total) :
    (probeGeometry m fmt total cands).isSome := by
  obtain ⟨ff, hmem, hge⟩ := h
  have hne : cands.filter (fun ff =>
      decide ((if singleSidedFilesystem fmt m = true then ff.geom.cylinders * ff.geom.sectors
        else ff.geom.totalSectors) ≥ total)) ≠ [] := by
    intro he
    have : ff ∈ cands.filter (fun ff =>
      decide ((if singleSidedFilesystem fmt m = true then ff.geom.cylinders * ff.geom.sectors
        else ff.geom.totalSectors) ≥ total)) :=
      List.mem_filter.mpr ⟨hmem, by simpa using hge⟩
    rw [he] at this
    cases this
  unfold probeGeometry
  apply minElement_isSome
  simp only []
  generalize cands.filter (fun ff =>
      decide ((if singleSidedFilesystem fmt m = true then ff.geom.cylinders * ff.geom.sectors
        else ff.geom.totalSectors) ≥ total)) = P at hne
  by_cases hc : P.length > 1
  · rw [if_pos hc]
    generalize P.filter _ = W
    by_cases hw : W.isEmpty = true
    · rw [if_pos hw]; exact hne
    · rw [if_neg hw]
      intro he
      rw [he] at hw
      exact hw rfl
  · rw [if_neg hc]
    exact hne

/-! ### Extension hints -/

theorem hints_ok :
    (candidateList "a.ssd").all (fun f => f.geom.encoding == some Encoding.FM && !f.interleaved) ∧
    (candidateList "a.sdd").all (fun f => f.geom.encoding == some Encoding.MFM && !f.interleaved) ∧
    (candidateList "a.dsd").all (fun f => f.geom.encoding == some Encoding.FM && f.interleaved && f.geom.heads == 2) ∧
    (candidateList "a.ddd").all (fun f => f.geom.encoding == some Encoding.MFM && f.interleaved && f.geom.heads == 2) := by
  decide +kernel

end Beeb.IdentifyL
