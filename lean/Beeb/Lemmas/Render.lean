/-
Lemmas relating the byte-at-a-time renderers of `list` and `dump`
(`listLoop`, `hexdumpLoop`) to their declarative specifications
(`Spec.listSpec`, `Spec.dumpSpec`), plus the characterisation of `Spec.splitCR`
(inverse of joining with CR, no CR inside a piece, #pieces = #CR + 1).
-/
import Beeb.Model.Cmd
import Beeb.Spec.Body

namespace Beeb.RenderL
open Beeb Beeb.Spec

/-! ### dump -/

theorem dumpRow_eq (pos : Nat) (row : Bytes) : hexdumpRow pos row = dumpRowSpec pos row := by
  unfold hexdumpRow dumpRowSpec
  have hc : ∀ i : Nat,
      (if i < row.length then [32] ++ padLeft 2 48 (hexU (row.getD i 0)) else [32, 42, 42]) =
      dumpCell row[i]? := by
    intro i
    by_cases h : i < row.length
    · simp [h, List.getD_eq_getElem?_getD, dumpCell]
    · simp [h, dumpCell]
  have hp : ∀ x : Nat, ((x == 32 || isGraphC x) = true) ↔ (32 ≤ x ∧ x ≤ 126) := by
    intro x; simp [isGraphC]; omega
  have hd : ∀ i : Nat,
      (let ch := if i < row.length then row.getD i 0 else 46
       if ch == 32 || isGraphC ch then ch else 46) =
      dumpChar row[i]? := by
    intro i
    by_cases h : i < row.length
    · simp only [h, if_true, List.getD_eq_getElem?_getD, List.getElem?_eq_getElem h, Option.getD_some,
        dumpChar]
      by_cases hx : 32 ≤ row[i] ∧ row[i] ≤ 126
      · rw [if_pos ((hp _).2 hx), if_pos hx]
      · rw [if_neg (fun h' => hx ((hp _).1 h')), if_neg hx]
    · simp [h, isGraphC, dumpChar]
  simp only [hc, hd]

/-- the rows the loop produces, as a function of the row index -/
theorem hexdumpLoop_eq : ∀ (fuel pos : Nat) (b : Bytes) (acc : List Bytes), b.length / 8 < fuel →
    hexdumpLoop fuel pos b acc =
      acc.reverse ++ (List.range ((b.length + 7) / 8)).map
        (fun r => hexdumpRow (pos + 8 * r) ((b.drop (8 * r)).take 8)) := by
  intro fuel
  induction fuel with
  | zero => intro pos b acc h; omega
  | succ fuel ih =>
    intro pos b acc h
    unfold hexdumpLoop
    by_cases hb : b = []
    · subst hb; simp
    · have hpos : 0 < b.length := List.length_pos_iff.mpr hb
      have hne : b.isEmpty = false := by simp [hb]
      simp only [hne, Bool.false_eq_true, if_false]
      by_cases h8 : 8 ≤ b.length
      · have hl : (b.take 8).length ≥ 8 := by simp; omega
        rw [if_pos hl]
        have hf : (b.drop 8).length / 8 < fuel := by simp; omega
        rw [ih (pos + 8) (b.drop 8) _ hf]
        have hk : (b.length + 7) / 8 = ((b.drop 8).length + 7) / 8 + 1 := by simp; omega
        rw [hk, List.range_succ_eq_map, List.map_cons, List.map_map]
        simp only [List.reverse_cons, List.append_assoc, List.singleton_append, Nat.mul_zero,
          Nat.add_zero, List.drop_zero]
        congr 2
        apply List.map_congr_left
        intro r _
        simp only [Function.comp, List.drop_drop]
        have e1 : pos + 8 + 8 * r = pos + 8 * (r + 1) := by omega
        have e2 : 8 + 8 * r = 8 * (r + 1) := by omega
        rw [e1, e2]
      · have hl : ¬ (b.take 8).length ≥ 8 := by simp; omega
        rw [if_neg hl]
        have hk : (b.length + 7) / 8 = 1 := by omega
        rw [hk]
        simp

theorem hexdump_eq (b : Bytes) : hexdump b = dumpSpec b := by
  unfold hexdump dumpSpec
  rw [hexdumpLoop_eq _ 0 b [] (by omega)]
  simp only [List.reverse_nil, List.nil_append, Nat.zero_add, dumpRow_eq]

/-! ### list -/

/-- the line-number prefix: `%4d` and a space -/
def hdr (n : Nat) : Bytes := padLeft 4 32 (decU n) ++ [32]

/-- `listLoop` without the accumulator -/
def listGo : Bytes → Nat → Bool → Bytes
  | [], _, _ => []
  | c :: rest, ln, sol =>
    (if sol then hdr ln else []) ++
      (if c = 13 then 10 :: listGo rest (if sol then ln + 1 else ln) true
       else c :: listGo rest (if sol then ln + 1 else ln) false)

theorem listLoop_eq : ∀ (b : Bytes) (ln : Nat) (sol : Bool) (acc : Bytes),
    listLoop b ln sol acc = acc.reverse ++ listGo b ln sol := by
  intro b
  induction b with
  | nil => intro ln sol acc; simp [listLoop, listGo]
  | cons c rest ih =>
    intro ln sol acc
    cases sol <;> by_cases hc : c = 13 <;> simp [listLoop, listGo, ih, hc, hdr]

theorem listGo_true (b : Bytes) (n : Nat) (hb : b ≠ []) :
    listGo b n true = hdr n ++ listGo b (n + 1) false := by
  cases b with
  | nil => exact absurd rfl hb
  | cons c rest => simp [listGo]

theorem listGo_piece (p rest : Bytes) (n : Nat) (hp : 13 ∉ p) :
    listGo (p ++ rest) n false = p ++ listGo rest n false := by
  induction p with
  | nil => simp
  | cons c p ih =>
    have hc : c ≠ 13 := fun h => hp (by simp [h])
    have hp' : 13 ∉ p := fun h => hp (by simp [h])
    simp [listGo, hc, ih hp']

theorem listGo_cr (rest : Bytes) (n : Nat) :
    listGo (13 :: rest) n false = 10 :: listGo rest n true := by
  simp [listGo]

/-- inverse of `splitCR` -/
def joinCR : List Bytes → Bytes
  | [] => []
  | [p] => p
  | p :: q :: rest => p ++ 13 :: joinCR (q :: rest)

theorem splitCR_ne_nil (b : Bytes) : splitCR b ≠ [] := by
  cases b with
  | nil => simp [splitCR]
  | cons c rest =>
    unfold splitCR
    by_cases hc : c = 13
    · simp [hc]
    · rw [if_neg hc]; split <;> simp

theorem joinCR_cons_cons (c : Nat) (p : Bytes) (ps : List Bytes) :
    joinCR ((c :: p) :: ps) = c :: joinCR (p :: ps) := by
  cases ps <;> simp [joinCR]

theorem joinCR_splitCR (b : Bytes) : joinCR (splitCR b) = b := by
  induction b with
  | nil => simp [splitCR, joinCR]
  | cons c rest ih =>
    unfold splitCR
    by_cases hc : c = 13
    · rw [if_pos hc]
      cases h : splitCR rest with
      | nil => exact absurd h (splitCR_ne_nil rest)
      | cons p ps => rw [h] at ih; simp [joinCR, ih, hc]
    · rw [if_neg hc]
      cases h : splitCR rest with
      | nil => exact absurd h (splitCR_ne_nil rest)
      | cons p ps => rw [h] at ih; simp only [joinCR_cons_cons, ih]

theorem splitCR_no_cr (b : Bytes) : ∀ p ∈ splitCR b, 13 ∉ p := by
  induction b with
  | nil => simp [splitCR]
  | cons c rest ih =>
    unfold splitCR
    by_cases hc : c = 13
    · rw [if_pos hc]
      intro p hp
      rcases List.mem_cons.mp hp with h | h
      · simp [h]
      · exact ih p h
    · rw [if_neg hc]
      cases h : splitCR rest with
      | nil => exact absurd h (splitCR_ne_nil rest)
      | cons q qs =>
        rw [h] at ih
        intro p hp
        rcases List.mem_cons.mp hp with h' | h'
        · subst h'
          intro hm
          rcases List.mem_cons.mp hm with h1 | h1
          · exact hc h1.symm
          · exact ih q (by simp) h1
        · exact ih p (by simp [h'])

/-- number of pieces = number of CRs + 1 -/
theorem splitCR_length (b : Bytes) : (splitCR b).length = b.count 13 + 1 := by
  induction b with
  | nil => simp [splitCR]
  | cons c rest ih =>
    unfold splitCR
    by_cases hc : c = 13
    · rw [if_pos hc]; simp [hc, ih]
    · rw [if_neg hc]
      cases h : splitCR rest with
      | nil => exact absurd h (splitCR_ne_nil rest)
      | cons q qs =>
        rw [h] at ih
        have : (c == 13) = false := by simp [hc]
        simp [List.count_cons, this] at ih ⊢
        exact ih

/-- the file ended with CR -/
def termOf (ps : List Bytes) : Bool := ps.getLast? = some []

/-- the lines: the pieces, less the empty one after a final CR -/
def linesOf (ps : List Bytes) : List Bytes := if termOf ps then ps.dropLast else ps

/-- numbered lines, newline-separated, with a final newline iff `term` -/
def renderLines (term : Bool) : Nat → List Bytes → Bytes
  | _, [] => []
  | n, [l] => hdr n ++ l ++ (if term then [10] else [])
  | n, l :: l' :: rest => hdr n ++ l ++ 10 :: renderLines term (n + 1) (l' :: rest)

theorem renderLines_cons (term : Bool) (n : Nat) (l : Bytes) (L : List Bytes)
    (h : term = true ∨ L ≠ []) :
    renderLines term n (l :: L) = hdr n ++ l ++ 10 :: renderLines term (n + 1) L := by
  cases L with
  | nil =>
    rcases h with h | h
    · simp [renderLines, h]
    · exact absurd rfl h
  | cons l' rest => simp [renderLines]

theorem termOf_cons_cons (p q : Bytes) (rest : List Bytes) :
    termOf (p :: q :: rest) = termOf (q :: rest) := by
  simp [termOf, List.getLast?_cons_cons]

theorem linesOf_cons_cons (p q : Bytes) (rest : List Bytes) :
    linesOf (p :: q :: rest) = p :: linesOf (q :: rest) := by
  unfold linesOf
  rw [termOf_cons_cons]
  split <;> simp

theorem linesOf_ne_nil (ps : List Bytes) (h : ps ≠ []) (ht : termOf ps = false) : linesOf ps ≠ [] := by
  simp [linesOf, ht, h]

/-- the model's output on the file with pieces `ps` -/
theorem listGo_join : ∀ (ps : List Bytes) (n : Nat), ps ≠ [] → (∀ p ∈ ps, 13 ∉ p) →
    listGo (joinCR ps) n true = renderLines (termOf ps) n (linesOf ps) := by
  intro ps
  induction ps with
  | nil => intro n h; exact absurd rfl h
  | cons p ps ih =>
    intro n _ hno
    cases ps with
    | nil =>
      by_cases hp : p = []
      · subst hp; simp [joinCR, listGo, termOf, linesOf, renderLines]
      · have ht : termOf [p] = false := by simp [termOf, hp]
        have := listGo_piece p [] (n + 1) (hno p (by simp))
        simp only [List.append_nil] at this
        simp [joinCR, listGo_true p n hp, this, linesOf, ht, renderLines, listGo]
    | cons q rest =>
      have hne : joinCR (p :: q :: rest) ≠ [] := by simp [joinCR]
      rw [listGo_true _ _ hne]
      simp only [joinCR]
      rw [listGo_piece p _ _ (hno p (by simp)), listGo_cr,
        ih (n + 1) (by simp) (fun x hx => hno x (by simp [hx])),
        termOf_cons_cons, linesOf_cons_cons, renderLines_cons]
      · simp
      · cases ht : termOf (q :: rest)
        · exact Or.inr (linesOf_ne_nil _ (by simp) ht)
        · exact Or.inl rfl

theorem joinCR_eq_nil : ∀ (ps : List Bytes), joinCR ps = [] → ps = [] ∨ ps = [[]]
  | [], _ => Or.inl rfl
  | [p], h => by simp [joinCR] at h; simp [h]
  | p :: q :: rest, h => by simp [joinCR] at h

/-- the file ends with CR iff the last piece is empty -/
theorem getLast_joinCR : ∀ (ps : List Bytes), (∀ p ∈ ps, 13 ∉ p) → joinCR ps ≠ [] →
    ((joinCR ps).getLast? = some 13 ↔ ps.getLast? = some []) := by
  intro ps
  induction ps with
  | nil => intro _ h; exact absurd rfl h
  | cons p ps ih =>
    intro hno hne
    cases ps with
    | nil =>
      simp only [joinCR] at hne ⊢
      constructor
      · intro h
        exact absurd (List.mem_of_getLast? h) (hno p (by simp))
      · intro h
        simp at h
        exact absurd h hne
    | cons q rest =>
      simp only [joinCR, List.getLast?_cons_cons]
      by_cases hj : joinCR (q :: rest) = []
      · rcases joinCR_eq_nil _ hj with h | h
        · simp at h
        · simp [h, joinCR]
      · rw [← ih (fun x hx => hno x (by simp [hx])) hj]
        generalize joinCR (q :: rest) = J at hj
        cases J with
        | nil => exact absurd rfl hj
        | cons j js => simp [List.getLast?_append, List.getLast?_cons_cons]

/-- the documented formula on explicit lines -/
theorem spec_lines (term : Bool) (M : Nat) : ∀ (L : List Bytes) (n : Nat), n + L.length = M + 1 →
    ((L.zipIdx n).flatMap fun (l, k) =>
      padLeft 4 32 (decU k) ++ [32] ++ l ++ (if k < M ∨ term = true then [10] else [])) =
    renderLines term n L := by
  intro L
  induction L with
  | nil => intro n _; simp [renderLines]
  | cons l L ih =>
    intro n h
    rw [List.zipIdx_cons, List.flatMap_cons, ih (n + 1) (by simp at h ⊢; omega)]
    cases L with
    | nil =>
      have : ¬ n < M := by simp at h; omega
      simp [renderLines, this, hdr]
    | cons l' rest =>
      have : n < M := by simp at h; omega
      simp [renderLines, this, hdr]

theorem listRender_eq (b : Bytes) : listRender b = listSpec b := by
  unfold listRender
  rw [listLoop_eq]
  simp only [List.reverse_nil, List.nil_append]
  have hj := joinCR_splitCR b
  have hno := splitCR_no_cr b
  have hne := splitCR_ne_nil b
  conv => lhs; rw [← hj]
  rw [listGo_join _ _ hne hno]
  unfold listSpec
  by_cases hb : b = []
  · subst hb; simp [splitCR, termOf, linesOf, renderLines]
  · rw [if_neg hb]
    have ht : (decide (b.getLast? = some 13)) = termOf (splitCR b) := by
      have := getLast_joinCR (splitCR b) hno (by rw [hj]; exact hb)
      rw [hj] at this
      simp only [termOf]
      exact decide_eq_decide.mpr this
    simp only [ht]
    have := spec_lines (termOf (splitCR b)) ((linesOf (splitCR b)).length) (linesOf (splitCR b)) 1 (by omega)
    unfold linesOf at this ⊢
    exact this.symm

end Beeb.RenderL

