/-
Lemmas behind C14: `free`'s used-sector count, `space`'s gap list, the sector
map and `extract-unused`'s spans, against the layout specification.
-/
import Beeb.Model.Cmd
import Beeb.Spec.Layout
import Beeb.Spec.Body
import Beeb.Lemmas.Leaf

namespace Beeb.SpaceL
open Beeb Beeb.Gen Beeb.Spec

/-- the extent the catalogue gives an entry (same as `Props.C14.extentOf`) -/
def ext (e : Entry) : Extent := { start := e.startSector, size := Spec.sectorsFor e.fileLength }

/-! ### free -/

theorem sectors_arith (len : Nat) : len / 256 + (if (len % 256 != 0) = true then 1 else 0) = (len + 255) / 256 := by
  by_cases h : len % 256 = 0
  · simp [h]; omega
  · simp [h]; omega

theorem sectorsFor_eq_zero (len : Nat) : Spec.sectorsFor len = 0 ↔ len = 0 := by
  unfold Spec.sectorsFor; omega

theorem usedFold_eq (es : List Entry) (u : Nat) :
    es.foldl (fun used e =>
      if e.fileLength == 0 then used
      else
        let last := e.startSector + (e.fileLength / 256 + (if e.fileLength % 256 != 0 then 1 else 0))
        if last > used then last else used) u
    = usedSectors u (es.map ext) := by
  induction es generalizing u with
  | nil => rfl
  | cons e rest ih =>
    simp only [List.foldl_cons, List.map_cons, usedSectors]
    rw [ih]
    unfold usedSectors
    congr 1
    simp only [ext, Extent.stop, sectorsFor_eq_zero, sectors_arith]
    by_cases h0 : e.fileLength = 0
    · simp [h0]
    · simp only [beq_iff_eq, h0, if_false]
      unfold Spec.sectorsFor
      split <;> omega

theorem sectorsUsed_eq (c : Catalog) :
    sectorsUsed c = usedSectors (dataSectorsReservedForCatalog c.fmt) (c.entries.map ext) :=
  usedFold_eq c.entries _

/-! ### space: specification side -/

/-- the `(last, next)` pairs in ascending disc order -/
def pairsAsc (pos total : Nat) : List Extent → List (Nat × Nat)
  | [] => [(pos, total)]
  | x :: rest => (pos, x.start) :: pairsAsc x.stop total rest

theorem runsFrom_eq (pos total : Nat) (xs : List Extent) :
    runsFrom pos total xs = (pairsAsc pos total xs).map (fun p => p.2 - p.1) := by
  induction xs generalizing pos with
  | nil => rfl
  | cons x rest ih => simp [runsFrom, pairsAsc, ih]

theorem pairsAsc_le (pos total : Nat) (xs : List Extent) (h : LayoutWF pos total xs) :
    ∀ p ∈ pairsAsc pos total xs, p.1 ≤ p.2 := by
  induction xs generalizing pos with
  | nil => intro p hp; simp [pairsAsc] at hp; subst hp; exact h
  | cons x rest ih =>
    intro p hp
    simp only [pairsAsc, List.mem_cons] at hp
    rcases hp with hp | hp
    · subst hp; exact h.1
    · exact ih _ h.2.2 p hp

theorem gapsOfPairs_eq (ps : List (Nat × Nat)) (acc : List Nat) (h : ∀ p ∈ ps, p.1 ≤ p.2) :
    gapsOfPairs ps acc = some (acc ++ (ps.map (fun p => p.2 - p.1)).filter (· != 0)) := by
  induction ps generalizing acc with
  | nil => simp [gapsOfPairs]
  | cons p rest ih =>
    obtain ⟨l, n⟩ := p
    have hln : l ≤ n := h (l, n) (by simp)
    have hr : ∀ p ∈ rest, p.1 ≤ p.2 := fun p hp => h p (by simp [hp])
    unfold gapsOfPairs maybeGap
    have h1 : ¬ l > n := by omega
    simp only [h1, if_false]
    by_cases h0 : n - l = 0
    · simp [h0, ih _ hr]
    · simp [h0, ih _ hr]

theorem foldl_add_eq_sum (l : List Nat) : l.foldl (· + ·) 0 = l.sum := List.sum_eq_foldl.symm

theorem sum_filter_ne_zero (l : List Nat) : (l.filter (· != 0)).sum = l.sum := by
  induction l with
  | nil => rfl
  | cons a rest ih =>
    by_cases h : a = 0
    · simp [h, ih]
    · simp [h, ih]

theorem owned_cons (x : Extent) (xs : List Extent) : ownedSectors (x :: xs) = x.size + ownedSectors xs := by
  unfold ownedSectors
  rw [foldl_add_eq_sum, foldl_add_eq_sum]; simp

theorem runs_sum (pos total : Nat) (xs : List Extent) (h : LayoutWF pos total xs) :
    (runsFrom pos total xs).sum + pos + ownedSectors xs = total := by
  induction xs generalizing pos with
  | nil => simp [runsFrom, ownedSectors]; exact Nat.sub_add_cancel h
  | cons x rest ih =>
    have := ih _ h.2.2
    have h1 := h.1
    rw [owned_cons]
    simp only [runsFrom, List.sum_cons, Extent.stop] at this ⊢
    omega

theorem pairsAsc_snoc (pos total : Nat) (R : List Extent) (x : Extent) :
    pairsAsc pos total (R ++ [x]) = pairsAsc pos x.start R ++ [(x.stop, total)] := by
  induction R generalizing pos with
  | nil => rfl
  | cons y rest ih => simp [pairsAsc, ih]

/-- head start of an ascending list, else `nxt` -/
def hs (B : List Extent) (nxt : Nat) : Nat := (B.head?.map (·.start)).getD nxt

theorem pairsAsc_append (pos total : Nat) (A B : List Extent) (q : Nat) :
    pairsAsc pos total (A ++ B) = pairsAsc pos (hs B total) A ++ (pairsAsc q total B).tail := by
  induction A generalizing pos with
  | nil => cases B <;> simp [pairsAsc, hs]
  | cons y rest ih => simp [pairsAsc, ih]

/-- the pairs of a catalogue whose entries are in descending disc order, walked
    from its last entry to its first; `nxt` is what follows the first entry -/
def chain (nxt : Nat) : List Entry → List (Nat × Nat)
  | [] => []
  | e :: rest => chain e.startSector rest ++ [(e.lastSector + 1, nxt)]

/-- start of the lowest file of a (descending) catalogue, else `nxt` -/
def fs (F : List Entry) (nxt : Nat) : Nat := (F.getLast?.map (·.startSector)).getD nxt

theorem fs_nil (nxt : Nat) : fs [] nxt = nxt := rfl

theorem fs_cons (e : Entry) (rest : List Entry) (nxt : Nat) : fs (e :: rest) nxt = fs rest e.startSector := by
  unfold fs
  cases rest <;> simp [List.getLast?_cons]

theorem pairsAsc_rev (pos nxt : Nat) (F : List Entry) (hstop : ∀ e ∈ F, e.lastSector + 1 = (ext e).stop) :
    pairsAsc pos nxt (F.reverse.map ext) = (pos, fs F nxt) :: chain nxt F := by
  induction F generalizing nxt with
  | nil => rfl
  | cons e rest ih =>
    have hr : ∀ e ∈ rest, e.lastSector + 1 = (ext e).stop := fun x hx => hstop x (by simp [hx])
    simp only [List.reverse_cons, List.map_append, List.map_cons, List.map_nil]
    rw [pairsAsc_snoc, ih _ hr, fs_cons, chain, ← hstop e (by simp)]
    rfl

theorem hs_rev (F : List Entry) (nxt : Nat) : hs (F.reverse.map ext) nxt = fs F nxt := by
  unfold hs fs
  cases h : F.getLast? <;> simp [List.head?_reverse, h, ext]

theorem entry_stop (e : Entry) (hb : ∀ i, e.m i < 256) (hne : e.fileLength ≠ 0) :
    e.lastSector + 1 = (ext e).stop := by
  have h := Leaf.last_sector_eq e.m hb
  have hne' : file_length e.m ≠ 0 := hne
  rw [if_neg hne'] at h
  show last_sector e.m + 1 = start_sector e.m + (file_length e.m + 255) / 256
  rw [h]
  unfold Leaf.sectorsFor
  omega

/-! ### space: model side -/

def chainG {β : Type} (g : Nat → Entry → List β) : Nat → List Entry → List β
  | _, [] => []
  | k, e :: rest => chainG g (k + 1) rest ++ g k e

theorem body_eq {β : Type} (h : Nat × Nat × Entry → List β) (c : Nat) (F : List Entry) (k : Nat) :
    List.flatMap h (List.map (fun x => (c, x.snd, x.fst)) (F.zipIdx k)).reverse
      = chainG (fun i e => h (c, i, e)) k F := by
  induction F generalizing k with
  | nil => rfl
  | cons e rest ih =>
    simp only [List.zipIdx_cons, List.map_cons, List.reverse_cons, List.flatMap_append, ih, chainG,
      List.flatMap_cons, List.flatMap_nil, List.append_nil]

theorem chainG_none (g : Nat → Entry → List (Nat × Nat)) (nx : Nat → Nat) (k : Nat) (F : List Entry) (nxt : Nat)
    (hg : ∀ i e, k ≤ i → g i e = [(e.lastSector + 1, nx i)])
    (h0 : nx k = nxt) (hn : ∀ i, i < F.length → nx (k + i + 1) = (F.getD i default).startSector) :
    chainG g k F = chain nxt F := by
  induction F generalizing k nxt with
  | nil => rfl
  | cons e rest ih =>
    simp only [chainG, chain]
    rw [hg k e (Nat.le_refl _), h0]
    congr 1
    apply ih
    · intro i e hi; exact hg i e (by omega)
    · have := hn 0 (by simp); simpa using this
    · intro i hi
      have := hn (i + 1) (by simp; omega)
      simp only [List.getD_cons_succ] at this
      rw [← this]; congr 1; omega

theorem chainG_front (g : Nat → Entry → List (Nat × Nat)) (init : Nat × Nat) (nx : Nat → Nat) (k : Nat)
    (F : List Entry) (nxt : Nat) (hF : F ≠ [])
    (hg : ∀ i e, k ≤ i → g i e = (if i = k + F.length - 1 then [init] else []) ++ [(e.lastSector + 1, nx i)])
    (h0 : nx k = nxt) (hn : ∀ i, i < F.length → nx (k + i + 1) = (F.getD i default).startSector) :
    chainG g k F = init :: chain nxt F := by
  induction F generalizing k nxt with
  | nil => exact absurd rfl hF
  | cons e rest ih =>
    simp only [chainG, chain]
    rw [hg k e (Nat.le_refl _), h0]
    have hn0 : nx (k + 1) = e.startSector := by have := hn 0 (by simp); simpa using this
    have hns : ∀ i, i < rest.length → nx (k + 1 + i + 1) = (rest.getD i default).startSector := by
      intro i hi
      have := hn (i + 1) (by simp; omega)
      simp only [List.getD_cons_succ] at this
      rw [← this]; congr 1; omega
    cases rest with
    | nil => simp [chainG, chain]
    | cons e' r =>
      have hk : ¬ (k = k + (e :: e' :: r).length - 1) := by simp
      rw [if_neg hk, ih (k + 1) e.startSector (by simp) _ hn0 hns]
      · simp
      · intro i x hi
        rw [hg i x (by omega)]
        simp only [List.length_cons]
        congr 2
        apply propext; constructor <;> intro h <;> omega

/-- the comparison step of `spaceFirstFile` -/
def ffStep (best : Option (Nat × Nat × Entry)) (x : Nat × Nat × Entry) : Option (Nat × Nat × Entry) :=
  match best with
  | none => some x
  | some b => if x.2.2.startSector < b.2.2.startSector then some x else some b

theorem spaceFirstFile_eq (L : List (Nat × Nat × Entry)) : spaceFirstFile L = L.foldl ffStep none := rfl

theorem ff_keep (b : Nat × Nat × Entry) (L : List (Nat × Nat × Entry))
    (h : ∀ x ∈ L, b.2.2.startSector ≤ x.2.2.startSector) : L.foldl ffStep (some b) = some b := by
  induction L with
  | nil => rfl
  | cons x rest ih =>
    have hx := h x (by simp)
    have : ffStep (some b) x = some b := by
      simp only [ffStep]; rw [if_neg (by omega)]
    rw [List.foldl_cons, this]
    exact ih (fun y hy => h y (by simp [hy]))

theorem ff_desc (c : Nat) (e : Entry) (rest : List Entry) (k : Nat)
    (hd : (e :: rest).Pairwise (fun a b => b.startSector < a.startSector)) :
    (List.map (fun x => (c, x.snd, x.fst)) (rest.zipIdx (k + 1))).foldl ffStep (some (c, k, e))
      = some (c, k + rest.length, rest.getLastD e) := by
  induction rest generalizing e k with
  | nil => rfl
  | cons e' r ih =>
    have h1 : e'.startSector < e.startSector := (List.pairwise_cons.mp hd).1 e' (by simp)
    have hd' := (List.pairwise_cons.mp hd).2
    simp only [List.zipIdx_cons, List.map_cons, List.foldl_cons]
    have : ffStep (some (c, k, e)) (c, k + 1, e') = some (c, k + 1, e') := by
      simp only [ffStep]; rw [if_pos h1]
    rw [this, ih e' (k + 1) hd']
    simp only [List.length_cons, List.getLastD_cons]
    congr 3; omega

theorem ff_desc0 (c : Nat) (e : Entry) (rest : List Entry)
    (hd : (e :: rest).Pairwise (fun a b => b.startSector < a.startSector)) :
    (List.map (fun x => (c, x.snd, x.fst)) (e :: rest).zipIdx).foldl ffStep none
      = some (c, rest.length, rest.getLastD e) := by
  have := ff_desc c e rest 0 hd
  simp only [List.zipIdx_cons, List.map_cons, List.foldl_cons, ffStep]
  simpa using this

theorem fs_getLastD (e : Entry) (rest : List Entry) (nxt : Nat) :
    fs (e :: rest) nxt = (rest.getLastD e).startSector := by
  induction rest generalizing e nxt with
  | nil => rfl
  | cons e' r ih => rw [fs_cons, ih, List.getLastD_cons]

theorem getLastD_mem (e : Entry) (rest : List Entry) : rest.getLastD e ∈ e :: rest := by
  induction rest generalizing e with
  | nil => simp
  | cons e' r ih => have := ih e'; rw [List.getLastD_cons]; exact List.mem_cons_of_mem _ this

theorem spaceNext_succ (cats : List (List Entry)) (total c i : Nat) :
    spaceNext cats total c (i + 1) = ((cats.getD c []).getD i default).startSector := by
  simp [spaceNext]

theorem spaceNext_w0 (F0 F1 : List Entry) (total : Nat) : spaceNext [F0, F1] total 0 0 = fs F1 total := by
  cases F1 <;> simp [spaceNext, fs]

theorem spaceNext_w1 (F0 F1 : List Entry) (total : Nat) : spaceNext [F0, F1] total 1 0 = total := by
  simp [spaceNext]

theorem mem_idx (c : Nat) (F : List Entry) (k : Nat) (x : Nat × Nat × Entry)
    (hx : x ∈ List.map (fun x => (c, x.snd, x.fst)) (F.zipIdx k)) : x.2.2 ∈ F := by
  simp only [List.mem_map] at hx
  obtain ⟨p, hp, rfl⟩ := hx
  obtain ⟨a, i⟩ := p
  exact (List.mem_zipIdx hp).2.2 ▸ List.getElem_mem _

theorem spacePairs_single (es : List Entry) (total cat : Nat)
    (hd : (es.filter (fun e => e.fileLength != 0)).Pairwise (fun a b => b.startSector < a.startSector)) :
    spacePairs [es] total cat =
      (cat, fs (es.filter (fun e => e.fileLength != 0)) total) :: chain total (es.filter (fun e => e.fileLength != 0)) := by
  unfold spacePairs spaceIndexed
  simp only [List.map_cons, List.map_nil, List.zipIdx_cons, List.zipIdx_nil, List.flatMap_cons, List.flatMap_nil, List.append_nil]
  generalize (es.filter (fun e => e.fileLength != 0)) = F at hd ⊢
  cases F with
  | nil => simp [spaceFirstFile, chain, fs]
  | cons e rest =>
    rw [spaceFirstFile_eq, ff_desc0 0 e rest hd]
    simp only []
    rw [body_eq, fs_getLastD]
    rw [chainG_front _ (cat, (rest.getLastD e).startSector) (fun i => spaceNext [e :: rest] total 0 i) 0 (e :: rest) total (by simp)]
    · simp
    · intro i x _
      simp only [List.length_cons]
      congr 2
      simp
      constructor <;> intro h <;> omega
    · simp [spaceNext]
    · intro i _
      simp only [Nat.zero_add, spaceNext_succ]
      rfl

theorem spacePairs_watford (es0 es1 : List Entry) (total cat : Nat)
    (hd0 : (es0.filter (fun e => e.fileLength != 0)).Pairwise (fun a b => b.startSector < a.startSector))
    (hd1 : (es1.filter (fun e => e.fileLength != 0)).Pairwise (fun a b => b.startSector < a.startSector))
    (hx : ∀ a ∈ es0.filter (fun e => e.fileLength != 0), ∀ b ∈ es1.filter (fun e => e.fileLength != 0),
      a.startSector < b.startSector) :
    spacePairs [es0, es1] total cat =
      chain total (es1.filter (fun e => e.fileLength != 0)) ++
      ((cat, fs (es0.filter (fun e => e.fileLength != 0)) (fs (es1.filter (fun e => e.fileLength != 0)) total)) ::
        chain (fs (es1.filter (fun e => e.fileLength != 0)) total) (es0.filter (fun e => e.fileLength != 0))) := by
  unfold spacePairs spaceIndexed
  simp only [List.map_cons, List.map_nil, List.zipIdx_cons, List.zipIdx_nil, List.flatMap_cons, List.flatMap_nil, List.append_nil]
  generalize (es0.filter (fun e => e.fileLength != 0)) = F0 at hd0 hx ⊢
  generalize (es1.filter (fun e => e.fileLength != 0)) = F1 at hd1 hx ⊢
  simp only [List.reverse_append, List.flatMap_append, body_eq, spaceFirstFile_eq, List.foldl_append]
  simp only [Nat.zero_add]
  generalize hff : List.foldl ffStep (List.foldl ffStep none (List.map (fun x => (0, x.snd, x.fst)) F0.zipIdx))
                (List.map (fun x => (1, x.snd, x.fst)) F1.zipIdx) = ff
  cases F0 with
  | nil =>
    simp only [List.zipIdx_nil, List.map_nil, List.foldl_nil] at hff
    simp only [chainG, List.append_nil, fs_nil, chain]
    cases F1 with
    | nil => simp at hff; subst hff; simp [chainG, chain, fs]
    | cons e r =>
      rw [ff_desc0 1 e r hd1] at hff; subst hff
      simp only []
      rw [chainG_none _ (fun i => spaceNext [[], e :: r] total 1 i) 0 (e :: r) total]
      · simp [fs_getLastD]
      · intro i x _; simp
      · exact spaceNext_w1 _ _ _
      · intro i _; simp only [Nat.zero_add, spaceNext_succ]; rfl
  | cons e r =>
    rw [ff_desc0 0 e r hd0, ff_keep] at hff
    · subst hff
      simp only []
      rw [chainG_none _ (fun i => spaceNext [e :: r, F1] total 1 i) 0 F1 total,
        chainG_front _ (cat, (r.getLastD e).startSector) (fun i => spaceNext [e :: r, F1] total 0 i) 0 (e :: r) (fs F1 total) (by simp)]
      · simp [fs_getLastD]
      · intro i x _
        simp only [List.length_cons]
        congr 2
        simp
        constructor <;> intro h <;> omega
      · exact spaceNext_w0 _ _ _
      · intro i _; simp only [Nat.zero_add, spaceNext_succ]; rfl
      · intro i x _; simp
      · exact spaceNext_w1 _ _ _
      · intro i _; simp only [Nat.zero_add, spaceNext_succ]; rfl
    · intro x hx'
      have h1 := mem_idx 1 F1 0 x hx'
      exact Nat.le_of_lt (hx _ (getLastD_mem e r) _ h1)

theorem wf_lb (pos total : Nat) (xs : List Extent) (h : LayoutWF pos total xs) : ∀ y ∈ xs, pos ≤ y.start := by
  induction xs generalizing pos with
  | nil => intro y hy; cases hy
  | cons x rest ih =>
    intro y hy
    rcases List.mem_cons.mp hy with rfl | hy
    · exact h.1
    · have := ih _ h.2.2 y hy
      have := h.1
      unfold Extent.stop at *
      omega

theorem wf_pairwise (pos total : Nat) (xs : List Extent) (h : LayoutWF pos total xs) :
    xs.Pairwise (fun x y => x.start < y.start) := by
  induction xs generalizing pos with
  | nil => exact List.Pairwise.nil
  | cons x rest ih =>
    refine List.pairwise_cons.mpr ⟨?_, ih _ h.2.2⟩
    intro y hy
    have := wf_lb _ _ _ h.2.2 y hy
    have := h.2.1
    unfold Extent.stop at *
    omega

theorem filter_stop (es : List Entry) (hb : ∀ e ∈ es, ∀ i, e.m i < 256) :
    ∀ e ∈ es.filter (fun e => e.fileLength != 0), e.lastSector + 1 = (ext e).stop := by
  intro e he
  have := List.mem_filter.mp he
  exact entry_stop e (hb e this.1) (by simpa using this.2)

theorem spaceGaps_of_pairs (cats : List (List Entry)) (total cat : Nat)
    (h : ∀ p ∈ spacePairs cats total cat, p.1 ≤ p.2) :
    spaceGaps cats total cat = .ok (((spacePairs cats total cat).map (fun p => p.2 - p.1)).filter (· != 0)) := by
  unfold spaceGaps
  rw [gapsOfPairs_eq _ _ h]
  simp

theorem space_single (es : List Entry) (total cat : Nat)
    (hb : ∀ e ∈ es, ∀ i, e.m i < 256)
    (hwf : LayoutWF cat total ((es.filter (fun e => e.fileLength != 0)).reverse.map ext)) :
    spaceGaps [es] total cat =
      .ok ((runsFrom cat total ((es.filter (fun e => e.fileLength != 0)).reverse.map ext)).filter (· != 0)) ∧
    ((runsFrom cat total ((es.filter (fun e => e.fileLength != 0)).reverse.map ext)).foldl (· + ·) 0)
      + cat + ownedSectors ((es.filter (fun e => e.fileLength != 0)).reverse.map ext) = total := by
  refine ⟨?_, ?_⟩
  · have hd : (es.filter (fun e => e.fileLength != 0)).Pairwise (fun a b => b.startSector < a.startSector) := by
      have := wf_pairwise _ _ _ hwf
      rw [List.pairwise_map, List.pairwise_reverse] at this
      exact this
    have hp : spacePairs [es] total cat =
        pairsAsc cat total ((es.filter (fun e => e.fileLength != 0)).reverse.map ext) := by
      rw [spacePairs_single es total cat hd, pairsAsc_rev _ _ _ (filter_stop es hb)]
    rw [spaceGaps_of_pairs, hp, runsFrom_eq]
    rw [hp]
    exact pairsAsc_le _ _ _ hwf
  · rw [foldl_add_eq_sum]
    exact runs_sum _ _ _ hwf

theorem space_watford (es0 es1 : List Entry) (total cat : Nat)
    (hb : ∀ e ∈ es0 ++ es1, ∀ i, e.m i < 256)
    (hwf : LayoutWF cat total (((es0.filter (fun e => e.fileLength != 0)).reverse ++
              (es1.filter (fun e => e.fileLength != 0)).reverse).map ext)) :
    ∃ gaps, spaceGaps [es0, es1] total cat = .ok gaps ∧
      gaps.Perm ((runsFrom cat total (((es0.filter (fun e => e.fileLength != 0)).reverse ++
              (es1.filter (fun e => e.fileLength != 0)).reverse).map ext)).filter (· != 0)) ∧
      gaps.foldl (· + ·) 0 + cat + ownedSectors (((es0.filter (fun e => e.fileLength != 0)).reverse ++
              (es1.filter (fun e => e.fileLength != 0)).reverse).map ext) = total := by
  have hpw := wf_pairwise _ _ _ hwf
  rw [List.pairwise_map, List.pairwise_append, List.pairwise_reverse, List.pairwise_reverse] at hpw
  obtain ⟨hd0, hd1, hx⟩ := hpw
  have hx' : ∀ a ∈ es0.filter (fun e => e.fileLength != 0), ∀ b ∈ es1.filter (fun e => e.fileLength != 0),
      a.startSector < b.startSector := fun a ha b hb' => hx a (List.mem_reverse.mpr ha) b (List.mem_reverse.mpr hb')
  have hb0 : ∀ e ∈ es0, ∀ i, e.m i < 256 := fun e he => hb e (List.mem_append_left _ he)
  have hb1 : ∀ e ∈ es1, ∀ i, e.m i < 256 := fun e he => hb e (List.mem_append_right _ he)
  have hperm : (spacePairs [es0, es1] total cat).Perm
      (pairsAsc cat total (((es0.filter (fun e => e.fileLength != 0)).reverse ++
              (es1.filter (fun e => e.fileLength != 0)).reverse).map ext)) := by
    rw [spacePairs_watford es0 es1 total cat hd0 hd1 hx', List.map_append, pairsAsc_append _ _ _ _ 0,
      pairsAsc_rev _ _ _ (filter_stop es1 hb1), hs_rev, pairsAsc_rev _ _ _ (filter_stop es0 hb0)]
    exact List.perm_append_comm
  have hle : ∀ p ∈ spacePairs [es0, es1] total cat, p.1 ≤ p.2 :=
    fun p hp => pairsAsc_le _ _ _ hwf p (hperm.mem_iff.mp hp)
  refine ⟨_, spaceGaps_of_pairs _ _ _ hle, ?_, ?_⟩
  · rw [runsFrom_eq]
    exact (hperm.map _).filter _
  · rw [foldl_add_eq_sum, sum_filter_ne_zero, (hperm.map _).sum_nat, ← runsFrom_eq]
    exact runs_sum _ _ _ hwf


/-! ### sector map -/

def has (m : SecMap) (t : Nat) : Bool := m.any (fun p => p.1 == t)

theorem isSome_at (m : SecMap) (t : Nat) : (m.at t).isSome = has m t := by
  unfold SecMap.at has
  induction m with
  | nil => rfl
  | cons p rest ih =>
    simp only [List.find?_cons, List.any_cons]
    cases h : (p.1 == t) <;> simp [ih]

theorem has_set (m : SecMap) (a : Nat) (l : Bytes) (t : Nat) : has (m.set a l) t = (a == t || has m t) := by
  unfold SecMap.set has
  simp only [List.any_cons, List.any_filter]
  by_cases h : a = t
  · simp [h]
  · have hf : (a == t) = false := by simp [h]
    rw [hf, Bool.false_or]
    congr 1
    funext p
    by_cases h2 : p.1 = t
    · subst h2; simp; omega
    · simp [h2]

theorem has_insert (m : SecMap) (a : Nat) (l : Bytes) (t : Nat) : has (m.insert a l) t = (a == t || has m t) := by
  unfold SecMap.insert
  by_cases h : m.any (fun p => p.1 == a) = true
  · rw [if_pos h]
    by_cases h2 : a = t
    · subst h2; simp [has, h]
    · simp [h2]
  · rw [if_neg h]; simp [has]

theorem has_setRange (n : Nat) (l : Bytes) (m : SecMap) (t : Nat) :
    has ((List.range n).foldl (fun m s => m.set s l) m) t = (decide (t < n) || has m t) := by
  induction n with
  | zero => simp
  | succ n ih =>
    rw [List.range_succ, List.foldl_append]
    simp only [List.foldl_cons, List.foldl_nil, has_set, ih]
    rw [Bool.eq_iff_iff]
    by_cases hm : has m t = true <;> simp [hm] <;> omega

theorem has_insertRange (b n : Nat) (l : Bytes) (m : SecMap) (t : Nat) :
    has ((List.range n).foldl (fun m k => m.insert (b + k) l) m) t = (has m t || (decide (b ≤ t) && decide (t < b + n))) := by
  induction n with
  | zero =>
    rw [Bool.eq_iff_iff]
    by_cases hm : has m t = true <;> simp [hm] <;> omega
  | succ n ih =>
    rw [List.range_succ, List.foldl_append]
    simp only [List.foldl_cons, List.foldl_nil, has_insert, ih]
    rw [Bool.eq_iff_iff]
    by_cases hm : has m t = true <;> simp [hm] <;> omega


theorem foldl_range_congr {α : Type} (f g : α → Nat → α) (n : Nat) (h : ∀ a s, s < n → f a s = g a s) (a : α) :
    (List.range n).foldl f a = (List.range n).foldl g a := by
  induction n generalizing a with
  | zero => rfl
  | succ n ih =>
    rw [List.range_succ, List.foldl_append, List.foldl_append, ih (fun a s hs => h a s (by omega))]
    simp only [List.foldl_cons, List.foldl_nil]
    exact h _ _ (by omega)

theorem entry_bounds (e : Entry) (hb : ∀ i, e.m i < 256) : e.startSector < 1024 ∧ e.fileLength < 262144 := by
  have h1 := Leaf.start_sector_eq e.m hb
  have h2 := Leaf.file_length_eq e.m hb
  have := hb 4; have := hb 5; have := hb 6; have := hb 7
  unfold Entry.startSector Entry.fileLength
  omega

theorem has_fileFold (lab : Entry → Bytes) (F : List Entry)
    (hF : ∀ e ∈ F, (∀ i, e.m i < 256) ∧ e.fileLength ≠ 0) (m : SecMap) (t : Nat) :
    has (F.foldl (fun m e =>
          List.foldl (fun m k => m.insert (e.startSector % 4294967296 + k) (lab e))
            m (List.range ((e.lastSector + 1) % 4294967296 - e.startSector % 4294967296))) m) t =
      (has m t || F.any (fun e => decide (e.startSector ≤ t) && decide (t < e.startSector + Spec.sectorsFor e.fileLength))) := by
  induction F generalizing m with
  | nil => simp
  | cons e rest ih =>
    have he := hF e (by simp)
    have hst := entry_stop e he.1 he.2
    have hbd := entry_bounds e he.1
    have hsz : Spec.sectorsFor e.fileLength < 1025 := by unfold Spec.sectorsFor; omega
    unfold ext Extent.stop at hst
    simp only [] at hst
    rw [List.foldl_cons, ih (fun x hx => hF x (by simp [hx]))]
    rw [hst, Nat.mod_eq_of_lt (by omega : e.startSector < 4294967296),
      Nat.mod_eq_of_lt (by omega : e.startSector + Spec.sectorsFor e.fileLength < 4294967296),
      Nat.add_sub_cancel_left, has_insertRange]
    simp [Bool.or_assoc]

theorem map_owned (v : Volume) (surface : Nat) (s : Nat)
    (hb : ∀ e ∈ v.cat.entries, ∀ i, e.m i < 256) (ho : v.origin = 0) (hc : v.catLoc = 0) :
    ((volumeMapSectors surface false none v []).at s).isSome =
      (decide (s < v.cat.catalogSectors) ||
       v.cat.entries.any (fun e => e.fileLength != 0 && decide (e.startSector ≤ s) && decide (s < e.startSector + Spec.sectorsFor e.fileLength))) := by
  rw [isSome_at]
  unfold volumeMapSectors
  simp only [ho, hc, Nat.zero_add, Nat.add_zero]
  have hcs : v.cat.catalogSectors < 4294967296 := by
    unfold Catalog.catalogSectors catalogSectorsFor; split <;> omega
  rw [has_fileFold (fun e => fileLabel false none e.directory e.nameStr)]
  · rw [foldl_range_congr _ (fun m s => m.set s (strBytes "catalog")) _
        (fun a s hs => by rw [Nat.mod_eq_of_lt (by omega)])]
    rw [has_setRange, List.any_filter]
    simp [has, Bool.and_assoc]
  · intro e he
    have := List.mem_filter.mp he
    exact ⟨hb e this.1, by simpa using this.2⟩


/-! ### sector map: any volume, whole file systems -/

theorem has_setRangeOff (n c : Nat) (l : Bytes) (m : SecMap) (t : Nat) :
    has ((List.range n).foldl (fun m s => m.set (s + c) l) m) t =
      (has m t || decide (c ≤ t ∧ t < c + n)) := by
  induction n with
  | zero =>
    rw [Bool.eq_iff_iff]
    by_cases hm : has m t = true <;> simp [hm] <;> omega
  | succ n ih =>
    rw [List.range_succ, List.foldl_append]
    simp only [List.foldl_cons, List.foldl_nil, has_set, ih]
    rw [Bool.eq_iff_iff]
    by_cases hm : has m t = true <;> simp [hm] <;> omega

theorem has_fileFoldAt (o : Nat) (ho : o + 2048 ≤ 4294967296) (lab : Entry → Bytes) (F : List Entry)
    (hF : ∀ e ∈ F, (∀ i, e.m i < 256) ∧ e.fileLength ≠ 0) (m : SecMap) (t : Nat) :
    has (F.foldl (fun m e =>
          List.foldl (fun m k => m.insert ((o + e.startSector) % 4294967296 + k) (lab e))
            m (List.range ((o + e.lastSector + 1) % 4294967296 - (o + e.startSector) % 4294967296))) m) t =
      (has m t || F.any (fun e => decide (o + e.startSector ≤ t) &&
          decide (t < o + e.startSector + Spec.sectorsFor e.fileLength))) := by
  induction F generalizing m with
  | nil => simp
  | cons e rest ih =>
    have he := hF e (by simp)
    have hst := entry_stop e he.1 he.2
    have hbd := entry_bounds e he.1
    have hsz : Spec.sectorsFor e.fileLength < 1025 := by unfold Spec.sectorsFor; omega
    unfold ext Extent.stop at hst
    simp only [] at hst
    rw [List.foldl_cons, ih (fun x hx => hF x (by simp [hx]))]
    rw [show o + e.lastSector + 1 = o + e.startSector + Spec.sectorsFor e.fileLength by omega,
      Nat.mod_eq_of_lt (by omega : o + e.startSector < 4294967296),
      Nat.mod_eq_of_lt (by omega : o + e.startSector + Spec.sectorsFor e.fileLength < 4294967296),
      Nat.add_sub_cancel_left, has_insertRange]
    simp [Bool.or_assoc]

/-- the sectors a volume claims in the sector map: its catalogue sectors (at
    `catLoc`, absolute) and the extent of each non-empty file (relative to `origin`) -/
def volOwns (v : Volume) (s : Nat) : Bool :=
  decide (v.catLoc ≤ s ∧ s < v.catLoc + v.cat.catalogSectors) ||
  v.cat.entries.any (fun e => e.fileLength != 0 && decide (v.origin + e.startSector ≤ s) &&
    decide (s < v.origin + e.startSector + Spec.sectorsFor e.fileLength))

theorem has_volumeMap (surface : Nat) (multi : Bool) (label : Option Nat) (v : Volume) (m : SecMap) (s : Nat)
    (hb : ∀ e ∈ v.cat.entries, ∀ i, e.m i < 256)
    (hc : v.catLoc + v.cat.catalogSectors ≤ 4294967296) (ho : v.origin + 2048 ≤ 4294967296) :
    has (volumeMapSectors surface multi label v m) s = (has m s || volOwns v s) := by
  unfold volumeMapSectors volOwns
  simp only []
  rw [has_fileFoldAt v.origin ho (fun e => fileLabel multi label e.directory e.nameStr)]
  · rw [foldl_range_congr _ (fun m s => m.set (s + v.catLoc) (match label with
          | some l => strBytes "*CAT:" ++ decU surface ++ [l]
          | none => strBytes "catalog")) _
        (fun a s hs => by
          have h : (s + v.catLoc) % 4294967296 = s + v.catLoc := Nat.mod_eq_of_lt (by omega)
          exact congrArg (fun x => SecMap.set a x _) h)]
    rw [has_setRangeOff, List.any_filter]
    simp [Bool.and_assoc, Bool.or_assoc]
  · intro e he
    have := List.mem_filter.mp he
    exact ⟨hb e this.1, by simpa using this.2⟩

theorem map_owned_general (surface : Nat) (multi : Bool) (label : Option Nat) (v : Volume) (m : SecMap) (s : Nat)
    (hb : ∀ e ∈ v.cat.entries, ∀ i, e.m i < 256)
    (hc : v.catLoc + v.cat.catalogSectors ≤ 4294967296) (ho : v.origin + 2048 ≤ 4294967296) :
    ((volumeMapSectors surface multi label v m).at s).isSome =
      ((m.at s).isSome ||
       decide (v.catLoc ≤ s ∧ s < v.catLoc + v.cat.catalogSectors) ||
       v.cat.entries.any (fun e => e.fileLength != 0 && decide (v.origin + e.startSector ≤ s) &&
         decide (s < v.origin + e.startSector + Spec.sectorsFor e.fileLength))) := by
  rw [isSome_at, isSome_at, has_volumeMap surface multi label v m s hb hc ho, Bool.or_assoc]
  rfl

theorem has_volsFold (surface : Nat) (multi : Bool) (vols : List (Option Nat × Volume))
    (hv : ∀ p ∈ vols, (∀ e ∈ p.2.cat.entries, ∀ i, e.m i < 256) ∧
        p.2.catLoc + p.2.cat.catalogSectors ≤ 4294967296 ∧ p.2.origin + 2048 ≤ 4294967296)
    (m : SecMap) (s : Nat) :
    has (vols.foldl (fun m (p : Option Nat × Volume) => volumeMapSectors surface multi p.1 p.2 m) m) s =
      (has m s || vols.any (fun p => volOwns p.2 s)) := by
  induction vols generalizing m with
  | nil => simp
  | cons p rest ih =>
    have hp := hv p (by simp)
    rw [List.foldl_cons, ih (fun x hx => hv x (by simp [hx])), has_volumeMap _ _ _ _ _ _ hp.1 hp.2.1 hp.2.2]
    simp [Bool.or_assoc]

theorem map_owned_fs (fs : FileSystem) (surface : Nat) (s : Nat)
    (hv : ∀ p ∈ fs.vols, (∀ e ∈ p.2.cat.entries, ∀ i, e.m i < 256) ∧
        p.2.catLoc + p.2.cat.catalogSectors ≤ 4294967296 ∧ p.2.origin + 2048 ≤ 4294967296) :
    ((sectorMapOf fs surface).at s).isSome =
      ((fs.fmt == Format.OpusDDOS && (s == 16 || s == 17)) ||
       fs.vols.any (fun p =>
         decide (p.2.catLoc ≤ s ∧ s < p.2.catLoc + p.2.cat.catalogSectors) ||
         p.2.cat.entries.any (fun e => e.fileLength != 0 && decide (p.2.origin + e.startSector ≤ s) &&
           decide (s < p.2.origin + e.startSector + Spec.sectorsFor e.fileLength)))) := by
  rw [isSome_at]
  unfold sectorMapOf
  simp only []
  have hfold := has_volsFold surface (decide (fs.vols.length > 1)) fs.vols hv [] s
  have hnil : has [] s = false := rfl
  rw [hnil, Bool.false_or] at hfold
  unfold volOwns at hfold
  cases hf : (fs.fmt == Format.OpusDDOS)
  · simp only [Bool.false_and, Bool.false_or]
    rw [if_neg (by simp)]
    exact hfold
  · rw [if_pos rfl, has_set, has_set, hfold]
    rw [Bool.eq_iff_iff]
    simp only [Bool.true_and, Bool.or_eq_true, beq_iff_eq]
    constructor
    · rintro (h | h | h)
      · exact Or.inl (Or.inr h.symm)
      · exact Or.inl (Or.inl h.symm)
      · exact Or.inr h
    · rintro ((h | h) | h)
      · exact Or.inr (Or.inl h.symm)
      · exact Or.inl h.symm
      · exact Or.inr (Or.inr h)


/-! ### extract-unused -/

def usStep (g : Nat → Option Bytes) (st : List (Nat × Nat) × Option Nat) (sec : Nat) : List (Nat × Nat) × Option Nat :=
  match g sec, st.2 with
  | some _, some b => (st.1 ++ [(b, sec)], none)
  | some _, none => (st.1, none)
  | none, none => (st.1, some sec)
  | none, some b => (st.1, some b)

theorem unusedSpans_eq (sm : SecMap) (last : Nat) :
    unusedSpans sm last = ((List.range (last + 1)).foldl (usStep (sm.set last (strBytes ":::end")).at) ([], none)).1 := rfl

structure Inv (g : Nat → Option Bytes) (n : Nat) (st : List (Nat × Nat) × Option Nat) : Prop where
  spans : ∀ p ∈ st.1, p.1 < p.2 ∧ p.2 < n ∧ (∀ s, p.1 ≤ s → s < p.2 → g s = none) ∧
            (p.1 = 0 ∨ (g (p.1 - 1)).isSome) ∧ (g p.2).isSome
  beg : ∀ b, st.2 = some b → b < n ∧ (∀ s, b ≤ s → s < n → g s = none) ∧ (b = 0 ∨ (g (b - 1)).isSome)
  nobeg : st.2 = none → n = 0 ∨ (g (n - 1)).isSome
  cover : ∀ s, s < n → g s = none → (∃ p ∈ st.1, p.1 ≤ s ∧ s < p.2) ∨ (∃ b, st.2 = some b ∧ b ≤ s)

theorem inv_step (g : Nat → Option Bytes) (n : Nat) (st : List (Nat × Nat) × Option Nat) (h : Inv g n st) :
    Inv g (n + 1) (usStep g st n) := by
  obtain ⟨sp, bg⟩ := st
  obtain ⟨h1, h2, h3, h4⟩ := h
  simp only at h1 h2 h3 h4
  unfold usStep
  cases hg : g n with
  | none =>
    cases bg with
    | none =>
      simp only
      constructor
      · intro p hp; have := h1 p hp; grind
      · intro b hb; grind
      · intro hb; cases hb
      · intro s hs hgs; grind
    | some b =>
      simp only
      constructor
      · intro p hp; have := h1 p hp; grind
      · intro b' hb; grind
      · intro hb; cases hb
      · intro s hs hgs; grind
  | some l =>
    cases bg with
    | none =>
      simp only
      constructor
      · intro p hp; have := h1 p hp; grind
      · intro b hb; cases hb
      · intro _; grind
      · intro s hs hgs; grind
    | some b =>
      simp only
      constructor
      · intro p hp
        obtain ⟨hb1, hb2, hb3⟩ := h2 b rfl
        rcases List.mem_append.mp hp with hp | hp
        · obtain ⟨a1, a2, a3, a4, a5⟩ := h1 p hp
          exact ⟨a1, by omega, a3, a4, a5⟩
        · simp only [List.mem_singleton] at hp
          subst hp
          exact ⟨hb1, by omega, hb2, hb3, by simp [hg]⟩
      · intro b' hb; cases hb
      · intro _; grind
      · intro s hs hgs
        have hsn : s ≠ n := by intro h; subst h; rw [hg] at hgs; cases hgs
        left
        rcases h4 s (by omega) hgs with ⟨p, hp, hp2⟩ | ⟨b', hb', hle⟩
        · exact ⟨p, List.mem_append_left _ hp, hp2⟩
        · cases hb'
          exact ⟨(b, n), by simp, hle, by simp only []; omega⟩

theorem inv_fold (g : Nat → Option Bytes) (n : Nat) :
    Inv g n ((List.range n).foldl (usStep g) ([], none)) := by
  induction n with
  | zero =>
    refine ⟨?_, ?_, ?_, ?_⟩
    · intro p hp; cases hp
    · intro b hb; cases hb
    · intro _; exact Or.inl rfl
    · intro s hs; omega
  | succ n ih =>
    rw [List.range_succ, List.foldl_append]
    exact inv_step g n _ ih

theorem at_set_self (m : SecMap) (a : Nat) (l : Bytes) : (m.set a l).at a = some l := by
  simp [SecMap.at, SecMap.set]

theorem at_set_ne (m : SecMap) (a : Nat) (l : Bytes) (t : Nat) (h : a ≠ t) : (m.set a l).at t = m.at t := by
  unfold SecMap.at SecMap.set
  have hf : ((a, l).1 == t) = false := by simp [h]
  rw [List.find?_cons, hf, List.find?_filter]
  show Option.map _ (List.find? _ m) = _
  congr 2
  funext p
  by_cases h2 : p.1 = t
  · subst h2; simp; omega
  · simp [h2]

theorem unusedSpans_spec (sm : SecMap) (last : Nat) :
    (∀ p ∈ unusedSpans sm last, p.1 < p.2 ∧ p.2 ≤ last ∧
        (∀ s, p.1 ≤ s → s < p.2 → sm.at s = none) ∧
        (p.1 = 0 ∨ (sm.at (p.1 - 1)).isSome) ∧ (p.2 = last ∨ (sm.at p.2).isSome)) ∧
    (∀ s, s < last → sm.at s = none → ∃ p ∈ unusedSpans sm last, p.1 ≤ s ∧ s < p.2) := by
  rw [unusedSpans_eq]
  have hinv := inv_fold (sm.set last (strBytes ":::end")).at (last + 1)
  generalize (List.range (last + 1)).foldl (usStep (sm.set last (strBytes ":::end")).at) ([], none) = st at hinv ⊢
  obtain ⟨h1, h2, h3, h4⟩ := hinv
  have hne : ∀ t, t < last → (sm.set last (strBytes ":::end")).at t = sm.at t :=
    fun t ht => at_set_ne _ _ _ _ (by omega)
  have hnb : st.2 = none := by
    cases hst : st.2 with
    | none => rfl
    | some b =>
      obtain ⟨hb1, hb2, _⟩ := h2 b hst
      have := hb2 last (by omega) (by omega)
      rw [at_set_self] at this
      cases this
  constructor
  · intro p hp
    obtain ⟨a1, a2, a3, a4, a5⟩ := h1 p hp
    refine ⟨a1, by omega, ?_, ?_, ?_⟩
    · intro s hs1 hs2
      rw [← hne s (by omega)]
      exact a3 s hs1 hs2
    · rcases a4 with a4 | a4
      · exact Or.inl a4
      · right
        rw [← hne _ (by omega)]
        exact a4
    · by_cases hl : p.2 = last
      · exact Or.inl hl
      · right
        rw [← hne _ (by omega)]
        exact a5
  · intro s hs hg
    rcases h4 s (by omega) (by rw [hne s hs]; exact hg) with h | ⟨b, hb, _⟩
    · exact h
    · rw [hnb] at hb; cases hb

end Beeb.SpaceL
