/-
Lemmas behind C06 (CRC): the CRC-16/CCITT register update of the model
(`crc_cycle`, `crcByte`, `crc16`, `ccitt`) is GF(2)-linear on 16-bit values,
clocking is injective, and therefore a burst error of at most 16 bits in a
field that passes the check is always detected.
-/
import Beeb.Model.Flux

namespace Beeb.CrcL
open Beeb Beeb.Gen Beeb.Flux

/-- xor of two byte strings of the same length (same body as `Beeb.Props.C06.xorBytes`) -/
def xorBytes (a b : Bytes) : Bytes := List.zipWith (· ^^^ ·) a b

/-- a single burst of at most 16 bits (same body as `Beeb.Props.C06.IsBurst16`) -/
def IsBurst16 (e : Bytes) : Prop :=
  ∃ (pre : Nat) (w : Nat) (post : Nat), 0 < w ∧ w < 65536 ∧ ∃ sh, sh < 9 ∧
    e = List.replicate pre 0 ++ [(w <<< sh) / 65536 % 256, (w <<< sh) / 256 % 256, (w <<< sh) % 256] ++ List.replicate post 0

/-! ### small facts about xor -/

theorem eq_of_xor_eq_zero {a b : Nat} (h : a ^^^ b = 0) : a = b := by
  have : b = a ^^^ (a ^^^ b) := by rw [← Nat.xor_assoc, Nat.xor_self, Nat.zero_xor]
  rw [this, h, Nat.xor_zero]

theorem and_pow_ne_zero (x k : Nat) : (x &&& 2 ^ k != 0) = x.testBit k := by
  by_cases h : x.testBit k
  · have h1 : (x &&& 2 ^ k).testBit k = true := by
      simp [Nat.testBit_and, h, Nat.testBit_two_pow_self]
    have h2 : x &&& 2 ^ k ≠ 0 := by
      intro h0; rw [h0] at h1; simp at h1
    simp [h, h2]
  · have h2 : x &&& 2 ^ k = 0 := by
      apply Nat.eq_of_testBit_eq
      intro i
      simp only [Nat.testBit_and, Nat.testBit_two_pow, Nat.zero_testBit]
      by_cases hk : k = i
      · subst hk; simp [h]
      · simp [hk]
    simp [h, h2]

theorem xor_one_even (x : Nat) : (2 * x) ^^^ 1 = 2 * x + 1 := by
  apply Nat.eq_of_testBit_eq
  intro i
  cases i with
  | zero => simp [Nat.testBit_zero]
  | succ i =>
    simp only [Nat.testBit_succ]
    have h1 : 2 * x / 2 = x := by omega
    have h2 : (2 * x + 1) / 2 = x := by omega
    rw [h2, Nat.xor_div_two, h1]
    simp

/-- `hi * 256 ^^^ lo = hi * 256 + lo` for a byte `lo` -/
theorem shl8_xor (hi lo : Nat) (hlo : lo < 256) : (hi <<< 8) ^^^ lo = hi * 256 + lo := by
  have e : hi * 256 + lo = 2 ^ 8 * hi + lo := by omega
  rw [e, Nat.shiftLeft_eq, Nat.mul_comm]
  apply Nat.eq_of_testBit_eq
  intro j
  rw [Nat.testBit_xor, Nat.testBit_two_pow_mul_add hi (by omega : lo < 2 ^ 8), Nat.testBit_two_pow_mul]
  by_cases hj : j < 8
  · have : ¬ j ≥ 8 := by omega
    simp [hj, this]
  · have hj' : j ≥ 8 := by omega
    have : lo.testBit j = false :=
      Nat.testBit_lt_two_pow (Nat.lt_of_lt_of_le (by omega : lo < 2 ^ 8) (Nat.pow_le_pow_right (by omega) hj'))
    simp [hj, hj', this]

/-! ### one clock of the register -/

/-- closed form of `crc_cycle` on 16-bit values: shift left, and xor the
    polynomial x^12 + x^5 + 1 in when bit 15 was set -/
def st (c : Nat) : Nat :=
  if c.testBit 15 then (c * 2 % 65536) ^^^ 4129 else c * 2 % 65536

theorem crc_cycle_eq (c : Nat) (hc : c < 65536) : crc_cycle c = st c := by
  unfold crc_cycle st
  have h15 : (32768 : Nat) = 2 ^ 15 := by decide
  rw [h15, and_pow_ne_zero]
  by_cases h : c.testBit 15 = true
  · have h' : c / 32768 % 2 = 1 := by
      have := h; rw [Nat.testBit_eq_decide_div_mod_eq] at this; simpa using this
    rw [if_pos h, if_pos h]
    have hl : c % 32768 < 32768 := Nat.mod_lt _ (by omega)
    have e1 : (c ^^^ 2064) &&& 32767 = (c % 32768) ^^^ 2064 := by
      have := Nat.xor_mod_two_pow (a := c) (b := 2064) (n := 15)
      have hm : (c ^^^ 2064) &&& 32767 = (c ^^^ 2064) % 2 ^ 15 := Nat.and_two_pow_sub_one_eq_mod _ 15
      rw [hm]
      simpa using this
    have e2 : c * 2 % 65536 = 2 * (c % 32768) := by omega
    have e3 : (4129 : Nat) = (2 * 2064) ^^^ 1 := by decide
    have e4 : ((c % 32768) ^^^ 2064) < 2 ^ 15 := Nat.xor_lt_two_pow (by omega) (by omega)
    rw [e1, e2, e3, ← Nat.xor_assoc, Nat.mul_comm 2 (c % 32768), Nat.mul_comm 2 2064]
    rw [show c % 32768 * 2 = (c % 32768) <<< 1 by rw [Nat.shiftLeft_eq],
      show 2064 * 2 = 2064 <<< 1 by rfl,
      ← Nat.shiftLeft_xor_distrib, Nat.shiftLeft_eq, Nat.pow_one, Nat.mul_comm _ 2, xor_one_even]
    omega
  · have h' : ¬ c / 32768 % 2 = 1 := by
      have := h; rw [Nat.testBit_eq_decide_div_mod_eq] at this; simpa using this
    rw [if_neg h, if_neg h, Nat.shiftLeft_eq, Nat.pow_one]
    omega

theorem st_lt (c : Nat) : st c < 65536 := by
  unfold st
  have : c * 2 % 65536 < 2 ^ 16 := Nat.mod_lt _ (by omega)
  split
  · exact Nat.xor_lt_two_pow this (by omega)
  · exact this

/-- one clock is GF(2)-linear -/
theorem st_xor (a b : Nat) : st (a ^^^ b) = st a ^^^ st b := by
  have hs : (a ^^^ b) * 2 % 65536 = (a * 2 % 65536) ^^^ (b * 2 % 65536) := by
    have h1 : (a ^^^ b) * 2 = (a ^^^ b) <<< 1 := by rw [Nat.shiftLeft_eq]
    have h2 : a * 2 = a <<< 1 := by rw [Nat.shiftLeft_eq]
    have h3 : b * 2 = b <<< 1 := by rw [Nat.shiftLeft_eq]
    rw [h1, h2, h3, Nat.shiftLeft_xor_distrib]
    exact Nat.xor_mod_two_pow (n := 16)
  unfold st
  rw [Nat.testBit_xor, hs]
  generalize a * 2 % 65536 = x
  generalize b * 2 % 65536 = y
  cases a.testBit 15 <;> cases b.testBit 15
  · simp
  · simp only [Bool.false_xor, if_true, Bool.false_eq_true, if_false]; ac_rfl
  · simp only [Bool.xor_false, if_true, Bool.false_eq_true, if_false]; ac_rfl
  · simp only [Bool.xor_self, Bool.false_eq_true, if_false, if_true]
    rw [Nat.xor_assoc, Nat.xor_comm 4129, Nat.xor_assoc y, Nat.xor_self, Nat.xor_zero]

theorem st_zero : st 0 = 0 := by decide

/-- one clock loses nothing: only 0 is clocked to 0 -/
theorem st_eq_zero (c : Nat) (hc : c < 65536) (h : st c = 0) : c = 0 := by
  unfold st at h
  by_cases hb : c.testBit 15 = true
  · rw [if_pos hb] at h
    have := eq_of_xor_eq_zero h
    omega
  · rw [if_neg hb] at h
    rw [Nat.testBit_eq_decide_div_mod_eq] at hb
    have hb' : ¬ c / 2 ^ 15 % 2 = 1 := by simpa using hb
    have : (2 : Nat) ^ 15 = 32768 := by decide
    rw [this] at hb'
    omega

theorem st_small (c : Nat) (hc : c < 32768) : st c = c * 2 := by
  unfold st
  have : c.testBit 15 = false := Nat.testBit_lt_two_pow (by omega)
  rw [this]
  simp only [Bool.false_eq_true, if_false]
  omega

/-! ### eight clocks -/

def A (c : Nat) : Nat := st (st (st (st (st (st (st (st c)))))))

theorem A_lt (c : Nat) : A c < 65536 := st_lt _

theorem A_xor (a b : Nat) : A (a ^^^ b) = A a ^^^ A b := by
  unfold A
  simp only [st_xor]

theorem A_zero : A 0 = 0 := by decide

theorem A_eq_zero (c : Nat) (hc : c < 65536) (h : A c = 0) : c = 0 := by
  unfold A at h
  have h1 := st_eq_zero _ (st_lt _) h
  have h2 := st_eq_zero _ (st_lt _) h1
  have h3 := st_eq_zero _ (st_lt _) h2
  have h4 := st_eq_zero _ (st_lt _) h3
  have h5 := st_eq_zero _ (st_lt _) h4
  have h6 := st_eq_zero _ (st_lt _) h5
  have h7 := st_eq_zero _ (st_lt _) h6
  exact st_eq_zero _ hc h7

/-- eight clocks of a byte in the low half just move it to the high half -/
theorem A_small (b : Nat) (hb : b < 256) : A b = b <<< 8 := by
  unfold A
  rw [st_small b (by omega), st_small (b * 2) (by omega), st_small (b * 2 * 2) (by omega),
    st_small (b * 2 * 2 * 2) (by omega), st_small (b * 2 * 2 * 2 * 2) (by omega),
    st_small (b * 2 * 2 * 2 * 2 * 2) (by omega), st_small (b * 2 * 2 * 2 * 2 * 2 * 2) (by omega),
    st_small (b * 2 * 2 * 2 * 2 * 2 * 2 * 2) (by omega), Nat.shiftLeft_eq]
  omega

theorem crcByte_eq (c b : Nat) (hc : c < 65536) (hb : b < 256) : crcByte c b = A (c ^^^ (b <<< 8)) := by
  unfold crcByte A
  have hr : List.range 8 = [0, 1, 2, 3, 4, 5, 6, 7] := by decide
  have h0 : c ^^^ (b <<< 8) < 2 ^ 16 :=
    Nat.xor_lt_two_pow hc (by rw [Nat.shiftLeft_eq]; omega)
  rw [hr]
  simp only [List.foldl_cons, List.foldl_nil]
  rw [crc_cycle_eq _ h0]
  repeat rw [crc_cycle_eq _ (st_lt _)]

theorem crcByte_lt (c b : Nat) (hc : c < 65536) (hb : b < 256) : crcByte c b < 65536 := by
  rw [crcByte_eq c b hc hb]; exact A_lt _

/-- the byte update is GF(2)-linear in (register, byte) -/
theorem crcByte_xor (c1 c2 b1 b2 : Nat) (h1 : c1 < 65536) (h2 : c2 < 65536) (hb1 : b1 < 256) (hb2 : b2 < 256) :
    crcByte (c1 ^^^ c2) (b1 ^^^ b2) = crcByte c1 b1 ^^^ crcByte c2 b2 := by
  have hc : c1 ^^^ c2 < 2 ^ 16 := Nat.xor_lt_two_pow h1 h2
  have hb : b1 ^^^ b2 < 2 ^ 8 := Nat.xor_lt_two_pow hb1 hb2
  rw [crcByte_eq _ _ hc hb, crcByte_eq _ _ h1 hb1, crcByte_eq _ _ h2 hb2, ← A_xor,
    Nat.shiftLeft_xor_distrib]
  congr 1
  ac_rfl

theorem crc16_lt (data : Bytes) (hd : ∀ x ∈ data, x < 256) (c : Nat) (hc : c < 65536) :
    crc16 c data < 65536 := by
  unfold crc16
  induction data generalizing c with
  | nil => exact hc
  | cons b bs ih =>
    simp only [List.foldl_cons]
    exact ih (fun x hx => hd x (by simp [hx])) _ (crcByte_lt c b hc (hd b (by simp)))

/-- **linearity of the CRC**: the xor of two registers after two byte strings of
    the same length is the register after the xor of the strings, started from
    the xor of the initial values -/
theorem crc16_xor (a b : Bytes) (ha : ∀ x ∈ a, x < 256) (hb : ∀ x ∈ b, x < 256)
    (hlen : a.length = b.length) (i j : Nat) (hi : i < 65536) (hj : j < 65536) :
    crc16 (i ^^^ j) (xorBytes a b) = crc16 i a ^^^ crc16 j b := by
  unfold crc16 xorBytes
  induction a generalizing b i j with
  | nil =>
    cases b with
    | nil => rfl
    | cons y ys => simp at hlen
  | cons x xs ih =>
    cases b with
    | nil => simp at hlen
    | cons y ys =>
      simp only [List.zipWith_cons_cons, List.foldl_cons]
      have hx : x < 256 := ha x (by simp)
      have hy : y < 256 := hb y (by simp)
      rw [crcByte_xor i j x y hi hj hx hy]
      exact ih ys (fun z hz => ha z (by simp [hz])) (fun z hz => hb z (by simp [hz]))
        (by simpa using hlen) _ _ (crcByte_lt i x hi hx) (crcByte_lt j y hj hy)

/-! ### zero bytes -/

theorem crcByte_zero (c : Nat) (hc : c < 65536) : crcByte c 0 = A c := by
  rw [crcByte_eq c 0 hc (by omega)]
  simp

theorem fold_zeros_zero (n : Nat) : (List.replicate n 0).foldl crcByte 0 = 0 := by
  induction n with
  | zero => rfl
  | succ n ih =>
    rw [List.replicate_succ, List.foldl_cons, crcByte_zero 0 (by omega), A_zero]
    exact ih

theorem fold_zeros_ne (n : Nat) (c : Nat) (hc : c < 65536) (h : c ≠ 0) :
    (List.replicate n 0).foldl crcByte c ≠ 0 := by
  induction n generalizing c with
  | zero => exact h
  | succ n ih =>
    rw [List.replicate_succ, List.foldl_cons, crcByte_zero c hc]
    exact ih (A c) (A_lt c) (fun h0 => h (A_eq_zero c hc h0))

/-! ### the burst itself -/

/-- For every non-zero byte `h`, the 24-bit value `h·x^16 + (h·x^16 mod P)` (a
    multiple of the generator P) is not a burst of at most 16 bits. -/
theorem table : ∀ h < 256, h ≠ 0 → ∀ sh < 9,
    ¬ ((h * 65536 + A (A h)) % 2 ^ sh = 0 ∧ (h * 65536 + A (A h)) / 2 ^ sh < 65536) := by
  decide +kernel

/-- the register after the three bytes of a 24-bit value `v`, starting from 0 -/
theorem three_bytes (v : Nat) (hv : v < 16777216) :
    crcByte (crcByte (crcByte 0 (v / 65536 % 256)) (v / 256 % 256)) (v % 256) =
      A (A (A (A (v / 65536)) ^^^ v % 65536)) := by
  have e2 : v / 65536 % 256 = v / 65536 := Nat.mod_eq_of_lt (by omega)
  rw [e2]
  have h2 : v / 65536 < 256 := by omega
  have h1 : v / 256 % 256 < 256 := Nat.mod_lt _ (by omega)
  have h0 : v % 256 < 256 := Nat.mod_lt _ (by omega)
  rw [crcByte_eq 0 _ (by omega) h2, Nat.zero_xor, ← A_small _ h2,
    crcByte_eq _ _ (A_lt _) h1, crcByte_eq _ _ (A_lt _) h0, ← A_small _ h0, ← A_xor,
    Nat.xor_assoc, shl8_xor _ _ h0]
  have : v / 256 % 256 * 256 + v % 256 = v % 65536 := by omega
  rw [this]

theorem burst_ne_zero (w sh : Nat) (hw0 : 0 < w) (hw : w < 65536) (hsh : sh < 9) :
    crcByte (crcByte (crcByte 0 ((w <<< sh) / 65536 % 256)) ((w <<< sh) / 256 % 256)) ((w <<< sh) % 256) ≠ 0 := by
  rw [Nat.shiftLeft_eq]
  have hp : 2 ^ sh ≤ 2 ^ 8 := Nat.pow_le_pow_right (by omega) (by omega)
  have hp0 : 0 < 2 ^ sh := Nat.pow_pos (by omega)
  generalize hP : 2 ^ sh = P at hp hp0
  have hv : w * P < 16777216 := by
    calc w * P ≤ w * 2 ^ 8 := Nat.mul_le_mul_left _ hp
      _ < 16777216 := by omega
  have hvpos : 0 < w * P := Nat.mul_pos hw0 hp0
  rw [three_bytes _ hv]
  intro h
  have h1 := A_eq_zero _ (A_lt _) h
  have h2 := A_eq_zero _ (Nat.xor_lt_two_pow (n := 16) (A_lt _) (Nat.mod_lt _ (by omega))) h1
  have h3 := eq_of_xor_eq_zero h2
  have hv' : w * P = (w * P / 65536) * 65536 + A (A (w * P / 65536)) := by rw [h3]; omega
  by_cases hh : w * P / 65536 = 0
  · rw [hh] at hv'
    have : A (A 0) = 0 := by decide
    omega
  · have hlt : w * P / 65536 < 256 := by omega
    apply table _ hlt hh sh hsh
    rw [← hv', hP]
    exact ⟨Nat.mul_mod_left _ _, by rw [Nat.mul_div_cancel _ hp0]; exact hw⟩

/-! ### the theorems -/

/-- the register of the damaged field is the register, started from 0, of the error pattern -/
theorem ccitt_bad_eq (good bad : Bytes) (hg : ∀ x ∈ good, x < 256) (hb : ∀ x ∈ bad, x < 256)
    (hlen : good.length = bad.length) (hcrc : ccitt good = 0) :
    ccitt bad = crc16 0 (xorBytes good bad) := by
  have := crc16_xor good bad hg hb hlen 0xFFFF 0xFFFF (by omega) (by omega)
  rw [Nat.xor_self] at this
  unfold ccitt at hcrc ⊢
  rw [this, hcrc, Nat.zero_xor]

/-- a burst of at most 16 bits, fed to a zero register, leaves it non-zero -/
theorem crc16_burst_ne_zero (e : Bytes) (h : IsBurst16 e) : crc16 0 e ≠ 0 := by
  obtain ⟨pre, w, post, hw0, hw, sh, hsh, rfl⟩ := h
  unfold crc16
  rw [List.foldl_append, List.foldl_append, fold_zeros_zero]
  simp only [List.foldl_cons, List.foldl_nil]
  have hne := burst_ne_zero w sh hw0 hw hsh
  apply fold_zeros_ne _ _ _ hne
  have m2 : (w <<< sh) / 65536 % 256 < 256 := Nat.mod_lt _ (by omega)
  have m1 : (w <<< sh) / 256 % 256 < 256 := Nat.mod_lt _ (by omega)
  have m0 : (w <<< sh) % 256 < 256 := Nat.mod_lt _ (by omega)
  exact crcByte_lt _ _ (crcByte_lt _ _ (crcByte_lt _ _ (by omega) m2) m1) m0

/-- **A burst of up to 16 damaged bits is always detected.** -/
theorem crc_detects_burst (good bad : Bytes) (hg : ∀ x ∈ good, x < 256) (hb : ∀ x ∈ bad, x < 256)
    (hlen : good.length = bad.length) (hcrc : ccitt good = 0) (hburst : IsBurst16 (xorBytes good bad)) :
    ccitt bad ≠ 0 := by
  rw [ccitt_bad_eq good bad hg hb hlen hcrc]
  exact crc16_burst_ne_zero _ hburst

end Beeb.CrcL
