/-
Lemmas for C03: the line-number reference round trip, the token loop of
`decode_line` on the encoding of well-formed items, the two file framings, and
the file/stdin equivalence of `basicMain`.
-/
import Beeb.Model.Basic
import Beeb.Spec.BasicProg
namespace Beeb.BasicL
open Beeb Beeb.Gen Beeb.Spec Beeb.Basic

/-! ### line-number references -/

def tlo (b1 b2 : Nat) : Nat := (b2 ^^^ (((b1 <<< 2) % 4294967296) % 256 &&& 192)) % 256
def thi (b1 b3 : Nat) : Nat := (b3 ^^^ (((b1 <<< 4) % 4294967296) % 256)) % 256
def dlo (b1 b2 : Nat) : Nat := b2 ^^^ ((b1 <<< 2) &&& 0xC0)
def dhi (b1 b3 : Nat) : Nat := (b3 ^^^ (b1 <<< 4)) &&& 0xFF
def e1q (lq hq : Nat) : Nat := ((lq * 16) ||| (hq * 4)) ^^^ 0x54
def e1 (lo hi : Nat) : Nat := (((lo &&& 0xC0) >>> 2) ||| ((hi &&& 0xC0) >>> 4)) ^^^ 0x54
def e23 (x : Nat) : Nat := (x &&& 0x3F) ||| 0x40

theorem target_eq (b1 b2 b3 : Nat) :
    target_line_number b1 b2 b3 = ((thi b1 b3 * 256) % 4294967296 + tlo b1 b2) % 4294967296 := rfl
theorem decodeRef_eq (b1 b2 b3 : Nat) : decodeRef b1 b2 b3 = (dhi b1 b3 <<< 8) ||| dlo b1 b2 := rfl
theorem encodeRef_eq (n : Nat) :
    encodeRef n = [e1 (n % 256) (n / 256 % 256), e23 (n % 256), e23 (n / 256 % 256)] := rfl

theorem hA : ∀ lo < 256, (lo &&& 0xC0) >>> 2 = (lo / 64) * 16 := by decide +kernel
theorem hB : ∀ hi < 256, (hi &&& 0xC0) >>> 4 = (hi / 64) * 4 := by decide +kernel
theorem e1_eq (lo hi : Nat) (h1 : lo < 256) (h2 : hi < 256) : e1 lo hi = e1q (lo / 64) (hi / 64) := by
  unfold e1 e1q; rw [hA lo h1, hB hi h2]

theorem hL : ∀ lo < 256, ∀ hq < 4, tlo (e1q (lo / 64) hq) (e23 lo) = lo ∧ dlo (e1q (lo / 64) hq) (e23 lo) = lo := by
  decide +kernel
theorem hH : ∀ hi < 256, ∀ lq < 4, thi (e1q lq (hi / 64)) (e23 hi) = hi ∧ dhi (e1q lq (hi / 64)) (e23 hi) = hi := by
  decide +kernel
theorem e1q_range : ∀ lq < 4, ∀ hq < 4, e1q lq hq < 128 ∧ e1q lq hq ≠ 34 := by decide
theorem e23_range : ∀ x < 256, 64 ≤ e23 x ∧ e23 x < 128 := by decide +kernel

theorem lineref_roundtrip (n : Nat) (h : n < 65536) :
    match encodeRef n with
    | [b1, b2, b3] => target_line_number b1 b2 b3 = n
    | _ => False := by
  rw [encodeRef_eq]
  show target_line_number _ _ _ = n
  have h1 : n % 256 < 256 := Nat.mod_lt _ (by decide)
  have h2 : n / 256 % 256 < 256 := Nat.mod_lt _ (by decide)
  have q1 : n % 256 / 64 < 4 := by omega
  have q2 : n / 256 % 256 / 64 < 4 := by omega
  rw [target_eq, e1_eq _ _ h1 h2, (hL _ h1 _ q2).1, (hH _ h2 _ q1).1]
  omega

theorem lineref_doc_roundtrip (n : Nat) (h : n < 65536) :
    match encodeRef n with
    | [b1, b2, b3] => decodeRef b1 b2 b3 = n
    | _ => False := by
  rw [encodeRef_eq]
  show decodeRef _ _ _ = n
  have h1 : n % 256 < 256 := Nat.mod_lt _ (by decide)
  have h2 : n / 256 % 256 < 256 := Nat.mod_lt _ (by decide)
  have q1 : n % 256 / 64 < 4 := by omega
  have q2 : n / 256 % 256 / 64 < 4 := by omega
  rw [decodeRef_eq, e1_eq _ _ h1 h2, (hL _ h1 _ q2).2, (hH _ h2 _ q1).2]
  rw [← Nat.shiftLeft_add_eq_or_of_lt (by omega), Nat.shiftLeft_eq]
  omega

/-! ### the token loop -/

def tOf (m : XMap) : Tables := { base := m.base, c6 := m.c6, c7 := m.c7, c8 := m.c8 }

theorem look_eq (a : Array Tok) (i : Nat) : Tables.look a i = look a i := rfl

theorem lineLoop_nil (m : XMap) (fuel : Nat) (b : Bool) (acc : Bytes) : lineLoop m fuel [] b acc = (true, acc) := by
  cases fuel <;> simp [lineLoop]

theorem lineLoop_instr (m : XMap) : ∀ (s : Bytes) (fuel : Nat) (tail acc : Bytes),
    (∀ c ∈ s, c ≠ 0 ∧ c ≠ 34) →
    lineLoop m (fuel + s.length) (s ++ tail) true acc = lineLoop m fuel tail true (s.reverse ++ acc)
  | [], fuel, tail, acc, _ => by simp
  | c :: s, fuel, tail, acc, h => by
    have hc := h c (by simp)
    have ih := lineLoop_instr m s fuel tail (c :: acc) (fun x hx => h x (by simp [hx]))
    simp only [List.length_cons, List.cons_append, ← Nat.add_assoc]
    rw [lineLoop]
    simp [hc.1, hc.2, ih]

theorem lineLoop_close (m : XMap) (fuel : Nat) (tail acc : Bytes) :
    lineLoop m (fuel + 1) (34 :: tail) true acc = lineLoop m fuel tail false (34 :: acc) := by
  simp [lineLoop]

theorem lineLoop_tok (m : XMap) (u : Nat) (rest rest' s : Bytes) (fuel : Nat) (acc : Bytes)
    (h0 : u ≠ 0) (h34 : u ≠ 34) (h : handleToken m u rest = some (s, rest')) :
    lineLoop m (fuel + 1) (u :: rest) false acc = lineLoop m fuel rest' false (s.reverse ++ acc) := by
  simp [lineLoop, h0, h34, h]

theorem lineLoop_open (m : XMap) (hq : look m.base 34 = .str [34]) (fuel : Nat) (tail acc : Bytes) :
    lineLoop m (fuel + 1) (34 :: tail) false acc = lineLoop m fuel tail true (34 :: acc) := by
  have h : handleToken m 34 tail = some ([34], tail) := by simp [handleToken, hq]
  simp [lineLoop, h]

theorem handle_str (m : XMap) (u : Nat) (s rest : Bytes) (h : look m.base u = .str s) :
    handleToken m u rest = some (s, rest) := by simp [handleToken, h]

theorem handle_ext (m : XMap) (a b : Nat) (s rest : Bytes) (ha : a = 0xC6 ∨ a = 0xC7 ∨ a = 0xC8)
    (h : look m.base a = .ext) (hb : look ((tOf m).extMap a) b = .str s) :
    handleToken m a (b :: rest) = some (s, rest) := by
  rcases ha with rfl | rfl | rfl <;> simp [Tables.extMap, tOf] at hb <;> simp [handleToken, h, hb]

theorem handle_quit (m : XMap) (rest : Bytes) (h : look m.base 0xC8 = .pdp) :
    handleToken m 0xC8 (0x98 :: rest) = some (strBytes "QUIT", rest) := by
  simp [handleToken, h]

theorem handle_load (m : XMap) (x : Nat) (rest : Bytes) (h : look m.base 0xC8 = .pdp) (hx : x ≠ 0x98) :
    handleToken m 0xC8 (x :: rest) = some (strBytes "LOAD", x :: rest) := by
  simp [handleToken, h]
  split
  · simp_all
  · simp_all
  · rfl

theorem handle_ref (m : XMap) (b1 b2 b3 : Nat) (rest : Bytes) (h : look m.base 0x8D = .lineNum) :
    handleToken m 0x8D (b1 :: b2 :: b3 :: rest) = some (decU (target_line_number b1 b2 b3), rest) := by
  simp [handleToken, h]

theorem encodeItem_ne_nil (i : Spec.Item) : encodeItem i ≠ [] := by
  cases i <;> simp [encodeItem, encodeRef]

theorem target_encodeRef (n : Nat) (h : n < 65536) :
    target_line_number (e1 (n % 256) (n / 256 % 256)) (e23 (n % 256)) (e23 (n / 256 % 256)) = n := by
  have := lineref_roundtrip n h
  rw [encodeRef_eq] at this
  exact this

/-- one item that is neither an unclosed string nor PDP11 LOAD -/
theorem lineLoop_item (m : XMap) (hq : look m.base 34 = .str [34]) (pdp : Bool) (i : Spec.Item)
    (hwf : ItemWF (tOf m) pdp i) (hns : ∀ s, i ≠ .str s false) (hnl : i ≠ .pdpLoad)
    (fuel : Nat) (tail acc : Bytes) :
    ∃ f', fuel ≤ f' ∧
      lineLoop m (fuel + (encodeItem i).length) (encodeItem i ++ tail) false acc =
        lineLoop m f' tail false ((renderItem (tOf m) i).reverse ++ acc) := by
  cases i with
  | lit c =>
    obtain ⟨h0, h34, _, hl⟩ := hwf
    exact ⟨fuel, Nat.le_refl _, by
      simpa [encodeItem, renderItem] using
        lineLoop_tok m c tail tail [c] fuel acc h0 h34 (handle_str m c [c] tail hl)⟩
  | tok k =>
    obtain ⟨_, h34, h0, s, hl⟩ := hwf
    refine ⟨fuel, Nat.le_refl _, ?_⟩
    have := lineLoop_tok m k tail tail s fuel acc h0 h34 (handle_str m k s tail hl)
    simpa [encodeItem, renderItem, hl] using this
  | ext a b =>
    obtain ⟨ha, _, he, s, hl⟩ := hwf
    refine ⟨fuel + 1, Nat.le_succ _, ?_⟩
    have h0 : a ≠ 0 := by rcases ha with rfl | rfl | rfl <;> decide
    have h34 : a ≠ 34 := by rcases ha with rfl | rfl | rfl <;> decide
    have := lineLoop_tok m a (b :: tail) tail s (fuel + 1) acc h0 h34 (handle_ext m a b s tail ha he hl)
    simpa [encodeItem, renderItem, hl] using this
  | pdpQuit =>
    obtain ⟨_, hl⟩ := hwf
    refine ⟨fuel + 1, Nat.le_succ _, ?_⟩
    have := lineLoop_tok m 0xC8 (0x98 :: tail) tail _ (fuel + 1) acc (by decide) (by decide) (handle_quit m tail hl)
    simpa [encodeItem, renderItem] using this
  | pdpLoad => exact absurd rfl hnl
  | lineRef n =>
    obtain ⟨hn, hl⟩ := hwf
    refine ⟨fuel + 3, by omega, ?_⟩
    have := lineLoop_tok m 0x8D (e1 (n % 256) (n / 256 % 256) :: e23 (n % 256) :: e23 (n / 256 % 256) :: tail) tail _
      (fuel + 3) acc (by decide) (by decide) (handle_ref m _ _ _ tail hl)
    rw [target_encodeRef n hn] at this
    simpa [encodeItem, renderItem, encodeRef_eq] using this
  | str s closed =>
    cases closed with
    | false => exact absurd rfl (hns s)
    | true =>
      refine ⟨fuel, Nat.le_refl _, ?_⟩
      have hs : ∀ c ∈ s, c ≠ 0 ∧ c ≠ 34 := fun c hc => ⟨(hwf c hc).1, (hwf c hc).2.1⟩
      have e1' : fuel + (encodeItem (.str s true)).length = (fuel + 1 + s.length) + 1 := by
        simp [encodeItem]; omega
      have e2 : encodeItem (.str s true) ++ tail = 34 :: (s ++ (34 :: tail)) := by simp [encodeItem]
      rw [e1', e2, lineLoop_open m hq, lineLoop_instr m s _ _ _ hs, lineLoop_close]
      simp [renderItem]

theorem lineLoop_load (m : XMap) (pdp : Bool) (hwf : ItemWF (tOf m) pdp .pdpLoad)
    (fuel : Nat) (tail acc : Bytes) (hne : tail ≠ []) (hh : tail.head? ≠ some 0x98) :
    lineLoop m (fuel + 1) (encodeItem .pdpLoad ++ tail) false acc =
      lineLoop m fuel tail false ((renderItem (tOf m) .pdpLoad).reverse ++ acc) := by
  obtain ⟨_, hl⟩ := hwf
  cases tail with
  | nil => exact absurd rfl hne
  | cons x r =>
    have hx : x ≠ 0x98 := by simpa using hh
    have := lineLoop_tok m 0xC8 (x :: r) (x :: r) _ fuel acc (by decide) (by decide) (handle_load m x r hl hx)
    simpa [encodeItem, renderItem] using this

theorem lineLoop_unclosed (m : XMap) (hq : look m.base 34 = .str [34]) (s : Bytes)
    (hs : ∀ c ∈ s, c ≠ 0 ∧ c ≠ 34) (fuel : Nat) (acc : Bytes) (hf : s.length + 1 ≤ fuel) :
    lineLoop m fuel (34 :: s) false acc = (true, (34 :: s).reverse ++ acc) := by
  obtain ⟨f, rfl⟩ : ∃ f, fuel = (f + s.length) + 1 := ⟨fuel - (s.length + 1), by omega⟩
  have := lineLoop_instr m s f [] (34 :: acc) hs
  rw [List.append_nil] at this
  rw [lineLoop_open m hq, this, lineLoop_nil]
  simp

theorem head?_append_ne_nil (l l' : Bytes) (h : l ≠ []) : (l ++ l').head? = l.head? := by
  cases l with
  | nil => exact absurd rfl h
  | cons a t => rfl

theorem encodeItems_cons (i : Spec.Item) (l : List Spec.Item) : encodeItems (i :: l) = encodeItem i ++ encodeItems l := by
  simp [encodeItems]

theorem lineLoop_items (m : XMap) (hq : look m.base 34 = .str [34]) (pdp : Bool) :
    ∀ (items : List Spec.Item), ItemsWF (tOf m) pdp items → ∀ (fuel : Nat) (acc : Bytes),
      (encodeItems items).length ≤ fuel →
      lineLoop m fuel (encodeItems items) false acc =
        (true, (items.flatMap (renderItem (tOf m))).reverse ++ acc)
  | [], _, fuel, acc, _ => by simp [encodeItems, lineLoop_nil]
  | [i], h, fuel, acc, hf => by
    obtain ⟨hwf, hnl⟩ := h
    by_cases hu : ∃ s, i = .str s false
    · obtain ⟨s, rfl⟩ := hu
      have hs : ∀ c ∈ s, c ≠ 0 ∧ c ≠ 34 := fun c hc => ⟨(hwf c hc).1, (hwf c hc).2.1⟩
      have := lineLoop_unclosed m hq s hs fuel acc (by simpa [encodeItems, encodeItem] using hf)
      simpa [encodeItems, encodeItem, renderItem] using this
    · have hns : ∀ s, i ≠ .str s false := fun s hs => hu ⟨s, hs⟩
      have hlen : (encodeItem i).length ≤ fuel := by simpa [encodeItems] using hf
      obtain ⟨f, rfl⟩ : ∃ f, fuel = f + (encodeItem i).length := ⟨fuel - (encodeItem i).length, by omega⟩
      obtain ⟨f', _, e⟩ := lineLoop_item m hq pdp i hwf hns hnl f [] acc
      rw [List.append_nil] at e
      simp [encodeItems, e, lineLoop_nil]
  | i :: j :: rest, h, fuel, acc, hf => by
    obtain ⟨hwf, hns, hload, hrest⟩ := h
    have ih := lineLoop_items m hq pdp (j :: rest) hrest
    rw [encodeItems_cons] at hf ⊢
    rw [List.length_append] at hf
    by_cases hl : i = .pdpLoad
    · subst hl
      obtain ⟨f, rfl⟩ : ∃ f, fuel = f + 1 := ⟨fuel - 1, by simp [encodeItem] at hf; omega⟩
      have hne : encodeItems (j :: rest) ≠ [] := by
        rw [encodeItems_cons]; simp [encodeItem_ne_nil]
      have hh : (encodeItems (j :: rest)).head? ≠ some 0x98 := by
        rw [encodeItems_cons, head?_append_ne_nil _ _ (encodeItem_ne_nil j)]
        exact hload rfl
      rw [lineLoop_load m pdp hwf f _ acc hne hh, ih f _ (by simp [encodeItem] at hf; omega)]
      simp
    · obtain ⟨f, rfl⟩ : ∃ f, fuel = f + (encodeItem i).length := ⟨fuel - (encodeItem i).length, by omega⟩
      obtain ⟨f', hf', e⟩ := lineLoop_item m hq pdp i hwf hns hl f (encodeItems (j :: rest)) acc
      rw [e, ih f' _ (by omega)]
      simp

/-! ### counting loop tokens -/

def isStr : Tok → Bool
  | .str _ => true
  | _ => false

theorem isStr_str (t : Tok) (s : Bytes) (h : t = .str s) : isStr t = true := by subst h; rfl

def loopToks : List Nat := [0xE3, 0xED, 0xF5, 0xFD]

/-- the facts about a dialect's maps the listing theorem needs beyond `ItemsWF`:
    the quote prints itself, the four loop tokens are keywords (not characters that
    stand for themselves), and neither the quote nor a loop token is an assigned
    extension code. -/
def mapOK (m : XMap) : Bool :=
  decide (look m.base 34 = .str [34]) &&
  loopToks.all (fun k => decide (look m.base k ≠ .str [k])) &&
  (34 :: loopToks).all (fun k => !isStr (look m.c6 k) && !isStr (look m.c7 k) && !isStr (look m.c8 k))

theorem mapOK_quote (m : XMap) (h : mapOK m = true) : look m.base 34 = .str [34] := by
  simp [mapOK] at h; exact h.1.1

theorem mapOK_lit (m : XMap) (h : mapOK m = true) (k : Nat) (hk : k ∈ loopToks) : look m.base k ≠ .str [k] := by
  simp only [mapOK, Bool.and_eq_true, List.all_eq_true, decide_eq_true_eq] at h
  exact h.1.2 k hk

theorem mapOK_ext (m : XMap) (h : mapOK m = true) (a k : Nat) (hk : k = 34 ∨ k ∈ loopToks) :
    isStr (look ((tOf m).extMap a) k) = false := by
  simp only [mapOK, Bool.and_eq_true, List.all_eq_true, decide_eq_true_eq, List.mem_cons, Bool.not_eq_true'] at h
  have := h.2 k hk
  simp only [Tables.extMap, tOf]
  split
  · exact this.1.1
  · split
    · exact this.1.2
    · exact this.2

theorem loopToks_ge (k : Nat) (hk : k ∈ loopToks) : 128 ≤ k ∧ k ≠ 34 ∧ k ≠ 0x8D ∧ k ≠ 0xC6 ∧ k ≠ 0xC7 ∧ k ≠ 0xC8 ∧ k ≠ 0x98 := by
  simp [loopToks] at hk
  rcases hk with rfl | rfl | rfl | rfl <;> decide

theorem countTok_nil (k : Nat) (b : Bool) : countTok k [] b = 0 := by simp [countTok]

theorem countTok_skip (k c : Nat) (tail : Bytes) (b : Bool) (h34 : c ≠ 34) (hk : c ≠ k) :
    countTok k (c :: tail) b = countTok k tail b := by
  simp [countTok, h34, hk]

theorem countTok_hit (k : Nat) (tail : Bytes) (h34 : k ≠ 34) :
    countTok k (k :: tail) false = 1 + countTok k tail false := by
  simp [countTok, h34]

theorem countTok_quote (k : Nat) (tail : Bytes) (b : Bool) : countTok k (34 :: tail) b = countTok k tail (!b) := by
  simp [countTok]

theorem countTok_instr (k : Nat) : ∀ (s tail : Bytes), (∀ c ∈ s, c ≠ 34) →
    countTok k (s ++ tail) true = countTok k tail true
  | [], tail, _ => rfl
  | c :: s, tail, h => by
    have ih := countTok_instr k s tail (fun x hx => h x (by simp [hx]))
    simp [countTok, h c (by simp), ih]

theorem countItem_cons (k : Nat) (i : Spec.Item) (l : List Spec.Item) :
    countItem k (i :: l) = (if i = .tok k then 1 else 0) + countItem k l := by
  by_cases h : i = .tok k
  · simp [countItem, h]; omega
  · simp [countItem, h]

theorem countTok_item (m : XMap) (hok : mapOK m = true) (pdp : Bool) (k : Nat) (hk : k ∈ loopToks) (i : Spec.Item)
    (hwf : ItemWF (tOf m) pdp i) (hns : ∀ s, i ≠ .str s false) (tail : Bytes) :
    countTok k (encodeItem i ++ tail) false = (if i = .tok k then 1 else 0) + countTok k tail false := by
  obtain ⟨hk128, hk34, hk8d, hkc6, hkc7, hkc8, hk98⟩ := loopToks_ge k hk
  cases i with
  | lit c =>
    obtain ⟨_, h34, _, hl⟩ := hwf
    have hck : c ≠ k := by
      intro e; subst e; exact mapOK_lit m hok c hk hl
    simp [encodeItem, countTok_skip k c tail false h34 hck]
  | tok t =>
    obtain ⟨_, h34, _, _⟩ := hwf
    by_cases e : t = k
    · subst e; simp [encodeItem, countTok_hit t tail h34]
    · simp [encodeItem, countTok_skip k t tail false h34 e, e]
  | ext a b =>
    obtain ⟨ha, _, _, s, hl⟩ := hwf
    have hs := isStr_str _ s hl
    have hb34 : b ≠ 34 := by
      intro e; subst e; exact Bool.noConfusion (hs.symm.trans (mapOK_ext m hok a 34 (Or.inl rfl)))
    have hbk : b ≠ k := by
      intro e; subst e; exact Bool.noConfusion (hs.symm.trans (mapOK_ext m hok a b (Or.inr hk)))
    have ha34 : a ≠ 34 := by rcases ha with rfl | rfl | rfl <;> decide
    have hak : a ≠ k := by rcases ha with rfl | rfl | rfl <;> first | exact Ne.symm hkc6 | exact Ne.symm hkc7 | exact Ne.symm hkc8
    simp [encodeItem, countTok_skip k a (b :: tail) false ha34 hak, countTok_skip k b tail false hb34 hbk]
  | pdpQuit =>
    simp [encodeItem, countTok_skip k 0xC8 (0x98 :: tail) false (by decide) (Ne.symm hkc8),
      countTok_skip k 0x98 tail false (by decide) (Ne.symm hk98)]
  | pdpLoad =>
    simp [encodeItem, countTok_skip k 0xC8 tail false (by decide) (Ne.symm hkc8)]
  | lineRef n =>
    have h1 : n % 256 < 256 := Nat.mod_lt _ (by decide)
    have h2 : n / 256 % 256 < 256 := Nat.mod_lt _ (by decide)
    have r1 := e1q_range (n % 256 / 64) (by omega) (n / 256 % 256 / 64) (by omega)
    rw [← e1_eq _ _ h1 h2] at r1
    have r2 := e23_range _ h1
    have r3 := e23_range _ h2
    simp only [encodeItem, encodeRef_eq, List.cons_append]
    rw [countTok_skip k 0x8D _ false (by decide) (Ne.symm hk8d),
      countTok_skip k _ _ false r1.2 (by omega),
      countTok_skip k _ _ false (by omega) (by omega),
      countTok_skip k _ _ false (by omega) (by omega)]
    simp
  | str s closed =>
    cases closed with
    | false => exact absurd rfl (hns s)
    | true =>
      have hs : ∀ c ∈ s, c ≠ 34 := fun c hc => (hwf c hc).2.1
      have e2 : encodeItem (.str s true) ++ tail = 34 :: (s ++ (34 :: tail)) := by simp [encodeItem]
      rw [e2, countTok_quote, Bool.not_false, countTok_instr k s _ hs, countTok_quote]
      simp

theorem countTok_items (m : XMap) (hok : mapOK m = true) (pdp : Bool) (k : Nat) (hk : k ∈ loopToks) :
    ∀ (items : List Spec.Item), ItemsWF (tOf m) pdp items →
      countTok k (encodeItems items) false = countItem k items
  | [], _ => by simp [encodeItems, countTok_nil, countItem]
  | [i], h => by
    obtain ⟨hwf, _⟩ := h
    by_cases hu : ∃ s, i = .str s false
    · obtain ⟨s, rfl⟩ := hu
      have hs : ∀ c ∈ s, c ≠ 34 := fun c hc => (hwf c hc).2.1
      have := countTok_instr k s [] hs
      rw [List.append_nil] at this
      simp [encodeItems, encodeItem, countTok_quote, this, countTok_nil, countItem]
    · have hns : ∀ s, i ≠ .str s false := fun s hs => hu ⟨s, hs⟩
      have := countTok_item m hok pdp k hk i hwf hns []
      rw [List.append_nil] at this
      rw [countItem_cons]
      simp [encodeItems, this, countTok_nil, countItem]
  | i :: j :: rest, h => by
    obtain ⟨hwf, hns, _, hrest⟩ := h
    rw [encodeItems_cons, countTok_item m hok pdp k hk i hwf hns, countItem_cons,
      countTok_items m hok pdp k hk (j :: rest) hrest]

/-! ### one line -/

theorem bit_eq (n k : Nat) : Basic.bit n k = lbit n k := rfl

theorem decodeLine_items (m : XMap) (hok : mapOK m = true) (pdp : Bool) (listo hi lo : Nat)
    (items : List Spec.Item) (h : ItemsWF (tOf m) pdp items) (indent : Int) :
    decodeLine m listo hi lo (encodeItems items) indent =
      (true, (renderLine (tOf m) listo indent ⟨256 * hi + lo, items⟩).1,
        (renderLine (tOf m) listo indent ⟨256 * hi + lo, items⟩).2) := by
  have hloop := lineLoop_items m (mapOK_quote m hok) pdp items h ((encodeItems items).length + 1) [] (Nat.le_succ _)
  have c1 := countTok_items m hok pdp 0xE3 (by decide) items h
  have c2 := countTok_items m hok pdp 0xED (by decide) items h
  have c3 := countTok_items m hok pdp 0xF5 (by decide) items h
  have c4 := countTok_items m hok pdp 0xFD (by decide) items h
  simp only [decodeLine, hloop, c1, c2, c3, c4, bit_eq, renderLine]
  simp
  rfl

/-! ### big-endian framing -/

theorem decodeBE_end (m : XMap) (listo fuel : Nat) (empty : Bool) (indent : Int) (out : List Bytes) :
    decodeBE m listo (fuel + 1) [0x0D, 0xFF] empty false indent out =
      { ok := true, out := out.reverse.flatten, err := false } := by
  simp [decodeBE]

theorem decodeBE_line (m : XMap) (listo fuel hi lo : Nat) (data rest : Bytes) (empty : Bool) (indent : Int)
    (out : List Bytes) (printed : Bytes) (indent' : Int) (hhi : hi ≠ 0xFF)
    (hline : decodeLine m listo hi lo data indent = (true, printed, indent')) :
    decodeBE m listo (fuel + 1) (0x0D :: hi :: lo :: (data.length + 4) :: (data ++ rest)) empty false indent out =
      decodeBE m listo fuel rest false false indent' (printed :: out) := by
  rw [decodeBE]
  simp [hhi, hline]
  rw [if_neg (by omega), if_neg (by omega)]

theorem encodeBE_cons (l : Line) (p : Program) :
    encodeBE (l :: p) = 0x0D :: (l.num / 256) :: (l.num % 256) :: ((encodeItems l.items).length + 4) ::
      (encodeItems l.items ++ encodeBE p) := by
  simp [encodeBE]

theorem encodeBE_nil : encodeBE [] = [0x0D, 0xFF] := rfl

theorem encodeBE_length (p : Program) : p.length + 1 ≤ (encodeBE p).length + 2 := by
  induction p with
  | nil => simp [encodeBE_nil]
  | cons l p ih => rw [encodeBE_cons]; simp; omega

theorem decodeBE_program (m : XMap) (hok : mapOK m = true) (pdp : Bool) (listo : Nat) :
    ∀ (p : Program), ProgramWF (tOf m) pdp 65280 p → ∀ (fuel : Nat) (empty : Bool) (indent : Int) (out : List Bytes),
      p.length + 1 ≤ fuel →
      decodeBE m listo fuel (encodeBE p) empty false indent out =
        { ok := true, out := out.reverse.flatten ++ renderFrom (tOf m) listo indent p, err := false }
  | [], _, fuel, empty, indent, out, hf => by
    obtain ⟨f, rfl⟩ : ∃ f, fuel = f + 1 := ⟨fuel - 1, by simp at hf; omega⟩
    rw [encodeBE_nil, decodeBE_end]
    simp [renderFrom]
  | l :: p, h, fuel, empty, indent, out, hf => by
    obtain ⟨f, rfl⟩ : ∃ f, fuel = f + 1 := ⟨fuel - 1, by simp at hf; omega⟩
    obtain ⟨hnum, _, hitems⟩ := h l (by simp)
    have hp : ProgramWF (tOf m) pdp 65280 p := fun l' hl' => h l' (by simp [hl'])
    have hline := decodeLine_items m hok pdp listo (l.num / 256) (l.num % 256) l.items hitems indent
    have hn : 256 * (l.num / 256) + l.num % 256 = l.num := Nat.div_add_mod _ _
    rw [hn] at hline
    rw [encodeBE_cons, decodeBE_line m listo f _ _ _ _ empty indent out _ _ (by omega) hline,
      decodeBE_program m hok pdp listo p hp f false _ _ (by simp at hf; omega)]
    simp [renderFrom]

/-! ### little-endian framing -/

theorem decodeLE_end (m : XMap) (listo fuel : Nat) (empty : Bool) (indent : Int) (out : List Bytes) :
    decodeLE m listo (fuel + 1) [0x00, 0xFF, 0xFF] empty indent out =
      { ok := true, out := out.reverse.flatten, err := false } := by
  simp [decodeLE]

theorem decodeLE_line (m : XMap) (listo fuel hi lo : Nat) (data rest : Bytes) (empty : Bool) (indent : Int)
    (out : List Bytes) (printed : Bytes) (indent' : Int)
    (hline : decodeLine m listo hi lo data indent = (true, printed, indent')) :
    decodeLE m listo (fuel + 1) ((data.length + 4) :: lo :: hi :: (data ++ 0x0D :: rest)) empty indent out =
      decodeLE m listo fuel rest false indent' (printed :: out) := by
  rw [decodeLE.eq_def]
  have e1 : data.length + 4 - 3 = data.length + 1 := by omega
  simp [e1, hline]
  omega

theorem encodeLE_cons (l : Line) (p : Program) :
    encodeLE (l :: p) = ((encodeItems l.items).length + 4) :: (l.num % 256) :: (l.num / 256) ::
      (encodeItems l.items ++ 0x0D :: encodeLE p) := by
  simp [encodeLE]

theorem encodeLE_nil : encodeLE [] = [0x00, 0xFF, 0xFF] := rfl

theorem encodeLE_length (p : Program) : p.length + 1 ≤ (encodeLE p).length + 2 := by
  induction p with
  | nil => simp [encodeLE_nil]
  | cons l p ih => rw [encodeLE_cons]; simp; omega

theorem decodeLE_program (m : XMap) (hok : mapOK m = true) (pdp : Bool) (listo : Nat) :
    ∀ (p : Program), ProgramWF (tOf m) pdp 65536 p → ∀ (fuel : Nat) (empty : Bool) (indent : Int) (out : List Bytes),
      p.length + 1 ≤ fuel →
      decodeLE m listo fuel (encodeLE p) empty indent out =
        { ok := true, out := out.reverse.flatten ++ renderFrom (tOf m) listo indent p, err := false }
  | [], _, fuel, empty, indent, out, hf => by
    obtain ⟨f, rfl⟩ : ∃ f, fuel = f + 1 := ⟨fuel - 1, by simp at hf; omega⟩
    rw [encodeLE_nil, decodeLE_end]
    simp [renderFrom]
  | l :: p, h, fuel, empty, indent, out, hf => by
    obtain ⟨f, rfl⟩ : ∃ f, fuel = f + 1 := ⟨fuel - 1, by simp at hf; omega⟩
    obtain ⟨_, _, hitems⟩ := h l (by simp)
    have hp : ProgramWF (tOf m) pdp 65536 p := fun l' hl' => h l' (by simp [hl'])
    have hline := decodeLine_items m hok pdp listo (l.num / 256) (l.num % 256) l.items hitems indent
    have hn : 256 * (l.num / 256) + l.num % 256 = l.num := Nat.div_add_mod _ _
    rw [hn] at hline
    rw [encodeLE_cons, decodeLE_line m listo f _ _ _ _ empty indent out _ _ hline,
      decodeLE_program m hok pdp listo p hp f false _ _ (by simp at hf; omega)]
    simp [renderFrom]

/-! ### the two listing theorems for the real tables -/

theorem mapOK_real : ∀ d < 6, mapOK (xmapOf tokTable d) = true := by decide +kernel

theorem listing_BE_gen (tbl : Array (Array (Array Tok))) (d listo : Nat) (p : Program)
    (hd : d = 0 ∨ d = 2 ∨ d = 4 ∨ d = 5) (hok : mapOK (xmapOf tbl d) = true) (pdp : Bool)
    (hp : ProgramWF (tOf (xmapOf tbl d)) pdp 65280 p) :
    decodeFile tbl d listo (encodeBE p) =
      { ok := true, out := render (tOf (xmapOf tbl d)) listo p, err := false } := by
  have hb : bigEndian d = true := by rcases hd with rfl | rfl | rfl | rfl <;> rfl
  simp only [decodeFile, hb, if_true]
  rw [decodeBE_program (xmapOf tbl d) hok pdp listo p hp _ true 0 [] (encodeBE_length p)]
  simp [render]

theorem listing_LE_gen (tbl : Array (Array (Array Tok))) (d listo : Nat) (p : Program)
    (hd : d = 1 ∨ d = 3) (hok : mapOK (xmapOf tbl d) = true) (pdp : Bool)
    (hp : ProgramWF (tOf (xmapOf tbl d)) pdp 65536 p) :
    decodeFile tbl d listo (encodeLE p) =
      { ok := true, out := render (tOf (xmapOf tbl d)) listo p, err := false } := by
  have hb : bigEndian d = false := by rcases hd with rfl | rfl <;> rfl
  simp only [decodeFile, hb]
  rw [decodeLE_program (xmapOf tbl d) hok pdp listo p hp _ true 0 [] (encodeLE_length p)]
  simp [render]

theorem listing_BE (d listo : Nat) (p : Program) (hd : d = 0 ∨ d = 2 ∨ d = 4 ∨ d = 5) (_hl : listo < 8)
    (hp : ProgramWF (tOf (xmapOf tokTable d)) (d == 5) 65280 p) :
    decodeFile tokTable d listo (encodeBE p) =
      { ok := true, out := render (tOf (xmapOf tokTable d)) listo p, err := false } :=
  listing_BE_gen tokTable d listo p hd (mapOK_real d (by omega)) (d == 5) hp

theorem listing_LE (d listo : Nat) (p : Program) (hd : d = 1 ∨ d = 3) (_hl : listo < 8)
    (hp : ProgramWF (tOf (xmapOf tokTable d)) false 65536 p) :
    decodeFile tokTable d listo (encodeLE p) =
      { ok := true, out := render (tOf (xmapOf tokTable d)) listo p, err := false } :=
  listing_LE_gen tokTable d listo p hd (mapOK_real d (by omega)) false hp

/-! ### file or standard input -/

theorem stdin_same (files : Bytes → Option Bytes) (name content : Bytes) (opts : List Bytes)
    (hn : name ≠ [45]) (hf : files name = some content)
    (hopts : (bgetopt (opts.length + 2) (opts ++ [name]) []).2 = [name] ∧
             (bgetopt (opts.length + 2) (opts ++ [[45]]) []).2 = [[45]] ∧
             (bgetopt (opts.length + 2) (opts ++ [name]) []).1 = (bgetopt (opts.length + 2) (opts ++ [[45]]) []).1) :
    basicMain tokTable dialectOfName files [] (opts ++ [name]) =
      basicMain tokTable dialectOfName files content (opts ++ [[45]]) := by
  obtain ⟨h1, h2, h3⟩ := hopts
  have l1 : (opts ++ [name]).length + 1 = opts.length + 2 := by simp
  have l2 : (opts ++ [[45]]).length + 1 = opts.length + 2 := by simp
  unfold basicMain
  rw [l1, l2]
  generalize bgetopt (opts.length + 2) (opts ++ [name]) [] = r1 at h1 h3 ⊢
  generalize bgetopt (opts.length + 2) (opts ++ [[45]]) [] = r2 at h2 h3 ⊢
  obtain ⟨o1, a1⟩ := r1
  obtain ⟨o2, a2⟩ := r2
  simp only at h1 h2 h3
  subst h1 h2 h3
  simp only
  cases dialectByName dialectOfName (strBytes "6502") with
  | none => rfl
  | some d0 =>
    simp only
    cases basicMain.optLoop dialectOfName o1 d0 7 [] with
    | error r => rfl
    | ok v =>
      obtain ⟨d, l, o⟩ := v
      simp [basicMain.fileLoop, hn, hf]

/-! ### comparing token tables

`DecidableEq (Array _)` evaluates very slowly in the kernel on 6×4×256 literals
(minutes); the same comparison on nested lists takes well under a second. -/

def toL (a : Array (Array (Array Tok))) : List (List (List Tok)) :=
  a.toList.map (fun b => b.toList.map (fun c => c.toList))

theorem map_inj_of_inj {α β : Type} (f : α → β) (hf : ∀ a b, f a = f b → a = b) :
    ∀ (l l' : List α), l.map f = l'.map f → l = l'
  | [], [], _ => rfl
  | [], _ :: _, h => by simp at h
  | _ :: _, [], h => by simp at h
  | a :: l, b :: l', h => by
    simp only [List.map_cons, List.cons.injEq] at h
    rw [hf a b h.1, map_inj_of_inj f hf l l' h.2]

theorem toList_inj {α : Type} (a b : Array α) (h : a.toList = b.toList) : a = b := by
  cases a; cases b; simp_all

theorem tables_eq_of_toL (a b : Array (Array (Array Tok))) (h : toL a = toL b) : a = b := by
  apply toList_inj
  refine map_inj_of_inj _ ?_ _ _ h
  intro x y hxy
  apply toList_inj
  exact map_inj_of_inj _ (fun c c' => toList_inj c c') _ _ hxy

end Beeb.BasicL
