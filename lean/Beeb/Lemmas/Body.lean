/- Lemmas about the sector walk of `visit_file_body_piecewise`. -/
import Beeb.Model.Cmd
import Beeb.Spec.Body
import Beeb.Lemmas.Leaf

namespace Beeb.BodyL
open Beeb Beeb.Spec

theorem flatten_reverse_cons (p : Bytes) (acc : List Bytes) :
    (p :: acc).reverse.flatten = acc.reverse.flatten ++ p := by
  simp [List.reverse_cons, List.flatten_append]

/-- the loop delivers, in order, the first `len` bytes of the `k` sectors from `sec` -/
theorem bodyLoop_spec (m : Media) (hm : SectorLen m) :
    ∀ (k sec len : Nat) (acc : List Bytes), len ≤ 256 * k →
      (bodyLoop m k sec len acc).map (fun l => l.reverse.flatten) =
        (sectorsConcat m sec k).map (fun all => acc.reverse.flatten ++ all.take len) := by
  intro k
  induction k with
  | zero =>
    intro sec len acc h
    have : len = 0 := by omega
    subst this
    simp [bodyLoop, sectorsConcat]
  | succ k ih =>
    intro sec len acc h
    unfold bodyLoop sectorsConcat
    cases hs : m sec with
    | none => simp
    | some buf =>
      have hb : buf.length = 256 := hm sec buf hs
      simp only
      by_cases hl : len > 256
      · rw [if_pos hl]
        have := ih (sec + 1) (len - 256) (buf.take 256 :: acc) (by omega)
        rw [this]
        cases hc : sectorsConcat m (sec + 1) k with
        | none => simp
        | some rest =>
          simp only [Option.map_some]
          rw [flatten_reverse_cons]
          have h1 : buf.take 256 = buf := by rw [← hb]; exact List.take_length
          rw [h1, List.take_append, hb]
          have h2 : buf.take len = buf := by
            apply List.take_of_length_le; omega
          rw [h2, List.append_assoc]
      · rw [if_neg hl]
        have := ih (sec + 1) (len - len) (buf.take len :: acc) (by omega)
        rw [this]
        cases hc : sectorsConcat m (sec + 1) k with
        | none => simp
        | some rest =>
          simp only [Option.map_some]
          rw [flatten_reverse_cons, List.take_append, hb]
          have h3 : len - 256 = 0 := by omega
          simp [h3]

/-- an unreadable sector inside the range makes the concatenation fail -/
theorem sectorsConcat_none (m : Media) : ∀ (n start i : Nat), i < n → m (start + i) = none →
    sectorsConcat m start n = none := by
  intro n
  induction n with
  | zero => intro _ i h; omega
  | succ n ih =>
    intro start i hi hnone
    unfold sectorsConcat
    cases i with
    | zero =>
      simp at hnone
      simp [hnone]
    | succ j =>
      cases hs : m start with
      | none => rfl
      | some s =>
        have : sectorsConcat m (start + 1) n = none :=
          ih (start + 1) j (by omega) (by rw [← hnone]; congr 1; omega)
        simp [this]

theorem sectorsConcat_congr (m m' : Media) : ∀ (n start : Nat), (∀ i, i < n → m (start + i) = m' (start + i)) →
    sectorsConcat m start n = sectorsConcat m' start n := by
  intro n
  induction n with
  | zero => intro _ _; rfl
  | succ n ih =>
    intro start h
    unfold sectorsConcat
    have h0 := h 0 (by omega)
    simp only [Nat.add_zero] at h0
    rw [h0, ih (start + 1) (fun i hi => by have := h (i + 1) (by omega); rw [← Nat.add_assoc] at this; rwa [Nat.add_right_comm] )]

end Beeb.BodyL
