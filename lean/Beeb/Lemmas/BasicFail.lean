/-
Lemmas for C08/C09: every failure path of `bbcbasic_to_text` is diagnosed, the
exit status is 0 or 1, truncated programs are rejected after printing a prefix
of the intact listing, input files are processed independently, and the
individual framing / token errors.
-/
import Beeb.Model.Basic
import Beeb.Spec.BasicProg
import Beeb.Lemmas.BasicL
namespace Beeb.BasicFailL
open Beeb Beeb.Gen Beeb.Spec Beeb.Basic Beeb.BasicL

/-! ### a failed decode is always diagnosed -/

theorem decodeBE_diag (m : XMap) (listo : Nat) :
    ∀ (fuel : Nat) (f : Bytes) (empty warned : Bool) (indent : Int) (out : List Bytes),
      (decodeBE m listo fuel f empty warned indent out).ok = false →
      (decodeBE m listo fuel f empty warned indent out).err = true
  | 0, f, empty, warned, indent, out => by simp [decodeBE]
  | fuel + 1, f, empty, warned, indent, out => by
    have ih := decodeBE_diag m listo fuel
    rw [decodeBE.eq_def]
    simp only
    repeat' split
    all_goals first
      | exact ih _ _ _ _ _
      | simp
      | skip

theorem decodeLE_diag (m : XMap) (listo : Nat) :
    ∀ (fuel : Nat) (f : Bytes) (empty : Bool) (indent : Int) (out : List Bytes),
      (decodeLE m listo fuel f empty indent out).ok = false →
      (decodeLE m listo fuel f empty indent out).err = true
  | 0, f, empty, indent, out => by simp [decodeLE]
  | fuel + 1, f, empty, indent, out => by
    have ih := decodeLE_diag m listo fuel
    rw [decodeLE.eq_def]
    simp only
    repeat' split
    all_goals first
      | exact ih _ _ _ _
      | simp
      | skip

theorem decode_diag (tbl : Array (Array (Array Tok))) (d listo : Nat) (content : Bytes)
    (h : (decodeFile tbl d listo content).ok = false) : (decodeFile tbl d listo content).err = true := by
  unfold decodeFile at h ⊢
  simp only at h ⊢
  split
  · rename_i hb
    rw [if_pos hb] at h
    exact decodeBE_diag _ _ _ _ _ _ _ _ h
  · rename_i hb
    rw [if_neg hb] at h
    exact decodeLE_diag _ _ _ _ _ _ _ h

/-! ### main: exit status, diagnostics, no crash -/

/-- what every run of `basicMain` satisfies -/
def Good (r : Run) : Prop := r.crash = none ∧ (r.exit = 0 ∨ r.exit = 1) ∧ (r.exit ≠ 0 → r.err = true)

theorem optLoop_good (names : List (String × Nat)) :
    ∀ (opts : List BOpt) (d l : Nat) (out : Bytes) (r : Run),
      basicMain.optLoop names opts d l out = .error r → Good r
  | [], d, l, out, r, h => by simp [basicMain.optLoop] at h
  | .bad :: more, d, l, out, r, h => by
    simp only [basicMain.optLoop, Except.error.injEq] at h; subst h; simp [Good]
  | .help :: more, d, l, out, r, h => by
    simp only [basicMain.optLoop, Except.error.injEq] at h; subst h; simp [Good]
  | .dump a :: more, d, l, out, r, h => by
    simp only [basicMain.optLoop, Except.error.injEq] at h; subst h; simp [Good]
  | .listo a :: more, d, l, out, r, h => by
    simp only [basicMain.optLoop] at h
    split at h
    · simp only [Except.error.injEq] at h; subst h; simp [Good]
    · exact optLoop_good names more _ _ _ r h
  | .dialect a :: more, d, l, out, r, h => by
    simp only [basicMain.optLoop] at h
    split at h
    · simp only [Except.error.injEq] at h; subst h; simp [Good]
    · split at h
      · simp only [Except.error.injEq] at h; subst h; simp [Good]
      · exact optLoop_good names more _ _ _ r h

theorem fileLoop_good (tbl : Array (Array (Array Tok))) (files : Bytes → Option Bytes) (stdin : Bytes) (d l : Nat) :
    ∀ (inputs : List Bytes) (su : Bool) (out : List Bytes) (err : Bool) (ex : Nat),
      (ex = 0 ∨ ex = 1) → (ex ≠ 0 → err = true) →
      Good (basicMain.fileLoop tbl files stdin d l inputs su out err ex)
  | [], su, out, err, ex, h1, h2 => by
    simp only [basicMain.fileLoop]; exact ⟨rfl, h1, h2⟩
  | name :: more, su, out, err, ex, h1, h2 => by
    have step : ∀ (c : Bytes) (su' : Bool),
        Good (basicMain.fileLoop tbl files stdin d l more su' ((decodeFile tbl d l c).out :: out)
          (err || (decodeFile tbl d l c).err) (if (decodeFile tbl d l c).ok then ex else 1)) := by
      intro c su'
      apply fileLoop_good tbl files stdin d l more
      · split
        · exact h1
        · exact Or.inr rfl
      · intro hne
        cases hok : (decodeFile tbl d l c).ok with
        | true =>
          rw [hok] at hne
          simp only [if_true] at hne
          simp [h2 hne]
        | false => simp [decode_diag tbl d l c hok]
    rw [basicMain.fileLoop]
    split
    · split
      · exact ⟨rfl, h1, h2⟩
      · exact step stdin true
    · split
      · exact fileLoop_good tbl files stdin d l more _ _ _ _ (Or.inr rfl) (fun _ => rfl)
      · exact step _ su

theorem main_good (tbl : Array (Array (Array Tok))) (names : List (String × Nat))
    (files : Bytes → Option Bytes) (stdin : Bytes) (argv : List Bytes) :
    Good (basicMain tbl names files stdin argv) := by
  unfold basicMain
  generalize bgetopt (argv.length + 1) argv [] = r
  obtain ⟨opts, rest⟩ := r
  simp only
  cases dialectByName names (strBytes "6502") with
  | none => simp [Good]
  | some d0 =>
    simp only
    cases ho : basicMain.optLoop names opts d0 7 [] with
    | error r => exact optLoop_good names opts d0 7 [] r ho
    | ok v =>
      obtain ⟨d, l, o⟩ := v
      simp only
      split
      · simp [Good]
      · exact fileLoop_good tbl files stdin d l rest false [] false 0 (Or.inl rfl) (fun h => absurd rfl h)

theorem main_no_crash (tbl : Array (Array (Array Tok))) (names : List (String × Nat))
    (files : Bytes → Option Bytes) (stdin : Bytes) (argv : List Bytes) :
    (basicMain tbl names files stdin argv).crash = none :=
  (main_good tbl names files stdin argv).1

theorem main_exit (tbl : Array (Array (Array Tok))) (names : List (String × Nat))
    (files : Bytes → Option Bytes) (stdin : Bytes) (argv : List Bytes) :
    (basicMain tbl names files stdin argv).exit = 0 ∨ (basicMain tbl names files stdin argv).exit = 1 :=
  (main_good tbl names files stdin argv).2.1

theorem main_diag (tbl : Array (Array (Array Tok))) (names : List (String × Nat))
    (files : Bytes → Option Bytes) (stdin : Bytes) (argv : List Bytes)
    (h : (basicMain tbl names files stdin argv).exit ≠ 0) :
    (basicMain tbl names files stdin argv).err = true :=
  (main_good tbl names files stdin argv).2.2 h

/-! ### independence of input files -/

theorem fileLoop_indep (tbl : Array (Array (Array Tok))) (files : Bytes → Option Bytes) (stdin : Bytes) (d l : Nat) :
    ∀ (inputs : List Bytes) (su : Bool) (out : List Bytes) (err : Bool) (ex : Nat),
      (∀ n ∈ inputs, n ≠ [45]) → (∀ n ∈ inputs, (files n).isSome) →
      (basicMain.fileLoop tbl files stdin d l inputs su out err ex).out =
          out.reverse.flatten ++ (inputs.map (fun n => (decodeFile tbl d l ((files n).getD [])).out)).flatten ∧
      (basicMain.fileLoop tbl files stdin d l inputs su out err ex).exit =
          (if inputs.all (fun n => (decodeFile tbl d l ((files n).getD [])).ok) then ex else 1)
  | [], su, out, err, ex, _, _ => by simp [basicMain.fileLoop]
  | name :: more, su, out, err, ex, h1, h2 => by
    have hn : name ≠ [45] := h1 name (by simp)
    have hs := h2 name (by simp)
    obtain ⟨c, hc⟩ := Option.isSome_iff_exists.mp hs
    have ih := fileLoop_indep tbl files stdin d l more su ((decodeFile tbl d l c).out :: out)
      (err || (decodeFile tbl d l c).err) (if (decodeFile tbl d l c).ok then ex else 1)
      (fun n hn => h1 n (by simp [hn])) (fun n hn => h2 n (by simp [hn]))
    rw [basicMain.fileLoop]
    simp only [hn, beq_iff_eq, if_false, hc]
    refine ⟨?_, ?_⟩
    · rw [ih.1]; simp [hc]
    · rw [ih.2]
      cases hok : (decodeFile tbl d l c).ok <;> simp [hc, hok]

theorem files_independent (tbl : Array (Array (Array Tok)))
    (files : Bytes → Option Bytes) (stdin : Bytes) (d l : Nat) (inputs : List Bytes)
    (hnostdin : ∀ n ∈ inputs, n ≠ [45]) (hopen : ∀ n ∈ inputs, (files n).isSome) :
    (basicMain.fileLoop tbl files stdin d l inputs false [] false 0).out =
        (inputs.map (fun n => (decodeFile tbl d l ((files n).getD [])).out)).flatten ∧
    (basicMain.fileLoop tbl files stdin d l inputs false [] false 0).exit =
        (if inputs.all (fun n => (decodeFile tbl d l ((files n).getD [])).ok) then 0 else 1) := by
  have := fileLoop_indep tbl files stdin d l inputs false [] false 0 hnostdin hopen
  simpa using this

/-! ### framing and token errors -/

theorem bad_start (m : XMap) (listo c : Nat) (rest : Bytes) (hc : c ≠ 0x0D) :
    (decodeBE m listo ((c :: rest).length + 2) (c :: rest) true false 0 []).ok = false ∧
    (decodeBE m listo ((c :: rest).length + 2) (c :: rest) true false 0 []).out = [] := by
  rw [decodeBE.eq_def]
  simp [hc]

theorem short_length_BE (m : XMap) (listo hi lo len : Nat) (rest : Bytes) (hh : hi ≠ 0xFF) (hl : len < 4) :
    (decodeBE m listo (rest.length + 6) (0x0D :: hi :: lo :: len :: rest) true false 0 []).ok = false := by
  rw [decodeBE.eq_def]
  simp [hh, hl]

theorem short_length_LE (m : XMap) (listo len : Nat) (rest : Bytes) (h0 : len ≠ 0) (hl : len < 3) :
    (decodeLE m listo (rest.length + 3) (len :: rest) true 0 []).ok = false := by
  rw [decodeLE.eq_def]
  simp [h0, hl]

theorem missing_terminator (m : XMap) (listo len lo hi : Nat) (rest : Bytes)
    (hlen : 4 ≤ len) (hfit : len - 3 ≤ rest.length) (hterm : rest.getD (len - 4) 0 ≠ 0x0D) :
    (decodeLE m listo (rest.length + 5) (len :: lo :: hi :: rest) true 0 []).ok = false := by
  rw [decodeLE.eq_def]
  have e0 : len ≠ 0 := by omega
  have e1 : ¬ len < 3 := by omega
  have e2 : ¬ rest.length < len - 3 := by omega
  have e3 : len - 3 - 1 = len - 4 := by omega
  have e4 : 0 < len - 3 := by omega
  rw [List.getD_eq_getElem?_getD] at hterm
  simp [e0, e1, e2, e3, e4, hterm]

theorem token_errors (m : XMap) (uch : Nat) (rest : Bytes) :
    (look m.base uch = .invalid → handleToken m uch rest = none) ∧
    (look m.base uch = .fastvar → handleToken m uch rest = none) ∧
    (look m.base uch = .lineNum → rest.length < 3 → handleToken m uch rest = none) ∧
    (look m.base uch = .ext → rest = [] → handleToken m uch rest = none) ∧
    (look m.base uch = .pdp → rest = [] → handleToken m uch rest = none) ∧
    (look m.base uch = .ext → ∀ x r, rest = x :: r →
        (look (if uch == 0xC6 then m.c6 else if uch == 0xC7 then m.c7 else m.c8) x = .invalid) → handleToken m uch rest = none) := by
  refine ⟨?_, ?_, ?_, ?_, ?_, ?_⟩
  · intro h; simp [handleToken, h]
  · intro h; simp [handleToken, h]
  · intro h hl
    match rest, hl with
    | [], _ => simp [handleToken, h]
    | [_], _ => simp [handleToken, h]
    | [_, _], _ => simp [handleToken, h]
    | _ :: _ :: _ :: _, hl => simp at hl; omega
  · intro h hr; subst hr
    simp only [handleToken, h]
    split <;> first | rfl | simp_all
  · intro h hr; subst hr
    simp [handleToken, h]
  · intro h x r hr hx; subst hr
    simp only [handleToken, h]
    by_cases h6 : uch = 0xC6
    · subst h6; simp at hx; simp [hx]
    · by_cases h7 : uch = 0xC7
      · subst h7; simp at hx; simp [hx]
      · by_cases h8 : uch = 0xC8
        · subst h8; simp at hx; simp [hx]
        · simp [h6, h7, h8]

theorem line_fails (m : XMap) (uch : Nat) (rest acc : Bytes) (fuel : Nat)
    (h0 : uch ≠ 0) (h : handleToken m uch rest = none) :
    lineLoop m (fuel + 1) (uch :: rest) false acc = (false, acc) := by
  simp [lineLoop, h0, h]

/-! ### truncated programs -/

theorem prefix_append_cases {α : Type} (t a r : List α) (h : t <+: a ++ r) :
    t.length < a.length ∨ ∃ t', t = a ++ t' ∧ t' <+: r := by
  obtain ⟨s, hs⟩ := h
  rcases List.append_eq_append_iff.mp hs with ⟨a', ha, hs'⟩ | ⟨c', hc, hr⟩
  · by_cases hl : t.length < a.length
    · exact Or.inl hl
    · right
      have : a'.length = 0 := by
        have := congrArg List.length ha
        simp at this; omega
      have ha' : a' = [] := List.length_eq_zero_iff.mp this
      subst ha'
      exact ⟨[], by simpa using ha.symm, List.nil_prefix⟩
  · exact Or.inr ⟨c', hc, ⟨s, hr.symm⟩⟩

/-- a cut anywhere inside a big-endian line (header or body) is a premature EOF
    and prints nothing of that line -/
theorem decodeBE_short (m : XMap) (listo fuel hi lo n : Nat) (t x : Bytes) (empty : Bool) (indent : Int)
    (out : List Bytes) (hhi : hi ≠ 0xFF) (ht : t <+: 0x0D :: hi :: lo :: (n + 4) :: x) (hlen : t.length < n + 4)
    (he : empty = true → t ≠ []) :
    decodeBE m listo fuel t empty false indent out = { ok := false, out := out.reverse.flatten, err := true } := by
  cases fuel with
  | zero => simp [decodeBE]
  | succ fuel =>
    match t, ht, hlen, he with
    | [], _, _, he =>
      have : empty = false := by cases empty <;> simp_all
      subst this
      simp [decodeBE]
    | [c], ht, _, _ =>
      simp only [List.cons_prefix_cons] at ht
      obtain ⟨rfl, _⟩ := ht
      simp [decodeBE]
    | [c, h], ht, _, _ =>
      simp only [List.cons_prefix_cons] at ht
      obtain ⟨rfl, rfl, _⟩ := ht
      simp [decodeBE, hhi]
    | [c, h, l], ht, _, _ =>
      simp only [List.cons_prefix_cons] at ht
      obtain ⟨rfl, rfl, rfl, _⟩ := ht
      simp [decodeBE, hhi]
    | c :: h :: l :: len :: t4, ht, hlen, _ =>
      simp only [List.cons_prefix_cons] at ht
      obtain ⟨rfl, rfl, rfl, rfl, _⟩ := ht
      have h4 : t4.length < n := by simp at hlen; omega
      rw [decodeBE.eq_def]
      simp [hhi, h4]

theorem encodeBE_cons' (l : Line) (p : Program) :
    encodeBE (l :: p) = (0x0D :: (l.num / 256) :: (l.num % 256) :: ((encodeItems l.items).length + 4) ::
      encodeItems l.items) ++ encodeBE p := by
  rw [encodeBE_cons]; rfl

theorem trunc_BE (m : XMap) (hok : mapOK m = true) (pdp : Bool) (listo : Nat) :
    ∀ (p : Program), ProgramWF (tOf m) pdp 65280 p →
      ∀ (b : Bytes) (fuel : Nat) (empty : Bool) (indent : Int) (out : List Bytes),
      b <+: encodeBE p → b.length < (encodeBE p).length → (empty = true → b ≠ []) →
      ∃ pre, pre <+: renderFrom (tOf m) listo indent p ∧
        decodeBE m listo fuel b empty false indent out =
          { ok := false, out := out.reverse.flatten ++ pre, err := true }
  | [], _, b, fuel, empty, indent, out, hpre, hlt, he => by
    refine ⟨[], List.nil_prefix, ?_⟩
    rw [List.append_nil]
    rw [encodeBE_nil] at hpre hlt
    cases fuel with
    | zero => simp [decodeBE]
    | succ fuel =>
      match b, hpre, hlt, he with
      | [], _, _, he =>
        have : empty = false := by cases empty <;> simp_all
        subst this
        simp [decodeBE]
      | [c], hpre, _, _ =>
        simp only [List.cons_prefix_cons] at hpre
        obtain ⟨rfl, _⟩ := hpre
        simp [decodeBE]
      | _ :: _ :: _, _, hlt, _ => simp at hlt; omega
  | l :: p, h, b, fuel, empty, indent, out, hpre, hlt, he => by
    obtain ⟨hnum, _, hitems⟩ := h l (by simp)
    have hp : ProgramWF (tOf m) pdp 65280 p := fun l' hl' => h l' (by simp [hl'])
    have hhi : l.num / 256 ≠ 0xFF := by omega
    rw [encodeBE_cons'] at hpre hlt
    rcases prefix_append_cases _ _ _ hpre with hs | ⟨t', rfl, ht'⟩
    · refine ⟨[], List.nil_prefix, ?_⟩
      rw [List.append_nil]
      refine decodeBE_short m listo fuel (l.num / 256) (l.num % 256) (encodeItems l.items).length b
        (encodeItems l.items ++ encodeBE p) empty indent out hhi ?_ (by simpa using hs) he
      rw [List.cons_append, List.cons_append, List.cons_append, List.cons_append] at hpre
      exact hpre
    · have hlt' : t'.length < (encodeBE p).length := by
        simp only [List.length_append] at hlt; omega
      cases fuel with
      | zero =>
        exact ⟨[], List.nil_prefix, by simp [decodeBE]⟩
      | succ fuel =>
        have hline := decodeLine_items m hok pdp listo (l.num / 256) (l.num % 256) l.items hitems indent
        have hn : 256 * (l.num / 256) + l.num % 256 = l.num := Nat.div_add_mod _ _
        rw [hn] at hline
        obtain ⟨pre, hpp, hdec⟩ := trunc_BE m hok pdp listo p hp t' fuel false
          (renderLine (tOf m) listo indent l).2 ((renderLine (tOf m) listo indent l).1 :: out)
          ht' hlt' (fun h => Bool.noConfusion h)
        refine ⟨(renderLine (tOf m) listo indent l).1 ++ pre, ?_, ?_⟩
        · simp only [renderFrom]
          exact (List.prefix_append_right_inj _).mpr hpp
        · rw [List.cons_append, List.cons_append, List.cons_append, List.cons_append,
            decodeBE_line m listo fuel _ _ _ _ empty indent out _ _ hhi hline, hdec]
          simp

theorem truncation_BE (d listo : Nat) (p : Program) (b : Bytes)
    (hd : d = 0 ∨ d = 2 ∨ d = 4 ∨ d = 5)
    (hp : ProgramWF (tOf (xmapOf tokTable d)) (d == 5) 65280 p)
    (hpre : b <+: encodeBE p) (hne : b ≠ []) (hlt : b.length < (encodeBE p).length) :
    (decodeFile tokTable d listo b).ok = false ∧ (decodeFile tokTable d listo b).err = true ∧
    (decodeFile tokTable d listo b).out <+: render (tOf (xmapOf tokTable d)) listo p := by
  have hb : bigEndian d = true := by rcases hd with rfl | rfl | rfl | rfl <;> rfl
  have hok := mapOK_real d (by omega)
  obtain ⟨pre, hpp, hdec⟩ := trunc_BE (xmapOf tokTable d) hok (d == 5) listo p hp b (b.length + 2) true 0 []
    hpre hlt (fun _ => hne)
  simp only [decodeFile, hb, if_true, hdec]
  exact ⟨trivial, trivial, by simpa [render] using hpp⟩

/-- a cut anywhere inside a little-endian line (header, body or before the
    terminator) is a premature EOF and prints nothing of that line -/
theorem decodeLE_short (m : XMap) (listo fuel hi lo n : Nat) (t x : Bytes) (empty : Bool) (indent : Int)
    (out : List Bytes) (ht : t <+: (n + 4) :: lo :: hi :: x) (hlen : t.length < n + 4)
    (he : empty = true → t ≠ []) :
    decodeLE m listo fuel t empty indent out = { ok := false, out := out.reverse.flatten, err := true } := by
  cases fuel with
  | zero => simp [decodeLE]
  | succ fuel =>
    match t, ht, hlen, he with
    | [], _, _, he =>
      have : empty = false := by cases empty <;> simp_all
      subst this
      simp [decodeLE]
    | [c], ht, _, _ =>
      simp only [List.cons_prefix_cons] at ht
      obtain ⟨rfl, _⟩ := ht
      rw [decodeLE.eq_def]
      simp
    | [c, l], ht, _, _ =>
      simp only [List.cons_prefix_cons] at ht
      obtain ⟨rfl, rfl, _⟩ := ht
      rw [decodeLE.eq_def]
      simp
    | c :: l :: h :: t3, ht, hlen, _ =>
      simp only [List.cons_prefix_cons] at ht
      obtain ⟨rfl, rfl, rfl, _⟩ := ht
      have h3 : t3.length < n + 1 := by simp at hlen; omega
      have e1 : n + 4 - 3 = n + 1 := by omega
      rw [decodeLE.eq_def]
      simp [e1, h3]

theorem encodeLE_cons' (l : Line) (p : Program) :
    encodeLE (l :: p) = (((encodeItems l.items).length + 4) :: (l.num % 256) :: (l.num / 256) ::
      (encodeItems l.items ++ [0x0D])) ++ encodeLE p := by
  rw [encodeLE_cons]; simp

theorem trunc_LE (m : XMap) (hok : mapOK m = true) (pdp : Bool) (listo : Nat) :
    ∀ (p : Program), ProgramWF (tOf m) pdp 65536 p →
      ∀ (b : Bytes) (fuel : Nat) (empty : Bool) (indent : Int) (out : List Bytes),
      b <+: encodeLE p → b.length < (encodeLE p).length → (empty = true → b ≠ []) →
      ∃ pre, pre <+: renderFrom (tOf m) listo indent p ∧
        decodeLE m listo fuel b empty indent out =
          { ok := false, out := out.reverse.flatten ++ pre, err := true }
  | [], _, b, fuel, empty, indent, out, hpre, hlt, he => by
    refine ⟨[], List.nil_prefix, ?_⟩
    rw [List.append_nil]
    rw [encodeLE_nil] at hpre hlt
    cases fuel with
    | zero => simp [decodeLE]
    | succ fuel =>
      match b, hpre, hlt, he with
      | [], _, _, he =>
        have : empty = false := by cases empty <;> simp_all
        subst this
        simp [decodeLE]
      | [c], hpre, _, _ =>
        simp only [List.cons_prefix_cons] at hpre
        obtain ⟨rfl, _⟩ := hpre
        simp [decodeLE]
      | [c, c2], hpre, _, _ =>
        simp only [List.cons_prefix_cons] at hpre
        obtain ⟨rfl, rfl, _⟩ := hpre
        simp [decodeLE]
      | _ :: _ :: _ :: _, _, hlt, _ => simp at hlt; omega
  | l :: p, h, b, fuel, empty, indent, out, hpre, hlt, he => by
    obtain ⟨_, _, hitems⟩ := h l (by simp)
    have hp : ProgramWF (tOf m) pdp 65536 p := fun l' hl' => h l' (by simp [hl'])
    rw [encodeLE_cons'] at hpre hlt
    rcases prefix_append_cases _ _ _ hpre with hs | ⟨t', rfl, ht'⟩
    · refine ⟨[], List.nil_prefix, ?_⟩
      rw [List.append_nil]
      refine decodeLE_short m listo fuel (l.num / 256) (l.num % 256) (encodeItems l.items).length b
        ((encodeItems l.items ++ [0x0D]) ++ encodeLE p) empty indent out ?_ (by simpa using hs) he
      rw [List.cons_append, List.cons_append, List.cons_append] at hpre
      exact hpre
    · have hlt' : t'.length < (encodeLE p).length := by
        simp only [List.length_append] at hlt; omega
      cases fuel with
      | zero =>
        exact ⟨[], List.nil_prefix, by simp [decodeLE]⟩
      | succ fuel =>
        have hline := decodeLine_items m hok pdp listo (l.num / 256) (l.num % 256) l.items hitems indent
        have hn : 256 * (l.num / 256) + l.num % 256 = l.num := Nat.div_add_mod _ _
        rw [hn] at hline
        obtain ⟨pre, hpp, hdec⟩ := trunc_LE m hok pdp listo p hp t' fuel false
          (renderLine (tOf m) listo indent l).2 ((renderLine (tOf m) listo indent l).1 :: out)
          ht' hlt' (fun h => Bool.noConfusion h)
        refine ⟨(renderLine (tOf m) listo indent l).1 ++ pre, ?_, ?_⟩
        · simp only [renderFrom]
          exact (List.prefix_append_right_inj _).mpr hpp
        · have e : (((encodeItems l.items).length + 4) :: (l.num % 256) :: (l.num / 256) ::
              (encodeItems l.items ++ [0x0D])) ++ t' =
              ((encodeItems l.items).length + 4) :: (l.num % 256) :: (l.num / 256) ::
                (encodeItems l.items ++ 0x0D :: t') := by simp
          rw [e, decodeLE_line m listo fuel _ _ _ _ empty indent out _ _ hline, hdec]
          simp

theorem truncation_LE (d listo : Nat) (p : Program) (b : Bytes)
    (hd : d = 1 ∨ d = 3)
    (hp : ProgramWF (tOf (xmapOf tokTable d)) false 65536 p)
    (hpre : b <+: encodeLE p) (hne : b ≠ []) (hlt : b.length < (encodeLE p).length) :
    (decodeFile tokTable d listo b).ok = false ∧ (decodeFile tokTable d listo b).err = true ∧
    (decodeFile tokTable d listo b).out <+: render (tOf (xmapOf tokTable d)) listo p := by
  have hb : bigEndian d = false := by rcases hd with rfl | rfl <;> rfl
  have hok := mapOK_real d (by omega)
  obtain ⟨pre, hpp, hdec⟩ := trunc_LE (xmapOf tokTable d) hok false listo p hp b (b.length + 2) true 0 []
    hpre hlt (fun _ => hne)
  simp only [decodeFile, hb, hdec, Bool.false_eq_true, if_false]
  exact ⟨trivial, trivial, by simpa [render] using hpp⟩

end Beeb.BasicFailL
