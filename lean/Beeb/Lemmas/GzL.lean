/-
Lemmas for Props/C10: a `.gz` suffix on an image name is transparent to the
loader choice (`loaderOf`), to the geometry hints (`candidateList`), to
`attachFile` and hence to a whole run.
-/
import Beeb.Model.Main
import Beeb.Lemmas.MainL

namespace Beeb.GzL
open Beeb Beeb.MainL

/-! ### `splitOn` -/

/-- the structural (fuel-free) form of `splitOn.go` -/
def go' (c : Nat) : Bytes → Bytes → List Bytes → List Bytes
  | [], cur, acc => (cur.reverse :: acc).reverse
  | x :: t, cur, acc => if x == c then go' c t [] (cur.reverse :: acc) else go' c t (x :: cur) acc

theorem go_eq_go' (c : Nat) (fuel : Nat) (s cur : Bytes) (acc : List Bytes) (h : s.length < fuel) :
    splitOn.go c fuel s cur acc = go' c s cur acc := by
  induction s generalizing fuel cur acc with
  | nil =>
    cases fuel with
    | zero => simp at h
    | succ f => simp [splitOn.go, go']
  | cons x t ih =>
    cases fuel with
    | zero => simp at h
    | succ f =>
      have h' : t.length < f := by simp at h; omega
      simp only [splitOn.go, go']
      split
      · exact ih _ _ _ h'
      · exact ih _ _ _ h'

theorem splitOn_eq (c : Nat) (s : Bytes) : splitOn c s = go' c s [] [] := by
  unfold splitOn
  exact go_eq_go' c _ s [] [] (Nat.lt_succ_self _)

theorem go'_acc (c : Nat) (s cur : Bytes) (acc : List Bytes) :
    go' c s cur acc = acc.reverse ++ go' c s cur [] := by
  induction s generalizing cur acc with
  | nil => simp [go']
  | cons x t ih =>
    simp only [go']
    split
    · rw [ih [] (cur.reverse :: acc), ih [] [cur.reverse]]; simp
    · exact ih _ _

theorem go'_ne_nil (c : Nat) (s cur : Bytes) (acc : List Bytes) : go' c s cur acc ≠ [] := by
  induction s generalizing cur acc with
  | nil => simp [go']
  | cons x t ih =>
    simp only [go']
    split
    · exact ih _ _
    · exact ih _ _

/-- splitting at a separator: the components before it, then the components after it -/
theorem go'_append_sep (c : Nat) (s t cur : Bytes) (acc : List Bytes) :
    go' c (s ++ c :: t) cur acc = go' c s cur acc ++ go' c t [] [] := by
  induction s generalizing cur acc with
  | nil =>
    simp only [List.nil_append, go', beq_self_eq_true, if_true]
    rw [go'_acc]
  | cons x u ih =>
    simp only [List.cons_append, go']
    split
    · exact ih _ _
    · exact ih _ _

/-- no separator: one component -/
theorem go'_nosep (c : Nat) (t cur : Bytes) (acc : List Bytes) (h : ∀ x ∈ t, (x == c) = false) :
    go' c t cur acc = ((cur.reverse ++ t) :: acc).reverse := by
  induction t generalizing cur with
  | nil => simp [go']
  | cons x u ih =>
    have hx : (x == c) = false := h x (by simp)
    simp only [go', hx]
    rw [ih (x :: cur) (fun y hy => h y (by simp [hy]))]
    simp

theorem splitOn_append_gz (s : Bytes) :
    splitOn 46 (s ++ strBytes ".gz") = splitOn 46 s ++ [strBytes "gz"] := by
  have e : strBytes ".gz" = 46 :: [103, 122] := by decide
  have e' : strBytes "gz" = [103, 122] := by decide
  rw [splitOn_eq, splitOn_eq, e, e', go'_append_sep,
    go'_nosep 46 [103, 122] [] [] (by decide)]
  rfl

theorem splitOn_ne_nil (c : Nat) (s : Bytes) : splitOn c s ≠ [] := by
  rw [splitOn_eq]; exact go'_ne_nil _ _ _ _

/-! ### `loaderOf` -/

/-- the extension → loader table, with the compression flag carried along -/
def extLoader (compressed : Bool) (exts : List Bytes) : Option (Bool × Loader) :=
  match exts.getLast? with
  | none => none
  | some ext =>
    if ext == strBytes "hfe" then some (compressed, .hfe)
    else if ext == strBytes "mfm" then some (compressed, .hxcmfm)
    else if ext == strBytes "ssd" || ext == strBytes "sdd" then some (compressed, .nonInterleaved)
    else if ext == strBytes "dsd" || ext == strBytes "ddd" then some (compressed, .interleaved)
    else if ext == strBytes "mmb" then some (compressed, .mmb)
    else none

theorem loaderOf_eq (name : Bytes) :
    loaderOf name =
      match ((splitOn 46 name).drop 1).getLast? with
      | none => none
      | some last =>
        if last == strBytes "gz" then extLoader true ((splitOn 46 name).drop 1).dropLast
        else extLoader false ((splitOn 46 name).drop 1) := by
  unfold loaderOf extLoader
  simp only []
  generalize hl : ((splitOn 46 name).drop 1).getLast? = o
  cases o with
  | none => rfl
  | some last =>
    simp only []
    by_cases hg : (last == strBytes "gz") = true
    · rw [if_pos hg, if_pos hg]
      rfl
    · rw [if_neg hg, if_neg hg]
      simp only [hl]

theorem extLoader_flag (exts : List Bytes) (c c' : Bool) (ld : Loader)
    (h : extLoader c exts = some (c', ld)) : c' = c ∧ ∀ d, extLoader d exts = some (d, ld) := by
  unfold extLoader at h ⊢
  cases hl : exts.getLast? with
  | none => rw [hl] at h; simp at h
  | some ext =>
    rw [hl] at h
    simp only [] at h ⊢
    repeat' split at h
    all_goals first
      | (simp only [Option.some.injEq, Prod.mk.injEq] at h
         obtain ⟨h1, h2⟩ := h
         subst h1 h2
         refine ⟨rfl, fun d => ?_⟩
         simp [*])
      | simp at h

/-- an uncompressed name: its last extension is not `gz` -/
theorem loaderOf_false (name : Bytes) (ld : Loader) (h : loaderOf name = some (false, ld)) :
    ((splitOn 46 name).drop 1).getLast? ≠ some (strBytes "gz") ∧
    extLoader false ((splitOn 46 name).drop 1) = some (false, ld) := by
  rw [loaderOf_eq] at h
  cases hl : ((splitOn 46 name).drop 1).getLast? with
  | none => rw [hl] at h; simp at h
  | some last =>
    rw [hl] at h
    simp only [] at h
    split at h
    · rename_i hg
      have := (extLoader_flag _ _ _ _ h).1
      simp at this
    · rename_i hg
      refine ⟨?_, h⟩
      intro e
      simp only [Option.some.injEq] at e
      subst e
      simp at hg

theorem drop1_append (l : List Bytes) (x : Bytes) (h : l ≠ []) :
    (l ++ [x]).drop 1 = l.drop 1 ++ [x] := by
  cases l with
  | nil => exact (h rfl).elim
  | cons a t => simp

theorem loaderOf_gz (name : Bytes) (ld : Loader) (h : loaderOf name = some (false, ld)) :
    loaderOf (name ++ strBytes ".gz") = some (true, ld) := by
  obtain ⟨_, h2⟩ := loaderOf_false name ld h
  rw [loaderOf_eq, splitOn_append_gz, drop1_append _ _ (splitOn_ne_nil _ _)]
  simp only [List.getLast?_append, List.getLast?_singleton, List.dropLast_concat]
  exact (extLoader_flag _ _ _ _ h2).2 true

/-! ### the name hints -/

theorem toNat_ofNat (n : Nat) : (Char.ofNat n).toNat = if n.isValidChar then n else 0 := by
  unfold Char.ofNat
  split
  · rfl
  · rfl

theorem ofNat_eq_iff (n m : Nat) (hm : m.isValidChar) (h0 : m ≠ 0) :
    Char.ofNat n = Char.ofNat m ↔ n = m := by
  constructor
  · intro h
    have h' := congrArg Char.toNat h
    by_cases hn : n.isValidChar
    · rw [toNat_ofNat, toNat_ofNat, if_pos hn, if_pos hm] at h'
      exact h'
    · rw [toNat_ofNat, toNat_ofNat, if_neg hn, if_pos hm] at h'
      exact (h0 h'.symm).elim
  · intro h; rw [h]

theorem gzChars : (".gz" : String).toList = [Char.ofNat 46, Char.ofNat 103, Char.ofNat 122] := by decide

theorem gzBytes : strBytes ".gz" = [46, 103, 122] := by decide

/-- `[.,g,z]` is a suffix of the characters iff `[46,103,122]` is a suffix of the bytes -/
theorem suffix_map_iff (name : Bytes) :
    [Char.ofNat 46, Char.ofNat 103, Char.ofNat 122] <:+ name.map Char.ofNat ↔ [46, 103, 122] <:+ name := by
  constructor
  · rintro ⟨p, hp⟩
    have hlen : 3 ≤ name.length := by
      have := congrArg List.length hp
      simp at this; omega
    refine ⟨name.take (name.length - 3), ?_⟩
    have hsplit : name = name.take (name.length - 3) ++ name.drop (name.length - 3) :=
      (List.take_append_drop _ _).symm
    have hd : (name.drop (name.length - 3)).map Char.ofNat = [Char.ofNat 46, Char.ofNat 103, Char.ofNat 122] := by
      rw [List.map_drop, ← hp]
      have : (List.map Char.ofNat name).length - 3 = p.length := by
        have := congrArg List.length hp
        simp at this; simp; omega
      simp only [List.length_map] at this
      rw [this]; simp
    have hdl : (name.drop (name.length - 3)).length = 3 := by simp; omega
    generalize name.drop (name.length - 3) = d at hd hdl hsplit
    match d, hdl with
    | [a, b, c], _ =>
      simp only [List.map_cons, List.map_nil, List.cons.injEq, and_true] at hd
      obtain ⟨ha, hb, hc⟩ := hd
      rw [ofNat_eq_iff _ _ (by decide) (by decide)] at ha hb hc
      subst ha hb hc
      exact hsplit.symm
  · rintro ⟨p, rfl⟩
    exact ⟨p.map Char.ofNat, by simp⟩

theorem endsWith_gz_iff (name : Bytes) :
    endsWith (bytesToString name) ".gz" = true ↔ [46, 103, 122] <:+ name := by
  unfold endsWith bytesToString
  rw [List.isSuffixOf_iff_suffix, gzChars, String.toList_ofList]
  exact suffix_map_iff name

theorem bytesToString_append (a b : Bytes) :
    bytesToString (a ++ b) = bytesToString a ++ bytesToString b := by
  unfold bytesToString
  rw [List.map_append, ← String.toList_inj, String.toList_append]
  simp [String.toList_ofList]

/-- stripping the suffix that was just appended -/
theorem stripGz_append (s : String) : stripGz (s ++ ".gz") = s := by
  unfold stripGz endsWith
  have h : (".gz" : String).toList.isSuffixOf (s ++ ".gz").toList = true := by
    rw [List.isSuffixOf_iff_suffix, String.toList_append]
    exact List.suffix_append _ _
  rw [if_pos h, String.toList_append]
  have : (".gz" : String).toList.length = 3 := by decide
  rw [List.length_append, this, Nat.add_sub_cancel, List.take_left', String.ofList_toList]
  rfl

theorem stripGz_of_not (s : String) (h : endsWith s ".gz" = false) : stripGz s = s := by
  unfold stripGz; rw [h]; rfl

theorem bytesToString_gz : bytesToString (strBytes ".gz") = ".gz" := by decide

/-- a name whose loader is chosen without decompression does not end in `.gz` -/
theorem not_endsWith_of_loader (name : Bytes) (ld : Loader) (h : loaderOf name = some (false, ld)) :
    endsWith (bytesToString name) ".gz" = false := by
  cases hb : endsWith (bytesToString name) ".gz" with
  | false => rfl
  | true =>
    exfalso
    obtain ⟨p, rfl⟩ := (endsWith_gz_iff name).1 hb
    obtain ⟨h1, _⟩ := loaderOf_false _ ld h
    apply h1
    rw [← gzBytes, splitOn_append_gz, drop1_append _ _ (splitOn_ne_nil _ _)]
    simp

theorem stripGz_gz (name : Bytes) (ld : Loader) (h : loaderOf name = some (false, ld)) :
    stripGz (bytesToString (name ++ strBytes ".gz")) = stripGz (bytesToString name) := by
  rw [bytesToString_append, bytesToString_gz, stripGz_append,
    stripGz_of_not _ (not_endsWith_of_loader name ld h)]

theorem candidateList_stripGz (a b : String) (h : stripGz a = stripGz b) :
    candidateList a = candidateList b := by
  unfold candidateList
  rw [h]

theorem candidateList_gz (name : Bytes) (ld : Loader) (h : loaderOf name = some (false, ld)) :
    candidateList (bytesToString (name ++ strBytes ".gz")) = candidateList (bytesToString name) :=
  candidateList_stripGz _ _ (stripGz_gz name ld h)

/-- C10_hints, on `String` with the core `String.endsWith` -/
theorem hints_gz (name : String) (h : name.endsWith ".gz" = false) :
    candidateList (name ++ ".gz") = candidateList name := by
  apply candidateList_stripGz
  have h' : endsWith name ".gz" = false := by
    unfold String.endsWith at h
    rw [String.Slice.endsWith_string_eq_false_iff, String.copy_toSlice] at h
    unfold endsWith
    cases hb : (".gz" : String).toList.isSuffixOf name.toList with
    | false => rfl
    | true => exact (h (List.isSuffixOf_iff_suffix.1 hb)).elim
  rw [stripGz_append, stripGz_of_not _ h']

/-! ### `attachFile` and the run -/

theorem imageViews_gz (name : Bytes) (ld ld' : Loader) (hf : HostFile) (m : Media) (nd : Bool)
    (h : loaderOf name = some (false, ld')) :
    imageViews (name ++ strBytes ".gz") hf m ld nd = imageViews name hf m ld nd := by
  cases ld <;> simp only [imageViews, identifyImage, candidateList_gz name ld' h]

/-- the state with another list of image names -/
def setImages (im : List Bytes) (st : MainState) : MainState := { st with images := im }

/-- attaching `name.gz` gives what attaching `name` gives, except for the recorded name -/
theorem attach_gz_core (fs : HostFs) (nd : Bool) (name : Bytes) (ld : Loader) (st : MainState)
    (hname : loaderOf name = some (false, ld))
    (hsame : fs (name ++ strBytes ".gz") = fs name) :
    attachFile fs nd (name ++ strBytes ".gz") st =
      (attachFile fs nd name st).map (setImages (st.images ++ [name ++ strBytes ".gz"])) := by
  unfold attachFile
  rw [loaderOf_gz name ld hname, hname, hsame]
  simp only [imageViews_gz name ld ld _ _ nd hname]
  split
  · rfl
  · rfl
  · split
    · rfl
    · rfl
    · rfl
    · split
      · rfl
      · split
        · rfl
        · rfl
    · split
      · rfl
      · split
        · rfl
        · rfl

theorem attach_gz (fs : HostFs) (nd : Bool) (name : Bytes) (ld : Loader) (st : MainState)
    (hname : loaderOf name = some (false, ld))
    (hsame : fs (name ++ strBytes ".gz") = fs name) :
    (attachFile fs nd (name ++ strBytes ".gz") st).map (fun st => { st with images := [] }) =
      (attachFile fs nd name st).map (fun st => { st with images := [] }) ∧
    ∀ st1 st2, attachFile fs nd (name ++ strBytes ".gz") st = .ok st1 → attachFile fs nd name st = .ok st2 →
      st1.images = st.images ++ [name ++ strBytes ".gz"] ∧ st2.images = st.images ++ [name] := by
  refine ⟨?_, fun st1 st2 h1 h2 =>
    ⟨Beeb.FsL.attachFile_images _ _ _ _ _ h1, Beeb.FsL.attachFile_images _ _ _ _ _ h2⟩⟩
  rw [attach_gz_core fs nd name ld st hname hsame]
  cases attachFile fs nd name st <;> rfl

/-! ### states that agree except for the image names -/

/-- states agree except for `images` -/
def SimI (a b : MainState) : Prop :=
  a.storage = b.storage ∧ a.medias = b.medias ∧ a.ctx = b.ctx ∧ a.policy = b.policy ∧
  a.showConfig = b.showConfig ∧ a.verbose = b.verbose

/-- two lists of names have the same members, apart from `x` and `y` -/
def AgreeOff (x y : Bytes) (l1 l2 : List Bytes) : Prop :=
  ∀ p, p ≠ x → p ≠ y → l1.contains p = l2.contains p

theorem AgreeOff.snoc {x y : Bytes} {l1 l2 : List Bytes} (h : AgreeOff x y l1 l2) (a : Bytes) :
    AgreeOff x y (l1 ++ [a]) (l2 ++ [a]) := by
  intro p hx hy
  have := h p hx hy
  simp only [List.contains_eq_mem, List.mem_append, List.mem_singleton] at this ⊢
  simp only [decide_eq_decide] at this ⊢
  rw [this]

theorem AgreeOff.start (x y : Bytes) (l : List Bytes) : AgreeOff x y (l ++ [x]) (l ++ [y]) := by
  intro p hx hy
  simp [hx, hy]

def RelR (x y : Bytes) : Except RunRes MainState → Except RunRes MainState → Prop
  | .error a, .error b => a = b
  | .ok a, .ok b => SimI a b ∧ AgreeOff x y a.images b.images
  | _, _ => False

theorem attachFile_rel (fs : HostFs) (nd : Bool) (arg x y : Bytes) (st st' : MainState)
    (h : SimI st st') (hi : AgreeOff x y st.images st'.images) :
    RelR x y (attachFile fs nd arg st) (attachFile fs nd arg st') := by
  obtain ⟨s, ms, ctx, pol, sc, v, im⟩ := st
  obtain ⟨s', ms', ctx', pol', sc', v', im'⟩ := st'
  obtain ⟨h1, h2, h3, h4, h5, h6⟩ := h
  simp only at h1 h2 h3 h4 h5 h6 hi
  subst h1 h2 h3 h4 h5 h6
  unfold attachFile
  split
  · simp [RelR]
  · split
    · simp [RelR]
    · simp [RelR]
    · simp only []
      split
      · simp [RelR]
      · simp [RelR]
      · simp [RelR]
      · split
        · simp [RelR]
        · split
          · simp [RelR]
          · exact ⟨⟨rfl, rfl, rfl, rfl, rfl, rfl⟩, hi.snoc arg⟩
      · split
        · simp [RelR]
        · split
          · simp [RelR]
          · exact ⟨⟨rfl, rfl, rfl, rfl, rfl, rfl⟩, hi.snoc arg⟩

theorem optLoop_rel (fs : HostFs) (nd : Bool) (x y : Bytes) (opts : List Opt) (st st' : MainState)
    (h : SimI st st') (hi : AgreeOff x y st.images st'.images) :
    RelR x y (optLoop fs nd opts st) (optLoop fs nd opts st') := by
  induction opts generalizing st st' with
  | nil => simpa [optLoop, RelR] using ⟨h, hi⟩
  | cons o more ih =>
    obtain ⟨h1, h2, h3, h4, h5, h6⟩ := h
    cases o with
    | bad => simp [optLoop, RelR]
    | opt o arg =>
      cases o with
      | file =>
        simp only [optLoop]
        have := attachFile_rel fs nd arg x y st st' ⟨h1, h2, h3, h4, h5, h6⟩ hi
        revert this
        cases attachFile fs nd arg st <;> cases attachFile fs nd arg st' <;> simp only [RelR] <;> intro h
        · exact h
        · exact h.elim
        · exact h.elim
        · exact ih _ _ h.1 h.2
      | dir =>
        simp only [optLoop]
        split
        · simp [RelR]
        · exact ih _ _ ⟨h1, h2, by simp [h3], h4, h5, h6⟩ hi
      | drive =>
        simp only [optLoop]
        split
        · simp [RelR]
        · split
          · simp [RelR]
          · exact ih _ _ ⟨h1, h2, by simp [h3], h4, h5, h6⟩ hi
      | driveFirst => simp only [optLoop]; exact ih _ _ ⟨h1, h2, h3, rfl, h5, h6⟩ hi
      | drivePhysical => simp only [optLoop]; exact ih _ _ ⟨h1, h2, h3, rfl, h5, h6⟩ hi
      | showConfig => simp only [optLoop]; exact ih _ _ ⟨h1, h2, h3, h4, rfl, h6⟩ hi
      | ui =>
        simp only [optLoop]
        split
        · simp [RelR]
        · exact ih _ _ ⟨h1, h2, by simp [h3], h4, h5, h6⟩ hi
      | verbose => simp only [optLoop]; exact ih _ _ ⟨h1, h2, h3, h4, h5, rfl⟩ hi
      | help => simp [optLoop, RelR]

/-! ### the commands and the image names -/

/-- the environment with another list of image names -/
def imgEnv (env : Env) (im : List Bytes) : Env := { env with images := im }

theorem mount_img (env : Env) (im s) : (imgEnv env im).mount s = env.mount s := rfl
theorem info_img (env : Env) (im a) : cmdInfo (imgEnv env im) a = cmdInfo env a := rfl
theorem cat_img (env : Env) (im a) : cmdCat (imgEnv env im) a = cmdCat env a := rfl
theorem type_img (env : Env) (im a) : cmdType (imgEnv env im) a = cmdType env a := rfl
theorem list_img (env : Env) (im a) : cmdList (imgEnv env im) a = cmdList env a := rfl
theorem dump_img (env : Env) (im a) : cmdDump (imgEnv env im) a = cmdDump env a := rfl
theorem dumpSector_img (env : Env) (im a) : cmdDumpSector (imgEnv env im) a = cmdDumpSector env a := rfl
theorem free_img (env : Env) (im a) : cmdFree (imgEnv env im) a = cmdFree env a := rfl
theorem sectorMap_img (env : Env) (im a) : cmdSectorMap (imgEnv env im) a = cmdSectorMap env a := rfl

theorem spaceGo_img (env : Env) (im sels l out free) :
    spaceRun.go (imgEnv env im) sels l out free = spaceRun.go env sels l out free := by
  induction l generalizing out free with
  | nil => simp [spaceRun.go]
  | cons sel rest ih =>
    simp only [spaceRun.go, mount_img]
    split <;> try rfl
    split <;> try rfl
    exact ih _ _

theorem space_img (env : Env) (im a) : cmdSpace (imgEnv env im) a = cmdSpace env a := by
  unfold cmdSpace spaceRun
  simp only [spaceGo_img]
  rfl

theorem showTitle_img (env : Env) (im d) : showTitle (imgEnv env im) d = showTitle env d := rfl

theorem showTitlesGo_img (env : Env) (im l ok out) :
    cmdShowTitles.go (imgEnv env im) l ok out = cmdShowTitles.go env l ok out := by
  induction l generalizing ok out with
  | nil => simp [cmdShowTitles.go]
  | cons d rest ih =>
    simp only [cmdShowTitles.go, showTitle_img]
    split <;> try rfl
    exact ih _ _

theorem showTitles_img (env : Env) (im a) : cmdShowTitles (imgEnv env im) a = cmdShowTitles env a := by
  unfold cmdShowTitles
  simp only [showTitlesGo_img]
  rfl

/-- when the image names can make no difference to a command: it is not one of the extract
    commands, or the two lists agree on every path inside its destination -/
def ImagesMoot (args : List Bytes) (i1 i2 : List Bytes) : Prop :=
  (args.head? ≠ some (strBytes "extract-files") ∧ args.head? ≠ some (strBytes "extract-unused")) ∨
  ∀ a0 a, args = [a0, a] → ∀ leaf, i1.contains (destDir a ++ leaf) = i2.contains (destDir a ++ leaf)

theorem runCommand_img (env : Env) (i1 i2 : List Bytes) (args : List Bytes) (h : ImagesMoot args i1 i2) :
    runCommand (imgEnv env i1) args = runCommand (imgEnv env i2) args := by
  cases args with
  | nil => rfl
  | cons c t =>
    simp only [runCommand, info_img, cat_img, type_img, list_img, dump_img, dumpSector_img, free_img,
      space_img, sectorMap_img, showTitles_img]
    rcases h with ⟨h1, h2⟩ | h
    · have h1' : (c == strBytes "extract-files") = false := by
        simp only [List.head?_cons, ne_eq, Option.some.injEq] at h1
        simpa using h1
      have h2' : (c == strBytes "extract-unused") = false := by
        simp only [List.head?_cons, ne_eq, Option.some.injEq] at h2
        simpa using h2
      simp only [h1', h2', Bool.false_eq_true, if_false]
    · have e1 : cmdExtractFiles (imgEnv env i1) (c :: t) = cmdExtractFiles (imgEnv env i2) (c :: t) :=
        Beeb.FsL.cmdExtractFiles_agree env i1 i2 _ h
      have e2 : cmdExtractUnused (imgEnv env i1) (c :: t) = cmdExtractUnused (imgEnv env i2) (c :: t) :=
        Beeb.FsL.cmdExtractUnused_agree env i1 i2 _ h
      rw [e1, e2]

/-- the tail of `dfsRun` after the option loop -/
theorem dfsRun_of_rel (fs : HostFs) (nd : Bool) (cols : Option Nat) (o1 o2 : List Opt) (rest : List Bytes)
    (x y : Bytes)
    (h : RelR x y (optLoop fs nd o1 default) (optLoop fs nd o2 default))
    (hm : ∀ i1 i2, AgreeOff x y i1 i2 → ImagesMoot rest i1 i2) :
    dfsRun fs nd cols o1 rest = dfsRun fs nd cols o2 rest := by
  unfold dfsRun
  revert h
  cases optLoop fs nd o1 default <;> cases optLoop fs nd o2 default <;> simp only [RelR] <;> intro h
  · subst h; rfl
  · exact h.elim
  · exact h.elim
  · next a b =>
    obtain ⟨⟨h1, h2, h3, h4, h5, h6⟩, hi⟩ := h
    cases rest with
    | nil => rfl
    | cons cmd more =>
      have e : runCommand (runEnv a nd cols) (cmd :: more) = runCommand (runEnv b nd cols) (cmd :: more) := by
        have := runCommand_img (runEnv b nd cols) a.images b.images (cmd :: more) (hm _ _ hi)
        simp only [runEnv, imgEnv] at this ⊢
        rw [h1, h2, h3]
        exact this
      simp only [runEnv] at e
      simp only [e, h5, h6]

/-- the image names of the two runs are irrelevant to `rest` -/
theorem moot_of_outside (rest : List Bytes) (x y : Bytes)
    (hout : (∀ a0 a, rest = [a0, a] → ¬ (destDir a).isPrefixOf x) ∧
            (∀ a0 a, rest = [a0, a] → ¬ (destDir a).isPrefixOf y)) :
    ∀ i1 i2, AgreeOff x y i1 i2 → ImagesMoot rest i1 i2 := by
  intro i1 i2 hi
  right
  intro a0 a hr leaf
  apply hi
  · intro e
    apply hout.1 a0 a hr
    rw [← e, List.isPrefixOf_iff_prefix]
    exact List.prefix_append _ _
  · intro e
    apply hout.2 a0 a hr
    rw [← e, List.isPrefixOf_iff_prefix]
    exact List.prefix_append _ _

theorem run_gz_gen (fs : HostFs) (nd : Bool) (cols : Option Nat) (name : Bytes) (ld : Loader)
    (before after : List Opt) (rest : List Bytes)
    (hname : loaderOf name = some (false, ld))
    (hsame : fs (name ++ strBytes ".gz") = fs name)
    (hm : ∀ i1 i2, AgreeOff (name ++ strBytes ".gz") name i1 i2 → ImagesMoot rest i1 i2) :
    dfsRun fs nd cols (before ++ [Opt.opt .file (name ++ strBytes ".gz")] ++ after) rest =
    dfsRun fs nd cols (before ++ [Opt.opt .file name] ++ after) rest := by
  apply dfsRun_of_rel fs nd cols _ _ rest (name ++ strBytes ".gz") name _ hm
  rw [List.append_assoc, List.append_assoc, optLoop_append, optLoop_append fs nd before]
  cases optLoop fs nd before default with
  | error r => simp [RelR]
  | ok st' =>
    simp only [List.singleton_append, optLoop]
    rw [attach_gz_core fs nd name ld st' hname hsame]
    have hi := Beeb.FsL.attachFile_images fs nd name st'
    revert hi
    cases attachFile fs nd name st' with
    | error e => intro _; simp [RelR, Except.map]
    | ok s2 =>
      intro hi
      simp only [Except.map]
      apply optLoop_rel
      · exact ⟨rfl, rfl, rfl, rfl, rfl, rfl⟩
      · rw [hi s2 rfl]
        exact AgreeOff.start _ _ _

theorem run_gz (fs : HostFs) (nd : Bool) (cols : Option Nat) (name : Bytes) (ld : Loader)
    (before after : List Opt) (rest : List Bytes)
    (hname : loaderOf name = some (false, ld))
    (hsame : fs (name ++ strBytes ".gz") = fs name)
    (hout : (∀ a0 a, rest = [a0, a] → ¬ (destDir a).isPrefixOf name) ∧
            (∀ a0 a, rest = [a0, a] → ¬ (destDir a).isPrefixOf (name ++ strBytes ".gz"))) :
    dfsRun fs nd cols (before ++ [Opt.opt .file (name ++ strBytes ".gz")] ++ after) rest =
    dfsRun fs nd cols (before ++ [Opt.opt .file name] ++ after) rest :=
  run_gz_gen fs nd cols name ld before after rest hname hsame
    (moot_of_outside rest _ _ ⟨hout.2, hout.1⟩)

theorem run_gz_readonly (fs : HostFs) (nd : Bool) (cols : Option Nat) (name : Bytes) (ld : Loader)
    (before after : List Opt) (rest : List Bytes)
    (hname : loaderOf name = some (false, ld))
    (hsame : fs (name ++ strBytes ".gz") = fs name)
    (hcmd : rest.head? ≠ some (strBytes "extract-files") ∧ rest.head? ≠ some (strBytes "extract-unused")) :
    dfsRun fs nd cols (before ++ [Opt.opt .file (name ++ strBytes ".gz")] ++ after) rest =
    dfsRun fs nd cols (before ++ [Opt.opt .file name] ++ after) rest :=
  run_gz_gen fs nd cols name ld before after rest hname hsame (fun _ _ _ => Or.inl hcmd)

theorem attachFile_bad (fs : HostFs) (nd : Bool) (arg : Bytes) (st : MainState)
    (hbad : fs arg = HostFile.gzBad) :
    attachFile fs nd arg st = .error { err := true, exit := 1 } := by
  unfold attachFile
  cases loaderOf arg with
  | none => rfl
  | some p =>
    obtain ⟨c, ld⟩ := p
    simp only [hbad]

theorem bad_gz (fs : HostFs) (nd : Bool) (cols : Option Nat) (arg : Bytes)
    (before after : List Opt) (rest : List Bytes)
    (hbad : fs arg = HostFile.gzBad)
    (hbefore : ∃ st, optLoop fs nd before default = .ok st) :
    let r := dfsRun fs nd cols (before ++ [Opt.opt .file arg] ++ after) rest
    r.exit = 1 ∧ r.err = true ∧ r.out = [] ∧ r.files = [] ∧ r.crash = none := by
  obtain ⟨st, hst⟩ := hbefore
  have key : optLoop fs nd (before ++ [Opt.opt .file arg] ++ after) default =
      .error { err := true, exit := 1 } := by
    rw [List.append_assoc, optLoop_append, hst]
    simp only [List.singleton_append, optLoop, attachFile_bad fs nd arg st hbad]
  intro r
  have hr : r = { err := true, exit := 1 } := by
    show dfsRun fs nd cols (before ++ [Opt.opt .file arg] ++ after) rest = _
    unfold dfsRun
    rw [key]
  rw [hr]
  exact ⟨rfl, rfl, rfl, rfl, rfl⟩

end Beeb.GzL
