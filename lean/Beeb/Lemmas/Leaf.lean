/- Arithmetic characterisations of the generated catalogue leaves. -/
import Beeb.Generated.Leaf
import Beeb.Lemmas.Bits

namespace Beeb.Leaf
open Beeb.Gen Beeb.Bits

theorem metadata_word_eq (m : Nat → Nat) (hm : ∀ i, m i < 256) (o : Nat) (ho : o < 1000) :
    metadata_word m o = m o + 256 * m (o + 1) := by
  unfold metadata_word
  have h0 := hm o
  have h1 := hm (o + 1)
  rw [Nat.mod_eq_of_lt (by omega : o + 1 < 4294967296), shl_eq]
  rw [Nat.mod_eq_of_lt (by omega : m (o + 1) * 2 ^ 8 < 4294967296)]
  rw [mul_pow_or 8 _ _ (by omega)]
  omega

theorem hi2 (x s : Nat) (hx : x < 256) :
    ((C.sext 32 64 (C.asr 32 x s) &&& 3) <<< 16) % 18446744073709551616 = 65536 * (x / 2 ^ s % 4) := by
  rw [C.asr_of_lt (by omega)]
  have : x >>> s ≤ x := Nat.shiftRight_le x s
  rw [C.sext_of_lt (by omega), and_3, shl_eq, shr_eq]
  have : x / 2 ^ s % 4 < 4 := Nat.mod_lt _ (by omega)
  omega

theorem word_or_hi (w c : Nat) (hw : w < 65536) : (w ||| 65536 * c) = w + 65536 * c := by
  have := or_mul_pow 16 c w (by omega)
  rw [Nat.mul_comm] at this
  simp at this
  omega

theorem load_address_eq (m : Nat → Nat) (hm : ∀ i, m i < 256) :
    load_address m = m 0 + 256 * m 1 + 65536 * (m 6 / 4 % 4) := by
  unfold load_address metadata_byte
  simp only []
  rw [metadata_word_eq m hm 0 (by omega), hi2 _ 2 (hm 6)]
  simp only [Nat.reduceAdd, Nat.reducePow]
  have := hm 0; have := hm 1
  rw [word_or_hi _ _ (by omega)]

theorem exec_address_eq (m : Nat → Nat) (hm : ∀ i, m i < 256) :
    exec_address m = m 2 + 256 * m 3 + 65536 * (m 6 / 64 % 4) := by
  unfold exec_address metadata_byte
  rw [metadata_word_eq m hm 2 (by omega), hi2 _ 6 (hm 6)]
  simp only [Nat.reduceAdd, Nat.reducePow]
  have := hm 2; have := hm 3
  rw [word_or_hi _ _ (by omega)]

theorem file_length_eq (m : Nat → Nat) (hm : ∀ i, m i < 256) :
    file_length m = m 4 + 256 * m 5 + 65536 * (m 6 / 16 % 4) := by
  unfold file_length metadata_byte
  rw [metadata_word_eq m hm 4 (by omega), hi2 _ 4 (hm 6)]
  simp only [Nat.reduceAdd, Nat.reducePow]
  have := hm 4; have := hm 5
  rw [word_or_hi _ _ (by omega)]

theorem start_sector_eq (m : Nat → Nat) (hm : ∀ i, m i < 256) :
    start_sector m = m 7 + 256 * (m 6 % 4) := by
  unfold start_sector metadata_byte
  have := hm 7
  have h4 : m 6 % 4 < 4 := Nat.mod_lt _ (by omega)
  rw [and_3, shl_eq, Nat.mod_eq_of_lt (by omega), or_mul_pow 8 _ _ (by omega)]
  omega

theorem directory_eq (n : Nat → Nat) : directory n = n 7 % 128 := by
  unfold directory
  rw [and_127']
  omega

theorem is_locked_eq (n : Nat → Nat) (hn : ∀ i, n i < 256) : is_locked n = decide (128 ≤ n 7) := by
  unfold is_locked
  have h : (1 <<< 7) % 4294967296 = 2 ^ 7 := by decide
  rw [h, Nat.and_comm, and_pow_ne_zero, testBit_eq]
  have := hn 7
  congr 1
  apply propext
  constructor <;> intro _ <;> omega

theorem byte_to_ascii7_eq (b : Nat) : byte_to_ascii7 b = b % 128 := by
  unfold byte_to_ascii7
  rw [and_127]; omega

theorem sdiv_of_lt {w a b : Nat} (ha : a < 2 ^ (w - 1)) (hb : b < 2 ^ (w - 1)) (hw : 0 < w) :
    C.sdiv w a b = a / b := by
  unfold C.sdiv
  rw [C.toInt_of_lt ha, C.toInt_of_lt hb]
  unfold C.ofInt
  have h1 : Int.tdiv (a : Int) (b : Int) = ((a / b : Nat) : Int) := by
    rw [Int.tdiv_eq_ediv_of_nonneg (by omega)]; simp
  rw [h1]
  have hle : a / b ≤ a := Nat.div_le_self a b
  have h2w : 2 ^ (w - 1) ≤ 2 ^ w := Nat.pow_le_pow_right (by omega) (by omega)
  have hlt : a / b < 2 ^ w := by omega
  have : ((a / b : Nat) : Int) % ((2 ^ w : Nat) : Int) = ((a / b : Nat) : Int) :=
    Int.emod_eq_of_lt (Int.natCast_nonneg _) (Int.ofNat_lt.mpr hlt)
  rw [this]; exact Int.toNat_natCast _

theorem srem_of_lt {w a b : Nat} (ha : a < 2 ^ (w - 1)) (hb : b < 2 ^ (w - 1)) (hw : 0 < w) :
    C.srem w a b = a % b := by
  unfold C.srem
  rw [C.toInt_of_lt ha, C.toInt_of_lt hb]
  unfold C.ofInt
  have h1 : Int.tmod (a : Int) (b : Int) = ((a % b : Nat) : Int) := by
    rw [Int.tmod_eq_emod_of_nonneg (by omega)]; simp
  rw [h1]
  have hle : a % b ≤ a := Nat.mod_le a b
  have h2w : 2 ^ (w - 1) ≤ 2 ^ w := Nat.pow_le_pow_right (by omega) (by omega)
  have hlt : a % b < 2 ^ w := by omega
  have : ((a % b : Nat) : Int) % ((2 ^ w : Nat) : Int) = ((a % b : Nat) : Int) :=
    Int.emod_eq_of_lt (Int.natCast_nonneg _) (Int.ofNat_lt.mpr hlt)
  rw [this]; exact Int.toNat_natCast _

/-- number of sectors a file of `len` bytes occupies -/
def sectorsFor (len : Nat) : Nat := (len + 255) / 256

theorem last_sector_eq (m : Nat → Nat) (hm : ∀ i, m i < 256) :
    last_sector m =
      if file_length m = 0 then start_sector m
      else start_sector m + sectorsFor (file_length m) - 1 := by
  unfold last_sector
  simp only []
  have hs := start_sector_eq m hm
  have hl := file_length_eq m hm
  have := hm 4; have := hm 5; have := hm 6; have := hm 7
  have h4 : m 6 % 4 < 4 := Nat.mod_lt _ (by omega)
  have h5 : m 6 / 16 % 4 < 4 := Nat.mod_lt _ (by omega)
  have hlen : file_length m < 262144 := by omega
  have hst : start_sector m < 1024 := by omega
  by_cases h0 : file_length m = 0
  · simp [h0]
  · have h0' : ¬ ((0 == file_length m) = true) := by simp; omega
    rw [if_neg h0', if_neg h0]
    unfold C.ldiv sector_count
    have h63 : (2 : Nat) ^ (64 - 1) = 9223372036854775808 := by rfl
    have ha : file_length m < 2 ^ (64 - 1) := by rw [h63]; omega
    have hb : 256 < 2 ^ (64 - 1) := by rw [h63]; omega
    rw [sdiv_of_lt ha hb (by omega), srem_of_lt ha hb (by omega)]
    unfold sectorsFor
    by_cases hr : file_length m % 256 = 0
    · have : ¬ ((file_length m % 256 != 0) = true) := by simp [hr]
      rw [if_neg this]; omega
    · have : (file_length m % 256 != 0) = true := by simp [hr]
      rw [if_pos this]; omega

end Beeb.Leaf
