/-
Lemmas for C07, part 2: the flux decoders.  Every data byte a decoder delivers
is assembled from eight cells, hence < 256 whatever the container holds; the
decoders produce at most one sector per unit of fuel.
-/
import Beeb.Model.Main
import Beeb.Lemmas.HostileProbe

namespace Beeb.HostileL
open Beeb Beeb.Gen Beeb.Flux

theorem isBytes_nil : IsBytes [] := by intro b hb; cases hb

theorem isBytes_cons {a : Nat} {l : Bytes} (ha : a < 256) (hl : IsBytes l) : IsBytes (a :: l) := by
  intro b hb
  rcases List.mem_cons.mp hb with rfl | hb
  · exact ha
  · exact hl b hb

theorem isBytes_reverse {l : Bytes} (hl : IsBytes l) : IsBytes l.reverse :=
  fun b hb => hl b (List.mem_reverse.mp hb)

theorem isBytes_take {l : Bytes} (n : Nat) (hl : IsBytes l) : IsBytes (l.take n) :=
  fun b hb => hl b (List.mem_of_mem_take hb)

theorem isBytes_drop {l : Bytes} (n : Nat) (hl : IsBytes l) : IsBytes (l.drop n) :=
  fun b hb => hl b (List.mem_of_mem_drop hb)

theorem shift_bound (data k d : Nat) (b : Nat) (hb : b ≤ 1) (h : d < (data * 2 + b + 1) * 2 ^ k) :
    d < (data + 1) * 2 ^ (k + 1) := by
  have h1 : (data * 2 + b + 1) * 2 ^ k ≤ ((data + 1) * 2) * 2 ^ k :=
    Nat.mul_le_mul_right _ (by omega)
  rw [Nat.pow_succ, Nat.mul_comm (2 ^ k) 2, ← Nat.mul_assoc]
  omega

/-! ### FM -/

theorem fmReadByte_go_lt (s : BitStream) : ∀ (k pos clock data c d p : Nat),
    fmReadByte.go s k pos clock data = some (c, d, p) → d < (data + 1) * 2 ^ k := by
  intro k
  induction k with
  | zero =>
    intro pos clock data c d p h
    simp only [fmReadByte.go, Option.some.injEq, Prod.mk.injEq] at h
    omega
  | succ k ih =>
    intro pos clock data c d p h
    unfold fmReadByte.go at h
    split at h
    · cases h
    · have := ih _ _ _ _ _ _ h
      exact shift_bound data k d _ (by split <;> omega) this

theorem fmReadByte_lt (s : BitStream) (start c d p : Nat) (h : fmReadByte s start = some (c, d, p)) :
    d < 256 := by
  have := fmReadByte_go_lt s 8 start 0 0 c d p h
  simpa using this

theorem fmCopyBytes_bytes (s : BitStream) : ∀ (n pos : Nat) (acc : Bytes), IsBytes acc →
    IsBytes (fmCopyBytes s n pos acc).2.1 := by
  intro n
  induction n with
  | zero => intro pos acc h; simpa [fmCopyBytes] using isBytes_reverse h
  | succ n ih =>
    intro pos acc h
    unfold fmCopyBytes
    split
    · exact isBytes_reverse h
    · rename_i clock data pos' hr
      split
      · exact ih _ _ (isBytes_cons (fmReadByte_lt s pos clock data pos' hr) h)
      · exact isBytes_reverse h

/-- the predicate on decoded sectors -/
def SecsOk (l : List FSector) : Prop := ∀ x ∈ l, IsBytes x.data

theorem secsOk_nil : SecsOk [] := by intro x hx; cases hx

theorem secsOk_cons {a : FSector} {l : List FSector} (ha : IsBytes a.data) (hl : SecsOk l) : SecsOk (a :: l) := by
  intro x hx
  rcases List.mem_cons.mp hx with rfl | hx
  · exact ha
  · exact hl x hx

theorem secsOk_reverse {l : List FSector} (hl : SecsOk l) : SecsOk l.reverse :=
  fun x hx => hl x (List.mem_reverse.mp hx)

theorem secsOk_append {a b : List FSector} (ha : SecsOk a) (hb : SecsOk b) : SecsOk (a ++ b) := by
  intro x hx
  rcases List.mem_append.mp hx with hx | hx
  · exact ha x hx
  · exact hb x hx

theorem fmLoop_ok (s : BitStream) : ∀ (fuel thisbit : Nat) (st : FmState) (acc : List FSector) (dr : Bool),
    SecsOk acc → SecsOk (fmLoop s fuel thisbit st acc dr).1 := by
  intro fuel
  induction fuel with
  | zero => intro thisbit st acc dr h; simpa [fmLoop] using secsOk_reverse h
  | succ fuel ih =>
    intro thisbit st acc dr hacc
    have hb : ∀ n pos, IsBytes (fmCopyBytes s n pos []).2.1 :=
      fun n pos => fmCopyBytes_bytes s n pos [] isBytes_nil
    unfold fmLoop
    simp only []
    repeat' (first
      | exact secsOk_reverse hacc
      | exact ih _ _ _ _ hacc
      | exact ih _ _ _ _ (secsOk_cons (isBytes_take _ (hb _ _)) hacc)
      | split)

theorem decodeFm_ok (s : BitStream) : SecsOk (decodeFm s).1 :=
  fmLoop_ok s _ _ _ _ _ secsOk_nil

theorem fmLoop_length (s : BitStream) : ∀ (fuel thisbit : Nat) (st : FmState) (acc : List FSector) (dr : Bool),
    (fmLoop s fuel thisbit st acc dr).1.length ≤ acc.length + fuel := by
  intro fuel
  induction fuel with
  | zero => intro thisbit st acc dr; simp [fmLoop]
  | succ fuel ih =>
    intro thisbit st acc dr
    have hrev : (acc.reverse, dr).1.length ≤ acc.length + (fuel + 1) := by simp
    have hstep : ∀ tb st' dr', (fmLoop s fuel tb st' acc dr').1.length ≤ acc.length + (fuel + 1) := by
      intro tb st' dr'
      have := ih tb st' acc dr'
      omega
    have hstep' : ∀ tb st' dr' x, (fmLoop s fuel tb st' (x :: acc) dr').1.length ≤ acc.length + (fuel + 1) := by
      intro tb st' dr' x
      have := ih tb st' (x :: acc) dr'
      simp only [List.length_cons] at this
      omega
    unfold fmLoop
    simp only []
    repeat' (first | exact hrev | exact hstep _ _ _ | exact hstep' _ _ _ _ | split)

theorem decodeFm_length (s : BitStream) : (decodeFm s).1.length ≤ 2 * s.bits.size + 4 := by
  have := fmLoop_length s (2 * s.bits.size + 4) 0 .address [] false
  simpa [decodeFm] using this

/-! ### MFM -/

theorem mfmReadByte_go_lt (s : BitStream) : ∀ (k pos : Nat) (prev : Bool) (data d p : Nat),
    mfmReadByte.go s k pos prev data = (some d, p) → d < (data + 1) * 2 ^ k := by
  intro k
  induction k with
  | zero =>
    intro pos prev data d p h
    simp only [mfmReadByte.go, Prod.mk.injEq, Option.some.injEq] at h
    omega
  | succ k ih =>
    intro pos prev data d p h
    unfold mfmReadByte.go at h
    split at h
    · cases h
    · simp only [] at h
      split at h
      · cases h
      · have := ih _ _ _ _ _ h
        exact shift_bound data k d _ (by split <;> omega) this

theorem mfmReadByte_lt (s : BitStream) (start d p : Nat) (h : mfmReadByte s start = (some d, p)) :
    d < 256 := by
  have := mfmReadByte_go_lt s 8 start _ 0 d p h
  simpa using this

theorem mfmCopyBytes_bytes (s : BitStream) : ∀ (n pos : Nat) (acc : Bytes), IsBytes acc →
    IsBytes (mfmCopyBytes s n pos acc).2.1 := by
  intro n
  induction n with
  | zero => intro pos acc h; simpa [mfmCopyBytes] using isBytes_reverse h
  | succ n ih =>
    intro pos acc h
    unfold mfmCopyBytes
    split
    · exact isBytes_reverse h
    · rename_i d pos' hr
      exact ih _ _ (isBytes_cons (mfmReadByte_lt s pos d pos' hr) h)

theorem mfmLoop_ok (s : BitStream) : ∀ (fuel thisbit : Nat) (st : MfmState) (acc : List FSector),
    SecsOk acc → SecsOk (mfmLoop s fuel thisbit st acc) := by
  intro fuel
  induction fuel with
  | zero => intro thisbit st acc h; simpa [mfmLoop] using secsOk_reverse h
  | succ fuel ih =>
    intro thisbit st acc hacc
    have hb : ∀ n pos, IsBytes (mfmCopyBytes s n pos []).2.1 :=
      fun n pos => mfmCopyBytes_bytes s n pos [] isBytes_nil
    unfold mfmLoop
    simp only []
    repeat' (first
      | exact secsOk_reverse hacc
      | exact ih _ _ _ hacc
      | exact ih _ _ _ (secsOk_cons (isBytes_take _ (isBytes_drop _ (hb _ _))) hacc)
      | split)

theorem decodeMfm_ok (s : BitStream) : SecsOk (decodeMfm s) :=
  mfmLoop_ok s _ _ _ _ secsOk_nil

theorem mfmLoop_length (s : BitStream) : ∀ (fuel thisbit : Nat) (st : MfmState) (acc : List FSector),
    (mfmLoop s fuel thisbit st acc).length ≤ acc.length + fuel := by
  intro fuel
  induction fuel with
  | zero => intro thisbit st acc; simp [mfmLoop]
  | succ fuel ih =>
    intro thisbit st acc
    have hrev : acc.reverse.length ≤ acc.length + (fuel + 1) := by simp
    have hstep : ∀ tb st', (mfmLoop s fuel tb st' acc).length ≤ acc.length + (fuel + 1) := by
      intro tb st'
      have := ih tb st' acc
      omega
    have hstep' : ∀ tb st' x, (mfmLoop s fuel tb st' (x :: acc)).length ≤ acc.length + (fuel + 1) := by
      intro tb st' x
      have := ih tb st' (x :: acc)
      simp only [List.length_cons] at this
      omega
    unfold mfmLoop
    simp only []
    repeat' (first | exact hrev | exact hstep _ _ | exact hstep' _ _ _ | split)

theorem decodeMfm_length (s : BitStream) : (decodeMfm s).length ≤ s.bits.size + 2 := by
  have := mfmLoop_length s (s.bits.size + 2) 0 .header []
  simpa [decodeMfm] using this

/-! ### sorting keeps the sectors -/

theorem mem_insertBy {α} (less : α → α → Bool) (a : α) : ∀ (l : List α) (x : α),
    x ∈ insertBy less a l → x = a ∨ x ∈ l := by
  intro l
  induction l with
  | nil => intro x h; simpa [insertBy] using h
  | cons z zs ih =>
    intro x h
    unfold insertBy at h
    split at h
    · rcases List.mem_cons.mp h with h | h
      · exact Or.inl h
      · exact Or.inr h
    · rcases List.mem_cons.mp h with h | h
      · exact Or.inr (h ▸ List.mem_cons_self)
      · rcases ih x h with h | h
        · exact Or.inl h
        · exact Or.inr (List.mem_cons_of_mem _ h)

theorem mem_sortBy {α} (less : α → α → Bool) : ∀ (l : List α) (x : α), x ∈ sortBy less l → x ∈ l := by
  intro l
  induction l with
  | nil => intro x h; simp [sortBy] at h
  | cons a rest ih =>
    intro x h
    have h' : x ∈ insertBy less a (sortBy less rest) := h
    rcases mem_insertBy less a _ x h' with h | h
    · exact h ▸ List.mem_cons_self
    · exact List.mem_cons_of_mem _ (ih x h)

theorem sortSectors_ok {l : List FSector} (h : SecsOk l) : SecsOk (sortSectors l) :=
  fun x hx => h x (mem_sortBy _ _ x hx)

theorem decodeTrack_ok (isFm : Bool) (bits : BitStream) : SecsOk (decodeTrack isFm bits).1 := by
  unfold decodeTrack
  split
  · exact decodeFm_ok bits
  · exact decodeMfm_ok bits

/-! ### HFE -/

theorem hfeTrack_ok (f : FileData) (h : HfeHeader) (lut : Bytes) (side track : Nat)
    (secs : List FSector) (nz : Bool) (hr : hfeTrack f h lut side track = some (secs, nz)) : SecsOk secs := by
  unfold hfeTrack at hr
  split at hr
  · cases hr
  · rename_i isFm stream noise _
    have := decodeTrack_ok isFm (hfeBitStream isFm stream)
    revert hr this
    cases decodeTrack isFm (hfeBitStream isFm stream) with
    | mk secs' dropped =>
      intro hr this
      simp only [Option.some.injEq, Prod.mk.injEq] at hr
      rw [← hr.1]
      exact sortSectors_ok this

theorem hfeTracks_ok (f : FileData) (h : HfeHeader) (lut : Bytes) (side : Nat) :
    ∀ (n track : Nat) (spt : Option Nat) (acc : List FSector) (noise : Bool) (secs : List FSector) (k : Nat) (nz : Bool),
      SecsOk acc → hfeTracks f h lut side n track spt acc noise = some (secs, k, nz) → SecsOk secs := by
  intro n
  induction n with
  | zero =>
    intro track spt acc noise secs k nz hacc hr
    simp only [hfeTracks, Option.some.injEq, Prod.mk.injEq] at hr
    rw [← hr.1]; exact hacc
  | succ n ih =>
    intro track spt acc noise secs k nz hacc hr
    unfold hfeTracks at hr
    split at hr
    · cases hr
    · rename_i secs' nz' ht
      have hok := secsOk_append hacc (hfeTrack_ok f h lut side track secs' nz' ht)
      simp only [] at hr
      repeat' (first | (cases hr; done) | exact ih _ _ _ _ _ _ _ hok hr | split at hr)

/-- every sector of every side consists of bytes -/
def SidesOk (l : List FluxSide) : Prop := ∀ s ∈ l, SecsOk s.sectors

theorem hfeSides_ok (f : FileData) (h : HfeHeader) (lut : Bytes) :
    ∀ (n side : Nat) (acc : List FluxSide) (noise : Bool) (sides : List FluxSide) (nz : Bool),
      SidesOk acc → hfeSides f h lut n side acc noise = .ok sides nz → SidesOk sides := by
  intro n
  induction n with
  | zero =>
    intro side acc noise sides nz hacc hr
    simp only [hfeSides, FluxRes.ok.injEq] at hr
    rw [← hr.1]
    exact fun s hs => hacc s (List.mem_reverse.mp hs)
  | succ n ih =>
    intro side acc noise sides nz hacc hr
    unfold hfeSides at hr
    split at hr
    · cases hr
    · rename_i secs spt nz' ht
      simp only [] at hr
      split at hr
      · cases hr
      · refine ih _ _ _ _ _ ?_ hr
        intro s hs
        rcases List.mem_cons.mp hs with rfl | hs
        · exact hfeTracks_ok f h lut side _ _ _ _ _ _ _ _ secsOk_nil ht
        · exact hacc s hs

theorem loadHfe_ok (f : FileData) (sides : List FluxSide) (nz : Bool) (hr : loadHfe f = .ok sides nz) :
    SidesOk sides := by
  unfold loadHfe at hr
  split at hr
  · cases hr
  · simp only [] at hr
    split at hr
    · cases hr
    · exact hfeSides_ok f _ _ _ _ _ _ _ _ (by intro s hs; cases hs) hr

/-! ### HxC MFM -/

theorem hxcSide_ok (f : FileData) (side : Nat) : ∀ (es : List HxcEntry) (acc secs : List FSector),
    SecsOk acc → hxcSide f side es acc = some secs → SecsOk secs := by
  intro es
  induction es with
  | nil =>
    intro acc secs hacc hr
    simp only [hxcSide, Option.some.injEq] at hr
    rw [← hr]; exact hacc
  | cons e rest ih =>
    intro acc secs hacc hr
    unfold hxcSide at hr
    split at hr
    · exact ih _ _ hacc hr
    · split at hr
      · cases hr
      · simp only [] at hr
        split at hr
        · cases hr
        · split at hr
          · cases hr
          · exact ih _ _ (secsOk_append hacc (sortSectors_ok (decodeMfm_ok _))) hr

theorem hxcSides_ok (f : FileData) (m : List HxcEntry) :
    ∀ (n side : Nat) (acc : List FluxSide) (sides : List FluxSide) (nz : Bool),
      SidesOk acc → hxcSides f m n side acc = .ok sides nz → SidesOk sides := by
  intro n
  induction n with
  | zero =>
    intro side acc sides nz hacc hr
    simp only [hxcSides, FluxRes.ok.injEq] at hr
    rw [← hr.1]
    exact fun s hs => hacc s (List.mem_reverse.mp hs)
  | succ n ih =>
    intro side acc sides nz hacc hr
    unfold hxcSides at hr
    split at hr
    · cases hr
    · rename_i secs hs'
      refine ih _ _ _ _ ?_ hr
      intro s hs
      rcases List.mem_cons.mp hs with rfl | hs
      · exact hxcSide_ok f side m [] secs secsOk_nil hs'
      · exact hacc s hs

theorem loadHxc_ok (f : FileData) (sides : List FluxSide) (nz : Bool) (hr : loadHxc f = .ok sides nz) :
    SidesOk sides := by
  unfold loadHxc at hr
  split at hr
  · exact hxcSides_ok f _ _ _ _ _ _ (by intro s hs; cases hs) hr
  · cases hr

/-! ### the block devices -/

theorem findSector_bytes (secs : List FSector) (c h r : Nat) (d : Sector) (hs : SecsOk secs)
    (hf : findSector secs c h r = some d) : IsBytes d := by
  unfold findSector at hf
  cases hfind : secs.find? (fun s => s.cyl == c && s.head == h && s.record == r) with
  | none => rw [hfind] at hf; cases hf
  | some x =>
    rw [hfind] at hf
    simp only [Option.map_some, Option.some.injEq] at hf
    rw [← hf]
    exact hs x (List.mem_of_find?_eq_some hfind)

theorem hfeReadBlock_bytes (s : FluxSide) (hs : SecsOk s.sectors) : MediaBytes (hfeReadBlock s) := by
  intro lba d hd
  unfold hfeReadBlock at hd
  split at hd
  · cases hd
  · exact findSector_bytes _ _ _ _ _ hs hd

theorem hxcReadBlock_bytes (s : FluxSide) (hs : SecsOk s.sectors) : MediaBytes (hxcReadBlock s) := by
  intro lba d hd
  unfold hxcReadBlock at hd
  split at hd
  · cases hd
  · split at hd
    · cases hd
    · exact findSector_bytes _ _ _ _ _ hs hd

end Beeb.HostileL
