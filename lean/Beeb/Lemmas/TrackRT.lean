/-
Track round trips (C05): an FM / MFM track recorded as Beeb/Spec/FluxEnc.lean
describes, stored the HFE way, decodes (Beeb/Model/Flux.lean) to exactly the
recorded sectors.  The heart is that the decoders' bit-pattern scans find each
address mark exactly where it was recorded: no false match occurs earlier.
-/
import Beeb.Spec.FluxEnc

namespace Beeb.TrackRT
open Beeb Beeb.Gen Beeb.Flux Beeb.Spec.Flux

/-! ### CRC -/

theorem and_32768_zero (x : Nat) (hx : x < 65536) (h : x &&& 32768 = 0) : x < 32768 := by
  apply Decidable.byContradiction
  intro hn
  have h1 : (x &&& 32768).testBit 15 = true := by
    rw [Nat.testBit_and]
    have : x.testBit 15 = true := by
      rw [Nat.testBit_eq_decide_div_mod_eq]
      simp only [decide_eq_true_eq]
      omega
    rw [this]
    decide
  rw [h] at h1
  simp at h1

theorem crc_cycle_lt (x : Nat) (hx : x < 65536) : crc_cycle x < 65536 := by
  unfold crc_cycle
  split
  · have h1 : (x ^^^ 2064) &&& 32767 ≤ 32767 := Nat.and_le_right
    rw [Nat.shiftLeft_eq]
    omega
  · rename_i h
    have h0 : x &&& 32768 = 0 := by simpa using h
    have := and_32768_zero x hx h0
    rw [Nat.shiftLeft_eq]
    omega

theorem crcByte_lt (c b : Nat) (hc : c < 65536) (hb : b < 256) : crcByte c b < 65536 := by
  unfold crcByte
  have hr : List.range 8 = [0, 1, 2, 3, 4, 5, 6, 7] := by decide
  have h0 : c ^^^ b <<< 8 < 2 ^ 16 := Nat.xor_lt_two_pow hc (by rw [Nat.shiftLeft_eq]; omega)
  rw [hr]
  simp only [List.foldl_cons, List.foldl_nil]
  repeat apply crc_cycle_lt
  exact h0

theorem crc16_lt (data : Bytes) (hb : ∀ b ∈ data, b < 256) (c : Nat) (hc : c < 65536) :
    crc16 c data < 65536 := by
  unfold crc16
  induction data generalizing c with
  | nil => exact hc
  | cons b bs ih =>
    simp only [List.foldl_cons]
    exact ih (fun x hx => hb x (by simp [hx])) _ (crcByte_lt c b hc (hb b (by simp)))

theorem ccitt_lt (data : Bytes) (hb : ∀ b ∈ data, b < 256) : ccitt data < 65536 :=
  crc16_lt data hb _ (by decide)

theorem xor_hi (c : Nat) : c ^^^ ((c / 256) <<< 8) = c % 256 := by
  apply Nat.eq_of_testBit_eq
  intro i
  have e : (256 : Nat) = 2 ^ 8 := by decide
  rw [Nat.testBit_xor, Nat.testBit_shiftLeft, e, Nat.testBit_div_two_pow, Nat.testBit_mod_two_pow]
  by_cases h : i < 8
  · have : ¬ i ≥ 8 := by omega
    simp [h, this]
  · have h' : i ≥ 8 := by omega
    have : i - 8 + 8 = i := by omega
    simp [h, h', this]

def allBelow (p : Nat → Bool) : Nat → Bool
  | 0 => true
  | n+1 => p n && allBelow p n

theorem allBelow_spec (p : Nat → Bool) : ∀ n, allBelow p n = true → ∀ k, k < n → p k = true := by
  intro n
  induction n with
  | zero => intro _ k hk; omega
  | succ n ih =>
    intro h k hk
    simp only [allBelow, Bool.and_eq_true] at h
    by_cases hkn : k = n
    · subst hkn; exact h.1
    · exact ih h.2 k (by omega)

theorem cycle8_small_all :
    allBelow (fun x => (List.range 8).foldl (fun c _ => crc_cycle c) x == x * 256) 256 = true := by
  decide +kernel

theorem cycle8_small (x : Nat) (hx : x < 256) :
    (List.range 8).foldl (fun c _ => crc_cycle c) x = x * 256 := by
  have := allBelow_spec _ _ cycle8_small_all x hx
  simpa using this

theorem crc_self (c : Nat) (_hc : c < 65536) : crcByte (crcByte c (c / 256)) (c % 256) = 0 := by
  have h1 : crcByte c (c / 256) = (c % 256) * 256 := by
    unfold crcByte
    rw [xor_hi, cycle8_small _ (by omega)]
  rw [h1]
  unfold crcByte
  rw [Nat.shiftLeft_eq]
  have : (2:Nat) ^ 8 = 256 := by decide
  rw [this, Nat.xor_self]
  decide

theorem ccitt_self (d : Bytes) (hd : ∀ b ∈ d, b < 256) : ccitt (d ++ crcBytes d) = 0 := by
  have hc := ccitt_lt d hd
  unfold crcBytes
  simp only
  unfold ccitt crc16 at *
  rw [List.foldl_append]
  simp only [List.foldl_cons, List.foldl_nil]
  exact crc_self _ hc

theorem crcBytes_lt (d : Bytes) (hd : ∀ b ∈ d, b < 256) : ∀ b ∈ crcBytes d, b < 256 := by
  have hc := ccitt_lt d hd
  intro b hb
  unfold crcBytes at hb
  simp only [List.mem_cons, List.not_mem_nil, or_false] at hb
  omega

/-! ### lists -/

theorem getD_append_left {α} (a b : List α) (i : Nat) (d : α) (h : i < a.length) :
    (a ++ b).getD i d = a.getD i d := by
  simp [List.getD_eq_getElem?_getD, List.getElem?_append_left h]

theorem getD_append_right {α} (a b : List α) (i : Nat) (d : α) (h : a.length ≤ i) :
    (a ++ b).getD i d = b.getD (i - a.length) d := by
  simp [List.getD_eq_getElem?_getD, List.getElem?_append_right h]

theorem getD_append_add {α} (a b : List α) (i : Nat) (d : α) :
    (a ++ b).getD (a.length + i) d = b.getD i d := by
  rw [getD_append_right _ _ _ _ (by omega)]
  congr 1; omega

theorem getD_ge {α} (a : List α) (i : Nat) (d : α) (h : a.length ≤ i) : a.getD i d = d := by
  simp [List.getD_eq_getElem?_getD, List.getElem?_eq_none h]

theorem getD_cons_succ {α} (x : α) (a : List α) (i : Nat) (d : α) : (x :: a).getD (i + 1) d = a.getD i d := by
  simp [List.getD_eq_getElem?_getD]

theorem getD_cons_zero {α} (x : α) (a : List α) (d : α) : (x :: a).getD 0 d = x := by
  simp [List.getD_eq_getElem?_getD]

/-! ### packing -/

theorem byteLsb_testBit (l : List Bool) (j : Nat) : (byteLsb l).testBit j = l.getD j false := by
  induction l generalizing j with
  | nil => simp [byteLsb]
  | cons b r ih =>
    cases j with
    | zero =>
      rw [getD_cons_zero, Nat.testBit_zero, byteLsb]
      cases b <;> simp <;> omega
    | succ j =>
      rw [getD_cons_succ, Nat.testBit_succ, byteLsb, ← ih]
      congr 1
      cases b <;> simp <;> omega

theorem shr_mod2 (x j : Nat) : ((x >>> j) % 2 == 1) = x.testBit j := by
  rw [Nat.testBit_eq_decide_div_mod_eq, Nat.shiftRight_eq_div_pow]
  by_cases h : x / 2 ^ j % 2 = 1 <;> simp [h]

theorem packLsb_cons (l : List Bool) (h : l ≠ []) :
    packLsb l = byteLsb (l.take 8) :: packLsb (l.drop 8) := by
  rcases l with _ | ⟨b0, _ | ⟨b1, _ | ⟨b2, _ | ⟨b3, _ | ⟨b4, _ | ⟨b5, _ | ⟨b6, _ | ⟨b7, r⟩⟩⟩⟩⟩⟩⟩⟩
  · exact absurd rfl h
  all_goals simp [packLsb]

def rawBitL (l : List Nat) (j : Nat) : Bool := (l.getD (j / 8) 0 >>> (j % 8)) % 2 == 1

theorem rawBit_toArray (l : List Nat) (j : Nat) : rawBit l.toArray j = rawBitL l j := by
  simp [rawBit, rawBitL, Array.getD_eq_getD_getElem?, List.getD_eq_getElem?_getD]

theorem rawBitL_zeros (p j : Nat) : rawBitL (List.replicate p 0) j = false := by
  unfold rawBitL
  have : (List.replicate p 0).getD (j / 8) 0 = 0 := by
    rw [List.getD_eq_getElem?_getD, List.getElem?_replicate]
    split <;> rfl
  rw [this]; simp

theorem rawBit_pack (p : Nat) : ∀ (n : Nat) (l : List Bool), l.length ≤ n → ∀ j,
    rawBitL (packLsb l ++ List.replicate p 0) j = l.getD j false := by
  intro n
  induction n with
  | zero =>
    intro l hl j
    have : l = [] := List.eq_nil_of_length_eq_zero (by omega)
    subst this
    simp [packLsb, rawBitL_zeros]
  | succ n ih =>
    intro l hl j
    by_cases hnil : l = []
    · subst hnil; simp [packLsb, rawBitL_zeros]
    · rw [packLsb_cons l hnil]
      have hlen : 0 < l.length := List.length_pos_iff.mpr hnil
      by_cases hj : j < 8
      · unfold rawBitL
        have h0 : j / 8 = 0 := by omega
        have h1 : j % 8 = j := by omega
        rw [h0, h1, List.cons_append, getD_cons_zero, shr_mod2, byteLsb_testBit]
        simp [List.getD_eq_getElem?_getD, hj]
      · have hj' : j = (j - 8) + 8 := by omega
        have e : rawBitL (byteLsb (List.take 8 l) :: packLsb (List.drop 8 l) ++ List.replicate p 0) j
            = rawBitL (packLsb (List.drop 8 l) ++ List.replicate p 0) (j - 8) := by
          unfold rawBitL
          have h0 : j / 8 = (j - 8) / 8 + 1 := by omega
          have h1 : j % 8 = (j - 8) % 8 := by omega
          rw [h0, h1, List.cons_append, getD_cons_succ]
        rw [e, ih (l.drop 8) (by simp; omega) (j - 8)]
        simp only [List.getD_eq_getElem?_getD, List.getElem?_drop]
        congr 2; omega

theorem packLsb_length (n : Nat) : ∀ (l : List Bool), l.length ≤ n → l.length ≤ 8 * (packLsb l).length := by
  induction n with
  | zero => intro l hl; omega
  | succ n ih =>
    intro l hl
    by_cases hnil : l = []
    · subst hnil; simp
    · rw [packLsb_cons l hnil]
      have := ih (l.drop 8) (by simp; omega)
      simp only [List.length_drop, List.length_cons] at *
      omega

/-! ### the decoder's view of the cells -/

/-- the stream presents exactly `cells` followed by zero cells, all of them reachable -/
structure Views (s : BitStream) (cells : List Bool) : Prop where
  get : ∀ i, s.get i = cells.getD i false
  bits : cells.length ≤ s.bits.size
  size : cells.length ≤ s.size + 1

theorem side_getD (cells : List Bool) (i : Nat) :
    (hfeSideBits true cells).getD (2 * i + 1) false = cells.getD i false := by
  simp only [hfeSideBits, if_true]
  induction cells generalizing i with
  | nil => simp
  | cons b r ih =>
    simp only [List.flatMap_cons]
    cases i with
    | zero => simp [List.getD_eq_getElem?_getD]
    | succ i =>
      have : 2 * (i + 1) + 1 = [false, b].length + (2 * i + 1) := by simp; omega
      rw [this, getD_append_add, ih, getD_cons_succ]

theorem side_length (cells : List Bool) : (hfeSideBits true cells).length = 2 * cells.length := by
  simp only [hfeSideBits, if_true]
  induction cells with
  | nil => rfl
  | cons b r ih => simp [List.flatMap_cons, ih]; omega

theorem ofBytes_fm_bits (data : Bytes) : (BitStream.ofBytes data 1 2).bits.size = 4 * data.length := by
  simp only [BitStream.ofBytes, Array.size_map, Array.size_range, List.size_toArray]
  have : ((2:Nat) == 0) = false := by decide
  rw [this]
  simp only [Bool.false_eq_true, if_false]
  split <;> omega

theorem ofBytes_fm_size (data : Bytes) : (BitStream.ofBytes data 1 2).size = 4 * data.length - 1 := by
  simp only [BitStream.ofBytes, List.size_toArray]
  have : ((2:Nat) == 0) = false := by decide
  rw [this]
  simp only [Bool.false_eq_true, if_false]
  omega

theorem ofBytes_get (data : Bytes) (first stride : Nat) (i : Nat) :
    (BitStream.ofBytes data first stride).get i =
      if i < (BitStream.ofBytes data first stride).bits.size then rawBitL data (i * stride + first) else false := by
  simp only [BitStream.get, Array.getD_eq_getD_getElem?]
  split
  · rename_i h
    have h' := h
    simp only [BitStream.ofBytes, Array.size_map, Array.size_range] at h'
    simp only [BitStream.ofBytes, Array.getElem?_map, Array.getElem?_range, h', if_true, Option.map_some,
      Option.getD_some, rawBit_toArray]
  · rename_i h
    rw [Array.getElem?_eq_none (by omega)]
    rfl

theorem ofBytes_mfm_bits (data : Bytes) : (BitStream.ofBytes data 0 1).bits.size = 8 * data.length := by
  simp only [BitStream.ofBytes, Array.size_map, Array.size_range, List.size_toArray]
  have : ((1:Nat) == 0) = false := by decide
  rw [this]
  simp only [Bool.false_eq_true, if_false]
  split <;> omega

theorem ofBytes_mfm_size (data : Bytes) : (BitStream.ofBytes data 0 1).size = 8 * data.length := by
  simp only [BitStream.ofBytes, List.size_toArray]
  have : ((1:Nat) == 0) = false := by decide
  rw [this]
  simp only [Bool.false_eq_true, if_false]
  omega

theorem views_fm (cells : List Bool) (p : Nat) :
    Views (hfeBitStream true (packLsb (hfeSideBits true cells) ++ List.replicate p 0)) cells := by
  have hlen := packLsb_length _ (hfeSideBits true cells) (Nat.le_refl _)
  rw [side_length] at hlen
  simp only [hfeBitStream, if_true]
  refine ⟨?_, ?_, ?_⟩
  · intro i
    rw [ofBytes_get, ofBytes_fm_bits]
    split
    · rw [rawBit_pack p _ _ (Nat.le_refl _), Nat.mul_comm i 2, side_getD]
    · symm; apply getD_ge
      simp only [List.length_append, List.length_replicate] at *
      omega
  · rw [ofBytes_fm_bits]; simp only [List.length_append, List.length_replicate]; omega
  · rw [ofBytes_fm_size]; simp only [List.length_append, List.length_replicate]; omega

theorem views_mfm (cells : List Bool) (p : Nat) :
    Views (hfeBitStream false (packLsb cells ++ List.replicate p 0)) cells := by
  have hlen := packLsb_length _ cells (Nat.le_refl _)
  simp only [hfeBitStream, Bool.false_eq_true, if_false]
  refine ⟨?_, ?_, ?_⟩
  · intro i
    rw [ofBytes_get, ofBytes_mfm_bits]
    split
    · rw [rawBit_pack p _ _ (Nat.le_refl _), Nat.mul_one, Nat.add_zero]
    · symm; apply getD_ge
      simp only [List.length_append, List.length_replicate] at *
      omega
  · rw [ofBytes_mfm_bits]; simp only [List.length_append, List.length_replicate]; omega
  · rw [ofBytes_mfm_size]; simp only [List.length_append, List.length_replicate]; omega

/-! ### scanning -/

def bitN (b : Bool) : Nat := if b then 1 else 0

theorem bitN_le (b : Bool) : bitN b ≤ 1 := by cases b <;> decide

/-- value of `n` cells from `start`, oldest first -/
def sval (s : BitStream) (start : Nat) : Nat → Nat
  | 0 => 0
  | n + 1 => 2 * sval s start n + bitN (s.get (start + n))

theorem sval_lt (s : BitStream) (start n : Nat) : sval s start n < 2 ^ n := by
  induction n with
  | zero => simp [sval]
  | succ n ih =>
    have := bitN_le (s.get (start + n))
    simp only [sval, Nat.pow_succ]
    omega

theorem sval_add (s : BitStream) (start a b : Nat) :
    sval s start (a + b) = sval s start a * 2 ^ b + sval s (start + a) b := by
  induction b with
  | zero => simp [sval]
  | succ b ih =>
    rw [← Nat.add_assoc]
    simp only [sval, ih, Nat.pow_succ, Nat.add_assoc]
    rw [Nat.mul_add, Nat.add_assoc]
    congr 1
    rw [Nat.mul_comm 2, Nat.mul_assoc]

/-- the window of `w` cells ending at cell `j` -/
def win (s : BitStream) (w j : Nat) : Nat := sval s (j + 1 - w) w

theorem and_mod_pow (x m w : Nat) (hm : m < 2 ^ w) : x &&& m = (x % 2 ^ w) &&& m := by
  apply Nat.eq_of_testBit_eq
  intro i
  rw [Nat.testBit_and, Nat.testBit_and, Nat.testBit_mod_two_pow]
  by_cases h : i < w
  · simp [h]
  · have : m.testBit i = false := Nat.testBit_lt_two_pow (Nat.lt_of_lt_of_le hm (Nat.pow_le_pow_right (by decide) (by omega)))
    simp [this]

theorem sval_mod_win (s : BitStream) (start n w : Nat) (hw : w ≤ 64) (hn : w ≤ n) (hn0 : 0 < n) :
    sval s start n % 18446744073709551616 % 2 ^ w = win s w (start + n - 1) := by
  have e64 : (18446744073709551616 : Nat) = 2 ^ 64 := by decide
  rw [e64, Nat.mod_mod_of_dvd _ (Nat.pow_dvd_pow 2 hw)]
  have hn' : n = (n - w) + w := by omega
  unfold win
  have e : start + n - 1 + 1 - w = start + (n - w) := by omega
  rw [e]
  conv => lhs; rw [hn', sval_add]
  rw [Nat.mul_add_mod_self_right]
  exact Nat.mod_eq_of_lt (sval_lt _ _ _)

theorem scan_step (a : Nat) (b : Bool) :
    (a % 18446744073709551616 * 2) % 18446744073709551616 + (if b then 1 else 0)
      = (2 * a + bitN b) % 18446744073709551616 := by
  unfold bitN
  cases b <;> simp <;> omega

theorem scanLoop_some (s : BitStream) (val mask width start : Nat) :
    ∀ fuel got sh j sh', sh = sval s start got % 18446744073709551616 →
    scanLoop s val mask width fuel (start + got) sh got = some (j, sh') →
    ∃ n, j + 1 = start + n ∧ got < n ∧ width ≤ n ∧ j < s.bits.size ∧
      sh' = sval s start n % 18446744073709551616 ∧ (sh' &&& mask) = (val &&& mask) ∧
      ∀ m, got < m → m < n → width ≤ m → (sval s start m % 18446744073709551616) &&& mask ≠ val &&& mask := by
  intro fuel
  induction fuel with
  | zero => intro got sh j sh' _ h; simp [scanLoop] at h
  | succ fuel ih =>
    intro got sh j sh' hsh h
    rw [scanLoop] at h
    split at h
    · simp at h
    · rename_i hlt
      have hstep : (sh * 2) % 18446744073709551616 + (if s.get (start + got) then 1 else 0)
          = sval s start (got + 1) % 18446744073709551616 := by
        rw [hsh, scan_step]; rfl
      simp only [hstep] at h
      split at h
      · rename_i hc
        simp only [Bool.and_eq_true, decide_eq_true_eq, beq_iff_eq] at hc
        simp only [Option.some.injEq, Prod.mk.injEq] at h
        refine ⟨got + 1, by omega, by omega, hc.1, by omega, h.2.symm, by rw [← h.2]; exact hc.2, ?_⟩
        intro m h1 h2; omega
      · rename_i hc
        have := ih (got + 1) _ j sh' rfl (by rw [Nat.add_assoc] at h; exact h)
        obtain ⟨n, h1, h2, h3, h4, h5, h6, h7⟩ := this
        refine ⟨n, h1, by omega, h3, h4, h5, h6, ?_⟩
        intro m hm1 hm2 hm3
        by_cases hm : m = got + 1
        · subst hm
          intro hh
          apply hc
          simp only [Bool.and_eq_true, decide_eq_true_eq, beq_iff_eq]
          exact ⟨hm3, hh⟩
        · exact h7 m (by omega) hm2 hm3

theorem scanLoop_find (s : BitStream) (val mask width start n : Nat)
    (hw : width ≤ n) (hn : start + n ≤ s.bits.size)
    (hit : (sval s start n % 18446744073709551616) &&& mask = val &&& mask) :
    ∀ fuel got sh, sh = sval s start got % 18446744073709551616 → got < n → n - got ≤ fuel →
    (∀ m, got < m → m < n → width ≤ m → (sval s start m % 18446744073709551616) &&& mask ≠ val &&& mask) →
    scanLoop s val mask width fuel (start + got) sh got = some (start + n - 1, sval s start n % 18446744073709551616) := by
  intro fuel
  induction fuel with
  | zero => intro got sh _ h1 h2; omega
  | succ fuel ih =>
    intro got sh hsh h1 h2 hno
    rw [scanLoop]
    have hlt : ¬ start + got ≥ s.bits.size := by omega
    rw [if_neg hlt]
    have hstep : (sh * 2) % 18446744073709551616 + (if s.get (start + got) then 1 else 0)
        = sval s start (got + 1) % 18446744073709551616 := by
      rw [hsh, scan_step]; rfl
    simp only [hstep]
    by_cases hm : got + 1 = n
    · subst hm
      have : (decide (got + 1 ≥ width) && (sval s start (got + 1) % 18446744073709551616 &&& mask) == (val &&& mask)) = true := by
        simp only [Bool.and_eq_true, decide_eq_true_eq, beq_iff_eq]
        exact ⟨hw, hit⟩
      rw [if_pos this]
      simp
    · have : ¬ (decide (got + 1 ≥ width) && (sval s start (got + 1) % 18446744073709551616 &&& mask) == (val &&& mask)) = true := by
        simp only [Bool.and_eq_true, decide_eq_true_eq, beq_iff_eq]
        intro ⟨h3, h4⟩
        exact hno (got + 1) (by omega) (by omega) h3 h4
      rw [if_neg this, Nat.add_assoc]
      exact ih (got + 1) _ rfl (by omega) (by omega) (fun m a b c => hno m (by omega) b c)

theorem scanFor_some (s : BitStream) (start val mask w : Nat) (hw : w ≤ 64) (hw0 : 0 < w) (hmask : mask < 2 ^ w) (j sh : Nat)
    (h : scanFor s start val mask w = some (j, sh)) :
    start + w ≤ j + 1 ∧ j < s.bits.size ∧ win s w j &&& mask = val &&& mask ∧ sh % 2 ^ w = win s w j ∧
    ∀ j', start + w ≤ j' + 1 → j' < j → win s w j' &&& mask ≠ val &&& mask := by
  unfold scanFor at h
  have := scanLoop_some s val mask w start _ 0 0 j sh (by simp [sval]) h
  obtain ⟨n, h1, h2, h3, h4, h5, h6, h7⟩ := this
  have hj : j = start + n - 1 := by omega
  refine ⟨by omega, h4, ?_, ?_, ?_⟩
  · rw [and_mod_pow _ _ _ hmask, h5, sval_mod_win s start n w hw h3 h2] at h6
    rw [hj]; exact h6
  · rw [h5, hj, sval_mod_win s start n w hw h3 h2]
  · intro j' a b hh
    have := h7 (j' + 1 - start) (by omega) (by omega) (by omega)
    rw [and_mod_pow _ _ _ hmask, sval_mod_win s start _ w hw (by omega) (by omega)] at this
    apply this
    have e : start + (j' + 1 - start) - 1 = j' := by omega
    rw [e]; exact hh

theorem scanFor_find (s : BitStream) (start val mask w : Nat) (hw : w ≤ 64) (hw0 : 0 < w) (hmask : mask < 2 ^ w) (j : Nat)
    (h1 : start + w ≤ j + 1) (h2 : j < s.bits.size) (hit : win s w j &&& mask = val &&& mask)
    (hno : ∀ j', start + w ≤ j' + 1 → j' < j → win s w j' &&& mask ≠ val &&& mask) :
    ∃ sh, scanFor s start val mask w = some (j, sh) ∧ sh % 2 ^ w = win s w j := by
  unfold scanFor
  have hj : j = start + (j + 1 - start) - 1 := by omega
  have := scanLoop_find s val mask w start (j + 1 - start) (by omega) (by omega)
    (by rw [and_mod_pow _ _ _ hmask, sval_mod_win s start _ w hw (by omega) (by omega), ← hj]; exact hit)
    (s.bits.size + 1 - start) 0 0 (by simp [sval]) (by omega) (by omega)
    (by
      intro m a b c
      rw [and_mod_pow _ _ _ hmask, sval_mod_win s start _ w hw c a]
      exact hno (start + m - 1) (by omega) (by omega))
  have this' : scanLoop s val mask w (s.bits.size + 1 - start) start 0 0 =
    some (start + (j + 1 - start) - 1, sval s start (j + 1 - start) % 18446744073709551616) := this
  refine ⟨_, by rw [this', ← hj], ?_⟩
  rw [sval_mod_win s start _ w hw (by omega) (by omega), ← hj]

/-! ### FM cells -/

/-- an FM track as (clock, data) bytes -/
def encFm (tb : List (Nat × Nat)) : List Bool := tb.flatMap (fun p => fmByte p.1 p.2)

def ff (bs : Bytes) : List (Nat × Nat) := bs.map (fun b => (0xFF, b))

theorem fmByte_eq (c d : Nat) : fmByte c d =
    [c.testBit 7, d.testBit 7, c.testBit 6, d.testBit 6, c.testBit 5, d.testBit 5, c.testBit 4, d.testBit 4,
     c.testBit 3, d.testBit 3, c.testBit 2, d.testBit 2, c.testBit 1, d.testBit 1, c.testBit 0, d.testBit 0] := by
  have hr : List.range 8 = [0, 1, 2, 3, 4, 5, 6, 7] := by decide
  simp only [fmByte, hr, List.flatMap_cons, List.flatMap_nil, shr_mod2]
  rfl

theorem fmByte_length (c d : Nat) : (fmByte c d).length = 16 := by rw [fmByte_eq]; rfl

theorem encFm_length (tb : List (Nat × Nat)) : (encFm tb).length = 16 * tb.length := by
  induction tb with
  | nil => rfl
  | cons p r ih =>
    simp only [encFm, List.flatMap_cons, List.length_append, fmByte_length, List.length_cons] at *
    omega

theorem encFm_append (a b : List (Nat × Nat)) : encFm (a ++ b) = encFm a ++ encFm b := by
  simp [encFm, List.flatMap_append]

theorem encFm_cons (p : Nat × Nat) (r : List (Nat × Nat)) : encFm (p :: r) = fmByte p.1 p.2 ++ encFm r := by
  simp [encFm, List.flatMap_cons]

theorem encFm_ff (bs : Bytes) : encFm (ff bs) = fmBytes bs := by
  simp [encFm, ff, fmBytes, List.flatMap_map]

theorem fmByte_clock (c d j : Nat) (hj : j < 8) : (fmByte c d).getD (2 * j) false = c.testBit (7 - j) := by
  rw [fmByte_eq]
  have : j = 0 ∨ j = 1 ∨ j = 2 ∨ j = 3 ∨ j = 4 ∨ j = 5 ∨ j = 6 ∨ j = 7 := by omega
  rcases this with rfl | rfl | rfl | rfl | rfl | rfl | rfl | rfl <;> rfl

theorem fmByte_data (c d j : Nat) (hj : j < 8) : (fmByte c d).getD (2 * j + 1) false = d.testBit (7 - j) := by
  rw [fmByte_eq]
  have : j = 0 ∨ j = 1 ∨ j = 2 ∨ j = 3 ∨ j = 4 ∨ j = 5 ∨ j = 6 ∨ j = 7 := by omega
  rcases this with rfl | rfl | rfl | rfl | rfl | rfl | rfl | rfl <;> rfl

theorem encFm_getD (tb : List (Nat × Nat)) (k r : Nat) (hk : k < tb.length) (hr : r < 16) :
    (encFm tb).getD (16 * k + r) false = (fmByte (tb.getD k (0, 0)).1 (tb.getD k (0, 0)).2).getD r false := by
  induction tb generalizing k with
  | nil => simp at hk
  | cons p rest ih =>
    rw [encFm_cons]
    cases k with
    | zero =>
      rw [getD_append_left _ _ _ _ (by rw [fmByte_length]; omega), getD_cons_zero]
      simp
    | succ k =>
      have e : 16 * (k + 1) + r = (fmByte p.1 p.2).length + (16 * k + r) := by rw [fmByte_length]; omega
      rw [e, getD_append_add, getD_cons_succ]
      exact ih k (by simpa using hk)

theorem cellc (tb : List (Nat × Nat)) (m : Nat) (hm : m < 8 * tb.length) :
    (encFm tb).getD (2 * m) false = (tb.getD (m / 8) (0, 0)).1.testBit (7 - m % 8) := by
  have e : 2 * m = 16 * (m / 8) + 2 * (m % 8) := by omega
  rw [e, encFm_getD tb _ _ (by omega) (by omega), fmByte_clock _ _ _ (by omega)]

theorem celld (tb : List (Nat × Nat)) (m : Nat) (hm : m < 8 * tb.length) :
    (encFm tb).getD (2 * m + 1) false = (tb.getD (m / 8) (0, 0)).2.testBit (7 - m % 8) := by
  have e : 2 * m + 1 = 16 * (m / 8) + (2 * (m % 8) + 1) := by omega
  rw [e, encFm_getD tb _ _ (by omega) (by omega), fmByte_data _ _ _ (by omega)]

theorem getD_mem {α} (l : List α) (k : Nat) (d : α) (h : k < l.length) : l.getD k d ∈ l := by
  rw [List.getD_eq_getElem?_getD, List.getElem?_eq_getElem h]
  simp

/-- all clocks are normal or a mark clock -/
def ClocksOK (tb : List (Nat × Nat)) : Prop := ∀ p ∈ tb, p.1 = 0xFF ∨ p.1 = 0xC7

theorem clock_zero (tb : List (Nat × Nat)) (hc : ClocksOK tb) (m : Nat) (hm : m < 8 * tb.length)
    (h : (encFm tb).getD (2 * m) false = false) :
    (tb.getD (m / 8) (0, 0)).1 = 0xC7 ∧ (m % 8 = 2 ∨ m % 8 = 3 ∨ m % 8 = 4) := by
  rw [cellc tb m hm] at h
  have hmem := hc _ (getD_mem tb (m / 8) (0, 0) (by omega))
  have : m % 8 = 0 ∨ m % 8 = 1 ∨ m % 8 = 2 ∨ m % 8 = 3 ∨ m % 8 = 4 ∨ m % 8 = 5 ∨ m % 8 = 6 ∨ m % 8 = 7 := by omega
  rcases hmem with h1 | h1
  · rw [h1] at h
    rcases this with h2 | h2 | h2 | h2 | h2 | h2 | h2 | h2 <;> rw [h2] at h <;> exact absurd h (by decide)
  · refine ⟨h1, ?_⟩
    rw [h1] at h
    rcases this with h2 | h2 | h2 | h2 | h2 | h2 | h2 | h2 <;> rw [h2] at h <;>
      first | omega | exact absurd h (by decide)

theorem clock_c7 (tb : List (Nat × Nat)) (m : Nat) (hm : m < 8 * tb.length)
    (h1 : (tb.getD (m / 8) (0, 0)).1 = 0xC7) (h2 : m % 8 = 2 ∨ m % 8 = 3 ∨ m % 8 = 4) :
    (encFm tb).getD (2 * m) false = false := by
  rw [cellc tb m hm, h1]
  rcases h2 with h | h | h <;> rw [h] <;> decide

theorem cell_true_lt (cells : List Bool) (j : Nat) (h : cells.getD j false = true) : j < cells.length := by
  apply Decidable.byContradiction
  intro hn
  rw [getD_ge _ _ _ (by omega)] at h
  cases h

/-! ### window bits -/

theorem sval_testBit (s : BitStream) (start n t : Nat) :
    (sval s start n).testBit t = (decide (t < n) && s.get (start + n - 1 - t)) := by
  induction n generalizing t with
  | zero => simp [sval]
  | succ n ih =>
    simp only [sval]
    cases t with
    | zero =>
      rw [Nat.testBit_zero]
      have : start + (n + 1) - 1 - 0 = start + n := by omega
      rw [this]
      cases s.get (start + n) <;> simp [bitN] <;> omega
    | succ t =>
      rw [Nat.testBit_succ]
      have e : (2 * sval s start n + bitN (s.get (start + n))) / 2 = sval s start n := by
        have := bitN_le (s.get (start + n)); omega
      rw [e, ih]
      have : start + (n + 1) - 1 - (t + 1) = start + n - 1 - t := by omega
      rw [this]
      by_cases h : t < n <;> simp [h]

theorem win_bit (s : BitStream) (w i val mask : Nat) (h : win s w i &&& mask = val &&& mask) (hi : w ≤ i + 1)
    (t : Nat) (ht : t < w) (hm : mask.testBit t = true) : s.get (i - t) = val.testBit t := by
  have := congrArg (fun x => x.testBit t) h
  simp only [Nat.testBit_and, hm, Bool.and_true, win, sval_testBit, ht, decide_true, Bool.true_and] at this
  rw [← this]
  congr 1; omega

/-- the bits of a mark pattern the no-false-match argument relies on -/
def fmPatOK (val mask : Nat) : Bool :=
  [5, 11, 13, 15, 16, 18, 20, 22].all (fun t => mask.testBit t) &&
  val.testBit 5 && !val.testBit 11 && val.testBit 13 && val.testBit 15 &&
  !val.testBit 16 && !val.testBit 18 && !val.testBit 20 && !val.testBit 22

theorem fm_window (s : BitStream) (tb : List (Nat × Nat)) (hv : Views s (encFm tb)) (hc : ClocksOK tb)
    (val mask : Nat) (hp : fmPatOK val mask = true) (i : Nat) (hi : 47 ≤ i)
    (h : win s 48 i &&& mask = val &&& mask) :
    ∃ k, i = 16 * k + 15 ∧ k < tb.length ∧ (tb.getD k (0, 0)).1 = 0xC7 := by
  simp only [fmPatOK, List.all_cons, List.all_nil, Bool.and_true, Bool.and_eq_true, Bool.not_eq_true'] at hp
  obtain ⟨⟨⟨⟨⟨⟨⟨⟨⟨m5, m11, m13, m15, m16, m18, m20, m22⟩, v5⟩, v11⟩, v13⟩, v15⟩, v16⟩, v18⟩, v20⟩, v22⟩ := hp
  have b5 := win_bit s 48 i val mask h (by omega) 5 (by omega) m5
  have b11 := win_bit s 48 i val mask h (by omega) 11 (by omega) m11
  have b13 := win_bit s 48 i val mask h (by omega) 13 (by omega) m13
  have b15 := win_bit s 48 i val mask h (by omega) 15 (by omega) m15
  have b16 := win_bit s 48 i val mask h (by omega) 16 (by omega) m16
  have b18 := win_bit s 48 i val mask h (by omega) 18 (by omega) m18
  have b20 := win_bit s 48 i val mask h (by omega) 20 (by omega) m20
  have b22 := win_bit s 48 i val mask h (by omega) 22 (by omega) m22
  rw [hv.get] at b5 b11 b13 b15 b16 b18 b20 b22
  rw [v5] at b5; rw [v11] at b11; rw [v13] at b13; rw [v15] at b15
  rw [v16] at b16; rw [v18] at b18; rw [v20] at b20; rw [v22] at b22
  have hlen := encFm_length tb
  rcases Nat.mod_two_eq_zero_or_one i with hpar | hpar
  · -- misaligned: four consecutive zero clock bits
    exfalso
    have l15 := cell_true_lt _ _ b15
    have e22 : i - 22 = 2 * (i / 2 - 11) := by omega
    have e20 : i - 20 = 2 * (i / 2 - 11 + 1) := by omega
    have e18 : i - 18 = 2 * (i / 2 - 11 + 2) := by omega
    have e16 : i - 16 = 2 * (i / 2 - 11 + 3) := by omega
    rw [e22] at b22; rw [e20] at b20; rw [e18] at b18; rw [e16] at b16
    have c22 := (clock_zero tb hc _ (by omega) b22).2
    have c20 := (clock_zero tb hc _ (by omega) b20).2
    have c18 := (clock_zero tb hc _ (by omega) b18).2
    have c16 := (clock_zero tb hc _ (by omega) b16).2
    omega
  · -- aligned
    have l5 := cell_true_lt _ _ b5
    have e11 : i - 11 = 2 * (i / 2 - 5) := by omega
    have e13 : i - 13 = 2 * (i / 2 - 5 - 1) := by omega
    rw [e11] at b11; rw [e13] at b13
    have c11 := clock_zero tb hc _ (by omega) b11
    have hk : (i / 2 - 5) % 8 = 2 := by
      rcases c11.2 with h2 | h2 | h2
      · exact h2
      · exfalso
        have hd : (i / 2 - 5 - 1) / 8 = (i / 2 - 5) / 8 := by omega
        have := clock_c7 tb (i / 2 - 5 - 1) (by omega) (by rw [hd]; exact c11.1) (by omega)
        rw [this] at b13; cases b13
      · exfalso
        have hd : (i / 2 - 5 - 1) / 8 = (i / 2 - 5) / 8 := by omega
        have := clock_c7 tb (i / 2 - 5 - 1) (by omega) (by rw [hd]; exact c11.1) (by omega)
        rw [this] at b13; cases b13
    refine ⟨(i / 2 - 5) / 8, by omega, by omega, c11.1⟩

theorem fmPat_id : fmPatOK 0xAAAAAAAAF57E 0xFFFFFFFFFFFF = true := by decide
theorem fmPat_dm : fmPatOK 0xAAAAAAAAF56A 0xFFFFFFFFFFFA = true := by decide

/-! ### values of explicit cell lists -/

def lval : List Bool → Nat
  | [] => 0
  | b :: r => bitN b * 2 ^ r.length + lval r

theorem sval_list (s : BitStream) (L : List Bool) : ∀ start, (∀ t, t < L.length → s.get (start + t) = L.getD t false) →
    sval s start L.length = lval L := by
  induction L with
  | nil => intro _ _; rfl
  | cons b r ih =>
    intro start h
    have e : (b :: r).length = 1 + r.length := by simp; omega
    rw [e, sval_add, lval]
    have h0 := h 0 (by simp)
    rw [getD_cons_zero] at h0
    have : sval s start 1 = bitN b := by
      rw [Nat.add_zero] at h0
      simp [sval, h0]
    rw [this, ih (start + 1)]
    intro t ht
    have := h (t + 1) (by simp; omega)
    rw [getD_cons_succ] at this
    rw [← this]; congr 1; omega

theorem getD_tb {α} (A : List α) (p : α) (R : List α) (d : α) : (A ++ p :: R).getD A.length d = p := by
  rw [getD_append_right _ _ _ _ (Nat.le_refl _)]
  simp

theorem encFm_getD_mid (A M R : List (Nat × Nat)) (t : Nat) (ht : t < 16 * M.length) :
    (encFm (A ++ M ++ R)).getD (16 * A.length + t) false = (encFm M).getD t false := by
  rw [encFm_append, encFm_append, List.append_assoc, ← encFm_length A, getD_append_add,
    getD_append_left _ _ _ _ (by rw [encFm_length]; exact ht)]

theorem ff_append (a b : Bytes) : ff (a ++ b) = ff a ++ ff b := by simp [ff]
theorem ff_length (a : Bytes) : (ff a).length = a.length := by simp [ff]
theorem ff_cons (a : Nat) (b : Bytes) : ff (a :: b) = (0xFF, a) :: ff b := rfl

theorem ff_clock (A R : List (Nat × Nat)) (g : Bytes) (k : Nat) (h1 : A.length ≤ k) (h2 : k < A.length + g.length) :
    ((A ++ ff g ++ R).getD k (0, 0)).1 = 0xFF := by
  rw [List.append_assoc, getD_append_right _ _ _ _ h1, getD_append_left _ _ _ _ (by rw [ff_length]; omega)]
  have := getD_mem (ff g) (k - A.length) (0, 0) (by rw [ff_length]; omega)
  generalize (ff g).getD (k - A.length) (0, 0) = x at this
  simp only [ff, List.mem_map] at this
  obtain ⟨b, _, hb⟩ := this
  rw [← hb]

/-- scanning from inside a run of normally clocked bytes finds the next mark exactly -/
theorem fm_find_mark (s : BitStream) (tb : List (Nat × Nat)) (hv : Views s (encFm tb)) (hc : ClocksOK tb)
    (val mask : Nat) (hp : fmPatOK val mask = true) (hmask : mask < 2 ^ 48)
    (A R : List (Nat × Nat)) (g : Bytes) (m : Nat)
    (htb : tb = A ++ ff g ++ [(0xFF, 0), (0xFF, 0), (0xC7, m)] ++ R)
    (hval : lval (encFm [(0xFF, 0), (0xFF, 0), (0xC7, m)]) &&& mask = val &&& mask) :
    ∃ sh, scanFor s (16 * A.length) val mask 48 = some (16 * (A.length + g.length + 2) + 15, sh) ∧
      sh % 2 ^ 48 = lval (encFm [(0xFF, 0), (0xFF, 0), (0xC7, m)]) := by
  have hlen : tb.length = A.length + g.length + 3 + R.length := by
    rw [htb]; simp [ff_length]; omega
  have hwin : win s 48 (16 * (A.length + g.length + 2) + 15) = lval (encFm [(0xFF, 0), (0xFF, 0), (0xC7, m)]) := by
    unfold win
    have e : 16 * (A.length + g.length + 2) + 15 + 1 - 48 = 16 * (A ++ ff g).length := by
      simp [ff_length]; omega
    have e48 : 48 = (encFm [(0xFF, 0), (0xFF, 0), (0xC7, m)]).length := by rw [encFm_length]; rfl
    rw [e]
    conv => lhs; rw [e48]
    apply sval_list
    intro t ht
    rw [hv.get, htb]
    exact encFm_getD_mid (A ++ ff g) _ R t (by rw [encFm_length] at ht; exact ht)
  have := scanFor_find s (16 * A.length) val mask 48 (by omega) (by omega) hmask
    (16 * (A.length + g.length + 2) + 15) (by omega)
    (by have := hv.bits; rw [encFm_length, hlen] at this; omega)
    (by rw [hwin]; exact hval)
    (by
      intro j' h1 h2 hh
      obtain ⟨k, hk1, hk2, hk3⟩ := fm_window s tb hv hc val mask hp j' (by omega) hh
      have : ((A ++ ff g ++ ([(0xFF, 0), (0xFF, 0), (0xC7, m)] ++ R)).getD k (0, 0)).1 = 0xFF := by
        by_cases hkk : k < A.length + g.length
        · exact ff_clock A _ g k (by omega) hkk
        · have hk' : k = A.length + g.length ∨ k = A.length + g.length + 1 := by omega
          have hl : (A ++ ff g).length = A.length + g.length := by simp [ff_length]
          rcases hk' with hk' | hk'
          · rw [hk', ← hl, List.cons_append, getD_tb]
          · rw [hk', ← hl, getD_append_add]; rfl
      rw [htb, List.append_assoc, this] at hk3
      cases hk3)
  rw [hwin] at this
  exact this

/-! ### reading bytes -/

def byteOfBits (c : Nat) : Nat :=
  (((((((0 * 2 + (if c.testBit 7 then 1 else 0)) * 2 + (if c.testBit 6 then 1 else 0)) * 2 + (if c.testBit 5 then 1 else 0)) * 2 +
    (if c.testBit 4 then 1 else 0)) * 2 + (if c.testBit 3 then 1 else 0)) * 2 + (if c.testBit 2 then 1 else 0)) * 2 +
    (if c.testBit 1 then 1 else 0)) * 2 + (if c.testBit 0 then 1 else 0)

theorem byteOfBits_all : allBelow (fun c => byteOfBits c == c) 256 = true := by decide +kernel

theorem byteOfBits_eq (c : Nat) (hc : c < 256) : byteOfBits c = c := by
  have := allBelow_spec _ _ byteOfBits_all c hc
  simpa using this

theorem fmReadByte_eq (s : BitStream) (pos c d : Nat) (hsz : pos + 16 < s.size)
    (hget : ∀ t, t < 16 → s.get (pos + t) = (fmByte c d).getD t false) (hc : c < 256) (hd : d < 256) :
    fmReadByte s pos = some (c, d, pos + 16) := by
  have g0 := hget 0 (by omega); have g1 := hget 1 (by omega); have g2 := hget 2 (by omega)
  have g3 := hget 3 (by omega); have g4 := hget 4 (by omega); have g5 := hget 5 (by omega)
  have g6 := hget 6 (by omega); have g7 := hget 7 (by omega); have g8 := hget 8 (by omega)
  have g9 := hget 9 (by omega); have g10 := hget 10 (by omega); have g11 := hget 11 (by omega)
  have g12 := hget 12 (by omega); have g13 := hget 13 (by omega); have g14 := hget 14 (by omega)
  have g15 := hget 15 (by omega)
  rw [fmByte_eq] at g0 g1 g2 g3 g4 g5 g6 g7 g8 g9 g10 g11 g12 g13 g14 g15
  simp only [List.getD_eq_getElem?_getD, List.getElem?_cons_zero, List.getElem?_cons_succ, Option.getD_some, Nat.add_zero] at g0 g1 g2 g3 g4 g5 g6 g7 g8 g9 g10 g11 g12 g13 g14 g15
  unfold fmReadByte
  simp only [fmReadByte.go]
  have n1 : ¬ pos + 2 ≥ s.size := by omega
  have n2 : ¬ pos + 2 + 2 ≥ s.size := by omega
  have n3 : ¬ pos + 2 + 2 + 2 ≥ s.size := by omega
  have n4 : ¬ pos + 2 + 2 + 2 + 2 ≥ s.size := by omega
  have n5 : ¬ pos + 2 + 2 + 2 + 2 + 2 ≥ s.size := by omega
  have n6 : ¬ pos + 2 + 2 + 2 + 2 + 2 + 2 ≥ s.size := by omega
  have n7 : ¬ pos + 2 + 2 + 2 + 2 + 2 + 2 + 2 ≥ s.size := by omega
  have n8 : ¬ pos + 2 + 2 + 2 + 2 + 2 + 2 + 2 + 2 ≥ s.size := by omega
  simp only [n1, n2, n3, n4, n5, n6, n7, n8, if_false]
  simp only [Nat.add_assoc, Nat.reduceAdd]
  rw [g0, g1, g2, g3, g4, g5, g6, g7, g8, g9, g10, g11, g12, g13, g14, g15]
  have ec := byteOfBits_eq c hc
  have ed := byteOfBits_eq d hd
  unfold byteOfBits at ec ed
  rw [ec, ed]

theorem fmCopy_eq (s : BitStream) (tb : List (Nat × Nat)) (hv : Views s (encFm tb)) :
    ∀ (bs : Bytes) (A C : List (Nat × Nat)) (acc : Bytes), tb = A ++ ff bs ++ C → C ≠ [] → (∀ b ∈ bs, b < 256) →
    fmCopyBytes s bs.length (16 * A.length) acc = (true, acc.reverse ++ bs, 16 * (A.length + bs.length)) := by
  intro bs
  induction bs with
  | nil => intro A C acc _ _ _; simp [fmCopyBytes]
  | cons b r ih =>
    intro A C acc htb hC hb
    have hClen : 0 < C.length := List.length_pos_iff.mpr hC
    have hlen : tb.length = A.length + (r.length + 1) + C.length := by rw [htb]; simp [ff_length]; omega
    have hsz := hv.size
    rw [encFm_length, hlen] at hsz
    have hrd : fmReadByte s (16 * A.length) = some (0xFF, b, 16 * A.length + 16) := by
      apply fmReadByte_eq s _ 0xFF b (by omega) _ (by omega) (hb b (by simp))
      intro t ht
      rw [hv.get, encFm_getD tb _ _ (by omega) ht, htb, ff_cons, List.append_assoc, List.cons_append, getD_tb]
    rw [List.length_cons, fmCopyBytes, hrd]
    simp only [beq_self_eq_true, if_true]
    have := ih (A ++ [(0xFF, b)]) C (b :: acc) (by rw [htb, ff_cons]; simp) hC (fun x hx => hb x (by simp [hx]))
    simp only [List.length_append, List.length_cons, List.length_nil, Nat.zero_add] at this
    rw [show 16 * A.length + 16 = 16 * (A.length + 1) by omega, this]
    simp
    omega

/-! ### one step of the decoder loop -/

theorem fmLoop_address (s : BitStream) (fuel thisbit : Nat) (acc : List FSector) (dr : Bool) (h : thisbit < s.size)
    (i sh : Nat) (hscan : scanFor s thisbit 0xAAAAAAAAF57E 0xFFFFFFFFFFFF 48 = some (i, sh))
    (bytes : Bytes) (pos' : Nat) (hcopy : fmCopyBytes s 6 (i + 1) [] = (true, bytes, pos'))
    (hcrc : ccitt (0xFE :: bytes) = 0) (sz : Nat) (hsz : sizeOfCode ((0xFE :: bytes).getD 4 0) = some sz) :
    fmLoop s (fuel + 1) thisbit .address acc dr =
      fmLoop s fuel pos' (.record ((0xFE :: bytes).getD 1 0) ((0xFE :: bytes).getD 2 0) ((0xFE :: bytes).getD 3 0) sz (i + 1)) acc dr := by
  rw [fmLoop]
  have : ¬ thisbit ≥ s.size := by omega
  simp only [this, if_false, hscan, hcopy, hcrc, hsz]
  simp

theorem fmLoop_record (s : BitStream) (fuel thisbit : Nat) (acc : List FSector) (dr : Bool) (h : thisbit < s.size)
    (cyl head rc sz idPos : Nat)
    (i sh : Nat) (hscan : scanFor s thisbit 0xAAAAAAAAF56A 0xFFFFFFFFFFFA 48 = some (i, sh))
    (hlow : sh % 65536 = 0xF56F) (hdist : i + 1 - thisbit ≤ 64 * 16)
    (bytes : Bytes) (pos' : Nat) (hcopy : fmCopyBytes s (sz + 2) (i + 1) [] = (true, bytes, pos'))
    (hcrc : ccitt (0xFB :: bytes) = 0) :
    fmLoop s (fuel + 1) thisbit (.record cyl head rc sz idPos) acc dr =
      fmLoop s fuel pos' .address (({ cyl := cyl, head := head, record := rc, data := bytes.take sz, crc1 := bytes.getD sz 0, crc2 := bytes.getD (sz + 1) 0, idPos := idPos, dataPos := i + 1 } : FSector) :: acc) dr := by
  rw [fmLoop]
  have h1 : ¬ thisbit ≥ s.size := by omega
  have hfind : fmFindRecordMark s (s.bits.size + 1) thisbit = some (0xF56F, i + 1) := by
    rw [fmFindRecordMark]
    simp only [h1, if_false, hscan, hlow]
    simp
  have h2 : ¬ i + 1 - thisbit > 64 * 16 := by omega
  simp only [h1, if_false, hfind, h2, hcopy]
  simp [hcrc]

/-! ### statements' vocabulary (same bodies as in Beeb.Props.C05) -/

def IsSector (s : Bytes) : Prop := s.length = 256 ∧ ∀ b ∈ s, b < 256

def TrackOK (secs : List (Nat × Bytes)) : Prop :=
  ∀ p ∈ secs, p.1 < 256 ∧ IsSector p.2

def LegalFm (lay : Layout) : Prop :=
  2 ≤ lay.sync ∧ lay.gap2 + lay.sync + 1 ≤ 64 ∧ 1 ≤ lay.gap4 ∧ lay.fill < 256

def LegalMfm (lay : Layout) : Prop :=
  max lay.gap2 1 + max lay.sync 2 + 3 ≤ 80 ∧ 1 ≤ lay.gap4 ∧ lay.fill < 256

def seen (s : FSector) : Nat × Nat × Nat × Bytes := (s.cyl, s.head, s.record, s.data)

/-! ### one FM sector -/

theorem lval_id : lval (encFm [(0xFF, 0), (0xFF, 0), (0xC7, 0xFE)]) = 0xAAAAAAAAF57E := by decide
theorem lval_dm : lval (encFm [(0xFF, 0), (0xFF, 0), (0xC7, 0xFB)]) = 0xAAAAAAAAF56F := by decide

theorem crcBytes_length (d : Bytes) : (crcBytes d).length = 2 := rfl

macro "lenarith" : tactic =>
  `(tactic| ((try simp only [List.length_append, List.length_cons, List.length_nil, List.length_replicate, ff_length, crcBytes_length]) <;> omega))

theorem fmCopy_eq' (s : BitStream) (tb : List (Nat × Nat)) (hv : Views s (encFm tb))
    (bs : Bytes) (A C : List (Nat × Nat)) (htb : tb = A ++ ff bs ++ C) (hC : C ≠ []) (hb : ∀ b ∈ bs, b < 256)
    (n pos pos' : Nat) (hn : n = bs.length) (hpos : pos = 16 * A.length) (hpos' : pos' = 16 * (A.length + bs.length)) :
    fmCopyBytes s n pos [] = (true, bs, pos') := by
  rw [hn, hpos, hpos', fmCopy_eq s tb hv bs A C [] htb hC hb]; rfl

theorem fm_find_mark' (s : BitStream) (tb : List (Nat × Nat)) (hv : Views s (encFm tb)) (hc : ClocksOK tb)
    (val mask : Nat) (hp : fmPatOK val mask = true) (hmask : mask < 2 ^ 48)
    (A R : List (Nat × Nat)) (g : Bytes) (m : Nat)
    (htb : tb = A ++ ff g ++ [(0xFF, 0), (0xFF, 0), (0xC7, m)] ++ R)
    (hval : lval (encFm [(0xFF, 0), (0xFF, 0), (0xC7, m)]) &&& mask = val &&& mask)
    (start j : Nat) (hstart : start = 16 * A.length) (hj : j = 16 * (A.length + g.length + 2) + 15) :
    ∃ sh, scanFor s start val mask 48 = some (j, sh) ∧
      sh % 2 ^ 48 = lval (encFm [(0xFF, 0), (0xFF, 0), (0xC7, m)]) := by
  rw [hstart, hj]; exact fm_find_mark s tb hv hc val mask hp hmask A R g m htb hval

theorem fm_step (s : BitStream) (tb : List (Nat × Nat)) (hv : Views s (encFm tb)) (hc : ClocksOK tb)
    (cyl head rc : Nat) (data : Bytes) (hcyl : cyl < 256) (hhead : head < 256) (hrc : rc < 256) (hdata : IsSector data)
    (A R : List (Nat × Nat)) (G1 G2 : Bytes) (hG2 : G2.length + 3 ≤ 64) (hR : R ≠ [])
    (htb : tb = A ++ ff G1 ++ [(0xFF, 0), (0xFF, 0), (0xC7, 0xFE)] ++
      ff ([cyl, head, rc, 1] ++ crcBytes [0xFE, cyl, head, rc, 1]) ++ ff G2 ++ [(0xFF, 0), (0xFF, 0), (0xC7, 0xFB)] ++
      ff (data ++ crcBytes (0xFB :: data)) ++ R) (fuel : Nat) (acc : List FSector) (dr : Bool) :
    ∃ sec, seen sec = (cyl, head, rc, data) ∧
      fmLoop s (fuel + 2) (16 * A.length) .address acc dr =
        fmLoop s fuel (16 * (A.length + G1.length + 3 + 6 + G2.length + 3 + 258)) .address (sec :: acc) dr := by
  have hRlen : 0 < R.length := List.length_pos_iff.mpr hR
  have hd1 := hdata.1
  have hlen : tb.length = A.length + G1.length + 3 + 6 + G2.length + 3 + 258 + R.length := by
    rw [htb]; lenarith
  have hsz := hv.size
  rw [encFm_length, hlen] at hsz
  have hidf : ∀ b ∈ [0xFE, cyl, head, rc, 1], b < 256 := by
    intro b hb; simp only [List.mem_cons, List.not_mem_nil, or_false] at hb; omega
  have hdf : ∀ b ∈ 0xFB :: data, b < 256 := by
    intro b hb; simp only [List.mem_cons] at hb
    rcases hb with hb | hb
    · omega
    · exact hdata.2 b hb
  -- the ID mark
  obtain ⟨sh1, hscan1, _⟩ := fm_find_mark' s tb hv hc 0xAAAAAAAAF57E 0xFFFFFFFFFFFF fmPat_id (by decide) A
    (ff ([cyl, head, rc, 1] ++ crcBytes [0xFE, cyl, head, rc, 1]) ++ ff G2 ++ [(0xFF, 0), (0xFF, 0), (0xC7, 0xFB)] ++
      ff (data ++ crcBytes (0xFB :: data)) ++ R) G1 0xFE (by rw [htb]; simp only [List.append_assoc]) (by rw [lval_id])
    (16 * A.length) (16 * (A.length + G1.length + 2) + 15) rfl rfl
  have hcopy1 := fmCopy_eq' s tb hv ([cyl, head, rc, 1] ++ crcBytes [0xFE, cyl, head, rc, 1])
    (A ++ ff G1 ++ [(0xFF, 0), (0xFF, 0), (0xC7, 0xFE)])
    (ff G2 ++ [(0xFF, 0), (0xFF, 0), (0xC7, 0xFB)] ++ ff (data ++ crcBytes (0xFB :: data)) ++ R)
    (by rw [htb]; simp only [List.append_assoc]) (by simp)
    (by
      intro b hb
      rw [List.mem_append] at hb
      rcases hb with hb | hb
      · simp only [List.mem_cons, List.not_mem_nil, or_false] at hb; omega
      · exact crcBytes_lt _ hidf b hb)
    6 (16 * (A.length + G1.length + 2) + 15 + 1) (16 * (A.length + G1.length + 3 + 6)) rfl
    (by lenarith) (by lenarith)
  have hcrc1 : ccitt (0xFE :: ([cyl, head, rc, 1] ++ crcBytes [0xFE, cyl, head, rc, 1])) = 0 :=
    ccitt_self [0xFE, cyl, head, rc, 1] hidf
  have hstep1 := fmLoop_address s (fuel + 1) (16 * A.length) acc dr (by omega) _ sh1 hscan1 _ _ hcopy1 hcrc1 256 (by rfl)
  -- the data mark
  obtain ⟨sh2, hscan2, hsh2⟩ := fm_find_mark' s tb hv hc 0xAAAAAAAAF56A 0xFFFFFFFFFFFA fmPat_dm (by decide)
    (A ++ ff G1 ++ [(0xFF, 0), (0xFF, 0), (0xC7, 0xFE)] ++ ff ([cyl, head, rc, 1] ++ crcBytes [0xFE, cyl, head, rc, 1]))
    (ff (data ++ crcBytes (0xFB :: data)) ++ R) G2 0xFB (by rw [htb]; simp only [List.append_assoc])
    (by rw [lval_dm]; decide)
    (16 * (A.length + G1.length + 3 + 6)) (16 * (A.length + G1.length + 3 + 6 + G2.length + 2) + 15)
    (by lenarith) (by lenarith)
  have hlow : sh2 % 65536 = 0xF56F := by
    have : sh2 % 2 ^ 48 % 65536 = sh2 % 65536 := Nat.mod_mod_of_dvd _ (by decide)
    rw [← this, hsh2, lval_dm]
  have hcopy2 := fmCopy_eq' s tb hv (data ++ crcBytes (0xFB :: data))
    (A ++ ff G1 ++ [(0xFF, 0), (0xFF, 0), (0xC7, 0xFE)] ++ ff ([cyl, head, rc, 1] ++ crcBytes [0xFE, cyl, head, rc, 1]) ++
      ff G2 ++ [(0xFF, 0), (0xFF, 0), (0xC7, 0xFB)]) R htb hR
    (by
      intro b hb
      rw [List.mem_append] at hb
      rcases hb with hb | hb
      · exact hdata.2 b hb
      · exact crcBytes_lt _ hdf b hb)
    (256 + 2) (16 * (A.length + G1.length + 3 + 6 + G2.length + 2) + 15 + 1)
    (16 * (A.length + G1.length + 3 + 6 + G2.length + 3 + 258))
    (by lenarith) (by lenarith) (by lenarith)
  have hcrc2 : ccitt (0xFB :: (data ++ crcBytes (0xFB :: data))) = 0 := ccitt_self (0xFB :: data) hdf
  have hstep2 := fmLoop_record s fuel (16 * (A.length + G1.length + 3 + 6)) acc dr (by omega)
    cyl head rc 256 (16 * (A.length + G1.length + 2) + 15 + 1) _ sh2 hscan2 hlow (by omega) _ _ hcopy2 hcrc2
  refine ⟨_, ?_, hstep1.trans hstep2⟩
  simp only [seen]
  rw [List.take_left' hdata.1]

/-! ### the whole FM track -/

/-- the bytes of a sector up to (not including) gap 3 -/
def secB' (lay : Layout) (cyl head rc : Nat) (data : Bytes) : List (Nat × Nat) :=
  ff (List.replicate lay.sync 0) ++ [(0xC7, 0xFE)] ++ ff ([cyl, head, rc, 1] ++ crcBytes [0xFE, cyl, head, rc, 1]) ++
  ff (List.replicate lay.gap2 lay.fill) ++ ff (List.replicate lay.sync 0) ++ [(0xC7, 0xFB)] ++
  ff (data ++ crcBytes (0xFB :: data))

def secB (lay : Layout) (cyl head rc : Nat) (data : Bytes) : List (Nat × Nat) :=
  secB' lay cyl head rc data ++ ff (List.replicate lay.gap3 lay.fill)

def trackB (lay : Layout) (cyl head : Nat) (secs : List (Nat × Bytes)) : List (Nat × Nat) :=
  ff (List.replicate lay.gap1 lay.fill) ++ secs.flatMap (fun p => secB lay cyl head p.1 p.2) ++
  ff (List.replicate lay.gap4 lay.fill)

theorem encFm_single (c d : Nat) : encFm [(c, d)] = fmByte c d := by simp [encFm]

theorem fmSector_eq (lay : Layout) (cyl head rc : Nat) (data : Bytes) :
    fmSector lay cyl head rc data = encFm (secB lay cyl head rc data) := by
  simp only [fmSector, secB, secB', encFm_append, encFm_ff, encFm_single]
  rfl

theorem encFm_flatMap {α} (l : List α) (f : α → List (Nat × Nat)) :
    encFm (l.flatMap f) = l.flatMap (fun x => encFm (f x)) := by
  induction l with
  | nil => rfl
  | cons x r ih => simp only [List.flatMap_cons, encFm_append, ih]

theorem fmTrack_eq (lay : Layout) (cyl head : Nat) (secs : List (Nat × Bytes)) :
    fmTrack lay cyl head secs = encFm (trackB lay cyl head secs) := by
  simp only [fmTrack, trackB, encFm_append, encFm_ff, encFm_flatMap, fmSector_eq]

theorem clocksOK_append (a b : List (Nat × Nat)) (ha : ClocksOK a) (hb : ClocksOK b) : ClocksOK (a ++ b) := by
  intro p hp
  rw [List.mem_append] at hp
  rcases hp with h | h
  · exact ha p h
  · exact hb p h

theorem clocksOK_ff (bs : Bytes) : ClocksOK (ff bs) := by
  intro p hp
  simp only [ff, List.mem_map] at hp
  obtain ⟨b, _, hb⟩ := hp
  left; rw [← hb]

theorem clocksOK_mark (m : Nat) : ClocksOK [(0xC7, m)] := by
  intro p hp
  simp only [List.mem_cons, List.not_mem_nil, or_false] at hp
  right; rw [hp]

theorem clocksOK_secB (lay : Layout) (cyl head rc : Nat) (data : Bytes) : ClocksOK (secB lay cyl head rc data) := by
  unfold secB secB'
  repeat (first | apply clocksOK_append | apply clocksOK_ff | apply clocksOK_mark)

theorem clocksOK_flatMap {α} (l : List α) (f : α → List (Nat × Nat)) (h : ∀ x, ClocksOK (f x)) :
    ClocksOK (l.flatMap f) := by
  intro p hp
  rw [List.mem_flatMap] at hp
  obtain ⟨x, _, hx⟩ := hp
  exact h x p hx

theorem clocksOK_track (lay : Layout) (cyl head : Nat) (secs : List (Nat × Bytes)) :
    ClocksOK (trackB lay cyl head secs) := by
  unfold trackB
  apply clocksOK_append
  apply clocksOK_append
  · apply clocksOK_ff
  · apply clocksOK_flatMap; intro x; apply clocksOK_secB
  · apply clocksOK_ff

theorem replicate_split (n : Nat) (hn : 2 ≤ n) : List.replicate n 0 = List.replicate (n - 2) 0 ++ [0, 0] := by
  obtain ⟨m, rfl⟩ : ∃ m, n = m + 2 := ⟨n - 2, by omega⟩
  rw [Nat.add_sub_cancel]
  clear hn
  induction m with
  | zero => rfl
  | succ m ih => rw [List.replicate_succ, ih]; rfl

theorem fm_loop_all (s : BitStream) (tb : List (Nat × Nat)) (hv : Views s (encFm tb)) (hc : ClocksOK tb)
    (lay : Layout) (hl : LegalFm lay) (cyl head : Nat) (hcyl : cyl < 256) (hhead : head < 256) :
    ∀ (rest : List (Nat × Bytes)) (_hs : TrackOK rest) (A : List (Nat × Nat)) (g : Nat) (acc : List FSector) (dr : Bool)
      (fuel : Nat),
      tb = A ++ ff (List.replicate g lay.fill) ++ rest.flatMap (fun p => secB lay cyl head p.1 p.2) ++
        ff (List.replicate lay.gap4 lay.fill) →
      2 * rest.length + 1 ≤ fuel →
      ∃ out, fmLoop s fuel (16 * A.length) .address acc dr = (acc.reverse ++ out, dr) ∧
        out.map seen = rest.map (fun p => (cyl, head, p.1, p.2)) := by
  intro rest
  induction rest with
  | nil =>
    intro _ A g acc dr fuel htb hfuel
    refine ⟨[], ?_, rfl⟩
    obtain ⟨f, rfl⟩ : ∃ f, fuel = f + 1 := ⟨fuel - 1, by omega⟩
    rw [fmLoop]
    split
    · simp
    · simp only
      split
      · simp
      · rename_i i sh hscan
        exfalso
        obtain ⟨h1, h2, h3, _, _⟩ := scanFor_some s _ _ _ 48 (by omega) (by omega) (by decide) i sh hscan
        obtain ⟨k, hk1, hk2, hk3⟩ := fm_window s tb hv hc _ _ fmPat_id i (by omega) h3
        have hlen : tb.length = A.length + g + lay.gap4 := by rw [htb]; simp [ff_length]; omega
        have htb2 : tb = A ++ ff (List.replicate g lay.fill ++ List.replicate lay.gap4 lay.fill) ++ [] := by
          rw [htb, ff_append]; simp only [List.flatMap_nil, List.append_nil, List.append_assoc]
        have : (tb.getD k (0, 0)).1 = 0xFF := by
          rw [htb2]
          exact ff_clock A [] (List.replicate g lay.fill ++ List.replicate lay.gap4 lay.fill) k (by omega)
            (by simp; omega)
        rw [this] at hk3; cases hk3
  | cons x rest ih =>
    intro hs A g acc dr fuel htb hfuel
    obtain ⟨f, rfl⟩ : ∃ f, fuel = f + 2 := ⟨fuel - 2, by simp at hfuel; omega⟩
    have hx := hs x (by simp)
    obtain ⟨h2s, hg2, hg4, hfill⟩ := hl
    have hR : ff (List.replicate lay.gap3 lay.fill) ++ rest.flatMap (fun p => secB lay cyl head p.1 p.2) ++
        ff (List.replicate lay.gap4 lay.fill) ≠ [] := by
      intro h
      have := congrArg List.length h
      simp [ff_length] at this
      omega
    have htb' : tb = A ++ ff (List.replicate g lay.fill ++ List.replicate (lay.sync - 2) 0) ++
        [(0xFF, 0), (0xFF, 0), (0xC7, 0xFE)] ++
        ff ([cyl, head, x.1, 1] ++ crcBytes [0xFE, cyl, head, x.1, 1]) ++
        ff (List.replicate lay.gap2 lay.fill ++ List.replicate (lay.sync - 2) 0) ++
        [(0xFF, 0), (0xFF, 0), (0xC7, 0xFB)] ++ ff (x.2 ++ crcBytes (0xFB :: x.2)) ++
        (ff (List.replicate lay.gap3 lay.fill) ++ rest.flatMap (fun p => secB lay cyl head p.1 p.2) ++
          ff (List.replicate lay.gap4 lay.fill)) := by
      rw [htb]
      simp only [List.flatMap_cons, secB, secB', replicate_split lay.sync h2s, ff_append, List.append_assoc]
      rfl
    obtain ⟨sec, hsec, hstep⟩ := fm_step s tb hv hc cyl head x.1 x.2 hcyl hhead hx.1 hx.2 A _ _ _
      (by simp; omega) hR htb' f acc dr
    have := ih (fun p hp => hs p (by simp [hp]))
      (A ++ ff (List.replicate g lay.fill ++ List.replicate (lay.sync - 2) 0) ++
        [(0xFF, 0), (0xFF, 0), (0xC7, 0xFE)] ++
        ff ([cyl, head, x.1, 1] ++ crcBytes [0xFE, cyl, head, x.1, 1]) ++
        ff (List.replicate lay.gap2 lay.fill ++ List.replicate (lay.sync - 2) 0) ++
        [(0xFF, 0), (0xFF, 0), (0xC7, 0xFB)] ++ ff (x.2 ++ crcBytes (0xFB :: x.2)))
      lay.gap3 (sec :: acc) dr f (by rw [htb']; simp only [List.append_assoc]) (by simp at hfuel; omega)
    obtain ⟨out, ho1, ho2⟩ := this
    refine ⟨sec :: out, ?_, ?_⟩
    · rw [hstep]
      have hd1 := hx.2.1
      have e : 16 * (A.length + (List.replicate g lay.fill ++ List.replicate (lay.sync - 2) 0).length + 3 + 6 +
          (List.replicate lay.gap2 lay.fill ++ List.replicate (lay.sync - 2) 0).length + 3 + 258) =
          16 * (A ++ ff (List.replicate g lay.fill ++ List.replicate (lay.sync - 2) 0) ++
        [(0xFF, 0), (0xFF, 0), (0xC7, 0xFE)] ++
        ff ([cyl, head, x.1, 1] ++ crcBytes [0xFE, cyl, head, x.1, 1]) ++
        ff (List.replicate lay.gap2 lay.fill ++ List.replicate (lay.sync - 2) 0) ++
        [(0xFF, 0), (0xFF, 0), (0xC7, 0xFB)] ++ ff (x.2 ++ crcBytes (0xFB :: x.2))).length := by
        lenarith
      rw [e, ho1]
      simp
    · simp [hsec, ho2]

theorem flatMap_length_ge {α β} (l : List α) (f : α → List β) (h : ∀ x, 1 ≤ (f x).length) :
    l.length ≤ (l.flatMap f).length := by
  induction l with
  | nil => simp
  | cons x r ih =>
    have := h x
    simp only [List.flatMap_cons, List.length_append, List.length_cons]
    omega

theorem fm_track_roundtrip (lay : Layout) (cyl head : Nat) (secs : List (Nat × Bytes)) (padding : Nat)
    (hl : LegalFm lay) (hc : cyl < 256) (hh : head < 256) (hs : TrackOK secs) :
    let stored := packLsb (hfeSideBits true (fmTrack lay cyl head secs)) ++ List.replicate padding 0
    (decodeFm (hfeBitStream true stored)).1.map seen = secs.map (fun p => (cyl, head, p.1, p.2)) ∧
    (decodeFm (hfeBitStream true stored)).2 = false := by
  intro stored
  have hv : Views (hfeBitStream true stored) (encFm (trackB lay cyl head secs)) := by
    rw [← fmTrack_eq]; exact views_fm _ _
  have hfuel : 2 * secs.length + 1 ≤ 2 * (hfeBitStream true stored).bits.size + 4 := by
    have h1 := hv.bits
    rw [encFm_length] at h1
    have h2 : secs.length ≤ (trackB lay cyl head secs).length := by
      unfold trackB
      have := flatMap_length_ge secs (fun p => secB lay cyl head p.1 p.2) (by
        intro x; simp [secB, secB', ff_length]; omega)
      simp only [List.length_append]
      omega
    omega
  obtain ⟨out, h1, h2⟩ := fm_loop_all _ _ hv (clocksOK_track lay cyl head secs) lay hl cyl head hc hh secs hs []
    lay.gap1 [] false _ (by simp [trackB]) hfuel
  unfold decodeFm
  rw [show (0:Nat) = 16 * ([] : List (Nat × Nat)).length by rfl, h1]
  exact ⟨by simpa using h2, rfl⟩

/-! ### MFM cells -/

/-- an MFM track as items: `none` = an A1 sync byte with its missing clock, `some b` = a normally clocked byte -/
def dataM : Option Nat → Nat
  | none => 0xA1
  | some b => b

def byteCells : Option Nat → Bool → List Bool
  | none, _ => a1Sync
  | some b, p => mfmBits (bitsMsb b) p

def encM : List (Option Nat) → Bool → List Bool
  | [], _ => []
  | x :: r, prev => byteCells x prev ++ encM r ((dataM x).testBit 0)

def lastD : List (Option Nat) → Bool → Bool
  | [], p => p
  | x :: r, _ => lastD r ((dataM x).testBit 0)

def nb (bs : Bytes) : List (Option Nat) := bs.map some

theorem bitsMsb_eq (b : Nat) : bitsMsb b =
    [b.testBit 7, b.testBit 6, b.testBit 5, b.testBit 4, b.testBit 3, b.testBit 2, b.testBit 1, b.testBit 0] := by
  have hr : List.range 8 = [0, 1, 2, 3, 4, 5, 6, 7] := by decide
  simp only [bitsMsb, hr, List.map_cons, List.map_nil, shr_mod2]

theorem a1Sync_eq : a1Sync = [false, true, false, false, false, true, false, false,
    true, false, false, false, true, false, false, true] := by decide

theorem byteCells_some (b : Nat) (p : Bool) : byteCells (some b) p =
    [!(p || b.testBit 7), b.testBit 7, !(b.testBit 7 || b.testBit 6), b.testBit 6,
     !(b.testBit 6 || b.testBit 5), b.testBit 5, !(b.testBit 5 || b.testBit 4), b.testBit 4,
     !(b.testBit 4 || b.testBit 3), b.testBit 3, !(b.testBit 3 || b.testBit 2), b.testBit 2,
     !(b.testBit 2 || b.testBit 1), b.testBit 1, !(b.testBit 1 || b.testBit 0), b.testBit 0] := by
  simp only [byteCells, bitsMsb_eq, mfmBits]

theorem byteCells_length (x : Option Nat) (p : Bool) : (byteCells x p).length = 16 := by
  cases x with
  | none => simp only [byteCells, a1Sync_eq]; rfl
  | some b => rw [byteCells_some]; rfl

theorem encM_length (tb : List (Option Nat)) (p : Bool) : (encM tb p).length = 16 * tb.length := by
  induction tb generalizing p with
  | nil => rfl
  | cons x r ih => simp only [encM, List.length_append, byteCells_length, ih, List.length_cons]; omega

theorem encM_append (X Y : List (Option Nat)) (p : Bool) : encM (X ++ Y) p = encM X p ++ encM Y (lastD X p) := by
  induction X generalizing p with
  | nil => rfl
  | cons x r ih => simp only [List.cons_append, encM, lastD, ih, List.append_assoc]

theorem lastD_append (X Y : List (Option Nat)) (p : Bool) : lastD (X ++ Y) p = lastD Y (lastD X p) := by
  induction X generalizing p with
  | nil => rfl
  | cons x r ih => simp only [List.cons_append, lastD, ih]

theorem mfmBits_append (a b : List Bool) (p : Bool) : mfmBits (a ++ b) p = mfmBits a p ++ mfmBits b (lastBit a p) := by
  induction a generalizing p with
  | nil => simp [mfmBits, lastBit]
  | cons x r ih =>
    simp only [List.cons_append, mfmBits, ih]
    have : lastBit (x :: r) p = lastBit r x := by
      cases r with
      | nil => simp [lastBit]
      | cons y r' =>
        simp only [lastBit, List.getLast?_cons_cons]
        cases hl : (y :: r').getLast? with
        | none => exact absurd (List.getLast?_eq_none_iff.mp hl) (by simp)
        | some v => rfl
    rw [this]

theorem lastBit_append (a b : List Bool) (p : Bool) : lastBit (a ++ b) p = lastBit b (lastBit a p) := by
  unfold lastBit
  cases b with
  | nil => simp
  | cons y r => simp [List.getLast?_append]

theorem lastBit_bitsMsb (b : Nat) (p : Bool) : lastBit (bitsMsb b) p = b.testBit 0 := by
  rw [bitsMsb_eq]; simp [lastBit]

theorem encM_nb (bs : Bytes) (p : Bool) : encM (nb bs) p = mfmBytes bs p ∧ lastD (nb bs) p = mfmLast bs p := by
  induction bs generalizing p with
  | nil => simp [nb, encM, lastD, mfmBytes, mfmLast, mfmBits, lastBit]
  | cons b r ih =>
    have h := ih (b.testBit 0)
    simp only [nb] at h
    simp only [nb, List.map_cons, encM, lastD, dataM, byteCells, mfmBytes, mfmLast, List.flatMap_cons, mfmBits_append,
      lastBit_append, lastBit_bitsMsb, h.1, h.2]
    exact ⟨trivial, trivial⟩

def prevBit (tb : List (Option Nat)) (prev : Bool) (k : Nat) : Bool :=
  if k = 0 then prev else (dataM (tb.getD (k - 1) none)).testBit 0

theorem encM_getD (tb : List (Option Nat)) (prev : Bool) (k r : Nat) (hk : k < tb.length) (hr : r < 16) :
    (encM tb prev).getD (16 * k + r) false = (byteCells (tb.getD k none) (prevBit tb prev k)).getD r false := by
  induction tb generalizing k prev with
  | nil => simp at hk
  | cons x rest ih =>
    rw [encM]
    cases k with
    | zero =>
      rw [getD_append_left _ _ _ _ (by rw [byteCells_length]; omega), getD_cons_zero]
      simp [prevBit]
    | succ k =>
      have e : 16 * (k + 1) + r = (byteCells x prev).length + (16 * k + r) := by rw [byteCells_length]; omega
      rw [e, getD_append_add, getD_cons_succ, ih _ k (by simpa using hk)]
      congr 2
      unfold prevBit
      cases k with
      | zero => simp
      | succ k' => simp

theorem byteCells_data (x : Option Nat) (p : Bool) (j : Nat) (hj : j < 8) :
    (byteCells x p).getD (2 * j + 1) false = (dataM x).testBit (7 - j) := by
  have : j = 0 ∨ j = 1 ∨ j = 2 ∨ j = 3 ∨ j = 4 ∨ j = 5 ∨ j = 6 ∨ j = 7 := by omega
  cases x with
  | none =>
    simp only [byteCells, a1Sync_eq, dataM]
    rcases this with rfl | rfl | rfl | rfl | rfl | rfl | rfl | rfl <;> decide
  | some b =>
    rw [byteCells_some]
    rcases this with rfl | rfl | rfl | rfl | rfl | rfl | rfl | rfl <;> rfl

theorem celld_m (tb : List (Option Nat)) (prev : Bool) (m : Nat) (hm : m < 8 * tb.length) :
    (encM tb prev).getD (2 * m + 1) false = (dataM (tb.getD (m / 8) none)).testBit (7 - m % 8) := by
  have e : 2 * m + 1 = 16 * (m / 8) + (2 * (m % 8) + 1) := by omega
  rw [e, encM_getD tb prev _ _ (by omega) (by omega), byteCells_data _ _ _ (by omega)]

/-- a clock violation (no clock between two zero data bits) occurs only at bit 5 of a sync byte -/
theorem viol (tb : List (Option Nat)) (prev : Bool) (n : Nat) (h1 : 1 ≤ n) (hn : n < 8 * tb.length)
    (hc : (encM tb prev).getD (2 * n) false = false) (hd : (encM tb prev).getD (2 * n + 1) false = false)
    (hp : (encM tb prev).getD (2 * n - 1) false = false) :
    tb.getD (n / 8) none = none ∧ n % 8 = 5 := by
  have ec : 2 * n = 16 * (n / 8) + 2 * (n % 8) := by omega
  have ed : 2 * n + 1 = 16 * (n / 8) + (2 * (n % 8) + 1) := by omega
  rw [ec, encM_getD tb prev _ _ (by omega) (by omega)] at hc
  rw [ed, encM_getD tb prev _ _ (by omega) (by omega)] at hd
  have hp' : (if n % 8 = 0 then prevBit tb prev (n / 8)
      else (byteCells (tb.getD (n / 8) none) (prevBit tb prev (n / 8))).getD (2 * (n % 8) - 1) false) = false := by
    split
    · rename_i h0
      have hk : n / 8 ≠ 0 := by omega
      have e : 2 * n - 1 = 2 * (n - 1) + 1 := by omega
      rw [e, celld_m tb prev _ (by omega)] at hp
      have e1 : (n - 1) / 8 = n / 8 - 1 := by omega
      have e2 : 7 - (n - 1) % 8 = 0 := by omega
      rw [e1, e2] at hp
      simp only [prevBit, hk, if_false]
      exact hp
    · rename_i h0
      have e : 2 * n - 1 = 16 * (n / 8) + (2 * (n % 8) - 1) := by omega
      rw [e, encM_getD tb prev _ _ (by omega) (by omega)] at hp
      exact hp
  generalize prevBit tb prev (n / 8) = pb at *
  have hr : n % 8 = 0 ∨ n % 8 = 1 ∨ n % 8 = 2 ∨ n % 8 = 3 ∨ n % 8 = 4 ∨ n % 8 = 5 ∨ n % 8 = 6 ∨ n % 8 = 7 := by omega
  generalize n % 8 = r at *
  cases hx : tb.getD (n / 8) none with
  | none =>
    rw [hx] at hc hd hp'
    simp only [byteCells, a1Sync_eq] at hc hd hp'
    rcases hr with rfl | rfl | rfl | rfl | rfl | rfl | rfl | rfl <;> simp_all
  | some b =>
    exfalso
    rw [hx] at hc hd hp'
    rw [byteCells_some] at hc hd hp'
    rcases hr with rfl | rfl | rfl | rfl | rfl | rfl | rfl | rfl <;> simp_all

theorem mfm_window (s : BitStream) (tb : List (Option Nat)) (prev : Bool) (hv : Views s (encM tb prev))
    (i : Nat) (hi : 63 ≤ i)
    (h : win s 64 i &&& 0xFFFFFFFFFFFFFFFF = 0xAAAA448944894489 &&& 0xFFFFFFFFFFFFFFFF) :
    ∃ k, i = 16 * k + 15 ∧ 2 ≤ k ∧ k - 2 < tb.length ∧ tb.getD (k - 2) none = none := by
  have hlen := encM_length tb prev
  have bit : ∀ t, t < 64 → s.get (i - t) = (0xAAAA448944894489 : Nat).testBit t :=
    fun t ht => win_bit s 64 i _ _ h (by omega) t ht (by
      have : (0xFFFFFFFFFFFFFFFF : Nat) = 2 ^ 64 - 1 := by decide
      rw [this, Nat.testBit_two_pow_sub_one]; simp [ht])
  rcases Nat.mod_two_eq_zero_or_one i with hpar | hpar
  · exfalso
    have b45 := (bit 45 (by omega)).trans (by decide : _ = false)
    have b44 := (bit 44 (by omega)).trans (by decide : _ = false)
    have b43 := (bit 43 (by omega)).trans (by decide : _ = false)
    have b42 := (bit 42 (by omega)).trans (by decide : _ = true)
    have b37 := (bit 37 (by omega)).trans (by decide : _ = false)
    have b29 := (bit 29 (by omega)).trans (by decide : _ = false)
    have b28 := (bit 28 (by omega)).trans (by decide : _ = false)
    have b27 := (bit 27 (by omega)).trans (by decide : _ = false)
    have b26 := (bit 26 (by omega)).trans (by decide : _ = true)
    rw [hv.get] at b45 b44 b43 b42 b37 b29 b28 b27 b26
    have l42 := cell_true_lt _ _ b42
    have l26 := cell_true_lt _ _ b26
    have v1 := viol tb prev (i / 2 - 22) (by omega) (by omega)
      (by rw [show 2 * (i / 2 - 22) = i - 44 by omega]; exact b44)
      (by rw [show 2 * (i / 2 - 22) + 1 = i - 43 by omega]; exact b43)
      (by rw [show 2 * (i / 2 - 22) - 1 = i - 45 by omega]; exact b45)
    have v2 := viol tb prev (i / 2 - 14) (by omega) (by omega)
      (by rw [show 2 * (i / 2 - 14) = i - 28 by omega]; exact b28)
      (by rw [show 2 * (i / 2 - 14) + 1 = i - 27 by omega]; exact b27)
      (by rw [show 2 * (i / 2 - 14) - 1 = i - 29 by omega]; exact b29)
    have hd := celld_m tb prev (i / 2 - 19) (by omega)
    rw [show 2 * (i / 2 - 19) + 1 = i - 37 by omega, b37] at hd
    have e1 : (i / 2 - 19) / 8 = (i / 2 - 14) / 8 := by omega
    have e2 : 7 - (i / 2 - 19) % 8 = 7 := by omega
    rw [e1, v2.1, e2] at hd
    revert hd; decide
  · have b38 := (bit 38 (by omega)).trans (by decide : _ = false)
    have b37 := (bit 37 (by omega)).trans (by decide : _ = false)
    have b36 := (bit 36 (by omega)).trans (by decide : _ = false)
    have b35 := (bit 35 (by omega)).trans (by decide : _ = true)
    rw [hv.get] at b38 b37 b36 b35
    have l35 := cell_true_lt _ _ b35
    have v1 := viol tb prev (i / 2 - 18) (by omega) (by omega)
      (by rw [show 2 * (i / 2 - 18) = i - 37 by omega]; exact b37)
      (by rw [show 2 * (i / 2 - 18) + 1 = i - 36 by omega]; exact b36)
      (by rw [show 2 * (i / 2 - 18) - 1 = i - 38 by omega]; exact b38)
    refine ⟨(i / 2 - 18) / 8 + 2, by omega, by omega, by omega, ?_⟩
    rw [Nat.add_sub_cancel]; exact v1.1

theorem encM_getD_mid (A M R : List (Option Nat)) (prev : Bool) (t : Nat) (ht : t < 16 * M.length) :
    (encM (A ++ M ++ R) prev).getD (16 * A.length + t) false = (encM M (lastD A prev)).getD t false := by
  rw [encM_append, encM_append, List.append_assoc, ← encM_length A prev, getD_append_add,
    getD_append_left _ _ _ _ (by rw [encM_length]; exact ht)]

theorem nb_append (a b : Bytes) : nb (a ++ b) = nb a ++ nb b := by simp [nb]
theorem nb_length (a : Bytes) : (nb a).length = a.length := by simp [nb]
theorem nb_cons (a : Nat) (b : Bytes) : nb (a :: b) = some a :: nb b := rfl

theorem nb_some (A R : List (Option Nat)) (g : Bytes) (k : Nat) (h1 : A.length ≤ k) (h2 : k < A.length + g.length) :
    (A ++ nb g ++ R).getD k none ≠ none := by
  rw [List.append_assoc, getD_append_right _ _ _ _ h1, getD_append_left _ _ _ _ (by rw [nb_length]; omega)]
  have := getD_mem (nb g) (k - A.length) none (by rw [nb_length]; omega)
  generalize (nb g).getD (k - A.length) none = x at this
  simp only [nb, List.mem_map] at this
  obtain ⟨b, _, hb⟩ := this
  rw [← hb]; simp

def mfmPat : Nat := 0xAAAA448944894489
def mfmMask : Nat := 0xFFFFFFFFFFFFFFFF

theorem lval_sync : lval (encM [some 0, none, none, none] false) = 0xAAAA448944894489 := by decide

macro "lenarithM" : tactic =>
  `(tactic| ((try simp only [List.length_append, List.length_cons, List.length_nil, List.length_replicate, ff_length, nb_length, crcBytes_length]) <;> omega))

theorem mfm_find_sync (s : BitStream) (tb : List (Option Nat)) (prev : Bool) (hv : Views s (encM tb prev))
    (A R : List (Option Nat)) (g : Bytes)
    (htb : tb = A ++ nb g ++ [some 0, some 0, none, none, none] ++ R)
    (start j : Nat) (hstart : start = 16 * A.length) (hj : j = 16 * (A.length + g.length + 4) + 15) :
    ∃ sh, scanFor s start 0xAAAA448944894489 0xFFFFFFFFFFFFFFFF 64 = some (j, sh) := by
  have hlen : tb.length = A.length + g.length + 5 + R.length := by rw [htb]; lenarithM
  have htb' : tb = (A ++ nb g ++ [some 0]) ++ [some 0, none, none, none] ++ R := by
    rw [htb]; simp only [List.append_assoc]; rfl
  have hwin : win s 64 j = lval (encM [some 0, none, none, none] false) := by
    unfold win
    have e : j + 1 - 64 = 16 * (A ++ nb g ++ [some 0]).length := by rw [hj]; lenarithM
    have e64 : 64 = (encM [some 0, none, none, none] false).length := by rw [encM_length]; rfl
    rw [e]
    conv => lhs; rw [e64]
    apply sval_list
    intro t ht
    rw [hv.get, htb', encM_getD_mid _ _ R prev t (by rw [encM_length] at ht; exact ht), lastD_append]
    rfl
  have := scanFor_find s start 0xAAAA448944894489 0xFFFFFFFFFFFFFFFF 64 (by omega) (by omega) (by decide)
    j (by omega)
    (by have := hv.bits; rw [encM_length, hlen] at this; omega)
    (by rw [hwin, lval_sync])
    (by
      intro j' h1 h2 hh
      obtain ⟨k, hk1, hk2, hk3, hk4⟩ := mfm_window s tb prev hv j' (by omega) hh
      have hs : tb = A ++ nb (g ++ [0, 0]) ++ ([none, none, none] ++ R) := by
        rw [htb, nb_append]; simp only [List.append_assoc]; rfl
      rw [hs] at hk4
      exact nb_some A _ (g ++ [0, 0]) (k - 2) (by omega) (by simp; omega) hk4)
  obtain ⟨sh, h, _⟩ := this
  exact ⟨sh, h⟩

/-! ### reading MFM bytes -/

theorem mfmReadByte_eq (s : BitStream) (pos b : Nat) (p : Bool) (hsz : pos + 16 < s.size)
    (hget : ∀ t, t < 16 → s.get (pos + t) = (byteCells (some b) p).getD t false)
    (hprev : s.get (pos - 1) = p) (hb : b < 256) :
    mfmReadByte s pos = (some b, pos + 16) := by
  have g0 := hget 0 (by omega); have g1 := hget 1 (by omega); have g2 := hget 2 (by omega)
  have g3 := hget 3 (by omega); have g4 := hget 4 (by omega); have g5 := hget 5 (by omega)
  have g6 := hget 6 (by omega); have g7 := hget 7 (by omega); have g8 := hget 8 (by omega)
  have g9 := hget 9 (by omega); have g10 := hget 10 (by omega); have g11 := hget 11 (by omega)
  have g12 := hget 12 (by omega); have g13 := hget 13 (by omega); have g14 := hget 14 (by omega)
  have g15 := hget 15 (by omega)
  rw [byteCells_some] at g0 g1 g2 g3 g4 g5 g6 g7 g8 g9 g10 g11 g12 g13 g14 g15
  simp only [List.getD_eq_getElem?_getD, List.getElem?_cons_zero, List.getElem?_cons_succ, Option.getD_some, Nat.add_zero] at g0 g1 g2 g3 g4 g5 g6 g7 g8 g9 g10 g11 g12 g13 g14 g15
  unfold mfmReadByte
  simp only [mfmReadByte.go]
  have n1 : ¬ pos + 2 ≥ s.size := by omega
  have n2 : ¬ pos + 2 + 2 ≥ s.size := by omega
  have n3 : ¬ pos + 2 + 2 + 2 ≥ s.size := by omega
  have n4 : ¬ pos + 2 + 2 + 2 + 2 ≥ s.size := by omega
  have n5 : ¬ pos + 2 + 2 + 2 + 2 + 2 ≥ s.size := by omega
  have n6 : ¬ pos + 2 + 2 + 2 + 2 + 2 + 2 ≥ s.size := by omega
  have n7 : ¬ pos + 2 + 2 + 2 + 2 + 2 + 2 + 2 ≥ s.size := by omega
  have n8 : ¬ pos + 2 + 2 + 2 + 2 + 2 + 2 + 2 + 2 ≥ s.size := by omega
  simp only [n1, n2, n3, n4, n5, n6, n7, n8, if_false]
  simp only [Nat.add_assoc, Nat.reduceAdd]
  rw [hprev, g0, g1, g2, g3, g4, g5, g6, g7, g8, g9, g10, g11, g12, g13, g14, g15]
  simp only [bne_self_eq_false, Bool.false_eq_true, if_false]
  have ed := byteOfBits_eq b hb
  unfold byteOfBits at ed
  rw [ed]

theorem mfmCopy_eq (s : BitStream) (tb : List (Option Nat)) (prev : Bool) (hv : Views s (encM tb prev)) :
    ∀ (bs : Bytes) (A C : List (Option Nat)) (acc : Bytes), tb = A ++ nb bs ++ C → A ≠ [] → C ≠ [] →
    (∀ b ∈ bs, b < 256) →
    mfmCopyBytes s bs.length (16 * A.length) acc = (true, acc.reverse ++ bs, 16 * (A.length + bs.length)) := by
  intro bs
  induction bs with
  | nil => intro A C acc _ _ _ _; simp [mfmCopyBytes]
  | cons b r ih =>
    intro A C acc htb hA hC hb
    have hClen : 0 < C.length := List.length_pos_iff.mpr hC
    have hAlen : 0 < A.length := List.length_pos_iff.mpr hA
    have hlen : tb.length = A.length + (r.length + 1) + C.length := by rw [htb]; lenarithM
    have hsz := hv.size
    rw [encM_length, hlen] at hsz
    have hk : tb.getD A.length none = some b := by
      rw [htb, nb_cons, List.append_assoc, List.cons_append, getD_tb]
    have hrd : mfmReadByte s (16 * A.length) = (some b, 16 * A.length + 16) := by
      apply mfmReadByte_eq s _ b (prevBit tb prev A.length) (by omega) _ _ (hb b (by simp))
      · intro t ht
        rw [hv.get, encM_getD tb prev _ _ (by omega) ht, hk]
      · rw [hv.get]
        have e : 16 * A.length - 1 = 2 * (8 * A.length - 1) + 1 := by omega
        rw [e, celld_m tb prev _ (by omega)]
        have e1 : (8 * A.length - 1) / 8 = A.length - 1 := by omega
        have e2 : 7 - (8 * A.length - 1) % 8 = 0 := by omega
        rw [e1, e2]
        have : A.length ≠ 0 := by omega
        simp [prevBit, this]
    rw [List.length_cons, mfmCopyBytes, hrd]
    simp only
    have := ih (A ++ [some b]) C (b :: acc) (by rw [htb, nb_cons]; simp) (by simp) hC (fun x hx => hb x (by simp [hx]))
    simp only [List.length_append, List.length_cons, List.length_nil, Nat.zero_add] at this
    rw [show 16 * A.length + 16 = 16 * (A.length + 1) by omega, this]
    simp
    omega

theorem mfmCopy_eq' (s : BitStream) (tb : List (Option Nat)) (prev : Bool) (hv : Views s (encM tb prev))
    (bs : Bytes) (A C : List (Option Nat)) (htb : tb = A ++ nb bs ++ C) (hA : A ≠ []) (hC : C ≠ [])
    (hb : ∀ b ∈ bs, b < 256)
    (n pos pos' : Nat) (hn : n = bs.length) (hpos : pos = 16 * A.length) (hpos' : pos' = 16 * (A.length + bs.length)) :
    mfmCopyBytes s n pos [] = (true, bs, pos') := by
  rw [hn, hpos, hpos', mfmCopy_eq s tb prev hv bs A C [] htb hA hC hb]; rfl

/-! ### one step of the MFM decoder loop -/

theorem mfmLoop_header (s : BitStream) (fuel thisbit : Nat) (acc : List FSector) (hs : s.size ≠ 0)
    (i sh : Nat) (hscan : scanFor s thisbit 0xAAAA448944894489 0xFFFFFFFFFFFFFFFF 64 = some (i, sh))
    (hdr : Bytes) (pos' : Nat) (hcopy : mfmCopyBytes s 7 (i + 1) [] = (true, hdr, pos'))
    (hcrc : ccitt ([0xA1, 0xA1, 0xA1] ++ hdr) = 0) (hfe : hdr.getD 0 0 = 0xFE)
    (sz : Nat) (hsz : sizeOfCode (hdr.getD 4 0) = some sz) :
    mfmLoop s (fuel + 1) thisbit .header acc =
      mfmLoop s fuel pos' (.record (hdr.getD 1 0) (hdr.getD 2 0) (hdr.getD 3 0) sz (i + 1) pos') acc := by
  rw [mfmLoop]
  have : (s.size == 0) = false := by simp [hs]
  simp only [this, Bool.false_eq_true, if_false, hscan, hcopy, hcrc, hfe, hsz]
  simp

theorem mfmLoop_record (s : BitStream) (fuel thisbit : Nat) (acc : List FSector) (hs : s.size ≠ 0)
    (cyl head rc sz idPos hend : Nat)
    (i sh : Nat) (hscan : scanFor s thisbit 0xAAAA448944894489 0xFFFFFFFFFFFFFFFF 64 = some (i, sh))
    (hdist : i + 1 - hend ≤ 80 * 16)
    (md : Bytes) (pos' : Nat) (hcopy : mfmCopyBytes s (sz + 3) (i + 1) [] = (true, md, pos'))
    (hcrc : ccitt ([0xA1, 0xA1, 0xA1] ++ md) = 0) (hfb : md.getD 0 0 = 0xFB) :
    mfmLoop s (fuel + 1) thisbit (.record cyl head rc sz idPos hend) acc =
      mfmLoop s fuel pos' .header (({ cyl := cyl, head := head, record := rc, data := (md.drop 1).take sz, crc1 := md.getD (sz + 1) 0, crc2 := md.getD (sz + 2) 0, idPos := idPos, dataPos := i + 1 } : FSector) :: acc) := by
  rw [mfmLoop]
  have : (s.size == 0) = false := by simp [hs]
  have h2 : ¬ i + 1 - hend > 80 * 16 := by omega
  simp only [this, Bool.false_eq_true, if_false, hscan, h2, hcopy, hcrc, hfb]
  simp

theorem mfm_step (s : BitStream) (tb : List (Option Nat)) (prev : Bool) (hv : Views s (encM tb prev))
    (cyl head rc : Nat) (data : Bytes) (hcyl : cyl < 256) (hhead : head < 256) (hrc : rc < 256) (hdata : IsSector data)
    (A R : List (Option Nat)) (G1 G2 : Bytes) (hG2 : G2.length + 5 ≤ 80) (hR : R ≠ [])
    (htb : tb = A ++ nb G1 ++ [some 0, some 0, none, none, none] ++
      nb ([0xFE, cyl, head, rc, 1] ++ crcBytes [0xA1, 0xA1, 0xA1, 0xFE, cyl, head, rc, 1]) ++ nb G2 ++
      [some 0, some 0, none, none, none] ++
      nb (0xFB :: data ++ crcBytes (0xA1 :: 0xA1 :: 0xA1 :: 0xFB :: data)) ++ R) (fuel : Nat) (acc : List FSector) :
    ∃ sec, seen sec = (cyl, head, rc, data) ∧
      mfmLoop s (fuel + 2) (16 * A.length) .header acc =
        mfmLoop s fuel (16 * (A.length + G1.length + 5 + 7 + G2.length + 5 + 259)) .header (sec :: acc) := by
  have hRlen : 0 < R.length := List.length_pos_iff.mpr hR
  have hd1 := hdata.1
  have hlen : tb.length = A.length + G1.length + 5 + 7 + G2.length + 5 + 259 + R.length := by
    rw [htb]; lenarithM
  have hsz := hv.size
  rw [encM_length, hlen] at hsz
  have hs0 : s.size ≠ 0 := by omega
  have hidf : ∀ b ∈ [0xA1, 0xA1, 0xA1, 0xFE, cyl, head, rc, 1], b < 256 := by
    intro b hb; simp only [List.mem_cons, List.not_mem_nil, or_false] at hb; omega
  have hdf : ∀ b ∈ 0xA1 :: 0xA1 :: 0xA1 :: 0xFB :: data, b < 256 := by
    intro b hb; simp only [List.mem_cons] at hb
    rcases hb with hb | hb | hb | hb | hb
    · omega
    · omega
    · omega
    · omega
    · exact hdata.2 b hb
  -- the header sync
  obtain ⟨sh1, hscan1⟩ := mfm_find_sync s tb prev hv A
    (nb ([0xFE, cyl, head, rc, 1] ++ crcBytes [0xA1, 0xA1, 0xA1, 0xFE, cyl, head, rc, 1]) ++ nb G2 ++
      [some 0, some 0, none, none, none] ++
      nb (0xFB :: data ++ crcBytes (0xA1 :: 0xA1 :: 0xA1 :: 0xFB :: data)) ++ R) G1
    (by rw [htb]; simp only [List.append_assoc])
    (16 * A.length) (16 * (A.length + G1.length + 4) + 15) rfl rfl
  have hcopy1 := mfmCopy_eq' s tb prev hv ([0xFE, cyl, head, rc, 1] ++ crcBytes [0xA1, 0xA1, 0xA1, 0xFE, cyl, head, rc, 1])
    (A ++ nb G1 ++ [some 0, some 0, none, none, none])
    (nb G2 ++ [some 0, some 0, none, none, none] ++
      nb (0xFB :: data ++ crcBytes (0xA1 :: 0xA1 :: 0xA1 :: 0xFB :: data)) ++ R)
    (by rw [htb]; simp only [List.append_assoc]) (by simp) (by simp)
    (by
      intro b hb
      rw [List.mem_append] at hb
      rcases hb with hb | hb
      · simp only [List.mem_cons, List.not_mem_nil, or_false] at hb; omega
      · exact crcBytes_lt _ hidf b hb)
    7 (16 * (A.length + G1.length + 4) + 15 + 1) (16 * (A.length + G1.length + 5 + 7)) rfl
    (by lenarithM) (by lenarithM)
  have hcrc1 : ccitt ([0xA1, 0xA1, 0xA1] ++ ([0xFE, cyl, head, rc, 1] ++ crcBytes [0xA1, 0xA1, 0xA1, 0xFE, cyl, head, rc, 1])) = 0 :=
    ccitt_self [0xA1, 0xA1, 0xA1, 0xFE, cyl, head, rc, 1] hidf
  have hstep1 := mfmLoop_header s (fuel + 1) (16 * A.length) acc hs0 _ sh1 hscan1 _ _ hcopy1 hcrc1 (by rfl) 256 (by rfl)
  -- the data sync
  obtain ⟨sh2, hscan2⟩ := mfm_find_sync s tb prev hv
    (A ++ nb G1 ++ [some 0, some 0, none, none, none] ++
      nb ([0xFE, cyl, head, rc, 1] ++ crcBytes [0xA1, 0xA1, 0xA1, 0xFE, cyl, head, rc, 1]))
    (nb (0xFB :: data ++ crcBytes (0xA1 :: 0xA1 :: 0xA1 :: 0xFB :: data)) ++ R) G2
    (by rw [htb]; simp only [List.append_assoc])
    (16 * (A.length + G1.length + 5 + 7)) (16 * (A.length + G1.length + 5 + 7 + G2.length + 4) + 15)
    (by lenarithM) (by lenarithM)
  have hcopy2 := mfmCopy_eq' s tb prev hv (0xFB :: data ++ crcBytes (0xA1 :: 0xA1 :: 0xA1 :: 0xFB :: data))
    (A ++ nb G1 ++ [some 0, some 0, none, none, none] ++
      nb ([0xFE, cyl, head, rc, 1] ++ crcBytes [0xA1, 0xA1, 0xA1, 0xFE, cyl, head, rc, 1]) ++ nb G2 ++
      [some 0, some 0, none, none, none]) R htb (by simp) hR
    (by
      intro b hb
      rw [List.mem_append] at hb
      rcases hb with hb | hb
      · simp only [List.mem_cons] at hb
        rcases hb with hb | hb
        · omega
        · exact hdata.2 b hb
      · exact crcBytes_lt _ hdf b hb)
    (256 + 3) (16 * (A.length + G1.length + 5 + 7 + G2.length + 4) + 15 + 1)
    (16 * (A.length + G1.length + 5 + 7 + G2.length + 5 + 259))
    (by lenarithM) (by lenarithM) (by lenarithM)
  have hcrc2 : ccitt ([0xA1, 0xA1, 0xA1] ++ (0xFB :: data ++ crcBytes (0xA1 :: 0xA1 :: 0xA1 :: 0xFB :: data))) = 0 :=
    ccitt_self (0xA1 :: 0xA1 :: 0xA1 :: 0xFB :: data) hdf
  have hstep2 := mfmLoop_record s fuel (16 * (A.length + G1.length + 5 + 7)) acc hs0
    cyl head rc 256 (16 * (A.length + G1.length + 4) + 15 + 1) (16 * (A.length + G1.length + 5 + 7)) _ sh2 hscan2
    (by omega) _ _ hcopy2 hcrc2 (by rfl)
  refine ⟨_, ?_, hstep1.trans hstep2⟩
  simp only [seen]
  have : List.drop 1 (0xFB :: data ++ crcBytes (0xA1 :: 0xA1 :: 0xA1 :: 0xFB :: data)) =
      data ++ crcBytes (0xA1 :: 0xA1 :: 0xA1 :: 0xFB :: data) := rfl
  rw [this, List.take_left' hdata.1]

/-! ### the whole MFM track -/

def msecB' (lay : Layout) (cyl head rc : Nat) (data : Bytes) : List (Option Nat) :=
  nb (List.replicate (max lay.sync 2) 0) ++ [none, none, none] ++
  nb ([0xFE, cyl, head, rc, 1] ++ crcBytes [0xA1, 0xA1, 0xA1, 0xFE, cyl, head, rc, 1]) ++
  nb (List.replicate (max lay.gap2 1) (mfmFill lay)) ++
  nb (List.replicate (max lay.sync 2) 0) ++ [none, none, none] ++
  nb (0xFB :: data ++ crcBytes (0xA1 :: 0xA1 :: 0xA1 :: 0xFB :: data))

def msecB (lay : Layout) (cyl head rc : Nat) (data : Bytes) : List (Option Nat) :=
  msecB' lay cyl head rc data ++ nb (List.replicate (max lay.gap3 1) (mfmFill lay))

def trackM (lay : Layout) (cyl head : Nat) (secs : List (Nat × Bytes)) : List (Option Nat) :=
  nb (List.replicate lay.gap1 (mfmFill lay)) ++ secs.flatMap (fun p => msecB lay cyl head p.1 p.2) ++
  nb (List.replicate lay.gap4 (mfmFill lay))

theorem encM_sync3 (Y : List (Option Nat)) (p : Bool) :
    encM ([none, none, none] ++ Y) p = a1Sync ++ a1Sync ++ a1Sync ++ encM Y true := by
  simp only [List.cons_append, List.nil_append, encM, byteCells, dataM, List.append_assoc]
  have : Nat.testBit 0xA1 0 = true := by decide
  rw [this]

theorem lastD_sync3 (Y : List (Option Nat)) (p : Bool) : lastD ([none, none, none] ++ Y) p = lastD Y true := by
  simp only [List.cons_append, List.nil_append, lastD, dataM]
  have : Nat.testBit 0xA1 0 = true := by decide
  rw [this]

theorem mfmSector_eq (lay : Layout) (cyl head rc : Nat) (data : Bytes) (prev : Bool) :
    mfmSector lay cyl head rc data prev =
      (encM (msecB lay cyl head rc data) prev, lastD (msecB lay cyl head rc data) prev) := by
  simp only [mfmSector, msecB, msecB', List.append_assoc, encM_append, lastD_append,
    (encM_nb _ _).1, (encM_nb _ _).2]
  rfl

theorem mfmSectors_eq (lay : Layout) (cyl head : Nat) (secs : List (Nat × Bytes)) (prev : Bool) :
    mfmSectors lay cyl head secs prev =
      (encM (secs.flatMap (fun p => msecB lay cyl head p.1 p.2)) prev,
       lastD (secs.flatMap (fun p => msecB lay cyl head p.1 p.2)) prev) := by
  induction secs generalizing prev with
  | nil => rfl
  | cons x r ih =>
    simp only [mfmSectors, mfmSector_eq, ih, List.flatMap_cons, encM_append, lastD_append]

theorem mfmTrack_eq (lay : Layout) (cyl head : Nat) (secs : List (Nat × Bytes)) :
    mfmTrack lay cyl head secs = encM (trackM lay cyl head secs) false := by
  simp only [mfmTrack, trackM, mfmSectors_eq, encM_append, lastD_append, (encM_nb _ _).1, (encM_nb _ _).2]

theorem mfmFill_lt (lay : Layout) (h : lay.fill < 256) : mfmFill lay < 256 := by
  unfold mfmFill; split <;> omega

theorem mfm_loop_all (s : BitStream) (tb : List (Option Nat)) (prev : Bool) (hv : Views s (encM tb prev))
    (lay : Layout) (hl : LegalMfm lay) (cyl head : Nat) (hcyl : cyl < 256) (hhead : head < 256) :
    ∀ (rest : List (Nat × Bytes)) (_hs : TrackOK rest) (A : List (Option Nat)) (g : Nat) (acc : List FSector)
      (fuel : Nat),
      tb = A ++ nb (List.replicate g (mfmFill lay)) ++ rest.flatMap (fun p => msecB lay cyl head p.1 p.2) ++
        nb (List.replicate lay.gap4 (mfmFill lay)) →
      2 * rest.length + 1 ≤ fuel →
      ∃ out, mfmLoop s fuel (16 * A.length) .header acc = acc.reverse ++ out ∧
        out.map seen = rest.map (fun p => (cyl, head, p.1, p.2)) := by
  intro rest
  induction rest with
  | nil =>
    intro _ A g acc fuel htb hfuel
    refine ⟨[], ?_, rfl⟩
    obtain ⟨f, rfl⟩ : ∃ f, fuel = f + 1 := ⟨fuel - 1, by omega⟩
    rw [mfmLoop]
    split
    · simp
    · split
      · simp
      · rename_i i sh hscan
        exfalso
        obtain ⟨h1, h2, h3, _, _⟩ := scanFor_some s _ _ _ 64 (by omega) (by omega) (by decide) i sh hscan
        obtain ⟨k, hk1, hk2, hk3, hk4⟩ := mfm_window s tb prev hv i (by omega) h3
        have hlen : tb.length = A.length + g + lay.gap4 := by rw [htb]; simp [nb_length]; omega
        have htb2 : tb = A ++ nb (List.replicate g (mfmFill lay) ++ List.replicate lay.gap4 (mfmFill lay)) ++ [] := by
          rw [htb, nb_append]; simp only [List.flatMap_nil, List.append_nil, List.append_assoc]
        rw [htb2] at hk4
        exact nb_some A [] _ (k - 2) (by omega) (by simp; omega) hk4
  | cons x rest ih =>
    intro hs A g acc fuel htb hfuel
    obtain ⟨f, rfl⟩ : ∃ f, fuel = f + 2 := ⟨fuel - 2, by simp at hfuel; omega⟩
    have hx := hs x (by simp)
    obtain ⟨hg2, hg4, hfill⟩ := hl
    have hR : nb (List.replicate (max lay.gap3 1) (mfmFill lay)) ++ rest.flatMap (fun p => msecB lay cyl head p.1 p.2) ++
        nb (List.replicate lay.gap4 (mfmFill lay)) ≠ [] := by
      intro h
      have := congrArg List.length h
      simp [nb_length] at this <;> omega
    have htb' : tb = A ++ nb (List.replicate g (mfmFill lay) ++ List.replicate (max lay.sync 2 - 2) 0) ++
        [some 0, some 0, none, none, none] ++
        nb ([0xFE, cyl, head, x.1, 1] ++ crcBytes [0xA1, 0xA1, 0xA1, 0xFE, cyl, head, x.1, 1]) ++
        nb (List.replicate (max lay.gap2 1) (mfmFill lay) ++ List.replicate (max lay.sync 2 - 2) 0) ++
        [some 0, some 0, none, none, none] ++
        nb (0xFB :: x.2 ++ crcBytes (0xA1 :: 0xA1 :: 0xA1 :: 0xFB :: x.2)) ++
        (nb (List.replicate (max lay.gap3 1) (mfmFill lay)) ++ rest.flatMap (fun p => msecB lay cyl head p.1 p.2) ++
          nb (List.replicate lay.gap4 (mfmFill lay))) := by
      rw [htb]
      simp only [List.flatMap_cons, msecB, msecB', replicate_split (max lay.sync 2) (by omega), nb_append,
        List.append_assoc]
      rfl
    obtain ⟨sec, hsec, hstep⟩ := mfm_step s tb prev hv cyl head x.1 x.2 hcyl hhead hx.1 hx.2 A _ _ _
      (by simp; omega) hR htb' f acc
    have := ih (fun p hp => hs p (by simp [hp]))
      (A ++ nb (List.replicate g (mfmFill lay) ++ List.replicate (max lay.sync 2 - 2) 0) ++
        [some 0, some 0, none, none, none] ++
        nb ([0xFE, cyl, head, x.1, 1] ++ crcBytes [0xA1, 0xA1, 0xA1, 0xFE, cyl, head, x.1, 1]) ++
        nb (List.replicate (max lay.gap2 1) (mfmFill lay) ++ List.replicate (max lay.sync 2 - 2) 0) ++
        [some 0, some 0, none, none, none] ++
        nb (0xFB :: x.2 ++ crcBytes (0xA1 :: 0xA1 :: 0xA1 :: 0xFB :: x.2)))
      (max lay.gap3 1) (sec :: acc) f (by rw [htb']; simp only [List.append_assoc]) (by simp at hfuel; omega)
    obtain ⟨out, ho1, ho2⟩ := this
    refine ⟨sec :: out, ?_, ?_⟩
    · rw [hstep]
      have hd1 := hx.2.1
      have e : 16 * (A.length + (List.replicate g (mfmFill lay) ++ List.replicate (max lay.sync 2 - 2) 0).length + 5 + 7 +
          (List.replicate (max lay.gap2 1) (mfmFill lay) ++ List.replicate (max lay.sync 2 - 2) 0).length + 5 + 259) =
          16 * (A ++ nb (List.replicate g (mfmFill lay) ++ List.replicate (max lay.sync 2 - 2) 0) ++
        [some 0, some 0, none, none, none] ++
        nb ([0xFE, cyl, head, x.1, 1] ++ crcBytes [0xA1, 0xA1, 0xA1, 0xFE, cyl, head, x.1, 1]) ++
        nb (List.replicate (max lay.gap2 1) (mfmFill lay) ++ List.replicate (max lay.sync 2 - 2) 0) ++
        [some 0, some 0, none, none, none] ++
        nb (0xFB :: x.2 ++ crcBytes (0xA1 :: 0xA1 :: 0xA1 :: 0xFB :: x.2))).length := by
        lenarithM
      rw [e, ho1]
      simp
    · simp [hsec, ho2]

theorem mfm_track_roundtrip (lay : Layout) (cyl head : Nat) (secs : List (Nat × Bytes)) (padding : Nat)
    (hl : LegalMfm lay) (hc : cyl < 256) (hh : head < 256) (hs : TrackOK secs) :
    let stored := packLsb (mfmTrack lay cyl head secs) ++ List.replicate padding 0
    (decodeMfm (hfeBitStream false stored)).map seen = secs.map (fun p => (cyl, head, p.1, p.2)) := by
  intro stored
  have hv : Views (hfeBitStream false stored) (encM (trackM lay cyl head secs) false) := by
    rw [← mfmTrack_eq]; exact views_mfm _ _
  have hfuel : 2 * secs.length + 1 ≤ (hfeBitStream false stored).bits.size + 2 := by
    have h1 := hv.bits
    rw [encM_length] at h1
    have h2 : secs.length ≤ (trackM lay cyl head secs).length := by
      unfold trackM
      have := flatMap_length_ge secs (fun p => msecB lay cyl head p.1 p.2) (by
        intro x; simp [msecB, msecB', nb_length]; omega)
      simp only [List.length_append]
      omega
    omega
  obtain ⟨out, h1, h2⟩ := mfm_loop_all _ _ false hv lay hl cyl head hc hh secs hs []
    lay.gap1 [] _ (by simp [trackM]) hfuel
  unfold decodeMfm
  rw [show (0:Nat) = 16 * ([] : List (Option Nat)).length by rfl, h1]
  simpa using h2

end Beeb.TrackRT
