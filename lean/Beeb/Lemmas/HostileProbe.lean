/-
Lemmas for C07, part 1: the identification code (`probeFormat` and friends) and
`FileSystem.make` never reach a crash site.
  * `smells_like_watford`: `buf1[pos+7]` stays inside the buffer when byte 5 of
    sector 1 is a byte (< 256);
  * `smells_like_opus_ddos`: `assert(loc.start_sector() > 17)` holds because the
    start is a non-zero track number times 18;
  * `FileSystem::FileSystem`: the format handed over is the one `probe_format`
    returned on the same medium, and that is HDFS iff bit 3 of sector 1 byte 6 is set.
-/
import Beeb.Model.Main
import Beeb.Lemmas.Identify
import Beeb.Lemmas.MainL

namespace Beeb.HostileL
open Beeb Beeb.Gen Beeb.MainL Beeb.IdentifyL

/-! ### media that deliver bytes -/

/-- every sector the medium delivers consists of bytes -/
def MediaBytes (m : Media) : Prop := ∀ lba s, m lba = some s → IsBytes s

/-- what the Watford probe needs: byte 5 of sector 1 is a byte -/
def W (m : Media) : Prop := ∀ s1, m 1 = some s1 → sget s1 5 < 256

theorem W_of_bytes (m : Media) (h : MediaBytes m) : W m :=
  fun s1 h1 => sget_lt s1 (h 1 s1 h1) 5

theorem readBlock_bytes (v : View) (m : Media) (h : MediaBytes m) : MediaBytes (v.readBlock m) := by
  intro lba s hs
  unfold View.readBlock at hs
  split at hs
  · cases hs
  · split at hs
    · cases hs
    · exact h _ s hs

/-! ### the Watford guard -/

theorem watford_go_some (s1 : Sector) (last : Nat) (hl : last < 256) :
    ∀ fuel pos, pos % 8 = 0 → watfordFileAt2.go s1 last fuel pos ≠ none := by
  intro fuel
  induction fuel with
  | zero => intro pos _; simp [watfordFileAt2.go]
  | succ fuel ih =>
    intro pos hp
    unfold watfordFileAt2.go
    by_cases h1 : pos > last
    · simp [h1]
    · have h2 : ¬ (pos + 7 ≥ 256) := by omega
      rw [if_neg h1, if_neg h2]
      split
      · simp
      · exact ih (pos + 8) (by omega)

theorem watfordFileAt2_some (s1 : Sector) (hl : sget s1 5 < 256) : watfordFileAt2 s1 ≠ none := by
  unfold watfordFileAt2
  exact watford_go_some s1 _ hl 33 8 (by decide)

theorem smellsLikeWatford_NA (m : Media) (s1 : Sector) (hl : sget s1 5 < 256) :
    NA (smellsLikeWatford m s1) := by
  unfold smellsLikeWatford
  have := watfordFileAt2_some s1 hl
  split
  · contradiction
  · trivial
  · split <;> trivial

/-! ### catalogues and volumes never abort -/

theorem catalogGo_NA (fmt : Format) (loc : Nat) (m : Media) :
    ∀ k i acc, NA (Catalog.read.go fmt loc m k i acc) := by
  intro k
  induction k with
  | zero => intro i acc; simp [Catalog.read.go]
  | succ k ih =>
    intro i acc
    unfold Catalog.read.go
    split
    · exact ih _ _
    · trivial

theorem catalogRead_NA (fmt : Format) (loc : Nat) (m : Media) : NA (Catalog.read fmt loc m) := by
  unfold Catalog.read
  have := catalogGo_NA fmt loc m (if fmt == Format.WDFS then 2 else 1) 0 []
  revert this
  simp only []
  cases Catalog.read.go fmt loc m (if fmt == Format.WDFS then 2 else 1) 0 [] <;> simp

theorem volumeMake_NA (fmt : Format) (loc origin len : Nat) (m : Media) :
    NA (Volume.make fmt loc origin len m) := by
  unfold Volume.make
  have := catalogRead_NA fmt loc m
  revert this
  simp only [bind, Res.bind, pure]
  cases Catalog.read fmt loc m <;> simp

/-! ### the Opus volume table -/

theorem opusTableLoop_NA (s16 : Sector) (spt : Nat) (gc : Option Nat) :
    ∀ fuel i off acc, NA (opusTableLoop s16 spt gc fuel i off acc) := by
  intro fuel
  induction fuel with
  | zero => intro i off acc; simp [opusTableLoop]
  | succ fuel ih =>
    intro i off acc
    unfold opusTableLoop
    simp only []
    split
    · exact ih _ _ _
    · split
      · split
        · trivial
        · exact ih _ _ _
      · exact ih _ _ _

theorem opusAssignLens_NA : ∀ (l : List VolLoc) (next : Nat), NA (opusAssignLens l next) := by
  intro l
  induction l with
  | nil => intro next; simp [opusAssignLens]
  | cons v rest ih =>
    intro next
    unfold opusAssignLens
    split
    · trivial
    · have := ih v.start
      revert this
      cases opusAssignLens rest v.start <;> simp

theorem opusLocations_NA (s16 : Sector) (geom : Option Geometry) : NA (opusLocations s16 geom) := by
  unfold opusLocations
  simp only []
  split
  · trivial
  · rename_i s hs
    -- the consistency check never aborts
    exfalso
    split at hs
    · split at hs
      · cases hs
      · split at hs <;> cases hs
    · cases hs
  · have h1 := opusTableLoop_NA s16 (sget s16 3) (geom.map (·.cylinders)) 8 0 8 []
    revert h1
    cases opusTableLoop s16 (sget s16 3) (geom.map (·.cylinders)) 8 0 8 [] with
    | abort s => simp
    | err e => intro _; trivial
    | ok locs =>
      intro _
      simp only []
      have h2 := opusAssignLens_NA (sortLocs locs).reverse ((sget s16 1 <<< 8) ||| sget s16 2)
      revert h2
      cases opusAssignLens (sortLocs locs).reverse ((sget s16 1 <<< 8) ||| sget s16 2) <;> simp

/-- every volume the table loop produces starts at a non-zero track times `spt` -/
theorem opusTableLoop_start (s16 : Sector) (spt : Nat) (gc : Option Nat) :
    ∀ (fuel i off : Nat) (acc r : List VolLoc),
      (∀ l ∈ acc, spt ≤ l.start) →
      opusTableLoop s16 spt gc fuel i off acc = .ok r → ∀ l ∈ r, spt ≤ l.start := by
  intro fuel
  induction fuel with
  | zero =>
    intro i off acc r hacc h l hl
    simp only [opusTableLoop, Res.ok.injEq] at h
    subst h
    exact hacc l (List.mem_reverse.mp hl)
  | succ fuel ih =>
    intro i off acc r hacc h
    unfold opusTableLoop at h
    simp only [] at h
    split at h
    · exact ih _ _ _ _ hacc h
    · rename_i htr
      have htr' : 1 ≤ sget s16 off := by
        have : sget s16 off ≠ 0 := by simpa using htr
        omega
      have hacc' : ∀ l ∈ ({ catLoc := i * 2, start := sget s16 off * spt, len := 0, label := 65 + i } : VolLoc) :: acc,
          spt ≤ l.start := by
        intro l hl
        rcases List.mem_cons.mp hl with rfl | hl
        · exact Nat.le_mul_of_pos_left spt htr'
        · exact hacc l hl
      split at h
      · split at h
        · cases h
        · exact ih _ _ _ _ hacc' h
      · exact ih _ _ _ _ hacc' h

theorem opusAssignLens_start : ∀ (l : List VolLoc) (next : Nat) (r : List VolLoc),
    opusAssignLens l next = .ok r → ∀ y ∈ r, ∃ v ∈ l, y.start = v.start := by
  intro l
  induction l with
  | nil =>
    intro next r h y hy
    simp only [opusAssignLens, Res.ok.injEq] at h
    subst h; cases hy
  | cons v rest ih =>
    intro next r h y hy
    unfold opusAssignLens at h
    split at h
    · cases h
    · split at h
      · rename_i r' hr'
        simp only [Res.ok.injEq] at h
        subst h
        rcases List.mem_cons.mp hy with rfl | hy
        · exact ⟨v, List.mem_cons_self, rfl⟩
        · obtain ⟨w, hw, he⟩ := ih _ _ hr' y hy
          exact ⟨w, List.mem_cons_of_mem _ hw, he⟩
      · cases h
      · cases h

theorem opusLocations_start (s16 : Sector) (geom : Option Geometry) (locs : List VolLoc)
    (h : opusLocations s16 geom = .ok locs) : ∀ l ∈ locs, sget s16 3 ≤ l.start := by
  unfold opusLocations at h
  simp only [] at h
  split at h
  · cases h
  · cases h
  · split at h
    · cases h
    · cases h
    · rename_i tl htl
      split at h
      · rename_i r hr
        simp only [Res.ok.injEq] at h
        subst h
        intro l hl
        obtain ⟨v, hv, he⟩ := opusAssignLens_start _ _ _ hr l (List.mem_reverse.mp hl)
        have hv' := mem_sortLocs _ _ (List.mem_reverse.mp hv)
        have := opusTableLoop_start _ _ _ 8 0 8 [] tl (by intro l hl; cases hl) htl v hv'
        omega
      · cases h
      · cases h

/-! ### `smells_like_opus_ddos` -/

theorem chk_NA (m : Media) (nd : Bool) (l : List VolLoc) (h17 : ∀ x ∈ l, x.start > 17) :
    NA (smellsLikeOpus.chk m nd l) := by
  induction l with
  | nil => simp [smellsLikeOpus.chk]
  | cons a rest ih =>
    have ha : a.start > 17 := h17 a List.mem_cons_self
    have ih' := ih (fun x hx => h17 x (List.mem_cons_of_mem _ hx))
    simp only [smellsLikeOpus.chk, ha, decide_true, Bool.not_true, Bool.and_false, Bool.false_eq_true, if_false]
    have hv := volumeMake_NA Format.OpusDDOS a.catLoc a.start a.len m
    revert hv
    cases Volume.make Format.OpusDDOS a.catLoc a.start a.len m with
    | abort s => simp
    | err e => intro _; trivial
    | ok v =>
      intro _
      simp only []
      split
      · exact ih'
      · trivial

/-- the assertion in the loop is never consulted with a failing condition: both builds agree -/
theorem chk_ndeq (m : Media) (nd : Bool) (l : List VolLoc) (h17 : ∀ x ∈ l, x.start > 17) :
    smellsLikeOpus.chk m nd l = smellsLikeOpus.chk m true l := by
  induction l with
  | nil => simp [smellsLikeOpus.chk]
  | cons a rest ih =>
    have ha : a.start > 17 := h17 a List.mem_cons_self
    have ih' := ih (fun x hx => h17 x (List.mem_cons_of_mem _ hx))
    simp only [smellsLikeOpus.chk, ha, decide_true, Bool.not_true, Bool.and_false, Bool.false_eq_true, if_false, ih']

theorem opus_starts (s16 : Sector) (locs : List VolLoc) (h3 : ¬ (sget s16 3 != 18) = true)
    (h : opusLocations s16 none = .ok locs) : ∀ x ∈ locs, x.start > 17 := by
  intro x hx
  have := opusLocations_start s16 none locs h x hx
  have h18 : sget s16 3 = 18 := by simpa using h3
  omega

theorem smellsLikeOpus_NA (m : Media) (nd : Bool) : NA (smellsLikeOpus m nd) := by
  unfold smellsLikeOpus
  split
  · trivial
  · rename_i s16 _
    simp only []
    split
    · trivial
    · rename_i h3
      have hl := opusLocations_NA s16 none
      split
      · trivial
      · rename_i s hs; rw [hs] at hl; exact hl.elim
      · rename_i locs hlocs
        split
        · trivial
        · have hc := chk_NA m nd locs (opus_starts s16 locs h3 hlocs)
          revert hc
          cases smellsLikeOpus.chk m nd locs with
          | abort s => simp
          | err e => intro _; trivial
          | ok b =>
            intro _
            cases b
            · trivial
            · simp only []
              split
              · trivial
              · split
                · trivial
                · split <;> trivial

theorem smellsLikeOpus_ndeq (m : Media) (nd : Bool) : smellsLikeOpus m nd = smellsLikeOpus m true := by
  unfold smellsLikeOpus
  split
  · rfl
  · rename_i s16 _
    simp only []
    split
    · rfl
    · rename_i h3
      split
      · rfl
      · rfl
      · rename_i locs hlocs
        rw [chk_ndeq m nd locs (opus_starts s16 locs h3 hlocs)]

/-! ### `probe_format` -/

theorem smellsLikeAcorn_NA (m : Media) (s1 : Sector) (nd : Bool) (hl : sget s1 5 < 256) :
    NA (smellsLikeAcorn m s1 nd) := by
  unfold smellsLikeAcorn
  split
  · trivial
  · have hw := smellsLikeWatford_NA m s1 hl
    revert hw
    cases smellsLikeWatford m s1 with
    | abort s => simp
    | err e => intro _; trivial
    | ok b =>
      intro _
      cases b
      · simp only []
        have ho := smellsLikeOpus_NA m nd
        revert ho
        cases smellsLikeOpus m nd with
        | abort s => simp
        | err e => intro _; trivial
        | ok o => intro _; cases o <;> trivial
      · trivial

theorem smellsLikeAcorn_ndeq (m : Media) (s1 : Sector) (nd : Bool) :
    smellsLikeAcorn m s1 nd = smellsLikeAcorn m s1 true := by
  unfold smellsLikeAcorn
  rw [smellsLikeOpus_ndeq m nd]

theorem probeFormat_NA (m : Media) (nd : Bool) (hw : W m) : NA (probeFormat m nd) := by
  unfold probeFormat
  split
  · trivial
  · rename_i s1 h1
    have hl := hw s1 h1
    split
    · trivial
    · have hwf := smellsLikeWatford_NA m s1 hl
      revert hwf
      cases smellsLikeWatford m s1 with
      | abort s => simp
      | err e => intro _; trivial
      | ok b =>
        intro _
        cases b
        · simp only []
          have ho := smellsLikeOpus_NA m nd
          revert ho
          cases smellsLikeOpus m nd with
          | abort s => simp
          | err e => intro _; trivial
          | ok o =>
            intro _
            cases o
            · simp only []
              have ha := smellsLikeAcorn_NA m s1 nd hl
              revert ha
              cases smellsLikeAcorn m s1 nd with
              | abort s => simp
              | err e => intro _; trivial
              | ok b => intro _; cases b <;> trivial
            · trivial
        · trivial

theorem probeFormat_ndeq (m : Media) (nd : Bool) : probeFormat m nd = probeFormat m true := by
  unfold probeFormat
  simp only [smellsLikeOpus_ndeq m nd, smellsLikeAcorn_ndeq m _ nd]

/-- the format is consistent with bit 3 of byte 6 of sector 1 on medium `m` — what the
    assertions in `FileSystem::FileSystem` check -/
def FmtOk (m : Media) (f : Format) : Prop :=
  ∀ s1, m 1 = some s1 → (smellsLikeHdfs s1 = true ↔ f = Format.HDFS)

theorem probeFormat_fmt (m : Media) (nd : Bool) (f : Format) (n : Nat)
    (h : probeFormat m nd = .ok (some (f, n))) : FmtOk m f := by
  intro s1' h1'
  unfold probeFormat at h
  rw [h1'] at h
  simp only [] at h
  by_cases hh : smellsLikeHdfs s1' = true
  · rw [if_pos hh] at h
    simp only [Res.ok.injEq, Option.some.injEq, Prod.mk.injEq] at h
    simp [hh, h.1.symm]
  · rw [if_neg hh] at h
    have hne : f ≠ Format.HDFS := by
      split at h
      · cases h
      · cases h
      · simp only [Res.ok.injEq, Option.some.injEq, Prod.mk.injEq] at h
        rw [← h.1]; decide
      · split at h
        · cases h
        · cases h
        · simp only [Res.ok.injEq, Option.some.injEq, Prod.mk.injEq] at h
          rw [← h.1]; decide
        · split at h
          · cases h
          · cases h
          · simp only [Res.ok.injEq, Option.some.injEq, Prod.mk.injEq] at h
            rw [← h.1]; decide
          · cases h
    simp [hh, hne]

theorem probe_NA (m : Media) (cands : List ImgFmt) (nd : Bool) (hw : W m) : NA (probe m cands nd) := by
  unfold probe
  have := probeFormat_NA m nd hw
  revert this
  cases probeFormat m nd with
  | abort s => simp
  | err e => intro _; trivial
  | ok o =>
    intro _
    cases o with
    | none => trivial
    | some p =>
      obtain ⟨f, t⟩ := p
      simp only []
      split <;> trivial

theorem probe_ndeq (m : Media) (cands : List ImgFmt) (nd : Bool) : probe m cands nd = probe m cands true := by
  unfold probe
  rw [probeFormat_ndeq m nd]

theorem probe_fmt (m : Media) (cands : List ImgFmt) (nd : Bool) (f : Format) (ff : ImgFmt)
    (h : probe m cands nd = .ok (some (f, ff))) : FmtOk m f := by
  unfold probe at h
  split at h
  · cases h
  · cases h
  · cases h
  · rename_i fmt total hp
    split at h
    · cases h
    · simp only [Res.ok.injEq, Option.some.injEq, Prod.mk.injEq] at h
      rw [← h.1]
      exact probeFormat_fmt m nd fmt total hp

theorem identifyImage_NA (m : Media) (name : String) (nd : Bool) (hw : W m) :
    NA (identifyImage m name nd) := by
  unfold identifyImage
  have := probe_NA m (candidateList name) nd hw
  revert this
  cases probe m (candidateList name) nd with
  | abort s => simp
  | err e => intro _; trivial
  | ok o =>
    intro _
    cases o with
    | none => trivial
    | some p => trivial

theorem identifyImage_ndeq (m : Media) (name : String) (nd : Bool) :
    identifyImage m name nd = identifyImage m name true := by
  unfold identifyImage
  rw [probe_ndeq m _ nd]

theorem identifyFileSystem_NA (m : Media) (g : Geometry) (il nd : Bool) (hw : W m) :
    NA (identifyFileSystem m g il nd) := by
  unfold identifyFileSystem
  have := probe_NA m [{ geom := g, interleaved := il }] nd hw
  revert this
  cases probe m [{ geom := g, interleaved := il }] nd with
  | abort s => simp
  | err e => intro _; trivial
  | ok o =>
    intro _
    cases o with
    | none => trivial
    | some p => trivial

theorem identifyFileSystem_ndeq (m : Media) (g : Geometry) (il nd : Bool) :
    identifyFileSystem m g il nd = identifyFileSystem m g il true := by
  unfold identifyFileSystem
  rw [probe_ndeq m _ nd]

theorem identifyFileSystem_fmt (m : Media) (g : Geometry) (il nd : Bool) (f : Format)
    (h : identifyFileSystem m g il nd = .ok (some f)) : FmtOk m f := by
  unfold identifyFileSystem at h
  split at h
  · rename_i f' ff hp
    simp only [Res.ok.injEq, Option.some.injEq] at h
    rw [← h]
    exact probe_fmt m _ nd f' ff hp
  · cases h
  · cases h
  · cases h

/-! ### `FileSystem::FileSystem` -/

theorem mk_NA (m : Media) (fmt : Format) (l : List VolLoc) : NA (initVolumes.mk m fmt l) := by
  induction l with
  | nil => simp [initVolumes.mk]
  | cons a rest ih =>
    unfold initVolumes.mk
    have hv := volumeMake_NA fmt a.catLoc a.start a.len m
    revert hv
    cases Volume.make fmt a.catLoc a.start a.len m with
    | abort s => simp
    | err e => intro _; trivial
    | ok v =>
      intro _
      simp only []
      revert ih
      cases initVolumes.mk m fmt rest <;> simp

theorem initVolumes_NA (m : Media) (fmt : Format) (geom : Geometry) : NA (initVolumes m fmt geom) := by
  unfold initVolumes
  split
  · split
    · trivial
    · rename_i s16 _
      have hl := opusLocations_NA s16 (some geom)
      revert hl
      cases opusLocations s16 (some geom) with
      | abort s => simp
      | err e => intro _; trivial
      | ok locs =>
        intro _
        simp only []
        have hm := mk_NA m fmt locs
        revert hm
        cases initVolumes.mk m fmt locs <;> simp
  · have hv := volumeMake_NA fmt 0 0 geom.totalSectors m
    revert hv
    cases Volume.make fmt 0 0 geom.totalSectors m <;> simp

theorem make_NA (m : Media) (fmt : Format) (geom : Geometry) (nd : Bool) (hf : FmtOk m fmt) :
    NA (FileSystem.make m fmt geom nd) := by
  unfold FileSystem.make
  have hi := initVolumes_NA m fmt geom
  revert hi
  cases initVolumes m fmt geom with
  | abort s => simp
  | err e => intro _; trivial
  | ok vols =>
    intro _
    simp only []
    split
    · trivial
    · rename_i s1 h1
      have hiff := hf s1 h1
      unfold smellsLikeHdfs at hiff
      by_cases hfmt : fmt = Format.HDFS
      · have hb : (sget s1 6 &&& 8 != 0) = true := hiff.mpr hfmt
        simp [hb, hfmt]
      · have hb : ¬ (sget s1 6 &&& 8 != 0) = true := fun h => hfmt (hiff.mp h)
        have hfmt' : (fmt == Format.HDFS) = false := by simpa using hfmt
        simp only [hb, hfmt', if_false, Bool.false_eq_true]
        simp

end Beeb.HostileL
