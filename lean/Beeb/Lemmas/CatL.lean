/-
Lemmas behind C02 (continued): title, cycle/boot option, the order of `cat`,
the cells of the listing, the XMODEM CRC and the `.inf` line.
-/
import Beeb.Model.Cmd
import Beeb.Spec.Cat
import Beeb.Spec.Info
import Beeb.Lemmas.Leaf
import Beeb.Props.C02

namespace Beeb.CatL
open Beeb Beeb.Gen Beeb.Spec Beeb.Leaf Beeb.Bits

/-! ### title -/

theorem takeWhile_eq_self_of_length {α} (p : α → Bool) (l : List α)
    (h : (l.takeWhile p).length = l.length) : l.takeWhile p = l := by
  induction l with
  | nil => rfl
  | cons x xs ih =>
    by_cases hp : p x = true
    · simp only [List.takeWhile_cons, hp, if_true, List.length_cons] at h ⊢
      rw [ih (by omega)]
    · simp [hp] at h

theorem takeWhile_append' {α} (p : α → Bool) (xs ys : List α) :
    (xs ++ ys).takeWhile p =
      if (xs.takeWhile p).length < xs.length then xs.takeWhile p
      else xs.takeWhile p ++ ys.takeWhile p := by
  induction xs with
  | nil => simp
  | cons x xs ih =>
    by_cases hp : p x = true
    · simp only [List.cons_append, List.takeWhile_cons, hp, if_true, List.length_cons, ih,
        Nat.add_lt_add_iff_right]
      split <;> simp
    · simp [hp]

theorem title_eq (fmt : Format) (s0 s1 : Sector) (h0 : 8 ≤ s0.length) (_h1 : 4 ≤ s1.length) :
    (Fragment.ofSectors fmt s0 s1).title = Spec.title s0 s1 := by
  show convertTitle s0 s1 = Spec.title s0 s1
  unfold convertTitle Spec.title
  have hlen : (s0.take 8).length = 8 := by simp; omega
  have hfun : byte_to_ascii7 = (· % 128) := funext byte_to_ascii7_eq
  simp only [takeWhile_append', hlen, hfun]

/-! ### cycle and boot option -/

theorem cycle_boot_eq (fmt : Format) (s0 s1 : Sector) :
    (Fragment.ofSectors fmt s0 s1).seq = sget s1 4 ∧
    (Fragment.ofSectors fmt s0 s1).boot = sget s1 6 / 16 % 4 := by
  refine ⟨rfl, ?_⟩
  show (sget s1 6 >>> 4) &&& 3 = sget s1 6 / 16 % 4
  rw [and_3, shr_eq]

/-! ### insertion sort -/

theorem insertBy_perm {α} (less : α → α → Bool) (x : α) (l : List α) :
    (insertBy less x l).Perm (x :: l) := by
  induction l with
  | nil => exact List.Perm.refl _
  | cons y ys ih =>
    unfold insertBy
    split
    · exact List.Perm.refl _
    · exact (List.Perm.cons y ih).trans (List.Perm.swap x y ys)

theorem sortBy_perm {α} (less : α → α → Bool) (l : List α) : (sortBy less l).Perm l := by
  induction l with
  | nil => exact List.Perm.refl _
  | cons x xs ih =>
    show (insertBy less x (sortBy less xs)).Perm (x :: xs)
    exact (insertBy_perm less x _).trans (List.Perm.cons x ih)

theorem catSorted_perm (curDir : Nat) (c : Catalog) : (catSorted curDir c).Perm c.entries :=
  sortBy_perm _ _

theorem insertBy_sorted {α} (less : α → α → Bool)
    (asymm : ∀ a b, less a b = true → ¬ less b a = true)
    (trans : ∀ a b c, less a b = true → less b c = true → less a c = true)
    (x : α) (l : List α) (hl : l.Pairwise (fun a b => ¬ less b a = true)) :
    (insertBy less x l).Pairwise (fun a b => ¬ less b a = true) := by
  induction l with
  | nil => simp [insertBy]
  | cons y ys ih =>
    rw [List.pairwise_cons] at hl
    unfold insertBy
    split
    · rename_i hxy
      rw [List.pairwise_cons]
      refine ⟨?_, List.pairwise_cons.mpr hl⟩
      intro z hz
      rcases List.mem_cons.mp hz with rfl | hz
      · exact asymm _ _ hxy
      · intro hzx
        exact hl.1 z hz (trans _ _ _ hzx hxy)
    · rename_i hxy
      rw [List.pairwise_cons]
      refine ⟨?_, ih hl.2⟩
      intro z hz
      have := (insertBy_perm less x ys).mem_iff.mp hz
      rcases List.mem_cons.mp this with rfl | hz
      · exact hxy
      · exact hl.1 z hz

theorem sortBy_sorted {α} (less : α → α → Bool)
    (asymm : ∀ a b, less a b = true → ¬ less b a = true)
    (trans : ∀ a b c, less a b = true → less b c = true → less a c = true)
    (l : List α) : (sortBy less l).Pairwise (fun a b => ¬ less b a = true) := by
  induction l with
  | nil => simp [sortBy]
  | cons x xs ih => exact insertBy_sorted less asymm trans x _ ih

/-! ### the comparator -/

theorem toLowerC_eq : toLowerC = lower := rfl

theorem ciLess_eq (a b : Bytes) : ciLess a b = nameLess a b := by
  induction a generalizing b with
  | nil => cases b <;> rfl
  | cons x xs ih =>
    cases b with
    | nil => rfl
    | cons y ys =>
      show (if toLowerC x == toLowerC y then ciLess xs ys else toLowerC x < toLowerC y) =
        (if lower x == lower y then nameLess xs ys else lower x < lower y)
      rw [ih]; rfl

theorem lex_eq (ka kb : Nat) (r : Bool) :
    (if ka < kb then true else if kb < ka then false else r) =
      (decide (ka < kb) || (ka == kb && r)) := by
  by_cases h1 : ka < kb
  · simp [h1]
  · by_cases h2 : kb < ka
    · have : ¬ ka = kb := by omega
      simp [h1, h2, this]
    · have : ka = kb := by omega
      simp [this]

theorem catLess_eq (curDir : Nat) (a b : Entry) :
    catLess curDir a b = catBefore curDir a.directory a.nameStr b.directory b.nameStr := by
  unfold catLess catBefore
  simp only [toLowerC_eq, ciLess_eq]
  exact lex_eq _ _ _

theorem nameLess_asymm (a b : Bytes) : nameLess a b = true → ¬ nameLess b a = true := by
  induction a generalizing b with
  | nil => cases b <;> simp [nameLess]
  | cons x xs ih =>
    cases b with
    | nil => simp [nameLess]
    | cons y ys =>
      simp only [nameLess]
      by_cases h : lower x = lower y
      · simp only [h, beq_self_eq_true, if_true]
        exact ih ys
      · have h' : ¬ lower y = lower x := fun e => h e.symm
        simp only [beq_iff_eq, h, h', if_false, decide_eq_true_eq]
        omega

theorem nameLess_trans (a b c : Bytes) :
    nameLess a b = true → nameLess b c = true → nameLess a c = true := by
  induction a generalizing b c with
  | nil =>
    cases b with
    | nil => simp [nameLess]
    | cons y ys => cases c <;> simp [nameLess]
  | cons x xs ih =>
    cases b with
    | nil => simp [nameLess]
    | cons y ys =>
      cases c with
      | nil => simp [nameLess]
      | cons z zs =>
        simp only [nameLess]
        by_cases h1 : lower x = lower y
        · by_cases h2 : lower y = lower z
          · have h3 : lower x = lower z := h1.trans h2
            simp only [h1, h2, beq_self_eq_true, if_true]
            simpa [h2] using ih ys zs
          · simp only [beq_iff_eq, h1, h2, if_true, if_false, decide_eq_true_eq]
            omega
        · by_cases h2 : lower y = lower z
          · have h3 : ¬ lower x = lower z := by omega
            simp only [beq_iff_eq, h2, h3, if_true, if_false, decide_eq_true_eq]
            omega
          · simp only [beq_iff_eq, h1, h2, if_false, decide_eq_true_eq]
            intro h4 h5
            have h3 : ¬ lower x = lower z := by omega
            simp only [h3, if_false, decide_eq_true_eq]
            omega

/-- `catBefore` on key pairs -/
theorem catBefore_iff (curDir d1 : Nat) (n1 : Bytes) (d2 : Nat) (n2 : Bytes) :
    catBefore curDir d1 n1 d2 n2 = true ↔
      (let k (d : Nat) : Nat := if d == curDir then 0 else lower d
       k d1 < k d2 ∨ (k d1 = k d2 ∧ nameLess n1 n2 = true)) := by
  unfold catBefore
  simp

theorem catBefore_asymm (curDir d1 : Nat) (n1 : Bytes) (d2 : Nat) (n2 : Bytes) :
    catBefore curDir d1 n1 d2 n2 = true → ¬ catBefore curDir d2 n2 d1 n1 = true := by
  rw [catBefore_iff, catBefore_iff]
  simp only []
  intro h h'
  rcases h with h | ⟨h, hn⟩ <;> rcases h' with h' | ⟨h', hn'⟩
  · omega
  · omega
  · omega
  · exact nameLess_asymm _ _ hn hn'

theorem catBefore_trans (curDir d1 : Nat) (n1 : Bytes) (d2 : Nat) (n2 : Bytes) (d3 : Nat) (n3 : Bytes) :
    catBefore curDir d1 n1 d2 n2 = true → catBefore curDir d2 n2 d3 n3 = true →
      catBefore curDir d1 n1 d3 n3 = true := by
  rw [catBefore_iff, catBefore_iff, catBefore_iff]
  simp only []
  intro h h'
  rcases h with h | ⟨h, hn⟩ <;> rcases h' with h' | ⟨h', hn'⟩
  · left; omega
  · left; omega
  · left; omega
  · right; exact ⟨h.trans h', nameLess_trans _ _ _ hn hn'⟩

theorem catSorted_sorted (curDir : Nat) (c : Catalog) :
    (catSorted curDir c).Pairwise
      (fun a b => ¬ catBefore curDir b.directory b.nameStr a.directory a.nameStr = true) := by
  have h := sortBy_sorted (catLess curDir)
    (fun a b => by rw [catLess_eq, catLess_eq]; exact catBefore_asymm _ _ _ _ _)
    (fun a b c => by rw [catLess_eq, catLess_eq, catLess_eq]; exact catBefore_trans _ _ _ _ _ _ _)
    c.entries
  unfold catSorted
  refine List.Pairwise.imp ?_ h
  intro a b hab
  rw [← catLess_eq]; exact hab

/-! ### the column tracker -/

theorem upd_out (c : Col) (ch : Nat) : (c.upd ch).out = c.out := by
  unfold Col.upd
  split
  · rfl
  · split <;> rfl

theorem upd_pfx (c : Col) (ch : Nat) : (c.upd ch).pfx = c.pfx := by
  unfold Col.upd
  split
  · rfl
  · split <;> rfl

theorem foldl_upd_out (s : Bytes) (c : Col) : (s.foldl Col.upd c).out = c.out := by
  induction s generalizing c with
  | nil => rfl
  | cons x xs ih => rw [List.foldl_cons, ih, upd_out]

theorem foldl_upd_pfx (s : Bytes) (c : Col) : (s.foldl Col.upd c).pfx = c.pfx := by
  induction s generalizing c with
  | nil => rfl
  | cons x xs ih => rw [List.foldl_cons, ih, upd_pfx]

theorem str_out (c : Col) (s : Bytes) : (c.str s).out = c.out ++ s := by
  unfold Col.str; rw [foldl_upd_out]

theorem str_pfx (c : Col) (s : Bytes) : (c.str s).pfx = c.pfx := by
  unfold Col.str; rw [foldl_upd_pfx]

theorem put_pfx (c : Col) (ch : Nat) : (c.put ch).pfx = c.pfx := by
  unfold Col.put
  simp only []
  split <;> simp [upd_pfx]

theorem put_out (c : Col) (ch : Nat) (hp : c.pfx = []) : (c.put ch).out = c.out ++ [ch] := by
  unfold Col.put
  simp only []
  split <;> simp [upd_pfx, upd_out, hp]

/-- "`c'` extends `c` by blanks and newlines only, and still has no line prefix" -/
def Ext (c c' : Col) : Prop :=
  c'.pfx = [] ∧ ∃ s : Bytes, (∀ ch ∈ s, ch = 32 ∨ ch = 10) ∧ c'.out = c.out ++ s

theorem Ext.refl (c : Col) (hp : c.pfx = []) : Ext c c := ⟨hp, [], by simp, by simp⟩

theorem Ext.trans {a b c : Col} (h1 : Ext a b) (h2 : Ext b c) : Ext a c := by
  obtain ⟨_, s1, hs1, e1⟩ := h1
  obtain ⟨p2, s2, hs2, e2⟩ := h2
  refine ⟨p2, s1 ++ s2, ?_, by rw [e2, e1, List.append_assoc]⟩
  intro ch hch
  rcases List.mem_append.mp hch with h | h
  · exact hs1 ch h
  · exact hs2 ch h

theorem ext_put (c : Col) (hp : c.pfx = []) (ch : Nat) (hch : ch = 32 ∨ ch = 10) : Ext c (c.put ch) :=
  ⟨by rw [put_pfx, hp], [ch], by simpa using hch, put_out c ch hp⟩

theorem ext_cur (c c' : Col) (k : Nat) (h : Ext c c') : Ext c { c' with cur := k } := h

theorem ext_foldl_put (l : List Nat) (c : Col) (hp : c.pfx = []) :
    Ext c (l.foldl (fun c _ => c.put 32) c) := by
  induction l generalizing c with
  | nil => exact Ext.refl c hp
  | cons x xs ih =>
    rw [List.foldl_cons]
    have h1 := ext_put c hp 32 (Or.inl rfl)
    exact h1.trans (ih _ h1.1)

theorem ext_spacesTo (c : Col) (hp : c.pfx = []) (n : Nat) : Ext c (c.spacesTo n) :=
  ext_foldl_put _ c hp

theorem ext_advanceTo (c : Col) (hp : c.pfx = []) (n : Nat) : Ext c (c.advanceTo n) := by
  unfold Col.advanceTo
  simp only []
  split
  · have h1 := ext_put c hp 10 (Or.inr rfl)
    exact h1.trans (ext_spacesTo _ h1.1 n)
  · exact ext_spacesTo c hp n

theorem ext_nextLine (c : Col) (hp : c.pfx = []) : Ext c c.nextLine :=
  ext_cur _ _ _ (ext_put c hp 10 (Or.inr rfl))

theorem ext_nextColumn_aux (c : Col) (hp : c.pfx = []) (rmargin np k : Nat) :
    Ext c (if np ≥ rmargin then { c.put 10 with cur := 0 } else { c.advanceTo np with cur := k }) := by
  split
  · exact ext_cur _ _ _ (ext_put c hp 10 (Or.inr rfl))
  · exact ext_cur _ _ _ (ext_advanceTo c hp _)

theorem ext_nextColumn (c : Col) (hp : c.pfx = []) (rmargin : Nat) : Ext c (c.nextColumn rmargin) :=
  ext_nextColumn_aux c hp rmargin _ _

/-! ### the listing -/

theorem catEntries_cells (ui curDir rmargin : Nat) (es : List Entry) (first gap : Bool) (c0 : Col)
    (hp : c0.pfx = []) :
    ∃ seps : List Bytes, seps.length = es.length ∧ (∀ s ∈ seps, ∀ ch ∈ s, ch = 32 ∨ ch = 10) ∧
      (catEntries ui curDir rmargin es first gap c0).out =
        c0.out ++ ((seps.zip es).map (fun p => p.1 ++ catCell ui curDir p.2)).flatten := by
  induction es generalizing first gap c0 with
  | nil => exact ⟨[], rfl, by simp, by simp [catEntries]⟩
  | cons e rest ih =>
    -- the separator step
    have step : ∃ (c1 : Col) (f1 g1 : Bool), Ext c0 c1 ∧
        catEntries ui curDir rmargin (e :: rest) first gap c0 =
          catEntries ui curDir rmargin rest false g1 (c1.str (catCell ui curDir e)) := by
      by_cases hd : (e.directory != curDir && !gap) = true
      · have ha : Ext c0 (if c0.col > 0 then c0.nextLine else c0) := by
          split
          · exact ext_nextLine c0 hp
          · exact Ext.refl c0 hp
        have hb := ha.trans (ext_nextLine _ ha.1)
        exact ⟨_, true, true, hb, by simp [catEntries, hd]⟩
      · cases first with
        | true => exact ⟨c0, true, gap, Ext.refl c0 hp, by simp [catEntries, hd]⟩
        | false =>
          exact ⟨c0.nextColumn rmargin, false, gap, ext_nextColumn c0 hp rmargin, by simp [catEntries, hd]⟩
    obtain ⟨c1, _, g1, ⟨hp1, s, hs, hout⟩, heq⟩ := step
    obtain ⟨seps, hlen, hseps, hrest⟩ := ih false g1 (c1.str (catCell ui curDir e)) (by rw [str_pfx, hp1])
    refine ⟨s :: seps, by simp [hlen], ?_, ?_⟩
    · intro t ht
      rcases List.mem_cons.mp ht with rfl | ht
      · exact hs
      · exact hseps t ht
    · rw [heq, hrest, str_out, hout]
      simp [List.append_assoc]

theorem catCell_shape (ui curDir : Nat) (e : Entry) :
    ∃ pad : Bytes, (∀ ch ∈ pad, ch = 32) ∧
      catCell ui curDir e = pad ++ (if e.directory != curDir then [e.directory, 46] else []) ++ e.nameStr ++
        (if e.isLocked then [32, 32, 32, 32, 76] else []) := by
  unfold catCell padLeft
  simp only []
  generalize (8 - _) = n
  by_cases hd : e.directory = curDir
  · refine ⟨List.replicate n 32 ++ List.replicate (if ui == 2 then 3 else 2) 32 ++ [32, 32], ?_, ?_⟩
    · intro ch hch
      simp only [List.mem_append, List.mem_replicate] at hch
      rcases hch with (h | h) | h
      · exact h.2
      · exact h.2
      · simpa using h
    · have hd' : (e.directory != curDir) = false := by simp [hd]
      simp only [hd', Bool.false_eq_true, if_false, List.append_assoc, List.append_nil]
  · refine ⟨List.replicate n 32 ++ List.replicate (if ui == 2 then 3 else 2) 32, ?_, ?_⟩
    · intro ch hch
      simp only [List.mem_append, List.mem_replicate] at hch
      rcases hch with h | h
      · exact h.2
      · exact h.2
    · have hd' : (e.directory != curDir) = true := by simp [hd]
      simp only [hd', if_true, List.append_assoc]

/-! ### CRC -/

theorem xor_one_even (x : Nat) : (2 * x) ^^^ 1 = 2 * x + 1 := by
  apply Nat.eq_of_testBit_eq
  intro i
  cases i with
  | zero => simp [Nat.testBit_zero]
  | succ i =>
    simp only [Nat.testBit_succ]
    have h1 : 2 * x / 2 = x := by omega
    have h2 : (2 * x + 1) / 2 = x := by omega
    rw [h2, Nat.xor_div_two, h1]
    simp

theorem crc_cycle_eq (c : Nat) (hc : c < 65536) : crc_cycle c = xmodemStep c := by
  unfold crc_cycle xmodemStep
  have h15 : (32768 : Nat) = 2 ^ 15 := by decide
  rw [h15, and_pow_ne_zero, testBit_eq]
  by_cases h : c / 2 ^ 15 % 2 = 1
  · have h' : c / 32768 % 2 = 1 := by simpa using h
    rw [if_pos (by simp [h]), if_pos h']
    have hl : c % 32768 < 32768 := Nat.mod_lt _ (by omega)
    have e1 : (c ^^^ 2064) &&& 32767 = (c % 32768) ^^^ 2064 := by
      have := Nat.xor_mod_two_pow (a := c) (b := 2064) (n := 15)
      rw [and_32767]
      simpa using this
    have e2 : c * 2 % 65536 = 2 * (c % 32768) := by omega
    have e3 : (4129 : Nat) = (2 * 2064) ^^^ 1 := by decide
    have e4 : ((c % 32768) ^^^ 2064) < 2 ^ 15 := Nat.xor_lt_two_pow (by omega) (by omega)
    rw [e1, e2, e3, ← Nat.xor_assoc, Nat.mul_comm 2 (c % 32768), Nat.mul_comm 2 2064]
    rw [show c % 32768 * 2 = (c % 32768) <<< 1 by rw [shl_eq], show 2064 * 2 = 2064 <<< 1 by rfl,
      ← Nat.shiftLeft_xor_distrib, shl_eq, Nat.pow_one, Nat.mul_comm _ 2, xor_one_even]
    omega
  · have h' : ¬ c / 32768 % 2 = 1 := by simpa using h
    rw [if_neg (by simp [h]), if_neg h', shl_eq]
    omega

theorem xmodemStep_lt (c : Nat) : xmodemStep c < 65536 := by
  unfold xmodemStep
  have : c * 2 % 65536 < 2 ^ 16 := Nat.mod_lt _ (by omega)
  split
  · exact Nat.xor_lt_two_pow this (by omega)
  · exact this

theorem crcByte_eq (crc b : Nat) (hc : crc < 65536) (hb : b < 256) :
    crcByte crc b = xmodemByte crc b := by
  unfold crcByte xmodemByte
  have hr : List.range 8 = [0, 1, 2, 3, 4, 5, 6, 7] := by decide
  have h0 : crc ^^^ b * 256 < 2 ^ 16 := Nat.xor_lt_two_pow hc (by omega)
  rw [hr, shl_eq]
  simp only [List.foldl_cons, List.foldl_nil]
  have e : (2 : Nat) ^ 8 = 256 := by decide
  rw [e, crc_cycle_eq _ h0]
  repeat rw [crc_cycle_eq _ (xmodemStep_lt _)]

theorem xmodemByte_lt (crc b : Nat) : xmodemByte crc b < 65536 := xmodemStep_lt _

theorem crc16_eq_fold (data : Bytes) (hb : ∀ b ∈ data, b < 256) (c : Nat) (hc : c < 65536) :
    data.foldl crcByte c = data.foldl xmodemByte c := by
  induction data generalizing c with
  | nil => rfl
  | cons b bs ih =>
    simp only [List.foldl_cons]
    rw [crcByte_eq c b hc (hb b (by simp))]
    exact ih (fun x hx => hb x (by simp [hx])) _ (xmodemByte_lt _ _)

theorem crc16_eq_xmodem (data : Bytes) (hb : ∀ b ∈ data, b < 256) : crc16 0 data = xmodem data :=
  crc16_eq_fold data hb 0 (by omega)

/-! ### the .inf line -/

theorem infContent_eq (e : Entry) (crc : Nat) (he : ∀ i, e.m i < 256) (hc : crc < 65536) :
    infContent e crc =
      [e.directory, 46] ++ e.nameStr ++ [32] ++
      hexFixed 6 (signExt18to24 (decodeFields e.n e.m).load) ++ [32] ++
      hexFixed 6 (signExt18to24 (decodeFields e.n e.m).exec) ++ [32] ++
      hexFixed 6 (decodeFields e.n e.m).len ++ [32] ++
      (if e.isLocked then strBytes "Locked " else []) ++ strBytes "CRC=" ++ hexFixed 4 crc ++ [10] := by
  unfold infContent decodeFields Entry.loadAddress Entry.execAddress Entry.fileLength
  simp only []
  have b0 := he 0; have b1 := he 1; have b2 := he 2; have b3 := he 3
  have b4 := he 4; have b5 := he 5; have b6 := he 6
  have q1 : e.m 6 / 4 % 4 < 4 := Nat.mod_lt _ (by omega)
  have q2 : e.m 6 / 64 % 4 < 4 := Nat.mod_lt _ (by omega)
  have q3 : e.m 6 / 16 % 4 < 4 := Nat.mod_lt _ (by omega)
  rw [load_address_eq e.m he, exec_address_eq e.m he, file_length_eq e.m he]
  rw [Beeb.Props.C02.sign_extend_spec _ (by omega), Beeb.Props.C02.sign_extend_spec _ (by omega)]
  have s1 : signExt18to24 (e.m 0 + 256 * e.m 1 + 65536 * (e.m 6 / 4 % 4)) < 16 ^ 6 := by
    unfold signExt18to24; split <;> omega
  have s2 : signExt18to24 (e.m 2 + 256 * e.m 3 + 65536 * (e.m 6 / 64 % 4)) < 16 ^ 6 := by
    unfold signExt18to24; split <;> omega
  rw [padLeft_hexU 6 _ (by omega) s1, padLeft_hexU 6 _ (by omega) s2,
    padLeft_hexU 6 _ (by omega) (by omega), padLeft_hexU 4 _ (by omega) (by omega)]

end Beeb.CatL
