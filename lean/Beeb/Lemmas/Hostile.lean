/-
Lemmas for C07: `dfs` fails cleanly on arbitrary image files and command lines.

The model keeps sector bytes as natural numbers.  The one crash site that depends
on that (`smells_like_watford`'s `buf1[pos+7]`, reachable when "byte" 5 of sector 1
is ≥ 256) needs the explicit hypothesis `HostFs.IsBytes fs`: every sector the host
file system delivers consists of bytes.  Flux images (HFE, HxC MFM) need no such
hypothesis: the decoders assemble every data byte from eight cells.

  * `dfsMain_no_crash`, `dfsMain_exit`  — under `HostFs.IsBytes fs`;
  * `dfsMain_exit'`, `dfsMain_diagnostic`, `dfsMain_nd` — unconditional.
-/
import Beeb.Model.Main
import Beeb.Lemmas.MainL
import Beeb.Lemmas.HostileProbe
import Beeb.Lemmas.HostileFlux
import Beeb.Lemmas.HostileCmd

namespace Beeb.HostileL
open Beeb Beeb.Gen Beeb.MainL Beeb.Flux

/-! ### the hypothesis on the host file system -/

/-- every whole sector of the file consists of bytes (numbers < 256) -/
def HostFile.IsBytes : HostFile → Prop
  | .raw secs _ _ => ∀ s ∈ secs, Beeb.IsBytes s
  | .sparse _ tbl => ∀ i, Beeb.IsBytes (tbl.getD i (List.replicate 256 0))
  | .missing => True
  | .gzBad => True

/-- every file of the host file system consists of bytes -/
def HostFs.IsBytes (fs : HostFs) : Prop := ∀ p, HostFile.IsBytes (fs p)

/-- non-vacuity: the empty host file system -/
theorem isBytes_example : HostFs.IsBytes (fun _ => .missing) := fun _ => trivial

/-- a sector dump whose sectors are byte strings satisfies the predicate -/
theorem isBytes_raw (secs : Array Sector) (size : Nat) (tail : Bytes)
    (h : ∀ s ∈ secs, Beeb.IsBytes s) : HostFile.IsBytes (.raw secs size tail) := h

/-- the block device `attachFile` builds for a host file -/
def hostMedia : HostFile → Media
  | .raw secs _ _ => mediaOfArray secs
  | .sparse n tbl => fun lba => if lba < n then some (tbl.getD lba (List.replicate 256 0)) else none
  | _ => fun _ => none

theorem hostMedia_bytes (hf : HostFile) (h : HostFile.IsBytes hf) : MediaBytes (hostMedia hf) := by
  intro lba s hs
  cases hf with
  | missing => cases hs
  | gzBad => cases hs
  | raw secs size tail =>
    exact h s (Array.mem_of_getElem? (i := lba) hs)
  | sparse n tbl =>
    simp only [hostMedia] at hs
    split at hs
    · simp only [Option.some.injEq] at hs
      rw [← hs]; exact h lba
    · cases hs

/-! ### `attachFile`, restated -/

/-- the tail of `attachFile` shared by both kinds of image -/
def connectCfgs (st : MainState) (r : Except RunRes (List DriveCfg)) (newMedias : List Media) (warn : Bool)
    (img : Bytes) : Except RunRes MainState :=
  match r with
  | .error e => .error e
  | .ok ds =>
    match st.storage.connect ds st.policy with
    | none => .error { err := true, exit := 1 }
    | some s' => .ok { st with storage := s', medias := st.medias ++ newMedias, verbose := st.verbose || warn,
                                images := st.images ++ [img] }

/-- `attachFile` once the file is known to exist -/
def attachBody (nd : Bool) (arg : Bytes) (hf : HostFile) (m : Media) (ld : Loader) (st : MainState) :
    Except RunRes MainState :=
  match imageViews arg hf m ld nd with
  | .fail => .error { err := true, exit := 1 }
  | .abort s => .error { err := true, exit := 134, crash := some s }
  | .unmodelled w => .error { unmodelled := some w }
  | .ok views warned => connectCfgs st (attachFile.cfgs nd m st.medias.length views) [m] warned arg
  | .flux sides noise =>
    connectCfgs st (attachFile.fcfgs nd st.medias.length 0 sides) (sides.map (·.2)) noise arg

theorem attachFile_eq (fs : HostFs) (nd : Bool) (arg : Bytes) (st : MainState) :
    attachFile fs nd arg st =
      match loaderOf arg with
      | none => .error { err := true, exit := 1 }
      | some (_, ld) =>
        match fs arg with
        | .missing => .error { err := true, exit := 1 }
        | .gzBad => .error { err := true, exit := 1 }
        | hf => attachBody nd arg hf (hostMedia hf) ld st := by
  unfold attachFile
  cases loaderOf arg with
  | none => rfl
  | some p =>
    obtain ⟨c, ld⟩ := p
    simp only []
    cases fs arg with
    | missing => rfl
    | gzBad => rfl
    | raw secs size tail =>
      simp only [attachBody, connectCfgs, hostMedia]
      generalize imageViews arg _ _ ld nd = iv
      cases iv <;> rfl
    | sparse n tbl =>
      simp only [attachBody, connectCfgs, hostMedia]
      generalize imageViews arg _ _ ld nd = iv
      cases iv <;> rfl

/-! ### well-formed results -/

/-- the exit status is 0, 1 or — only together with a crash — 134; a non-zero status
    comes with a diagnostic -/
def ResOk (r : RunRes) : Prop :=
  (r.exit = 0 ∨ r.exit = 1 ∨ (r.exit = 134 ∧ r.crash ≠ none)) ∧ (r.exit ≠ 0 → r.err = true)

theorem resOk_fail : ResOk { err := true, exit := 1 } := ⟨.inr (.inl rfl), fun _ => rfl⟩
theorem resOk_abort (s : String) : ResOk { err := true, exit := 134, crash := some s } :=
  ⟨.inr (.inr ⟨rfl, by simp⟩), fun _ => rfl⟩
theorem resOk_unmodelled (w : String) : ResOk { unmodelled := some w } :=
  ⟨.inl rfl, fun h => absurd rfl h⟩

/-- the recorded format of a drive agrees with its medium -/
def DriveOk (medias : List Media) (d : DriveCfg) : Prop :=
  d.file < medias.length ∧
    ∀ f, d.fmt = some f → FmtOk (d.view.readBlock (medias.getD d.file (fun _ => none))) f

/-- the invariant of the option loop -/
def StInv (st : MainState) : Prop := ∀ p ∈ st.storage.drives, DriveOk st.medias p.2

def EOk : Except RunRes MainState → Prop
  | .error r => ResOk r
  | .ok st => StInv st

def CfgsOk (medias : List Media) : Except RunRes (List DriveCfg) → Prop
  | .error r => ResOk r
  | .ok ds => ∀ d ∈ ds, DriveOk medias d

theorem getD_append_left' (l l' : List Media) (i : Nat) (h : i < l.length) :
    (l ++ l').getD i (fun _ => none) = l.getD i (fun _ => none) := by
  rw [List.getD_eq_getElem?_getD, List.getD_eq_getElem?_getD, List.getElem?_append_left h]

theorem getD_append_right' (l l' : List Media) (j : Nat) :
    (l ++ l').getD (l.length + j) (fun _ => none) = l'.getD j (fun _ => none) := by
  rw [List.getD_eq_getElem?_getD, List.getD_eq_getElem?_getD,
    List.getElem?_append_right (Nat.le_add_right _ _)]
  simp

theorem driveOk_append (l l' : List Media) (d : DriveCfg) (h : DriveOk l d) : DriveOk (l ++ l') d := by
  obtain ⟨h1, h2⟩ := h
  refine ⟨by rw [List.length_append]; omega, ?_⟩
  rw [getD_append_left' l l' _ h1]
  exact h2

/-! ### the drive configurations of an image -/

theorem cfgs_ok (nd : Bool) (m : Media) (idx : Nat) (medias : List Media)
    (hlt : idx < medias.length) (hget : medias.getD idx (fun _ => none) = m) (views : List View) :
    CfgsOk medias (attachFile.cfgs nd m idx views) := by
  induction views with
  | nil => simp only [attachFile.cfgs]; intro d hd; cases hd
  | cons v vs ih =>
    simp only [attachFile.cfgs]
    split
    · exact resOk_abort _
    · exact resOk_fail
    · rename_i f hf
      revert ih
      cases attachFile.cfgs nd m idx vs with
      | error e => intro ih; exact ih
      | ok r =>
        intro ih d hd
        rcases List.mem_cons.mp hd with rfl | hd
        · refine ⟨hlt, ?_⟩
          intro f' hf'
          simp only at hf' ⊢
          subst hf'
          rw [hget]
          split at hf
          · exact identifyFileSystem_fmt _ _ _ _ _ hf
          · cases hf
        · exact ih d hd

theorem fcfgs_ok (nd : Bool) (idx : Nat) (medias : List Media) :
    ∀ (sides : List (View × Media)) (k : Nat),
      idx + k + sides.length ≤ medias.length →
      (∀ j, j < sides.length → medias.getD (idx + k + j) (fun _ => none) = (sides.getD j default).2) →
      CfgsOk medias (attachFile.fcfgs nd idx k sides) := by
  intro sides
  induction sides with
  | nil => intro k _ _; simp only [attachFile.fcfgs]; intro d hd; cases hd
  | cons p vs ih =>
    intro k hlen hget
    obtain ⟨v, sm⟩ := p
    simp only [attachFile.fcfgs]
    split
    · exact resOk_abort _
    · exact resOk_fail
    · rename_i f hf
      have ih' := ih (k + 1) (by simp only [List.length_cons] at hlen; omega) (by
        intro j hj
        have := hget (j + 1) (by simp only [List.length_cons]; omega)
        rw [show idx + (k + 1) + j = idx + k + (j + 1) by omega, this]
        simp)
      revert ih'
      cases attachFile.fcfgs nd idx (k + 1) vs with
      | error e => intro ih'; exact ih'
      | ok r =>
        intro ih' d hd
        rcases List.mem_cons.mp hd with rfl | hd
        · refine ⟨by simp only [List.length_cons] at hlen; show idx + k < medias.length; omega, ?_⟩
          intro f' hf'
          simp only at hf' ⊢
          subst hf'
          have := hget 0 (by simp)
          simp only [Nat.add_zero, List.getD_cons_zero] at this
          rw [this]
          exact identifyFileSystem_fmt _ _ _ _ _ hf
        · exact ih' d hd

/-! ### `Storage.connect` only adds the new configurations -/

theorem connectAt_mem (ds : List DriveCfg) : ∀ (s : Storage) (n : Nat) (p : Nat × DriveCfg),
    p ∈ (connectAt s n ds).drives → p ∈ s.drives ∨ p.2 ∈ ds := by
  induction ds with
  | nil => intro s n p h; exact .inl h
  | cons d ds ih =>
    intro s n p h
    unfold connectAt at h
    rcases ih _ _ p h with h | h
    · simp only [List.mem_append, List.mem_singleton] at h
      rcases h with h | h
      · exact .inl h
      · subst h; exact .inr List.mem_cons_self
    · exact .inr (List.mem_cons_of_mem _ h)

theorem connectFirst_mem (ds : List DriveCfg) : ∀ (s : Storage) (n : Nat) (p : Nat × DriveCfg),
    p ∈ (connectFirst s n ds).drives → p ∈ s.drives ∨ p.2 ∈ ds := by
  induction ds with
  | nil => intro s n p h; exact .inl h
  | cons d ds ih =>
    intro s n p h
    unfold connectFirst at h
    rcases ih _ _ p h with h | h
    · simp only [List.mem_append, List.mem_singleton] at h
      rcases h with h | h
      · exact .inl h
      · subst h; exact .inr List.mem_cons_self
    · exact .inr (List.mem_cons_of_mem _ h)

theorem connect_mem (s s' : Storage) (ds : List DriveCfg) (pol : Policy)
    (h : s.connect ds pol = some s') (p : Nat × DriveCfg) (hp : p ∈ s'.drives) :
    p ∈ s.drives ∨ p.2 ∈ ds := by
  unfold Storage.connect at h
  cases pol with
  | physical =>
    simp only at h
    split at h
    · simp only [Option.some.injEq] at h
      subst h
      exact connectAt_mem ds _ _ p hp
    · cases h
  | first =>
    simp only [Option.some.injEq] at h
    subst h
    exact connectFirst_mem ds _ _ p hp

theorem connectCfgs_ok {img : Bytes} (st : MainState) (r : Except RunRes (List DriveCfg)) (newMedias : List Media)
    (warn : Bool) (hst : StInv st) (hr : CfgsOk (st.medias ++ newMedias) r) :
    EOk (connectCfgs st r newMedias warn img) := by
  unfold connectCfgs
  cases r with
  | error e => exact hr
  | ok ds =>
    simp only []
    split
    · exact resOk_fail
    · rename_i s' hs'
      intro p hp
      rcases connect_mem _ _ _ _ hs' p hp with h | h
      · exact driveOk_append _ _ _ (hst p h)
      · exact hr p.2 h

theorem attachBody_ok (nd : Bool) (arg : Bytes) (hf : HostFile) (m : Media) (ld : Loader) (st : MainState)
    (hst : StInv st) : EOk (attachBody nd arg hf m ld st) := by
  unfold attachBody
  split
  · exact resOk_fail
  · exact resOk_abort _
  · exact resOk_unmodelled _
  · apply connectCfgs_ok _ _ _ _ hst
    apply cfgs_ok
    · simp
    · simp
  · rename_i sides noise _
    apply connectCfgs_ok _ _ _ _ hst
    apply fcfgs_ok
    · simp
    · intro j hj
      rw [Nat.add_zero, getD_append_right']
      rw [List.getD_eq_getElem?_getD, List.getD_eq_getElem?_getD, List.getElem?_map]
      cases sides[j]? with
      | none => rfl
      | some x => rfl

theorem attachFile_ok (fs : HostFs) (nd : Bool) (arg : Bytes) (st : MainState) (hst : StInv st) :
    EOk (attachFile fs nd arg st) := by
  rw [attachFile_eq]
  split
  · exact resOk_fail
  · split
    · exact resOk_fail
    · exact resOk_fail
    · exact attachBody_ok _ _ _ _ _ _ hst

theorem optLoop_ok (fs : HostFs) (nd : Bool) (opts : List Opt) (st : MainState) (hst : StInv st) :
    EOk (optLoop fs nd opts st) := by
  induction opts generalizing st with
  | nil => exact hst
  | cons o more ih =>
    cases o with
    | bad => exact resOk_fail
    | opt o arg =>
      cases o <;> simp only [optLoop]
      · have ha := attachFile_ok fs nd arg st hst
        revert ha
        cases attachFile fs nd arg st with
        | error e => intro ha; exact ha
        | ok st' => intro ha; exact ih _ ha
      all_goals
        repeat' (first
          | exact resOk_fail | exact resOk_unmodelled _ | exact ih _ hst | split)

/-! ### no crash while attaching, given bytes -/

theorem cfgs_NC (nd : Bool) (m : Media) (idx : Nat) (hm : MediaBytes m) (views : List View) :
    NC (attachFile.cfgs nd m idx views) := by
  induction views with
  | nil => simp [attachFile.cfgs]
  | cons v vs ih =>
    simp only [attachFile.cfgs]
    have hna : NA (if v.isFormatted = true then identifyFileSystem (v.readBlock m) v.geom false nd else .ok none) := by
      split
      · exact identifyFileSystem_NA _ _ _ _ (W_of_bytes _ (readBlock_bytes v m hm))
      · trivial
    revert hna
    cases (if v.isFormatted = true then identifyFileSystem (v.readBlock m) v.geom false nd else Res.ok none) with
    | abort s => simp
    | err e => intro _; rfl
    | ok f =>
      intro _
      simp only []
      revert ih
      cases attachFile.cfgs nd m idx vs with
      | error e => intro ih; exact ih
      | ok r => intro _; trivial

theorem fcfgs_NC (nd : Bool) (idx : Nat) : ∀ (sides : List (View × Media)) (k : Nat),
    (∀ p ∈ sides, MediaBytes p.2) → NC (attachFile.fcfgs nd idx k sides) := by
  intro sides
  induction sides with
  | nil => intro k _; simp [attachFile.fcfgs]
  | cons p vs ih =>
    intro k hb
    obtain ⟨v, sm⟩ := p
    simp only [attachFile.fcfgs]
    have hna := identifyFileSystem_NA (v.readBlock sm) v.geom false nd
      (W_of_bytes _ (readBlock_bytes v sm (hb (v, sm) List.mem_cons_self)))
    revert hna
    cases identifyFileSystem (v.readBlock sm) v.geom false nd with
    | abort s => simp
    | err e => intro _; rfl
    | ok f =>
      intro _
      simp only []
      have ih' := ih (k + 1) (fun p hp => hb p (List.mem_cons_of_mem _ hp))
      revert ih'
      cases attachFile.fcfgs nd idx (k + 1) vs with
      | error e => intro ih'; exact ih'
      | ok r => intro _; trivial

theorem imageViews_NAa (arg : Bytes) (hf : HostFile) (m : Media) (ld : Loader) (nd : Bool)
    (hm : MediaBytes m) : NAa (imageViews arg hf m ld nd) := by
  have hid := identifyImage_NA m (bytesToString arg) nd (W_of_bytes m hm)
  cases ld with
  | nonInterleaved =>
    simp only [imageViews]
    revert hid
    cases identifyImage m (bytesToString arg) nd with
    | abort s => simp
    | err e => intro _; trivial
    | ok o => intro _; cases o <;> trivial
  | interleaved =>
    simp only [imageViews]
    revert hid
    cases identifyImage m (bytesToString arg) nd with
    | abort s => simp
    | err e => intro _; trivial
    | ok o => intro _; cases o <;> trivial
  | mmb =>
    simp only [imageViews]
    split <;> trivial
  | hfe =>
    simp only [imageViews, fluxAttach]
    split <;> trivial
  | hxcmfm =>
    simp only [imageViews, fluxAttach]
    split <;> trivial

/-- the media of a flux image deliver bytes, whatever the container holds -/
theorem imageViews_flux_bytes (arg : Bytes) (hf : HostFile) (m : Media) (ld : Loader) (nd : Bool)
    (sides : List (View × Media)) (noise : Bool)
    (h : imageViews arg hf m ld nd = .flux sides noise) : ∀ p ∈ sides, MediaBytes p.2 := by
  cases ld with
  | nonInterleaved =>
    simp only [imageViews] at h
    split at h <;> cases h
  | interleaved =>
    simp only [imageViews] at h
    split at h <;> cases h
  | mmb =>
    simp only [imageViews] at h
    split at h <;> cases h
  | hfe =>
    simp only [imageViews, fluxAttach] at h
    split at h
    · cases h
    · rename_i fsides fnoise hl
      simp only [Attach.flux.injEq] at h
      intro p hp
      rw [← h.1] at hp
      obtain ⟨s, hs, rfl⟩ := List.mem_map.mp hp
      exact hfeReadBlock_bytes s (loadHfe_ok _ _ _ hl s hs)
  | hxcmfm =>
    simp only [imageViews, fluxAttach] at h
    split at h
    · cases h
    · rename_i fsides fnoise hl
      simp only [Attach.flux.injEq] at h
      intro p hp
      rw [← h.1] at hp
      obtain ⟨s, hs, rfl⟩ := List.mem_map.mp hp
      exact hxcReadBlock_bytes s (loadHxc_ok _ _ _ hl s hs)

theorem connectCfgs_NC {img : Bytes} (st : MainState) (r : Except RunRes (List DriveCfg)) (newMedias : List Media)
    (warn : Bool) (hr : NC r) : NC (connectCfgs st r newMedias warn img) := by
  unfold connectCfgs
  cases r with
  | error e => exact hr
  | ok ds =>
    simp only []
    split
    · rfl
    · trivial

theorem attachBody_NC (nd : Bool) (arg : Bytes) (hf : HostFile) (m : Media) (ld : Loader) (st : MainState)
    (hm : MediaBytes m) : NC (attachBody nd arg hf m ld st) := by
  unfold attachBody
  have hiv := imageViews_NAa arg hf m ld nd hm
  split
  · rfl
  · rename_i s hs; rw [hs] at hiv; exact hiv.elim
  · rfl
  · exact connectCfgs_NC _ _ _ _ (cfgs_NC nd m _ hm _)
  · rename_i sides noise hs
    exact connectCfgs_NC _ _ _ _ (fcfgs_NC nd _ sides 0 (imageViews_flux_bytes _ _ _ _ _ _ _ hs))

theorem attachFile_NC (fs : HostFs) (nd : Bool) (arg : Bytes) (st : MainState) (hfs : HostFs.IsBytes fs) :
    NC (attachFile fs nd arg st) := by
  rw [attachFile_eq]
  split
  · rfl
  · split
    · rfl
    · rfl
    · exact attachBody_NC _ _ _ _ _ _ (hostMedia_bytes _ (hfs arg))

theorem optLoop_NC (fs : HostFs) (nd : Bool) (hfs : HostFs.IsBytes fs) (opts : List Opt) (st : MainState) :
    NC (optLoop fs nd opts st) := by
  induction opts generalizing st with
  | nil => trivial
  | cons o more ih =>
    cases o with
    | bad => rfl
    | opt o arg =>
      cases o <;> simp only [optLoop]
      · have ha := attachFile_NC fs nd arg st hfs
        revert ha
        cases attachFile fs nd arg st with
        | error e => intro ha; exact ha
        | ok st' => intro _; exact ih _
      all_goals repeat' (first | rfl | exact ih _ | split)

/-! ### the assertion flag does not matter while attaching -/

theorem cfgs_ndeq (nd : Bool) (m : Media) (idx : Nat) (views : List View) :
    attachFile.cfgs nd m idx views = attachFile.cfgs true m idx views := by
  induction views with
  | nil => simp [attachFile.cfgs]
  | cons v vs ih => simp only [attachFile.cfgs, ih, identifyFileSystem_ndeq _ _ _ nd]

theorem fcfgs_ndeq (nd : Bool) (idx : Nat) : ∀ (sides : List (View × Media)) (k : Nat),
    attachFile.fcfgs nd idx k sides = attachFile.fcfgs true idx k sides := by
  intro sides
  induction sides with
  | nil => intro k; simp [attachFile.fcfgs]
  | cons p vs ih =>
    intro k
    obtain ⟨v, sm⟩ := p
    simp only [attachFile.fcfgs, ih, identifyFileSystem_ndeq _ _ _ nd]

theorem imageViews_ndeq (arg : Bytes) (hf : HostFile) (m : Media) (ld : Loader) (nd : Bool) :
    imageViews arg hf m ld nd = imageViews arg hf m ld true := by
  cases ld <;> simp only [imageViews, identifyImage_ndeq m _ nd]

theorem attachFile_ndeq (fs : HostFs) (nd : Bool) (arg : Bytes) (st : MainState) :
    attachFile fs nd arg st = attachFile fs true arg st := by
  rw [attachFile_eq, attachFile_eq]
  simp only [attachBody, imageViews_ndeq _ _ _ _ nd, cfgs_ndeq nd, fcfgs_ndeq nd]

theorem optLoop_ndeq (fs : HostFs) (nd : Bool) (opts : List Opt) (st : MainState) :
    optLoop fs nd opts st = optLoop fs true opts st := by
  induction opts generalizing st with
  | nil => rfl
  | cons o more ih =>
    cases o with
    | bad => rfl
    | opt o arg =>
      cases o <;> simp only [optLoop, attachFile_ndeq fs nd, ih]

/-! ### a whole run -/

theorem stInv_default : StInv (default : MainState) := by
  intro p hp; cases hp

theorem envInv_of_stInv (st : MainState) (nd : Bool) (cols : Option Nat) (h : StInv st) :
    EnvInv (runEnv st nd cols) := by
  intro p hp f hf
  exact (h p hp).2 f hf

theorem dfsRun_ok (fs : HostFs) (nd : Bool) (cols : Option Nat) (opts : List Opt) (rest : List Bytes) :
    ResOk (dfsRun fs nd cols opts rest) := by
  unfold dfsRun
  have ho := optLoop_ok fs nd opts default stInv_default
  revert ho
  cases optLoop fs nd opts default with
  | error r => intro ho; exact ho
  | ok st =>
    intro hst
    cases rest with
    | nil => exact resOk_fail
    | cons cmd more =>
      simp only []
      split
      · exact resOk_unmodelled _
      · split
        · exact resOk_fail
        · rename_i r hr
          have hg := runCommand_good (runEnv st nd cols) (envInv_of_stInv st nd cols hst) _ r hr
          cases r with
          | abort o s => exact hg.elim
          | threw o => exact ⟨.inr (.inl rfl), fun _ => rfl⟩
          | done ok o =>
            cases ok with
            | true => exact ⟨.inl rfl, fun h => absurd rfl h⟩
            | false =>
              refine ⟨.inr (.inl rfl), fun _ => ?_⟩
              have : o.err = true := hg rfl
              simp [this]

theorem dfsRun_no_crash (fs : HostFs) (nd : Bool) (cols : Option Nat) (opts : List Opt) (rest : List Bytes)
    (hfs : HostFs.IsBytes fs) : (dfsRun fs nd cols opts rest).crash = none := by
  unfold dfsRun
  have ho := optLoop_ok fs nd opts default stInv_default
  have hn := optLoop_NC fs nd hfs opts default
  revert ho hn
  cases optLoop fs nd opts default with
  | error r => intro _ hn; exact hn
  | ok st =>
    intro hst _
    cases rest with
    | nil => rfl
    | cons cmd more =>
      simp only []
      split
      · rfl
      · split
        · rfl
        · rename_i r hr
          have hg := runCommand_good (runEnv st nd cols) (envInv_of_stInv st nd cols hst) _ r hr
          cases r with
          | abort o s => exact hg.elim
          | threw o => rfl
          | done ok o => rfl

theorem dfsRun_nd (fs : HostFs) (cols : Option Nat) (opts : List Opt) (rest : List Bytes) :
    dfsRun fs true cols opts rest = dfsRun fs false cols opts rest := by
  unfold dfsRun
  rw [optLoop_ndeq fs false opts default]
  have ho := optLoop_ok fs true opts default stInv_default
  revert ho
  cases optLoop fs true opts default with
  | error r => intro _; rfl
  | ok st =>
    intro hst
    cases rest with
    | nil => rfl
    | cons cmd more =>
      simp only []
      by_cases hk : knownUnmodelledCommand cmd = true
      · simp only [hk, if_true]
      · simp only [hk, Bool.false_eq_true, if_false]
        rw [runEnv_nd st cols (cmd :: more)]
        intro r hr
        exact Good_NAc (runCommand_good (runEnv st false cols) (envInv_of_stInv st false cols hst) _ r hr)

/-! ### `main` -/

theorem dfsMain_eq (fs : HostFs) (nd : Bool) (cols : Option Nat) (argv : List Bytes) :
    dfsMain fs nd cols argv =
      dfsRun fs nd cols (getopt (argv.length + 1) argv []).1 (getopt (argv.length + 1) argv []).2 := rfl

/-- no crash site is reachable when the host files consist of bytes -/
theorem dfsMain_no_crash (fs : HostFs) (nd : Bool) (cols : Option Nat) (argv : List Bytes)
    (hfs : HostFs.IsBytes fs) : (dfsMain fs nd cols argv).crash = none := by
  rw [dfsMain_eq]; exact dfsRun_no_crash fs nd cols _ _ hfs

/-- the exit status is 0 or 1, and 134 only together with a crash (unconditional) -/
theorem dfsMain_exit' (fs : HostFs) (nd : Bool) (cols : Option Nat) (argv : List Bytes) :
    (dfsMain fs nd cols argv).exit = 0 ∨ (dfsMain fs nd cols argv).exit = 1 ∨
      ((dfsMain fs nd cols argv).exit = 134 ∧ (dfsMain fs nd cols argv).crash ≠ none) := by
  rw [dfsMain_eq]; exact (dfsRun_ok fs nd cols _ _).1

theorem dfsMain_exit (fs : HostFs) (nd : Bool) (cols : Option Nat) (argv : List Bytes)
    (hfs : HostFs.IsBytes fs) :
    (dfsMain fs nd cols argv).exit = 0 ∨ (dfsMain fs nd cols argv).exit = 1 := by
  rcases dfsMain_exit' fs nd cols argv with h | h | ⟨_, h⟩
  · exact .inl h
  · exact .inr h
  · exact absurd (dfsMain_no_crash fs nd cols argv hfs) h

theorem dfsMain_diagnostic (fs : HostFs) (nd : Bool) (cols : Option Nat) (argv : List Bytes)
    (h : (dfsMain fs nd cols argv).exit ≠ 0) : (dfsMain fs nd cols argv).err = true := by
  rw [dfsMain_eq] at h ⊢; exact (dfsRun_ok fs nd cols _ _).2 h

theorem dfsMain_nd (fs : HostFs) (cols : Option Nat) (argv : List Bytes) :
    dfsMain fs true cols argv = dfsMain fs false cols argv := by
  rw [dfsMain_eq, dfsMain_eq]; exact dfsRun_nd fs cols _ _

theorem missing_example :
    (dfsMain (fun _ => .missing) false none [strBytes "--file", strBytes "x.ssd", strBytes "cat"]).exit = 1 ∧
    (dfsMain (fun _ => .missing) false none [strBytes "--file", strBytes "x.ssd", strBytes "cat"]).err = true := by
  decide

end Beeb.HostileL
