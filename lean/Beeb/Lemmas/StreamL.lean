/-
Lemmas for C11: the fold invariant of the sticky-stream model.
-/
import Beeb.Model.Stream

namespace Beeb.StreamL
open Beeb Beeb.Stream

/-- byte counter step used by `totalBytes` -/
def cnt (n : Nat) : Act → Nat
  | .write b => n + b.length
  | .flush => n

theorem totalBytes_eq (acts : List Act) : totalBytes acts = acts.foldl cnt 0 := by
  rfl

/-- invariant: `n` bytes have been written to the stream so far -/
structure Inv (cap : Nat) (s : OStream) (n : Nat) : Prop where
  hcap : s.dev.cap = cap
  hle : s.dev.accepted ≤ cap
  good : s.bad = false → s.dev.accepted + s.buf.length = n
  badc : s.bad = true → cap < n

theorem Inv.flush {cap : Nat} {s : OStream} {n : Nat} (h : Inv cap s n) : Inv cap s.flush n := by
  obtain ⟨hcap, hle, good, badc⟩ := h
  unfold OStream.flush
  cases hb : s.bad with
  | true => simp only [if_true]; exact ⟨hcap, hle, good, badc⟩
  | false =>
    have hg := good hb
    simp only [Bool.false_eq_true, if_false]
    split
    · rename_i hr
      refine ⟨hcap, ?_, ?_, ?_⟩
      · simp only; omega
      · intro _; simp only [List.length_nil]; omega
      · intro h'; simp at h'
    · rename_i hr
      refine ⟨hcap, ?_, ?_, ?_⟩
      · simp only; omega
      · intro h'; simp at h'
      · intro _; omega

theorem Inv.write {cap : Nat} {s : OStream} {n : Nat} (h : Inv cap s n) (b : Bytes) :
    Inv cap (s.write b) (n + b.length) := by
  unfold OStream.write
  by_cases hb : s.bad = true
  · rw [if_pos hb]
    exact ⟨h.hcap, h.hle, fun h' => by simp [hb] at h', fun _ => by have := h.badc hb; omega⟩
  · rw [if_neg hb]
    have hb' : s.bad = false := by simpa using hb
    have h' : Inv cap { s with buf := s.buf ++ b } (n + b.length) :=
      ⟨h.hcap, h.hle, fun _ => by have := h.good hb'; simp only [List.length_append]; omega,
        fun h' => absurd h' hb⟩
    show Inv cap (if _ then _ else _) _
    split
    · exact h'.flush
    · exact h'

theorem Inv.act {cap : Nat} {s : OStream} {n : Nat} (h : Inv cap s n) (a : Act) :
    Inv cap (Stream.act s a) (cnt n a) := by
  cases a with
  | write b => exact h.write b
  | flush => exact h.flush

theorem Inv.foldl {cap : Nat} (acts : List Act) {s : OStream} {n : Nat} (h : Inv cap s n) :
    Inv cap (acts.foldl Stream.act s) (acts.foldl cnt n) := by
  induction acts generalizing s n with
  | nil => exact h
  | cons a as ih => exact ih (h.act a)

/-- the stream that `mainWith` tests -/
def final (cap bufSize : Nat) (acts : List Act) : OStream :=
  (acts.foldl Stream.act { dev := { cap := cap }, bufSize := bufSize }).flush

theorem final_inv (cap bufSize : Nat) (acts : List Act) :
    Inv cap (final cap bufSize acts) (totalBytes acts) := by
  rw [totalBytes_eq]
  have h0 : Inv cap ({ dev := { cap := cap }, bufSize := bufSize } : OStream) 0 :=
    ⟨rfl, Nat.zero_le _, fun _ => rfl, fun h => by cases h⟩
  exact (Inv.foldl acts h0).flush

theorem flush_buf (s : OStream) (h : s.flush.bad = false) : s.flush.buf = [] := by
  unfold OStream.flush at h ⊢
  cases hb : s.bad with
  | true => simp [hb] at h
  | false =>
    simp only [Bool.false_eq_true, if_false] at h ⊢
    split
    · rfl
    · rfl

theorem final_bad_iff (cap bufSize : Nat) (acts : List Act) :
    (final cap bufSize acts).bad = true ↔ cap < totalBytes acts := by
  have hi := final_inv cap bufSize acts
  constructor
  · exact hi.badc
  · intro h
    cases hb : (final cap bufSize acts).bad with
    | true => rfl
    | false =>
      have hg := hi.good hb
      have hbuf : (final cap bufSize acts).buf = [] := flush_buf _ hb
      have := hi.hle
      rw [hbuf] at hg
      simp only [List.length_nil] at hg
      omega

theorem final_good_accepted (cap bufSize : Nat) (acts : List Act)
    (hb : (final cap bufSize acts).bad = false) :
    (final cap bufSize acts).dev.accepted = totalBytes acts := by
  have hi := final_inv cap bufSize acts
  have hg := hi.good hb
  have hbuf : (final cap bufSize acts).buf = [] := flush_buf _ hb
  rw [hbuf] at hg
  simpa using hg

theorem mainWith_eq (cap bufSize : Nat) (acts : List Act) (st : Nat) (dg : Bool) :
    mainWith cap bufSize acts st dg =
      if (final cap bufSize acts).bad then
        ({ status := if st = 0 then 1 else st, diagnostic := true },
          (final cap bufSize acts).dev.accepted)
      else ({ status := st, diagnostic := dg }, (final cap bufSize acts).dev.accepted) := rfl

theorem failure_reported (cap bufSize : Nat) (acts : List Act) (st : Nat) (dg : Bool)
    (h : cap < totalBytes acts) :
    (mainWith cap bufSize acts st dg).1.status ≠ 0 ∧
      (mainWith cap bufSize acts st dg).1.diagnostic = true := by
  rw [mainWith_eq, if_pos ((final_bad_iff cap bufSize acts).2 h)]
  refine ⟨?_, rfl⟩
  simp only
  split <;> omega

theorem zero_means_complete (cap bufSize : Nat) (acts : List Act) (st : Nat) (dg : Bool)
    (h : (mainWith cap bufSize acts st dg).1.status = 0) :
    (mainWith cap bufSize acts st dg).2 = totalBytes acts := by
  rw [mainWith_eq] at h ⊢
  cases hb : (final cap bufSize acts).bad with
  | true =>
    rw [hb] at h
    simp only [if_true] at h
    split at h <;> omega
  | false =>
    simp only [Bool.false_eq_true, if_false]
    exact final_good_accepted cap bufSize acts hb

theorem no_false_alarm (cap bufSize : Nat) (acts : List Act) (st : Nat) (dg : Bool)
    (h : totalBytes acts ≤ cap) :
    (mainWith cap bufSize acts st dg).1 = { status := st, diagnostic := dg } := by
  have hb : (final cap bufSize acts).bad = false := by
    cases hb : (final cap bufSize acts).bad with
    | false => rfl
    | true => have := (final_bad_iff cap bufSize acts).1 hb; omega
  rw [mainWith_eq, hb]
  rfl

end Beeb.StreamL
