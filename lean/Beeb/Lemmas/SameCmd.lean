/-
Congruence of the commands in the drive table: two environments whose drives
present the same block device, geometry and file-system format (however the
drives are implemented) give the same result for every command.
Used by `Beeb.Props.C05b`.
-/
import Beeb.Model.Main
import Beeb.Lemmas.FsL

namespace Beeb.SameCmdL
open Beeb

/-- two drive configurations present the same device to the commands -/
def SameDrive (e1 e2 : Env) (c1 c2 : DriveCfg) : Prop :=
  e1.driveMedia c1 = e2.driveMedia c2 ∧ c1.view.geom = c2.view.geom ∧ c1.fmt = c2.fmt

/-- the two environments have the same drive numbers attached, in the same
    order, each presenting the same device; everything else (including the names
    of the image files, which the extract commands refuse to write over) is equal -/
def SameDrives (e1 e2 : Env) : Prop :=
  e1.storage.drives.map (·.1) = e2.storage.drives.map (·.1) ∧
  (∀ n c1 c2, e1.storage.lookup n = some c1 → e2.storage.lookup n = some c2 → SameDrive e1 e2 c1 c2) ∧
  e1.ctx = e2.ctx ∧ e1.ndebug = e2.ndebug ∧ e1.screenCols = e2.screenCols ∧ e1.images = e2.images

/-! ### the drive table -/

theorem find_isSome_of_keys (n : Nat) (l1 l2 : List (Nat × DriveCfg))
    (h : l1.map (·.1) = l2.map (·.1)) :
    (l1.find? (fun p => p.1 == n)).isSome = (l2.find? (fun p => p.1 == n)).isSome := by
  induction l1 generalizing l2 with
  | nil =>
    cases l2 with
    | nil => rfl
    | cons b t => simp at h
  | cons a t ih =>
    cases l2 with
    | nil => simp at h
    | cons b t2 =>
      simp only [List.map_cons, List.cons.injEq] at h
      simp only [List.find?_cons, h.1]
      cases hb : (b.1 == n) with
      | true => rfl
      | false => exact ih t2 h.2

/-- what `lookup n` gives in the two environments -/
theorem lookup_same (e1 e2 : Env) (h : SameDrives e1 e2) (n : Nat) :
    (e1.storage.lookup n = none ∧ e2.storage.lookup n = none) ∨
    ∃ c1 c2, e1.storage.lookup n = some c1 ∧ e2.storage.lookup n = some c2 ∧ SameDrive e1 e2 c1 c2 := by
  have hk := find_isSome_of_keys n _ _ h.1
  have h2 := h.2.1 n
  unfold Storage.lookup at h2 ⊢
  revert hk h2
  cases e1.storage.drives.find? (fun p => p.1 == n) with
  | none =>
    cases e2.storage.drives.find? (fun p => p.1 == n) with
    | none => intro _ _; exact .inl ⟨rfl, rfl⟩
    | some b => intro hk; simp at hk
  | some a =>
    cases e2.storage.drives.find? (fun p => p.1 == n) with
    | none => intro hk; simp at hk
    | some b => intro _ h2; exact .inr ⟨a.2, b.2, rfl, rfl, h2 _ _ rfl rfl⟩

theorem select_same (e1 e2 : Env) (h : SameDrives e1 e2) (n : Nat) :
    (e1.storage.select n = none ∧ e2.storage.select n = none) ∨
    ∃ c1 c2, e1.storage.select n = some c1 ∧ e2.storage.select n = some c2 ∧ SameDrive e1 e2 c1 c2 :=
  lookup_same e1 e2 h n

theorem foldl_max_keys (l : List (Nat × DriveCfg)) (a : Nat) :
    l.foldl (fun m p => max m p.1) a = (l.map (·.1)).foldl max a := by
  induction l generalizing a with
  | nil => rfl
  | cons x t ih => simp only [List.foldl_cons, List.map_cons]; exact ih _

theorem maxDrive_same (e1 e2 : Env) (h : SameDrives e1 e2) :
    e1.storage.maxDrive = e2.storage.maxDrive := by
  unfold Storage.maxDrive
  rw [foldl_max_keys, foldl_max_keys, h.1]

/-- the `--show-config` listing -/
theorem config_same (e1 e2 : Env) (h : SameDrives e1 e2) :
    showConfigLines e1.storage = showConfigLines e2.storage := by
  unfold showConfigLines
  simp only [maxDrive_same e1 e2 h]
  apply List.map_congr_left
  intro d _
  rcases lookup_same e1 e2 h d with ⟨h1, h2⟩ | ⟨c1, c2, h1, h2, hs⟩
  · rw [h1, h2]
  · rw [h1, h2]; simp only [hs.2.1]

/-! ### mounting -/

/-- `mount_fs` gives the same outcome, the same file system and the same device;
    only the drive configuration handed back may differ -/
theorem mountFs_same (e1 e2 : Env) (h : SameDrives e1 e2) (s : Nat) :
    e1.mountFs s = e2.mountFs s ∨
    ∃ fs m c1 c2, e1.mountFs s = .ok fs m c1 ∧ e2.mountFs s = .ok fs m c2 := by
  unfold Env.mountFs
  rcases select_same e1 e2 h s with ⟨h1, h2⟩ | ⟨c1, c2, h1, h2, hm, hg, hf⟩
  · rw [h1, h2]; exact .inl rfl
  · rw [h1, h2]
    simp only [hf, hm, hg, h.2.2.2.1]
    cases c2.fmt with
    | none => exact .inl rfl
    | some fmt =>
      simp only []
      cases FileSystem.make (e2.driveMedia c2) fmt c2.view.geom e2.ndebug with
      | ok fs => exact .inr ⟨fs, _, c1, c2, rfl, rfl⟩
      | err e => exact .inl rfl
      | abort a => exact .inl rfl

theorem mount_same (e1 e2 : Env) (h : SameDrives e1 e2) (v : VolSel) :
    e1.mount v = e2.mount v := by
  unfold Env.mount
  rcases mountFs_same e1 e2 h v.surface with hm | ⟨fs, m, c1, c2, h1, h2⟩
  · rw [hm]
  · rw [h1, h2]

/-! ### the commands -/

theorem bodyCommand_same (e1 e2 : Env) (h : SameDrives e1 e2) (args : List Bytes) (logic : Bytes → Bytes) :
    bodyCommand e1 args logic = bodyCommand e2 args logic := by
  unfold bodyCommand
  simp only [mount_same e1 e2 h, h.2.2.1]

theorem type_same (e1 e2 : Env) (h : SameDrives e1 e2) (args : List Bytes) :
    cmdType e1 args = cmdType e2 args := by
  unfold cmdType
  simp only [bodyCommand_same e1 e2 h]

theorem list_same (e1 e2 : Env) (h : SameDrives e1 e2) (args : List Bytes) :
    cmdList e1 args = cmdList e2 args := bodyCommand_same e1 e2 h _ _

theorem dump_same (e1 e2 : Env) (h : SameDrives e1 e2) (args : List Bytes) :
    cmdDump e1 args = cmdDump e2 args := bodyCommand_same e1 e2 h _ _

theorem dumpSector_same (e1 e2 : Env) (h : SameDrives e1 e2) (args : List Bytes) :
    cmdDumpSector e1 args = cmdDumpSector e2 args := by
  unfold cmdDumpSector
  split
  · split
    · rfl
    · rename_i surface _ _
      rcases select_same e1 e2 h surface with ⟨h1, h2⟩ | ⟨c1, c2, h1, h2, hm, hg, _⟩
      · rw [h1, h2]
      · rw [h1, h2]; simp only [hm, hg]
  · rfl

theorem info_same (e1 e2 : Env) (h : SameDrives e1 e2) (args : List Bytes) :
    cmdInfo e1 args = cmdInfo e2 args := by
  unfold cmdInfo
  simp only [mount_same e1 e2 h, h.2.2.1]

theorem cat_same (e1 e2 : Env) (h : SameDrives e1 e2) (args : List Bytes) :
    cmdCat e1 args = cmdCat e2 args := by
  unfold cmdCat
  simp only [mount_same e1 e2 h, h.2.2.1, h.2.2.2.2.1]

theorem free_same (e1 e2 : Env) (h : SameDrives e1 e2) (args : List Bytes) :
    cmdFree e1 args = cmdFree e2 args := by
  unfold cmdFree
  simp only [mount_same e1 e2 h, h.2.2.1]

theorem spaceGo_same (e1 e2 : Env) (h : SameDrives e1 e2) (sels l : List VolSel) (out : Bytes)
    (free : List (VolSel × Nat)) :
    spaceRun.go e1 sels l out free = spaceRun.go e2 sels l out free := by
  induction l generalizing out free with
  | nil => simp [spaceRun.go]
  | cons sel rest ih =>
    simp only [spaceRun.go, mount_same e1 e2 h]
    split <;> try rfl
    split <;> try rfl
    exact ih _ _

theorem space_same (e1 e2 : Env) (h : SameDrives e1 e2) (args : List Bytes) :
    cmdSpace e1 args = cmdSpace e2 args := by
  unfold cmdSpace spaceRun
  simp only [spaceGo_same e1 e2 h, h.2.2.1]

theorem sectorMap_same (e1 e2 : Env) (h : SameDrives e1 e2) (args : List Bytes) :
    cmdSectorMap e1 args = cmdSectorMap e2 args := by
  have go : ∀ surface : Nat,
      (match e1.mountFs surface with
        | .fail => failErr
        | .threw => .threw { err := true }
        | .abort s => .abort {} s
        | .ok fs _ _ =>
          match fs.discSectorCount with
          | .ok n => CmdRes.done true { out := sectorMapRender fs (sectorMapOf fs surface) n }
          | _ => .threw { out := strBytes "Sector:\n (dec): Name of file occupying each sector\n", err := true }) =
      (match e2.mountFs surface with
        | .fail => failErr
        | .threw => .threw { err := true }
        | .abort s => .abort {} s
        | .ok fs _ _ =>
          match fs.discSectorCount with
          | .ok n => .done true { out := sectorMapRender fs (sectorMapOf fs surface) n }
          | _ => .threw { out := strBytes "Sector:\n (dec): Name of file occupying each sector\n", err := true }) := by
    intro d
    rcases mountFs_same e1 e2 h d with hm | ⟨fs, m, c1, c2, h1, h2⟩
    · rw [hm]
    · rw [h1, h2]
  unfold cmdSectorMap
  simp only [h.2.2.1]
  split
  · split
    · rfl
    · exact go _
  · split
    · rfl
    · exact go _
  · split
    · rfl
    · split
      · rfl
      · exact go _
  · rfl

theorem extractUnused_same (e1 e2 : Env) (h : SameDrives e1 e2) (args : List Bytes) :
    cmdExtractUnused e1 args = cmdExtractUnused e2 args := by
  unfold cmdExtractUnused
  rw [Beeb.FsL.unusedLoop_images e1 e2 h.2.2.2.2.2]
  simp only [h.2.2.1]
  split
  · rfl
  · split
    · split
      · rfl
      · rcases mountFs_same e1 e2 h e2.ctx.vol.surface with hm | ⟨fs, m, c1, c2, h1, h2⟩
        · rw [hm]
        · rw [h1, h2]
    · rfl

theorem extractFiles_same (e1 e2 : Env) (h : SameDrives e1 e2) (args : List Bytes) :
    cmdExtractFiles e1 args = cmdExtractFiles e2 args := by
  unfold cmdExtractFiles
  rw [Beeb.FsL.extractLoop_images e1 e2 h.2.2.2.2.2]
  simp only [mount_same e1 e2 h, h.2.2.1]

theorem showTitle_same (e1 e2 : Env) (h : SameDrives e1 e2) (d : Nat) :
    showTitle e1 d = showTitle e2 d := by
  unfold showTitle
  rcases mountFs_same e1 e2 h d with hm | ⟨fs, m, c1, c2, h1, h2⟩
  · rw [hm]
  · rw [h1, h2]

theorem showTitlesGo_same (e1 e2 : Env) (h : SameDrives e1 e2) (l : List Nat) (ok : Bool) (out : Bytes) :
    cmdShowTitles.go e1 l ok out = cmdShowTitles.go e2 l ok out := by
  induction l generalizing ok out with
  | nil => simp [cmdShowTitles.go]
  | cons d rest ih =>
    simp only [cmdShowTitles.go, showTitle_same e1 e2 h]
    split <;> try rfl
    exact ih _ _

theorem showTitles_same (e1 e2 : Env) (h : SameDrives e1 e2) (args : List Bytes) :
    cmdShowTitles e1 args = cmdShowTitles e2 args := by
  unfold cmdShowTitles
  simp only [showTitlesGo_same e1 e2 h, h.1]

/-- every command gives the same result -/
theorem commands_same (e1 e2 : Env) (h : SameDrives e1 e2) (args : List Bytes) :
    runCommand e1 args = runCommand e2 args := by
  unfold runCommand
  simp only [info_same e1 e2 h, cat_same e1 e2 h, type_same e1 e2 h, list_same e1 e2 h, dump_same e1 e2 h,
    dumpSector_same e1 e2 h, free_same e1 e2 h, space_same e1 e2 h, sectorMap_same e1 e2 h,
    extractFiles_same e1 e2 h, extractUnused_same e1 e2 h, showTitles_same e1 e2 h]

end Beeb.SameCmdL
