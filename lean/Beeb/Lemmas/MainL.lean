/-
Lemmas about `main` (Beeb.Model.Main): the diagnostic options, the presentation
options, and the NDEBUG flag.  Used by Props/C18 and Props/C19.
-/
import Beeb.Model.Main
import Beeb.Model.Basic
import Beeb.Lemmas.CatL
import Beeb.Lemmas.FsL

namespace Beeb.MainL
open Beeb Beeb.Gen

/-! ### C18: `--verbose` / `--show-config` -/

/-- results agree on everything but the stderr flag and the `--show-config` text -/
def SameOut (a b : RunRes) : Prop :=
  a.out = b.out ∧ a.exit = b.exit ∧ a.files = b.files ∧ a.crash = b.crash ∧ a.unmodelled = b.unmodelled

/-- states agree except for `verbose` and `showConfig` -/
def Sim (a b : MainState) : Prop :=
  a.storage = b.storage ∧ a.medias = b.medias ∧ a.ctx = b.ctx ∧ a.policy = b.policy ∧ a.images = b.images

theorem Sim.rfl' (a : MainState) : Sim a a := ⟨rfl, rfl, rfl, rfl, rfl⟩

def SimR : Except RunRes MainState → Except RunRes MainState → Prop
  | .error a, .error b => a = b
  | .ok a, .ok b => Sim a b
  | _, _ => False

theorem attachFile_sim (fs : HostFs) (nd : Bool) (arg : Bytes) (st st' : MainState) (h : Sim st st') :
    SimR (attachFile fs nd arg st) (attachFile fs nd arg st') := by
  obtain ⟨s, ms, ctx, pol, sc, v, im⟩ := st
  obtain ⟨s', ms', ctx', pol', sc', v', im'⟩ := st'
  obtain ⟨h1, h2, h3, h4, h5⟩ := h
  simp only at h1 h2 h3 h4 h5
  subst h1 h2 h3 h4 h5
  unfold attachFile
  split
  · simp [SimR]
  · split
    · simp [SimR]
    · simp [SimR]
    · simp only []
      split
      · simp [SimR]
      · simp [SimR]
      · simp [SimR]
      · split
        · simp [SimR]
        · split
          · simp [SimR]
          · exact ⟨rfl, rfl, rfl, rfl, rfl⟩
      · split
        · simp [SimR]
        · split
          · simp [SimR]
          · exact ⟨rfl, rfl, rfl, rfl, rfl⟩

theorem optLoop_sim (fs : HostFs) (nd : Bool) (opts : List Opt) (st st' : MainState) (h : Sim st st') :
    SimR (optLoop fs nd opts st) (optLoop fs nd opts st') := by
  induction opts generalizing st st' with
  | nil => simpa [optLoop, SimR] using h
  | cons o more ih =>
    obtain ⟨h1, h2, h3, h4, h5⟩ := h
    cases o with
    | bad => simp [optLoop, SimR]
    | opt o arg =>
      cases o with
      | file =>
        simp only [optLoop]
        have := attachFile_sim fs nd arg st st' ⟨h1, h2, h3, h4, h5⟩
        revert this
        cases attachFile fs nd arg st <;> cases attachFile fs nd arg st' <;> simp only [SimR] <;> intro h
        · exact h
        · exact h.elim
        · exact h.elim
        · exact ih _ _ h
      | dir =>
        simp only [optLoop]
        split
        · simp [SimR]
        · exact ih _ _ ⟨h1, h2, by simp [h3], h4, h5⟩
      | drive =>
        simp only [optLoop]
        split
        · simp [SimR]
        · split
          · simp [SimR]
          · exact ih _ _ ⟨h1, h2, by simp [h3], h4, h5⟩
      | driveFirst => simp only [optLoop]; exact ih _ _ ⟨h1, h2, h3, rfl, h5⟩
      | drivePhysical => simp only [optLoop]; exact ih _ _ ⟨h1, h2, h3, rfl, h5⟩
      | showConfig => simp only [optLoop]; exact ih _ _ ⟨h1, h2, h3, h4, h5⟩
      | ui =>
        simp only [optLoop]
        split
        · simp [SimR]
        · exact ih _ _ ⟨h1, h2, by simp [h3], h4, h5⟩
      | verbose => simp only [optLoop]; exact ih _ _ ⟨h1, h2, h3, h4, h5⟩
      | help => simp [optLoop, SimR]

theorem optLoop_append (fs : HostFs) (nd : Bool) (a b : List Opt) (st : MainState) :
    optLoop fs nd (a ++ b) st =
      match optLoop fs nd a st with
      | .error r => .error r
      | .ok st' => optLoop fs nd b st' := by
  induction a generalizing st with
  | nil => simp [optLoop]
  | cons o more ih =>
    cases o with
    | bad => simp [optLoop]
    | opt o arg =>
      cases o <;> simp only [List.cons_append, optLoop]
      · split
        · rfl
        · exact ih _
      · split
        · rfl
        · exact ih _
      · split
        · rfl
        · split
          · rfl
          · exact ih _
      · exact ih _
      · exact ih _
      · exact ih _
      · split
        · rfl
        · exact ih _
      · exact ih _

/-- the tail of `dfsRun` after the option loop -/
theorem dfsRun_of_sim (fs : HostFs) (nd : Bool) (cols : Option Nat) (o1 o2 : List Opt) (rest : List Bytes)
    (h : SimR (optLoop fs nd o1 default) (optLoop fs nd o2 default)) :
    SameOut (dfsRun fs nd cols o1 rest) (dfsRun fs nd cols o2 rest) := by
  unfold dfsRun
  revert h
  cases optLoop fs nd o1 default <;> cases optLoop fs nd o2 default <;> simp only [SimR] <;> intro h
  · subst h; exact ⟨rfl, rfl, rfl, rfl, rfl⟩
  · exact h.elim
  · exact h.elim
  · obtain ⟨h1, h2, h3, h4, h5⟩ := h
    cases rest with
    | nil => exact ⟨rfl, rfl, rfl, rfl, rfl⟩
    | cons cmd more =>
      simp only [h1, h2, h3, h5]
      split
      · exact ⟨rfl, rfl, rfl, rfl, rfl⟩
      · split
        · exact ⟨rfl, rfl, rfl, rfl, rfl⟩
        · split <;> exact ⟨rfl, rfl, rfl, rfl, rfl⟩

theorem insert_same (fs : HostFs) (nd : Bool) (cols : Option Nat) (a b : List Opt) (rest : List Bytes)
    (x : Opt) (hx : ∀ st, ∃ st', optLoop fs nd [x] st = .ok st' ∧ Sim st' st) :
    SameOut (dfsRun fs nd cols (a ++ [x] ++ b) rest) (dfsRun fs nd cols (a ++ b) rest) := by
  apply dfsRun_of_sim
  rw [List.append_assoc, optLoop_append, optLoop_append fs nd a b]
  cases optLoop fs nd a default with
  | error r => simp [SimR]
  | ok st =>
    simp only []
    rw [optLoop_append]
    obtain ⟨st', e, hs⟩ := hx st
    rw [e]
    exact optLoop_sim fs nd b st' st hs

theorem verbose_same (fs : HostFs) (nd : Bool) (cols : Option Nat) (a b : List Opt) (rest : List Bytes) :
    SameOut (dfsRun fs nd cols (a ++ [Opt.opt .verbose []] ++ b) rest) (dfsRun fs nd cols (a ++ b) rest) :=
  insert_same fs nd cols a b rest _ (fun st => ⟨{ st with verbose := true }, by simp only [optLoop], ⟨rfl, rfl, rfl, rfl, rfl⟩⟩)

theorem showConfig_same (fs : HostFs) (nd : Bool) (cols : Option Nat) (a b : List Opt) (rest : List Bytes) :
    SameOut (dfsRun fs nd cols (a ++ [Opt.opt .showConfig []] ++ b) rest) (dfsRun fs nd cols (a ++ b) rest) :=
  insert_same fs nd cols a b rest _ (fun st => ⟨{ st with showConfig := true }, by simp only [optLoop], ⟨rfl, rfl, rfl, rfl, rfl⟩⟩)

/-! ### C18: `--ui` / COLUMNS -/

theorem ui_entries (curDir : Nat) (c : Catalog) (ui ui' cols cols' : Nat) (first gap : Bool) (c0 c0' : Col)
    (h0 : c0.pfx = []) (h0' : c0'.pfx = []) :
    ∃ seps seps' : List Bytes,
      (catEntries ui curDir cols (catSorted curDir c) first gap c0).out =
        c0.out ++ ((seps.zip (catSorted curDir c)).map (fun p => p.1 ++ catCell ui curDir p.2)).flatten ∧
      (catEntries ui' curDir cols' (catSorted curDir c) first gap c0').out =
        c0'.out ++ ((seps'.zip (catSorted curDir c)).map (fun p => p.1 ++ catCell ui' curDir p.2)).flatten ∧
      seps.length = (catSorted curDir c).length ∧ seps'.length = (catSorted curDir c).length := by
  obtain ⟨s, hl, _, he⟩ := Beeb.CatL.catEntries_cells ui curDir cols (catSorted curDir c) first gap c0 h0
  obtain ⟨s', hl', _, he'⟩ := Beeb.CatL.catEntries_cells ui' curDir cols' (catSorted curDir c) first gap c0' h0'
  exact ⟨s, s', he, he', hl, hl'⟩

/-- the environment with another `--ui` and COLUMNS -/
def uiEnv (env : Env) (ui : Nat) (cols : Option Nat) : Env :=
  { env with ctx := { env.ctx with ui := ui }, screenCols := cols }

theorem mountFs_ui (env : Env) (ui cols s) : (uiEnv env ui cols).mountFs s = env.mountFs s := rfl
theorem mount_ui (env : Env) (ui cols s) : (uiEnv env ui cols).mount s = env.mount s := rfl
theorem info_ui (env : Env) (ui cols a) : cmdInfo (uiEnv env ui cols) a = cmdInfo env a := rfl
theorem type_ui (env : Env) (ui cols a) : cmdType (uiEnv env ui cols) a = cmdType env a := rfl
theorem list_ui (env : Env) (ui cols a) : cmdList (uiEnv env ui cols) a = cmdList env a := rfl
theorem dump_ui (env : Env) (ui cols a) : cmdDump (uiEnv env ui cols) a = cmdDump env a := rfl
theorem dumpSector_ui (env : Env) (ui cols a) : cmdDumpSector (uiEnv env ui cols) a = cmdDumpSector env a := rfl
theorem free_ui (env : Env) (ui cols a) : cmdFree (uiEnv env ui cols) a = cmdFree env a := rfl
theorem sectorMap_ui (env : Env) (ui cols a) : cmdSectorMap (uiEnv env ui cols) a = cmdSectorMap env a := rfl
theorem extractFiles_ui (env : Env) (ui cols a) : cmdExtractFiles (uiEnv env ui cols) a = cmdExtractFiles env a := by
  unfold cmdExtractFiles
  rw [Beeb.FsL.extractLoop_images (uiEnv env ui cols) env rfl]
  rfl
theorem extractUnused_ui (env : Env) (ui cols a) : cmdExtractUnused (uiEnv env ui cols) a = cmdExtractUnused env a := by
  unfold cmdExtractUnused
  rw [Beeb.FsL.unusedLoop_images (uiEnv env ui cols) env rfl]
  rfl

theorem spaceGo_ui (env : Env) (ui cols sels l out free) :
    spaceRun.go (uiEnv env ui cols) sels l out free = spaceRun.go env sels l out free := by
  induction l generalizing out free with
  | nil => simp [spaceRun.go]
  | cons sel rest ih =>
    simp only [spaceRun.go, mount_ui]
    split <;> try rfl
    split <;> try rfl
    exact ih _ _

theorem space_ui (env : Env) (ui cols a) : cmdSpace (uiEnv env ui cols) a = cmdSpace env a := by
  unfold cmdSpace spaceRun
  simp only [spaceGo_ui]
  rfl

theorem showTitle_ui (env : Env) (ui cols d) : showTitle (uiEnv env ui cols) d = showTitle env d := rfl

theorem showTitlesGo_ui (env : Env) (ui cols l ok out) :
    cmdShowTitles.go (uiEnv env ui cols) l ok out = cmdShowTitles.go env l ok out := by
  induction l generalizing ok out with
  | nil => simp [cmdShowTitles.go]
  | cons d rest ih =>
    simp only [cmdShowTitles.go, showTitle_ui]
    split <;> try rfl
    exact ih _ _

theorem showTitles_ui (env : Env) (ui cols a) : cmdShowTitles (uiEnv env ui cols) a = cmdShowTitles env a := by
  unfold cmdShowTitles
  simp only [showTitlesGo_ui]
  rfl

theorem ui_irrelevant (env : Env) (ui : Nat) (cols : Option Nat) (args : List Bytes)
    (hc : args.head? ≠ some (strBytes "cat")) :
    runCommand { env with ctx := { env.ctx with ui := ui }, screenCols := cols } args = runCommand env args := by
  change runCommand (uiEnv env ui cols) args = runCommand env args
  cases args with
  | nil => rfl
  | cons c t =>
    have hc' : (c == strBytes "cat") = false := by
      simp only [List.head?_cons, ne_eq, Option.some.injEq] at hc
      simpa using hc
    simp only [runCommand, hc', info_ui, type_ui, list_ui, dump_ui, dumpSector_ui, free_ui, space_ui,
      sectorMap_ui, extractFiles_ui, extractUnused_ui, showTitles_ui, Bool.false_eq_true, if_false]

/-! ### C19: NDEBUG -/

/-- not a crash -/
def NA {α : Type} : Res α → Prop
  | .abort _ => False
  | _ => True

@[simp] theorem NA_abort {α : Type} (s : String) : NA (Res.abort s : Res α) = False := rfl
@[simp] theorem NA_ok {α : Type} (a : α) : NA (Res.ok a) = True := rfl
@[simp] theorem NA_err {α : Type} (s : String) : NA (Res.err s : Res α) = True := rfl

theorem chk_nd (m : Media) (l : List VolLoc) :
    NA (smellsLikeOpus.chk m false l) → smellsLikeOpus.chk m true l = smellsLikeOpus.chk m false l := by
  induction l with
  | nil => intro _; simp [smellsLikeOpus.chk]
  | cons a rest ih =>
    simp only [smellsLikeOpus.chk]
    by_cases h17 : a.start > 17
    · simp only [h17, decide_true, Bool.not_true, Bool.and_false, Bool.false_eq_true, if_false]
      split
      · simp
      · simp
      · split
        · exact ih
        · simp
    · simp [h17]

/-- case analysis on the assertion build's sub-result: if it aborts so does the caller -/
theorem smellsLikeOpus_nd (m : Media) :
    NA (smellsLikeOpus m false) → smellsLikeOpus m true = smellsLikeOpus m false := by
  unfold smellsLikeOpus
  split
  · simp
  · simp only []
    split
    · simp
    · split
      · simp
      · simp
      · split
        · simp
        · have hc := chk_nd m ‹_›
          revert hc
          cases smellsLikeOpus.chk m false ‹_› with
          | abort s => simp
          | err e => intro hc; rw [hc trivial]; simp
          | ok b => intro hc; rw [hc trivial]; simp

theorem smellsLikeAcorn_nd (m : Media) (s1 : Sector) :
    NA (smellsLikeAcorn m s1 false) → smellsLikeAcorn m s1 true = smellsLikeAcorn m s1 false := by
  unfold smellsLikeAcorn
  split
  · simp
  · split
    · simp
    · simp
    · simp
    · have hc := smellsLikeOpus_nd m
      revert hc
      cases smellsLikeOpus m false with
      | abort s => simp
      | err e => intro hc; rw [hc trivial]; simp
      | ok b => intro hc; rw [hc trivial]; simp

theorem probeFormat_nd (m : Media) :
    NA (probeFormat m false) → probeFormat m true = probeFormat m false := by
  unfold probeFormat
  split
  · simp
  · split
    · simp
    · split
      · simp
      · simp
      · simp
      · have hc := smellsLikeOpus_nd m
        revert hc
        cases smellsLikeOpus m false with
        | abort s => simp
        | err e => intro hc; rw [hc trivial]; simp
        | ok b =>
          intro hc; rw [hc trivial]
          cases b with
          | some n => simp
          | none =>
            simp only []
            have ha := smellsLikeAcorn_nd m ‹_›
            revert ha
            cases smellsLikeAcorn m ‹_› false with
            | abort s => simp
            | err e => intro ha; rw [ha trivial]; simp
            | ok b => intro ha; rw [ha trivial]; simp

theorem probe_nd (m : Media) (cands : List ImgFmt) :
    NA (probe m cands false) → probe m cands true = probe m cands false := by
  unfold probe
  have hc := probeFormat_nd m
  revert hc
  cases probeFormat m false with
  | abort s => simp
  | err e => intro hc; rw [hc trivial]; simp
  | ok b => intro hc; rw [hc trivial]; simp

theorem identifyImage_nd (m : Media) (name : String) :
    NA (identifyImage m name false) → identifyImage m name true = identifyImage m name false := by
  unfold identifyImage
  have hc := probe_nd m (candidateList name)
  revert hc
  cases probe m (candidateList name) false with
  | abort s => simp
  | err e => intro hc; rw [hc trivial]; simp
  | ok b => intro hc; rw [hc trivial]; simp

theorem identifyFileSystem_nd (m : Media) (g : Geometry) (il : Bool) :
    NA (identifyFileSystem m g il false) → identifyFileSystem m g il true = identifyFileSystem m g il false := by
  unfold identifyFileSystem
  have hc := probe_nd m [{ geom := g, interleaved := il }]
  revert hc
  cases probe m [{ geom := g, interleaved := il }] false with
  | abort s => simp
  | err e => intro hc; rw [hc trivial]; simp
  | ok b => intro hc; rw [hc trivial]; simp

theorem assert_nd {α : Type} (ok : Bool) (s : String) (x : α) :
    NA (if (!false && !ok) = true then Res.abort s else Res.ok x) →
      (if (!true && !ok) = true then Res.abort s else Res.ok x) =
      (if (!false && !ok) = true then Res.abort s else Res.ok x) := by
  cases ok <;> simp

theorem make_nd (m : Media) (fmt : Format) (geom : Geometry) :
    NA (FileSystem.make m fmt geom false) → FileSystem.make m fmt geom true = FileSystem.make m fmt geom false := by
  unfold FileSystem.make
  split
  · simp
  · simp
  · split
    · simp
    · exact assert_nd _ _ _

def NAa : Attach → Prop
  | .abort _ => False
  | _ => True

theorem imageViews_nd (name : Bytes) (hf : HostFile) (m : Media) (ld : Loader) :
    NAa (imageViews name hf m ld false) → imageViews name hf m ld true = imageViews name hf m ld false := by
  cases ld with
  | nonInterleaved =>
    simp only [imageViews]
    have hc := identifyImage_nd m (bytesToString name)
    revert hc
    cases identifyImage m (bytesToString name) false with
    | abort s => simp [NAa]
    | err e => intro hc; rw [hc trivial]; simp
    | ok b => intro hc; rw [hc trivial]; simp
  | interleaved =>
    simp only [imageViews]
    have hc := identifyImage_nd m (bytesToString name)
    revert hc
    cases identifyImage m (bytesToString name) false with
    | abort s => simp [NAa]
    | err e => intro hc; rw [hc trivial]; simp
    | ok b => intro hc; rw [hc trivial]; simp
  | mmb => intro _; simp only [imageViews]
  | hfe => intro _; rfl
  | hxcmfm => intro _; rfl

/-- the run did not crash -/
def NC {α : Type} : Except RunRes α → Prop
  | .error e => e.crash = none
  | .ok _ => True

@[simp] theorem NC_ok {α : Type} (a : α) : NC (Except.ok a : Except RunRes α) = True := rfl
@[simp] theorem NC_error {α : Type} (e : RunRes) : NC (Except.error e : Except RunRes α) = (e.crash = none) := rfl

theorem cfgs_nd (m : Media) (idx : Nat) (views : List View) :
    NC (attachFile.cfgs false m idx views) → attachFile.cfgs true m idx views = attachFile.cfgs false m idx views := by
  induction views with
  | nil => intro _; simp [attachFile.cfgs]
  | cons v vs ih =>
    simp only [attachFile.cfgs]
    by_cases hf : v.isFormatted = true
    · simp only [hf, if_true]
      have hc := identifyFileSystem_nd (v.readBlock m) v.geom false
      revert hc
      cases identifyFileSystem (v.readBlock m) v.geom false false with
      | abort s => simp
      | err e => intro hc; rw [hc trivial]; simp
      | ok b =>
        intro hc; rw [hc trivial]; simp only []
        revert ih
        cases attachFile.cfgs false m idx vs with
        | error e => intro ih h; rw [ih h]
        | ok r => intro ih _; rw [ih trivial]
    · simp only [hf, Bool.false_eq_true, if_false]
      revert ih
      cases attachFile.cfgs false m idx vs with
      | error e => intro ih h; rw [ih h]
      | ok r => intro ih _; rw [ih trivial]

theorem fcfgs_nd (idx k : Nat) (sides : List (View × Media)) :
    NC (attachFile.fcfgs false idx k sides) → attachFile.fcfgs true idx k sides = attachFile.fcfgs false idx k sides := by
  induction sides generalizing k with
  | nil => intro _; simp [attachFile.fcfgs]
  | cons p vs ih =>
    obtain ⟨v, sm⟩ := p
    simp only [attachFile.fcfgs]
    have hc := identifyFileSystem_nd (v.readBlock sm) v.geom false
    revert hc
    cases identifyFileSystem (v.readBlock sm) v.geom false false with
    | abort s => simp
    | err e => intro hc; rw [hc trivial]; simp
    | ok b =>
      intro hc; rw [hc trivial]; simp only []
      have ih' := ih (k + 1)
      revert ih'
      cases attachFile.fcfgs false idx (k + 1) vs with
      | error e => intro ih h; rw [ih h]
      | ok r => intro ih _; rw [ih trivial]

theorem attachFile_nd (fs : HostFs) (arg : Bytes) (st : MainState) :
    NC (attachFile fs false arg st) → attachFile fs true arg st = attachFile fs false arg st := by
  unfold attachFile
  split
  · simp
  · split
    · simp
    · simp
    · simp only []
      generalize hiv : imageViews arg _ _ _ false = ivf
      cases ivf with
      | abort s => intro h; cases h
      | fail => rw [imageViews_nd arg _ _ _ (by rw [hiv]; trivial), hiv]; simp
      | unmodelled w => rw [imageViews_nd arg _ _ _ (by rw [hiv]; trivial), hiv]; simp
      | ok views warned =>
        rw [imageViews_nd arg _ _ _ (by rw [hiv]; trivial), hiv]
        simp only []
        generalize hcf : attachFile.cfgs false _ _ views = cf
        cases cf with
        | error e => intro h; rw [cfgs_nd _ _ _ (by rw [hcf]; exact h), hcf]
        | ok ds => intro _; rw [cfgs_nd _ _ _ (by rw [hcf]; trivial), hcf]
      | flux sides noise =>
        rw [imageViews_nd arg _ _ _ (by rw [hiv]; trivial), hiv]
        simp only []
        generalize hcf : attachFile.fcfgs false _ _ sides = cf
        cases cf with
        | error e => intro h; rw [fcfgs_nd _ _ _ (by rw [hcf]; exact h), hcf]
        | ok ds => intro _; rw [fcfgs_nd _ _ _ (by rw [hcf]; trivial), hcf]

theorem optLoop_nd (fs : HostFs) (opts : List Opt) (st : MainState) :
    NC (optLoop fs false opts st) → optLoop fs true opts st = optLoop fs false opts st := by
  induction opts generalizing st with
  | nil => intro _; simp [optLoop]
  | cons o more ih =>
    cases o with
    | bad => intro _; simp [optLoop]
    | opt o arg =>
      cases o <;> simp only [optLoop]
      · have ha := attachFile_nd fs arg st
        revert ha
        cases attachFile fs false arg st with
        | error e => intro ha h; rw [ha h]
        | ok st' => intro ha h; rw [ha trivial]; exact ih _ h
      · split
        · intro _; rfl
        · exact ih _
      · split
        · intro _; rfl
        · split
          · intro _; rfl
          · exact ih _
      · exact ih _
      · exact ih _
      · exact ih _
      · intro _; trivial
      · split
        · intro _; rfl
        · exact ih _
      · exact ih _

/-! #### the commands -/

/-- the environment of the assertion build (`false`) / the NDEBUG build (`true`) -/
def ndEnv (env : Env) (b : Bool) : Env := { env with ndebug := b }

@[simp] theorem ndEnv_storage (env : Env) (b : Bool) : (ndEnv env b).storage = env.storage := rfl
@[simp] theorem ndEnv_media (env : Env) (b : Bool) : (ndEnv env b).media = env.media := rfl
@[simp] theorem ndEnv_ctx (env : Env) (b : Bool) : (ndEnv env b).ctx = env.ctx := rfl
@[simp] theorem ndEnv_cols (env : Env) (b : Bool) : (ndEnv env b).screenCols = env.screenCols := rfl
@[simp] theorem ndEnv_ndebug (env : Env) (b : Bool) : (ndEnv env b).ndebug = b := rfl
@[simp] theorem ndEnv_driveMedia (env : Env) (b : Bool) (cfg : DriveCfg) :
    (ndEnv env b).driveMedia cfg = env.driveMedia cfg := rfl

theorem mountFs_nd (env : Env) (s : Nat) :
    (ndEnv env true).mountFs s = (ndEnv env false).mountFs s ∨ ∃ a, (ndEnv env false).mountFs s = .abort a := by
  unfold Env.mountFs
  simp only [ndEnv_storage, ndEnv_ndebug, ndEnv_driveMedia]
  split
  · exact .inl rfl
  · split
    · exact .inl rfl
    · have hc := make_nd (env.driveMedia ‹_›) ‹_› (‹DriveCfg›).view.geom
      revert hc
      cases FileSystem.make (env.driveMedia ‹_›) ‹_› (‹DriveCfg›).view.geom false with
      | abort s => intro _; exact .inr ⟨s, rfl⟩
      | err e => intro hc; rw [hc trivial]; exact .inl rfl
      | ok b => intro hc; rw [hc trivial]; exact .inl rfl

theorem mount_nd (env : Env) (v : VolSel) :
    (ndEnv env true).mount v = (ndEnv env false).mount v ∨ ∃ a, (ndEnv env false).mount v = .abort a := by
  unfold Env.mount
  rcases mountFs_nd env v.surface with h | ⟨a, h⟩
  · rw [h]; exact .inl rfl
  · rw [h]; exact .inr ⟨a, rfl⟩

def NAc : CmdRes → Prop
  | .abort _ _ => False
  | _ => True

@[simp] theorem NAc_abort (o : Out) (s : String) : NAc (.abort o s) = False := rfl

theorem bodyCommand_nd (env : Env) (args : List Bytes) (logic : Bytes → Bytes) :
    NAc (bodyCommand (ndEnv env false) args logic) →
      bodyCommand (ndEnv env true) args logic = bodyCommand (ndEnv env false) args logic := by
  unfold bodyCommand
  simp only [ndEnv_ctx]
  split
  · intro _; rfl
  · intro _; rfl
  · split
    · intro _; rfl
    · rcases mount_nd env (‹ParsedName›).vol with h | ⟨a, h⟩
      · rw [h]; intro _; rfl
      · rw [h]; simp

theorem type_nd (env : Env) (args : List Bytes) :
    NAc (cmdType (ndEnv env false) args) → cmdType (ndEnv env true) args = cmdType (ndEnv env false) args := by
  unfold cmdType
  split
  · intro _; rfl
  · simp only []
    split
    · intro _; rfl
    · exact bodyCommand_nd _ _ _

theorem list_nd (env : Env) (args : List Bytes) :
    NAc (cmdList (ndEnv env false) args) → cmdList (ndEnv env true) args = cmdList (ndEnv env false) args :=
  bodyCommand_nd _ _ _

theorem dump_nd (env : Env) (args : List Bytes) :
    NAc (cmdDump (ndEnv env false) args) → cmdDump (ndEnv env true) args = cmdDump (ndEnv env false) args :=
  bodyCommand_nd _ _ _

theorem dumpSector_nd (env : Env) (args : List Bytes) :
    cmdDumpSector (ndEnv env true) args = cmdDumpSector (ndEnv env false) args := rfl

theorem info_nd (env : Env) (args : List Bytes) :
    NAc (cmdInfo (ndEnv env false) args) → cmdInfo (ndEnv env true) args = cmdInfo (ndEnv env false) args := by
  unfold cmdInfo
  simp only [ndEnv_ctx]
  split
  · split
    · intro _; rfl
    · rcases mount_nd env (‹Matcher›).vol with h | ⟨a, h⟩
      · rw [h]; intro _; rfl
      · rw [h]; simp
  · intro _; rfl

theorem cat_nd (env : Env) (args : List Bytes) :
    NAc (cmdCat (ndEnv env false) args) → cmdCat (ndEnv env true) args = cmdCat (ndEnv env false) args := by
  have go : ∀ d : VolSel,
      NAc (match (ndEnv env false).mount d with
        | .fail => failErr
        | .threw => .threw { err := true }
        | .abort s => .abort {} s
        | .ok fs v _ => .done true { out := cmdCatRender env.ctx env.screenCols d fs v }) →
      (match (ndEnv env true).mount d with
        | .fail => failErr
        | .threw => .threw { err := true }
        | .abort s => .abort {} s
        | .ok fs v _ => CmdRes.done true { out := cmdCatRender env.ctx env.screenCols d fs v }) =
      (match (ndEnv env false).mount d with
        | .fail => failErr
        | .threw => .threw { err := true }
        | .abort s => .abort {} s
        | .ok fs v _ => .done true { out := cmdCatRender env.ctx env.screenCols d fs v }) := by
    intro d
    rcases mount_nd env d with h | ⟨a, h⟩
    · rw [h]; intro _; rfl
    · rw [h]; simp
  unfold cmdCat
  simp only [ndEnv_ctx, ndEnv_cols]
  split
  · exact go _
  · exact go _
  · split
    · intro _; rfl
    · split
      · intro _; rfl
      · exact go _
  · intro _; rfl

theorem free_nd (env : Env) (args : List Bytes) :
    NAc (cmdFree (ndEnv env false) args) → cmdFree (ndEnv env true) args = cmdFree (ndEnv env false) args := by
  have go : ∀ d : VolSel,
      NAc (match (ndEnv env false).mount d with
        | .fail => failErr
        | .threw => .threw { err := true }
        | .abort s => .abort {} s
        | .ok _ v _ => .done true { out := cmdFreeRender v.cat }) →
      (match (ndEnv env true).mount d with
        | .fail => failErr
        | .threw => .threw { err := true }
        | .abort s => .abort {} s
        | .ok _ v _ => CmdRes.done true { out := cmdFreeRender v.cat }) =
      (match (ndEnv env false).mount d with
        | .fail => failErr
        | .threw => .threw { err := true }
        | .abort s => .abort {} s
        | .ok _ v _ => .done true { out := cmdFreeRender v.cat }) := by
    intro d
    rcases mount_nd env d with h | ⟨a, h⟩
    · rw [h]; intro _; rfl
    · rw [h]; simp
  unfold cmdFree
  simp only [ndEnv_ctx]
  split
  · exact go _
  · exact go _
  · split
    · intro _; rfl
    · split
      · intro _; rfl
      · exact go _
  · intro _; rfl

theorem spaceGo_nd (env : Env) (sels l : List VolSel) (out : Bytes) (free : List (VolSel × Nat)) :
    NAc (spaceRun.go (ndEnv env false) sels l out free) →
      spaceRun.go (ndEnv env true) sels l out free = spaceRun.go (ndEnv env false) sels l out free := by
  induction l generalizing out free with
  | nil => intro _; simp [spaceRun.go]
  | cons sel rest ih =>
    simp only [spaceRun.go]
    rcases mount_nd env sel with h | ⟨a, h⟩
    · rw [h]
      split
      · intro _; rfl
      · intro _; rfl
      · intro _; rfl
      · split
        · intro _; rfl
        · exact ih _ _
    · rw [h]; simp

theorem space_nd (env : Env) (args : List Bytes) :
    NAc (cmdSpace (ndEnv env false) args) → cmdSpace (ndEnv env true) args = cmdSpace (ndEnv env false) args := by
  unfold cmdSpace spaceRun
  simp only [ndEnv_ctx]
  split
  · exact spaceGo_nd _ _ _ _ _
  · exact spaceGo_nd _ _ _ _ _
  · split
    · intro _; rfl
    · exact spaceGo_nd _ _ _ _ _

theorem sectorMap_nd (env : Env) (args : List Bytes) :
    NAc (cmdSectorMap (ndEnv env false) args) →
      cmdSectorMap (ndEnv env true) args = cmdSectorMap (ndEnv env false) args := by
  have go : ∀ surface : Nat,
      NAc (match (ndEnv env false).mountFs surface with
        | .fail => failErr
        | .threw => .threw { err := true }
        | .abort s => .abort {} s
        | .ok fs _ _ =>
          match fs.discSectorCount with
          | .ok n => .done true { out := sectorMapRender fs (sectorMapOf fs surface) n }
          | _ => .threw { out := strBytes "Sector:\n (dec): Name of file occupying each sector\n", err := true }) →
      (match (ndEnv env true).mountFs surface with
        | .fail => failErr
        | .threw => .threw { err := true }
        | .abort s => .abort {} s
        | .ok fs _ _ =>
          match fs.discSectorCount with
          | .ok n => CmdRes.done true { out := sectorMapRender fs (sectorMapOf fs surface) n }
          | _ => .threw { out := strBytes "Sector:\n (dec): Name of file occupying each sector\n", err := true }) =
      (match (ndEnv env false).mountFs surface with
        | .fail => failErr
        | .threw => .threw { err := true }
        | .abort s => .abort {} s
        | .ok fs _ _ =>
          match fs.discSectorCount with
          | .ok n => .done true { out := sectorMapRender fs (sectorMapOf fs surface) n }
          | _ => .threw { out := strBytes "Sector:\n (dec): Name of file occupying each sector\n", err := true }) := by
    intro d
    rcases mountFs_nd env d with h | ⟨a, h⟩
    · rw [h]; intro _; rfl
    · rw [h]; simp
  unfold cmdSectorMap
  simp only [ndEnv_ctx]
  split
  · by_cases hs : env.ctx.vol.subvol.isSome = true
    · simp only [hs, if_true]; intro _; trivial
    · simp only [hs]; exact go _
  · by_cases hs : env.ctx.vol.subvol.isSome = true
    · simp only [hs, if_true]; intro _; trivial
    · simp only [hs]; exact go _
  · split
    · intro _; rfl
    · split
      · intro _; rfl
      · exact go _
  · intro _; rfl

theorem extractUnused_nd (env : Env) (args : List Bytes) :
    NAc (cmdExtractUnused (ndEnv env false) args) →
      cmdExtractUnused (ndEnv env true) args = cmdExtractUnused (ndEnv env false) args := by
  unfold cmdExtractUnused
  rw [Beeb.FsL.unusedLoop_images (ndEnv env true) (ndEnv env false) rfl]
  simp only [ndEnv_ctx]
  by_cases hs : env.ctx.vol.subvol.isSome = true
  · simp only [hs, if_true]; intro _; trivial
  · simp only [hs, Bool.false_eq_true, if_false]
    split
    · by_cases he : List.isEmpty ‹Bytes› = true
      · simp only [he, if_true]; intro _; trivial
      · simp only [he, Bool.false_eq_true, if_false]
        rcases mountFs_nd env env.ctx.vol.surface with h | ⟨a, h⟩
        · rw [h]; intro _; rfl
        · rw [h]; simp
    · intro _; rfl

theorem extractFiles_nd (env : Env) (args : List Bytes) :
    NAc (cmdExtractFiles (ndEnv env false) args) →
      cmdExtractFiles (ndEnv env true) args = cmdExtractFiles (ndEnv env false) args := by
  unfold cmdExtractFiles
  rw [Beeb.FsL.extractLoop_images (ndEnv env true) (ndEnv env false) rfl]
  simp only [ndEnv_ctx]
  split
  · split
    · intro _; rfl
    · rcases mount_nd env env.ctx.vol with h | ⟨a, h⟩
      · rw [h]; intro _; rfl
      · rw [h]; simp
  · intro _; rfl

theorem showTitle_nd (env : Env) (d : Nat) :
    showTitle (ndEnv env true) d = showTitle (ndEnv env false) d ∨
      ∃ a, showTitle (ndEnv env false) d = (none, [], some a) := by
  unfold showTitle
  rcases mountFs_nd env d with h | ⟨a, h⟩
  · rw [h]; exact .inl rfl
  · rw [h]; exact .inr ⟨a, rfl⟩

theorem showTitlesGo_nd (env : Env) (l : List Nat) (ok : Bool) (out : Bytes) :
    NAc (cmdShowTitles.go (ndEnv env false) l ok out) →
      cmdShowTitles.go (ndEnv env true) l ok out = cmdShowTitles.go (ndEnv env false) l ok out := by
  induction l generalizing ok out with
  | nil => intro _; simp [cmdShowTitles.go]
  | cons d rest ih =>
    simp only [cmdShowTitles.go]
    rcases showTitle_nd env d with h | ⟨a, h⟩
    · rw [h]
      split
      · exact ih _ _
      · intro _; rfl
      · intro _; rfl
    · rw [h]; simp

theorem showTitles_nd (env : Env) (args : List Bytes) :
    NAc (cmdShowTitles (ndEnv env false) args) →
      cmdShowTitles (ndEnv env true) args = cmdShowTitles (ndEnv env false) args := by
  unfold cmdShowTitles
  simp only [ndEnv_storage]
  split
  · intro _; rfl
  · exact showTitlesGo_nd _ _ _ _

theorem ite_some_nd {c : Prop} [Decidable c] {a a' : CmdRes} {x x' : Option CmdRes}
    (ha : NAc a → a' = a) (hx : (∀ r, x = some r → NAc r) → x' = x) :
    (∀ r, (if c then some a else x) = some r → NAc r) →
      (if c then some a' else x') = (if c then some a else x) := by
  by_cases hc : c
  · simp only [hc, if_true]; intro h; rw [ha (h _ rfl)]
  · simp only [hc, if_false]; exact hx

theorem runCommand_nd (env : Env) (args : List Bytes) :
    (∀ r, runCommand (ndEnv env false) args = some r → NAc r) →
      runCommand (ndEnv env true) args = runCommand (ndEnv env false) args := by
  unfold runCommand
  cases args with
  | nil => intro _; rfl
  | cons c t =>
    exact ite_some_nd (info_nd _ _) <| ite_some_nd (cat_nd _ _) <| ite_some_nd (type_nd _ _) <|
      ite_some_nd (list_nd _ _) <| ite_some_nd (dump_nd _ _) <|
      ite_some_nd (fun _ => dumpSector_nd _ _) <| ite_some_nd (free_nd _ _) <|
      ite_some_nd (space_nd _ _) <| ite_some_nd (sectorMap_nd _ _) <|
      ite_some_nd (extractFiles_nd _ _) <| ite_some_nd (extractUnused_nd _ _) <|
      ite_some_nd (showTitles_nd _ _) <| fun _ => rfl

/-- the environment `dfsRun` builds -/
@[reducible] def runEnv (st : MainState) (nd : Bool) (cols : Option Nat) : Env :=
  { storage := st.storage, media := fun i => st.medias.getD i (fun _ => none),
    ctx := st.ctx, ndebug := nd, screenCols := cols, images := st.images }

theorem runEnv_nd (st : MainState) (cols : Option Nat) (args : List Bytes) :
    (∀ r, runCommand (runEnv st false cols) args = some r → NAc r) →
      runCommand (runEnv st true cols) args = runCommand (runEnv st false cols) args :=
  runCommand_nd (runEnv st false cols) args

theorem ndebug_same (fs : HostFs) (cols : Option Nat) (opts : List Opt) (rest : List Bytes)
    (h : (dfsRun fs false cols opts rest).crash = none) :
    dfsRun fs true cols opts rest = dfsRun fs false cols opts rest := by
  unfold dfsRun at h ⊢
  have ho := optLoop_nd fs opts default
  revert ho h
  cases optLoop fs false opts default with
  | error r => intro h ho; rw [ho h]
  | ok st =>
    intro h ho; rw [ho trivial]
    cases rest with
    | nil => rfl
    | cons cmd more =>
      simp only at h ⊢
      by_cases hk : knownUnmodelledCommand cmd = true
      · simp only [hk, if_true]
      · simp only [hk, Bool.false_eq_true, if_false] at h ⊢
        rw [runEnv_nd st cols (cmd :: more)]
        intro r hrr
        rw [hrr] at h
        cases r with
        | abort o s => cases h
        | done ok o => trivial
        | threw o => trivial

/-! ### C19: bbcbasic_to_text default dialect -/

theorem bgetopt_nonopt (fuel : Nat) (name : Bytes) (more : List Bytes) (acc : List Beeb.Basic.BOpt)
    (h : name = [] ∨ name.getD 0 0 ≠ 45) :
    Beeb.Basic.bgetopt (fuel + 1) (name :: more) acc = (acc.reverse, name :: more) := by
  have h1 : (name == [45, 45]) = false := by
    rcases h with h | h
    · subst h; rfl
    · cases name with
      | nil => rfl
      | cons x t =>
        have hx : x ≠ 45 := by simpa using h
        cases t with
        | nil => simp
        | cons y t => simp [hx]
  have h2 : (decide (name.length > 2) && name.take 2 == [45, 45]) = false := by
    rcases h with h | h
    · subst h; rfl
    · cases name with
      | nil => rfl
      | cons x t =>
        have hx : x ≠ 45 := by simpa using h
        cases t with
        | nil => rfl
        | cons y t => simp [hx]
  have h3 : (decide (name.length ≥ 2) && name.getD 0 0 == 45) = false := by
    rcases h with h | h
    · subst h; rfl
    · have h' : (name.getD 0 0 == 45) = false := by simpa using h
      rw [h', Bool.and_false]
  unfold Beeb.Basic.bgetopt
  simp only [h1, h2, h3, Bool.false_eq_true, if_false]

theorem bgetopt_dialect (f : Nat) (v : Bytes) (rest : List Bytes) (acc : List Beeb.Basic.BOpt) :
    Beeb.Basic.bgetopt (f + 1) (strBytes "--dialect" :: v :: rest) acc = Beeb.Basic.bgetopt f rest (.dialect v :: acc) := by
  rfl

theorem basic_default (tbl : Array (Array (Array Tok))) (names : List (String × Nat))
    (files : Bytes → Option Bytes) (stdin : Bytes) (name : Bytes)
    (h6502 : Beeb.Basic.dialectByName names (strBytes "6502") = some 0) :
    Beeb.Basic.basicMain tbl names files stdin [name] =
      Beeb.Basic.basicMain tbl names files stdin [strBytes "--dialect", strBytes "6502", name] ∨
    (name.length ≥ 1 ∧ name.getD 0 0 = 45) := by
  by_cases h : name = [] ∨ name.getD 0 0 ≠ 45
  · left
    have e1 : Beeb.Basic.bgetopt ([name].length + 1) [name] [] = ([], [name]) := bgetopt_nonopt _ _ _ _ h
    have e2 : Beeb.Basic.bgetopt ([strBytes "--dialect", strBytes "6502", name].length + 1)
        [strBytes "--dialect", strBytes "6502", name] [] = ([Beeb.Basic.BOpt.dialect (strBytes "6502")], [name]) := by
      rw [show [strBytes "--dialect", strBytes "6502", name].length + 1 = 2 + 1 + 1 from rfl, bgetopt_dialect]
      exact bgetopt_nonopt _ _ _ _ h
    have hh : (strBytes "6502" == strBytes "help") = false := by decide
    unfold Beeb.Basic.basicMain
    simp only [e1, e2, h6502, Beeb.Basic.basicMain.optLoop, hh, Bool.false_eq_true, if_false]
  · right
    cases name with
    | nil => simp at h
    | cons x t => simpa using h

end Beeb.MainL
