/- Shift/mask/or normal-form lemmas used to link the generated leaves to arithmetic. -/
namespace Beeb.Bits

theorem shl_eq (a k : Nat) : a <<< k = a * 2 ^ k := Nat.shiftLeft_eq a k
theorem shr_eq (a k : Nat) : a >>> k = a / 2 ^ k := Nat.shiftRight_eq_div_pow a k

theorem mul_pow_or (k a b : Nat) (hb : b < 2 ^ k) : (a * 2 ^ k ||| b) = a * 2 ^ k + b := by
  have := Nat.two_pow_add_eq_or_of_lt (i := k) (b := b) hb a
  rw [Nat.mul_comm] at this; exact this.symm

theorem or_mul_pow (k a b : Nat) (hb : b < 2 ^ k) : (b ||| a * 2 ^ k) = a * 2 ^ k + b := by
  rw [Nat.or_comm]; exact mul_pow_or k a b hb

theorem and_mask (x k : Nat) : x &&& (2 ^ k - 1) = x % 2 ^ k := Nat.and_two_pow_sub_one_eq_mod x k

theorem and_3 (x : Nat) : x &&& 3 = x % 4 := and_mask x 2
theorem and_127 (x : Nat) : x &&& 127 = x % 128 := and_mask x 7
theorem and_127' (x : Nat) : 127 &&& x = x % 128 := by rw [Nat.and_comm]; exact and_mask x 7
theorem and_255 (x : Nat) : x &&& 255 = x % 256 := and_mask x 8
theorem and_32767 (x : Nat) : x &&& 32767 = x % 32768 := and_mask x 15
theorem and_65535 (x : Nat) : x &&& 65535 = x % 65536 := and_mask x 16

/-- testing one bit -/
theorem and_pow_ne_zero (x k : Nat) : (x &&& 2 ^ k != 0) = x.testBit k := by
  by_cases h : x.testBit k
  · have h1 : (x &&& 2 ^ k).testBit k = true := by
      simp [Nat.testBit_and, h, Nat.testBit_two_pow_self]
    have h2 : x &&& 2 ^ k ≠ 0 := by
      intro h0; rw [h0] at h1; simp at h1
    simp [h, h2]
  · have h2 : x &&& 2 ^ k = 0 := by
      apply Nat.eq_of_testBit_eq
      intro i
      simp only [Nat.testBit_and, Nat.testBit_two_pow, Nat.zero_testBit]
      by_cases hk : k = i
      · subst hk; simp [h]
      · simp [hk]
    simp [h, h2]

theorem testBit_eq (x k : Nat) : x.testBit k = decide (x / 2 ^ k % 2 = 1) :=
  Nat.testBit_eq_decide_div_mod_eq

end Beeb.Bits
