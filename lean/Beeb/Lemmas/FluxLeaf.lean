/-
The flux leaves: the machine-generated integer functions of dfs/img_hfe.cc,
dfs/img_hxcmfm.cc and dfs/track.h agree with the hand-written model definitions
of Beeb/Model/FluxImg.lean on every value that can occur.
-/
import Beeb.Model.FluxImg
import Beeb.Lemmas.Bits

namespace Beeb.FluxLeafL
open Beeb Beeb.Flux Beeb.Bits

theorem leaf_reverse_bit_order : ∀ b, b < 256 → Gen.reverse_bit_order b = revBits b := by
  decide +kernel

theorem leaf_is_hfe3_opcode : ∀ b, b < 256 → Gen.is_hfe3_opcode b = ((b &&& 0xF0) == 0xF0) := by
  decide +kernel

/-- clearing the low nine bits of a 32-bit value -/
theorem and_high_mask (x : Nat) (h : x < 2 ^ 32) : x &&& 4294966784 = x - x % 512 := by
  have e1 : (4294966784 : Nat) = (2 ^ 23 - 1) <<< 9 := by decide
  have e2 : x - x % 512 = (x >>> 9) <<< 9 := by
    rw [shl_eq, shr_eq]
    have := Nat.div_add_mod x 512
    have e : (2 : Nat) ^ 9 = 512 := by decide
    rw [e]; omega
  rw [e1, e2]
  apply Nat.eq_of_testBit_eq
  intro j
  simp only [Nat.testBit_and, Nat.testBit_shiftLeft, Nat.testBit_shiftRight,
    Nat.testBit_two_pow_sub_one]
  by_cases h9 : j ≥ 9
  · by_cases h32 : j - 9 < 23
    · have : 9 + (j - 9) = j := by omega
      simp [h9, h32, this]
    · have hj : 32 ≤ j := by omega
      have hx : x < 2 ^ j := Nat.lt_of_lt_of_le h (Nat.pow_le_pow_right (by decide) hj)
      have : 9 + (j - 9) = j := by omega
      simp [h32, this, Nat.testBit_lt_two_pow hx]
  · simp [h9]

theorem leaf_track_len (tl : Nat) (h : tl < 65536) : Gen.pictrack_len tl = picTrackLen tl := by
  have hm : tl &&& 511 = tl % 512 := Nat.and_two_pow_sub_one_eq_mod tl 9
  have hh : tl &&& 4294966784 = tl - tl % 512 := and_high_mask tl (by omega)
  have hc : (4294967295 - 511 : Nat) = 4294966784 := by decide
  have hx : (0x1FF : Nat) = 511 := rfl
  have hy : (0x200 : Nat) = 512 := rfl
  unfold Gen.pictrack_len picTrackLen
  rw [hc, hx, hy, hm, hh]
  split
  · apply Nat.mod_eq_of_lt; omega
  · rfl

theorem getD_lt (bs : Bytes) (hb : ∀ x ∈ bs, x < 256) (i : Nat) : bs.getD i 0 < 256 := by
  by_cases hi : i < bs.length
  · have : bs.getD i 0 = bs[i] := by simp [List.getD_eq_getElem?_getD, hi]
    rw [this]; exact hb _ (List.getElem_mem hi)
  · have : bs.getD i 0 = 0 := by
      simp [List.getD_eq_getElem?_getD, List.getElem?_eq_none (Nat.le_of_not_lt hi)]
    rw [this]; decide

theorem word_core (a b : Nat) (ha : a < 256) (hb : b < 256) :
    (a ||| (b <<< 8) % 4294967296) % 65536 = a + 256 * b := by
  rw [shl_eq]
  have e : (2 : Nat) ^ 8 = 256 := by decide
  have h1 : b * 2 ^ 8 % 4294967296 = b * 2 ^ 8 := Nat.mod_eq_of_lt (by omega)
  rw [h1, or_mul_pow 8 b a (by omega), e]
  clear h1 e
  rw [Nat.mod_eq_of_lt (by omega)]
  omega

theorem leaf_le_word (bs : Bytes) (i : Nat) (hb : ∀ x ∈ bs, x < 256) :
    Gen.hfe_le_word (fun k => bs.getD (i + k) 0) = leWord bs i ∧
    Gen.hxc_le_word (fun k => bs.getD (i + k) 0) = leWord bs i := by
  have h0 := getD_lt bs hb i
  have h1 := getD_lt bs hb (i + 1)
  unfold Gen.hfe_le_word Gen.hxc_le_word leWord
  simp only [Nat.add_zero]
  exact ⟨word_core _ _ h0 h1, word_core _ _ h0 h1⟩

theorem leaf_le_quad (bs : Bytes) (i : Nat) (hb : ∀ x ∈ bs, x < 256) :
    Gen.hxc_le_quad (fun k => bs.getD (i + k) 0) = leQuad bs i := by
  have h0 := getD_lt bs hb i
  have h1 := getD_lt bs hb (i + 1)
  have h2 := getD_lt bs hb (i + 2)
  have h3 := getD_lt bs hb (i + 3)
  unfold Gen.hxc_le_quad leQuad
  simp only [Nat.add_zero]
  generalize bs.getD i 0 = a at *
  generalize bs.getD (i + 1) 0 = b at *
  generalize bs.getD (i + 2) 0 = c at *
  generalize bs.getD (i + 3) 0 = d at *
  have e8 : (2 : Nat) ^ 8 = 256 := by decide
  have e16 : (2 : Nat) ^ 16 = 65536 := by decide
  have e24 : (2 : Nat) ^ 24 = 16777216 := by decide
  rw [shl_eq, shl_eq, shl_eq]
  have m1 : b * 2 ^ 8 % 18446744073709551616 = b * 2 ^ 8 := Nat.mod_eq_of_lt (by omega)
  have m2 : c * 2 ^ 16 % 18446744073709551616 = c * 2 ^ 16 := Nat.mod_eq_of_lt (by omega)
  have m3 : d * 2 ^ 24 % 18446744073709551616 = d * 2 ^ 24 := Nat.mod_eq_of_lt (by omega)
  rw [m1, m2, m3, or_mul_pow 8 b a (by omega),
    or_mul_pow 16 c (b * 2 ^ 8 + a) (by omega),
    or_mul_pow 24 d (c * 2 ^ 16 + (b * 2 ^ 8 + a)) (by omega)]
  clear m1 m2 m3
  rw [e8, e16, e24]
  omega

theorem leaf_raw_pos (stride first k : Nat) (hs : stride ≤ 2) (hf : first ≤ 1) (hk : k < 2 ^ 40) :
    Gen.bitstream_raw_pos stride first k = k * stride + first := by
  unfold Gen.bitstream_raw_pos
  have hk' : k < 1099511627776 := hk
  have h1 : k * stride ≤ k * 2 := Nat.mul_le_mul_left k hs
  rw [Nat.mod_eq_of_lt (a := k * stride) (by omega), Nat.mod_eq_of_lt (by omega)]

end Beeb.FluxLeafL
