/-
Container-level lemmas for C05: `copy_hfe` (block boundaries, v3 opcodes), the
HxC MFM bit order, and the HFE v1 / v3 and HxC MFM images read back as the
sector dump.  The image lemmas take the track-level round trips (proved in
Beeb/Lemmas/TrackRT.lean) as explicit hypotheses.
-/
import Beeb.Spec.FluxEnc

namespace Beeb.ContainerL
open Beeb Beeb.Flux Beeb.Spec.Flux

/-! ### definitions restated from Beeb/Props/C05.lean (identical bodies) -/

def IsSector (s : Bytes) : Prop := s.length = 256 ∧ ∀ b ∈ s, b < 256

def TrackOK (secs : List (Nat × Bytes)) : Prop :=
  ∀ p ∈ secs, p.1 < 256 ∧ IsSector p.2

def LegalFm (lay : Layout) : Prop :=
  2 ≤ lay.sync ∧ lay.gap2 + lay.sync + 1 ≤ 64 ∧ 1 ≤ lay.gap4 ∧ lay.fill < 256

def LegalMfm (lay : Layout) : Prop :=
  max lay.gap2 1 + max lay.sync 2 + 3 ≤ 80 ∧ 1 ≤ lay.gap4 ∧ lay.fill < 256

def seen (s : FSector) : Nat × Nat × Nat × Bytes := (s.cyl, s.head, s.record, s.data)

def ItemOK : V3Item → Prop
  | .cells b => b < 256 ∧ (revBits b) &&& 0xF0 ≠ 0xF0
  | .nop => True
  | .setIndex => True
  | .setBitrate v => v < 256
  | .skipBits k b => k < 8 ∧ b < 256 ∧ (revBits b) &&& 0xF0 ≠ 0xF0

abbrev SideData := List (List Bytes)

def SideOK (spt : Nat) (d : SideData) : Prop := ∀ tr ∈ d, tr.length = spt ∧ ∀ s ∈ tr, IsSector s

def RecordingOK (fm : Bool) (spt : Nat) (rc : Recording) : Prop :=
  (if fm then LegalFm rc.lay else LegalMfm rc.lay) ∧ rc.order.Perm (List.range spt)

def sideCells (fm : Bool) (head : Nat) (d : SideData) (rs : List Recording) : List (List Bool) :=
  ((d.zip rs).zipIdx).map fun (p, t) =>
    let secs := p.2.order.map fun r => (r, p.1.getD r [])
    if fm then fmTrack p.2.lay t head secs else mfmTrack p.2.lay t head secs

def dumpRead (spt : Nat) (d : SideData) (lba : Nat) : Option Sector :=
  if spt = 0 then none else (d[lba / spt]?).bind fun tr => tr[lba % spt]?

/-! ### `copy_hfe` across block boundaries -/

theorem copy_append (hfe3 : Bool) (a b : Bytes) (st : CopyState) (acc : Bytes) (noise : Bool) :
    copyHfe hfe3 (a ++ b) st acc noise =
      (match copyHfe hfe3 a st acc noise with
       | none => none
       | some (st', acc', noise') => copyHfe hfe3 b st' acc' noise') := by
  induction a generalizing st acc noise with
  | nil => simp [copyHfe]
  | cons x xs ih =>
    simp only [List.cons_append, copyHfe, ih]
    by_cases h1 : (st.thisOp != 0) = true
    · simp only [h1, ↓reduceIte]
      by_cases h2 : (st.thisOp == 0xF0 || st.thisOp == 0xF1) = true
      · simp only [h2, ↓reduceIte]
      simp only [h2, ↓reduceIte, Bool.false_eq_true]
      by_cases h3 : (st.thisOp == 0xF2) = true
      · simp only [h3, ↓reduceIte]
      simp only [h3, ↓reduceIte, Bool.false_eq_true]
      by_cases h4 : (st.thisOp == 0xF3) = true
      · simp only [h4, ↓reduceIte]
        by_cases h5 : x ≥ 8
        · simp only [h5, ↓reduceIte]
        · simp only [h5, ↓reduceIte]
      simp only [h4, ↓reduceIte, Bool.false_eq_true]
      by_cases h6 : (st.thisOp == 0xF4) = true
      · simp only [h6, ↓reduceIte]
      · simp only [h6, ↓reduceIte, Bool.false_eq_true]
    · simp only [h1, ↓reduceIte, Bool.false_eq_true]
      by_cases h2 : (hfe3 && (x &&& 0xF0) == 0xF0) = true
      · simp only [h2, ↓reduceIte]
        by_cases h3 : (x == 0xF0 || x == 0xF1) = true
        · simp only [h3, ↓reduceIte]
        · simp only [h3, ↓reduceIte, Bool.false_eq_true]
      · simp only [h2, ↓reduceIte, Bool.false_eq_true]

/-! ### HxC MFM bit order -/

theorem rev_msb8 : ∀ b0 b1 b2 b3 b4 b5 b6 b7 : Bool,
    revBits (byteMsb [b0,b1,b2,b3,b4,b5,b6,b7]) = byteLsb [b0,b1,b2,b3,b4,b5,b6,b7] := by decide

theorem rev_msb_short : ∀ b0 b1 b2 b3 b4 b5 b6 : Bool,
    revBits (byteMsb [b0]) = byteLsb [b0] ∧
    revBits (byteMsb [b0,b1]) = byteLsb [b0,b1] ∧
    revBits (byteMsb [b0,b1,b2]) = byteLsb [b0,b1,b2] ∧
    revBits (byteMsb [b0,b1,b2,b3]) = byteLsb [b0,b1,b2,b3] ∧
    revBits (byteMsb [b0,b1,b2,b3,b4]) = byteLsb [b0,b1,b2,b3,b4] ∧
    revBits (byteMsb [b0,b1,b2,b3,b4,b5]) = byteLsb [b0,b1,b2,b3,b4,b5] ∧
    revBits (byteMsb [b0,b1,b2,b3,b4,b5,b6]) = byteLsb [b0,b1,b2,b3,b4,b5,b6] := by decide

theorem packMsb_rev (cells : List Bool) : (packMsb cells).map revBits = packLsb cells := by
  induction cells using packLsb.induct with
  | case1 b0 b1 b2 b3 b4 b5 b6 b7 rest ih =>
    simp only [packMsb, packLsb, List.map_cons, ih, rev_msb8]
  | case2 => simp [packMsb, packLsb]
  | case3 l h1 h2 =>
    match l, h1, h2 with
    | [], _, h2 => exact absurd rfl h2
    | [a], _, _ => simp [packMsb, packLsb, (rev_msb_short a a a a a a a).1]
    | [a,b], _, _ => simp [packMsb, packLsb, (rev_msb_short a b a a a a a).2.1]
    | [a,b,c], _, _ => simp [packMsb, packLsb, (rev_msb_short a b c a a a a).2.2.1]
    | [a,b,c,d], _, _ => simp [packMsb, packLsb, (rev_msb_short a b c d a a a).2.2.2.1]
    | [a,b,c,d,e], _, _ => simp [packMsb, packLsb, (rev_msb_short a b c d e a a).2.2.2.2.1]
    | [a,b,c,d,e,f], _, _ => simp [packMsb, packLsb, (rev_msb_short a b c d e f a).2.2.2.2.2.1]
    | [a,b,c,d,e,f,g], _, _ => simp [packMsb, packLsb, (rev_msb_short a b c d e f g).2.2.2.2.2.2]
    | a::b::c::d::e::f::g::h::r, h1, _ => exact absurd rfl (h1 a b c d e f g h r)

theorem hxc_bits (cells : List Bool) :
    hxcBitStream (packMsb cells) = hfeBitStream false (packLsb cells) := by
  simp [hxcBitStream, hfeBitStream, packMsb_rev]

/-! ### the bit loop of `copy_hfe`; v3 opcodes -/

def cellsLsb (b : Nat) : List Bool := (List.range 8).map (fun i => (b >>> i) % 2 == 1)

/-- the cells `emitBits inb n` walks -/
def cellsMsb (inb : Nat) : Nat → List Bool
  | 0 => []
  | n + 1 => (inb &&& (1 <<< (7 - (7 - n))) != 0) :: cellsMsb inb n

/-- list model of the bit loop: pending cells, incoming cells, output so far (reversed) -/
def feed : List Bool → List Bool → Bytes → List Bool × Bytes
  | p, [], acc => (p, acc)
  | p, c :: cs, acc =>
    if p.length + 1 = 8 then feed [] cs (byteLsb (p ++ [c]) :: acc) else feed (p ++ [c]) cs acc

def Inv (st : CopyState) (p : List Bool) : Prop :=
  st.gotBits = p.length ∧ p.length < 8 ∧ st.out = byteLsb p * 2 ^ (8 - p.length) ∧ st.skip = 0 ∧ st.thisOp = 0

theorem byteLsb_append (p : List Bool) (c : Bool) :
    byteLsb (p ++ [c]) = byteLsb p + (if c then 1 else 0) * 2 ^ p.length := by
  induction p with
  | nil => simp [byteLsb]
  | cons a p ih => simp only [List.cons_append, byteLsb, ih, List.length_cons, Nat.pow_succ]; cases c <;> simp <;> omega

theorem byteLsb_lt (p : List Bool) : byteLsb p < 2 ^ p.length := by
  induction p with
  | nil => simp [byteLsb]
  | cons a p ih => simp only [byteLsb, List.length_cons, Nat.pow_succ]; cases a <;> simp <;> omega

theorem or128 : ∀ y, y < 128 → y ||| 128 = y + 128 := by decide

theorem or_bit (x g : Nat) (c : Bool) (hg : g < 8) (hx : x < 2 ^ g) :
    ((x * 2 ^ (8 - g)) >>> 1) ||| (if c = true then 0x80 else 0) = (x + (if c then 1 else 0) * 2 ^ g) * 2 ^ (7 - g) := by
  have h8 : ∀ y, y < 128 → (y ||| (if c = true then 0x80 else 0)) = y + (if c then 128 else 0) := by
    intro y hy; cases c
    · simp
    · simp [or128 y hy]
  match g, hg, hx with
  | 0, _, hx | 1, _, hx | 2, _, hx | 3, _, hx | 4, _, hx | 5, _, hx | 6, _, hx | 7, _, hx =>
    simp only [Nat.shiftRight_eq_div_pow, Nat.reducePow, Nat.reduceSub] at hx ⊢
    rw [h8 _ (by omega)]
    cases c <;> simp <;> omega


theorem Inv_init : Inv {} [] := by simp [Inv, byteLsb]

theorem emit_feed (inb : Nat) (n : Nat) (st : CopyState) (acc : Bytes) (p : List Bool) (h : Inv st p) :
    ∃ st', emitBits inb n st acc = (st', (feed p (cellsMsb inb n) acc).2) ∧
           Inv st' (feed p (cellsMsb inb n) acc).1 := by
  induction n generalizing st acc p with
  | zero => exact ⟨st, by simp [emitBits, cellsMsb, feed], by simpa [cellsMsb, feed] using h⟩
  | succ k ih =>
    obtain ⟨hg, hl, ho, hs, ht⟩ := h
    have hskip : ¬ st.skip > 0 := by omega
    have hout := or_bit (byteLsb p) p.length (inb &&& (1 <<< (7 - (7 - k))) != 0) hl (byteLsb_lt p)
    rw [← ho] at hout
    simp only [emitBits, hskip, ↓reduceIte, cellsMsb, feed, hg]
    by_cases hw : p.length + 1 = 8
    · have hw' : (p.length + 1 == 8) = true := by simp [hw]
      simp only [hw, ↓reduceIte]
      have hval : (st.out >>> 1 ||| if (inb &&& (1 <<< (7 - (7 - k))) != 0) = true then 128 else 0) =
          byteLsb (p ++ [inb &&& (1 <<< (7 - (7 - k))) != 0]) := by
        rw [hout, byteLsb_append]
        have : 7 - p.length = 0 := by omega
        simp [this]
      rw [hval]
      exact ih _ _ [] ⟨rfl, by simp, by simp [byteLsb], hs, ht⟩
    · have hw' : (p.length + 1 == 8) = false := by simp; omega
      simp only [hw', hw, ↓reduceIte, Bool.false_eq_true]
      refine ih _ _ _ ⟨by simp, by simp; omega, ?_, hs, ht⟩
      show (st.out >>> 1 ||| if (inb &&& (1 <<< (7 - (7 - k))) != 0) = true then 128 else 0) = _
      rw [hout, byteLsb_append]
      simp only [List.length_append, List.length_cons, List.length_nil]
      congr 2; omega


theorem feed_append (p a b : List Bool) (acc : Bytes) :
    feed p (a ++ b) acc = feed (feed p a acc).1 b (feed p a acc).2 := by
  induction a generalizing p acc with
  | nil => simp [feed]
  | cons c cs ih =>
    simp only [List.cons_append, feed]
    split <;> exact ih _ _

theorem packLsb_append8 (l r : List Bool) (h : l.length = 8) : packLsb (l ++ r) = byteLsb l :: packLsb r := by
  match l, h with
  | [a,b,c,d,e,f,g,i], _ => simp [packLsb]

theorem feed_spec (p cs : List Bool) (acc : Bytes) (hp : p.length < 8) :
    feed p cs acc = ((p ++ cs).drop (8 * ((p ++ cs).length / 8)),
                     (packLsb ((p ++ cs).take (8 * ((p ++ cs).length / 8)))).reverse ++ acc) := by
  induction cs generalizing p acc with
  | nil =>
    have : p.length / 8 = 0 := by omega
    simp [feed, this, packLsb]
  | cons c cs ih =>
    simp only [feed]
    split
    · rename_i hw
      rw [ih [] _ (by simp)]
      have e : p ++ c :: cs = (p ++ [c]) ++ cs := by simp
      have hl : (p ++ [c]).length = 8 := by simp [hw]
      have hd : ((p ++ [c]) ++ cs).length / 8 = cs.length / 8 + 1 := by
        rw [List.length_append, hl]; omega
      rw [e, hd, Nat.mul_add, Nat.mul_one]
      have h1 : List.drop (8 * (cs.length / 8) + 8) ((p ++ [c]) ++ cs) = List.drop (8 * (cs.length / 8)) cs := by
        rw [List.drop_append, ← hl]; simp [hl]
      have h2 : List.take (8 * (cs.length / 8) + 8) ((p ++ [c]) ++ cs) = (p ++ [c]) ++ List.take (8 * (cs.length / 8)) cs := by
        rw [List.take_append, hl, List.take_of_length_le (by omega)]; simp
      rw [h1, h2, packLsb_append8 _ _ hl]
      simp
    · rename_i hw
      rw [ih _ _ (by simp; omega)]
      simp


theorem revBits_revBits : ∀ b, b < 256 → revBits (revBits b) = b := by decide +kernel

theorem cellsMsb_rev : ∀ b, b < 256 → cellsMsb (revBits b) 8 = cellsLsb b := by decide +kernel

theorem cellsMsb_drop (inb : Nat) (n k : Nat) : cellsMsb inb (n - k) = (cellsMsb inb n).drop k := by
  induction n generalizing k with
  | zero => simp [cellsMsb]
  | succ n ih =>
    cases k with
    | zero => simp
    | succ k => simp only [cellsMsb, List.drop_succ_cons, ← ih]; congr 1; omega

theorem emit_skip (inb : Nat) (n : Nat) (st : CopyState) (acc : Bytes) (h : st.skip ≤ n) :
    emitBits inb n st acc = emitBits inb (n - st.skip) { st with skip := 0 } acc := by
  induction n generalizing st with
  | zero => have : st.skip = 0 := by omega
            cases st; simp_all
  | succ n ih =>
    by_cases hs : st.skip > 0
    · rw [emitBits]
      simp only [hs, ↓reduceIte]
      rw [ih _ (by simp; omega)]
      simp only
      congr 1; omega
    · have : st.skip = 0 := by omega
      cases st; simp_all

theorem emit_feed_skip (b k : Nat) (hb : b < 256) (hk : k < 8) (st : CopyState) (acc : Bytes) (p : List Bool)
    (h : Inv { st with skip := 0 } p) (hs : st.skip = k) :
    ∃ st', emitBits (revBits b) 8 st acc = (st', (feed p ((cellsLsb b).drop k) acc).2) ∧
           Inv st' (feed p ((cellsLsb b).drop k) acc).1 := by
  rw [emit_skip _ _ _ _ (by omega), hs, ← cellsMsb_rev b hb, ← cellsMsb_drop]
  exact emit_feed _ _ _ _ _ h

theorem v3_gen (items : List V3Item) (h : ∀ it ∈ items, ItemOK it) (st : CopyState) (acc : Bytes)
    (noise : Bool) (p : List Bool) (hI : Inv st p) :
    ∃ st', copyHfe true ((v3Bytes items).map revBits) st acc noise =
             some (st', (feed p (v3Cells items) acc).2, noise) ∧
           Inv st' (feed p (v3Cells items) acc).1 := by
  induction items generalizing st acc p with
  | nil => exact ⟨st, by simp [v3Bytes, copyHfe, v3Cells, feed], by simpa [v3Cells, feed] using hI⟩
  | cons it r ih =>
    have hr : ∀ it ∈ r, ItemOK it := fun it hit => h it (List.mem_cons_of_mem _ hit)
    have hit := h it List.mem_cons_self
    have ht : (st.thisOp != 0) = false := by simp [hI.2.2.2.2]
    cases it with
    | cells b =>
      obtain ⟨hb, hop⟩ := hit
      have hop' : ((revBits b &&& 0xF0) == 0xF0) = false := by simpa using hop
      obtain ⟨st1, e1, i1⟩ := emit_feed (revBits b) 8 st acc p hI
      obtain ⟨st2, e2, i2⟩ := ih hr st1 (feed p (cellsMsb (revBits b) 8) acc).2 _ i1
      refine ⟨st2, ?_, ?_⟩
      · simp only [v3Bytes, List.map_cons, copyHfe, ht, hop', Bool.false_eq_true, ↓reduceIte, Bool.and_false, e1, e2]
        simp only [v3Cells, feed_append, cellsMsb_rev b hb, cellsLsb]
      · simpa only [v3Cells, feed_append, cellsMsb_rev b hb, cellsLsb] using i2
    | nop =>
      obtain ⟨st2, e2, i2⟩ := ih hr st acc p hI
      refine ⟨st2, ?_, by simpa only [v3Cells] using i2⟩
      have : revBits (revBits 0xF0) = 0xF0 := by decide
      simp only [v3Bytes, List.map_cons, copyHfe, ht, this, Bool.false_eq_true, ↓reduceIte, e2, v3Cells]
      simp
    | setIndex =>
      obtain ⟨st2, e2, i2⟩ := ih hr st acc p hI
      refine ⟨st2, ?_, by simpa only [v3Cells] using i2⟩
      have : revBits (revBits 0xF1) = 0xF1 := by decide
      simp only [v3Bytes, List.map_cons, copyHfe, ht, this, Bool.false_eq_true, ↓reduceIte, e2, v3Cells]
      simp
    | setBitrate v =>
      have hI' : Inv { gotBits := st.gotBits, out := st.out, thisOp := 0, skip := st.skip } p := by
        obtain ⟨a1, a2, a3, a4, a5⟩ := hI
        exact ⟨a1, a2, a3, a4, rfl⟩
      obtain ⟨st2, e2, i2⟩ := ih hr _ acc p hI'
      refine ⟨st2, ?_, by simpa only [v3Cells] using i2⟩
      have : revBits (revBits 0xF2) = 0xF2 := by decide
      simp only [v3Bytes, List.map_cons, copyHfe, ht, this, Bool.false_eq_true, ↓reduceIte, v3Cells]
      simp [e2]
    | skipBits k b =>
      obtain ⟨hk, hb, hop⟩ := hit
      have hop' : ((revBits b &&& 0xF0) == 0xF0) = false := by simpa using hop
      have hI' : Inv { ({ gotBits := st.gotBits, out := st.out, thisOp := 0, skip := k } : CopyState) with skip := 0 } p := by
        obtain ⟨a1, a2, a3, a4, a5⟩ := hI
        exact ⟨a1, a2, a3, rfl, rfl⟩
      obtain ⟨st1, e1, i1⟩ := emit_feed_skip b k hb hk _ acc p hI' rfl
      obtain ⟨st2, e2, i2⟩ := ih hr st1 (feed p (List.drop k (cellsLsb b)) acc).2 _ i1
      refine ⟨st2, ?_, ?_⟩
      · have : revBits (revBits 0xF3) = 0xF3 := by decide
        have hk8 : ¬ k ≥ 8 := by omega
        simp only [v3Bytes, List.map_cons, copyHfe, ht, this, revBits_revBits k (by omega), Bool.false_eq_true, ↓reduceIte, v3Cells]
        simp only [cellsLsb] at e1 e2
        simp [hk8, hop', e1, e2, feed_append]
      · simpa only [v3Cells, feed_append, cellsLsb] using i2


theorem v3_transparent (items : List V3Item) (h : ∀ it ∈ items, ItemOK it) :
    ∃ st, copyHfe true ((v3Bytes items).map revBits) {} [] false =
            some (st, (packLsb ((v3Cells items).take (8 * ((v3Cells items).length / 8)))).reverse, false) ∧
          st.gotBits = (v3Cells items).length % 8 ∧ st.thisOp = 0 ∧ st.skip = 0 := by
  obtain ⟨st, e, i⟩ := v3_gen items h {} [] false [] Inv_init
  rw [feed_spec _ _ _ (by simp)] at e i
  refine ⟨st, by simpa using e, ?_, i.2.2.2.2, i.2.2.2.1⟩
  rw [i.1]
  simp only [List.nil_append, List.length_drop]
  omega

/-! ### sorting -/

theorem insertBy_map {α β} (f : α → β) (less : α → α → Bool) (less' : β → β → Bool)
    (h : ∀ a b, less' (f a) (f b) = less a b) (x : α) (l : List α) :
    (insertBy less x l).map f = insertBy less' (f x) (l.map f) := by
  induction l with
  | nil => simp [insertBy]
  | cons y ys ih =>
    simp only [insertBy, List.map_cons, h]
    split <;> simp [ih]

theorem sortBy_map {α β} (f : α → β) (less : α → α → Bool) (less' : β → β → Bool)
    (h : ∀ a b, less' (f a) (f b) = less a b) (l : List α) :
    (sortBy less l).map f = sortBy less' (l.map f) := by
  induction l with
  | nil => simp [sortBy]
  | cons x xs ih =>
    simp only [sortBy, List.foldr_cons, List.map_cons] at ih ⊢
    rw [insertBy_map f less less' h, ih]

theorem insertBy_perm {α} (less : α → α → Bool) (x : α) (l : List α) :
    (insertBy less x l).Perm (x :: l) := by
  induction l with
  | nil => simp [insertBy]
  | cons y ys ih =>
    unfold insertBy
    split
    · exact List.Perm.refl _
    · exact (List.Perm.cons y ih).trans (List.Perm.swap x y ys)

theorem sortBy_perm {α} (less : α → α → Bool) (l : List α) : (sortBy less l).Perm l := by
  induction l with
  | nil => simp [sortBy]
  | cons x xs ih =>
    show (insertBy less x (sortBy less xs)).Perm (x :: xs)
    exact (insertBy_perm less x _).trans (List.Perm.cons x ih)

def natLt (a b : Nat) : Bool := decide (a < b)

theorem insertBy_natLt_sorted (x : Nat) (l : List Nat) (h : l.Pairwise (· ≤ ·)) :
    (insertBy natLt x l).Pairwise (· ≤ ·) := by
  induction l with
  | nil => simp [insertBy]
  | cons y ys ih =>
    unfold insertBy
    rw [List.pairwise_cons] at h
    split
    · rename_i hxy
      have hxy : x < y := by simpa [natLt] using hxy
      refine List.pairwise_cons.mpr ⟨?_, List.pairwise_cons.mpr h⟩
      intro z hz
      rcases List.mem_cons.mp hz with rfl | hz
      · omega
      · have := h.1 z hz; omega
    · rename_i hxy
      have hxy : y ≤ x := by simpa [natLt] using hxy
      refine List.pairwise_cons.mpr ⟨?_, ih h.2⟩
      intro z hz
      rcases List.mem_cons.mp ((insertBy_perm natLt x ys).mem_iff.mp hz) with rfl | hz
      · exact hxy
      · exact h.1 z hz

theorem sortBy_natLt_sorted (l : List Nat) : (sortBy natLt l).Pairwise (· ≤ ·) := by
  induction l with
  | nil => simp [sortBy]
  | cons x xs ih => exact insertBy_natLt_sorted x _ ih

theorem sortBy_natLt_perm_range (order : List Nat) (n : Nat) (h : order.Perm (List.range n)) :
    sortBy natLt order = List.range n := by
  refine List.Perm.eq_of_pairwise (le := (· ≤ ·)) (fun a b _ _ h1 h2 => Nat.le_antisymm h1 h2)
    (sortBy_natLt_sorted order) ?_ ((sortBy_perm natLt order).trans h)
  exact List.pairwise_lt_range.imp (fun h => Nat.le_of_lt h)

theorem sortBy_of_sorted {α} (less : α → α → Bool) (l : List α) (h : l.Pairwise (fun a b => less a b = true)) :
    sortBy less l = l := by
  induction l with
  | nil => simp [sortBy]
  | cons x xs ih =>
    rw [List.pairwise_cons] at h
    show insertBy less x (sortBy less xs) = x :: xs
    rw [ih h.2]
    cases xs with
    | nil => simp [insertBy]
    | cons y ys => simp [insertBy, h.1 y List.mem_cons_self]

/-- `addrLess` on what is seen of a sector -/
def addrLess' (a b : Nat × Nat × Nat × Bytes) : Bool :=
  a.1 < b.1 || (a.1 == b.1 && (a.2.1 < b.2.1 || (a.2.1 == b.2.1 && a.2.2.1 < b.2.2.1)))

theorem sort_track (T : List FSector) (order : List Nat) (n t k : Nat) (D : Nat → Bytes)
    (hT : T.map seen = order.map (fun r => (t, k, r, D r))) (hp : order.Perm (List.range n)) :
    (sortSectors T).map seen = (List.range n).map (fun r => (t, k, r, D r)) := by
  unfold sortSectors
  rw [sortBy_map seen addrLess addrLess' (fun a b => rfl), hT,
      ← sortBy_map (fun r => (t, k, r, D r)) natLt addrLess' (by intro a b; simp [addrLess', natLt]),
      sortBy_natLt_perm_range order n hp]


/-! ### `check_track_is_supported` and sector lookup on what is seen -/

theorem checkTrack_go (S : List FSector) (a n t k : Nat) (D : Nat → Bytes) (prev : Option Nat)
    (hS : S.map seen = (List.range' a n).map (fun r => (t, k, r, D r)))
    (hD : ∀ r, a ≤ r → r < a + n → (D r).length = 256)
    (hprev : ∀ p, prev = some p → p + 1 = a) :
    checkTrack.go t k S prev = true := by
  induction S generalizing a n prev with
  | nil => simp [checkTrack.go]
  | cons x rest ih =>
    cases n with
    | zero => simp at hS
    | succ n =>
      simp only [List.range'_succ, List.map_cons, List.cons.injEq] at hS
      obtain ⟨hx, hrest⟩ := hS
      simp only [seen, Prod.mk.injEq] at hx
      obtain ⟨h1, h2, h3, h4⟩ := hx
      have hlen : x.data.length = 256 := by rw [h4]; exact hD a (Nat.le_refl _) (by omega)
      have hrec := ih (a + 1) n (some x.record) hrest (fun r h1 h2 => hD r (by omega) (by omega))
        (by intro p hp; simp at hp; omega)
      cases prev with
      | none => simpa [checkTrack.go, h1, h2, hlen] using hrec
      | some p =>
        have := hprev p rfl
        have e1 : (p == x.record) = false := by simp; omega
        have e2 : decide (p + 1 < x.record) = false := by simp; omega
        simpa [checkTrack.go, h1, h2, hlen, e1, e2] using hrec

theorem checkTrack_ok (S : List FSector) (n t k : Nat) (D : Nat → Bytes)
    (hS : S.map seen = (List.range n).map (fun r => (t, k, r, D r)))
    (hD : ∀ r, r < n → (D r).length = 256) :
    checkTrack S t k = true := by
  unfold checkTrack
  exact checkTrack_go S 0 n t k D none (by rw [← List.range_eq_range']; exact hS)
    (fun r _ h => hD r (by omega)) (by simp)

theorem findSector_seen (secs : List FSector) (c h r : Nat) :
    findSector secs c h r =
      ((secs.map seen).find? (fun x => x.1 == c && x.2.1 == h && x.2.2.1 == r)).map (·.2.2.2) := by
  simp only [findSector, List.find?_map, Option.map_map]
  rfl

theorem find?_unique {α} (p : α → Bool) (l : List α) (x : α) (hx : x ∈ l) (hp : p x = true)
    (hu : ∀ y ∈ l, p y = true → y = x) : l.find? p = some x := by
  induction l with
  | nil => simp at hx
  | cons y ys ih =>
    rw [List.find?_cons]
    by_cases hy : p y = true
    · have := hu y List.mem_cons_self hy
      subst this
      simp [hp]
    · simp only [hy]
      rcases List.mem_cons.mp hx with rfl | hx
      · exact absurd hp hy
      · exact ih hx (fun z hz => hu z (List.mem_cons_of_mem _ hz))

/-- what a whole side looks like: tracks in order, records in order -/
def sideSeen (k : Nat) (ntr spt : Nat) (D : Nat → Nat → Bytes) : List (Nat × Nat × Nat × Bytes) :=
  (List.range ntr).flatMap fun t => (List.range spt).map fun r => (t, k, r, D t r)

theorem findSector_side (A : List FSector) (k ntr spt : Nat) (D : Nat → Nat → Bytes)
    (hA : A.map seen = sideSeen k ntr spt D) (c r : Nat) (hr : r < spt) :
    findSector A c k r = if c < ntr then some (D c r) else none := by
  rw [findSector_seen, hA]
  split
  · rename_i hc
    rw [find?_unique _ _ (c, k, r, D c r)]
    · rfl
    · simp only [sideSeen, List.mem_flatMap, List.mem_map, List.mem_range]
      exact ⟨c, hc, r, hr, rfl⟩
    · simp
    · simp only [sideSeen, List.mem_flatMap, List.mem_map, List.mem_range]
      rintro y ⟨t, _, r', _, rfl⟩ hy
      simp at hy
      obtain ⟨rfl, rfl⟩ := hy
      rfl
  · rename_i hc
    rw [List.find?_eq_none.mpr]
    · rfl
    · simp only [sideSeen, List.mem_flatMap, List.mem_map, List.mem_range]
      rintro y ⟨t, ht, r', _, rfl⟩
      simp; omega

theorem sideSeen_length (k ntr spt : Nat) (D : Nat → Nat → Bytes) : (sideSeen k ntr spt D).length = ntr * spt := by
  induction ntr with
  | zero => simp [sideSeen]
  | succ n ih =>
    simp only [sideSeen] at ih ⊢
    rw [List.range_succ, List.flatMap_append, List.length_append, ih]
    simp [Nat.succ_mul]


/-! ### one track, given the track-level round trips -/

/-- the statement of `TrackRT.fm_track_roundtrip` -/
abbrev FmRT : Prop :=
  ∀ (lay : Layout) (cyl head : Nat) (secs : List (Nat × Bytes)) (padding : Nat),
    LegalFm lay → cyl < 256 → head < 256 → TrackOK secs →
    let stored := packLsb (hfeSideBits true (fmTrack lay cyl head secs)) ++ List.replicate padding 0
    (decodeFm (hfeBitStream true stored)).1.map seen = secs.map (fun p => (cyl, head, p.1, p.2)) ∧
    (decodeFm (hfeBitStream true stored)).2 = false

/-- the statement of `TrackRT.mfm_track_roundtrip` -/
abbrev MfmRT : Prop :=
  ∀ (lay : Layout) (cyl head : Nat) (secs : List (Nat × Bytes)) (padding : Nat),
    LegalMfm lay → cyl < 256 → head < 256 → TrackOK secs →
    let stored := packLsb (mfmTrack lay cyl head secs) ++ List.replicate padding 0
    (decodeMfm (hfeBitStream false stored)).map seen = secs.map (fun p => (cyl, head, p.1, p.2))

/-- the cells of one track as `sideCells` records them -/
def trackCells (fm : Bool) (t k : Nat) (tr : List Bytes) (rc : Recording) : List Bool :=
  let secs := rc.order.map fun r => (r, tr.getD r [])
  if fm then fmTrack rc.lay t k secs else mfmTrack rc.lay t k secs

theorem track_secs_ok (spt : Nat) (tr : List Bytes) (order : List Nat) (hspt : spt ≤ 256)
    (htr : tr.length = spt ∧ ∀ s ∈ tr, IsSector s) (hp : order.Perm (List.range spt)) :
    TrackOK (order.map fun r => (r, tr.getD r [])) := by
  intro p hp'
  obtain ⟨r, hr, rfl⟩ := List.mem_map.mp hp'
  have hr' : r < spt := List.mem_range.mp (hp.mem_iff.mp hr)
  refine ⟨by simp; omega, ?_⟩
  apply htr.2
  have : r < tr.length := by omega
  simp [List.getD_eq_getElem?_getD, this]

theorem track_decode (fm : Bool) (hfmRT : FmRT) (hmfmRT : MfmRT) (spt t k : Nat) (tr : List Bytes)
    (rc : Recording) (padding : Nat) (ht : t < 256) (hk : k < 256) (hspt : spt ≤ 256)
    (htr : tr.length = spt ∧ ∀ s ∈ tr, IsSector s) (hrc : RecordingOK fm spt rc) :
    ∃ T, decodeTrack fm (hfeBitStream fm
            (packLsb (hfeSideBits fm (trackCells fm t k tr rc)) ++ List.replicate padding 0)) = (T, false) ∧
         (sortSectors T).map seen = (List.range spt).map (fun r => (t, k, r, tr.getD r [])) := by
  have hok := track_secs_ok spt tr rc.order hspt htr hrc.2
  cases fm with
  | true =>
    have h := hfmRT rc.lay t k _ padding (by simpa using hrc.1) ht hk hok
    simp only at h
    refine ⟨(decodeFm (hfeBitStream true (packLsb (hfeSideBits true (trackCells true t k tr rc)) ++
      List.replicate padding 0))).1, ?_, sort_track _ rc.order spt t k (fun r => tr.getD r []) ?_ hrc.2⟩
    · simp only [decodeTrack, trackCells, ↓reduceIte]
      exact Prod.ext rfl h.2
    · simp only [trackCells, ↓reduceIte]
      rw [h.1, List.map_map]; rfl
  | false =>
    have h := hmfmRT rc.lay t k _ padding (by simpa using hrc.1) ht hk hok
    simp only at h
    refine ⟨decodeMfm (hfeBitStream false (packLsb (hfeSideBits false (trackCells false t k tr rc)) ++
      List.replicate padding 0)), ?_, sort_track _ rc.order spt t k (fun r => tr.getD r []) ?_ hrc.2⟩
    · simp only [decodeTrack, Bool.false_eq_true, ↓reduceIte]
    · simp only [trackCells, hfeSideBits, Bool.false_eq_true, ↓reduceIte]
      rw [h, List.map_map]; rfl

theorem track_ok (S : List FSector) (spt t k : Nat) (tr : List Bytes)
    (htr : tr.length = spt ∧ ∀ s ∈ tr, IsSector s)
    (hS : S.map seen = (List.range spt).map (fun r => (t, k, r, tr.getD r []))) :
    checkTrack S t k = true ∧ S.length = spt := by
  refine ⟨checkTrack_ok S spt t k (fun r => tr.getD r []) hS ?_, ?_⟩
  · intro r hr
    have : r < tr.length := by omega
    have hm : tr.getD r [] ∈ tr := by simp [List.getD_eq_getElem?_getD, this]
    exact (htr.2 _ hm).1
  · have := congrArg List.length hS
    simpa using this


/-! ### the track loop and the block device of a side -/

theorem hfeTracks_ok (f : FileData) (h : HfeHeader) (lut : Bytes) (side L : Nat) (S : Nat → List FSector)
    (n track : Nat) (sptOpt : Option Nat) (acc : List FSector) (noise : Bool)
    (hS : ∀ t, track ≤ t → t < track + n →
      hfeTrack f h lut side t = some (S t, false) ∧ (S t).length = L ∧ checkTrack (S t) t side = true)
    (hspt : sptOpt = none ∨ sptOpt = some L) :
    hfeTracks f h lut side n track sptOpt acc noise =
      some (acc ++ ((List.range' track n).map S).flatten, if n = 0 then sptOpt.getD 0 else L, noise) := by
  induction n generalizing track sptOpt acc noise with
  | zero => simp [hfeTracks]
  | succ n ih =>
    obtain ⟨h1, h2, h3⟩ := hS track (Nat.le_refl _) (by omega)
    have hrec := fun sp hsp => ih (track + 1) sp (acc ++ S track) (noise || false)
      (fun t ht1 ht2 => hS t (by omega) (by omega)) hsp
    rcases hspt with rfl | rfl
    · simp only [hfeTracks, h1, h3, Bool.not_true, Bool.false_eq_true, ↓reduceIte, Option.getD_none, h2]
      rw [hrec (some L) (Or.inr rfl)]
      simp [List.range'_succ]
    · simp only [hfeTracks, h1, h3, h2, beq_self_eq_true, Bool.not_true, Bool.false_eq_true, ↓reduceIte, Option.getD_some]
      rw [hrec (some L) (Or.inr rfl)]
      simp [List.range'_succ]

theorem map_seen_side (S : Nat → List FSector) (k ntr spt : Nat) (D : Nat → Nat → Bytes)
    (hS : ∀ t, t < ntr → (S t).map seen = (List.range spt).map (fun r => (t, k, r, D t r))) :
    (((List.range ntr).map S).flatten).map seen = sideSeen k ntr spt D := by
  rw [List.map_flatten, List.map_map, sideSeen, List.flatMap_def]
  congr 1
  apply List.map_congr_left
  intro t ht
  exact hS t (List.mem_range.mp ht)

theorem dumpRead_eq (spt : Nat) (d : SideData) (ntr : Nat) (hspt : 0 < spt) (hd : d.length = ntr ∧ SideOK spt d)
    (lba : Nat) :
    dumpRead spt d lba =
      if lba / spt < ntr then some ((d.getD (lba / spt) []).getD (lba % spt) []) else none := by
  have hne : spt ≠ 0 := by omega
  simp only [dumpRead, hne, ↓reduceIte]
  split
  · rename_i hc
    have hc' : lba / spt < d.length := by omega
    have hmem : d[lba / spt] ∈ d := List.getElem_mem _
    have hl : (d[lba / spt]).length = spt := (hd.2 _ hmem).1
    have hr : lba % spt < (d[lba / spt]).length := by rw [hl]; exact Nat.mod_lt _ hspt
    simp [List.getD_eq_getElem?_getD, hc', hr]
  · rename_i hc
    have hc' : d.length ≤ lba / spt := by omega
    simp [hc']

theorem hfeReadBlock_eq (s : FluxSide) (k ntr spt : Nat) (d : SideData)
    (hk : k < 256) (hn : ntr ≤ 256) (hspt : 0 < spt) (hd : d.length = ntr ∧ SideOK spt d)
    (hgeom : s.geom.sectors = spt) (hside : s.side = k)
    (hA : s.sectors.map seen = sideSeen k ntr spt (fun t r => (d.getD t []).getD r [])) (lba : Nat) :
    hfeReadBlock s lba = dumpRead spt d lba := by
  have hlen : s.sectors.length = ntr * spt := by
    have := congrArg List.length hA
    simpa [sideSeen_length] using this
  rw [dumpRead_eq spt d ntr hspt hd, hfeReadBlock, hlen, hgeom, hside]
  have hdiv : lba / spt < ntr ↔ lba < ntr * spt := Nat.div_lt_iff_lt_mul hspt
  split
  · rename_i hge
    have : ¬ lba / spt < ntr := by rw [hdiv]; omega
    simp [this]
  · rename_i hge
    have hc : lba / spt < ntr := by rw [hdiv]; omega
    rw [Nat.mod_eq_of_lt (by omega : lba / spt < 256), Nat.mod_eq_of_lt hk,
      findSector_side _ k ntr spt _ hA _ _ (Nat.mod_lt _ hspt)]

/-! ### files as lists -/

theorem fread_toArray (l : Bytes) (off len : Nat) : fread l.toArray off len = (l.drop off).take len := by
  simp [fread, List.extract_eq_take_drop]

theorem drop_take_mid {α} (A B C : List α) (n m : Nat) (hn : n = A.length) (hm : m = B.length) :
    ((A ++ B ++ C).drop n).take m = B := by
  subst hn hm
  simp

/-! ### `sideBlocks`: de-interleaving the 256-byte blocks -/

theorem sideBlocks_eq (hfe3 : Bool) (k : Nat) (hk : k < 2) (rest : List (Bytes × Bytes)) (pre : Bytes)
    (fuel : Nat) (st : CopyState) (acc : Bytes) (noise : Bool)
    (hlen : ∀ p ∈ rest, p.1.length = 256 ∧ p.2.length = 256) (hfuel : rest.length < fuel) :
    sideBlocks hfe3 (pre ++ rest.flatMap (fun p => p.1 ++ p.2)).toArray fuel (pre.length + 256 * k) st acc noise =
      copyHfe hfe3 (rest.flatMap (fun p => if k = 0 then p.1 else p.2)) st acc noise := by
  induction rest generalizing pre fuel st acc noise with
  | nil =>
    cases fuel with
    | zero => simp at hfuel
    | succ fuel => simp [sideBlocks, copyHfe]
  | cons p rest ih =>
    cases fuel with
    | zero => simp at hfuel
    | succ fuel =>
      obtain ⟨h1, h2⟩ := hlen p List.mem_cons_self
      have hsz : ¬ (pre.length + 256 * k ≥ (pre ++ List.flatMap (fun p => p.1 ++ p.2) (p :: rest)).toArray.size) := by
        simp [h1, h2]; omega
      have hblk : ((pre ++ List.flatMap (fun p => p.1 ++ p.2) (p :: rest)).toArray.extract (pre.length + 256 * k)
          (min (pre.length + 256 * k + 256) (pre ++ List.flatMap (fun p => p.1 ++ p.2) (p :: rest)).toArray.size)).toList
          = if k = 0 then p.1 else p.2 := by
        have hmin : min (pre.length + 256 * k + 256) (pre ++ List.flatMap (fun p => p.1 ++ p.2) (p :: rest)).toArray.size
            = pre.length + 256 * k + 256 := by
          simp [h1, h2]; omega
        rw [hmin]
        simp only [List.extract_toArray, List.extract_eq_take_drop, List.flatMap_cons]
        have hk' : k = 0 ∨ k = 1 := by omega
        rcases hk' with rfl | rfl
        · simp only [Nat.mul_zero, Nat.add_zero, ↓reduceIte]
          have : pre ++ (p.1 ++ p.2 ++ List.flatMap (fun p => p.1 ++ p.2) rest) =
              pre ++ p.1 ++ (p.2 ++ List.flatMap (fun p => p.1 ++ p.2) rest) := by simp
          rw [this]
          exact drop_take_mid _ _ _ _ _ rfl (by omega)
        · simp only [Nat.mul_one, Nat.one_ne_zero, ↓reduceIte]
          have : pre ++ (p.1 ++ p.2 ++ List.flatMap (fun p => p.1 ++ p.2) rest) =
              (pre ++ p.1) ++ p.2 ++ List.flatMap (fun p => p.1 ++ p.2) rest := by simp
          rw [this]
          exact drop_take_mid _ _ _ _ _ (by simp [h1]) (by omega)
      rw [sideBlocks]
      simp only [hsz, ↓reduceIte, hblk]
      simp only [List.flatMap_cons, copy_append]
      cases hc : copyHfe hfe3 (if k = 0 then p.1 else p.2) st acc noise with
      | none => rfl
      | some r =>
        obtain ⟨st', acc', noise'⟩ := r
        simp only
        have := ih (pre ++ p.1 ++ p.2) fuel st' acc' noise' (fun q hq => hlen q (List.mem_cons_of_mem _ hq))
          (by simp at hfuel; omega)
        have e1 : pre ++ (p.1 ++ p.2 ++ List.flatMap (fun p => p.1 ++ p.2) rest) =
            pre ++ p.1 ++ p.2 ++ List.flatMap (fun p => p.1 ++ p.2) rest := by simp
        have e2 : pre.length + 256 * k + 512 = (pre ++ p.1 ++ p.2).length + 256 * k := by
          simp [h1, h2]; omega
        rw [e1, e2, this]


/-- one 256-byte block of a side stream -/
def blk (s : Bytes) (b : Nat) : Bytes := pad 256 ((s.drop (256 * b)).take 256)

theorem blk_length (s : Bytes) (b : Nat) : (blk s b).length = 256 := by
  simp [blk, pad]; omega

theorem chunks_eq (s : Bytes) (nblk : Nat) (h : s.length ≤ 256 * nblk) :
    (List.range nblk).flatMap (blk s) = s ++ List.replicate (256 * nblk - s.length) 0 := by
  induction nblk generalizing s with
  | zero =>
    have : s = [] := List.eq_nil_of_length_eq_zero (by omega)
    simp [this]
  | succ n ih =>
    rw [List.range_succ_eq_map, List.flatMap_cons, List.flatMap_map]
    have hstep : (fun b => blk s (Nat.succ b)) = blk (s.drop 256) := by
      funext b
      simp only [blk, List.drop_drop]
      congr 3; omega
    show blk s 0 ++ List.flatMap (fun b => blk s (Nat.succ b)) (List.range n) = _
    rw [hstep, ih (s.drop 256) (by simp; omega)]
    simp only [blk, pad, Nat.mul_zero, List.drop_zero, List.length_take, List.length_drop]
    by_cases hl : 256 ≤ s.length
    · have e1 : 256 - min 256 s.length = 0 := by omega
      have e2 : 256 * n - (s.length - 256) = 256 * (n + 1) - s.length := by omega
      rw [e1, e2]
      simp only [List.replicate_zero, List.append_nil]
      rw [← List.append_assoc, List.take_append_drop]
    · have e0 : s.drop 256 = [] := List.drop_eq_nil_of_le (by omega)
      have e1 : s.take 256 = s := List.take_of_length_le (by omega)
      rw [e0, e1]
      simp only [List.nil_append, List.append_assoc, List.replicate_append_replicate]
      have : 256 - min 256 s.length + (256 * n - (s.length - 256)) = 256 * (n + 1) - s.length := by omega
      rw [this]

theorem hfeTrackData_blocks (s0 s1 : Bytes) :
    hfeTrackData s0 s1 =
      ((List.range ((max s0.length s1.length + 255) / 256)).map (fun b => (blk s0 b, blk s1 b))).flatMap
        (fun p => p.1 ++ p.2) := by
  simp only [hfeTrackData, List.flatMap_map, blk]

theorem hfeTrackData_length (s0 s1 : Bytes) :
    (hfeTrackData s0 s1).length = 512 * ((max s0.length s1.length + 255) / 256) := by
  rw [hfeTrackData_blocks]
  generalize (max s0.length s1.length + 255) / 256 = n
  induction n with
  | zero => simp
  | succ n ih =>
    rw [List.range_succ, List.map_append, List.flatMap_append, List.length_append, ih]
    simp [blk_length]; omega

theorem trackData_side (hfe3 : Bool) (k : Nat) (hk : k < 2) (s0 s1 : Bytes) (fuel : Nat) (st : CopyState)
    (acc : Bytes) (noise : Bool) (hfuel : (max s0.length s1.length + 255) / 256 < fuel) :
    sideBlocks hfe3 ((hfeTrackData s0 s1).map revBits).toArray fuel (256 * k) st acc noise =
      copyHfe hfe3 (((if k = 0 then s0 else s1) ++
        List.replicate (256 * ((max s0.length s1.length + 255) / 256) - (if k = 0 then s0 else s1).length) 0).map revBits)
        st acc noise := by
  have hm : (hfeTrackData s0 s1).map revBits =
      [] ++ ((List.range ((max s0.length s1.length + 255) / 256)).map
        (fun b => ((blk s0 b).map revBits, (blk s1 b).map revBits))).flatMap (fun p => p.1 ++ p.2) := by
    rw [hfeTrackData_blocks]
    simp [List.map_flatMap, List.flatMap_map]
  have h0 : 256 * k = ([] : Bytes).length + 256 * k := by simp
  rw [hm, h0, sideBlocks_eq hfe3 k hk _ _ _ _ _ _ (by
      intro p hp
      obtain ⟨b, _, rfl⟩ := List.mem_map.mp hp
      simp [blk_length]) (by simpa using hfuel)]
  congr 1
  rw [List.flatMap_map]
  have hk' : k = 0 ∨ k = 1 := by omega
  rcases hk' with rfl | rfl
  · simp only [↓reduceIte]
    rw [← chunks_eq s0 _ (by omega), List.map_flatMap]
  · simp only [Nat.one_ne_zero, ↓reduceIte]
    rw [← chunks_eq s1 _ (by omega), List.map_flatMap]


/-! ### v1: every stored byte is eight cells -/

theorem copy_v1 (bs : Bytes) (hb : ∀ b ∈ bs, b < 256) (st : CopyState) (acc : Bytes) (noise : Bool)
    (p : List Bool) (hI : Inv st p) :
    ∃ st', copyHfe false (bs.map revBits) st acc noise =
             some (st', (feed p (bs.flatMap cellsLsb) acc).2, noise) ∧
           Inv st' (feed p (bs.flatMap cellsLsb) acc).1 := by
  induction bs generalizing st acc p with
  | nil => exact ⟨st, by simp [copyHfe, feed], by simpa [feed] using hI⟩
  | cons b r ih =>
    have ht : (st.thisOp != 0) = false := by simp [hI.2.2.2.2]
    have hb' := hb b List.mem_cons_self
    obtain ⟨st1, e1, i1⟩ := emit_feed (revBits b) 8 st acc p hI
    obtain ⟨st2, e2, i2⟩ := ih (fun x hx => hb x (List.mem_cons_of_mem _ hx)) st1
      (feed p (cellsMsb (revBits b) 8) acc).2 _ i1
    rw [cellsMsb_rev b hb'] at e1 e2 i2
    refine ⟨st2, ?_, ?_⟩
    · simp only [List.map_cons, copyHfe, ht, Bool.false_eq_true, ↓reduceIte, Bool.false_and, e1, e2,
        List.flatMap_cons, feed_append]
    · simpa only [List.flatMap_cons, feed_append] using i2

theorem byteLsb_cellsLsb : ∀ b, b < 256 → byteLsb (cellsLsb b) = b := by decide +kernel

theorem packLsb_cellsLsb (bs : Bytes) (hb : ∀ b ∈ bs, b < 256) : packLsb (bs.flatMap cellsLsb) = bs := by
  induction bs with
  | nil => simp [packLsb]
  | cons b r ih =>
    rw [List.flatMap_cons, packLsb_append8 _ _ (by simp [cellsLsb]), byteLsb_cellsLsb b (hb b List.mem_cons_self),
      ih (fun x hx => hb x (List.mem_cons_of_mem _ hx))]

theorem flatMap_cellsLsb_length (bs : Bytes) : (bs.flatMap cellsLsb).length = 8 * bs.length := by
  induction bs with
  | nil => simp
  | cons b r ih => simp [List.flatMap_cons, ih, cellsLsb]; omega

/-- v1: `copy_hfe` over the bit-reversed file bytes delivers the stored bytes -/
theorem copy_v1_all (bs : Bytes) (hb : ∀ b ∈ bs, b < 256) :
    ∃ st, copyHfe false (bs.map revBits) {} [] false = some (st, bs.reverse, false) ∧ st.thisOp = 0 := by
  obtain ⟨st, e, i⟩ := copy_v1 bs hb {} [] false [] Inv_init
  rw [feed_spec _ _ _ (by simp)] at e
  refine ⟨st, ?_, i.2.2.2.2⟩
  rw [e]
  simp only [List.nil_append, flatMap_cellsLsb_length, List.append_nil]
  have : 8 * (8 * bs.length / 8) = (bs.flatMap cellsLsb).length := by
    rw [flatMap_cellsLsb_length]; omega
  rw [this, List.take_length, packLsb_cellsLsb bs hb]

theorem packLsb_lt (cells : List Bool) : ∀ b ∈ packLsb cells, b < 256 := by
  induction cells using packLsb.induct with
  | case1 b0 b1 b2 b3 b4 b5 b6 b7 rest ih =>
    intro b hb
    simp only [packLsb, List.mem_cons] at hb
    rcases hb with rfl | hb
    · have := byteLsb_lt [b0, b1, b2, b3, b4, b5, b6, b7]
      simpa using this
    · exact ih b hb
  | case2 => simp [packLsb]
  | case3 l h1 h2 =>
    intro b hb
    have hl : l.length < 8 := by
      match l, h1 with
      | [], _ | [_], _ | [_,_], _ | [_,_,_], _ | [_,_,_,_], _ | [_,_,_,_,_], _ | [_,_,_,_,_,_], _
      | [_,_,_,_,_,_,_], _ => simp
      | a::b::c::d::e::f::g::h::r, h1 => exact absurd rfl (h1 a b c d e f g h r)
    have : packLsb l = [byteLsb l] := by
      rw [packLsb.eq_3 l h1 h2]
    rw [this] at hb
    simp only [List.mem_singleton] at hb
    subst hb
    calc byteLsb l < 2 ^ l.length := byteLsb_lt l
      _ ≤ 2 ^ 8 := Nat.pow_le_pow_right (by omega) (by omega)


/-! ### the HFE track lookup table -/

def offsFrom : Nat → List Bytes → List Nat
  | _, [] => []
  | cur, d :: ds => cur :: offsFrom (cur + d.length / 512) ds

theorem offs_foldl (datas : List Bytes) (acc : List Nat) (cur : Nat) :
    (datas.foldl (fun (acc : List Nat × Nat) d => (acc.1 ++ [acc.2], acc.2 + d.length / 512)) (acc, cur)).1 =
      acc ++ offsFrom cur datas := by
  induction datas generalizing acc cur with
  | nil => simp [offsFrom]
  | cons d ds ih => simp [List.foldl_cons, ih, offsFrom]

theorem offsFrom_length (c : Nat) (datas : List Bytes) : (offsFrom c datas).length = datas.length := by
  induction datas generalizing c with
  | nil => simp [offsFrom]
  | cons d ds ih => simp [offsFrom, ih]

theorem offsFrom_le (c : Nat) (datas : List Bytes) (h : ∀ d ∈ datas, d.length / 512 ≤ 127) :
    ∀ o ∈ offsFrom c datas, o ≤ c + 127 * datas.length := by
  induction datas generalizing c with
  | nil => simp [offsFrom]
  | cons d ds ih =>
    intro o ho
    simp only [offsFrom, List.mem_cons] at ho
    have hd := h d List.mem_cons_self
    rcases ho with rfl | ho
    · omega
    · have := ih (c + d.length / 512) (fun x hx => h x (List.mem_cons_of_mem _ hx)) o ho
      simp only [List.length_cons]; omega

def lutBytes (c : Nat) (datas : List Bytes) : Bytes :=
  ((offsFrom c datas).zip datas).flatMap fun (o, d) => leBytes2 o ++ leBytes2 d.length

theorem lutBytes_cons (c : Nat) (d : Bytes) (ds : List Bytes) :
    lutBytes c (d :: ds) = c % 256 :: c / 256 % 256 :: d.length % 256 :: d.length / 256 % 256 ::
        lutBytes (c + d.length / 512) ds := by
  simp [lutBytes, offsFrom, leBytes2]

theorem lutBytes_length (c : Nat) (datas : List Bytes) : (lutBytes c datas).length = 4 * datas.length := by
  induction datas generalizing c with
  | nil => simp [lutBytes, offsFrom]
  | cons d ds ih =>
    rw [lutBytes_cons]
    simp only [List.length_cons, ih]; omega

theorem leWord_shift4 (a b c d : Nat) (rest : Bytes) (i : Nat) :
    leWord (a :: b :: c :: d :: rest) (i + 4) = leWord rest i := by
  simp [leWord, List.getD_eq_getElem?_getD]

theorem lut_get (c : Nat) (datas : List Bytes) (t : Nat) (ht : t < datas.length)
    (ho : ∀ o ∈ offsFrom c datas, o < 65536) (hd : ∀ d ∈ datas, d.length < 65536) :
    leWord (lutBytes c datas) (4 * t) = (offsFrom c datas).getD t 0 ∧
    leWord (lutBytes c datas) (4 * t + 2) = (datas.getD t []).length := by
  induction datas generalizing c t with
  | nil => simp at ht
  | cons d ds ih =>
    rw [lutBytes_cons]
    cases t with
    | zero =>
      have h1 := ho c (by simp [offsFrom])
      have h2 := hd d List.mem_cons_self
      simp [leWord, offsFrom]
      omega
    | succ t =>
      have e1 : 4 * (t + 1) = 4 * t + 4 := by omega
      have e2 : 4 * t + 4 + 2 = (4 * t + 2) + 4 := by omega
      rw [e1, e2, leWord_shift4, leWord_shift4]
      have := ih (c + d.length / 512) t (by simpa using ht)
        (fun o h => ho o (by simp [offsFrom, h])) (fun x hx => hd x (List.mem_cons_of_mem _ hx))
      simpa [offsFrom] using this

theorem data_loc (c : Nat) (datas : List Bytes) (t : Nat) (ht : t < datas.length)
    (hd : ∀ d ∈ datas, 512 ∣ d.length) :
    ∃ pre post, datas.flatten = pre ++ datas.getD t [] ++ post ∧
      pre.length + 512 * c = 512 * (offsFrom c datas).getD t 0 := by
  induction datas generalizing c t with
  | nil => simp at ht
  | cons d ds ih =>
    cases t with
    | zero => exact ⟨[], ds.flatten, by simp, by simp [offsFrom]⟩
    | succ t =>
      obtain ⟨pre, post, h1, h2⟩ := ih (c + d.length / 512) t (by simpa using ht)
        (fun x hx => hd x (List.mem_cons_of_mem _ hx))
      refine ⟨d ++ pre, post, by simp [h1], ?_⟩
      obtain ⟨q, hq⟩ := hd d List.mem_cons_self
      simp only [offsFrom, List.getD_cons_succ, List.length_append]
      rw [← h2, hq]
      have : 512 * q / 512 = q := by omega
      rw [this]; omega

/-! ### the HFE header -/

def hfeHdr (v3 fm : Bool) (sides ntr : Nat) : HfeHeader :=
  { version := if v3 then 3 else 1, tracks := ntr, sides := sides, encoding := if fm then 2 else 0,
    t0s0alt := 255, t0s0enc := 255, t0s1alt := 255, t0s1enc := 255 }

def hdrBytes (v3 fm : Bool) (sides ntr : Nat) : Bytes :=
  pad 512 (strBytes (if v3 then "HXCHFEV3" else "HXCPICFE") ++ [0, ntr, sides, if fm then 2 else 0] ++
    leBytes2 250 ++ leBytes2 300 ++ [7, 1] ++ leBytes2 1 ++ [0xFF, 0xFF, 0xFF, 0xFF, 0xFF, 0xFF]) 0xFF

theorem sigV1 : strBytes "HXCPICFE" = [72, 88, 67, 80, 73, 67, 70, 69] := by decide
theorem sigV3 : strBytes "HXCHFEV3" = [72, 88, 67, 72, 70, 69, 86, 51] := by decide

theorem hdrBytes_eq (v3 fm : Bool) (sides ntr : Nat) :
    hdrBytes v3 fm sides ntr = (if v3 then [72, 88, 67, 72, 70, 69, 86, 51] else [72, 88, 67, 80, 73, 67, 70, 69]) ++
      [0, ntr, sides, if fm then 2 else 0, 250, 0, 44, 1, 7, 1, 1, 0, 255, 255, 255, 255, 255, 255] ++
      List.replicate 486 255 := by
  cases v3 <;> simp [hdrBytes, pad, leBytes2, sigV1, sigV3, -List.reduceReplicate]

theorem hdrBytes_length (v3 fm : Bool) (sides ntr : Nat) : (hdrBytes v3 fm sides ntr).length = 512 := by
  rw [hdrBytes_eq]; cases v3 <;> simp [-List.reduceReplicate]

theorem parse_hdr (v3 fm : Bool) (sides ntr : Nat) (rest : Bytes) (hn : 0 < ntr) (hs : sides ≤ 2) :
    hfeParseHeader (hdrBytes v3 fm sides ntr ++ rest).toArray = some (hfeHdr v3 fm sides ntr) := by
  have htake : ((hdrBytes v3 fm sides ntr ++ rest).drop 0).take 512 = hdrBytes v3 fm sides ntr := by
    rw [List.drop_zero, List.take_append_of_le_length (by rw [hdrBytes_length]; omega),
      List.take_of_length_le (by rw [hdrBytes_length]; omega)]
  unfold hfeParseHeader
  simp only [fread_toArray, htake]
  have hl : ¬ (hdrBytes v3 fm sides ntr).length < 512 := by rw [hdrBytes_length]; omega
  simp only [hl, ↓reduceIte]
  rw [hdrBytes_eq]
  have hn' : (ntr == 0) = false := by simp; omega
  have hs' : ¬ sides > 2 := by omega
  cases v3
  · simp [sigV1, hfeHdr, hn', hs', -List.reduceReplicate]
  · simp [sigV1, sigV3, hfeHdr, hn', hs', -List.reduceReplicate]


theorem extract_mid (A B C : Bytes) (a b : Nat) (ha : a = A.length) (hb : b = B.length) :
    (A ++ B ++ C).toArray.extract a (a + b) = B.toArray := by
  subst ha hb
  simp [List.extract_eq_take_drop]

theorem picTrackLen_mul (n : Nat) : picTrackLen (512 * n) = 512 * n := by
  have : (512 * n) &&& 0x1FF = 0 := by
    have := Nat.and_two_pow_sub_one_eq_mod (512 * n) 9
    simp at this
    omega
  simp [picTrackLen, this]

theorem hfeImage_eq (v3 fm : Bool) (sides : Nat) (trk : List (Bytes × Bytes)) :
    hfeImage v3 fm sides trk =
      hdrBytes v3 fm sides trk.length ++
      pad (512 * max 1 ((trk.length * 4 + 511) / 512))
        (lutBytes (1 + max 1 ((trk.length * 4 + 511) / 512)) (trk.map fun t => hfeTrackData t.1 t.2)) 0xFF ++
      (trk.map fun t => hfeTrackData t.1 t.2).flatten := by
  simp only [hfeImage, hdrBytes, lutBytes, offs_foldl, List.nil_append]


/-- number of 512-byte blocks of a track -/
def nblkOf (p : Bytes × Bytes) : Nat := (max p.1.length p.2.length + 255) / 256

theorem hfe_layout (v3 fm : Bool) (sides : Nat) (trk : List (Bytes × Bytes))
    (hn : 0 < trk.length ∧ trk.length ≤ 255) (hs : sides ≤ 2)
    (hsmall : ∀ p ∈ trk, p.1.length ≤ 32512 ∧ p.2.length ≤ 32512) :
    hfeParseHeader (hfeImage v3 fm sides trk).toArray = some (hfeHdr v3 fm sides trk.length) ∧
    (hfeLut (hfeImage v3 fm sides trk).toArray (hfeHdr v3 fm sides trk.length)).length = trk.length * 4 ∧
    ∀ t, t < trk.length → ∀ k, k < 2 →
      hfeTrackStream (hfeImage v3 fm sides trk).toArray (hfeHdr v3 fm sides trk.length)
          (hfeLut (hfeImage v3 fm sides trk).toArray (hfeHdr v3 fm sides trk.length)) k t =
        (match copyHfe v3 (((if k = 0 then (trk.getD t ([], [])).1 else (trk.getD t ([], [])).2) ++
              List.replicate (256 * nblkOf (trk.getD t ([], [])) -
                (if k = 0 then (trk.getD t ([], [])).1 else (trk.getD t ([], [])).2).length) 0).map revBits) {} [] false with
         | none => none
         | some (st, acc, noise) => some (fm, acc.reverse, noise || st.thisOp != 0)) := by
  generalize hL : max 1 ((trk.length * 4 + 511) / 512) = L
  generalize hdatas : (trk.map fun t => hfeTrackData t.1 t.2) = datas
  have himg := hfeImage_eq v3 fm sides trk
  rw [hL, hdatas] at himg
  have hLb : 1 ≤ L ∧ L ≤ 2 := by omega
  have hdl : datas.length = trk.length := by rw [← hdatas]; simp
  have hlb : (lutBytes (1 + L) datas).length = 4 * trk.length := by rw [lutBytes_length, hdl]
  -- the LUT block
  have hpad : pad (512 * L) (lutBytes (1 + L) datas) 0xFF =
      lutBytes (1 + L) datas ++ List.replicate (512 * L - 4 * trk.length) 0xFF := by
    simp [pad, hlb]
  have hlut : hfeLut (hfeImage v3 fm sides trk).toArray (hfeHdr v3 fm sides trk.length) = lutBytes (1 + L) datas := by
    simp only [hfeLut, fread_toArray, hfeHdr, himg, hpad]
    have : hdrBytes v3 fm sides trk.length ++ (lutBytes (1 + L) datas ++ List.replicate (512 * L - 4 * trk.length) 255) ++
        datas.flatten = hdrBytes v3 fm sides trk.length ++ lutBytes (1 + L) datas ++
        (List.replicate (512 * L - 4 * trk.length) 255 ++ datas.flatten) := by simp
    rw [this]
    exact drop_take_mid _ _ _ _ _ (hdrBytes_length ..).symm (by rw [hlb]; omega)
  refine ⟨?_, ?_, ?_⟩
  · rw [himg, List.append_assoc]
    exact parse_hdr v3 fm sides trk.length _ hn.1 hs
  · rw [hlut, hlb]; omega
  · intro t ht k hk
    rw [hlut]
    -- facts about the track data
    have hdt : datas.getD t [] = hfeTrackData (trk.getD t ([], [])).1 (trk.getD t ([], [])).2 := by
      rw [← hdatas]; simp [List.getD_eq_getElem?_getD, ht]
    have hmem : trk.getD t ([], []) ∈ trk := by simp [List.getD_eq_getElem?_getD, ht]
    have hsm := hsmall _ hmem
    have hnb : nblkOf (trk.getD t ([], [])) ≤ 127 := by unfold nblkOf; omega
    have hdlen : ∀ d ∈ datas, ∃ n, n ≤ 127 ∧ d.length = 512 * n := by
      intro d hd
      rw [← hdatas] at hd
      obtain ⟨p, hp, rfl⟩ := List.mem_map.mp hd
      have := hsmall p hp
      exact ⟨_, by omega, hfeTrackData_length p.1 p.2⟩
    have hoff : ∀ o ∈ offsFrom (1 + L) datas, o < 65536 := by
      intro o ho
      have := offsFrom_le (1 + L) datas (by
        intro d hd; obtain ⟨n, hn1, hn2⟩ := hdlen d hd; rw [hn2]; omega) o ho
      omega
    have hdl2 : ∀ d ∈ datas, d.length < 65536 := by
      intro d hd; obtain ⟨n, hn1, hn2⟩ := hdlen d hd; omega
    obtain ⟨hw1, hw2⟩ := lut_get (1 + L) datas t (by omega) hoff hdl2
    obtain ⟨pre, post, hsplit, hprelen⟩ := data_loc (1 + L) datas t (by omega) (by
      intro d hd; obtain ⟨n, _, hn2⟩ := hdlen d hd; exact ⟨n, hn2⟩)
    have hlen_t : (datas.getD t []).length = 512 * nblkOf (trk.getD t ([], [])) := by
      rw [hdt, hfeTrackData_length]; rfl
    -- the raw track bytes
    have hraw : (hfeImage v3 fm sides trk).toArray.extract ((offsFrom (1 + L) datas).getD t 0 * 512)
        ((offsFrom (1 + L) datas).getD t 0 * 512 + 512 * nblkOf (trk.getD t ([], []))) =
        (datas.getD t []).toArray := by
      rw [himg, hpad, hsplit]
      have : hdrBytes v3 fm sides trk.length ++ (lutBytes (1 + L) datas ++ List.replicate (512 * L - 4 * trk.length) 255) ++
          (pre ++ datas.getD t [] ++ post) =
          (hdrBytes v3 fm sides trk.length ++ (lutBytes (1 + L) datas ++ List.replicate (512 * L - 4 * trk.length) 255) ++ pre) ++
          datas.getD t [] ++ post := by simp
      rw [this]
      refine extract_mid _ _ _ _ _ ?_ hlen_t.symm
      simp only [List.length_append, hdrBytes_length, hlb, List.length_replicate]
      omega
    have henc : hfeEncodingOfTrack (hfeHdr v3 fm sides trk.length) k t = if fm then 2 else 0 := by
      simp [hfeEncodingOfTrack, hfeHdr]
    unfold hfeTrackStream
    simp only [henc, hw1, hw2, hlen_t, picTrackLen_mul, hraw]
    have hencok : ((if fm = true then 2 else 0) != 2 && (if fm = true then 2 else 0) != 0) = false := by
      cases fm <;> rfl
    have hisfm : ((if fm = true then 2 else 0) == 2) = fm := by cases fm <;> rfl
    have hver : ((hfeHdr v3 fm sides trk.length).version == 3) = v3 := by cases v3 <;> rfl
    simp only [hencok, Bool.false_eq_true, ↓reduceIte, hisfm, hver, List.map_toArray, List.size_toArray,
      List.length_map, hlen_t]
    rw [hdt, trackData_side v3 k hk _ _ _ _ _ _ (by
      show nblkOf _ < _
      have : 512 * nblkOf (trk.getD t ([], [])) / 512 = nblkOf (trk.getD t ([], [])) := by omega
      omega)]
    rfl


/-! ### the cells of an image -/

theorem zip_getElem? {α β} (a : List α) (b : List β) (i : Nat) (ha : i < a.length) (hb : i < b.length) :
    (a.zip b)[i]? = some (a[i], b[i]) := by
  rw [List.getElem?_eq_getElem (by simp; omega), List.getElem_zip]

theorem sideCells_get (fm : Bool) (k : Nat) (d : SideData) (rs : List Recording) (t : Nat)
    (ht : t < d.length) (hl : rs.length = d.length) :
    ∃ tr rc, tr ∈ d ∧ rc ∈ rs ∧ d.getD t [] = tr ∧ (sideCells fm k d rs).getD t [] = trackCells fm t k tr rc := by
  have ht' : t < rs.length := by omega
  refine ⟨d[t], rs[t], List.getElem_mem _, List.getElem_mem _, by simp [List.getD_eq_getElem?_getD, ht], ?_⟩
  simp [sideCells, trackCells, List.getD_eq_getElem?_getD, List.getElem?_zipIdx, zip_getElem? d rs t ht ht']

theorem cells_get (fm : Bool) (ds : List SideData) (rss : List (List Recording)) (hr : rss.length = ds.length)
    (ntr : Nat) (hd : ∀ d ∈ ds, d.length = ntr) (hrs : ∀ rs ∈ rss, rs.length = ntr)
    (k t : Nat) (hk : k < ds.length) (ht : t < ntr) :
    ∃ d rs tr rc, d ∈ ds ∧ rs ∈ rss ∧ ds.getD k [] = d ∧ tr ∈ d ∧ rc ∈ rs ∧ d.getD t [] = tr ∧
      (((ds.zip rss).zipIdx.map fun (p, k) => sideCells fm k p.1 p.2).getD k []).getD t [] = trackCells fm t k tr rc := by
  have hk' : k < rss.length := by omega
  have hdk := hd ds[k] (List.getElem_mem _)
  have hrk := hrs rss[k] (List.getElem_mem _)
  obtain ⟨tr, rc, h1, h2, h3, h4⟩ := sideCells_get fm k ds[k] rss[k] t (by omega) (by omega)
  refine ⟨ds[k], rss[k], tr, rc, List.getElem_mem _, List.getElem_mem _, by simp [List.getD_eq_getElem?_getD, hk], h1, h2, h3, ?_⟩
  rw [← h4]
  congr 1
  simp [List.getD_eq_getElem?_getD, List.getElem?_zipIdx, zip_getElem? ds rss k hk hk']


/-! ### loading an HFE image -/

theorem getD_mem {α} (l : List α) (i : Nat) (d : α) (h : i < l.length) : l.getD i d ∈ l := by
  simp [List.getD_eq_getElem?_getD, h]

theorem hfeTrack_of_stream (f : FileData) (h : HfeHeader) (lut : Bytes) (fm : Bool) (hfmRT : FmRT) (hmfmRT : MfmRT)
    (spt t k : Nat) (tr : List Bytes) (rc : Recording) (padding : Nat) (ht : t < 256) (hk : k < 256)
    (hspt : spt ≤ 256) (htr : tr.length = spt ∧ ∀ s ∈ tr, IsSector s) (hrc : RecordingOK fm spt rc)
    (hstream : hfeTrackStream f h lut k t =
      some (fm, packLsb (hfeSideBits fm (trackCells fm t k tr rc)) ++ List.replicate padding 0, false)) :
    ∃ S, hfeTrack f h lut k t = some (S, false) ∧
      S.map seen = (List.range spt).map (fun r => (t, k, r, tr.getD r [])) := by
  obtain ⟨T, hT, hS⟩ := track_decode fm hfmRT hmfmRT spt t k tr rc padding ht hk hspt htr hrc
  refine ⟨sortSectors T, ?_, hS⟩
  simp only [hfeTrack, hstream, hT, Bool.or_false]

theorem hfe_core (f : FileData) (v3 fm : Bool) (spt ntr : Nat) (ds : List SideData) (lut : Bytes)
    (hsides : ds.length = 1 ∨ ds.length = 2) (hn : 0 < ntr ∧ ntr ≤ 255) (hspt : 0 < spt ∧ spt ≤ 256)
    (hd : ∀ d ∈ ds, d.length = ntr ∧ SideOK spt d)
    (hparse : hfeParseHeader f = some (hfeHdr v3 fm ds.length ntr))
    (hlut : hfeLut f (hfeHdr v3 fm ds.length ntr) = lut) (hlutlen : lut.length = ntr * 4)
    (htrack : ∀ k, k < ds.length → ∀ t, t < ntr → ∃ S, hfeTrack f (hfeHdr v3 fm ds.length ntr) lut k t = some (S, false) ∧
      S.map seen = (List.range spt).map (fun r => (t, k, r, ((ds.getD k []).getD t []).getD r []))) :
    ∃ sides, loadHfe f = .ok sides false ∧ sides.length = ds.length ∧
      ∀ k (_ : k < ds.length), ∃ s, sides[k]? = some s ∧ s.side = k ∧
        s.geom = { cylinders := ntr, heads := 1, sectors := spt, encoding := some (if fm then Encoding.FM else Encoding.MFM) } ∧
        ∀ lba, hfeReadBlock s lba = dumpRead spt (ds.getD k []) lba := by
  generalize hh : hfeHdr v3 fm ds.length ntr = h at *
  let Sf : Nat → Nat → List FSector := fun k t => ((hfeTrack f h lut k t).getD ([], false)).1
  have hSf : ∀ k, k < ds.length → ∀ t, t < ntr → hfeTrack f h lut k t = some (Sf k t, false) ∧
      (Sf k t).map seen = (List.range spt).map (fun r => (t, k, r, ((ds.getD k []).getD t []).getD r [])) := by
    intro k hk t ht
    obtain ⟨S, h1, h2⟩ := htrack k hk t ht
    have : Sf k t = S := by simp [Sf, h1]
    rw [this]; exact ⟨h1, h2⟩
  have hdk : ∀ k, k < ds.length → (ds.getD k []).length = ntr ∧ SideOK spt (ds.getD k []) := by
    intro k hk
    exact hd _ (getD_mem _ _ _ hk)
  have htrk : ∀ k, k < ds.length → ∀ t, t < ntr →
      ((ds.getD k []).getD t []).length = spt ∧ ∀ s ∈ (ds.getD k []).getD t [], IsSector s := by
    intro k hk t ht
    apply (hdk k hk).2
    have : t < (ds.getD k []).length := by rw [(hdk k hk).1]; exact ht
    exact getD_mem _ _ _ this
  have htracks : ∀ k, k < ds.length →
      hfeTracks f h lut k ntr 0 none [] false = some (((List.range ntr).map (Sf k)).flatten, spt, false) := by
    intro k hk
    rw [hfeTracks_ok f h lut k spt (Sf k) ntr 0 none [] false ?_ (Or.inl rfl)]
    · have : ¬ ntr = 0 := by omega
      simp [this, List.range_eq_range']
    · intro t _ ht
      have ht' : t < ntr := by omega
      obtain ⟨h1, h2⟩ := hSf k hk t ht'
      obtain ⟨h3, h4⟩ := track_ok (Sf k t) spt t k _ (htrk k hk t ht') h2
      exact ⟨h1, h4, h3⟩
  have henc : (if (h.encoding == 0 || h.encoding == 1) = true then some Encoding.MFM
      else if (h.encoding == 2 || h.encoding == 3) = true then some Encoding.FM else none) =
      some (if fm then Encoding.FM else Encoding.MFM) := by
    rw [← hh]; cases fm <;> simp [hfeHdr]
  have htr_eq : h.tracks = ntr := by rw [← hh]; rfl
  have hsd_eq : h.sides = ds.length := by rw [← hh]; rfl
  have hside : ∀ k, k < ds.length → ∀ s : FluxSide, s.side = k → s.sectors = ((List.range ntr).map (Sf k)).flatten →
      s.geom = { cylinders := ntr, heads := 1, sectors := spt, encoding := some (if fm then Encoding.FM else Encoding.MFM) } →
      ∀ lba, hfeReadBlock s lba = dumpRead spt (ds.getD k []) lba := by
    intro k hk s hs1 hs2 hs3 lba
    refine hfeReadBlock_eq s k ntr spt (ds.getD k []) (by omega) (by omega) hspt.1 (hdk k hk) (by rw [hs3]) hs1 ?_ lba
    rw [hs2]
    exact map_seen_side (Sf k) k ntr spt _ (fun t ht => (hSf k hk t ht).2)
  rcases hsides with h1 | h2
  · refine ⟨[{ geom := { cylinders := ntr, heads := 1, sectors := spt, encoding := some (if fm then Encoding.FM else Encoding.MFM) },
               side := 0, sectors := ((List.range ntr).map (Sf 0)).flatten }], ?_, by simp [h1], ?_⟩
    · simp only [loadHfe, hparse, hlut, hsd_eq, h1, hfeSides, htr_eq,
        htracks 0 (by omega), henc]
      simp [hlutlen]
    · intro k hk
      have : k = 0 := by omega
      subst this
      exact ⟨_, rfl, rfl, rfl, hside 0 (by omega) _ rfl rfl rfl⟩
  · refine ⟨[{ geom := { cylinders := ntr, heads := 1, sectors := spt, encoding := some (if fm then Encoding.FM else Encoding.MFM) },
               side := 0, sectors := ((List.range ntr).map (Sf 0)).flatten },
             { geom := { cylinders := ntr, heads := 1, sectors := spt, encoding := some (if fm then Encoding.FM else Encoding.MFM) },
               side := 1, sectors := ((List.range ntr).map (Sf 1)).flatten }], ?_, by simp [h2], ?_⟩
    · simp only [loadHfe, hparse, hlut, hsd_eq, h2, hfeSides, htr_eq,
        htracks 0 (by omega), htracks 1 (by omega), henc]
      simp [hlutlen]
    · intro k hk
      have : k = 0 ∨ k = 1 := by omega
      rcases this with rfl | rfl
      · exact ⟨_, rfl, rfl, rfl, hside 0 (by omega) _ rfl rfl rfl⟩
      · exact ⟨_, rfl, rfl, rfl, hside 1 (by omega) _ rfl rfl rfl⟩


theorem hfe_v1_image (fm : Bool) (spt : Nat) (ds : List SideData) (rss : List (List Recording))
    (hsides : ds.length = 1 ∨ ds.length = 2) (hr : rss.length = ds.length)
    (ntr : Nat) (hn : 0 < ntr ∧ ntr ≤ 255) (hspt : 0 < spt ∧ spt ≤ 256)
    (hd : ∀ d ∈ ds, d.length = ntr ∧ SideOK spt d)
    (hrs : ∀ rs ∈ rss, rs.length = ntr ∧ ∀ rc ∈ rs, RecordingOK fm spt rc)
    (hsmall : ∀ k t, (packLsb (hfeSideBits fm ((((ds.zip rss).zipIdx.map fun (p, k) => sideCells fm k p.1 p.2).getD k []).getD t []))).length ≤ 32512)
    (hfmRT : FmRT) (hmfmRT : MfmRT) :
    let cells := (ds.zip rss).zipIdx.map fun (p, k) => sideCells fm k p.1 p.2
    let stored (k t : Nat) : Bytes := packLsb (hfeSideBits fm ((cells.getD k []).getD t []))
    let img := hfeImage false fm ds.length ((List.range ntr).map fun t => (stored 0 t, if ds.length = 2 then stored 1 t else []))
    ∃ sides, loadHfe img.toArray = .ok sides false ∧ sides.length = ds.length ∧
      ∀ k (_hk : k < ds.length), ∃ s, sides[k]? = some s ∧ s.side = k ∧
        s.geom = { cylinders := ntr, heads := 1, sectors := spt, encoding := some (if fm then Encoding.FM else Encoding.MFM) } ∧
        ∀ lba, hfeReadBlock s lba = dumpRead spt (ds.getD k []) lba := by
  intro cells stored img
  let trk := (List.range ntr).map fun t => (stored 0 t, if ds.length = 2 then stored 1 t else [])
  have himg : img = hfeImage false fm ds.length trk := rfl
  have htl : trk.length = ntr := by simp [trk]
  have hget : ∀ t, t < ntr → trk.getD t ([], []) = (stored 0 t, if ds.length = 2 then stored 1 t else []) := by
    intro t ht; simp [trk, List.getD_eq_getElem?_getD, ht]
  have hsm : ∀ p ∈ trk, p.1.length ≤ 32512 ∧ p.2.length ≤ 32512 := by
    intro p hp
    obtain ⟨t, _, rfl⟩ := List.mem_map.mp hp
    refine ⟨hsmall 0 t, ?_⟩
    show (if ds.length = 2 then stored 1 t else []).length ≤ 32512
    split
    · exact hsmall 1 t
    · simp
  obtain ⟨hparse, hlutlen, hstream⟩ := hfe_layout false fm ds.length trk (by omega) (by omega) hsm
  rw [htl, ← himg] at hparse hlutlen hstream
  refine hfe_core img.toArray false fm spt ntr ds (hfeLut img.toArray (hfeHdr false fm ds.length ntr)) hsides hn hspt hd ?_ ?_ ?_ ?_
  · exact hparse
  · rfl
  · exact hlutlen
  intro k hk t ht
  obtain ⟨d, rs, tr, rc, hd1, hrs1, hdk, htr, hrc, hdt, hcells⟩ :=
    cells_get fm ds rss hr ntr (fun d h => (hd d h).1) (fun rs h => (hrs rs h).1) k t hk ht
  have hsk : (if k = 0 then (trk.getD t ([], [])).1 else (trk.getD t ([], [])).2) = stored k t := by
    rw [hget t ht]
    have : k = 0 ∨ k = 1 := by omega
    rcases this with rfl | rfl
    · simp
    · have : ds.length = 2 := by omega
      simp [this]
  have hst := hstream t ht k (by omega)
  rw [hsk] at hst
  have hbytes : ∀ b ∈ stored k t ++ List.replicate (256 * nblkOf (trk.getD t ([], [])) - (stored k t).length) 0, b < 256 := by
    intro b hb
    rcases List.mem_append.mp hb with hb | hb
    · exact packLsb_lt _ b hb
    · rw [List.mem_replicate] at hb; omega
  obtain ⟨st, hcopy, hop⟩ := copy_v1_all _ hbytes
  rw [hcopy] at hst
  simp only [hop, List.reverse_reverse] at hst
  have hst' : hfeTrackStream img.toArray (hfeHdr false fm ds.length ntr)
      (hfeLut img.toArray (hfeHdr false fm ds.length ntr)) k t =
      some (fm, packLsb (hfeSideBits fm (trackCells fm t k tr rc)) ++
        List.replicate (256 * nblkOf (trk.getD t ([], [])) - (stored k t).length) 0, false) := by
    rw [hst, ← hcells]; rfl
  have hside := (hd d hd1).2
  have := hfeTrack_of_stream img.toArray _ _ fm hfmRT hmfmRT spt t k tr rc _ (by omega) (by omega) hspt.2
    (hside tr htr) ((hrs rs hrs1).2 rc hrc) hst'
  rw [hdk, hdt]
  exact this

/-! ### HFE v3 images -/

theorem packLsb_snoc_false (X : List Bool) : ∃ j, packLsb (X ++ [false]) = packLsb X ++ List.replicate j 0 := by
  induction X using packLsb.induct with
  | case1 b0 b1 b2 b3 b4 b5 b6 b7 rest ih =>
    obtain ⟨j, hj⟩ := ih
    exact ⟨j, by simp only [List.cons_append, packLsb, hj]⟩
  | case2 => exact ⟨1, by simp [packLsb, byteLsb]⟩
  | case3 l h1 h2 =>
    refine ⟨0, ?_⟩
    match l, h1, h2 with
    | [], _, h2 => exact absurd rfl h2
    | [a], _, _ | [a,b], _, _ | [a,b,c], _, _ | [a,b,c,d], _, _ | [a,b,c,d,e], _, _ | [a,b,c,d,e,f], _, _
    | [a,b,c,d,e,f,g], _, _ => simp [packLsb, byteLsb]
    | a::b::c::d::e::f::g::h::r, h1, _ => exact absurd rfl (h1 a b c d e f g h r)

theorem packLsb_pad (X : List Bool) (m : Nat) :
    ∃ j, packLsb (X ++ List.replicate m false) = packLsb X ++ List.replicate j 0 := by
  induction m generalizing X with
  | zero => exact ⟨0, by simp⟩
  | succ m ih =>
    obtain ⟨j1, h1⟩ := packLsb_snoc_false X
    obtain ⟨j2, h2⟩ := ih (X ++ [false])
    refine ⟨j1 + j2, ?_⟩
    have : X ++ List.replicate (m + 1) false = (X ++ [false]) ++ List.replicate m false := by
      simp [List.replicate_succ]
    rw [this, h2, h1, List.append_assoc, List.replicate_append_replicate]

theorem v3Bytes_append (a b : List V3Item) : v3Bytes (a ++ b) = v3Bytes a ++ v3Bytes b := by
  induction a with
  | nil => simp [v3Bytes]
  | cons it r ih => cases it <;> simp [v3Bytes, ih]

theorem v3Cells_append (a b : List V3Item) : v3Cells (a ++ b) = v3Cells a ++ v3Cells b := by
  induction a with
  | nil => simp [v3Cells]
  | cons it r ih => cases it <;> simp [v3Cells, ih]

theorem v3Bytes_zeros (z : Nat) : v3Bytes (List.replicate z (.cells 0)) = List.replicate z 0 := by
  induction z with
  | zero => simp [v3Bytes]
  | succ z ih => simp [List.replicate_succ, v3Bytes, ih]

theorem v3Cells_zeros (z : Nat) : v3Cells (List.replicate z (.cells 0)) = List.replicate (8 * z) false := by
  induction z with
  | zero => simp [v3Cells]
  | succ z ih =>
    have : (List.map (fun i => 0 >>> i % 2 == 1) (List.range 8)) = List.replicate 8 false := by decide
    rw [List.replicate_succ, v3Cells, ih, this, List.replicate_append_replicate]
    congr 1; omega

/-- v3: a legal item stream denoting `X` plus padding, followed by zero bytes, reads back
    as the packed cells of `X` plus zero bytes -/
theorem copy_v3_all (items : List V3Item) (h : ∀ it ∈ items, ItemOK it) (z pad : Nat) (X : List Bool)
    (hlen : (v3Cells items).length % 8 = 0) (hX : v3Cells items = X ++ List.replicate pad false) :
    ∃ st j, copyHfe true ((v3Bytes items ++ List.replicate z 0).map revBits) {} [] false =
      some (st, (packLsb X ++ List.replicate j 0).reverse, false) ∧ st.thisOp = 0 := by
  have hok : ∀ it ∈ items ++ List.replicate z (.cells 0), ItemOK it := by
    intro it hit
    rcases List.mem_append.mp hit with hit | hit
    · exact h it hit
    · rw [List.mem_replicate] at hit
      rw [hit.2]
      exact ⟨by omega, by decide⟩
  obtain ⟨st, e, _, hop, _⟩ := v3_transparent _ hok
  rw [v3Bytes_append, v3Bytes_zeros] at e
  have hl : (v3Cells (items ++ List.replicate z (.cells 0))).length % 8 = 0 := by
    rw [v3Cells_append, v3Cells_zeros, List.length_append, List.length_replicate]; omega
  have htake : 8 * ((v3Cells (items ++ List.replicate z (.cells 0))).length / 8) =
      (v3Cells (items ++ List.replicate z (.cells 0))).length := by omega
  rw [htake, List.take_length, v3Cells_append, v3Cells_zeros, hX, List.append_assoc,
    List.replicate_append_replicate] at e
  obtain ⟨j, hj⟩ := packLsb_pad X (pad + 8 * z)
  rw [hj] at e
  exact ⟨st, j, e, hop⟩


theorem hfe_v3_image (fm : Bool) (spt : Nat) (ds : List SideData) (rss : List (List Recording))
    (hsides : ds.length = 1 ∨ ds.length = 2) (hr : rss.length = ds.length)
    (ntr : Nat) (hn : 0 < ntr ∧ ntr ≤ 255) (hspt : 0 < spt ∧ spt ≤ 256)
    (hd : ∀ d ∈ ds, d.length = ntr ∧ SideOK spt d)
    (hrs : ∀ rs ∈ rss, rs.length = ntr ∧ ∀ rc ∈ rs, RecordingOK fm spt rc)
    (items : Nat → Nat → List V3Item)
    (hitems : ∀ k t, (∀ it ∈ items k t, ItemOK it) ∧ (v3Cells (items k t)).length % 8 = 0 ∧ (v3Bytes (items k t)).length ≤ 32512 ∧
       ∃ pad, v3Cells (items k t) =
         hfeSideBits fm ((((ds.zip rss).zipIdx.map fun (p, k) => sideCells fm k p.1 p.2).getD k []).getD t []) ++ List.replicate pad false)
    (hfmRT : FmRT) (hmfmRT : MfmRT) :
    let img := hfeImage true fm ds.length ((List.range ntr).map fun t => (v3Bytes (items 0 t), if ds.length = 2 then v3Bytes (items 1 t) else []))
    ∃ sides, loadHfe img.toArray = .ok sides false ∧ sides.length = ds.length ∧
      ∀ k (_hk : k < ds.length), ∃ s, sides[k]? = some s ∧ s.side = k ∧
        s.geom = { cylinders := ntr, heads := 1, sectors := spt, encoding := some (if fm then Encoding.FM else Encoding.MFM) } ∧
        ∀ lba, hfeReadBlock s lba = dumpRead spt (ds.getD k []) lba := by
  intro img
  let trk := (List.range ntr).map fun t => (v3Bytes (items 0 t), if ds.length = 2 then v3Bytes (items 1 t) else [])
  have himg : img = hfeImage true fm ds.length trk := rfl
  have htl : trk.length = ntr := by simp [trk]
  have hget : ∀ t, t < ntr → trk.getD t ([], []) = (v3Bytes (items 0 t), if ds.length = 2 then v3Bytes (items 1 t) else []) := by
    intro t ht; simp [trk, List.getD_eq_getElem?_getD, ht]
  have hsm : ∀ p ∈ trk, p.1.length ≤ 32512 ∧ p.2.length ≤ 32512 := by
    intro p hp
    obtain ⟨t, _, rfl⟩ := List.mem_map.mp hp
    refine ⟨(hitems 0 t).2.2.1, ?_⟩
    show (if ds.length = 2 then v3Bytes (items 1 t) else []).length ≤ 32512
    split
    · exact (hitems 1 t).2.2.1
    · simp
  obtain ⟨hparse, hlutlen, hstream⟩ := hfe_layout true fm ds.length trk (by omega) (by omega) hsm
  rw [htl, ← himg] at hparse hlutlen hstream
  refine hfe_core img.toArray true fm spt ntr ds (hfeLut img.toArray (hfeHdr true fm ds.length ntr)) hsides hn hspt hd
    hparse rfl hlutlen ?_
  intro k hk t ht
  obtain ⟨d, rs, tr, rc, hd1, hrs1, hdk, htr, hrc, hdt, hcells⟩ :=
    cells_get fm ds rss hr ntr (fun d h => (hd d h).1) (fun rs h => (hrs rs h).1) k t hk ht
  have hsk : (if k = 0 then (trk.getD t ([], [])).1 else (trk.getD t ([], [])).2) = v3Bytes (items k t) := by
    rw [hget t ht]
    have : k = 0 ∨ k = 1 := by omega
    rcases this with rfl | rfl
    · simp
    · have : ds.length = 2 := by omega
      simp [this]
  have hst := hstream t ht k (by omega)
  rw [hsk] at hst
  obtain ⟨hok, hlen8, _, pad, hpad⟩ := hitems k t
  obtain ⟨st, j, hcopy, hop⟩ := copy_v3_all (items k t) hok
    (256 * nblkOf (trk.getD t ([], [])) - (v3Bytes (items k t)).length) pad _ hlen8 hpad
  rw [hcopy] at hst
  simp only [hop, List.reverse_reverse] at hst
  have hst' : hfeTrackStream img.toArray (hfeHdr true fm ds.length ntr)
      (hfeLut img.toArray (hfeHdr true fm ds.length ntr)) k t =
      some (fm, packLsb (hfeSideBits fm (trackCells fm t k tr rc)) ++ List.replicate j 0, false) := by
    rw [hst, ← hcells]; rfl
  have hside := (hd d hd1).2
  have := hfeTrack_of_stream img.toArray _ _ fm hfmRT hmfmRT spt t k tr rc _ (by omega) (by omega) hspt.2
    (hside tr htr) ((hrs rs hrs1).2 rc hrc) hst'
  rw [hdk, hdt]
  exact this

/-! ### HxC MFM images -/

abbrev Blob := Nat × Nat × Bytes

def entBytes : Nat → List Blob → Bytes
  | _, [] => []
  | c, e :: r => leBytes2 e.1 ++ [e.2.1] ++ leBytes4 e.2.2.length ++ leBytes4 c ++ entBytes (c + e.2.2.length) r

def entList : Nat → List Blob → List HxcEntry
  | _, [] => []
  | c, e :: r => { track := e.1, side := e.2.1, size := e.2.2.length, offset := c } :: entList (c + e.2.2.length) r

theorem ents_foldl (blobs : List Blob) (acc : Bytes) (c : Nat) :
    (blobs.foldl (fun (acc : Bytes × Nat) (e : Nat × Nat × Bytes) =>
      (acc.1 ++ leBytes2 e.1 ++ [e.2.1] ++ leBytes4 e.2.2.length ++ leBytes4 acc.2, acc.2 + e.2.2.length)) (acc, c)).1 =
      acc ++ entBytes c blobs := by
  induction blobs generalizing acc c with
  | nil => simp [entBytes]
  | cons e r ih =>
    rw [List.foldl_cons, ih]
    simp [entBytes]

theorem entBytes_length (c : Nat) (blobs : List Blob) : (entBytes c blobs).length = 11 * blobs.length := by
  induction blobs generalizing c with
  | nil => simp [entBytes]
  | cons e r ih => simp [entBytes, ih, leBytes2, leBytes4]; omega

theorem entList_keys (c : Nat) (blobs : List Blob) :
    (entList c blobs).map (fun e => (e.track, e.side)) = blobs.map (fun b => (b.1, b.2.1)) := by
  induction blobs generalizing c with
  | nil => simp [entList]
  | cons e r ih => simp [entList, ih]

theorem entList_offset_le (c M : Nat) (blobs : List Blob) (h : ∀ b ∈ blobs, b.2.2.length ≤ M) :
    ∀ e ∈ entList c blobs, e.offset ≤ c + M * blobs.length := by
  induction blobs generalizing c with
  | nil => simp [entList]
  | cons b r ih =>
    intro e he
    simp only [entList, List.mem_cons] at he
    have hb := h b List.mem_cons_self
    rcases he with rfl | he
    · simp
    · have := ih (c + b.2.2.length) (fun x hx => h x (List.mem_cons_of_mem _ hx)) e he
      simp only [List.length_cons]
      rw [Nat.mul_succ]; omega

/-- lexicographic order on (track, side) -/
def bkLess (a b : Blob) : Prop := a.1 < b.1 ∨ (a.1 = b.1 ∧ a.2.1 < b.2.1)

theorem parse_entry (t sd len off : Nat) (ht : t < 65536) (hlen : len < 4294967296) (hoff : off < 4294967296) :
    let raw := leBytes2 t ++ [sd] ++ leBytes4 len ++ leBytes4 off
    raw.length = 11 ∧ leWord raw 0 = t ∧ raw.getD 2 0 = sd ∧ leQuad raw 3 = len ∧ leQuad raw 7 = off := by
  simp [leBytes2, leBytes4, leWord, leQuad]
  omega

theorem hxcEntries_ok (tracks sides : Nat) (blobs : List Blob) (pre post : Bytes) (c fuel : Nat) (acc : List HxcEntry)
    (hb : ∀ e ∈ blobs, e.1 < 65536 ∧ e.2.2.length < 4294967296)
    (hoff : ∀ e ∈ entList c blobs, e.offset < 4294967296)
    (hs : blobs.Pairwise bkLess)
    (hlast : ∃ e, blobs.getLast? = some e ∧ e.1 = (tracks + 4294967295) % 4294967296 ∧
      e.2.1 = (sides + 4294967295) % 4294967296)
    (hfuel : blobs.length < fuel) :
    hxcEntries (pre ++ entBytes c blobs ++ post).toArray tracks sides fuel pre.length acc =
      some (acc.reverse ++ entList c blobs) := by
  induction blobs generalizing pre c fuel acc with
  | nil => simp at hlast
  | cons e r ih =>
    cases fuel with
    | zero => simp at hfuel
    | succ fuel =>
      obtain ⟨h1, h2⟩ := hb e List.mem_cons_self
      have h3 := hoff _ (by simp [entList] : ({ track := e.1, side := e.2.1, size := e.2.2.length, offset := c } : HxcEntry) ∈ entList c (e :: r))
      obtain ⟨p1, p2, p3, p4, p5⟩ := parse_entry e.1 e.2.1 e.2.2.length c h1 h2 h3
      have hread : fread (pre ++ entBytes c (e :: r) ++ post).toArray pre.length 11 =
          leBytes2 e.1 ++ [e.2.1] ++ leBytes4 e.2.2.length ++ leBytes4 c := by
        rw [fread_toArray]
        have : pre ++ entBytes c (e :: r) ++ post = pre ++ (leBytes2 e.1 ++ [e.2.1] ++ leBytes4 e.2.2.length ++ leBytes4 c) ++
            (entBytes (c + e.2.2.length) r ++ post) := by simp [entBytes]
        rw [this]
        exact drop_take_mid _ _ _ _ _ rfl p1.symm
      rw [hxcEntries]
      simp only [hread, p1, p2, p3, p4, p5, Nat.lt_irrefl, ↓reduceIte]
      cases r with
      | nil =>
        obtain ⟨e', he', hl1, hl2⟩ := hlast
        simp only [List.getLast?_singleton, Option.some.injEq] at he'
        subst he'
        simp [hl1, hl2, entList]
      | cons e2 r2 =>
        have hne : ¬ (e.1 = (tracks + 4294967295) % 4294967296 ∧ e.2.1 = (sides + 4294967295) % 4294967296) := by
          obtain ⟨e', he', hl1, hl2⟩ := hlast
          have hmem : e' ∈ e2 :: r2 := by
            rw [List.getLast?_cons_cons] at he'
            exact List.mem_of_getLast? he'
          have := (List.pairwise_cons.mp hs).1 e' hmem
          unfold bkLess at this
          omega
        have hcond : ((e.1 == (tracks + 4294967295) % 4294967296) && (e.2.1 == (sides + 4294967295) % 4294967296)) = false := by
          simp only [Bool.and_eq_false_iff, beq_eq_false_iff_ne]
          by_cases h : e.1 = (tracks + 4294967295) % 4294967296
          · right; intro h'; exact hne ⟨h, h'⟩
          · left; exact h
        simp only [hcond, Bool.false_eq_true, ↓reduceIte]
        have := ih (pre ++ (leBytes2 e.1 ++ [e.2.1] ++ leBytes4 e.2.2.length ++ leBytes4 c)) (c + e.2.2.length) fuel
          ({ track := e.1, side := e.2.1, size := e.2.2.length, offset := c } :: acc)
          (fun x hx => hb x (List.mem_cons_of_mem _ hx))
          (fun x hx => hoff x (by rw [entList]; exact List.mem_cons_of_mem _ hx))
          (List.pairwise_cons.mp hs).2
          (by obtain ⟨e', he', hl⟩ := hlast; exact ⟨e', by rwa [List.getLast?_cons_cons] at he', hl⟩)
          (by simp at hfuel ⊢; omega)
        have e1 : pre ++ entBytes c (e :: e2 :: r2) ++ post =
            pre ++ (leBytes2 e.1 ++ [e.2.1] ++ leBytes4 e.2.2.length ++ leBytes4 c) ++ entBytes (c + e.2.2.length) (e2 :: r2) ++ post := by
          simp [entBytes]
        have e2' : pre.length + 11 = (pre ++ (leBytes2 e.1 ++ [e.2.1] ++ leBytes4 e.2.2.length ++ leBytes4 c)).length := by
          rw [List.length_append, p1]
        rw [e1, e2', this]
        simp [entList]


theorem dedup_foldl (es acc : List HxcEntry)
    (h : (acc ++ es).Pairwise (fun a b => ¬ (a.track = b.track ∧ a.side = b.side))) :
    es.foldl (fun acc e => if acc.any (fun x => x.track == e.track && x.side == e.side) then acc else acc ++ [e]) acc =
      acc ++ es := by
  induction es generalizing acc with
  | nil => simp
  | cons e r ih =>
    have hany : acc.any (fun x => x.track == e.track && x.side == e.side) = false := by
      rw [List.any_eq_false]
      intro x hx
      have := (List.pairwise_append.mp h).2.2 x hx e List.mem_cons_self
      simpa using this
    rw [List.foldl_cons, hany]
    simp only [Bool.false_eq_true, ↓reduceIte]
    rw [ih (acc ++ [e]) (by simpa using h)]
    simp

theorem hxcMap_sorted (c : Nat) (blobs : List Blob) (hs : blobs.Pairwise bkLess) :
    hxcMap (entList c blobs) = entList c blobs := by
  have hp : (entList c blobs).Pairwise (fun a b => hxcKeyLess a b = true) := by
    have h1 : (blobs.map (fun b => (b.1, b.2.1))).Pairwise
        (fun a b : Nat × Nat => a.1 < b.1 ∨ (a.1 = b.1 ∧ a.2 < b.2)) := by
      rw [List.pairwise_map]; exact hs
    rw [← entList_keys c blobs, List.pairwise_map] at h1
    refine h1.imp ?_
    intro a b hab
    simp only [hxcKeyLess, Bool.or_eq_true, decide_eq_true_eq, Bool.and_eq_true, beq_iff_eq]
    exact hab
  unfold hxcMap
  rw [dedup_foldl _ [] (by
    simp only [List.nil_append]
    refine hp.imp ?_
    intro a b hab
    simp only [hxcKeyLess, Bool.or_eq_true, decide_eq_true_eq, Bool.and_eq_true, beq_iff_eq] at hab
    omega)]
  simp only [List.nil_append]
  exact sortBy_of_sorted _ _ hp

theorem hxcSide_ok (side : Nat) (blobs : List Blob) (pre post : Bytes) (c : Nat) (acc : List FSector)
    (hc : c = pre.length)
    (hS : ∀ b ∈ blobs, b.2.1 = side → b.2.2.length ≤ 1024 * 1024 ∧
      checkTrack (sortSectors (decodeMfm (hxcBitStream b.2.2))) b.1 b.2.1 = true) :
    hxcSide (pre ++ (blobs.map (·.2.2)).flatten ++ post).toArray side (entList c blobs) acc =
      some (acc ++ ((blobs.filter (fun b => b.2.1 == side)).map
        (fun b => sortSectors (decodeMfm (hxcBitStream b.2.2)))).flatten) := by
  induction blobs generalizing pre c acc with
  | nil => simp [entList, hxcSide]
  | cons b r ih =>
    have hrec := fun acc' => ih (pre ++ b.2.2) (c + b.2.2.length) acc' (by simp [hc])
      (fun x hx => hS x (List.mem_cons_of_mem _ hx))
    have e1 : pre ++ (List.map (·.2.2) (b :: r)).flatten ++ post =
        pre ++ b.2.2 ++ (List.map (·.2.2) r).flatten ++ post := by simp
    rw [entList, hxcSide]
    by_cases hside : b.2.1 = side
    · obtain ⟨h1, h2⟩ := hS b List.mem_cons_self hside
      have hread : fread (pre ++ (List.map (·.2.2) (b :: r)).flatten ++ post).toArray c b.2.2.length = b.2.2 := by
        rw [fread_toArray]
        have : pre ++ (List.map (·.2.2) (b :: r)).flatten ++ post =
            pre ++ b.2.2 ++ ((List.map (·.2.2) r).flatten ++ post) := by simp
        rw [this]
        exact drop_take_mid _ _ _ _ _ hc rfl
      have hsz : ¬ b.2.2.length > 1024 * 1024 := by omega
      simp only [hside, bne_self_eq_false, Bool.false_eq_true, ↓reduceIte, hsz, hread]
      rw [hside] at h2
      simp only [h2, Bool.not_true, Bool.false_eq_true, ↓reduceIte]
      rw [e1, hrec]
      simp [hside]
    · have hne : (b.2.1 != side) = true := by simp [hside]
      simp only [hne, ↓reduceIte]
      rw [e1, hrec]
      simp [hside]


theorem nodup_eraseDups (l : List Nat) : l.eraseDups.Nodup := by
  induction hn : l.length using Nat.strongRecOn generalizing l with
  | _ n ih =>
    cases l with
    | nil => simp
    | cons a as =>
      rw [List.eraseDups_cons, List.nodup_cons]
      refine ⟨?_, ih _ ?_ _ rfl⟩
      · simp
      · rw [← hn]
        exact Nat.lt_succ_of_le (List.length_filter_le _ _)

theorem eraseDups_length_range (l : List Nat) (n : Nat) (h : ∀ x, x ∈ l ↔ x < n) : l.eraseDups.length = n := by
  have hp : l.eraseDups.Perm (List.range n) := by
    rw [List.perm_ext_iff_of_nodup (nodup_eraseDups l) List.nodup_range]
    intro x
    simp [h]
  simpa using hp.length_eq

theorem hxcGeometry_eq (secs : List FSector) (k ntr spt : Nat) (D : Nat → Nat → Bytes) (hn : 0 < ntr) (hspt : 0 < spt)
    (hA : secs.map seen = sideSeen k ntr spt D) :
    hxcGeometry secs = { cylinders := ntr, heads := 1, sectors := spt, encoding := some Encoding.MFM } := by
  have h1 : secs.map (·.cyl) = (secs.map seen).map (·.1) := by simp [seen]
  have h2 : secs.map (·.record) = (secs.map seen).map (·.2.2.1) := by simp [seen]
  unfold hxcGeometry
  rw [h1, h2, hA]
  congr 1
  · apply eraseDups_length_range
    intro x
    simp only [sideSeen, List.mem_map, List.mem_flatMap, List.mem_range]
    constructor
    · rintro ⟨_, ⟨t, ht, r, _, rfl⟩, rfl⟩; exact ht
    · intro hx; exact ⟨_, ⟨x, hx, 0, hspt, rfl⟩, rfl⟩
  · apply eraseDups_length_range
    intro x
    simp only [sideSeen, List.mem_map, List.mem_flatMap, List.mem_range]
    constructor
    · rintro ⟨_, ⟨t, _, r, hr, rfl⟩, rfl⟩; exact hr
    · intro hx; exact ⟨_, ⟨0, hn, x, hx, rfl⟩, rfl⟩

theorem hxcReadBlock_eq (s : FluxSide) (k ntr spt : Nat) (d : SideData)
    (hk : k < 256) (hn : ntr ≤ 256) (hspt : 0 < spt) (hd : d.length = ntr ∧ SideOK spt d)
    (hgeom : s.geom.sectors = spt) (hside : s.side = k)
    (hA : s.sectors.map seen = sideSeen k ntr spt (fun t r => (d.getD t []).getD r [])) (lba : Nat) :
    hxcReadBlock s lba = dumpRead spt d lba := by
  rw [dumpRead_eq spt d ntr hspt hd, hxcReadBlock, hgeom, hside]
  have h0 : (spt == 0) = false := by simp; omega
  simp only [h0, Bool.false_eq_true, ↓reduceIte]
  split
  · rename_i hgt
    have : ¬ lba / spt < ntr := by omega
    simp [this]
  · rw [Nat.mod_eq_of_lt hk, findSector_side _ k ntr spt _ hA _ _ (Nat.mod_lt _ hspt)]

/-! the header -/

def hxcHdr (ntr sides : Nat) : Bytes :=
  strBytes "HXCMFM" ++ [0] ++ leBytes2 ntr ++ [sides] ++ leBytes2 300 ++ leBytes2 250 ++ [4] ++ leBytes4 0x13

theorem sigHxc : strBytes "HXCMFM" = [72, 88, 67, 77, 70, 77] := by decide

theorem hxcHdr_eq (ntr sides : Nat) :
    hxcHdr ntr sides = [72, 88, 67, 77, 70, 77, 0, ntr % 256, ntr / 256 % 256, sides, 44, 1, 250, 0, 4, 19, 0, 0, 0] := by
  simp [hxcHdr, sigHxc, leBytes2, leBytes4]

theorem hxc_parse (ntr sides : Nat) (rest : Bytes) (hn : ntr < 65536) (hs : sides ≤ 2) :
    hxcParseHeader (hxcHdr ntr sides ++ rest).toArray = some (ntr, sides, 19) := by
  have htake : ((hxcHdr ntr sides ++ rest).drop 0).take 19 = hxcHdr ntr sides := by
    rw [List.drop_zero, List.take_append_of_le_length (by rw [hxcHdr_eq]; simp),
      List.take_of_length_le (by rw [hxcHdr_eq]; simp)]
  unfold hxcParseHeader
  simp only [fread_toArray, htake]
  rw [hxcHdr_eq]
  have hs' : ¬ sides > 2 := by omega
  simp [sigHxc, leWord, leQuad, hs']
  omega

theorem hxcImage_eq (sides : Nat) (tracks : List (List (List Bool))) :
    hxcImage sides tracks =
      hxcHdr tracks.length sides ++
      entBytes (0x13 + 11 * ((tracks.zipIdx).flatMap fun (per, t) => (per.zipIdx).map fun (cells, sd) => (t, sd, packMsb cells)).length)
        ((tracks.zipIdx).flatMap fun (per, t) => (per.zipIdx).map fun (cells, sd) => (t, sd, packMsb cells)) ++
      ((((tracks.zipIdx).flatMap fun (per, t) => (per.zipIdx).map fun (cells, sd) => (t, sd, packMsb cells)) : List Blob).map (·.2.2)).flatten := by
  simp only [hxcImage, hxcHdr, ents_foldl, List.nil_append]


/-! the blobs of an image -/

def blobsOf (ntr ns : Nat) (B : Nat → Nat → Bytes) : List Blob :=
  (List.range ntr).flatMap fun t => (List.range ns).map fun k => (t, k, B k t)

theorem zipIdx_map_range {α} (n : Nat) (f : Nat → α) :
    ((List.range n).map f).zipIdx = (List.range n).map (fun i => (f i, i)) := by
  apply List.ext_getElem <;> simp

theorem blobs_eq (ntr ns : Nat) (C : Nat → Nat → List Bool) :
    ((((List.range ntr).map fun t => (List.range ns).map fun k => C k t).zipIdx).flatMap
      fun (per, t) => (per.zipIdx).map fun (cells, sd) => ((t, sd, packMsb cells) : Blob)) =
    blobsOf ntr ns (fun k t => packMsb (C k t)) := by
  rw [zipIdx_map_range, List.flatMap_map]
  simp only [blobsOf, zipIdx_map_range, List.map_map]
  rfl

theorem mem_blobsOf (ntr ns : Nat) (B : Nat → Nat → Bytes) (b : Blob) :
    b ∈ blobsOf ntr ns B ↔ ∃ t, t < ntr ∧ ∃ k, k < ns ∧ b = (t, k, B k t) := by
  simp only [blobsOf, List.mem_flatMap, List.mem_map, List.mem_range]
  constructor
  · rintro ⟨t, ht, k, hk, rfl⟩; exact ⟨t, ht, k, hk, rfl⟩
  · rintro ⟨t, ht, k, hk, rfl⟩; exact ⟨t, ht, k, hk, rfl⟩

theorem blobsOf_length (ntr ns : Nat) (B : Nat → Nat → Bytes) : (blobsOf ntr ns B).length = ntr * ns := by
  induction ntr with
  | zero => simp [blobsOf]
  | succ n ih =>
    simp only [blobsOf] at ih ⊢
    rw [List.range_succ, List.flatMap_append, List.length_append, ih]
    simp [Nat.succ_mul]

theorem blobsOf_sorted (ntr ns : Nat) (B : Nat → Nat → Bytes) : (blobsOf ntr ns B).Pairwise bkLess := by
  induction ntr with
  | zero => simp [blobsOf]
  | succ n ih =>
    have e : blobsOf (n + 1) ns B = blobsOf n ns B ++ (List.range ns).map (fun k => (n, k, B k n)) := by
      simp [blobsOf, List.range_succ, List.flatMap_append]
    rw [e, List.pairwise_append]
    refine ⟨ih, ?_, ?_⟩
    · rw [List.pairwise_map]
      exact List.pairwise_lt_range.imp (fun h => Or.inr ⟨rfl, h⟩)
    · intro a ha b hb
      obtain ⟨t, ht, k, _, rfl⟩ := (mem_blobsOf n ns B a).mp ha
      obtain ⟨k', _, rfl⟩ := List.mem_map.mp hb
      exact Or.inl ht

theorem blobsOf_last (ntr ns : Nat) (B : Nat → Nat → Bytes) (hn : 0 < ntr) (hs : 0 < ns) :
    (blobsOf ntr ns B).getLast? = some (ntr - 1, ns - 1, B (ns - 1) (ntr - 1)) := by
  obtain ⟨n, rfl⟩ : ∃ n, ntr = n + 1 := ⟨ntr - 1, by omega⟩
  obtain ⟨m, rfl⟩ : ∃ m, ns = m + 1 := ⟨ns - 1, by omega⟩
  simp [blobsOf, List.range_succ, List.flatMap_append]

theorem blobsOf_filter (ntr ns : Nat) (B : Nat → Nat → Bytes) (k : Nat) (hk : k < ns) :
    (blobsOf ntr ns B).filter (fun b => b.2.1 == k) = (List.range ntr).map (fun t => (t, k, B k t)) := by
  have hinner : ∀ t, ((List.range ns).map fun k' => ((t, k', B k' t) : Blob)).filter (fun b => b.2.1 == k) = [(t, k, B k t)] := by
    intro t
    rw [List.filter_map]
    have : (List.range ns).filter ((fun b : Blob => b.2.1 == k) ∘ fun k' => (t, k', B k' t)) = [k] := by
      have hf : ((fun b : Blob => b.2.1 == k) ∘ fun k' => (t, k', B k' t)) = fun k' => k' == k := rfl
      rw [hf]
      clear hf
      induction ns with
      | zero => omega
      | succ m ih =>
        rw [List.range_succ, List.filter_append]
        by_cases hkm : k = m
        · subst hkm
          have : (List.range k).filter (fun k' => k' == k) = [] := by
            rw [List.filter_eq_nil_iff]; intro a ha; have := List.mem_range.mp ha; simp; omega
          simp [this]
        · rw [ih (by omega)]
          have : (m == k) = false := by simp; omega
          simp [this]
    rw [this]; rfl
  induction ntr with
  | zero => simp [blobsOf]
  | succ n ih =>
    simp only [blobsOf] at ih ⊢
    rw [List.range_succ, List.flatMap_append, List.filter_append, ih, List.map_append]
    simp [hinner]

theorem packLsb_length (l : List Bool) : (packLsb l).length = (l.length + 7) / 8 := by
  induction l using packLsb.induct with
  | case1 b0 b1 b2 b3 b4 b5 b6 b7 rest ih => simp only [packLsb, List.length_cons, ih]; omega
  | case2 => simp [packLsb]
  | case3 l h1 h2 =>
    match l, h1, h2 with
    | [], _, h2 => exact absurd rfl h2
    | [a], _, _ | [a,b], _, _ | [a,b,c], _, _ | [a,b,c,d], _, _ | [a,b,c,d,e], _, _ | [a,b,c,d,e,f], _, _
    | [a,b,c,d,e,f,g], _, _ => simp [packLsb]
    | a::b::c::d::e::f::g::h::r, h1, _ => exact absurd rfl (h1 a b c d e f g h r)

theorem packMsb_length (l : List Bool) : (packMsb l).length = (l.length + 7) / 8 := by
  rw [← packLsb_length, ← packMsb_rev, List.length_map]


theorem track_decode_mfm (hmfmRT : MfmRT) (spt t k : Nat) (tr : List Bytes)
    (rc : Recording) (ht : t < 256) (hk : k < 256) (hspt : spt ≤ 256)
    (htr : tr.length = spt ∧ ∀ s ∈ tr, IsSector s) (hrc : RecordingOK false spt rc) :
    (sortSectors (decodeMfm (hxcBitStream (packMsb (trackCells false t k tr rc))))).map seen =
      (List.range spt).map (fun r => (t, k, r, tr.getD r [])) := by
  have hok := track_secs_ok spt tr rc.order hspt htr hrc.2
  have h := hmfmRT rc.lay t k _ 0 (by simpa using hrc.1) ht hk hok
  simp only [List.replicate_zero, List.append_nil] at h
  rw [hxc_bits]
  refine sort_track _ rc.order spt t k (fun r => tr.getD r []) ?_ hrc.2
  simp only [trackCells, Bool.false_eq_true, ↓reduceIte]
  rw [h, List.map_map]; rfl

theorem hxc_image (spt : Nat) (ds : List SideData) (rss : List (List Recording))
    (hsides : ds.length = 1 ∨ ds.length = 2) (hr : rss.length = ds.length)
    (ntr : Nat) (hn : 0 < ntr ∧ ntr ≤ 255) (hspt : 0 < spt ∧ spt ≤ 256)
    (hd : ∀ d ∈ ds, d.length = ntr ∧ SideOK spt d)
    (hrs : ∀ rs ∈ rss, rs.length = ntr ∧ ∀ rc ∈ rs, RecordingOK false spt rc)
    (hsmall : ∀ k t, ((((ds.zip rss).zipIdx.map fun (p, k) => sideCells false k p.1 p.2).getD k []).getD t []).length ≤ 8 * 1000000)
    (hmfmRT : MfmRT) :
    let cells := (ds.zip rss).zipIdx.map fun (p, k) => sideCells false k p.1 p.2
    let img := hxcImage ds.length ((List.range ntr).map fun t => (List.range ds.length).map fun k => (cells.getD k []).getD t [])
    ∃ sides, loadHxc img.toArray = .ok sides false ∧ sides.length = ds.length ∧
      ∀ k (_hk : k < ds.length), ∃ s, sides[k]? = some s ∧ s.side = k ∧
        s.geom = { cylinders := ntr, heads := 1, sectors := spt, encoding := some Encoding.MFM } ∧
        ∀ lba, hxcReadBlock s lba = dumpRead spt (ds.getD k []) lba := by
  intro cells img
  let B : Nat → Nat → Bytes := fun k t => packMsb ((cells.getD k []).getD t [])
  let blobs := blobsOf ntr ds.length B
  let c := 19 + 11 * (ntr * ds.length)
  have himg : img = hxcHdr ntr ds.length ++ entBytes c blobs ++ (blobs.map (·.2.2)).flatten := by
    show hxcImage _ _ = _
    rw [hxcImage_eq, blobs_eq ntr ds.length (fun k t => (cells.getD k []).getD t [])]
    simp only [List.length_map, List.length_range, blobsOf_length]
    rfl
  have hns : 0 < ds.length ∧ ds.length ≤ 2 := by omega
  have hN : ntr * ds.length ≤ 510 := by
    rcases hsides with h | h <;> rw [h] <;> omega
  -- facts about the blobs
  have hBlen : ∀ k t, (B k t).length ≤ 1000000 := by
    intro k t
    have h : ((cells.getD k []).getD t []).length ≤ 8 * 1000000 := hsmall k t
    simp only [B, packMsb_length]
    omega
  have hblob : ∀ b ∈ blobs, b.1 < 65536 ∧ b.2.1 < ds.length ∧ b.2.2.length ≤ 1000000 := by
    intro b hb
    obtain ⟨t, ht, k, hk, rfl⟩ := (mem_blobsOf _ _ _ b).mp hb
    exact ⟨by simp; omega, hk, hBlen k t⟩
  have hlen_blobs : blobs.length = ntr * ds.length := blobsOf_length _ _ _
  have hoff : ∀ e ∈ entList c blobs, e.offset < 4294967296 := by
    intro e he
    have := entList_offset_le c 1000000 blobs (fun b hb => (hblob b hb).2.2) e he
    rw [hlen_blobs] at this
    have : 1000000 * (ntr * ds.length) ≤ 1000000 * 510 := Nat.mul_le_mul_left _ hN
    omega
  have hhdrlen : (hxcHdr ntr ds.length).length = 19 := by rw [hxcHdr_eq]; simp
  -- header and track list
  have hparse : hxcParseHeader img.toArray = some (ntr, ds.length, 19) := by
    rw [himg, List.append_assoc]
    exact hxc_parse ntr ds.length _ (by omega) hns.2
  have hents : hxcEntries img.toArray ntr ds.length (img.toArray.size / 11 + 2) 19 [] = some (entList c blobs) := by
    have := hxcEntries_ok ntr ds.length blobs (hxcHdr ntr ds.length) ((blobs.map (·.2.2)).flatten) c
      (img.toArray.size / 11 + 2) []
      (fun b hb => ⟨(hblob b hb).1, by have := (hblob b hb).2.2; omega⟩) hoff (blobsOf_sorted _ _ _)
      ⟨_, blobsOf_last ntr ds.length B hn.1 hns.1, by simp; omega, by simp; omega⟩
      (by
        rw [hlen_blobs, himg]
        simp only [List.size_toArray, List.length_append, hhdrlen, entBytes_length, hlen_blobs]
        omega)
    rw [hhdrlen, ← himg] at this
    simpa using this
  have hlist : hxcTrackList img.toArray = some (entList c blobs) := by
    simp only [hxcTrackList, hparse, hents, Option.map_some, hxcMap_sorted c blobs (blobsOf_sorted _ _ _)]
  -- the sectors of a side
  have hdk : ∀ k, k < ds.length → (ds.getD k []).length = ntr ∧ SideOK spt (ds.getD k []) :=
    fun k hk => hd _ (getD_mem _ _ _ hk)
  have htrack : ∀ k, k < ds.length → ∀ t, t < ntr →
      (sortSectors (decodeMfm (hxcBitStream (B k t)))).map seen =
        (List.range spt).map (fun r => (t, k, r, ((ds.getD k []).getD t []).getD r [])) ∧
      ((ds.getD k []).getD t []).length = spt ∧ ∀ s ∈ (ds.getD k []).getD t [], IsSector s := by
    intro k hk t ht
    obtain ⟨d, rs, tr, rc, hd1, hrs1, hdk', htr, hrc, hdt, hcells⟩ :=
      cells_get false ds rss hr ntr (fun d h => (hd d h).1) (fun rs h => (hrs rs h).1) k t hk ht
    have hside := (hd d hd1).2 tr htr
    have := track_decode_mfm hmfmRT spt t k tr rc (by omega) (by omega) hspt.2 hside ((hrs rs hrs1).2 rc hrc)
    rw [hdk', hdt]
    refine ⟨?_, hside⟩
    rw [← this]
    show List.map seen (sortSectors (decodeMfm (hxcBitStream (packMsb ((cells.getD k []).getD t []))))) = _
    rw [hcells]
  let Sf : Nat → Nat → List FSector := fun k t => sortSectors (decodeMfm (hxcBitStream (B k t)))
  have hsideres : ∀ k, k < ds.length →
      hxcSide img.toArray k (entList c blobs) [] = some (((List.range ntr).map (Sf k)).flatten) := by
    intro k hk
    have := hxcSide_ok k blobs (hxcHdr ntr ds.length ++ entBytes c blobs) [] c []
      (by simp only [List.length_append, hhdrlen, entBytes_length, hlen_blobs, c])
      (by
        intro b hb hbk
        obtain ⟨t, ht, k', hk', rfl⟩ := (mem_blobsOf _ _ _ b).mp hb
        refine ⟨by have := hBlen k' t; show (B k' t).length ≤ _; omega, ?_⟩
        obtain ⟨h1, h2⟩ := htrack k' hk' t ht
        exact (track_ok _ spt t k' _ h2 h1).1)
    rw [List.append_nil, ← himg] at this
    rw [this, blobsOf_filter ntr ds.length B k hk]
    simp [Sf, List.map_map, Function.comp_def]
  have hseen : ∀ k, k < ds.length →
      (((List.range ntr).map (Sf k)).flatten).map seen =
        sideSeen k ntr spt (fun t r => ((ds.getD k []).getD t []).getD r []) :=
    fun k hk => map_seen_side (Sf k) k ntr spt _ (fun t ht => (htrack k hk t ht).1)
  have hside : ∀ k, k < ds.length → ∀ s : FluxSide, s.side = k → s.sectors = ((List.range ntr).map (Sf k)).flatten →
      s.geom = hxcGeometry s.sectors →
      s.geom = { cylinders := ntr, heads := 1, sectors := spt, encoding := some Encoding.MFM } ∧
      ∀ lba, hxcReadBlock s lba = dumpRead spt (ds.getD k []) lba := by
    intro k hk s hs1 hs2 hs3
    have hg : s.geom = { cylinders := ntr, heads := 1, sectors := spt, encoding := some Encoding.MFM } := by
      rw [hs3, hs2]
      exact hxcGeometry_eq _ k ntr spt _ hn.1 hspt.1 (hseen k hk)
    refine ⟨hg, fun lba => ?_⟩
    refine hxcReadBlock_eq s k ntr spt (ds.getD k []) (by omega) (by omega) hspt.1 (hdk k hk) (by rw [hg]) hs1 ?_ lba
    rw [hs2]; exact hseen k hk
  let mk : Nat → FluxSide := fun k =>
    { geom := hxcGeometry (((List.range ntr).map (Sf k)).flatten), side := k,
      sectors := ((List.range ntr).map (Sf k)).flatten }
  rcases hsides with h1 | h2
  · refine ⟨[mk 0], ?_, by simp [h1], ?_⟩
    · simp only [loadHxc, hparse, hlist, h1, hxcSides, hsideres 0 (by omega)]
      simp [mk]
    · intro k hk
      have : k = 0 := by omega
      subst this
      obtain ⟨g, rb⟩ := hside 0 (by omega) (mk 0) rfl rfl rfl
      exact ⟨_, rfl, rfl, g, rb⟩
  · refine ⟨[mk 0, mk 1], ?_, by simp [h2], ?_⟩
    · simp only [loadHxc, hparse, hlist, h2, hxcSides, hsideres 0 (by omega), hsideres 1 (by omega)]
      simp [mk]
    · intro k hk
      have : k = 0 ∨ k = 1 := by omega
      rcases this with rfl | rfl
      · obtain ⟨g, rb⟩ := hside 0 (by omega) (mk 0) rfl rfl rfl
        exact ⟨_, rfl, rfl, g, rb⟩
      · obtain ⟨g, rb⟩ := hside 1 (by omega) (mk 1) rfl rfl rfl
        exact ⟨_, rfl, rfl, g, rb⟩

end Beeb.ContainerL
