/-
Lemmas for C12: which host files the commands create.
-/
import Beeb.Model.Main

namespace Beeb.FsL
open Beeb Beeb.Gen

/-- the files a command run creates (same definition as `Props.C12.created`) -/
def filesOf : CmdRes → List (Bytes × Bytes)
  | .done _ o => o.files
  | .threw o => o.files
  | .abort o _ => o.files

/-- same definition as `Props.C12.Inside` -/
def InsideDir (dest : Bytes) (path : Bytes) : Prop :=
  ∃ leaf, path = dest ++ leaf ∧ (47 : Nat) ∉ leaf

@[simp] theorem filesOf_done (ok : Bool) (o : Out) : filesOf (.done ok o) = o.files := rfl
@[simp] theorem filesOf_threw (o : Out) : filesOf (.threw o) = o.files := rfl
@[simp] theorem filesOf_abort (o : Out) (s : String) : filesOf (.abort o s) = o.files := rfl
@[simp] theorem filesOf_failErr : filesOf failErr = [] := rfl

/-! ### leaf names contain no '/' -/

theorem extractName_no47 (d : Nat) (e : Entry) : (47 : Nat) ∉ extractName d e := by
  unfold extractName
  intro h
  rw [List.mem_map] at h
  obtain ⟨c, _, hc⟩ := h
  split at hc <;> simp_all

theorem inf_no47 : (47 : Nat) ∉ strBytes ".inf" := by decide

theorem hexDigit_ne47 (d : Nat) : hexDigit d ≠ 47 := by
  unfold hexDigit; split <;> omega

theorem hexU_no47 (v : Nat) : (47 : Nat) ∉ hexU v := by
  induction v using Nat.strongRecOn with
  | _ v ih =>
    rw [hexU]
    split
    · intro h
      rw [List.mem_singleton] at h
      exact hexDigit_ne47 v h.symm
    · intro h
      rw [List.mem_append, List.mem_singleton] at h
      rcases h with h | h
      · exact ih (v / 16) (by omega) h
      · exact hexDigit_ne47 _ h.symm

theorem padLeft_no47 (w : Nat) (s : Bytes) (hs : (47 : Nat) ∉ s) : (47 : Nat) ∉ padLeft w 48 s := by
  unfold padLeft
  intro h
  rw [List.mem_append] at h
  rcases h with h | h
  · have := List.eq_of_mem_replicate h
    omega
  · exact hs h

theorem unusedName_no47 (b : Nat) :
    (47 : Nat) ∉ strBytes "unused_" ++ padLeft 3 48 (hexU b) ++ strBytes ".bin" := by
  intro h
  rw [List.mem_append, List.mem_append] at h
  rcases h with (h | h) | h
  · revert h; decide
  · exact padLeft_no47 _ _ (hexU_no47 b) h
  · revert h; decide

/-! ### extract-files -/

theorem extractLoop_confined (env : Env) (dest : Bytes) (ctxDir : Nat) (data : Media) (l : List Entry)
    (files : List (Bytes × Bytes)) (hf : ∀ p ∈ files, InsideDir dest p.1) :
    ∀ p ∈ filesOf (extractLoop env dest ctxDir data l files), InsideDir dest p.1 := by
  induction l generalizing files with
  | nil => simpa [extractLoop] using hf
  | cons e rest ih =>
    simp only [extractLoop]
    have h1 : InsideDir dest (dest ++ extractName ctxDir e) := ⟨_, rfl, extractName_no47 _ _⟩
    have h2 : InsideDir dest (dest ++ extractName ctxDir e ++ strBytes ".inf") := by
      refine ⟨extractName ctxDir e ++ strBytes ".inf", by simp, ?_⟩
      intro h
      rw [List.mem_append] at h
      rcases h with h | h
      · exact extractName_no47 _ _ h
      · exact inf_no47 h
    split
    · simpa using hf
    split
    · simp only [filesOf_threw]
      intro p hp
      rw [List.mem_append, List.mem_singleton] at hp
      rcases hp with hp | hp
      · exact hf p hp
      · subst hp; exact h1
    · apply ih
      intro p hp
      rw [List.mem_append] at hp
      rcases hp with hp | hp
      · exact hf p hp
      · simp only [List.mem_cons, List.not_mem_nil, or_false] at hp
        rcases hp with hp | hp
        · subst hp; exact h1
        · subst hp; exact h2

theorem extract_files_confined (env : Env) (a0 a : Bytes) (_ha : a ≠ []) :
    ∀ p ∈ filesOf (cmdExtractFiles env [a0, a]), InsideDir (destDir a) p.1 := by
  simp only [cmdExtractFiles]
  split
  · simp
  · split
    · simp
    · simp
    · simp
    · exact extractLoop_confined _ _ _ _ _ [] (by simp)

/-! ### extract-unused -/

theorem unusedLoop_confined (env : Env) (dest : Bytes) (m : Media) (spans : List (Nat × Nat))
    (files : List (Bytes × Bytes)) (warned : Bool) (hf : ∀ p ∈ files, InsideDir dest p.1) :
    ∀ p ∈ (unusedLoop env dest m spans files warned).1, InsideDir dest p.1 := by
  induction spans generalizing files warned with
  | nil => simpa [unusedLoop] using hf
  | cons s rest ih =>
    obtain ⟨b, e⟩ := s
    simp only [unusedLoop]
    split
    · exact hf
    · apply ih
      intro p hp
      rw [List.mem_append, List.mem_singleton] at hp
      rcases hp with hp | hp
      · exact hf p hp
      · subst hp
        refine ⟨strBytes "unused_" ++ padLeft 3 48 (hexU b) ++ strBytes ".bin", ?_, unusedName_no47 b⟩
        simp [List.append_assoc]

theorem extract_unused_confined (env : Env) (a0 a : Bytes) (_ha : a ≠ []) :
    ∀ p ∈ filesOf (cmdExtractUnused env [a0, a]), InsideDir (destDir a) p.1 := by
  simp only [cmdExtractUnused]
  split
  · simp
  · split
    · simp
    · split
      · simp
      · simp
      · simp
      · split
        · split
          · next files warned hu =>
            have h := congrArg Prod.fst hu
            simp only [filesOf_done] at h ⊢
            rw [← h]
            exact unusedLoop_confined env _ _ _ [] false (by simp)
          · next files warned hu =>
            have h := congrArg Prod.fst hu
            simp only [filesOf_done] at h ⊢
            rw [← h]
            exact unusedLoop_confined env _ _ _ [] false (by simp)
        · simp

/-! ### no created file bears the name of an image file -/

theorem not_image_of_false (env : Env) (path : Bytes) (h : env.isImageFile path = false) :
    path ∉ env.images := by
  intro hm
  have : env.isImageFile path = true := by
    unfold Env.isImageFile
    exact List.contains_iff_mem.mpr hm
  rw [h] at this
  cases this

theorem extractLoop_spares (env : Env) (dest : Bytes) (ctxDir : Nat) (data : Media) (l : List Entry)
    (files : List (Bytes × Bytes)) (hf : ∀ p ∈ files, p.1 ∉ env.images) :
    ∀ p ∈ filesOf (extractLoop env dest ctxDir data l files), p.1 ∉ env.images := by
  induction l generalizing files with
  | nil => simpa [extractLoop] using hf
  | cons e rest ih =>
    simp only [extractLoop]
    split
    · simpa using hf
    next hno =>
    rw [Bool.or_eq_true, not_or] at hno
    have h1 : dest ++ extractName ctxDir e ∉ env.images :=
      not_image_of_false _ _ (by simpa using hno.1)
    have h2 : dest ++ extractName ctxDir e ++ strBytes ".inf" ∉ env.images :=
      not_image_of_false _ _ (by simpa using hno.2)
    split
    · simp only [filesOf_threw]
      intro p hp
      rw [List.mem_append, List.mem_singleton] at hp
      rcases hp with hp | hp
      · exact hf p hp
      · subst hp; exact h1
    · apply ih
      intro p hp
      rw [List.mem_append] at hp
      rcases hp with hp | hp
      · exact hf p hp
      · simp only [List.mem_cons, List.not_mem_nil, or_false] at hp
        rcases hp with hp | hp
        · subst hp; exact h1
        · subst hp; exact h2

theorem extract_files_spares_images (env : Env) (args : List Bytes) :
    ∀ p ∈ filesOf (cmdExtractFiles env args), p.1 ∉ env.images := by
  simp only [cmdExtractFiles]
  split
  · split
    · simp
    · split
      · simp
      · simp
      · simp
      · exact extractLoop_spares _ _ _ _ _ [] (by simp)
  · simp

theorem unusedLoop_spares (env : Env) (dest : Bytes) (m : Media) (spans : List (Nat × Nat))
    (files : List (Bytes × Bytes)) (warned : Bool) (hf : ∀ p ∈ files, p.1 ∉ env.images) :
    ∀ p ∈ (unusedLoop env dest m spans files warned).1, p.1 ∉ env.images := by
  induction spans generalizing files warned with
  | nil => simpa [unusedLoop] using hf
  | cons s rest ih =>
    obtain ⟨b, e⟩ := s
    simp only [unusedLoop]
    split
    · exact hf
    next hno =>
    apply ih
    intro p hp
    rw [List.mem_append, List.mem_singleton] at hp
    rcases hp with hp | hp
    · exact hf p hp
    · subst hp
      exact not_image_of_false _ _ (by simpa using hno)

theorem extract_unused_spares_images (env : Env) (args : List Bytes) :
    ∀ p ∈ filesOf (cmdExtractUnused env args), p.1 ∉ env.images := by
  simp only [cmdExtractUnused]
  split
  · simp
  · split
    · split
      · simp
      · split
        · simp
        · simp
        · simp
        · split
          · split
            · next files warned hu =>
              have h := congrArg Prod.fst hu
              simp only [filesOf_done] at h ⊢
              rw [← h]
              exact unusedLoop_spares env _ _ _ [] false (by simp)
            · next files warned hu =>
              have h := congrArg Prod.fst hu
              simp only [filesOf_done] at h ⊢
              rw [← h]
              exact unusedLoop_spares env _ _ _ [] false (by simp)
          · simp
    · simp

/-! ### the extract loops consult the environment only through `isImageFile`, and only
    for paths inside the destination -/

theorem extractLoop_agree (e1 e2 : Env) (dest : Bytes) (ctxDir : Nat) (data : Media) (l : List Entry)
    (files : List (Bytes × Bytes))
    (h : ∀ leaf, e1.isImageFile (dest ++ leaf) = e2.isImageFile (dest ++ leaf)) :
    extractLoop e1 dest ctxDir data l files = extractLoop e2 dest ctxDir data l files := by
  induction l generalizing files with
  | nil => simp [extractLoop]
  | cons e rest ih =>
    simp only [extractLoop]
    rw [List.append_assoc dest, h, h]
    split
    · rfl
    · split
      · rfl
      · exact ih _

theorem unusedLoop_agree (e1 e2 : Env) (dest : Bytes) (m : Media) (spans : List (Nat × Nat))
    (files : List (Bytes × Bytes)) (warned : Bool)
    (h : ∀ leaf, e1.isImageFile (dest ++ leaf) = e2.isImageFile (dest ++ leaf)) :
    unusedLoop e1 dest m spans files warned = unusedLoop e2 dest m spans files warned := by
  induction spans generalizing files warned with
  | nil => simp [unusedLoop]
  | cons s rest ih =>
    obtain ⟨b, e⟩ := s
    simp only [unusedLoop]
    rw [List.append_assoc dest, List.append_assoc dest, h]
    split
    · rfl
    · exact ih _ _

theorem extractLoop_images (e1 e2 : Env) (h : e1.images = e2.images) :
    extractLoop e1 = extractLoop e2 := by
  funext dest ctxDir data l files
  exact extractLoop_agree e1 e2 dest ctxDir data l files (fun _ => by simp [Env.isImageFile, h])

theorem unusedLoop_images (e1 e2 : Env) (h : e1.images = e2.images) :
    unusedLoop e1 = unusedLoop e2 := by
  funext dest m spans files warned
  exact unusedLoop_agree e1 e2 dest m spans files warned (fun _ => by simp [Env.isImageFile, h])

/-- extract-files gives the same result when the two lists of image names agree on
    every path inside the destination -/
theorem cmdExtractFiles_agree (env : Env) (i1 i2 : List Bytes) (args : List Bytes)
    (h : ∀ a0 a, args = [a0, a] → ∀ leaf, i1.contains (destDir a ++ leaf) = i2.contains (destDir a ++ leaf)) :
    cmdExtractFiles { env with images := i1 } args = cmdExtractFiles { env with images := i2 } args := by
  simp only [cmdExtractFiles]
  split
  · next a0 a =>
    have hh := fun c d l f => extractLoop_agree { env with images := i1 } { env with images := i2 } (destDir a)
      c d l f (fun leaf => h a0 a rfl leaf)
    simp only [hh]
    rfl
  · rfl

theorem cmdExtractUnused_agree (env : Env) (i1 i2 : List Bytes) (args : List Bytes)
    (h : ∀ a0 a, args = [a0, a] → ∀ leaf, i1.contains (destDir a ++ leaf) = i2.contains (destDir a ++ leaf)) :
    cmdExtractUnused { env with images := i1 } args = cmdExtractUnused { env with images := i2 } args := by
  simp only [cmdExtractUnused]
  split
  · rfl
  · split
    · next a0 a =>
      have hh := fun m sp f w => unusedLoop_agree { env with images := i1 } { env with images := i2 } (destDir a)
        m sp f w (fun leaf => h a0 a rfl leaf)
      simp only [hh]
      rfl
    · rfl

theorem dest_shape (a : Bytes) : destDir a = a ∨ destDir a = a ++ [47] := by
  unfold destDir
  split
  · exact Or.inl rfl
  · exact Or.inr rfl

/-! ### the other commands create nothing -/

theorem bodyCommand_nofiles (env : Env) (args : List Bytes) (logic : Bytes → Bytes) :
    filesOf (bodyCommand env args logic) = [] := by
  unfold bodyCommand
  repeat' (first | rfl | split)

theorem cmdInfo_nofiles (env : Env) (args : List Bytes) : filesOf (cmdInfo env args) = [] := by
  unfold cmdInfo
  repeat' (first | rfl | split)

theorem cmdCat_nofiles (env : Env) (args : List Bytes) : filesOf (cmdCat env args) = [] := by
  unfold cmdCat
  repeat' (first | rfl | split | dsimp only)

theorem cmdType_nofiles (env : Env) (args : List Bytes) : filesOf (cmdType env args) = [] := by
  unfold cmdType
  repeat' (first | rfl | exact bodyCommand_nofiles _ _ _ | split | dsimp only)

theorem cmdList_nofiles (env : Env) (args : List Bytes) : filesOf (cmdList env args) = [] :=
  bodyCommand_nofiles _ _ _

theorem cmdDump_nofiles (env : Env) (args : List Bytes) : filesOf (cmdDump env args) = [] :=
  bodyCommand_nofiles _ _ _

theorem cmdDumpSector_nofiles (env : Env) (args : List Bytes) : filesOf (cmdDumpSector env args) = [] := by
  unfold cmdDumpSector
  repeat' (first | rfl | split | dsimp only)

theorem cmdFree_nofiles (env : Env) (args : List Bytes) : filesOf (cmdFree env args) = [] := by
  unfold cmdFree
  repeat' (first | rfl | split | dsimp only)

theorem spaceGo_nofiles (env : Env) (sels l : List VolSel) (out : Bytes) (free : List (VolSel × Nat)) :
    filesOf (spaceRun.go env sels l out free) = [] := by
  induction l generalizing out free with
  | nil => simp [spaceRun.go]
  | cons sel rest ih =>
    simp only [spaceRun.go]
    repeat' (first | rfl | exact ih _ _ | split)

theorem cmdSpace_nofiles (env : Env) (args : List Bytes) : filesOf (cmdSpace env args) = [] := by
  unfold cmdSpace spaceRun
  repeat' (first | rfl | exact spaceGo_nofiles _ _ _ _ _ | split | dsimp only)

theorem cmdSectorMap_nofiles (env : Env) (args : List Bytes) : filesOf (cmdSectorMap env args) = [] := by
  unfold cmdSectorMap
  repeat' (first | rfl | split | dsimp only)

theorem showTitlesGo_nofiles (env : Env) (l : List Nat) (ok : Bool) (out : Bytes) :
    filesOf (cmdShowTitles.go env l ok out) = [] := by
  induction l generalizing ok out with
  | nil => simp [cmdShowTitles.go]
  | cons d rest ih =>
    simp only [cmdShowTitles.go]
    repeat' (first | rfl | exact ih _ _ | split)

theorem cmdShowTitles_nofiles (env : Env) (args : List Bytes) : filesOf (cmdShowTitles env args) = [] := by
  unfold cmdShowTitles
  repeat' (first | rfl | exact showTitlesGo_nofiles _ _ _ _ | split | dsimp only)

theorem other_commands_create_nothing (env : Env) (args : List Bytes) (r : CmdRes)
    (hc : args.head? ≠ some (strBytes "extract-files") ∧ args.head? ≠ some (strBytes "extract-unused"))
    (hr : runCommand env args = some r) : filesOf r = [] := by
  cases args with
  | nil => simp [runCommand] at hr
  | cons c t =>
    have h1 : (c == strBytes "extract-files") = false := by
      have := hc.1
      simp only [List.head?_cons, ne_eq, Option.some.injEq] at this
      simpa using this
    have h2 : (c == strBytes "extract-unused") = false := by
      have := hc.2
      simp only [List.head?_cons, ne_eq, Option.some.injEq] at this
      simpa using this
    simp only [runCommand, h1, h2, Bool.false_eq_true, if_false] at hr
    split at hr
    · cases hr; exact cmdInfo_nofiles _ _
    split at hr
    · cases hr; exact cmdCat_nofiles _ _
    split at hr
    · cases hr; exact cmdType_nofiles _ _
    split at hr
    · cases hr; exact cmdList_nofiles _ _
    split at hr
    · cases hr; exact cmdDump_nofiles _ _
    split at hr
    · cases hr; exact cmdDumpSector_nofiles _ _
    split at hr
    · cases hr; exact cmdFree_nofiles _ _
    split at hr
    · cases hr; exact cmdSpace_nofiles _ _
    split at hr
    · cases hr; exact cmdSectorMap_nofiles _ _
    split at hr
    · cases hr; exact cmdShowTitles_nofiles _ _
    cases hr

/-! ### a whole run -/

/-- an error result of option processing carries no files -/
def EF {α : Type} : Except RunRes α → Prop
  | .error e => e.files = []
  | .ok _ => True

theorem EF_of_eq {α β : Type} {x : Except RunRes α} {e : RunRes} (h : x = .error e) (hx : EF x) :
    EF (.error e : Except RunRes β) := by
  subst h; exact hx

theorem cfgs_EF (nd : Bool) (m : Media) (idx : Nat) (views : List View) :
    EF (attachFile.cfgs nd m idx views) := by
  induction views with
  | nil => simp [attachFile.cfgs, EF]
  | cons v vs ih =>
    simp only [attachFile.cfgs]
    split
    · rfl
    · rfl
    · revert ih
      cases attachFile.cfgs nd m idx vs with
      | error e => intro ih; exact ih
      | ok r => intro _; trivial

theorem fcfgs_EF (nd : Bool) (idx k : Nat) (sides : List (View × Media)) :
    EF (attachFile.fcfgs nd idx k sides) := by
  induction sides generalizing k with
  | nil => simp [attachFile.fcfgs, EF]
  | cons p vs ih =>
    obtain ⟨v, sm⟩ := p
    simp only [attachFile.fcfgs]
    split
    · rfl
    · rfl
    · have ih' := ih (k + 1)
      revert ih'
      cases attachFile.fcfgs nd idx (k + 1) vs with
      | error e => intro ih; exact ih
      | ok r => intro _; trivial

theorem attachFile_EF (fs : HostFs) (nd : Bool) (arg : Bytes) (st : MainState) :
    EF (attachFile fs nd arg st) := by
  unfold attachFile
  split
  · rfl
  · split
    · rfl
    · rfl
    · dsimp only
      split
      · rfl
      · rfl
      · rfl
      · split
        · next e he => exact EF_of_eq he (cfgs_EF _ _ _ _)
        · split
          · rfl
          · trivial
      · split
        · next e he => exact EF_of_eq he (fcfgs_EF _ _ _ _)
        · split
          · rfl
          · trivial

theorem optLoop_EF (fs : HostFs) (nd : Bool) (opts : List Opt) (st : MainState) :
    EF (optLoop fs nd opts st) := by
  induction opts generalizing st with
  | nil => simp [optLoop, EF]
  | cons o more ih =>
    cases o with
    | bad => simp [optLoop, EF]
    | opt o arg =>
      cases o <;> simp only [optLoop]
      · have ha := attachFile_EF fs nd arg st
        revert ha
        cases attachFile fs nd arg st with
        | error e => intro ha; exact ha
        | ok st' => intro _; exact ih _
      all_goals repeat' (first | rfl | exact ih _ | split)

theorem runCommand_ef (env : Env) (t : List Bytes) :
    runCommand env (strBytes "extract-files" :: t) = some (cmdExtractFiles env (strBytes "extract-files" :: t)) := by
  simp only [runCommand]; rfl

theorem runCommand_eu (env : Env) (t : List Bytes) :
    runCommand env (strBytes "extract-unused" :: t) = some (cmdExtractUnused env (strBytes "extract-unused" :: t)) := by
  simp only [runCommand]; rfl

theorem runCommand_files (env : Env) (args : List Bytes) (r : CmdRes) (hr : runCommand env args = some r) :
    filesOf r = [] ∨
    (∃ a0 a, args = [a0, a] ∧ a ≠ [] ∧ (a0 = strBytes "extract-files" ∨ a0 = strBytes "extract-unused") ∧
      ∀ p ∈ filesOf r, InsideDir (destDir a) p.1) := by
  by_cases h1 : args.head? = some (strBytes "extract-files")
  · cases args with
    | nil => simp at h1
    | cons c t =>
      simp only [List.head?_cons, Option.some.injEq] at h1
      subst h1
      rw [runCommand_ef] at hr
      cases hr
      match t with
      | [] => left; simp [cmdExtractFiles]
      | [a] =>
        by_cases ha : a = []
        · subst ha; left; simp [cmdExtractFiles]
        · right
          exact ⟨_, a, rfl, ha, Or.inl rfl, extract_files_confined env _ a ha⟩
      | _ :: _ :: _ => left; simp [cmdExtractFiles]
  · by_cases h2 : args.head? = some (strBytes "extract-unused")
    · cases args with
      | nil => simp at h2
      | cons c t =>
        simp only [List.head?_cons, Option.some.injEq] at h2
        subst h2
        rw [runCommand_eu] at hr
        cases hr
        match t with
        | [] => left; simp only [cmdExtractUnused]; split <;> rfl
        | [a] =>
          by_cases ha : a = []
          · subst ha; left; simp only [cmdExtractUnused]; split <;> rfl
          · right
            exact ⟨_, a, rfl, ha, Or.inr rfl, extract_unused_confined env _ a ha⟩
        | _ :: _ :: _ => left; simp only [cmdExtractUnused]; split <;> rfl
    · left
      exact other_commands_create_nothing env args r ⟨h1, h2⟩ hr

theorem run_confined (fs : HostFs) (nd : Bool) (cols : Option Nat) (opts : List Opt) (rest : List Bytes) :
    (dfsRun fs nd cols opts rest).files = [] ∨
    (∃ a0 a, rest = [a0, a] ∧ a ≠ [] ∧ (a0 = strBytes "extract-files" ∨ a0 = strBytes "extract-unused") ∧
      ∀ p ∈ (dfsRun fs nd cols opts rest).files, InsideDir (destDir a) p.1) := by
  unfold dfsRun
  have hopt := optLoop_EF fs nd opts default
  revert hopt
  cases optLoop fs nd opts default with
  | error r => intro h; left; exact h
  | ok st =>
    intro _
    dsimp only
    cases rest with
    | nil => left; rfl
    | cons cmd t =>
      dsimp only
      split
      · left; rfl
      · split
        · left; rfl
        · next r hr =>
          have h := runCommand_files _ _ r hr
          cases r <;> exact h

/-! ### the images of a run -/

/-- a successful `--file` option records its argument, after those already recorded -/
theorem attachFile_images (fs : HostFs) (nd : Bool) (arg : Bytes) (st st' : MainState)
    (h : attachFile fs nd arg st = .ok st') : st'.images = st.images ++ [arg] := by
  unfold attachFile at h
  split at h
  · cases h
  · split at h
    · cases h
    · cases h
    · dsimp only at h
      split at h
      · cases h
      · cases h
      · cases h
      · split at h
        · cases h
        · split at h
          · cases h
          · cases h; rfl
      · split at h
        · cases h
        · split at h
          · cases h
          · cases h; rfl

/-- the option loop only ever extends the list of image names, and every `--file`
    argument it has passed is on it -/
theorem optLoop_images (fs : HostFs) (nd : Bool) (opts : List Opt) (st0 st : MainState)
    (h : optLoop fs nd opts st0 = .ok st) :
    (∃ more, st.images = st0.images ++ more) ∧
    ∀ name, Opt.opt .file name ∈ opts → name ∈ st.images := by
  induction opts generalizing st0 with
  | nil =>
    simp only [optLoop] at h
    cases h
    exact ⟨⟨[], by simp⟩, by simp⟩
  | cons o more ih =>
    cases o with
    | bad => simp [optLoop] at h
    | opt o arg =>
      have other : ∀ st1 : MainState, optLoop fs nd more st1 = .ok st →
          st1.images = st0.images → o ≠ .file →
          (∃ more, st.images = st0.images ++ more) ∧
          ∀ name, Opt.opt .file name ∈ Opt.opt o arg :: more → name ∈ st.images := by
        intro st1 hl h1 ho
        obtain ⟨⟨ext, hext⟩, hmem⟩ := ih st1 hl
        refine ⟨⟨ext, by rw [hext, h1]⟩, ?_⟩
        intro name hn
        rw [List.mem_cons] at hn
        rcases hn with hn | hn
        · cases hn; exact absurd rfl ho
        · exact hmem name hn
      cases o <;> simp only [optLoop] at h
      case file =>
        split at h
        · cases h
        · next st' ha =>
          have hi := attachFile_images fs nd arg st0 st' ha
          obtain ⟨⟨ext, hext⟩, hmem⟩ := ih st' h
          refine ⟨⟨[arg] ++ ext, by rw [hext, hi, List.append_assoc]⟩, ?_⟩
          intro name hn
          rw [List.mem_cons] at hn
          rcases hn with hn | hn
          · cases hn
            rw [hext, hi]
            simp
          · exact hmem name hn
      case help => cases h
      all_goals
        first
        | exact other _ h rfl (by intro hc; cases hc)
        | (split at h
           · cases h
           · first
             | exact other _ h rfl (by intro hc; cases hc)
             | (split at h
                · cases h
                · exact other _ h rfl (by intro hc; cases hc)))

theorem runCommand_spares (env : Env) (args : List Bytes) (r : CmdRes) (hr : runCommand env args = some r) :
    ∀ p ∈ filesOf r, p.1 ∉ env.images := by
  by_cases h1 : args.head? = some (strBytes "extract-files")
  · cases args with
    | nil => simp at h1
    | cons c t =>
      simp only [List.head?_cons, Option.some.injEq] at h1
      subst h1
      rw [runCommand_ef] at hr
      cases hr
      exact extract_files_spares_images env _
  · by_cases h2 : args.head? = some (strBytes "extract-unused")
    · cases args with
      | nil => simp at h2
      | cons c t =>
        simp only [List.head?_cons, Option.some.injEq] at h2
        subst h2
        rw [runCommand_eu] at hr
        cases hr
        exact extract_unused_spares_images env _
    · rw [other_commands_create_nothing env args r ⟨h1, h2⟩ hr]
      simp

theorem run_spares_images (fs : HostFs) (nd : Bool) (cols : Option Nat) (opts : List Opt) (rest : List Bytes)
    (st : MainState) (hst : optLoop fs nd opts default = .ok st) :
    (∀ name, Opt.opt .file name ∈ opts → name ∈ st.images) ∧
    ∀ p ∈ (dfsRun fs nd cols opts rest).files, p.1 ∉ st.images := by
  refine ⟨(optLoop_images fs nd opts default st hst).2, ?_⟩
  unfold dfsRun
  rw [hst]
  dsimp only
  cases rest with
  | nil => simp
  | cons cmd t =>
    dsimp only
    split
    · simp
    · split
      · simp
      · next r hr =>
        have h := runCommand_spares _ _ r hr
        cases r <;> exact h

end Beeb.FsL
