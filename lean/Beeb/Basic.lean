def hello := "world"
