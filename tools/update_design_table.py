#!/usr/bin/env python3
"""Rewrite the table of DESIGN.md 13.7 from seeded/results.txt (via tools/organize_seeded.py --table)."""
import os, subprocess, sys
V = os.path.dirname(os.path.dirname(os.path.abspath(__file__)))
p = subprocess.run([sys.executable, os.path.join(V, 'tools', 'organize_seeded.py'), '--table'], capture_output=True, text=True)
table, summary = p.stdout.rstrip('\n'), p.stderr.strip().split('\n')[-1]
d = open(os.path.join(V, 'DESIGN.md')).read()
i = d.index('Outcome of the last full run:') if 'Outcome of the last full run:' in d else d.index('Outcome of the latest run of each change:')
j = d.index('**What the seeded changes taught.**')
d = d[:i] + 'Outcome of the latest run of each change: ' + summary + '.\n\n' + table + '\n\n' + d[j:]
open(os.path.join(V, 'DESIGN.md'), 'w').write(d)
print(summary)
