"""Shared machinery for the /verif checks: translator + Lean build + axiom audit,
implementation builds from /repo's working tree (content-addressed cache),
line-protocol runners, replay/evidence/known-finding plumbing."""
import concurrent.futures as cf
import fcntl
import glob
import hashlib
import json
import os
import random
import re
import shutil
import subprocess
import sys
import time

VERIF = os.path.dirname(os.path.dirname(os.path.abspath(__file__)))
REPO = os.environ.get('VERIF_REPO', '/repo')
LEAN = os.path.join(VERIF, 'lean')
CACHE = os.path.join(VERIF, '.buildcache')
GUARD = 'BEEBTOOLS_VERIF'
ALLOWED_AXIOMS = {'propext', 'Classical.choice', 'Quot.sound'}

DFSBASE = ['exceptions.cc', 'stringutil.cc', 'verbose.cc']
DFSLIB = ['img_fileio.cc', 'img_hfe.cc', 'img_hxcmfm.cc', 'img_mmb.cc', 'img_sdf.cc', 'img_load.cc',
          'identify.cc', 'storage.cc', 'driveselector.cc', 'geometry.cc', 'track.cc', 'track_fm.cc',
          'track_mfm.cc', 'crc16.cc', 'dfs_catalog.cc', 'dfs_filesystem.cc', 'dfs_unused.cc',
          'dfs_volume.cc', 'opus_cat.cc', 'fsp.cc', 'afsp.cc', 'hexdump.cc', 'img_gzfile.cc']
DFSCMD = ['commands.cc', 'cmd_cat.cc', 'cmd_dump.cc', 'cmd_extract_files.cc', 'cmd_extract_unused.cc',
          'cmd_free.cc', 'cmd_help.cc', 'cmd_info.cc', 'cmd_type.cc', 'cmd_list.cc', 'cmd_sector_map.cc',
          'cmd_show_titles.cc', 'cmd_space.cc']
BASICLIB = ['tokens.c', 'lines.c', 'decoder.c']

SAN = ['-fsanitize=address,undefined', '-fno-sanitize-recover=all', '-fno-omit-frame-pointer',
       '-D_GLIBCXX_ASSERTIONS']
KINDS = {
    # name: (extra flags, ndebug)
    'asan': (['-O1', '-g'] + SAN, False),
    'asan-ndebug': (['-O1', '-g', '-DNDEBUG'] + SAN, True),
    'rel': (['-O2', '-g', '-DNDEBUG'], True),
    'dbg': (['-O1', '-g'], False),
}


class Lock:
    def __init__(self, name):
        os.makedirs(CACHE, exist_ok=True)
        self.path = os.path.join(CACHE, name + '.lock')

    def __enter__(self):
        self.f = open(self.path, 'w')
        fcntl.flock(self.f, fcntl.LOCK_EX)
        return self

    def __exit__(self, *a):
        fcntl.flock(self.f, fcntl.LOCK_UN)
        self.f.close()


def sh(cmd, **kw):
    return subprocess.run(cmd, capture_output=True, text=True, **kw)


# ----------------------------------------------------------------- source hash
def repo_sources():
    out = []
    for d in ('dfs', 'basic'):
        for root, dirs, files in os.walk(os.path.join(REPO, d)):
            if 'testdata' in root or '/tests' in root:
                continue
            for f in sorted(files):
                if f.endswith(('.cc', '.c', '.h')):
                    out.append(os.path.join(root, f))
    return sorted(out)


def repo_hash(extra=''):
    h = hashlib.sha256()
    for p in repo_sources():
        h.update(p.encode())
        h.update(open(p, 'rb').read())
    for p in sorted(glob.glob(os.path.join(VERIF, 'harness', '*'))):
        h.update(p.encode())
        h.update(open(p, 'rb').read())
    h.update(extra.encode())
    return h.hexdigest()[:20]


# ----------------------------------------------------------------- impl builds
def _compile(args):
    cmd, obj = args
    p = sh(cmd)
    return (obj, p.returncode, p.stderr[-3000:])


def build_impl(kind, want=('dfs', 'basic', 'harness')):
    """Build the implementation (from /repo's working tree, hooks enabled) in
    configuration `kind`.  Returns dict of binary paths.  Content-addressed:
    the cache key is the hash of every source file, so an edited tree is
    always rebuilt."""
    flags, _ = KINDS[kind]
    key = repo_hash(kind)
    d = os.path.join(CACHE, key)
    res = {'dir': d, 'dfs': os.path.join(d, 'dfs'), 'basic': os.path.join(d, 'bbcbasic_to_text'),
           'harness': os.path.join(d, 'dfs_harness'), 'bharness': os.path.join(d, 'basic_harness'),
           'key': key, 'kind': kind}
    with Lock('build-' + key):
        ok = os.path.join(d, 'OK')
        if os.path.exists(ok):
            os.utime(ok)
            return res
        if os.path.exists(d):
            shutil.rmtree(d)
        os.makedirs(d)
        t0 = time.time()
        jobs = []
        cxx = ['g++', '-std=gnu++17', '-DUSE_ZLIB', '-D' + GUARD, '-I', os.path.join(REPO, 'dfs'), '-w'] + flags
        cc = ['gcc', '-std=gnu11', '-D' + GUARD, '-I', os.path.join(REPO, 'basic'), '-w'] + flags
        for f in DFSBASE + DFSLIB + DFSCMD + ['main.cc']:
            obj = os.path.join(d, f + '.o')
            jobs.append((cxx + ['-c', os.path.join(REPO, 'dfs', f), '-o', obj], obj))
        for f in BASICLIB + ['bbcbasic_to_text.c']:
            obj = os.path.join(d, f + '.o')
            jobs.append((cc + ['-c', os.path.join(REPO, 'basic', f), '-o', obj], obj))
        hsrc = os.path.join(VERIF, 'harness', 'dfs_harness.cc')
        hobj = os.path.join(d, 'dfs_harness.o')
        jobs.append((cxx + ['-I', os.path.join(VERIF, 'harness'),
                            '-c', hsrc, '-o', hobj], hobj))
        bsrc = os.path.join(VERIF, 'harness', 'basic_harness.c')
        bobj = os.path.join(d, 'basic_harness.o')
        if os.path.exists(bsrc):
            jobs.append((cc + ['-I', os.path.join(VERIF, 'harness'), '-c', bsrc, '-o', bobj], bobj))
        errs = []
        with cf.ThreadPoolExecutor(max_workers=16) as ex:
            for obj, rc, err in ex.map(_compile, jobs):
                if rc != 0:
                    errs.append((obj, err))
        if errs:
            res['error'] = '\n'.join('%s: %s' % e for e in errs)
            with open(os.path.join(d, 'ERROR'), 'w') as f:
                f.write(res['error'])
            return res
        inc = harness_included()
        lib = [os.path.join(d, f + '.o') for f in DFSBASE + DFSLIB]
        cmds = [os.path.join(d, f + '.o') for f in DFSCMD]
        links = [
            (['g++'] + flags + ['-o', res['dfs']] + cmds + [os.path.join(d, 'main.cc.o')] + lib + ['-lz'], 'dfs'),
            (['gcc'] + flags + ['-o', res['basic']] + [os.path.join(d, f + '.o') for f in BASICLIB + ['bbcbasic_to_text.c']], 'basic'),
            (['g++'] + flags + ['-o', res['harness'], hobj] +
             [os.path.join(d, f + '.o') for f in DFSBASE + DFSLIB + DFSCMD if f not in inc] + ['-lz'], 'harness'),
        ]
        if os.path.exists(bsrc):
            blib = [os.path.join(d, f + '.o') for f in BASICLIB if f not in basic_harness_included()]
            links.append((['gcc'] + flags + ['-o', res['bharness'], bobj] + blib, 'bharness'))
        for cmd, name in links:
            p = sh(cmd)
            if p.returncode != 0:
                res['error'] = 'link %s: %s' % (name, p.stderr[-3000:])
                return res
        res['build_s'] = time.time() - t0
        open(ok, 'w').write(str(res['build_s']))
    prune_cache()
    return res


def harness_included():
    """.cc files the harness #includes directly (to reach internal-linkage
    functions); their objects are left out of the harness link."""
    src = open(os.path.join(VERIF, 'harness', 'dfs_harness.cc')).read()
    return set(re.findall(r'#include\s+"(\w+\.cc)"', src))


def basic_harness_included():
    p = os.path.join(VERIF, 'harness', 'basic_harness.c')
    if not os.path.exists(p):
        return set()
    return set(re.findall(r'#include\s+"(\w+\.c)"', open(p).read()))


def prune_cache(keep=8):
    try:
        ds = [os.path.join(CACHE, x) for x in os.listdir(CACHE) if os.path.isdir(os.path.join(CACHE, x))]
        ds = [x for x in ds if os.path.exists(os.path.join(x, 'OK'))]
        ds.sort(key=lambda x: os.path.getmtime(os.path.join(x, 'OK')), reverse=True)
        for x in ds[keep:]:
            shutil.rmtree(x, ignore_errors=True)
    except OSError:
        pass


# ----------------------------------------------------------------- lean side
def translate():
    with Lock('lean'):
        p = sh([sys.executable, os.path.join(VERIF, 'tools', 'translate', 'translate.py'), '--repo', REPO])
        rep = {}
        try:
            rep = json.load(open(os.path.join(LEAN, 'Beeb', 'Generated', 'report.json')))
        except Exception:
            pass
        return p.returncode, p.stdout + p.stderr, rep


def lake_build(targets):
    with Lock('lean'):
        t0 = time.time()
        p = sh(['lake', 'build'] + list(targets), cwd=LEAN)
        return p.returncode, p.stdout + p.stderr, time.time() - t0


def driver_path():
    return os.path.join(LEAN, '.lake', 'build', 'bin', 'beebdrv')


FORBIDDEN = re.compile(r'\bsorry\b|\badmit\b|^axiom\s|native_decide|bv_decide|implemented_by|\bunsafe\s|maxHeartbeats\s+0', re.M)


def strip_lean_comments(s):
    out = []
    i = 0
    depth = 0
    n = len(s)
    while i < n:
        if s.startswith('/-', i):
            depth += 1
            i += 2
        elif depth and s.startswith('-/', i):
            depth -= 1
            i += 2
        elif depth:
            i += 1
        elif s.startswith('--', i):
            j = s.find('\n', i)
            i = n if j < 0 else j
        else:
            out.append(s[i])
            i += 1
    return ''.join(out)


def lean_cone(module):
    """Files of the Beeb library imported (transitively) by `module`."""
    seen = []
    todo = [module]
    while todo:
        m = todo.pop()
        if m in seen or not (m.startswith('Beeb') or m.startswith('Driver')):
            continue
        seen.append(m)
        p = os.path.join(LEAN, m.replace('.', '/') + '.lean')
        if os.path.exists(p):
            for imp in re.findall(r'^import\s+([\w.]+)', open(p).read(), re.M):
                todo.append(imp)
    return seen


def forbidden_scan(module):
    hits = []
    for m in lean_cone(module):
        p = os.path.join(LEAN, m.replace('.', '/') + '.lean')
        if not os.path.exists(p):
            continue
        body = strip_lean_comments(open(p).read())
        for mm in FORBIDDEN.finditer(body):
            hits.append('%s: %s' % (m, mm.group(0).strip()))
    return hits


def theorems_in(module):
    p = os.path.join(LEAN, module.replace('.', '/') + '.lean')
    body = strip_lean_comments(open(p).read())
    ns = re.search(r'^namespace\s+([\w.]+)', body, re.M)
    prefix = (ns.group(1) + '.') if ns else ''
    return [prefix + t for t in re.findall(r'^theorem\s+([\w.\']+)', body, re.M)]


def audit_axioms(module):
    """#print axioms for every theorem of the property module.  Returns
    (ok, {theorem: [axioms]}, raw)."""
    ths = theorems_in(module)
    src = 'import %s\n' % module + ''.join('#print axioms %s\n' % t for t in ths)
    path = os.path.join(LEAN, 'Audit', module.split('.')[-1] + '.lean')
    os.makedirs(os.path.dirname(path), exist_ok=True)
    with open(path, 'w') as f:
        f.write(src)
    with Lock('lean'):
        p = sh(['lake', 'env', 'lean', path], cwd=LEAN)
    out = p.stdout + p.stderr
    res = {}
    for mm in re.finditer(r"'([\w.\']+)' depends on axioms: \[([^\]]*)\]", out, re.S):
        res[mm.group(1)] = [a.strip() for a in mm.group(2).replace('\n', ' ').split(',') if a.strip()]
    for mm in re.finditer(r"'([\w.\']+)' does not depend on any axioms", out):
        res[mm.group(1)] = []
    ok = p.returncode == 0 and all(t in res for t in ths) and \
        all(set(v) <= ALLOWED_AXIOMS for v in res.values())
    return ok, res, out


def leanchecker(module):
    with Lock('lean'):
        p = sh(['lake', 'env', 'leanchecker', module], cwd=LEAN)
    return p.returncode == 0, (p.stdout + p.stderr)[-2000:]


# ----------------------------------------------------------------- streams
def run_lines(binary, lines, env=None, timeout=600, cwd=None):
    """Feed request lines to a line-protocol server; return (responses, rc, stderr)."""
    data = '\n'.join(lines) + '\n'
    e = dict(os.environ)
    e['ASAN_OPTIONS'] = 'detect_leaks=0:abort_on_error=0:exitcode=99'
    e['UBSAN_OPTIONS'] = 'print_stacktrace=1:halt_on_error=1:exitcode=98'
    if env:
        e.update(env)
    try:
        p = subprocess.run([binary] if isinstance(binary, str) else binary, input=data, capture_output=True,
                           text=True, env=e, timeout=timeout, cwd=cwd)
    except subprocess.TimeoutExpired as ex:
        out = (ex.stdout or b'')
        out = out.decode() if isinstance(out, bytes) else out
        return out.split('\n')[:-1], -999, 'timeout'
    return p.stdout.split('\n')[:-1], p.returncode, p.stderr


OUTPUT_CAP = 256 * 1024 * 1024      # larger than any legitimate output or temporary file (a full MMB inflates to 100 MiB)


def run_cmd(argv, stdin=b'', env=None, timeout=20, cwd=None, stdin_seekable=False):
    """run a program; returns (exit status, stdout, stderr).  -999 = did not end within `timeout` seconds,
    -998 = wrote more than OUTPUT_CAP bytes of output (killed; runaway output is reported, not swallowed)."""
    e = dict(os.environ)
    e['ASAN_OPTIONS'] = 'detect_leaks=0:abort_on_error=0:exitcode=99'
    e['UBSAN_OPTIONS'] = 'print_stacktrace=1:halt_on_error=1:exitcode=98'
    if env:
        e.update(env)
    import tempfile
    import time as _t
    with tempfile.TemporaryFile() as fo, tempfile.TemporaryFile() as fe:
        # output goes to unlinked temporary files (RLIMIT_FSIZE caps a runaway writer without holding it in memory)
        import resource

        def lim():
            resource.setrlimit(resource.RLIMIT_FSIZE, (OUTPUT_CAP, OUTPUT_CAP))
        # standard input is a pipe (not seekable), as in `prog | tool -`, unless the caller asks for `tool - < file`
        fi = None
        if stdin_seekable:
            fi = tempfile.TemporaryFile()
            fi.write(stdin or b'')
            fi.seek(0)
        p = subprocess.Popen(argv, stdin=(fi if fi is not None else subprocess.PIPE), stdout=fo, stderr=fe, env=e, cwd=cwd, preexec_fn=lim)
        try:
            if fi is not None:
                p.wait(timeout=timeout)
                fi.close()
            else:
                p.communicate(input=stdin or b'', timeout=timeout)
            rc = p.returncode
        except subprocess.TimeoutExpired:
            p.kill()
            p.wait()
            fo.seek(0)
            fe.seek(0)
            return -999, fo.read(1 << 20), b'timeout'
        fo.seek(0, 2)
        size = fo.tell()
        fo.seek(0)
        fe.seek(0)
        out = fo.read(OUTPUT_CAP)
        err = fe.read(1 << 22)
        if size >= OUTPUT_CAP or rc == -25:      # SIGXFSZ
            return -998, out[:1 << 20], err + b'\n[output exceeded %d bytes]' % OUTPUT_CAP
        return rc, out, err


def hexs(b):
    return bytes(b).hex() if b else '-'


def unhex(s):
    return b'' if s == '-' else bytes.fromhex(s)


class Rng:
    """splitmix64: every random choice of a run derives from VERIF_SEED."""

    def __init__(self, seed, bags=None):
        self.s = seed & 0xFFFFFFFFFFFFFFFF
        self.bags = bags if bags is not None else {}

    def next(self):
        self.s = (self.s + 0x9E3779B97F4A7C15) & 0xFFFFFFFFFFFFFFFF
        z = self.s
        z = ((z ^ (z >> 30)) * 0xBF58476D1CE4E5B9) & 0xFFFFFFFFFFFFFFFF
        z = ((z ^ (z >> 27)) * 0x94D049BB133111EB) & 0xFFFFFFFFFFFFFFFF
        return z ^ (z >> 31)

    def below(self, n):
        return self.next() % n if n > 0 else 0

    def range(self, a, b):
        return a + self.below(b - a + 1)

    def choice(self, xs):
        """Balanced choice: at each call site the options of a short list are dealt from a shuffled bag, so every option
        is used once per len(xs) calls of that site (in random order) instead of leaving it to the seed whether a rare
        option is ever drawn in a quick run.  Every draw still derives from the one PRNG state."""
        n = len(xs)
        if n <= 1 or n > 24:
            return xs[self.below(n)]
        f = sys._getframe(1)
        site = (f.f_code.co_filename, f.f_lineno, n)
        bag = self.bags.get(site)
        if not bag:
            bag = self.bags[site] = self.shuffle(range(n))
        return xs[bag.pop()]

    def chance(self, num, den):
        return self.below(den) < num

    def bytes(self, n):
        out = bytearray()
        while len(out) < n:
            out += self.next().to_bytes(8, 'little')
        return bytes(out[:n])

    def shuffle(self, xs):
        xs = list(xs)
        for i in range(len(xs) - 1, 0, -1):
            j = self.below(i + 1)
            xs[i], xs[j] = xs[j], xs[i]
        return xs

    def fork(self):
        return Rng(self.next(), self.bags)


# ----------------------------------------------------------------- findings
def load_known():
    p = os.path.join(VERIF, 'known_findings.json')
    if not os.path.exists(p):
        return []
    return json.load(open(p)).get('findings', [])


# ----------------------------------------------------------------- end-to-end cases
import tempfile
import gzip as _gzip


def hexarg(b):
    if isinstance(b, str):
        b = b.encode('latin-1')
    return b.hex() if b else '-'


class Sparse:
    """A mostly-zero file: total size in sectors and the non-zero sectors."""

    def __init__(self, sectors, table):
        self.sectors = sectors
        self.table = table

    def __len__(self):
        return 10 ** 9      # never inlined into replay files

    def hex(self):
        return 'sparse:%d sectors, %d non-zero' % (self.sectors, len(self.table))


class Case:
    def __init__(self, tag, files, argv, ndebug=True, cols=None, dest=None, meta=None, tool='dfs', stdin=None):
        self.tool = tool            # 'dfs' or 'basic'
        self.stdin = stdin          # bytes for standard input (basic)
        self.tag = tag
        self.files = files          # {relative name: bytes}
        self.argv = argv            # list of str/bytes; '@name' prefix is replaced by the absolute path
        self.ndebug = ndebug
        self.cols = cols
        self.dest = dest            # relative name of a destination directory to create
        self.meta = meta or {}
        self.model = None
        self.impl = None


def at_is_path(c, a):
    """`@name` in a case's argv stands for the absolute path of `name` inside the case directory.  A case whose arguments
    are data that may itself begin with '@' (a wildcard such as `@b{2b`) sets `literal_at`: then only the names the case
    declares (its files, its destination) are paths."""
    if not getattr(c, 'literal_at', False):
        return True
    n = a[1:].decode('latin-1')
    return n in c.files or n == c.dest or n.split('/')[0] in c.files


def parse_model_line(line):
    if line.startswith('unmodelled'):
        return {'unmodelled': line}
    kv = dict(x.split('=', 1) for x in line.split(' ') if '=' in x)
    try:
        files = {}
        if kv.get('files', '-') != '-':
            for ent in kv['files'].split(','):
                p, c = ent.split(':')
                files[unhex(p)] = unhex(c)
        return {'exit': int(kv['exit']), 'err': kv['err'] == '1', 'out': unhex(kv['out']),
                'files': files, 'crash': None if kv['crash'] == '-' else unhex(kv['crash']).decode('latin-1')}
    except Exception:
        return {'bad': line}


def run_cases(cases, impl_bin, kind_env=None, workers=16, timeout=20, model_workers=12):
    """Run every case through the Lean model (one driver process) and the real
    binary (one process per case, in parallel)."""
    root = tempfile.mkdtemp(prefix='beebverif-')
    try:
        for i, c in enumerate(cases):
            reqs = c.reqs = []
            d = os.path.join(root, 'c%d' % i)
            os.makedirs(d)
            c.dir = d
            reqs.append('clearfiles')
            if c.tool == 'basic':
                if c.dest:
                    os.makedirs(os.path.join(d, c.dest), exist_ok=True)
                for name, content in c.files.items():
                    p = os.path.join(d, name)
                    with open(p, 'wb') as f:
                        f.write(content)
                    reqs.append('bfile %s %s' % (hexarg(p), p))
                if c.stdin is not None:
                    sp = os.path.join(d, '.stdin')
                    with open(sp, 'wb') as f:
                        f.write(c.stdin)
                    reqs.append('bstdin %s' % sp)
                else:
                    reqs.append('bstdin -')
                av = []
                for a in c.argv:
                    if isinstance(a, str):
                        a = a.encode('latin-1')
                    if a.startswith(b'@') and at_is_path(c, a):
                        a = os.path.join(d, a[1:].decode('latin-1')).encode('latin-1')
                    av.append(a)
                c.real_argv = av
                c.nreq = len(c.files) + 1
                reqs.append('bmain ' + ' '.join(hexarg(a) for a in av))
                continue
            c.nreq = len(c.files)
            for name, content in c.files.items():
                p = os.path.join(d, name)
                os.makedirs(os.path.dirname(p), exist_ok=True)
                if isinstance(content, Sparse):
                    with open(p, 'wb') as f:
                        f.truncate(content.sectors * 256)
                        for idx, sec in sorted(content.table.items()):
                            f.seek(idx * 256)
                            f.write(sec)
                    with open(p + '.records', 'wb') as f:
                        for idx, sec in sorted(content.table.items()):
                            f.write(idx.to_bytes(4, 'little') + sec)
                    reqs.append('filesparse %s %d %s' % (hexarg(p), content.sectors, p + '.records'))
                    continue
                with open(p, 'wb') as f:
                    f.write(content)
                if name.endswith('.gz'):
                    try:
                        raw = gunzip_first_member(content)
                        rp = p + '.inflated'
                        with open(rp, 'wb') as f:
                            f.write(raw)
                        reqs.append('file %s raw %s' % (hexarg(p), rp))
                    except Exception:
                        reqs.append('file %s gzbad -' % hexarg(p))
                else:
                    reqs.append('file %s raw %s' % (hexarg(p), p))
            if c.dest:
                os.makedirs(os.path.join(d, c.dest), exist_ok=True)
            av = []
            for a in c.argv:
                if isinstance(a, str):
                    a = a.encode('latin-1')
                if a.startswith(b'@') and at_is_path(c, a):
                    a = os.path.join(d, a[1:].decode('latin-1')).encode('latin-1')
                av.append(a)
            c.real_argv = av
            reqs.append('main %d %s %s' % (1 if c.ndebug else 0, c.cols if c.cols else '-', ' '.join(hexarg(a) for a in av)))
        # the model: several driver processes, each serving a contiguous share of the cases
        nproc = max(1, min(model_workers, len(cases) // 8))
        shares = [cases[k::nproc] for k in range(nproc)]

        def serve(share):
            reqs = [rq for c in share for rq in c.reqs]
            out, rc, err = run_lines(driver_path(), reqs, timeout=3600)
            if rc != 0 or len(out) != len(reqs):
                raise RuntimeError('model driver failed rc=%s (%d/%d): %s' % (rc, len(out), len(reqs), err[-500:]))
            k = 0
            for c in share:
                k += len(c.reqs)
                c.model = parse_model_line(out[k - 1])
        with cf.ThreadPoolExecutor(max_workers=nproc) as ex:
            model_futures = [ex.submit(serve, sh) for sh in shares]
            for f in model_futures:
                f.result()

        def one(c):
            env = {'COLUMNS': str(c.cols)} if c.cols else {}
            if kind_env:
                env.update(kind_env)
            before = set()
            if c.dest:
                before = set(os.listdir(os.path.join(c.dir, c.dest)))
            binary = impl_bin[c.tool] if isinstance(impl_bin, dict) else impl_bin
            rc, so, se = run_cmd([binary] + c.real_argv, stdin=(c.stdin or b''), env=env, timeout=timeout, cwd=c.dir,
                                 stdin_seekable=getattr(c, 'stdin_seekable', False))
            files = {}
            if c.dest:
                dd = os.path.join(c.dir, c.dest)
                for rootd, ds, fs in os.walk(dd):
                    for f in fs:
                        p = os.path.join(rootd, f)
                        files[p.encode('latin-1')] = open(p, 'rb').read()
            c.impl = {'exit': rc, 'out': so, 'err': se, 'files': files}
        with cf.ThreadPoolExecutor(max_workers=workers) as ex:
            list(ex.map(one, cases))
    finally:
        shutil.rmtree(root, ignore_errors=True)
    return cases


def gunzip_first_member(data):
    """Reference for "what a .gz file holds" (RFC 1952): the concatenation of its members;
    bytes after the last member that do not start another member (no 1F 8B magic) are
    ignored, as gzip(1) does; a damaged or incomplete member is an error.
    (The name is historical: until the multi-member repair dfs read the first member only.)"""
    import zlib
    out = b''
    first = True
    while True:
        d = zlib.decompressobj(16 + zlib.MAX_WBITS)
        out += d.decompress(data)
        if not d.eof:
            raise ValueError('incomplete')
        data = d.unused_data
        first = False
        if len(data) >= 2 and data[0] == 0x1F and data[1] == 0x8B:
            continue
        return out


def crashed(rc, stderr):
    """Did the real binary end by signal / abort / sanitizer report?"""
    if rc < 0 or rc in (98, 99, 134, 139):
        return True
    s = stderr if isinstance(stderr, str) else stderr.decode('latin-1', 'replace')
    return 'AddressSanitizer' in s or 'runtime error:' in s or 'terminate called' in s or 'Assertion' in s


# ----------------------------------------------------------------- oracle-spec tie
# The oracles that search for failing inputs are written in Python; the property theorems are stated against the Lean
# specs (lean/Beeb/Spec).  Every time a Python oracle computes an expectation it also queues the same question for the
# Lean spec (`spec …` requests of the driver); the runner evaluates the queue after the property module has run and a
# difference is reported as a broken tie (the oracle no longer says what the theorems are about).
SPEC_QUEUE = {}
SPEC_CAP = int(os.environ.get('VERIF_SPEC_CAP', '6000'))
SPEC_STATS = {'queued': 0, 'dropped': 0}


def spec_tie(request, expected):
    """queue `spec <request>`; `expected` is the response line the Python oracle predicts"""
    SPEC_STATS['queued'] += 1
    if request in SPEC_QUEUE:
        return
    kind = request.split(' ', 1)[0]
    if sum(1 for k in SPEC_QUEUE if k.startswith(kind + ' ')) >= SPEC_CAP // 4 or len(request) > 300000:
        SPEC_STATS['dropped'] += 1
        return
    SPEC_QUEUE[request] = expected


def spec_flush():
    """-> (number compared, per-kind counts, [(request, python, lean)] differences, error text or None)"""
    items = list(SPEC_QUEUE.items())
    SPEC_QUEUE.clear()
    if not items:
        return 0, {}, [], None
    reqs = ['spec ' + k for k, _ in items]
    nproc = max(1, min(8, len(reqs) // 200))
    shares = [list(range(k, len(reqs), nproc)) for k in range(nproc)]
    outs = [None] * len(reqs)

    def serve(idx):
        out, rc, err = run_lines(driver_path(), [reqs[i] for i in idx], timeout=1800)
        if rc != 0 or len(out) != len(idx):
            raise RuntimeError('model driver failed on spec requests rc=%s (%d/%d): %s' % (rc, len(out), len(idx), err[-300:]))
        for i, o in zip(idx, out):
            outs[i] = o
    try:
        with cf.ThreadPoolExecutor(max_workers=nproc) as ex:
            for f in [ex.submit(serve, sh) for sh in shares]:
                f.result()
    except Exception as e:
        return 0, {}, [], str(e)
    kinds = {}
    diffs = []
    for (k, exp), got in zip(items, outs):
        kd = k.split(' ', 1)[0]
        kinds[kd] = kinds.get(kd, 0) + 1
        if got != exp:
            diffs.append((k[:2000], exp[:2000], (got or '')[:2000]))
    return len(items), kinds, diffs, None
