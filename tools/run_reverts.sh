#!/bin/sh
# Regression seeds from history: revert each `fix:` commit of /repo in the working tree (never committed),
# run the check of the property it was filed under, restore.  One line per fix into seeded/reverts.txt.
cd /verif
: > seeded/reverts.txt
python3 - <<'PY' > /tmp/reverts.list
import json, re
for e in json.load(open('/verif/known_findings.json'))['fixed']:
    m = re.match(r'fixed: property=(C\d\d) ([0-9a-f]{7}) (.*)', e)
    print(m.group(1), m.group(2))
PY
while read id c; do
  git -C /repo diff "$c" "$c^" > /tmp/revert_$c.diff
  if ! git -C /repo apply --check /tmp/revert_$c.diff 2>/dev/null; then
    echo "$id $c revert-does-not-apply-cleanly (later commits touch the same lines)" >> seeded/reverts.txt; rm -f /tmp/revert_$c.diff; continue
  fi
  out=$(tools/try_patch.sh /tmp/revert_$c.diff -- "$id" 2>&1)
  nv=$(echo "$out" | grep -c "^VIOLATION")
  ni=$(echo "$out" | grep -c "no-failing-input-found")
  first=$(echo "$out" | grep -E "violation:|break:|disagreement" | head -1 | cut -c1-160)
  echo "$id $c violations=$nv no_input=$ni :: $first" >> seeded/reverts.txt
  rm -f /tmp/revert_$c.diff
done < /tmp/reverts.list
rm -f /tmp/reverts.list
