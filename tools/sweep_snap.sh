#!/bin/sh
# For `vp run -- tools/sweep_snap.sh 2 3 5`: every quick check on the unchanged /repo at each of the given seeds (false-alarm hunt).
(cd lean && lake build Beeb beebdrv) >/dev/null 2>&1
ids=$(python3 -c "import json; print(' '.join(c['property_id'] for c in json.load(open('MANIFEST.json'))['checks']))")
for seed in "$@"; do
  for id in $ids; do
    out=$(VERIF_SEED=$seed ./check "$id" --tier quick 2>&1 | grep -E "^VIOLATION|violation:|break:|disagreement| -> " | cut -c1-300 | tr '\n' ' ')
    echo "seed=$seed $out"
  done
done
