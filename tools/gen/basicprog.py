"""Abstract BBC BASIC programs, their encoding per doc/bbcbasic.5 and the listing the
manual defines (independent Python reference for the C03/C09 oracles)."""
import re

DIALECTS = {  # name -> (index in the C enum, big-endian?, canonical table name)
    '6502': (0, True, '6502'), '32000': (0, True, '6502'), 'PDP11': (5, True, 'PDP11'),
    'Z80': (1, False, 'Z80'), '8086': (1, False, 'Z80'), 'ARM': (2, True, 'ARM'),
    'Windows': (3, False, 'Windows'), 'SDL': (3, False, 'Windows'), 'MacOSX': (3, False, 'Windows'), 'Mac': (4, True, 'Mac'),
}
SPECIAL = ('__invalid__', '__line_num__', '__fastvar__', '__c6__', '__c7__', '__c8__', '__pdp__')


def parse_token_dump(text):
    """output of `bbcbasic_to_text -D -` -> {dialect: {map: {byte: bytes or marker str}}}"""
    t = {}
    for line in text.split('\n'):
        m = re.match(r'^(\S+) \((\w+) map\): 0x([0-9A-F]{2})->(.*)$', line)
        if m:
            d, mp, idx, dest = m.group(1), m.group(2), int(m.group(3), 16), m.group(4)
            if dest == '(maps to itself)':
                v = bytes([idx])
            elif dest in SPECIAL:
                v = dest
            else:
                v = dest.encode('latin-1')
            t.setdefault(d, {}).setdefault(mp, {})[idx] = v
            continue
        m = re.match(r'^(\S+) \((\w+) map\): dialect has no valid tokens', line)
        if m:
            t.setdefault(m.group(1), {})[m.group(2)] = {i: '__invalid__' for i in range(256)}
    return t


def encode_ref(n):
    hi, lo = (n >> 8) & 255, n & 255
    return bytes([(((lo & 0xC0) >> 2) | ((hi & 0xC0) >> 4)) ^ 0x54, (lo & 0x3F) | 0x40, (hi & 0x3F) | 0x40])


class Item:
    def __init__(self, kind, *a):
        self.kind = kind
        self.a = a

    def encode(self):
        k, a = self.kind, self.a
        if k in ('lit', 'tok'):
            return bytes([a[0]])
        if k == 'ext':
            return bytes([a[0], a[1]])
        if k == 'pdpquit':
            return b'\xC8\x98'
        if k == 'pdpload':
            return b'\xC8'
        if k == 'ref':
            return b'\x8D' + encode_ref(a[0])
        if k == 'str':
            return b'"' + a[0] + (b'"' if a[1] else b'')
        raise ValueError(k)

    def render(self, tbl):
        k, a = self.kind, self.a
        if k == 'lit':
            return bytes([a[0]])
        if k == 'tok':
            return tbl['base'][a[0]]
        if k == 'ext':
            return tbl[{0xC6: 'c6', 0xC7: 'c7', 0xC8: 'c8'}[a[0]]][a[1]]
        if k == 'pdpquit':
            return b'QUIT'
        if k == 'pdpload':
            return b'LOAD'
        if k == 'ref':
            return b'%d' % a[0]
        if k == 'str':
            return b'"' + a[0] + (b'"' if a[1] else b'')


class Line:
    def __init__(self, num, items):
        self.num = num
        self.items = items

    def data(self):
        return b''.join(i.encode() for i in self.items)

    def count(self, tok):
        return sum(1 for i in self.items if i.kind == 'tok' and i.a[0] == tok)


def encode(lines, big_endian):
    out = bytearray()
    for l in lines:
        d = l.data()
        if big_endian:
            out += bytes([0x0D, l.num >> 8, l.num & 255, len(d) + 4]) + d
        else:
            out += bytes([len(d) + 4, l.num & 255, l.num >> 8]) + d + b'\r'
    out += b'\x0D\xFF' if big_endian else b'\x00\xFF\xFF'
    return bytes(out)


def spec_request(lines, dialect_idx, listo):
    """the program in the line protocol of the driver's `spec basic` request (Beeb.Spec.BasicProg)"""
    def item(i):
        k, a = i.kind, i.a
        return {'lit': lambda: 'l%d' % a[0], 'tok': lambda: 't%d' % a[0], 'ext': lambda: 'e%d.%d' % (a[0], a[1]), 'pdpquit': lambda: 'q',
                'pdpload': lambda: 'o', 'ref': lambda: 'r%d' % a[0], 'str': lambda: 's%s.%d' % (a[0].hex() or '-', 1 if a[1] else 0)}[k]()
    prog = ';'.join('%d:%s' % (l.num, ','.join(item(i) for i in l.items)) for l in lines) or '-'
    return 'basic %d %d %s' % (dialect_idx, listo, prog)


def render(lines, tbl, listo, dialect_idx=None):
    """the documented listing; with `dialect_idx` the result (and both encodings) is also queued for comparison
    with the Lean spec (Spec.render over the *documented* token tables, Spec.encodeBE / encodeLE)"""
    out = render_(lines, tbl, listo)
    if dialect_idx is not None:
        import vlib
        vlib.spec_tie(spec_request(lines, dialect_idx, listo), '%s %s %s' % (vlib.hexs(encode(lines, True)), vlib.hexs(encode(lines, False)), vlib.hexs(out)))
    return out


def render_(lines, tbl, listo):
    out = bytearray()
    indent = 0
    for l in lines:
        outdent = (2 * l.count(0xED) if listo & 2 else 0) + (2 * l.count(0xFD) if listo & 4 else 0)
        indent -= outdent
        out += (b'%5d' % l.num) if l.num else b'     '
        if listo & 1:
            out += b' '
        out += b' ' * max(indent, 0)
        for i in l.items:
            out += i.render(tbl)
        out += b'\n'
        indent += (2 * l.count(0xE3) if listo & 2 else 0) + (2 * l.count(0xF5) if listo & 4 else 0)
    return bytes(out)


def valid_tokens(tbl):
    base = tbl['base']
    toks = [b for b in range(0x80, 0x100) if isinstance(base[b], bytes)]
    toks += [b for b in range(1, 0x11) if isinstance(base[b], bytes) and b != 0x0D and base[b] != bytes([b])]
    if isinstance(base[0x7F], bytes) and base[0x7F] != b'\x7f':
        toks.append(0x7F)
    exts = []
    for intro, mp in ((0xC6, 'c6'), (0xC7, 'c7'), (0xC8, 'c8')):
        if base[intro] in ('__c6__', '__c7__', '__c8__'):
            exts += [(intro, b) for b in range(256) if isinstance(tbl[mp][b], bytes)]
    lits = [b for b in range(0x20, 0x7F) if b != 0x22 and base[b] == bytes([b])]
    return toks, exts, lits


def gen_program(r, tbl, big_endian, pdp=False, max_lines=12, loops=True):
    toks, exts, lits = valid_tokens(tbl)
    loop_toks = [t for t in (0xE3, 0xED, 0xF5, 0xFD) if t in toks]
    lines = []
    num = 0
    nlines = r.range(1, max_lines)
    for _ in range(nlines):
        style = r.below(10)
        if style == 0:
            num = 0
        else:
            num = min((num if num else 0) + r.choice([1, 10, 10, 100, 1000, 7]), 65279 if big_endian else 65535)
            if r.chance(1, 30):
                num = r.choice([1, 255, 256, 32767, 32768, 65279 if big_endian else 65535])
        items = []
        budget = r.choice([0, 3, 10, 30, 80, 240])
        while True:
            k = r.below(20)
            if k < 6:
                it = Item('tok', r.choice(toks))
            elif k < 8 and loops and loop_toks:
                it = Item('tok', r.choice(loop_toks))
            elif k < 12:
                it = Item('lit', r.choice(lits))
            elif k < 14 and exts:
                it = Item('ext', *r.choice(exts))
            elif k < 15:
                n = r.choice([0, 1, 255, 256, 261, 16383, 16384, 32767, 32768, 49152, 65535]) if r.chance(1, 2) else r.below(65536)
                it = Item('ref', n)
            elif k < 18:
                ln = r.below(12)
                body = bytes(r.choice([r.range(1, 255), r.range(32, 126), r.choice([0xE3, 0xED, 0xF5, 0xFD, 0x8D, 0xC8])]) for _ in range(ln))
                body = body.replace(b'"', b"'").replace(b'\0', b'?')
                it = Item('str', body, True)
            elif k < 19 and pdp:
                it = Item('pdpquit')
            else:
                it = Item('lit', r.choice(lits))
            if sum(len(i.encode()) for i in items) + len(it.encode()) > budget:
                break
            items.append(it)
        if pdp and r.chance(1, 4) and items and sum(len(i.encode()) for i in items) < 240:
            # LOAD followed by something that is not 0x98
            items.insert(r.below(len(items)), Item('pdpload'))
            for j, it in enumerate(items[:-1]):
                if it.kind == 'pdpload' and items[j + 1].encode()[:1] == b'\x98':
                    items[j + 1] = Item('lit', 0x41)
            if items[-1].kind == 'pdpload':
                items.append(Item('lit', 0x41))
        if r.chance(1, 12) and sum(len(i.encode()) for i in items) < 240:
            items.append(Item('str', bytes(r.range(32, 126) for _ in range(r.below(6))).replace(b'"', b"'"), False))
        lines.append(Line(num, items))
    return lines
