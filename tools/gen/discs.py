"""Abstract discs (the spec side of C01/C02/C13/C14/C17) and their byte-level
encoding as sector-dump images, written from the published DFS / Watford /
Opus DDOS layouts (doc/dfs.1, REFERENCES.md), independently of the C++."""
import os

SECTOR = 256


class AbsFile:
    def __init__(self, dir, name, locked, load, exec_, start, body, length=None):
        self.dir = dir            # int 0..127
        self.name = bytes(name)   # up to 7 bytes, 7-bit
        self.locked = locked
        self.load = load          # 18 bits
        self.exec = exec_         # 18 bits
        self.start = start        # 10 bits, relative to the volume's data origin
        self.body = bytes(body)
        self.length = len(body) if length is None else length   # catalogued length (18 bits)

    def sectors(self):
        return (self.length + 255) // 256

    def name_record(self):
        return (self.name + b' ' * 7)[:7] + bytes([self.dir | (0x80 if self.locked else 0)])

    def meta_record(self):
        mixed = ((self.exec >> 16) & 3) << 6 | ((self.length >> 16) & 3) << 4 | ((self.load >> 16) & 3) << 2 | ((self.start >> 8) & 3)
        return bytes([self.load & 255, (self.load >> 8) & 255, self.exec & 255, (self.exec >> 8) & 255,
                      self.length & 255, (self.length >> 8) & 255, mixed, self.start & 255])

    def shown_name(self):
        out = bytearray()
        for c in (self.name + b' ' * 7)[:7]:
            c &= 0x7F
            if c in (0x20, 0):
                break
            out.append(c)
        return bytes(out)


class AbsCat:
    """One two-sector catalogue: title, cycle, boot option, total sectors and
    the files in catalogue order (descending start sector on a well-formed disc)."""

    def __init__(self, title=b'', cycle=0, opt=0, total=800, files=None):
        self.title = bytes(title)
        self.cycle = cycle
        self.opt = opt
        self.total = total
        self.files = files or []

    def sectors(self, marker=None):
        s0 = bytearray(256)
        s1 = bytearray(256)
        t = (self.title + b'\0' * 12)[:12]
        s0[0:8] = t[0:8]
        s1[0:4] = t[8:12]
        if marker is not None:
            s0[0:8] = marker
        s1[4] = self.cycle
        s1[5] = 8 * len(self.files)
        s1[6] = ((self.opt & 3) << 4) | ((self.total >> 8) & 3) | (((self.total >> 10) & 1) << 2)   # bit 10: Watford large disc
        s1[7] = self.total & 255
        for i, f in enumerate(self.files):
            s0[8 + 8 * i: 16 + 8 * i] = f.name_record()
            s1[8 + 8 * i: 16 + 8 * i] = f.meta_record()
        return bytes(s0), bytes(s1)


class AbsDisc:
    """variant: 'dfs' | 'wdfs' | 'opus'.  cats: for dfs [cat], for wdfs [cat0, cat1],
    for opus {letter_index: (start_track, cat)}."""

    def __init__(self, variant, tracks, spt, sides=1, cats=None, vols=None, interleaved=False):
        self.variant = variant
        self.tracks = tracks
        self.spt = spt
        self.sides = sides
        self.cats = cats or []
        self.vols = vols or {}
        self.interleaved = interleaved
        self.side1 = None     # optional AbsDisc for the second side

    def side_sectors(self):
        return self.tracks * self.spt

    def volumes(self):
        """list of (label or None, origin, length, cat-list)"""
        if self.variant == 'opus':
            out = []
            starts = sorted((st * self.spt, i) for i, (st, c) in self.vols.items())
            total = self.side_sectors() * (self.sides if False else 1)
            for k, (start, i) in enumerate(starts):
                end = starts[k + 1][0] if k + 1 < len(starts) else self.side_sectors()
                out.append((chr(65 + i), start, end - start, [self.vols[i][1]]))
            out.sort()
            return out
        return [(None, 0, self.side_sectors(), self.cats)]

    def all_files(self):
        """(label, origin, vol_len, file) for every catalogued file, catalogue order"""
        out = []
        for label, origin, ln, cats in self.volumes():
            for c in cats:
                for f in c.files:
                    out.append((label, origin, ln, f))
        return out

    def encode_side(self, fill):
        n = self.side_sectors()
        img = bytearray(fill(n * 256))
        if self.variant == 'opus':
            for s in range(18):
                img[s * 256:(s + 1) * 256] = bytes(256)
            s16 = bytearray(256)
            tot = n
            s16[1] = tot >> 8
            s16[2] = tot & 255
            s16[3] = self.spt
            s16[4] = self.tracks
            for i, (st, c) in self.vols.items():
                s16[8 + 2 * i] = st
                a, b = c.sectors()
                img[(2 * i) * 256:(2 * i + 1) * 256] = a
                img[(2 * i + 1) * 256:(2 * i + 2) * 256] = b
            img[16 * 256:17 * 256] = s16
        elif self.variant == 'wdfs':
            a, b = self.cats[0].sectors()
            c, d = self.cats[1].sectors(marker=b'\xAA' * 8)
            img[0:1024] = a + b + c + d
        else:
            a, b = self.cats[0].sectors()
            img[0:512] = a + b
        for label, origin, ln, f in self.all_files():
            off = (origin + f.start) * 256
            if off + len(f.body) <= len(img):
                img[off:off + len(f.body)] = f.body
            else:
                img[off:] = f.body[:max(0, len(img) - off)]
        return bytes(img)

    def encode(self, fill):
        s0 = self.encode_side(fill)
        if self.sides == 1 or self.side1 is None:
            return s0
        s1 = self.side1.encode_side(fill)
        if not self.interleaved:
            return s0 + s1
        out = bytearray()
        t = self.spt * 256
        for tr in range(self.tracks):
            out += s0[tr * t:(tr + 1) * t] + s1[tr * t:(tr + 1) * t]
        return bytes(out)

    def extension(self):
        dd = self.spt != 10
        if self.sides == 2 and self.interleaved:
            return '.ddd' if dd else '.dsd'
        return '.sdd' if dd else '.ssd'


NAME_CHARS = b'ABCDEFGHIJKLMNOPQRSTUVWXYZabcdefghijklmnopqrstuvwxyz0123456789!$%&()+-=@^_{}~'


def rand_name(r, used, hostile=False):
    for _ in range(200):
        n = r.range(1, 7)
        if hostile and r.chance(1, 2):
            name = bytes(r.range(0x21, 0x7E) for _ in range(n))
        else:
            name = bytes(r.choice(NAME_CHARS) for _ in range(n))
        d = r.choice(b'$$$$ABab!Z') if not hostile else r.range(0x21, 0x7E)
        key = (chr(d).lower(), name.lower())
        if key not in used and b' ' not in name:
            used.add(key)
            return d, name
    raise RuntimeError('name generation')


def rand_body(r, n):
    style = r.below(4)
    if style == 0:
        lines = bytearray()
        while len(lines) < n:
            lines += bytes(r.range(32, 126) for _ in range(r.below(40))) + b'\r'
        return bytes(lines[:n])
    if style == 1:
        return bytes([r.below(256)]) * n
    return r.bytes(n)


LEN_CLASSES = [0, 1, 255, 256, 257, 511, 512, 513, 1000, 4096, 65535, 65536, 65537, 100000, 200000]


def layout_files(r, nfiles, first_free, limit, used_names, hostile=False, dense=False):
    """Lay out nfiles files in [first_free, limit) in increasing sector order;
    returns list of AbsFile in increasing start order."""
    files = []
    pos = first_free
    for k in range(nfiles):
        remaining = limit - pos
        if remaining <= 0:
            break
        gap = 0 if (dense or r.chance(1, 2)) else r.below(min(remaining, 1 + r.choice([1, 2, 5, 40])))
        pos += gap
        remaining = limit - pos
        if remaining <= 0:
            break
        ln = r.choice(LEN_CLASSES) if r.chance(1, 2) else r.below(3000)
        maxlen = remaining * 256
        # leave room for the files still to come
        maxlen = max(0, min(maxlen, (remaining - (nfiles - k - 1)) * 256))
        if ln > maxlen:
            ln = maxlen if r.chance(1, 2) else r.below(maxlen + 1)
        if ln == 0 and r.chance(2, 3):
            ln = 1 + r.below(max(1, min(maxlen, 600))) if maxlen > 0 else 0
        d, name = rand_name(r, used_names, hostile)
        hi = r.choice([0, 0, 3, 3, 1, 2])
        load = (hi << 16) | r.below(65536)
        hi2 = r.choice([0, 3, hi])
        ex = (hi2 << 16) | r.below(65536)
        f = AbsFile(d, name, r.chance(1, 4), load, ex, pos, rand_body(r, ln))
        files.append(f)
        pos += f.sectors()
    return files


GEOMS = [(40, 10), (80, 10), (35, 10), (40, 18), (80, 18), (35, 18), (40, 16), (80, 16)]


def rand_title(r):
    n = r.choice([0, 3, 8, 9, 12, 12])
    return bytes(r.choice(b'ABCDEFGHIJKLMNOPQRSTUVWXYZ abcdefghij0123456789-') for _ in range(n)).rstrip(b' ')


def gen_disc(r, variant=None, hostile=False, max_files=None, geom=None, total=None, opus_nvol=None, opus_style=None, opus_reorder=None):
    variant = variant or r.choice(['dfs', 'dfs', 'wdfs', 'wdfs', 'opus'])
    used = set()
    if variant == 'opus':
        tracks = r.choice([40, 80, 35])
        spt = 18
        d = AbsDisc('opus', tracks, spt)
        nvol = opus_nvol or r.choice([1, 1, 2, 3, 8])
        # which letters exist: A.. without a gap; or with letters missing before present ones (a deleted volume leaves its slot of the
        # volume table empty - the catalogue of letter i still lives in sectors 2i, 2i+1); dealt in turn (balanced choice)
        style = opus_style or r.choice(['contiguous', 'gap', 'contiguous', 'gap-after-a'])
        if style == 'gap' and nvol < 8:
            letters = sorted(r.shuffle(list(range(8)))[:nvol])
        elif style == 'gap-after-a' and 2 <= nvol < 7:
            letters = [0] + sorted(r.shuffle(list(range(2, 8)))[:nvol - 1])
        else:
            letters = list(range(nvol))
        # start tracks strictly increasing from 1
        cuts = sorted(r.shuffle(list(range(2, tracks)))[:nvol - 1])
        starts = [1] + cuts
        ends = cuts + [tracks]
        # the volume table gives each letter its own start track: the letters need not lie on the disc in alphabetical order
        if nvol > 1 and (r.chance(1, 2) if opus_reorder is None else opus_reorder):
            perm = r.shuffle(list(range(nvol)))
            if opus_reorder and perm == sorted(perm):
                perm = perm[::-1]
            starts = [starts[j] for j in perm]
            ends = [ends[j] for j in perm]
        for k, i in enumerate(letters):
            vlen = (ends[k] - starts[k]) * spt
            tot = min(vlen, 1023)
            nf = r.below(min(31, max_files if max_files is not None else 31) + 1) if r.chance(2, 3) else r.below(4)
            files = layout_files(r, nf, 0, tot, used, hostile)
            files.reverse()
            d.vols[i] = (starts[k], AbsCat(rand_title(r), r.below(100), r.below(4), tot, files))
        return d
    tracks, spt = geom or r.choice(GEOMS if variant == 'dfs' else GEOMS[:6])
    side = tracks * spt
    if total is None:
        total = min(side, 1023) if r.chance(3, 4) else r.range(5 if variant == 'dfs' else 7, min(side, 1023))
    d = AbsDisc(variant, tracks, spt)
    if variant == 'wdfs':
        mf = max_files if max_files is not None else 62
        n = r.below(mf + 1) if r.chance(2, 3) else r.below(5)
        files = layout_files(r, n, 4, total, used, hostile, dense=r.chance(1, 4))
        n = len(files)
        n0 = min(31, r.below(n + 1)) if r.chance(3, 4) else min(n, 31)
        if n - n0 > 31:
            n0 = n - 31
        lo, hi = files[:n0], files[n0:]
        lo.reverse()
        hi.reverse()
        d.cats = [AbsCat(rand_title(r), r.below(100), r.below(4), total, lo),
                  AbsCat(b'', 0, 0, total, hi)]
    else:
        mf = max_files if max_files is not None else 31
        n = r.below(mf + 1) if r.chance(2, 3) else r.below(5)
        files = layout_files(r, n, 2, total, used, hostile, dense=r.chance(1, 4))
        files.reverse()
        d.cats = [AbsCat(rand_title(r), r.below(100), r.below(4), total, files)]
    return d


def filler(r):
    style = r.below(3)
    if style == 0:
        return lambda n: bytes(n)
    if style == 1:
        b = r.range(1, 255)
        return lambda n: bytes([b]) * n
    rr = r.fork()
    return lambda n: rr.bytes(n)
