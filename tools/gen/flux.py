"""Flux-level encoders (the spec side of C05/C06): IBM 3740 FM and System 34 MFM
track formats, and the HFE v1/v3 and HxC MFM container formats, written from
the published format descriptions (HxC HFE file format rev 1.1 / v3, IBM
formats), independently of the C++ decoders."""


def crc_ccitt(data, crc=0xFFFF):
    for b in data:
        crc ^= b << 8
        for _ in range(8):
            crc = ((crc << 1) ^ 0x1021) & 0xFFFF if crc & 0x8000 else (crc << 1) & 0xFFFF
    return crc


# ------------------------------------------------------------------ FM
def fm_byte(data, clock=0xFF):
    """16 cells: c7 d7 c6 d6 … c0 d0"""
    out = []
    for i in range(7, -1, -1):
        out.append((clock >> i) & 1)
        out.append((data >> i) & 1)
    return out


def fm_bytes(bs, clock=0xFF):
    out = []
    for b in bs:
        out += fm_byte(b, clock)
    return out


class TrackLayout:
    def __init__(self, gap1=16, sync=6, gap2=11, gap3=21, gap4=40, fill=0xFF, order=None, size_code=None,
                 deleted=None, mfm=False):
        self.gap1, self.sync, self.gap2, self.gap3, self.gap4 = gap1, sync, gap2, gap3, gap4
        self.fill = fill
        self.order = order
        self.size_code = size_code      # None: from the length of each sector's data
        self.deleted = deleted or set()
        self.mfm = mfm


def size_code_of(lay, data):
    if lay.size_code is not None:
        return lay.size_code
    return {128: 0, 256: 1, 512: 2, 1024: 3}.get(len(data), 1)


def fm_track(cyl, head, sectors, lay):
    """sectors: {record: 256-byte data}; returns list of cells (clock/data interleaved)"""
    cells = fm_bytes([lay.fill] * lay.gap1)
    order = lay.order or sorted(sectors)
    for rec in order:
        data = sectors[rec]
        cells += fm_bytes([0x00] * lay.sync)
        idf = bytes([0xFE, cyl, head, rec, size_code_of(lay, data)])
        c = crc_ccitt(idf)
        cells += fm_byte(0xFE, 0xC7)
        cells += fm_bytes(list(idf[1:]) + [c >> 8, c & 255])
        cells += fm_bytes([lay.fill] * lay.gap2)
        cells += fm_bytes([0x00] * lay.sync)
        mark = 0xF8 if rec in lay.deleted else 0xFB
        c = crc_ccitt(bytes([mark]) + bytes(data))
        cells += fm_byte(mark, 0xC7)
        cells += fm_bytes(list(data) + [c >> 8, c & 255])
        cells += fm_bytes([lay.fill] * lay.gap3)
    cells += fm_bytes([lay.fill] * lay.gap4)
    return cells


# ------------------------------------------------------------------ MFM
def mfm_encode(bs, prev=0, sync_a1=()):
    """bytes -> cells with MFM clocking; indices in sync_a1 are A1 bytes with the
    missing clock (0x4489).  Returns (cells, last data bit)."""
    out = []
    for k, b in enumerate(bs):
        if k in sync_a1:
            v = 0x4489
            out += [(v >> i) & 1 for i in range(15, -1, -1)]
            prev = 1
            continue
        for i in range(7, -1, -1):
            d = (b >> i) & 1
            c = 0 if (prev or d) else 1
            out += [c, d]
            prev = d
    return out, prev


def mfm_track(cyl, head, sectors, lay):
    cells, prev = mfm_encode([lay.fill if lay.fill != 0xFF else 0x4E] * lay.gap1)
    fill = lay.fill if lay.fill != 0xFF else 0x4E
    order = lay.order or sorted(sectors)
    for rec in order:
        data = sectors[rec]
        c, prev = mfm_encode([0x00] * max(lay.sync, 2), prev)
        cells += c
        idf = bytes([0xA1, 0xA1, 0xA1, 0xFE, cyl, head, rec, size_code_of(lay, data)])
        crc = crc_ccitt(idf)
        c, prev = mfm_encode(list(idf) + [crc >> 8, crc & 255], prev, sync_a1=(0, 1, 2))
        cells += c
        c, prev = mfm_encode([fill] * max(lay.gap2, 1), prev)
        cells += c
        c, prev = mfm_encode([0x00] * max(lay.sync, 2), prev)
        cells += c
        mark = 0xF8 if rec in lay.deleted else 0xFB
        df = bytes([0xA1, 0xA1, 0xA1, mark]) + bytes(data)
        crc = crc_ccitt(df)
        c, prev = mfm_encode(list(df) + [crc >> 8, crc & 255], prev, sync_a1=(0, 1, 2))
        cells += c
        c, prev = mfm_encode([fill] * max(lay.gap3, 1), prev)
        cells += c
    c, prev = mfm_encode([fill] * lay.gap4, prev)
    cells += c
    return cells


# ------------------------------------------------------------------ containers
def pack_lsb(bits):
    out = bytearray((len(bits) + 7) // 8)
    for i, b in enumerate(bits):
        if b:
            out[i >> 3] |= 1 << (i & 7)
    return bytes(out)


def pack_msb(bits):
    out = bytearray((len(bits) + 7) // 8)
    for i, b in enumerate(bits):
        if b:
            out[i >> 3] |= 0x80 >> (i & 7)
    return bytes(out)


def hfe_side_bits(cells, fm):
    """HFE stores FM at twice the cell rate: every FM cell b becomes (0, b)"""
    if fm:
        bits = []
        for b in cells:
            bits += [0, b]
        return bits
    return list(cells)


def hfe_side_bytes(cells, fm):
    return pack_lsb(hfe_side_bits(cells, fm))


def _rev(b):
    return int('{:08b}'.format(b)[::-1], 2)


def v3_items(bits, r, density, straddle=False, skipbits=True, bad_skip=False):
    """cut one side's cell stream (time order) into HFEv3 items, sprinkling opcodes between cell
    bytes: ('n',) NOP, ('i',) SETINDEX, ('r', v) SETBITRATE, ('s', k, b) SKIPBITS k then a byte
    whose first k cells (in time) are junk, ('c', b) a byte of eight cells.  Cell bytes are
    LSB-first in time; opcode values are defined on the bit-reversed byte.  Unless `straddle`
    is set, an opcode and its operand stay inside one 256-byte block of the side's stream."""
    items = []
    stored = 0            # bytes emitted so far
    pos = 0
    n = len(bits)

    def emit(it):
        nonlocal stored
        items.append(it)
        stored += {'c': 1, 'n': 1, 'i': 1, 'r': 2, 's': 3, 'x': 2}[it[0]]

    while pos < n:
        if density and r.below(density) == 0:
            k = r.below(4 if skipbits else 3)
            two = k >= 2
            if two and not straddle and stored % 256 >= 254:
                while stored % 256 != 0:
                    emit(('n',))
            if two and straddle and stored % 256 >= 240:
                while stored % 256 != 255:
                    emit(('n',))
            if bad_skip and r.chance(1, 6):
                emit(('x', r.choice([8, 9, 0x40, 0xEF])))      # SKIPBITS with an operand that is not a bit count: ignored (and reported)
            elif k == 0:
                emit(('n',))
            elif k == 1:
                emit(('i',))
            elif k == 2:
                emit(('r', r.below(256)))         # the operand is an arbitrary byte, including ones that look like opcodes
            else:
                sk = r.below(8)
                chunk = [r.below(2) for _ in range(sk)] + list(bits[pos:pos + 8 - sk])
                pos += 8 - sk
                chunk += [0] * (8 - len(chunk))
                b = sum(bit << i for i, bit in enumerate(chunk))
                if (_rev(b) & 0xF0) == 0xF0 and sk:
                    chunk[0] ^= 1        # would read as an opcode: flip a junk bit
                    b = sum(bit << i for i, bit in enumerate(chunk))
                emit(('s', sk, b))
                continue
        chunk = list(bits[pos:pos + 8])
        pos += 8
        chunk += [0] * (8 - len(chunk))
        emit(('c', sum(bit << i for i, bit in enumerate(chunk))))
    return items


def v3_bytes(items):
    out = bytearray()
    for it in items:
        if it[0] == 'c':
            out.append(it[1])
        elif it[0] == 'n':
            out.append(_rev(0xF0))
        elif it[0] == 'i':
            out.append(_rev(0xF1))
        elif it[0] == 'r':
            out += bytes([_rev(0xF2), _rev(it[1])])
        elif it[0] == 'x':
            out += bytes([_rev(0xF3), _rev(it[1])])
        else:
            out += bytes([_rev(0xF3), _rev(it[1]), it[2]])
    return bytes(out)


def v3_items_text(items):
    return ','.join(':'.join(str(x) for x in it) for it in items) or '-'


def hfe_v3_pack(bits, r, density, straddle=False, skipbits=True, bad_skip=False):
    return v3_bytes(v3_items(bits, r, density, straddle, skipbits, bad_skip))


def hfe_image(tracks, sides, fm, v3=False, pad_last=True, opcode_rng=None, opcode_density=0, header_overrides=None, straddle=False, skipbits=True, lut_exact=False, bad_skip=False):
    """tracks: list (per track) of list (per side) of cell lists"""
    hdr = bytearray(512)
    hdr[:] = b'\xFF' * 512
    hdr[0:8] = b'HXCHFEV3' if v3 else b'HXCPICFE'
    hdr[8] = 0
    hdr[9] = len(tracks)
    hdr[10] = sides
    hdr[11] = 2 if fm else 0
    hdr[12:14] = (250).to_bytes(2, 'little')
    hdr[14:16] = (300).to_bytes(2, 'little')
    hdr[16] = 7
    hdr[17] = 1
    hdr[18:20] = (1).to_bytes(2, 'little')
    hdr[20] = 0xFF
    hdr[21] = 0xFF
    hdr[22:26] = b'\xFF' * 4
    for k, v in (header_overrides or {}).items():
        hdr[k] = v
    lut = bytearray(512 * ((len(tracks) * 4 + 511) // 512 or 1))
    lut[:] = b'\xFF' * len(lut)
    body = bytearray()
    base = 1 + len(lut) // 512
    for t, per_side in enumerate(tracks):
        streams = []
        for sd in range(sides):
            if v3 and opcode_rng is not None and opcode_density:
                s = hfe_v3_pack(hfe_side_bits(per_side[sd], fm), opcode_rng, opcode_density, straddle, skipbits, bad_skip)
            else:
                s = hfe_side_bytes(per_side[sd], fm)
            streams.append(s)
        n = max(len(s) for s in streams)
        nblk = (n + 255) // 256
        data = bytearray()
        for b in range(nblk):
            for sd in range(2):
                chunk = streams[sd][b * 256:(b + 1) * 256] if sd < sides else b''
                last = (b == nblk - 1)
                if last and not pad_last and t == len(tracks) - 1 and sd == 1:
                    data += chunk
                else:
                    data += chunk.ljust(256, b'\x00' if not fm else b'\x00')
        off = base + len(body) // 512
        tl = len(data) if (pad_last or t != len(tracks) - 1) else nblk * 512
        if lut_exact:
            tl = 2 * n          # the LUT records the bytes of track data (both sides), not the 512-byte blocks they occupy
        lut[4 * t:4 * t + 2] = off.to_bytes(2, 'little')
        lut[4 * t + 2:4 * t + 4] = tl.to_bytes(2, 'little')
        body += data
        if len(body) % 512 and t != len(tracks) - 1:
            body += bytes(512 - len(body) % 512)
    return bytes(hdr) + bytes(lut) + bytes(body)


def hxcmfm_image(tracks, sides, gap_rng=None, shuffle=False):
    """tracks: list (per track) of list (per side) of MFM cell lists"""
    ntr = len(tracks)
    hdr = bytearray(b'HXCMFM\x00')
    hdr += ntr.to_bytes(2, 'little') + bytes([sides]) + (300).to_bytes(2, 'little') + (250).to_bytes(2, 'little') + bytes([4])
    tl_off = 0x13
    hdr += tl_off.to_bytes(4, 'little')
    keys = [(t, sd) for t in range(ntr) for sd in range(sides)]
    blob_of = {k: pack_msb(tracks[k[0]][k[1]]) for k in keys}
    place = list(keys)
    if shuffle and gap_rng is not None:
        place = gap_rng.shuffle(place)          # the order of the track data in the file need not be the order of the list
    off = tl_off + 11 * ntr * sides
    where = {}
    body = bytearray()
    for k in place:
        if gap_rng is not None:
            pad = gap_rng.choice([0, 0, 1, 3, 512 - (off % 512) if off % 512 else 0, (4 - off % 4) % 4])
            body += bytes(gap_rng.below(256) for _ in range(pad))
            off += pad
        where[k] = off
        body += blob_of[k]
        off += len(blob_of[k])
    entries = bytearray()
    for (t, sd) in keys:
        entries += t.to_bytes(2, 'little') + bytes([sd]) + len(blob_of[(t, sd)]).to_bytes(4, 'little') + where[(t, sd)].to_bytes(4, 'little')
    return bytes(hdr) + bytes(entries) + bytes(body)


def tracks_of_image(img, ntracks, spt, sides, mfm, lay_for=None, interleaved_sides=False):
    """cut a sector-dump image (side 0 then side 1, non-interleaved) into flux tracks"""
    out = []
    side_len = ntracks * spt * 256
    for t in range(ntracks):
        per = []
        for sd in range(sides):
            base = sd * side_len + t * spt * 256
            secs = {r: img[base + r * 256: base + (r + 1) * 256].ljust(256, b'\0') for r in range(spt)}
            lay = lay_for(t, sd) if lay_for else TrackLayout(mfm=mfm)
            per.append(mfm_track(t, sd, secs, lay) if mfm else fm_track(t, sd, secs, lay))
        out.append(per)
    return out
