#!/usr/bin/env python3
"""(Re)write seeded/<id>/meta.json from README.md + seeded/results.txt and print the DESIGN.md table (13.7)."""
import json, os, re, sys
V = os.path.dirname(os.path.dirname(os.path.abspath(__file__)))
res = {}
for l in open(os.path.join(V, 'seeded', 'results.txt')):
    m = re.match(r'(C\d\d-\d+) verdict=(\S*) violations=(\d+) no_input=(\d+) :: ?(.*)', l.strip())
    if m:
        res[m.group(1)] = m.groups()[1:]
HARMLESS = {
 'C06-2': 'harmless on the repaired tree: the 80-byte header-to-record bound (fix 4e4d008) drops the stale address before a foreign record can be paired with it; its own demonstration passes on HEAD+patch, so no alarm is expected and none is raised',
 'C04-1': 'harmless on the repaired tree for users: Volume::Access rejects lba >= len (fix 11bfc4c) and an over-long catalogue makes the drive unmountable, so no command can request a sector beyond the surface; its own demonstration passes on HEAD+patch. The regenerated leaf no longer matches the C04 proofs, so the check reports a proof break without a failing input',
 'C17-1': 'same mechanism as C04-1 (FileView bound): harmless on the repaired tree, demonstration passes; reported as a proof break without a failing input',
 'C11-2': 'harmless since fix be6a0dc (main() asks ferror(stdout), which stays set after the per-file fflush failed): its own demonstration passes on HEAD+patch, so no alarm is expected and none is raised',
 'C11-3': 'harmless since fix be6a0dc (same reason as C11-2): its own demonstration passes on HEAD+patch',
 'C11-7': 'harmless since fix be6a0dc (same reason as C11-2): its own demonstration passes on HEAD+patch',
}
NOT_REPORTED_OK = ('C06-2', 'C11-2', 'C11-3', 'C11-7')
rows = []
for m in sorted(os.listdir(os.path.join(V, 'seeded'))):
    d = os.path.join(V, 'seeded', m)
    if not os.path.isfile(os.path.join(d, 'patch.diff')):
        continue
    readme = open(os.path.join(d, 'README.md')).read()
    title = readme.split('\n')[0].lstrip('# ').strip()
    mm = re.search(r'##+ (?:What it needs|Needs|What is needed|Trigger)[^\n]*\n(.*?)(\n##+ |\Z)', readme, re.S | re.I)
    needs = ' '.join(mm.group(1).split())[:900] if mm else ''
    pid = m.split('-')[0]
    verdict, nv, ni, first = res.get(m, ('?', '0', '0', ''))
    first = first.strip()
    if m not in res:
        outcome = 'not-run-in-the-latest-runs'
    elif m in HARMLESS:
        outcome = 'not-reported' if m in NOT_REPORTED_OK else 'reported-without-failing-input'
    elif first.startswith('violation:'):
        outcome = 'detected-with-failing-input'
    elif first:
        outcome = 'reported-without-failing-input'
    else:
        outcome = 'not-reported'
    meta = {'property': pid, 'title': title, 'round': {1: 1, 2: 1, 3: 2, 4: 2, 5: 2, 6: 3, 7: 3}.get(int(m.split('-')[1]), 4), 'needs_to_manifest': needs,
            'what_i_ran': ['tools/demo_mutant.sh /verif/seeded/%s   # HEAD+patch in a scratch worktree: 39/39 tests pass; demonstration.sh exits non-zero (property violated)' % m,
                           'tools/run_mutants_snap.sh %s (under `vp run --with-repo`: patch applied to the run\'s snapshot of /repo, ./check %s --tier quick with VERIF_REPO pointing at it, patch removed) '
                           'or, for changes re-checked by hand after a generator was strengthened (seeded/manual_results.txt), the same with a scratch worktree of /repo; earlier sessions: tools/try_patch.sh (git -C /repo apply; check; git -C /repo checkout -- .)' % (m, pid)],
            'check_outcome': outcome, 'first_report': first[:300], 'note': HARMLESS.get(m, '')}
    json.dump(meta, open(os.path.join(d, 'meta.json'), 'w'), indent=1)
    rows.append((m, title, outcome, first))
if '--table' in sys.argv:
    print('| Change | What it does | Outcome of the property\'s check |')
    print('|---|---|---|')
    for (m, title, outcome, first) in rows:
        t = re.sub(r'^(C\d\d )?([Mm]utant|change|demo|/ change) ?\d+ ?[-—:] ?', '', title)
        t = re.sub(r'^C\d\d / change \d+: ', '', t)
        o = {'detected-with-failing-input': 'VIOLATION with replay: ', 'reported-without-failing-input': 'VIOLATION … no-failing-input-found: ', 'not-reported': 'not reported (see 13.5)', 'not-run-in-the-latest-runs': 'not run in the latest runs'}[outcome]
        f = first.replace('|', '/').replace('violation: ', '')[:130] if outcome not in ('not-reported', 'not-run-in-the-latest-runs') else ''
        print('| %s | %s | %s%s |' % (m, t.replace('|', '/')[:140], o, f))
print('%d seeded changes; %s' % (len(rows), {k: sum(1 for r in rows if r[2] == k) for k in set(r[2] for r in rows)}), file=sys.stderr)
