#!/bin/sh
# For `vp run --with-repo -- tools/run_mutants_snap.sh C01 C02 ...`: runs every seeded change of the named
# properties (C01) or single changes (C01-8) through that property's quick check, against the run's own snapshot of /repo ($VP_RUN_REPO), so
# that /repo itself is never touched.  One summary line per change on stdout (same format as seeded/results.txt).
V=$(pwd); R=${VP_RUN_REPO:?needs --with-repo}
export VERIF_REPO="$R"
(cd lean && lake build Beeb beebdrv) >/dev/null 2>&1
for arg in "$@"; do
  case "$arg" in *-*) pid=${arg%-*}; pat="$arg" ;; *) pid=$arg; pat="$arg-*" ;; esac
  for d in /verif/seeded/$pat/; do
    [ -f "$d/patch.diff" ] || continue
    m=$(basename "$d")
    git -C "$R" apply "$d/patch.diff" || { echo "$m verdict=PATCH-DOES-NOT-APPLY violations=0 no_input=0 :: "; continue; }
    out=$(./check "$pid" --tier quick 2>&1 | grep -E "VIOLATION|KNOWN-FINDING| -> |violation:|break:|disagreement" | cut -c1-260 | head -8)
    git -C "$R" checkout -- .
    verdict=$(echo "$out" | grep -E " -> " | sed 's/.*-> //')
    nv=$(echo "$out" | grep -c "^VIOLATION")
    nf=$(echo "$out" | grep -c "no-failing-input-found")
    first=$(echo "$out" | grep -E "violation:|break:|disagreement" | head -1 | cut -c1-200)
    echo "$m verdict=$verdict violations=$nv no_input=$nf :: $first"
  done
  # the unchanged snapshot must be quiet again (skipped with NO_CLEAN=1)
  [ -n "$NO_CLEAN" ] && continue
  out=$(./check "$pid" --tier quick 2>&1 | grep -E "^VIOLATION| -> " | head -3 | tr '\n' ' ')
  echo "$pid-clean $out"
done
