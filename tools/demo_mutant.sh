#!/bin/sh
# usage: tools/demo_mutant.sh <dir with patch.diff and demo.sh>
# Builds /repo's HEAD + patch in a scratch worktree (removed afterwards), runs the 39 tests and the demo.
d="$1"
wt=$(mktemp -d /tmp/mutwt.XXXXXX)
git -C /repo worktree add -q --detach "$wt" HEAD || exit 2
( cd "$wt" && git apply "$d/patch.diff" ) || { echo "PATCH-DOES-NOT-APPLY"; git -C /repo worktree remove --force "$wt"; exit 3; }
cmake -S "$wt" -B "$wt/_build" -G Ninja -DCMAKE_BUILD_TYPE=Release >/dev/null 2>&1 || cmake -S "$wt" -B "$wt/_build" >/dev/null 2>&1
cmake --build "$wt/_build" -j16 >/dev/null 2>&1 || { echo "BUILD-FAILS"; git -C /repo worktree remove --force "$wt"; exit 4; }
ctest --test-dir "$wt/_build" -j8 2>&1 | grep "tests passed\|tests failed"
demo="$d/demonstration.sh"; [ -f "$demo" ] || demo="$d/demo.sh"; sh "$demo" "$wt/_build" > "$wt/demo.out" 2>&1; rc=$?
tail -5 "$wt/demo.out"
echo "DEMO-EXIT $rc"
git -C /repo worktree remove --force "$wt"
