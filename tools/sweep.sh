#!/bin/sh
# Clean-tree sweep: every claimed check at several seeds; anything but "ok" is a false alarm to be looked at.
cd /verif
ids=$(python3 -c "import json; print(' '.join(c['property_id'] for c in json.load(open('MANIFEST.json'))['checks']))")
: > /tmp/sweep.txt
for seed in "$@"; do
  for id in $ids; do
    out=$(./check "$id" --tier quick --seed "$seed" 2>&1)
    echo "$id seed=$seed $(echo "$out" | grep -E ' -> ' | sed 's/.*-> //') $(echo "$out" | grep -E 'violation:|break:|disagreement|^VIOLATION' | head -2 | cut -c1-220 | tr '\n' ' ')" >> /tmp/sweep.txt
  done
done
